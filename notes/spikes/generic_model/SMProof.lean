import Gtspike.SM
import Gtspike.Proofs
import Mathlib.LinearAlgebra.Matrix.NonsingularInverse
import Mathlib.LinearAlgebra.Matrix.SchurComplement
import Mathlib.Analysis.SpecialFunctions.Log.Basic
import Mathlib.Analysis.SpecialFunctions.Trigonometric.Basic

open GT Matrix

noncomputable instance : Transc ℝ := ⟨Real.log, Real.exp, Real.sqrt, Real.pi⟩

@[simp] theorem transc_log_real (x : ℝ) : Transc.log x = Real.log x := rfl

/-- Sherman–Morrison through the model: the cached covariance of the result is the inverse of
its precision. -/
theorem hadamardOneRankCached_sigma {D : Nat} (u : Meas D ℝ) (f : OneRank D ℝ)
    (Sig : Matrix (Fin D) (Fin D) ℝ) (ld : ℝ)
    (hS : Sig * (Matrix.of u.Lambda) = 1) (hsym : Sigᵀ = Sig)
    (hden : 1 + f.g * (Sig *ᵥ f.v ⬝ᵥ f.v) ≠ 0) :
    ∀ S', (hadamardOneRankCached u f Sig ld).Sigma = some S' →
      Matrix.of S' * Matrix.of (hadamardOneRankCached u f Sig ld).Lambda = 1 := by
  intro S' h
  simp only [hadamardOneRankCached, Option.some.injEq] at h
  subst h
  set Sv : Fin D → ℝ := Sig *ᵥ f.v with hSv
  set den : ℝ := 1 + f.g * (Sv ⬝ᵥ f.v) with hden'
  have hL : Matrix.of (fun i j => u.Lambda i j + f.Lambda i j)
      = Matrix.of u.Lambda + f.g • vecMulVec f.v f.v := by
    ext i j; simp [OneRank.Lambda, vecMulVec_apply]; ring
  have hSn : Matrix.of (fun i j => Sig i j - (f.g * (GT.mulVec Sig f.v i * GT.mulVec Sig f.v j)) /
        (1 + f.g * GT.dot (GT.mulVec Sig f.v) f.v))
      = Sig - (f.g / den) • vecMulVec Sv Sv := by
    ext i j
    simp [mulVec_eq, dot_eq, vecMulVec_apply, hSv, hden']; ring
  simp only [hadamardOneRankCached]
  rw [hL, hSn]
  have hSvv : Sig * vecMulVec f.v f.v = vecMulVec Sv f.v := by
    rw [hSv]; ext i j; simp only [vecMulVec_apply, Matrix.mul_apply, Matrix.mulVec, dotProduct, Finset.sum_mul]
    exact Finset.sum_congr rfl (fun k _ => by ring)
  have hvS : vecMulVec Sv Sv * Matrix.of u.Lambda = vecMulVec Sv f.v := by
    -- Sv Svᵀ Λ = Sv (Λ Σ v)ᵀ = Sv vᵀ  using Σ symmetric and ΣΛ = 1
    have h1 : (Matrix.of u.Lambda)ᵀ *ᵥ Sv = f.v := by
      rw [hSv, mulVec_mulVec, ← hsym, ← Matrix.transpose_mul, hS]; simp
    ext i j
    have := congrFun h1 j
    simp only [vecMulVec_apply, Matrix.mul_apply, Matrix.mulVec, dotProduct, transpose_apply] at this ⊢
    rw [← this, Finset.mul_sum]; congr 1; ext k; ring
  have hvv : vecMulVec Sv Sv * vecMulVec f.v f.v = (Sv ⬝ᵥ f.v) • vecMulVec Sv f.v := by
    ext i j
    simp only [vecMulVec_apply, Matrix.mul_apply, dotProduct, Matrix.smul_apply, smul_eq_mul, Finset.sum_mul]
    exact Finset.sum_congr rfl (fun k _ => by ring)
  rw [Matrix.sub_mul, Matrix.mul_add, Matrix.mul_add, hS, Matrix.mul_smul, Matrix.smul_mul,
    Matrix.smul_mul, Matrix.mul_smul, hSvv, hvS, hvv, smul_smul]
  have : f.g / den * (f.g * (Sv ⬝ᵥ f.v)) + f.g / den = f.g := by
    field_simp; rw [hden']; ring
  rw [sub_eq_iff_eq_add]
  congr 1
  rw [smul_smul, ← add_smul]
  congr 1
  linear_combination (-1 : ℝ) * this
