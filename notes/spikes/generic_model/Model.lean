/-! Generic executable model: no Mathlib imports. -/
namespace GT

/-- Scalar operations the model needs beyond + - * /; no laws. -/
class Transc (α : Type) where
  log : α → α
  exp : α → α
  sqrt : α → α
  pi : α

instance : Transc Float := ⟨Float.log, Float.exp, Float.sqrt, 3.14159265358979323846⟩

abbrev Vec (n : Nat) (α : Type) := Fin n → α
abbrev Mat (m n : Nat) (α : Type) := Fin m → Fin n → α

section
variable {α : Type} [Add α] [Mul α] [Sub α] [Neg α] [Div α] [OfNat α 0] [OfNat α 1]

def vsum {n : Nat} (f : Fin n → α) : α := (List.ofFn f).foldl (· + ·) 0

def dot {n} (u v : Vec n α) : α := vsum fun i => u i * v i
def mulVec {m n} (A : Mat m n α) (v : Vec n α) : Vec m α := fun i => vsum fun j => A i j * v j
def mmul {m n k} (A : Mat m n α) (B : Mat n k α) : Mat m k α := fun i j => vsum fun l => A i l * B l j

/-- materialise a vector (identity function, forces evaluation into an array) -/
def Vec.memo {n} (v : Vec n α) : Vec n α :=
  let a := Array.ofFn v
  fun i => a[i.1]'(by simp [a])

structure Factor (D : Nat) (α : Type) where
  Lambda : Mat D D α
  nu : Vec D α
  lnBeta : α

def half : α := (1 : α) / ((1 : α) + 1)

def Factor.evalLn {D} (f : Factor D α) (x : Vec D α) : α :=
  (-(half * dot x (mulVec f.Lambda x))) + dot x f.nu + f.lnBeta

def Factor.mul {D} (f g : Factor D α) : Factor D α :=
  ⟨fun i j => f.Lambda i j + g.Lambda i j, fun i => f.nu i + g.nu i, f.lnBeta + g.lnBeta⟩
end
end GT
