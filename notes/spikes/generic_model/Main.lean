import Gtspike.Model
open GT
def main : IO Unit := do
  let f : Factor 2 Float := ⟨fun i j => if i == j then 2.0 else 0.5, fun _ => 1.0, 0.25⟩
  let x : Vec 2 Float := fun i => if i.1 == 0 then 0.5 else -1.5
  IO.println ((f.mul f).evalLn x)
  IO.println (Float.ofBits (0x3FF8000000000000 : UInt64))
  IO.println ((1.5 : Float).toBits)
