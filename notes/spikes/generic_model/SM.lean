import Gtspike.Model
namespace GT
section
variable {α : Type} [Add α] [Mul α] [Sub α] [Neg α] [Div α] [OfNat α 0] [OfNat α 1] [Transc α]

/-- one component of a Gaussian measure with optional caches (trimmed) -/
structure Meas (D : Nat) (α : Type) where
  Lambda : Mat D D α
  nu : Vec D α
  lnBeta : α
  Sigma : Option (Mat D D α)
  lnDetSigma : Option α

structure OneRank (D : Nat) (α : Type) where
  v : Vec D α
  g : α
  nu : Vec D α
  lnBeta : α

def OneRank.Lambda {D} (f : OneRank D α) : Mat D D α := fun i j => f.v i * (f.g * f.v j)

/-- `OneRankFactor._hadamard_with_measure`, branch `update_full ∧ measure.Sigma is not None` -/
def hadamardOneRankCached {D} (u : Meas D α) (f : OneRank D α) (Sig : Mat D D α) (ld : α) : Meas D α :=
  let Sv : Vec D α := mulVec Sig f.v                      -- einsum("abc,ac->ab")
  let vSv : α := dot Sv f.v
  let den : α := 1 + f.g * vSv
  let SigNew : Mat D D α := fun i j => Sig i j - (f.g * (Sv i * Sv j)) / den
  { Lambda := fun i j => u.Lambda i j + f.Lambda i j
    nu := fun i => u.nu i + f.nu i
    lnBeta := u.lnBeta + f.lnBeta
    Sigma := some SigNew
    lnDetSigma := some (ld - Transc.log den) }
end
end GT
