import Gtspike.Model
import Mathlib.Data.Matrix.Mul
import Mathlib.Data.Real.Basic
import Mathlib.Algebra.BigOperators.Fin
import Mathlib.Tactic.Ring

open GT

theorem vsum_eq_sum {n : Nat} (f : Fin n → ℝ) : vsum f = ∑ i, f i := by
  unfold vsum
  rw [← List.sum_ofFn, List.sum_eq_foldl]

theorem dot_eq {n} (u v : Fin n → ℝ) : dot u v = u ⬝ᵥ v := by
  simp [dot, vsum_eq_sum, dotProduct]

theorem mulVec_eq {m n} (A : Matrix (Fin m) (Fin n) ℝ) (v : Fin n → ℝ) : GT.mulVec A v = A.mulVec v := by
  funext i; simp [GT.mulVec, vsum_eq_sum, Matrix.mulVec, dotProduct]

theorem evalLn_mul {D} (f g : Factor D ℝ) (x : Fin D → ℝ) :
    (f.mul g).evalLn x = f.evalLn x + g.evalLn x := by
  simp only [Factor.evalLn, Factor.mul, dot, GT.mulVec, vsum_eq_sum, half]
  simp only [add_mul, mul_add, Finset.sum_add_distrib, Finset.mul_sum]
  ring

#print axioms evalLn_mul
