import warnings; warnings.filterwarnings("ignore")
import jax
jax.config.update("jax_enable_x64", True)
import jax.numpy as jnp, numpy as np
from gaussian_toolbox import pdf, conditional, factor, measure, approximate_conditional as ac
from gaussian_toolbox.experimental import truncated_measure as tm
rng = np.random.default_rng(2)
def spd(R,D):
    A = rng.normal(size=(R,D,D)); return jnp.asarray(A@A.transpose(0,2,1)+D*np.eye(D))
def lognorm(x,mu,S):
    d=x-mu; D=len(mu); return -0.5*(d@np.linalg.solve(S,d)+D*np.log(2*np.pi)+np.linalg.slogdet(S)[1])
J=jnp.asarray
# identity set_y batch
D=2; N=3
ci=conditional.ConditionalIdentityGaussianPDF(Sigma=spd(1,D))
y=J(rng.normal(size=(N,D)))
f=ci.set_y(y); print("identity set_y shapes", f.Lambda.shape, f.nu.shape, f.ln_beta.shape, "R=",f.R)
try:
    print(" product Lambda", f.product().Lambda, "expected", 3*ci.Lambda)
except Exception as e: print(" product raises",e)
# identity batched transformations
for (Rc,Rx) in [(1,3),(3,1)]:
    ci=conditional.ConditionalIdentityGaussianPDF(Sigma=spd(Rc,D))
    cg=conditional.ConditionalGaussianPDF(M=jnp.tile(jnp.eye(D)[None],(Rc,1,1)),Sigma=ci.Sigma)
    px=pdf.GaussianPDF(Sigma=spd(Rx,D),mu=J(rng.normal(size=(Rx,D))))
    for name in ["affine_joint_transformation","affine_marginal_transformation","affine_conditional_transformation"]:
        try:
            a=getattr(ci,name)(px)
        except Exception as e:
            print("identity",name,Rc,Rx,"RAISES",type(e).__name__,str(e)[:60]); continue
        try:
            b=getattr(cg,name)(px)
        except Exception as e:
            print("general",name,Rc,Rx,"RAISES",type(e).__name__,str(e)[:60]); continue
        ok=all(np.allclose(np.array(getattr(a,k)),np.array(getattr(b,k))) for k in (["M","b","Sigma","Lambda","ln_det_Sigma"] if "cond" in name else ["mu","Sigma","Lambda","ln_det_Sigma","nu","ln_beta"]) if np.array(getattr(a,k)).shape==np.array(getattr(b,k)).shape) and a.Sigma.shape==b.Sigma.shape
        print("identity vs general",name,Rc,Rx,"agree" if ok else "*** DIFFER", a.Sigma.shape, b.Sigma.shape)
# heteroscedastic precision
for (Dy,Da,Dk) in [(2,2,2),(2,3,2),(2,3,3)]:
    Dx=2
    h=ac.HeteroscedasticExpConditional(M=J(rng.normal(size=(1,Dy,Dx))),b=J(rng.normal(size=(1,Dy))),A=J(rng.normal(size=(1,Dy,Da))),W=J(0.5*rng.normal(size=(Dk,Dx+1))))
    x=J(rng.normal(size=(2,Dx)))
    try:
        p=h.condition_on_x(x)
        print("hetero",Dy,Da,Dk,"SL=I",np.allclose(np.array(p.Sigma)@np.array(p.Lambda),np.eye(Dy),atol=1e-8),"lndet",np.allclose(np.linalg.slogdet(np.array(p.Sigma))[1],np.array(p.ln_det_Sigma)))
    except Exception as e: print("hetero",Dy,Da,Dk,"RAISES",type(e).__name__,str(e)[:80])
# LSEM offset sign
Dx,Dy,Dk=2,1,1
W=J(np.array([[0.7,1.0,0.0]]))  # w0=0.7, w=(1,0): arg = x1+0.7, vanishes at x1=-0.7
l=ac.LSEMGaussianConditional(M=J(np.array([[[0.,0.,1.]]])),b=J(np.zeros((1,1))),W=W,Sigma=J(np.eye(1)[None]))
print("LSEM mean at x1=-0.7:", l.get_conditional_mu(J(np.array([[-0.7,0.]]))), " at x1=+0.7:", l.get_conditional_mu(J(np.array([[0.7,0.]]))))
# RBF
r=ac.LRBFGaussianConditional(M=J(np.array([[[0.,0.,1.]]])),b=J(np.zeros((1,1))),mu=J(np.array([[0.3,-0.4]])),length_scale=J(np.array([[0.5,2.0]])),Sigma=J(np.eye(1)[None]))
print("RBF mean at centre:", r.get_conditional_mu(J(np.array([[0.3,-0.4]]))))
# truncated pdf built on unnormalised measure
m=measure.GaussianMeasure(Lambda=J(np.array([[[2.0]]])),nu=J(np.array([[0.5]])),ln_beta=J(np.array([1.3])))
t=tm.TruncatedGaussianPDF(measure=m,lower_limit=J(np.array([[-0.5]])),upper_limit=J(np.array([[1.0]])))
xs=np.linspace(-0.5,1.0,20001)[:,None]
vals=np.array(t(J(xs)))[0]
print("truncPDF on unnormalised measure integrates to", np.trapezoid(vals,xs[:,0]), " measure mass", float(m.integral()[0]))
t2=tm.TruncatedGaussianMeasure(measure=m,lower_limit=J(np.array([[-0.5]])),upper_limit=J(np.array([[1.0]]))).get_density()
vals=np.array(t2(J(xs)))[0]; print("  via get_density integrates to", np.trapezoid(vals,xs[:,0]))
