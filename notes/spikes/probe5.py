import warnings; warnings.filterwarnings("ignore")
import jax, types
jax.config.update("jax_enable_x64", True)
# monkeypatch jax.util.unzip2
jax.util = types.SimpleNamespace(unzip2=lambda xys: (tuple(x for x,_ in xys), tuple(y for _,y in xys)))
import jax.numpy as jnp, numpy as np
from gaussian_toolbox import pdf, conditional, factor, measure, approximate_conditional as ac
from gaussian_toolbox.experimental import truncated_measure as tm
J=jnp.asarray
rng=np.random.default_rng(3)
def spd(R,D):
    A = rng.normal(size=(R,D,D)); return J(A@A.transpose(0,2,1)+D*np.eye(D))
D=2;R=2
objs={
 "ConjugateFactor":factor.ConjugateFactor(Lambda=spd(R,D),nu=J(rng.normal(size=(R,D))),ln_beta=J(rng.normal(size=(R,)))),
 "OneRankFactor":factor.OneRankFactor(v=J(rng.normal(size=(R,D))),g=J(rng.uniform(size=(R,))),nu=J(rng.normal(size=(R,D))),ln_beta=J(rng.normal(size=(R,)))),
 "LinearFactor":factor.LinearFactor(nu=J(rng.normal(size=(R,D))),ln_beta=J(rng.normal(size=(R,)))),
 "ConstantFactor":factor.ConstantFactor(ln_beta=J(rng.normal(size=(R,))),num_dim=D),
 "GaussianMeasure":measure.GaussianMeasure(Lambda=spd(R,D),nu=J(rng.normal(size=(R,D))),ln_beta=J(rng.normal(size=(R,)))),
 "GaussianDiagMeasure":measure.GaussianDiagMeasure(Lambda=J(np.stack([np.diag(rng.uniform(1,2,size=D)) for _ in range(R)])),nu=J(rng.normal(size=(R,D)))),
 "GaussianPDF":pdf.GaussianPDF(Sigma=spd(R,D),mu=J(rng.normal(size=(R,D)))),
 "GaussianDiagPDF":pdf.GaussianDiagPDF(Sigma=J(np.stack([np.diag(rng.uniform(1,2,size=D)) for _ in range(R)])),mu=J(rng.normal(size=(R,D)))),
 "ConditionalGaussianPDF":conditional.ConditionalGaussianPDF(M=J(rng.normal(size=(R,D,3))),b=J(rng.normal(size=(R,D))),Sigma=spd(R,D)),
 "ConditionalIdentity":conditional.ConditionalIdentityGaussianPDF(Sigma=spd(R,D)),
}
m2=measure.GaussianMeasure(Lambda=spd(R,D),nu=J(rng.normal(size=(R,D))),ln_beta=J(rng.normal(size=(R,)))); m2.integral()
objs["GaussianMeasure(cached)"]=m2
x=J(rng.normal(size=(3,D)))
for n,o in objs.items():
    try:
        leaves,td=jax.tree_util.tree_flatten(o)
        o2=jax.tree_util.tree_unflatten(td,leaves)
        if hasattr(o,"evaluate_ln"):
            ok=np.allclose(o.evaluate_ln(x),o2.evaluate_ln(x))
        else:
            ok=all(np.allclose(getattr(o,k),getattr(o2,k)) for k in ["M","b","Sigma","Lambda","ln_det_Sigma"])
        print(n,"roundtrip", "ok" if ok else "*** differs", "nleaves",len(leaves))
    except Exception as e:
        print(n,"RAISES",type(e).__name__,str(e)[:90])
# jit with object arg
try:
    f=jax.jit(lambda p: p.integrate("x"))
    print("jit pdf arg:", np.allclose(f(objs["GaussianPDF"]),objs["GaussianPDF"].integrate("x")))
except Exception as e: print("jit RAISES",type(e).__name__,str(e)[:200])
