import Mathlib.Tactic.Ring
import Mathlib.Data.Real.Basic

/-- fourth moment of a Gaussian with mean m and variance v -/
def g4 (m v : ℝ) : ℝ := m ^ 4 + 6 * m ^ 2 * v + 3 * v ^ 2

/-- polarisation of the 4th moment gives Isserlis for four jointly Gaussian forms
(means m_i, covariances c_ij). -/
theorem isserlis4_polarisation
    (m1 m2 m3 m4 c11 c22 c33 c44 c12 c13 c14 c23 c24 c34 : ℝ) :
    let M := fun (e1 e2 e3 e4 : ℝ) => e1*m1 + e2*m2 + e3*m3 + e4*m4
    let V := fun (e1 e2 e3 e4 : ℝ) => e1*e1*c11 + e2*e2*c22 + e3*e3*c33 + e4*e4*c44
        + 2*(e1*e2*c12 + e1*e3*c13 + e1*e4*c14 + e2*e3*c23 + e2*e4*c24 + e3*e4*c34)
    let T := fun (e1 e2 e3 e4 : ℝ) => e1*e2*e3*e4 * g4 (M e1 e2 e3 e4) (V e1 e2 e3 e4)
    (T 1 1 1 1 + T 1 1 1 (-1) + T 1 1 (-1) 1 + T 1 1 (-1) (-1)
      + T 1 (-1) 1 1 + T 1 (-1) 1 (-1) + T 1 (-1) (-1) 1 + T 1 (-1) (-1) (-1)
      + T (-1) 1 1 1 + T (-1) 1 1 (-1) + T (-1) 1 (-1) 1 + T (-1) 1 (-1) (-1)
      + T (-1) (-1) 1 1 + T (-1) (-1) 1 (-1) + T (-1) (-1) (-1) 1 + T (-1) (-1) (-1) (-1)) / 384
    = m1*m2*m3*m4 + c12*m3*m4 + c13*m2*m4 + c14*m2*m3 + c23*m1*m4 + c24*m1*m3 + c34*m1*m2
      + c12*c34 + c13*c24 + c14*c23 := by
  simp only [g4]; ring
