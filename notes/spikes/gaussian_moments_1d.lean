import Mathlib.Probability.Distributions.Gaussian.Real
import Mathlib.Probability.Moments.MGFAnalytic

open MeasureTheory ProbabilityTheory Real
open scoped NNReal

/-- derivative of `P(t) * exp(m t + v t²/2)` -/
lemma hasDerivAt_mul_exp_quad (m v : ℝ) (P P' : ℝ → ℝ) (t : ℝ) (hP : HasDerivAt P (P' t) t) :
    HasDerivAt (fun s => P s * rexp (m * s + v * s ^ 2 / 2))
      ((P' t + P t * (m + v * t)) * rexp (m * t + v * t ^ 2 / 2)) t := by
  have h1 : HasDerivAt (fun s : ℝ => m * s) m t := by
    simpa using (hasDerivAt_id t).const_mul m
  have h2 : HasDerivAt (fun s : ℝ => v * s ^ 2 / 2) (v * t) t :=
    (((hasDerivAt_pow 2 t).const_mul v).div_const 2).congr_deriv (by push_cast; ring)
  have hg : HasDerivAt (fun s => m * s + v * s ^ 2 / 2) (m + v * t) t := h1.add h2
  exact (hP.mul hg.exp).congr_deriv (by ring)

theorem gaussianReal_moments (m : ℝ) (v : ℝ≥0) :
    (∫ x, x ∂(gaussianReal m v) = m) ∧
    (∫ x, x ^ 2 ∂(gaussianReal m v) = m ^ 2 + v) ∧
    (∫ x, x ^ 3 ∂(gaussianReal m v) = m ^ 3 + 3 * m * v) ∧
    (∫ x, x ^ 4 ∂(gaussianReal m v) = m ^ 4 + 6 * m ^ 2 * v + 3 * v ^ 2) := by
  have h0 : (0:ℝ) ∈ interior (integrableExpSet id (gaussianReal m v)) := by
    simp [integrableExpSet_id_gaussianReal]
  have hm : ∀ n, iteratedDeriv n (mgf id (gaussianReal m v)) 0 = ∫ x, x ^ n ∂(gaussianReal m v) := by
    intro n; rw [iteratedDeriv_mgf_zero h0 n]; simp
  set g : ℝ → ℝ := fun s => rexp (m * s + (v:ℝ) * s ^ 2 / 2) with hg
  have hmgf : mgf id (gaussianReal m v) = g := mgf_id_gaussianReal
  let L : ℝ → ℝ := fun t => m + v * t
  have hL : ∀ t, HasDerivAt L (v:ℝ) t := by
    intro t; simpa [L] using ((hasDerivAt_id t).const_mul (v:ℝ)).const_add m
  have d1 : deriv g = fun t => L t * g t := by
    funext t
    have := hasDerivAt_mul_exp_quad m v (fun _ => 1) (fun _ => 0) t (hasDerivAt_const t 1)
    simpa [g, L] using this.deriv
  have d2 : deriv (fun t => L t * g t) = fun t => (L t ^ 2 + v) * g t := by
    funext t
    have := hasDerivAt_mul_exp_quad m v L (fun _ => v) t (hL t)
    rw [this.deriv]; simp only [g, L]; ring
  have d3 : deriv (fun t => (L t ^ 2 + v) * g t) = fun t => (L t ^ 3 + 3 * v * L t) * g t := by
    funext t
    have hP : HasDerivAt (fun t => L t ^ 2 + v) (2 * L t * v) t := by
      exact (((hL t).pow 2).add_const (v:ℝ)).congr_deriv (by push_cast; ring)
    have := hasDerivAt_mul_exp_quad m v (fun t => L t ^ 2 + v) (fun t => 2 * L t * v) t hP
    rw [this.deriv]; simp only [g, L]; ring
  have d4 : deriv (fun t => (L t ^ 3 + 3 * v * L t) * g t)
      = fun t => (L t ^ 4 + 6 * v * L t ^ 2 + 3 * v ^ 2) * g t := by
    funext t
    have hP : HasDerivAt (fun t => L t ^ 3 + 3 * v * L t) (3 * L t ^ 2 * v + 3 * v * v) t := by
      exact (((hL t).pow 3).add ((hL t).const_mul (3 * (v:ℝ)))).congr_deriv (by push_cast; ring)
    have := hasDerivAt_mul_exp_quad m v (fun t => L t ^ 3 + 3 * v * L t)
      (fun t => 3 * L t ^ 2 * v + 3 * v * v) t hP
    rw [this.deriv]; simp only [g, L]; ring
  have g0 : g 0 = 1 := by simp [g]
  have L0 : L 0 = m := by simp [L]
  refine ⟨?_, ?_, ?_, ?_⟩
  · have := hm 1
    rw [hmgf, iteratedDeriv_one, d1] at this
    simpa [g0, L0] using this.symm
  · have := hm 2
    rw [hmgf, iteratedDeriv_succ, iteratedDeriv_one, d1, d2] at this
    simpa [g0, L0] using this.symm
  · have := hm 3
    rw [hmgf, iteratedDeriv_succ, iteratedDeriv_succ, iteratedDeriv_one, d1, d2, d3] at this
    rw [← this]; simp [g0, L0]; ring
  · have := hm 4
    rw [hmgf, iteratedDeriv_succ, iteratedDeriv_succ, iteratedDeriv_succ, iteratedDeriv_one,
      d1, d2, d3, d4] at this
    rw [← this]; simp [g0, L0]; ring
