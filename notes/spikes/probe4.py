import warnings; warnings.filterwarnings("ignore")
import jax
jax.config.update("jax_enable_x64", True)
import jax.numpy as jnp, numpy as np
from gaussian_toolbox import pdf, conditional, factor, measure
J=jnp.asarray
rng=np.random.default_rng(3)
def spd(R,D):
    A = rng.normal(size=(R,D,D)); return J(A@A.transpose(0,2,1)+D*np.eye(D))
# hadamard broadcast
D=2
u1=measure.GaussianMeasure(Lambda=spd(1,D),nu=J(rng.normal(size=(1,D))),ln_beta=J(rng.normal(size=(1,))))
u3=measure.GaussianMeasure(Lambda=spd(3,D),nu=J(rng.normal(size=(3,D))),ln_beta=J(rng.normal(size=(3,))))
x=J(rng.normal(size=(4,D)))
facs={"general1":factor.ConjugateFactor(Lambda=spd(1,D),nu=J(rng.normal(size=(1,D))),ln_beta=J(rng.normal(size=(1,)))),
"general3":factor.ConjugateFactor(Lambda=spd(3,D),nu=J(rng.normal(size=(3,D))),ln_beta=J(rng.normal(size=(3,)))),
"onerank1":factor.OneRankFactor(v=J(rng.normal(size=(1,D))),g=J(rng.uniform(size=(1,))),nu=J(rng.normal(size=(1,D))),ln_beta=J(rng.normal(size=(1,)))),
"onerank3":factor.OneRankFactor(v=J(rng.normal(size=(3,D))),g=J(rng.uniform(size=(3,))),nu=J(rng.normal(size=(3,D))),ln_beta=J(rng.normal(size=(3,)))),
"linear1":factor.LinearFactor(nu=J(rng.normal(size=(1,D))),ln_beta=J(rng.normal(size=(1,)))),
"linear3":factor.LinearFactor(nu=J(rng.normal(size=(3,D))),ln_beta=J(rng.normal(size=(3,)))),
"const1":factor.ConstantFactor(ln_beta=J(rng.normal(size=(1,))),num_dim=D),
"const3":factor.ConstantFactor(ln_beta=J(rng.normal(size=(3,))),num_dim=D),
}
for un,u in [("u1",u1),("u3",u3)]:
  for fn,f in facs.items():
    for uf in [False,True]:
      for cached in [False,True]:
        uu=u.slice(jnp.arange(u.R))
        if cached: uu.integral()
        try:
            h=uu.hadamard(f,update_full=uf)
            ref=uu.evaluate_ln(x)+f.evaluate_ln(x)
            got=h.evaluate_ln(x)
            ok=got.shape==ref.shape and np.allclose(got,ref)
            extra=""
            try:
                li=h.log_integral()
                extra=f"R={h.R} logint shape {li.shape}"
                # check vs independent
                n=ref.shape[0]
                Lam=np.broadcast_to(np.array(uu.Lambda+f.Lambda),(n,D,D)); nu=np.broadcast_to(np.array(uu.nu+f.nu),(n,D)); lb=np.broadcast_to(np.array(uu.ln_beta+f.ln_beta),(n,))
                refli=np.array([lb[i]+0.5*(nu[i]@np.linalg.solve(Lam[i],nu[i])+D*np.log(2*np.pi)-np.linalg.slogdet(Lam[i])[1]) for i in range(n)])
                if not (li.shape==refli.shape and np.allclose(li,refli)): extra+=" *** LOGINT WRONG"
            except Exception as e: extra="logint RAISES "+type(e).__name__+str(e)[:50]
            if not ok or "***" in extra or "RAISES" in extra: print(un,fn,"uf",uf,"cached",cached,"eval ok" if ok else "*** EVAL MISMATCH",extra)
        except Exception as e:
            print(un,fn,"uf",uf,"cached",cached,"RAISES",type(e).__name__,str(e)[:70])
print("take neg:", jnp.take(jnp.arange(5.),jnp.array([-1,0,4,-5]),axis=0), jnp.take(jnp.arange(5.),jnp.array([5,-6]),axis=0))
