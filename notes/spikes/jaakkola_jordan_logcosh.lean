import Mathlib.Analysis.SpecialFunctions.Trigonometric.DerivHyp
import Mathlib.Analysis.SpecialFunctions.Log.Deriv
import Mathlib.Analysis.Calculus.Deriv.MeanValue

open Real Set

/-- `N t = t * sinh ω * cosh t - ω * sinh t * cosh ω` has the sign of `t - ω` on `t ≥ 0`
because `t ↦ sinh t / (t cosh t)` is antitone.  We prove the sign statement through the
auxiliary `q t = t * cosh t / sinh t`-free form: `r t = t * cosh t - sinh t * (c)`. -/
lemma sinh_cosh_ge (t : ℝ) (ht : 0 ≤ t) : t ≤ sinh t * cosh t := by
  have h1 : t ≤ sinh t := self_le_sinh_iff.2 ht
  have h2 : 1 ≤ cosh t := one_le_cosh t
  have h3 : 0 ≤ sinh t := sinh_nonneg_iff.2 ht
  nlinarith

/-- `ψ t = sinh t / (t * cosh t)` is antitone on `(0, ∞)`. -/
lemma psi_antitone : AntitoneOn (fun t : ℝ => sinh t / (t * cosh t)) (Ioi 0) := by
  have hden : ∀ t ∈ Ioi (0:ℝ), t * cosh t ≠ 0 := fun t ht =>
    mul_ne_zero (ne_of_gt ht) (ne_of_gt (cosh_pos t))
  have hderiv : ∀ t ∈ Ioi (0:ℝ), HasDerivAt (fun t : ℝ => sinh t / (t * cosh t))
      ((cosh t * (t * cosh t) - sinh t * (1 * cosh t + t * sinh t)) / (t * cosh t) ^ 2) t := by
    intro t ht
    exact (hasDerivAt_sinh t).div ((hasDerivAt_id t).mul (hasDerivAt_cosh t)) (hden t ht)
  refine antitoneOn_of_deriv_nonpos (convex_Ioi 0) ?_ ?_ ?_
  · intro t ht; exact (hderiv t ht).continuousAt.continuousWithinAt
  · intro t ht; rw [interior_Ioi] at ht
    exact (hderiv t ht).differentiableAt.differentiableWithinAt
  · intro t ht; rw [interior_Ioi] at ht
    rw [(hderiv t ht).deriv]
    apply div_nonpos_of_nonpos_of_nonneg _ (sq_nonneg _)
    have := sinh_cosh_ge t (le_of_lt ht)
    have hcs : cosh t ^ 2 - sinh t ^ 2 = 1 := by rw [cosh_sq t]; ring
    have hnum : cosh t * (t * cosh t) - sinh t * (1 * cosh t + t * sinh t)
        = t * (cosh t ^ 2 - sinh t ^ 2) - sinh t * cosh t := by ring
    rw [hnum, hcs]; linarith

/-- **Jaakkola–Jordan bound**: for `ω > 0` and all `h`,
`log cosh h ≤ log cosh ω + tanh ω / (2 ω) * (h² − ω²)`, with equality at `h = ±ω`. -/
theorem log_cosh_le (h ω : ℝ) (hω : 0 < ω) :
    log (cosh h) ≤ log (cosh ω) + (sinh ω / (ω * cosh ω)) / 2 * (h ^ 2 - ω ^ 2) := by
  -- reduce to h ≥ 0
  wlog hh : 0 ≤ h generalizing h
  · have := this (-h) (by linarith)
    simpa [cosh_neg] using this
  set c : ℝ := sinh ω / (ω * cosh ω) with hc
  -- G t = log cosh ω + c/2 (t² − ω²) − log cosh t, G ω = 0, G' t = c t − sinh t / cosh t
  let G : ℝ → ℝ := fun t => log (cosh ω) + c / 2 * (t ^ 2 - ω ^ 2) - log (cosh t)
  have hG' : ∀ t, HasDerivAt G (c * t - sinh t / cosh t) t := by
    intro t
    have h1 : HasDerivAt (fun t : ℝ => c / 2 * (t ^ 2 - ω ^ 2)) (c * t) t :=
      ((((hasDerivAt_pow 2 t).sub_const (ω ^ 2)).const_mul (c / 2))).congr_deriv (by push_cast; ring)
    have h2 : HasDerivAt (fun t : ℝ => log (cosh t)) (sinh t / cosh t) t :=
      (hasDerivAt_cosh t).log (ne_of_gt (cosh_pos t))
    exact ((h1.const_add (log (cosh ω))).sub h2)
  have hGω : G ω = 0 := by simp [G]
  -- sign of G'
  have hsign_le : ∀ t, 0 < t → t ≤ ω → c * t - sinh t / cosh t ≤ 0 := by
    intro t ht htω
    have := psi_antitone (mem_Ioi.2 ht) (mem_Ioi.2 hω) htω
    simp only at this
    have hct : 0 < cosh t := cosh_pos t
    have h3 : c * t ≤ sinh t / cosh t := by
      have : c ≤ sinh t / (t * cosh t) := by rw [hc]; exact this
      calc c * t ≤ sinh t / (t * cosh t) * t := by gcongr
        _ = sinh t / cosh t := by field_simp
    linarith
  have hsign_ge : ∀ t, ω ≤ t → 0 ≤ c * t - sinh t / cosh t := by
    intro t htω
    have ht : 0 < t := lt_of_lt_of_le hω htω
    have := psi_antitone (mem_Ioi.2 hω) (mem_Ioi.2 ht) htω
    simp only at this
    have hct : 0 < cosh t := cosh_pos t
    have h3 : sinh t / cosh t ≤ c * t := by
      calc sinh t / cosh t = sinh t / (t * cosh t) * t := by field_simp
        _ ≤ c * t := by gcongr
    linarith
  -- G is antitone on [0, ω] and monotone on [ω, ∞)
  have hanti : AntitoneOn G (Icc 0 ω) := by
    refine antitoneOn_of_deriv_nonpos (convex_Icc 0 ω) ?_ ?_ ?_
    · intro t _; exact (hG' t).continuousAt.continuousWithinAt
    · intro t _; exact (hG' t).differentiableAt.differentiableWithinAt
    · intro t ht; rw [interior_Icc] at ht
      rw [(hG' t).deriv]; exact hsign_le t ht.1 (le_of_lt ht.2)
  have hmono : MonotoneOn G (Ici ω) := by
    refine monotoneOn_of_deriv_nonneg (convex_Ici ω) ?_ ?_ ?_
    · intro t _; exact (hG' t).continuousAt.continuousWithinAt
    · intro t _; exact (hG' t).differentiableAt.differentiableWithinAt
    · intro t ht; rw [interior_Ici] at ht
      rw [(hG' t).deriv]; exact hsign_ge t (le_of_lt ht)
  have hGh : 0 ≤ G h := by
    rcases le_total h ω with hle | hge
    · have := hanti ⟨hh, hle⟩ ⟨le_of_lt hω, le_refl ω⟩ hle
      linarith
    · have := hmono (mem_Ici.2 (le_refl ω)) (mem_Ici.2 hge) hge
      linarith
  simp only [G] at hGh
  linarith
