import Mathlib.LinearAlgebra.Matrix.SchurComplement
import Mathlib.Tactic.Abel
import Mathlib.Data.Real.Basic
open Matrix

variable {m n : Type*} [Fintype m] [Fintype n] [DecidableEq m] [DecidableEq n]

theorem joint_cov_mul_prec (Sx Lx : Matrix m m ℝ) (Sy Ly : Matrix n n ℝ) (M : Matrix n m ℝ)
    (hx : Sx * Lx = 1) (hy : Sy * Ly = 1) :
    fromBlocks Sx (Sx * Mᵀ) (M * Sx) (Sy + M * Sx * Mᵀ)
      * fromBlocks (Lx + Mᵀ * Ly * M) (-(Mᵀ * Ly)) (-(Ly * M)) Ly = 1 := by
  rw [fromBlocks_multiply, ← fromBlocks_one]
  congr 1
  · simp only [Matrix.mul_add, Matrix.mul_neg, hx, Matrix.mul_assoc]; abel
  · simp only [Matrix.mul_neg, Matrix.mul_assoc]; abel
  · simp only [Matrix.mul_add, Matrix.add_mul, Matrix.mul_neg, Matrix.mul_assoc, hx]
    rw [← Matrix.mul_assoc Sy, hy]; simp
  · simp only [Matrix.add_mul, Matrix.mul_neg, Matrix.mul_assoc, hy]; abel

theorem joint_det (Sx : Matrix m m ℝ) (Sy : Matrix n n ℝ) (M : Matrix n m ℝ) [Invertible Sx] :
    (fromBlocks Sx (Sx * Mᵀ) (M * Sx) (Sy + M * Sx * Mᵀ)).det = Sx.det * Sy.det := by
  rw [det_fromBlocks₁₁]
  congr 2
  have : M * Sx * ⅟Sx * (Sx * Mᵀ) = M * Sx * Mᵀ := by
    rw [Matrix.mul_assoc M, Matrix.mul_invOf_self, Matrix.mul_one, ← Matrix.mul_assoc]
  rw [this]; abel
