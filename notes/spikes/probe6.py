import warnings; warnings.filterwarnings("ignore")
import jax
jax.config.update("jax_enable_x64", True)
import jax.numpy as jnp, numpy as np
from gaussian_toolbox import pdf, conditional, factor, measure
J=jnp.asarray
rng=np.random.default_rng(3)
def spd(R,D):
    A = rng.normal(size=(R,D,D)); return J(A@A.transpose(0,2,1)+D*np.eye(D))
D=2;R=2
objs={
 "ConjugateFactor":factor.ConjugateFactor(Lambda=spd(R,D),nu=J(rng.normal(size=(R,D))),ln_beta=J(rng.normal(size=(R,)))),
 "OneRankFactor":factor.OneRankFactor(v=J(rng.normal(size=(R,D))),g=J(rng.uniform(size=(R,))),nu=J(rng.normal(size=(R,D))),ln_beta=J(rng.normal(size=(R,)))),
 "LinearFactor":factor.LinearFactor(nu=J(rng.normal(size=(R,D))),ln_beta=J(rng.normal(size=(R,)))),
 "ConstantFactor":factor.ConstantFactor(ln_beta=J(rng.normal(size=(R,))),num_dim=D),
 "GaussianMeasure":measure.GaussianMeasure(Lambda=spd(R,D),nu=J(rng.normal(size=(R,D))),ln_beta=J(rng.normal(size=(R,)))),
 "GaussianPDF":pdf.GaussianPDF(Sigma=spd(R,D),mu=J(rng.normal(size=(R,D)))),
 "GaussianDiagPDF":pdf.GaussianDiagPDF(Sigma=J(np.stack([np.diag(rng.uniform(1,2,size=D)) for _ in range(R)])),mu=J(rng.normal(size=(R,D)))),
}
x=J(rng.normal(size=(3,D)))
for n,o in objs.items():
    try:
        o2=type(o).from_dict(o.to_dict())
        print(n,"dict roundtrip", "ok" if np.allclose(o.evaluate_ln(x),o2.evaluate_ln(x)) else "*** differs")
    except Exception as e:
        print(n,"dict RAISES",type(e).__name__,str(e)[:90])
# slice of hadamard-broadcast object
u1=measure.GaussianMeasure(Lambda=spd(1,D),nu=J(rng.normal(size=(1,D))))
h=u1.hadamard(factor.LinearFactor(nu=J(rng.normal(size=(3,D)))),update_full=True)
print("hadamard(u1,linear3) R=",h.R, "slice([2]) Lambda:", np.array(h.slice(jnp.array([2])).Lambda).ravel()[:2])
# KL R=1 vs n
p=pdf.GaussianPDF(Sigma=spd(1,D),mu=J(rng.normal(size=(1,D)))); q=pdf.GaussianPDF(Sigma=spd(3,D),mu=J(rng.normal(size=(3,D))))
print("KL shapes", p.kl_divergence(q).shape, q.kl_divergence(p).shape)
# condition_on unsorted, R>1
pj=pdf.GaussianPDF(Sigma=spd(2,4),mu=J(rng.normal(size=(2,4))))
c=pj.condition_on(jnp.array([3,1])); print("cond_on unsorted M shape",c.M.shape)
