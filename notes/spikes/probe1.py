import jax
jax.config.update("jax_enable_x64", True)
import jax.numpy as jnp, numpy as np
from gaussian_toolbox import pdf, conditional, factor, measure, approximate_conditional as ac
from gaussian_toolbox.experimental import truncated_measure as tm
rng = np.random.default_rng(0)
def spd(R,D):
    A = rng.normal(size=(R,D,D)); return jnp.asarray(A@A.transpose(0,2,1)+D*np.eye(D))
def lognorm(x,mu,S):
    d=x-mu; D=len(mu); return -0.5*(d@np.linalg.solve(S,d)+D*np.log(2*np.pi)+np.linalg.slogdet(S)[1])
# C10: set_y Dx != Dy
Dx,Dy=3,2
M=jnp.asarray(rng.normal(size=(1,Dy,Dx))); b=jnp.asarray(rng.normal(size=(1,Dy))); S=spd(1,Dy)
c=conditional.ConditionalGaussianPDF(M=M,b=b,Sigma=S)
y=jnp.asarray(rng.normal(size=(1,Dy))); x=jnp.asarray(rng.normal(size=(1,Dx)))
print("set_y:", c.set_y(y).evaluate_ln(x)[0,0], c(x).evaluate_ln(y)[0,0], lognorm(np.array(y[0]),np.array(M[0]@x[0]+b[0]),np.array(S[0])))
# C13 mutual info
px=pdf.GaussianPDF(Sigma=spd(1,Dx),mu=jnp.asarray(rng.normal(size=(1,Dx))))
print("MI:", c.mutual_information(px))
# C07 batched joint
for (Dx,Dy) in [(3,2),(2,3)]:
  for (Rc,Rx) in [(1,3),(3,1)]:
    M=jnp.asarray(rng.normal(size=(Rc,Dy,Dx))); b=jnp.asarray(rng.normal(size=(Rc,Dy))); S=spd(Rc,Dy)
    c=conditional.ConditionalGaussianPDF(M=M,b=b,Sigma=S)
    px=pdf.GaussianPDF(Sigma=spd(Rx,Dx),mu=jnp.asarray(rng.normal(size=(Rx,Dx))))
    try:
        j=c.affine_joint_transformation(px)
        ok=np.allclose(np.linalg.slogdet(np.array(j.Sigma))[1], np.array(j.ln_det_Sigma))
        ok2=np.allclose(np.array(j.Sigma)@np.array(j.Lambda), np.eye(Dx+Dy)[None], atol=1e-8)
        print("joint",Dx,Dy,Rc,Rx,"lndet ok",ok,"SL=I",ok2)
    except Exception as e:
        print("joint",Dx,Dy,Rc,Rx,"RAISES",type(e).__name__, str(e)[:80])
# C18 pytree
try:
    print(jax.tree_util.tree_leaves(px)[:1])
except Exception as e:
    print("pytree:",type(e).__name__,str(e)[:100])
