import warnings; warnings.filterwarnings("ignore")
import jax
jax.config.update("jax_enable_x64", True)
import jax.numpy as jnp, numpy as np
from gaussian_toolbox import pdf, conditional, factor, measure
rng = np.random.default_rng(1)
def spd(R,D):
    A = rng.normal(size=(R,D,D)); return A@A.transpose(0,2,1)+D*np.eye(D)
def moments(mu,S):
    D=len(mu)
    m1=mu
    m2=S+np.outer(mu,mu)
    m3=np.einsum('i,j,k->ijk',mu,mu,mu)+np.einsum('ij,k->ijk',S,mu)+np.einsum('ik,j->ijk',S,mu)+np.einsum('jk,i->ijk',S,mu)
    m4=(np.einsum('i,j,k,l->ijkl',mu,mu,mu,mu)
        +np.einsum('ij,k,l->ijkl',S,mu,mu)+np.einsum('ik,j,l->ijkl',S,mu,mu)+np.einsum('il,j,k->ijkl',S,mu,mu)
        +np.einsum('jk,i,l->ijkl',S,mu,mu)+np.einsum('jl,i,k->ijkl',S,mu,mu)+np.einsum('kl,i,j->ijkl',S,mu,mu)
        +np.einsum('ij,kl->ijkl',S,S)+np.einsum('ik,jl->ijkl',S,S)+np.einsum('il,jk->ijkl',S,S))
    return m1,m2,m3,m4
# E[prod of affine forms], each form f_t = A_t x + a_t ; returns tensor over output indices
def E_forms(forms, mu, S):
    m=[1.0]+list(moments(mu,S))
    n=len(forms)
    from itertools import product
    out=0
    letters='pqrs'; outl='uvwz'
    for mask in product([0,1],repeat=n):
        k=sum(mask)
        ops=[];subs=[]
        xs=''
        for t,(A,a) in enumerate(forms):
            if mask[t]:
                ops.append(A); subs.append(outl[t]+letters[len(xs)]); xs+=letters[len(xs)]
            else:
                ops.append(a); subs.append(outl[t])
        if k>0:
            ops.append(m[k]); subs.append(xs)
        out = out + np.einsum(','.join(subs)+'->'+outl[:n], *ops)
    return out
R=3; D=3; K,L,Mm=2,4,5
S=spd(R,D); mu=rng.normal(size=(R,D))
p=pdf.GaussianPDF(Sigma=jnp.asarray(S),mu=jnp.asarray(mu))
def rnd(k,per): 
    return (rng.normal(size=(R,k,D)) if per else rng.normal(size=(k,D))), (rng.normal(size=(R,k)) if per else rng.normal(size=(k,)))
def get(Aa,r):
    A,a=Aa
    return (A[r] if A.ndim==3 else A),(a[r] if a.ndim==2 else a)
def chk(name, got, ref):
    got=np.array(got); err=np.max(np.abs(got-ref))/max(1,np.max(np.abs(ref)))
    print(f"{name:32s} shape {got.shape} relerr {err:.2e}", "OK" if err<1e-8 else "*** MISMATCH")
for per in [False,True]:
    print("per-component" if per else "shared")
    A=rnd(K,per);B=rnd(K,per);C=rnd(L,per);Dd=rnd(L,per)
    j=lambda X:(jnp.asarray(X[0]),jnp.asarray(X[1]))
    kw=lambda n,X: {n+'_mat':jnp.asarray(X[0]), n.lower()+'_vec':jnp.asarray(X[1])}
    # linear
    ref=np.stack([E_forms([get(A,r)],mu[r],S[r]) for r in range(R)])
    chk("(Ax+a)", p.integrate("(Ax+a)",**kw('A',A)), ref)
    ref=np.stack([np.einsum('uu->',E_forms([get(A,r),get(B,r)],mu[r],S[r])) for r in range(R)])
    chk("(Ax+a)'(Bx+b)", p.integrate("(Ax+a)'(Bx+b)",**kw('A',A),**kw('B',B)), ref)
    ref=np.stack([E_forms([get(A,r),get(C,r)],mu[r],S[r]) for r in range(R)])
    chk("(Ax+a)(Bx+b)'", p.integrate("(Ax+a)(Bx+b)'",**kw('A',A),**kw('B',C)), ref)
    # cubic inner: (Ax+a)(Bx+b)'(Cx+c): A:K, B,C:L
    ref=np.stack([np.einsum('uvv->u',E_forms([get(A,r),get(C,r),get(Dd,r)],mu[r],S[r])) for r in range(R)])
    chk("(Ax+a)(Bx+b)'(Cx+c)", p.integrate("(Ax+a)(Bx+b)'(Cx+c)",**kw('A',A),**kw('B',C),**kw('C',Dd)), ref)
    # cubic outer: (Ax+a)'(Bx+b)(Cx+c)': A,B:K, C:L
    ref=np.stack([np.einsum('uuw->w',E_forms([get(A,r),get(B,r),get(C,r)],mu[r],S[r])) for r in range(R)])
    chk("(Ax+a)'(Bx+b)(Cx+c)'", p.integrate("(Ax+a)'(Bx+b)(Cx+c)'",**kw('A',A),**kw('B',B),**kw('C',C)), ref)
    # quartic inner: A,B:K ; C,D: L
    ref=np.stack([np.einsum('uuww->',E_forms([get(A,r),get(B,r),get(C,r),get(Dd,r)],mu[r],S[r])) for r in range(R)])
    chk("quartic inner", p.integrate("(Ax+a)'(Bx+b)(Cx+c)'(Dx+d)",**kw('A',A),**kw('B',B),**kw('C',C),**kw('D',Dd)), ref)
    # quartic outer: A:K, B,C:L, D:M
    E=rnd(Mm,per)
    ref=np.stack([np.einsum('uvvz->uz',E_forms([get(A,r),get(C,r),get(Dd,r),get(E,r)],mu[r],S[r])) for r in range(R)])
    chk("quartic outer", p.integrate("(Ax+a)(Bx+b)'(Cx+c)(Dx+d)'",**kw('A',A),**kw('B',C),**kw('C',Dd),**kw('D',E)), ref)
    # xb'xx'
    bv = rng.normal(size=(R,D)) if per else rng.normal(size=(D,))
    I=(np.eye(D),np.zeros(D))
    ref=np.stack([np.einsum('ujw,j->uw',E_forms([I,I,I],mu[r],S[r]), bv[r] if per else bv) for r in range(R)])
    chk("xb'xx'", p.integrate("xb'xx'",b_vec=jnp.asarray(bv)), ref)
    Av = rng.normal(size=(R,1,D)) if per else rng.normal(size=(1,D)); av = rng.normal(size=(R,1)) if per else rng.normal(size=(1,))
    ref=np.stack([np.einsum('ujw,j->uw',E_forms([I,I,I],mu[r],S[r]), (Av[r] if per else Av)[0]) + (av[r] if per else av)[0]*E_forms([I,I],mu[r],S[r]) for r in range(R)])
    chk("x(A'x+a)x'", p.integrate("x(A'x + a)x'",A_mat=jnp.asarray(Av),a_vec=jnp.asarray(av)), ref)
# defaults
print("defaults")
A=rnd(D,False)
ref=np.stack([np.einsum('uu->',E_forms([(np.eye(D),np.zeros(D)),get(A,r)],mu[r],S[r])) for r in range(R)])
chk("x'(Bx+b) default A", p.integrate("(Ax+a)'(Bx+b)",B_mat=jnp.asarray(A[0]),b_vec=jnp.asarray(A[1])), ref)
ref=np.stack([np.einsum('uu->',E_forms([(A[0],np.zeros(D)),(np.eye(D),A[1])],mu[r],S[r])) for r in range(R)])
chk("(Ax)'(x+b) mixed defaults", p.integrate("(Ax+a)'(Bx+b)",A_mat=jnp.asarray(A[0]),b_vec=jnp.asarray(A[1])), ref)
