structure Cls where
  name : String
  fields : List String
  attrs : List String
deriving Repr

def table : List Cls := [
  ⟨"ConjugateFactor", ["Lambda","nu","ln_beta"], ["Lambda","nu","ln_beta"]⟩,
  ⟨"GaussianPDF", ["Sigma","mu","Lambda","ln_det_Sigma","nu","ln_beta","lnZ","ln_det_Lambda"], ["Sigma","mu","Lambda","ln_det_Sigma","nu","ln_beta","lnZ","ln_det_Lambda"]⟩,
  ⟨"OneRankFactor", ["v","g","Lambda","nu","ln_beta"], ["v","g","Lambda","nu","ln_beta"]⟩ ]

def ok (c : Cls) : Bool := c.attrs.all (fun a => c.fields.contains a)
theorem all_ok : table.all ok = true := by decide
def bad : List Cls := [⟨"GaussianMeasure", ["Lambda","nu"], ["Lambda","nu","mu","lnZ"]⟩]
theorem bad_not_ok : bad.all ok = false := by decide
#print axioms all_ok
