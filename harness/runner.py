"""Check driver (DESIGN.md §4.5, §7):  build → audit → known findings → correspondence + oracle →
verdict + evidence."""
import os, sys, json, time, subprocess, re, importlib, hashlib, traceback

HERE = os.path.dirname(os.path.abspath(__file__))
VERIF = os.path.dirname(HERE)
LEAN = os.path.join(VERIF, "lean")
sys.path.insert(0, HERE)

ALLOWED_AXIOMS = {"propext", "Classical.choice", "Quot.sound"}
FORBIDDEN = re.compile(r"\bsorry\b|\badmit\b|^\s*axiom\s|native_decide|bv_decide|implemented_by|\bunsafe\s|maxHeartbeats\s+0")


class Infra(Exception):
    """infrastructure problem: exit 2, never a VIOLATION"""


def sh(cmd, cwd=None, timeout=3600):
    return subprocess.run(cmd, cwd=cwd, capture_output=True, text=True, timeout=timeout)


def lake_build(targets):
    t0 = time.time()
    r = sh(["lake", "build"] + targets, cwd=LEAN, timeout=7200)
    return r.returncode == 0, (r.stdout + r.stderr), time.time() - t0


def strip_comments(src):
    # remove /- … -/ (nested not needed for our sources) and -- … comments
    src = re.sub(r"/-.*?-/", "", src, flags=re.S)
    src = re.sub(r"--.*", "", src)
    return src


def grep_forbidden(files):
    hits = []
    for f in files:
        try:
            src = strip_comments(open(f).read())
        except OSError:
            continue
        for i, line in enumerate(src.split("\n")):
            if FORBIDDEN.search(line):
                hits.append(f"{os.path.relpath(f, VERIF)}: {line.strip()[:120]}")
    return hits


def lean_sources():
    out = []
    for root, _, files in os.walk(os.path.join(LEAN, "GT")):
        for fn in files:
            if fn.endswith(".lean"):
                out.append(os.path.join(root, fn))
    return sorted(out)


def audit(module):
    """-> (theorems: {name: [axioms]}, raw)"""
    r = sh(["lake", "env", "lean", "--run", "scripts/Audit.lean", module], cwd=LEAN, timeout=1800)
    if r.returncode != 0:
        raise Infra(f"audit of {module} failed: {r.stdout[-500:]} {r.stderr[-1500:]}")
    thms = {}
    for line in r.stdout.split("\n"):
        if line.startswith("thm "):
            name, _, axs = line[4:].partition(" | ")
            thms[name.strip()] = [a for a in axs.split() if a]
    return thms


class Case:
    """One correspondence program + its property oracle.  `run(m)` builds the program on
    Machine `m` (executing the implementation) and returns oracle failures."""

    def __init__(self, label, fn, sig=None, nontrivial=True):
        self.label = label
        self.fn = fn
        self.sig = sig or label
        self.nontrivial = nontrivial


def failure(prop, site, what, expected=None, got=None, deviation=None, params=None):
    return dict(property=prop, site=site, what=what, expected=expected, got=got, deviation=deviation,
                params=params or {})


def load_findings():
    p = os.path.join(VERIF, "known_findings.json")
    if not os.path.exists(p):
        return dict(findings=[], fixed=[])
    return json.load(open(p))


def search_failing_input(mod, prop, seed, tier, run_labels, dis_labels, known, findings_mod, Machine):
    """-> ((failure, seed, tier) | None, info).  Oracle-only runs of further cases on the implementation."""
    budget = float(os.environ.get("GT_SEARCH_BUDGET_S", "240" if tier == "quick" else "900"))
    t0 = time.time()
    s_seed, s_tier = (seed, "thorough") if tier == "quick" else (seed + 1, "thorough")
    try:
        cands = [c for c in mod.cases(s_seed, s_tier) if c.label not in run_labels or s_seed != seed]
    except Exception:
        cands = []
    def related(label):
        parts = label.split("/")
        return max((sum(1 for a, b in zip(parts, d.split("/")) if a == b) for d in dis_labels), default=0)
    cands.sort(key=lambda c: -related(c.label))
    tried = 0
    for c in cands:
        if time.time() - t0 > budget:
            break
        tried += 1
        m = Machine(c.label)
        try:
            fs = c.fn(m) or []
        except Exception:
            continue
        for f in fs:
            f["case"] = c.label
            if findings_mod.match(f, known) is None:
                return (f, s_seed, s_tier), dict(tried=tried, seconds=round(time.time() - t0, 1))
    return None, dict(tried=tried, candidates=len(cands), seconds=round(time.time() - t0, 1), seed=s_seed, tier=s_tier)


def run_property(prop, tier, seed, replay=None, only_case=None):
    import numpy as np
    t0 = time.time()
    mod = importlib.import_module(f"props.{prop}")
    from machine import Machine, run_lean, parse_lean_output, compare
    import findings as findings_mod
    import gen

    out = dict(violations=[], known=[], notes=[])
    # ---- 1. generated Lean inputs (class table) -------------------------------------------------
    gen_fail = None
    if getattr(mod, "NEEDS_CLASS_TABLE", False):
        import translate_classes
        translate_classes.generate()
    # ---- 2. build -------------------------------------------------------------------------------
    lean_modules = list(getattr(mod, "LEAN_MODULES", [f"GT.Props.{prop}"]))
    if os.environ.get("GT_DEBUG_NO_PROOFS"):   # development only; never used by a registered command
        lean_modules = []
    ok, log, bt = lake_build(lean_modules + ["gtdriver"])
    build_broken = []
    if not ok:
        # a failure inside Generated/ or of a theorem over it can be caused by /repo; anything else is ours
        if "GT/Generated" in log or "GT.Generated" in log or getattr(mod, "NEEDS_CLASS_TABLE", False):
            build_broken = re.findall(r"error: (GT/[^\n]+)", log)[:20] or ["lake build failed"]
            ok2, log2, _ = lake_build(["gtdriver"])
            if not ok2:
                raise Infra("lake build gtdriver failed:\n" + log2[-3000:])
        else:
            raise Infra("lake build failed:\n" + log[-3000:])
    # ---- 3. audit -------------------------------------------------------------------------------
    obligations, discharged, bad_axioms, thm_list = 0, 0, [], []
    if not build_broken:
        for lm in lean_modules:
            thms = audit(lm)
            for name, axs in sorted(thms.items()):
                if not name.startswith("GT.Props.") and not name.startswith("GT.Math.") and not name.startswith("GT.Bridge."):
                    continue
                obligations += 1
                extra = [a for a in axs if a not in ALLOWED_AXIOMS]
                if extra:
                    bad_axioms.append((name, extra))
                else:
                    discharged += 1
                thm_list.append(name)
    # thorough tier: the property's compiled modules (and the model, bridge and mathematics they rest on) are
    # re-checked by leanchecker, the toolchain's independent replay of .olean files through the kernel
    rechecked = []
    if tier == "thorough" and lean_modules and not build_broken:
        lib = os.path.join(VERIF, "lean", "GT")
        deps = sorted("GT." + os.path.relpath(os.path.join(r, f), lib)[:-5].replace(os.sep, ".")
                      for sub in ("Model", "Bridge", "Math") for r, _, fs in os.walk(os.path.join(lib, sub)) for f in fs
                      if f.endswith(".lean"))
        rechecked = list(lean_modules) + deps
        # one module per leanchecker process (memory grows with the number of modules replayed in one process: ~4 GB for one,
        # ~40 GB for all of them), three processes at a time
        from concurrent.futures import ThreadPoolExecutor
        def _lc(mod_name):
            r = subprocess.run(["lake", "env", "leanchecker", mod_name], cwd=os.path.join(VERIF, "lean"), capture_output=True, text=True)
            if r.returncode < 0:      # killed (memory pressure from other jobs): once more, alone
                r = subprocess.run(["lake", "env", "leanchecker", mod_name], cwd=os.path.join(VERIF, "lean"), capture_output=True, text=True)
            return mod_name, r.returncode, (r.stdout + r.stderr)[-1500:]
        with ThreadPoolExecutor(max_workers=3) as ex:
            bad = [(n, c, o) for n, c, o in ex.map(_lc, rechecked) if c != 0]
        if bad:
            raise Infra("leanchecker rejected compiled modules: " + "; ".join(f"{n} (exit {c}) {o}" for n, c, o in bad)[:3000])
    hits = grep_forbidden(lean_sources())
    if hits or bad_axioms:
        raise Infra(f"audit failed: forbidden constructs {hits[:5]} / axioms {bad_axioms[:5]}")
    # ---- 4. cases -------------------------------------------------------------------------------
    kf = load_findings()
    known = [f for f in kf.get("findings", []) if f["property"] == prop]
    all_cases = list(mod.cases(seed, tier))
    if replay is not None:
        rp = json.load(open(replay))
        all_cases = [c for c in mod.cases(rp["seed"], rp["tier"]) if c.label == rp["case"]]
        if not all_cases:
            print(f"replay case {rp['case']} not found (seed {rp['seed']}, tier {rp['tier']})")
    elif only_case:
        all_cases = [c for c in all_cases if only_case in c.label]
    machines, fails, errors = [], [], []
    for c in all_cases:
        m = Machine(c.label)
        try:
            fs = c.fn(m) or []
        except Exception as e:
            # The case's oracle could not be evaluated on what the implementation returned (typically a result of
            # another shape or type than documented, e.g. one value where one per component is due).  No case crashes on
            # the tree the checks were built against, so this is reported as a failure of the property on this case's
            # input (the program executed so far is kept and still compared with the model), not swallowed.
            tb = traceback.format_exc()
            if isinstance(e, (Infra, MemoryError, KeyboardInterrupt)) or "props" not in tb:
                raise Infra(f"case {c.label} crashed in the harness: {tb[-1500:]}")
            fs = [failure(prop, "oracle-not-evaluable", "the property oracle could not be evaluated on the implementation's "
                          "result (unexpected shape/type): " + tb.strip().split("\n")[-1][:300], got=tb[-1500:])]
        m.dumpall()
        machines.append((c, m))
        for f in fs:
            f["case"] = c.label
            fails.append(f)
    # ---- 5. Lean side ---------------------------------------------------------------------------
    lines, offsets = [], []
    for c, m in machines:
        offsets.append(len(lines))
        lines.extend(m.lines)
        lines.append("reset")
    disagreements = []
    n_compared = 0
    if lines:
        res = parse_lean_output(run_lean(lines))
        for (c, m), off in zip(machines, offsets):
            local = {i - off: v for i, v in res.items() if off <= i < off + len(m.lines)}
            probs = compare(m, local)
            n_compared += len(m.lines)
            for (i, head, p) in probs:
                disagreements.append(dict(case=c.label, line=i, head=head, problems=p,
                                          instr=m.lines[i][:160] if i < len(m.lines) else ""))
    # ---- 6. verdict -----------------------------------------------------------------------------
    os.makedirs(os.path.join(VERIF, "work", "replays"), exist_ok=True)
    def write_replay(kind, payload):
        h = hashlib.sha1(json.dumps(payload, sort_keys=True, default=str).encode()).hexdigest()[:10]
        path = os.path.join(VERIF, "work", "replays", f"{prop}_{kind}_{h}.json")
        payload = dict(dict(property=prop, seed=seed, tier=tier), **payload)     # a search hit carries its own seed / tier
        json.dump(payload, open(path, "w"), indent=1, default=str)
        return path

    new_violations = []
    matched_known = {}
    for f in fails:
        kid = findings_mod.match(f, known)
        if kid is not None:
            matched_known.setdefault(kid, []).append(f)
        else:
            new_violations.append(f)
    # a disagreement (model ≠ implementation) with no oracle failure on the same case: the tie is broken
    # (cases whose only oracle failures are listed findings do not excuse a disagreement: the model reproduces those)
    fail_cases = {f["case"] for f in new_violations}
    orphan_dis = [d for d in disagreements if d["case"] not in fail_cases]

    printed = []
    for k in known:
        hit = matched_known.get(k["id"])
        if hit:
            printed.append(f"KNOWN-FINDING: property={prop} {k['id']}: {k['what']} (reproduced on {len(hit)} input(s) this run)")
        else:
            # a listed finding that no generated input reproduced: replay its recorded input
            rep = findings_mod.replay_known(k)
            if rep is True:
                printed.append(f"KNOWN-FINDING: property={prop} {k['id']}: {k['what']} (recorded input replayed)")
            elif rep is False:
                out["notes"].append(f"known finding {k['id']} no longer reproduces on its recorded input")
    exit_code = 0
    seen = set()
    for f in new_violations:
        key = (f["site"], f["what"])
        if key in seen:
            continue
        seen.add(key)
        path = write_replay("fail", dict(case=f["case"], failure=f))
        printed.append(f"VIOLATION property={prop} replay={path}")
        exit_code = 1
    search_info = None
    if orphan_dis:
        # the correspondence no longer checks and the oracle found nothing on those cases: search the implementation for a
        # concrete failing input on the deeper case family (thorough-tier cases not run yet; a further seed when already
        # thorough), cases related to the disagreeing ones first, within a time budget
        d0 = orphan_dis[0]
        hit, search_info = search_failing_input(mod, prop, seed, tier, {c.label for c, _ in machines},
                                                {d["case"] for d in orphan_dis}, known, findings_mod, Machine)
        if hit is not None:
            f, s_seed, s_tier = hit
            path = write_replay("fail", dict(case=f["case"], failure=f, seed=s_seed, tier=s_tier, found_by="search after broken correspondence",
                                             broken="correspondence", disagreements=orphan_dis[:20]))
            printed.append(f"VIOLATION property={prop} replay={path}")
        else:
            path = write_replay("corr", dict(case=d0["case"], broken="correspondence", disagreements=orphan_dis[:20], search=search_info))
            printed.append(f"VIOLATION property={prop} replay={path} no-failing-input-found")
        exit_code = 1
    if build_broken:
        # obligations over the regenerated class table no longer check; did the oracle find an input?
        if not new_violations:
            path = write_replay("proof", dict(case="", broken="proof-obligation", errors=build_broken))
            printed.append(f"VIOLATION property={prop} replay={path} no-failing-input-found")
            exit_code = 1
    # ---- 7. evidence ----------------------------------------------------------------------------
    sigs = {}
    for c, m in machines:
        for meta, imp in zip(m.meta, m.impl):
            if meta["op"] in ("arr", "dumpall"):
                continue
            hd = imp[1]["head"] if imp[0] == "ok" else ("refuse", imp[1])
            key = json.dumps([meta, hd], sort_keys=True, default=str)
            sigs[key] = sigs.get(key, 0) + 1
    nontrivial = 0
    for key in sigs:
        meta, hd = json.loads(key)
        nums = [x for x in hd if isinstance(x, int)]
        prod = 1
        for x in nums:
            prod *= max(x, 1)
        if prod > 1:
            nontrivial += 1
    ops = {}
    refusals = {}
    for c, m in machines:
        for meta, imp in zip(m.meta, m.impl):
            ops[meta["op"]] = ops.get(meta["op"], 0) + 1
            if imp[0] == "refuse":
                refusals[imp[1]] = refusals.get(imp[1], 0) + 1
    sample = []
    if machines:
        c, m = machines[0]
        sample = [dict(case=c.label, program=[l[:200] for l in m.lines[:12]])]
    ev = dict(
        property_id=prop, tier=tier, seed=int(seed), level="proof",
        coverage=dict(
            obligations=max(obligations, 1) if not build_broken else 1,
            discharged=discharged if not build_broken else 0,
            checker_cmd=f"cd lean && lake build {' '.join(lean_modules)} && lake env lean --run scripts/Audit.lean <module>",
            trusted_base=["Lean 4.33 kernel", "Mathlib v4.33 (compiled)", "axioms: propext, Classical.choice, Quot.sound",
                          "hand-written model lean/GT/Model/* tied to /repo by the correspondence run below (sampled)",
                          "Backend.Spec hypothesis for JAX/LAPACK primitives", "harness/*.py, NumPy/SciPy oracles"],
            theorems=thm_list,
            leanchecker_modules=rechecked,
            evaluations=n_compared,
            distinct_nontrivial=nontrivial,
            rule="correspondence: every instruction of every generated program is executed on the real library and on the "
                 "Lean model (Float) and compared (rel. 1e-8 of the natural scale); distinct = distinct (instruction meta, "
                 "result class and shape); non-trivial = product of the shape numbers > 1",
            samples=sample,
            traces_validated_against_impl=len(machines),
            programs=len(machines),
            op_histogram=ops, refusal_kinds=refusals,
            oracle_failures=len(fails), oracle_failures_matching_known_findings=sum(len(v) for v in matched_known.values()),
            disagreements=len(disagreements),
            lean_build_s=round(bt, 1),
        ),
        assumptions=list(getattr(mod, "ASSUMPTIONS", [])),
        wall_s=round(time.time() - t0, 2),
        violations=len([p for p in printed if p.startswith("VIOLATION")]),
    )
    extra = getattr(mod, "evidence_extra", None)
    if extra:
        ev["coverage"].update(extra())
    if not os.environ.get("GT_DEBUG_NO_PROOFS"):    # development runs never write evidence
        evdir = os.environ.get("GT_EVIDENCE_DIR") or os.path.join(VERIF, "evidence")   # dev tools redirect; default is the interface path
        os.makedirs(evdir, exist_ok=True)
        json.dump(ev, open(os.path.join(evdir, f"{prop}.json"), "w"), indent=1, default=str)
    for p in printed:
        print(p)
    for n in out["notes"]:
        print("note:", n)
    if disagreements and not orphan_dis:
        print(f"note: {len(disagreements)} model/implementation disagreement(s) on cases where the oracle already exhibits a failure")
    print(f"{prop} {tier} seed={seed}: theorems {discharged}/{obligations}, programs {len(machines)}, "
          f"instructions {n_compared}, oracle failures {len(fails)} (known {sum(len(v) for v in matched_known.values())}), "
          f"disagreements {len(disagreements)}, {time.time() - t0:.1f}s")
    return exit_code


def main(argv):
    import argparse
    ap = argparse.ArgumentParser()
    ap.add_argument("prop")
    ap.add_argument("--tier", default=os.environ.get("VERIF_TIER", "quick"))
    ap.add_argument("--replay", default=None)
    ap.add_argument("--case", default=None)
    a = ap.parse_args(argv)
    seed = int(os.environ.get("VERIF_SEED", "0"))
    try:
        return run_property(a.prop, a.tier, seed, replay=a.replay, only_case=a.case)
    except Infra as e:
        print("INFRASTRUCTURE ERROR:", e)
        return 2


if __name__ == "__main__":
    sys.exit(main(sys.argv[1:]))
