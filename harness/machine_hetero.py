"""Machine operations for the heteroscedastic conditionals (approximate_conditional.py).
Mixin for harness/machine.py:Machine; every method appends one protocol line (handled by
lean/GT/DriverHetero.lean) and executes the real library call, exactly like the methods in machine.py.

Public methods of the classes: constructor, linear_layer, get_conditional_mu, get_conditional_cov,
condition_on_x, set_y, integrate_Sigma_x, get_expected_moments, get_expected_cross_terms,
affine_{joint,marginal,conditional}_transformation, integrate_log_conditional_y, get_lb_quadratic_term,
get_lb_log_det.  The `_`-prefixed pieces of the lower bound (`_integrate_noise_diagonal`,
`_get_omega_dagger`, `k_func`, `_get_omega_star`, `_update_omega_star`, `_lower_bound_integrals`) are
exposed too, so that the model is compared on the intermediate quantities and on the body of the
fixed-point iteration (which the public entry points never execute, see `het_omega_star`).

[hetero-trunc] HeteroscedasticHeavisideConditional / HeteroscedasticReLUConditional (tags `heaviside`, `relu`) go
through the same instructions.  The step class leaves `k_func` and `_lower_bound_integrals` as `pass`: they return
None (an empty array on both sides, see Machine._emit) and everything that unpacks the None raises TypeError."""
import numpy as np

HETERO_CLASSES = {"exp": "HeteroscedasticExpConditional", "coshm1": "HeteroscedasticCoshM1Conditional",
                  # [hetero-trunc] step / rectified-linear links (lean/GT/Model/HeteroTrunc.lean)
                  "heaviside": "HeteroscedasticHeavisideConditional", "relu": "HeteroscedasticReLUConditional"}


def hetero_class_tag(o):
    name = type(o).__name__
    for tag, cls in HETERO_CLASSES.items():
        if name == cls:
            return tag
    return name


def _lib():
    import machine as mm          # lazy: machine.py imports this module
    from gaussian_toolbox import approximate_conditional as ac
    return mm, ac, mm.jnp


class HeteroOps:
    # -- constructor ---------------------------------------------------------------------------
    def hetero(self, cls, M, b, A, W):
        """cls in {exp, coshm1, heaviside, relu}; M [R,Dy,Dx], b [R,Dy], A [R,Dy,Da], W [Dk,Dx+1]"""
        mm, ac, jnp = _lib()
        M = np.asarray(M, dtype=float); b = np.asarray(b, dtype=float)
        A = np.asarray(A, dtype=float); W = np.asarray(W, dtype=float)
        R, Dy, Dx = M.shape
        Da = A.shape[2]; Dk = W.shape[0]
        dst = self.new()
        toks = [cls, R, Dy, Dx, Da, Dk] + mm.arr_tok(M) + mm.arr_tok(b) + mm.arr_tok(A) + mm.arr_tok(W)
        klass = getattr(ac, HETERO_CLASSES[cls])
        return self._emit(dst, "hetero", toks,
                          lambda: klass(M=jnp.asarray(M), b=jnp.asarray(b), A=jnp.asarray(A), W=jnp.asarray(W)),
                          dict(cls=cls, R=R, Dy=Dy, Dx=Dx, Da=Da, Dk=Dk))

    def _het(self, op, toks, fn, **meta):
        dst = self.new()
        return self._emit(dst, op, toks, fn, meta)

    # -- p(y|x) --------------------------------------------------------------------------------
    def het_linear_layer(self, c, x):
        return self._het("het_linear_layer", [c, x], lambda: self.regs[c].linear_layer(self.regs[x]))

    def het_cond_mu(self, c, x):
        return self._het("het_cond_mu", [c, x], lambda: self.regs[c].get_conditional_mu(self.regs[x]))

    def het_cond_cov(self, c, x, which):
        """which 0: get_conditional_cov(x); 1,2,3: Sigma, Lambda, ln_det of get_conditional_cov(x, invert=True)"""
        def fn():
            if which == 0:
                return self.regs[c].get_conditional_cov(self.regs[x])
            return self.regs[c].get_conditional_cov(self.regs[x], invert=True)[which - 1]
        return self._het("het_cond_cov", [c, x, which], fn, which=which)

    def het_condition_on_x(self, c, x):
        return self._het("het_condition_on_x", [c, x], lambda: self.regs[c].condition_on_x(self.regs[x]))

    def het_set_y(self, c, y):
        return self._het("het_set_y", [c, y], lambda: self.regs[c].set_y(self.regs[y]))

    # -- moment matching -----------------------------------------------------------------------
    def het_noise_diag(self, c, p):
        return self._het("het_noise_diag", [c, p], lambda: self.regs[c]._integrate_noise_diagonal(self.regs[p]))

    def het_integrate_sigma_x(self, c, p):
        return self._het("het_integrate_sigma_x", [c, p], lambda: self.regs[c].integrate_Sigma_x(self.regs[p]))

    def het_expected_moments(self, c, p, which):
        return self._het("het_expected_moments", [c, p, which],
                         lambda: self.regs[c].get_expected_moments(self.regs[p])[which], which=which)

    def het_expected_cross(self, c, p):
        return self._het("het_expected_cross", [c, p], lambda: self.regs[c].get_expected_cross_terms(self.regs[p]))

    def het_transform(self, which, c, p):
        name = {"joint": "affine_joint_transformation", "marginal": "affine_marginal_transformation",
                "conditional": "affine_conditional_transformation"}[which]
        return self._het("het_" + which, [c, p], lambda: getattr(self.regs[c], name)(self.regs[p]), which=which)

    # -- lower bound of E[ln p(y|x)] -----------------------------------------------------------
    def het_log_cond_y(self, c, p, y):
        return self._het("het_log_cond_y", [c, p, y],
                         lambda: self.regs[c].integrate_log_conditional_y(self.regs[p], self.regs[y]))

    def het_lb_quadratic(self, c, p, y):
        return self._het("het_lb_quadratic", [c, p, y],
                         lambda: self.regs[c].get_lb_quadratic_term(self.regs[p], self.regs[y]))

    def het_lb_log_det(self, c, p):
        return self._het("het_lb_log_det", [c, p], lambda: self.regs[c].get_lb_log_det(self.regs[p]))

    def het_omega_dagger(self, c, p, k):
        return self._het("het_omega_dagger", [c, p, k],
                         lambda: self.regs[c]._get_omega_dagger(p_x=self.regs[p], W_i=self.regs[c].W[k]), k=k)

    def het_k_func(self, c, p, k, om):
        return self._het("het_k_func", [c, p, k, om],
                         lambda: self.regs[c].k_func(p_x=self.regs[p], W_i=self.regs[c].W[k], omega_dagger=self.regs[om]), k=k)

    def het_omega_star(self, c, p, y, k, a):
        return self._het("het_omega_star", [c, p, y, k, a],
                         lambda: self.regs[c]._get_omega_star(p_x=self.regs[p], y=self.regs[y], W_i=self.regs[c].W[k],
                                                              a_i=self.regs[a]), k=k)

    def het_update_omega(self, c, p, y, k, a, om):
        return self._het("het_update_omega", [c, p, y, k, a, om],
                         lambda: self.regs[c]._update_omega_star(p_x=self.regs[p], y=self.regs[y], W_i=self.regs[c].W[k],
                                                                 a_i=self.regs[a], omega_star=self.regs[om]), k=k)

    def het_lb_integrals(self, c, p, y, k, a, om, which):
        """which 0: compute_fourth_order=False; 1 / 2: second / fourth order of compute_fourth_order=True"""
        def fn():
            o = self.regs[c]
            kw = dict(p_x=self.regs[p], y=self.regs[y], W_i=o.W[k], a_i=self.regs[a], omega_star=self.regs[om])
            if which == 0:
                return o._lower_bound_integrals(**kw)
            return o._lower_bound_integrals(compute_fourth_order=True, **kw)[which - 1]
        return self._het("het_lb_integrals", [c, p, y, k, a, om, which], fn, k=k, which=which)

    def het_omega_loop(self, c, p, y, k, a, start, prev):
        """The while_loop of `_get_omega_star` (same cond_func / body_func, copied from
        approximate_conditional.py:1085-1089) started from an arbitrary carry.  The class itself always
        starts it at (omega_dagger, omega_dagger, 0), where the condition is false; this instruction
        validates the model of the loop (stopping rule, cap of 100 iterations) against lax.while_loop with
        the library's own `_update_omega_star` as body."""
        mm, ac, jnp = _lib()
        from jax import lax
        def fn():
            o = self.regs[c]
            cond_func = lambda val: jnp.logical_and(jnp.max(jnp.abs(val[0] - val[1])) > 1e-5, val[2] < 100)
            def body_func(val):
                return o._update_omega_star(p_x=self.regs[p], y=self.regs[y], W_i=o.W[k], a_i=self.regs[a],
                                            omega_star=val[0]), val[0], val[2] + 1
            res, _, it = lax.while_loop(cond_func, body_func, (self.regs[start], self.regs[prev], 0))
            self.last_loop_iterations = int(it)
            return res
        return self._het("het_omega_loop", [c, p, y, k, a, start, prev], fn, k=k, harness_replicated_loop=True)
