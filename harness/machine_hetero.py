"""Machine operations for the heteroscedastic conditionals (approximate_conditional.py).
Mixin for harness/machine.py:Machine."""
import numpy as np


class HeteroOps:
    pass
