"""Machine operations for approximate conditionals (gaussian_toolbox/approximate_conditional.py).
Mixin for harness/machine.py:Machine; every method appends one protocol line (handled by the Lean
driver extension) and executes the real library call, exactly like the methods in machine.py."""
import numpy as np


class ApproxOps:
    pass
