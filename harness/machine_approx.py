"""Machine operations for approximate conditionals (gaussian_toolbox/approximate_conditional.py).
Mixin for harness/machine.py:Machine; every method appends one protocol line (handled by the Lean
driver extension lean/GT/DriverApprox.lean) and executes the real library call, exactly like the
methods in machine.py.

Feature conditionals: `LRBFGaussianConditional`, `LSEMGaussianConditional` (base class
`LConjugateFactorMGaussianConditional`).  All instructions are prefixed `feat_` because the
un-prefixed names (`condition_on_x`, `joint`, …) are the linear classes' instructions in the driver.
"""
import numpy as np


def _lib():
    import jax.numpy as jnp
    from gaussian_toolbox import approximate_conditional as gt_approx
    return jnp, gt_approx


def dump_feature(o):
    """canonical dump of a feature conditional (None if `o` is not one)   [approx-feature]"""
    jnp, gt_approx = _lib()
    if not isinstance(o, gt_approx.LConjugateFactorMGaussianConditional):
        return None
    f64 = lambda x: np.asarray(x, dtype=np.float64)
    k = o.k_func
    fields = {"M": f64(o.M), "b": f64(o.b), "Sigma": f64(o.Sigma), "Lambda": f64(o.Lambda),
              "ln_det_Sigma": f64(o.ln_det_Sigma),
              "k_Lambda": f64(k.Lambda), "k_nu": f64(k.nu), "k_ln_beta": f64(k.ln_beta)}
    if isinstance(o, gt_approx.LRBFGaussianConditional):
        kind = "rbf"
        fields["mu"] = f64(o.mu); fields["length_scale"] = f64(o.length_scale)
    elif isinstance(o, gt_approx.LSEMGaussianConditional):
        kind = "lsem"
        fields["W"] = f64(o.W)[:, -o.Dx:]; fields["w0"] = f64(o.w0)   # weights without the offset column
        fields["k_v"] = f64(k.v); fields["k_g"] = f64(k.g)
    else:
        raise TypeError(f"cannot dump {type(o)}")
    return dict(type="feat", head=(kind, o.R, o.Dy, o.Dx, o.Dk), fields=fields)


def parse_feature_head(tokens):
    """head of a `feat …` dump of the Lean driver -> (head, position of the first field)   [approx-feature]"""
    return (tokens[1], int(tokens[2]), int(tokens[3]), int(tokens[4]), int(tokens[5])), 6


class ApproxOps:
    # -- constructors ------------------------------------------------------------------------------
    def feat_rbf(self, M, b, mu, length_scale, Sigma=None, Lambda=None, ln_det_Sigma=None):
        """LRBFGaussianConditional(M=[R,Dy,Dx+Dk], b=[R,Dy]|None, mu=[Dk,Dx], length_scale=[Dk,Dx], …)"""
        from machine import arr_tok
        jnp, gt_approx = _lib()
        M = np.asarray(M, dtype=np.float64); mu = np.asarray(mu, dtype=np.float64)
        R, Dy = M.shape[0], M.shape[1]; Dk, Dx = mu.shape
        dst = self.new()
        toks = [R, Dy, Dx, Dk] + arr_tok(M) + arr_tok(b) + arr_tok(mu) + arr_tok(length_scale) + \
            arr_tok(Sigma) + arr_tok(Lambda) + arr_tok(ln_det_Sigma)
        j = lambda a: None if a is None else jnp.asarray(np.asarray(a, dtype=np.float64))
        return self._emit(dst, "feat_rbf", toks,
                          lambda: gt_approx.LRBFGaussianConditional(M=j(M), b=j(b), mu=j(mu), length_scale=j(length_scale),
                                                                    Sigma=j(Sigma), Lambda=j(Lambda), ln_det_Sigma=j(ln_det_Sigma)),
                          dict(R=R, Dy=Dy, Dx=Dx, Dk=Dk,
                               given=(b is not None, Sigma is not None, Lambda is not None, ln_det_Sigma is not None)))

    def feat_lsem(self, M, b, W, Sigma=None, Lambda=None, ln_det_Sigma=None):
        """LSEMGaussianConditional(M=[R,Dy,Dx+Dk], b=[R,Dy]|None, W=[Dk,Dx+1] (column 0 is the offset), …)"""
        from machine import arr_tok
        jnp, gt_approx = _lib()
        M = np.asarray(M, dtype=np.float64); W = np.asarray(W, dtype=np.float64)
        R, Dy = M.shape[0], M.shape[1]; Dk, Dx = W.shape[0], W.shape[1] - 1
        dst = self.new()
        toks = [R, Dy, Dx, Dk] + arr_tok(M) + arr_tok(b) + arr_tok(W) + arr_tok(Sigma) + arr_tok(Lambda) + arr_tok(ln_det_Sigma)
        j = lambda a: None if a is None else jnp.asarray(np.asarray(a, dtype=np.float64))
        return self._emit(dst, "feat_lsem", toks,
                          lambda: gt_approx.LSEMGaussianConditional(M=j(M), b=j(b), W=j(W), Sigma=j(Sigma), Lambda=j(Lambda),
                                                                    ln_det_Sigma=j(ln_det_Sigma)),
                          dict(R=R, Dy=Dy, Dx=Dx, Dk=Dk,
                               given=(b is not None, Sigma is not None, Lambda is not None, ln_det_Sigma is not None)))

    # -- feature vector, conditional mean, conditioning ---------------------------------------------
    def feat_phi(self, c, x):
        """evaluate_phi(x) -> [N, Dx+Dk]"""
        dst = self.new()
        return self._emit(dst, "feat_phi", [c, x], lambda: self.regs[c].evaluate_phi(self.regs[x]))

    evaluate_feature = feat_phi

    def feat_cond_mu(self, c, x):
        """get_conditional_mu(x) -> [N, Dy]"""
        dst = self.new()
        return self._emit(dst, "feat_cond_mu", [c, x], lambda: self.regs[c].get_conditional_mu(self.regs[x]))

    def feat_condition_on_x(self, c, x, via_call=False):
        """condition_on_x(x) (or `c(x)`) -> GaussianPDF with N components"""
        dst = self.new()
        fn = (lambda: self.regs[c](self.regs[x])) if via_call else (lambda: self.regs[c].condition_on_x(self.regs[x]))
        return self._emit(dst, "feat_condition_on_x", [c, x], fn, dict(via_call=via_call))

    def feat_set_y(self, c, y):
        dst = self.new()
        return self._emit(dst, "feat_set_y", [c, y], lambda: self.regs[c].set_y(self.regs[y]))

    # -- matched moments and the three transformations -----------------------------------------------
    def feat_moments(self, c, p):
        """get_expected_moments(p_x) -> (register of mu_y [Rx,Dy], register of Sigma_y [Rx,Dy,Dy])"""
        d1 = self.new()
        self._emit(d1, "feat_moments_mu", [c, p], lambda: self.regs[c].get_expected_moments(self.regs[p])[0])
        d2 = self.new()
        self._emit(d2, "feat_moments_sigma", [c, p], lambda: self.regs[c].get_expected_moments(self.regs[p])[1])
        return d1, d2

    def feat_cross(self, c, p):
        """get_expected_cross_terms(p_x) -> E[y x'] [Rx,Dy,Dx]"""
        dst = self.new()
        return self._emit(dst, "feat_cross", [c, p], lambda: self.regs[c].get_expected_cross_terms(self.regs[p]))

    def feat_transform(self, which, c, p):
        dst = self.new()
        name = {"joint": "affine_joint_transformation", "marginal": "affine_marginal_transformation",
                "conditional": "affine_conditional_transformation", "cond_entropy": "conditional_entropy",
                "mutual_information": "mutual_information"}[which]
        return self._emit(dst, "feat_" + which, [c, p], lambda: getattr(self.regs[c], name)(self.regs[p]), dict(which=which))

    # -- expected log-conditionals ---------------------------------------------------------------------
    def feat_log_cond(self, c, q, p_x=None):
        """integrate_log_conditional(p_yx[, p_x]) -> [Rq]"""
        dst = self.new()
        if p_x is None:
            fn = lambda: self.regs[c].integrate_log_conditional(self.regs[q])
        else:
            fn = lambda: self.regs[c].integrate_log_conditional(self.regs[q], p_x=self.regs[p_x])
        return self._emit(dst, "feat_log_cond", [c, q, -1 if p_x is None else p_x], fn, dict(given_px=p_x is not None))

    def feat_log_cond_y(self, c, p, y, callable_form=False):
        """integrate_log_conditional_y(p_x, y=y) or integrate_log_conditional_y(p_x)(y)"""
        dst = self.new()
        def fn():
            if callable_form:
                return self.regs[c].integrate_log_conditional_y(self.regs[p])(self.regs[y])
            return self.regs[c].integrate_log_conditional_y(self.regs[p], y=self.regs[y])
        return self._emit(dst, "feat_log_cond_y", [c, p, y], fn, dict(callable_form=callable_form))

    # -- inherited housekeeping ------------------------------------------------------------------------
    def feat_slice(self, c, idx):
        from machine import ints_tok
        jnp, _ = _lib()
        dst = self.new()
        return self._emit(dst, "feat_slice", [c] + ints_tok(idx),
                          lambda: self.regs[c].slice(jnp.asarray(np.asarray(idx, dtype=np.int32))),
                          dict(idx=[int(i) for i in idx]))

    def feat_update_sigma(self, c, S):
        from machine import arr_tok
        jnp, _ = _lib()
        dst = self.new()
        def fn():
            self.regs[c].update_Sigma(jnp.asarray(np.asarray(S, dtype=np.float64))); return None
        return self._emit(dst, "feat_update_sigma", [c] + arr_tok(S), fn)

    def feat_update_phi(self, c):
        dst = self.new()
        def fn():
            self.regs[c].update_phi(); return None
        return self._emit(dst, "feat_update_phi", [c], fn)
