"""Machine operations for truncated measures (gaussian_toolbox/experimental/truncated_measure.py).
Mixin for harness/machine.py:Machine; every method appends one protocol line (handled by the Lean
driver extension lean/GT/DriverTrunc.lean) and executes the real library call, exactly like the
methods in machine.py.

Limits are passed as None, a scalar (Python float, possibly +-inf) or an array of shape (R,1)
(or (1,1), which the library broadcasts); infinite entries cross the protocol as the IEEE bit
patterns of +-inf and become the explicit `Lim.negInf` / `Lim.posInf` of the model."""
import numpy as np


def _tm():
    from gaussian_toolbox.experimental import truncated_measure as tm
    return tm


def dump_trunc(o):
    """canonical dump of a truncated object (None if `o` is not one); used by machine.dump_obj"""
    tm = _tm()
    if not isinstance(o, tm.TruncatedGaussianMeasure):
        return None
    f = lambda a: np.asarray(a, dtype=np.float64)
    cls = "pdf" if isinstance(o, tm.TruncatedGaussianPDF) else "measure"
    d, m = o.density, o.measure
    fields = {
        "lower_limit": f(o.lower_limit), "upper_limit": f(o.upper_limit), "alpha": f(o.alpha), "beta": f(o.beta),
        "constant": f(o.constant),
        "m_Lambda": f(m.Lambda), "m_nu": f(m.nu), "m_ln_beta": f(m.ln_beta),
        "d_Sigma": f(d.Sigma), "d_mu": f(d.mu), "d_Lambda": f(d.Lambda), "d_nu": f(d.nu), "d_ln_beta": f(d.ln_beta),
        "d_lnZ": f(d.lnZ), "d_ln_det_Sigma": f(d.ln_det_Sigma),
    }
    return dict(type="trunc", head=(cls, int(o.R)), fields=fields)


def _lim_tok(R, lim):
    from machine import arr_tok
    if lim is None:
        return [0]
    a = np.asarray(lim, dtype=np.float64)
    if a.ndim == 0:
        return [1] + arr_tok(a.reshape(1))
    if a.shape not in ((R, 1), (1, 1)):
        raise ValueError(f"harness: limit arrays must have shape (R,1) or (1,1), got {a.shape}")
    return [2] + arr_tok(np.broadcast_to(a, (R, 1)))


def _lim_kind(lim):
    if lim is None:
        return "none"
    a = np.asarray(lim, dtype=np.float64)
    kind = "scalar" if a.ndim == 0 else "array"
    if np.all(np.isinf(a)):
        return kind + ":inf"
    if np.any(np.isinf(a)):
        return kind + ":mixed"
    return kind


class TruncOps:
    # -- constructors ------------------------------------------------------------------------------
    def trunc(self, src, lower=None, upper=None, pdf=False):
        """TruncatedGaussianMeasure / TruncatedGaussianPDF(measure=<src>, lower_limit, upper_limit)"""
        import jax.numpy as jnp
        tm = _tm()
        dst = self.new()
        o = self.regs.get(src)
        R = int(o.R) if o is not None else 1
        toks = [int(pdf), src] + _lim_tok(R, lower) + _lim_tok(R, upper)
        cls = tm.TruncatedGaussianPDF if pdf else tm.TruncatedGaussianMeasure
        def j(a):
            if a is None or isinstance(a, float):
                return a
            return jnp.asarray(np.asarray(a, dtype=np.float64))
        return self._emit(dst, "trunc", toks,
                          lambda: cls(measure=self.regs[src], lower_limit=j(lower), upper_limit=j(upper)),
                          dict(pdf=bool(pdf), lower=_lim_kind(lower), upper=_lim_kind(upper)))

    # -- evaluation --------------------------------------------------------------------------------
    def trunc_call(self, t, x, element_wise=False):
        dst = self.new()
        return self._emit(dst, "trunc_call", [t, x, int(element_wise)],
                          lambda: self.regs[t](self.regs[x], element_wise=element_wise),
                          dict(element_wise=bool(element_wise)))

    # -- integrals ---------------------------------------------------------------------------------
    def trunc_integrate(self, t, key, k=None):
        """key in {"1", "x", "x**2", "x**k"} (the last with the order k)"""
        dst = self.new()
        toks = [key, t] + ([int(k)] if key == "x**k" else [])
        kw = dict(k=int(k)) if key == "x**k" else {}
        return self._emit(dst, "trunc_integrate", toks, lambda: self.regs[t].integrate(key, **kw),
                          dict(key=key, k=None if k is None else int(k)))

    # -- other queries -----------------------------------------------------------------------------
    def trunc_query(self, what, t, order=None):
        """what in expectation_integral | expectation_x | variance | moment | moment_all | get_density |
        get_mean | get_variance | get_std"""
        dst = self.new()
        def fn():
            o = self.regs[t]
            if what == "expectation_integral":
                return o._expectation_integral()
            if what == "expectation_x":
                return o._expectation_x()
            if what == "variance":
                return o._get_variance()
            if what == "moment":
                return o._get_moment(int(order))
            if what == "moment_all":
                return o._get_moment(int(order), return_all=True)
            if what in ("get_density", "get_mean", "get_variance", "get_std"):
                return getattr(o, what)()
            raise ValueError(what)
        toks = [what, t] + ([int(order)] if what in ("moment", "moment_all") else [])
        return self._emit(dst, "trunc_query", toks, fn, dict(what=what, order=None if order is None else int(order)))

    def trunc_density(self, t):
        return self.trunc_query("get_density", t)

    # -- experimental/misc.py ----------------------------------------------------------------------
    def misc(self, fn, x=None, k=None):
        """fn in normal_pdf | normal_cdf (misc.py) | norm_cdf | norm_logcdf (the jax.scipy.stats.norm
        primitives behind the model's Transc.normCdf / normLogCdf), entry-wise on the array register x;
        fn == "binom": binom(k, arange(k+1)) as floats"""
        import jax.numpy as jnp
        from jax.scipy.stats import norm
        from gaussian_toolbox.experimental import misc as gt_misc
        dst = self.new()
        if fn == "binom":
            return self._emit(dst, "misc", ["binom", int(k)],
                              lambda: jnp.asarray(gt_misc.binom(int(k), jnp.arange(0, int(k) + 1)), dtype=jnp.float64),
                              dict(fn=fn, k=int(k)))
        f = {"normal_pdf": gt_misc.normal_pdf, "normal_cdf": gt_misc.normal_cdf, "norm_cdf": norm.cdf,
             "norm_logcdf": norm.logcdf}[fn]
        return self._emit(dst, "misc", [fn, x], lambda: f(self.regs[x]), dict(fn=fn))
