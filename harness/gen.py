"""Seeded structured generators (DESIGN.md §4.3).  Every random choice comes from one
`numpy.random.Generator` so that a case replays exactly from (seed, case index)."""
import numpy as np


def rng_for(seed, *path):
    ss = np.random.SeedSequence([int(seed) & 0xFFFFFFFF] + [abs(hash(p)) & 0xFFFFFFFF if isinstance(p, str) else int(p) for p in path])
    return np.random.default_rng(ss)


def stable_hash(s):
    h = 2166136261
    for ch in s.encode():
        h = ((h ^ ch) * 16777619) & 0xFFFFFFFF
    return h


def rng_path(seed, *path):
    ints = [int(seed) & 0xFFFFFFFF]
    for p in path:
        ints.append(stable_hash(p) if isinstance(p, str) else int(p) & 0xFFFFFFFF)
    return np.random.default_rng(np.random.SeedSequence(ints))


def orth(rng, D):
    q, r = np.linalg.qr(rng.standard_normal((D, D)))
    return q * np.sign(np.diag(r))


def pd(rng, D, lo=0.3, hi=3.0, diag=False):
    """positive definite, eigenvalues in [lo, hi] (condition number ≤ hi/lo ≤ 1e4)"""
    ev = np.exp(rng.uniform(np.log(lo), np.log(hi), size=D))
    if diag:
        return np.diag(ev)
    q = orth(rng, D)
    A = (q * ev) @ q.T
    return 0.5 * (A + A.T)


def pd_batch(rng, R, D, **kw):
    return np.stack([pd(rng, D, **kw) for _ in range(R)])


def psd_batch(rng, R, D):
    """positive semidefinite (rank deficient allowed)"""
    out = []
    for _ in range(R):
        k = rng.integers(1, D + 1)
        B = rng.standard_normal((D, k))
        out.append(B @ B.T * 0.3)
    return np.stack(out)


def vec_batch(rng, R, D, scale=1.0):
    return scale * rng.standard_normal((R, D))


def points(rng, N, D, scale=1.5):
    return scale * rng.standard_normal((N, D))


def int_pd(rng, D, diag=False):
    """integer-valued PD matrix with small entries (exact mode)"""
    if diag:
        return np.diag(rng.integers(1, 4, size=D)).astype(float)
    B = rng.integers(-2, 3, size=(D, D)).astype(float)
    return B @ B.T + np.diag(rng.integers(1, 3, size=D)).astype(float)


def index_array(rng, R, N=None, allow_negative=True, allow_repeat=True):
    if N is None:
        N = int(rng.integers(1, R + 2))
    if allow_repeat:
        idx = rng.integers(0, R, size=N)
    else:
        idx = rng.permutation(R)[:min(N, R)]
    if allow_negative:
        neg = rng.random(len(idx)) < 0.4
        idx = np.where(neg, idx - R, idx)
    return idx.astype(int)


def subset(rng, D, proper=True, ordered=False):
    """non-empty index list without repetition in arbitrary order"""
    kmax = D - 1 if proper else D
    k = int(rng.integers(1, kmax + 1))
    s = rng.permutation(D)[:k]
    if ordered:
        s = np.sort(s)
    return s.astype(int)
