"""Independent NumPy reference computations (never call the library)."""
import numpy as np

LOG2PI = np.log(2.0 * np.pi)


def evalln(Lambda, nu, ln_beta, x):
    """ln of beta*exp(-x'Λx/2 + x'ν) for batches: Lambda [R,D,D], nu [R,D], ln_beta [R], x [N,D] -> [R,N]"""
    Lambda = np.asarray(Lambda); nu = np.asarray(nu); ln_beta = np.asarray(ln_beta); x = np.asarray(x)
    q = np.einsum("nd,rde,ne->rn", x, Lambda, x)
    return -0.5 * q + nu @ x.T + ln_beta[:, None]


def normal_logpdf(x, mu, Sigma):
    """x [N,D], mu [D], Sigma [D,D] -> [N]"""
    x = np.atleast_2d(x)
    D = mu.shape[0]
    sign, ld = np.linalg.slogdet(Sigma)
    d = x - mu
    sol = np.linalg.solve(Sigma, d.T).T
    return -0.5 * (np.sum(d * sol, axis=1) + D * LOG2PI + ld)


def rel_err(a, b):
    a = np.asarray(a, dtype=float); b = np.asarray(b, dtype=float)
    if a.shape != b.shape:
        return float("inf")
    if a.size == 0:
        return 0.0
    if not np.all(np.isfinite(a)) or not np.all(np.isfinite(b)):
        return 0.0 if np.array_equal(a, b) else float("inf")
    scale = max(1.0, float(np.max(np.abs(b))))
    return float(np.max(np.abs(a - b))) / scale


def log_gauss_integral(Lambda, nu, ln_beta):
    """log ∫ beta exp(-x'Λx/2 + x'ν) dx for one component"""
    D = Lambda.shape[0]
    sign, ld = np.linalg.slogdet(Lambda)
    return ln_beta + 0.5 * (nu @ np.linalg.solve(Lambda, nu)) + 0.5 * D * LOG2PI - 0.5 * ld
