"""Exact Gaussian moments of products of affine forms by explicit Isserlis tensors (independent
of the library's einsum contractions)."""
import numpy as np
from itertools import product


def moments(mu, S):
    m1 = mu
    m2 = S + np.outer(mu, mu)
    m3 = (np.einsum('i,j,k->ijk', mu, mu, mu) + np.einsum('ij,k->ijk', S, mu) + np.einsum('ik,j->ijk', S, mu)
          + np.einsum('jk,i->ijk', S, mu))
    m4 = (np.einsum('i,j,k,l->ijkl', mu, mu, mu, mu)
          + np.einsum('ij,k,l->ijkl', S, mu, mu) + np.einsum('ik,j,l->ijkl', S, mu, mu) + np.einsum('il,j,k->ijkl', S, mu, mu)
          + np.einsum('jk,i,l->ijkl', S, mu, mu) + np.einsum('jl,i,k->ijkl', S, mu, mu) + np.einsum('kl,i,j->ijkl', S, mu, mu)
          + np.einsum('ij,kl->ijkl', S, S) + np.einsum('ik,jl->ijkl', S, S) + np.einsum('il,jk->ijkl', S, S))
    return m1, m2, m3, m4


def E_forms(forms, mu, S):
    """E[ f_1(x) ⊗ … ⊗ f_n(x) ] for affine forms f_t = A_t x + a_t, n ≤ 4, x ~ N(mu, S)"""
    m = [1.0] + list(moments(mu, S))
    n = len(forms)
    out = 0
    letters = 'pqrs'; outl = 'uvwz'
    for mask in product([0, 1], repeat=n):
        k = sum(mask)
        ops = []; subs = []; xs = ''
        for t, (A, a) in enumerate(forms):
            if mask[t]:
                ops.append(A); subs.append(outl[t] + letters[len(xs)]); xs += letters[len(xs)]
            else:
                ops.append(a); subs.append(outl[t])
        if k > 0:
            ops.append(m[k]); subs.append(xs)
        out = out + np.einsum(','.join(subs) + '->' + outl[:n], *ops)
    return out
