"""Known findings: matching an oracle failure against the committed list
(/verif/known_findings.json).  The list is data; the signature predicates are code here, keyed
by finding id.  Nothing in this module ever writes the list."""
import numpy as np

LOG2PI = float(np.log(2 * np.pi))


def _dev_close(dev, expected, tol=1e-7):
    if dev is None:
        return False
    dev = np.asarray(dev, dtype=float)
    return bool(np.all(np.abs(dev - expected) <= tol * max(1.0, abs(expected))))


def sig_set_y_normaliser(f):
    """finding (d): set_y(y)(x) − ln p(y|x) = (Dy − Dx)/2 · ln 2π, exactly, at every point"""
    p = f.get("params", {})
    if "Dx" not in p or "Dy" not in p or p["Dx"] == p["Dy"]:
        return False
    return _dev_close(f.get("deviation"), 0.5 * (p["Dy"] - p["Dx"]) * LOG2PI)


def sig_evidence_offset(f):
    """finding (d) seen through product() / the evidence: deviation = N (Dy − Dx)/2 · ln 2π"""
    p = f.get("params", {})
    if not all(k in p for k in ("Dx", "Dy", "Nsum")) or p["Dx"] == p["Dy"]:
        return False
    return _dev_close(f.get("deviation"), 0.5 * p["Nsum"] * (p["Dy"] - p["Dx"]) * LOG2PI)


def sig_hetero_woodbury(f):
    """finding (g): heteroscedastic condition_on_x / bounds when A has more columns than rows"""
    p = f.get("params", {})
    return "hetero-woodbury-Da>Dy" in f.get("site", "") and p.get("Da", 0) > p.get("Dy", 0)


def sig_hetero_trunc_degenerate(f):
    """step / rectified-linear classes on exactly degenerate parameters (all input weights zero, or the exactly collinear
    construction): the result is NaN.  A finite but wrong value, another class or any other parameter does not match."""
    import math
    p = f.get("params", {})
    if p.get("kind") not in ("zero-weights", "collinear") or p.get("cls") not in ("heaviside", "relu"):
        return False
    if p["kind"] == "zero-weights" and any(abs(w) > 0 for row in p.get("W", [[1.0, 1.0]]) for w in row[1:]):
        return False
    got = f.get("got")
    if got is None:
        return False
    flat = np.asarray(got, dtype=float).reshape(-1)
    return flat.size > 0 and bool(np.all(~np.isfinite(flat)))


def sig_hetero_trunc_far_tail(f):
    """step / rectified-linear classes when the event h >= 0 is far in the tail of h under p(x) (more than 20 standard
    deviations, P(h >= 0) < 1e-88): the truncated moments are 0 * inf and the result is NaN.  Only NaN results in that
    regime match; a finite wrong value, another class or a nearer truncation point does not."""
    p = f.get("params", {})
    if p.get("cls") not in ("heaviside", "relu"):
        return False
    vals = [f.get("got"), f.get("expected"), f.get("deviation")] + list((p.get("gaps") or {}).values())
    flat = []
    for v in vals:
        if v is None:
            continue
        try:
            flat.extend(np.asarray(v, dtype=float).reshape(-1).tolist())
        except Exception:
            pass
    if not any(np.isnan(x) for x in flat):
        return False
    try:
        W = np.asarray(p["W"], dtype=float); S = np.asarray(p["Sigma_x"], dtype=float); mu = np.asarray(p["mu_x"], dtype=float)
        S = S.reshape((-1,) + S.shape[-2:]); mu = mu.reshape(-1, mu.shape[-1])
        for k in range(W.shape[0]):
            w0, w = W[k, 0], W[k, 1:]
            for n in range(S.shape[0]):
                sd = float(np.sqrt(w @ S[n] @ w))
                if sd > 0 and -(w0 + w @ mu[n]) / sd > 20.0:
                    return True
    except Exception:
        return False
    return False


SIGNATURES = {
    "hetero-woodbury-Da>Dy": (("hetero-woodbury-Da>Dy",), sig_hetero_woodbury),
    "hetero-trunc-degenerate": (("hetero-trunc-degenerate",), sig_hetero_trunc_degenerate),
    "hetero-trunc-far-tail": (("integrate_log_conditional_y",), sig_hetero_trunc_far_tail),
    "set_y-normaliser-uses-Dx": (("set_y",), sig_set_y_normaliser),
    "evidence-offset-from-set_y": (("set_y", "evidence"), sig_evidence_offset),
}


def match(failure, known):
    """-> id of the listed finding this failure is an instance of, else None"""
    for k in known:
        ent = SIGNATURES.get(k["id"])
        if ent is None:
            continue
        sites, pred = ent
        if not any(s in failure.get("site", "") for s in sites):
            continue
        if k.get("site") and k["site"] not in failure.get("site", ""):
            continue
        try:
            if pred(failure):
                return k["id"]
        except Exception:
            continue
    return None


def replay_known(k):
    """replay the recorded input of a listed finding on the implementation.
    True = still fails as recorded, False = no longer reproduces, None = no recorded replay"""
    rep = k.get("replay")
    if not rep:
        return None
    import importlib
    try:
        mod = importlib.import_module(rep["module"])
        return bool(getattr(mod, rep["function"])(**rep.get("args", {})))
    except Exception:
        return None
