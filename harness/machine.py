"""Register machine that runs one program on the REAL library (/repo working tree) and emits the
same program in the line protocol of lean/GT/Driver.lean.

Every `op_*` method (1) appends one protocol line and (2) executes the corresponding public call
on the implementation, storing the result in a register.  `run_lean` pipes the lines to the Lean
driver; `compare` diffs the two output streams after canonicalisation (DESIGN.md §4.2).
"""
import os, sys, subprocess, struct, copy
import numpy as np

REPO = os.environ.get("GT_REPO", "/repo")
if REPO not in sys.path:
    sys.path.insert(0, REPO)
os.environ.setdefault("JAX_PLATFORMS", "cpu")
import warnings
warnings.filterwarnings("ignore", category=SyntaxWarning)
import jax
jax.config.update("jax_enable_x64", True)
import jax.numpy as jnp
from gaussian_toolbox import factor as gt_factor, measure as gt_measure, pdf as gt_pdf, conditional as gt_cond

HERE = os.path.dirname(os.path.abspath(__file__))
VERIF = os.path.dirname(HERE)
DRIVER = os.path.join(VERIF, "lean", ".lake", "build", "bin", "gtdriver")

# ----------------------------------------------------------------------------------------------
# encoding

def hexs(a):
    a = np.ascontiguousarray(np.asarray(a, dtype=np.float64)).astype('>f8')
    h = a.tobytes().hex()
    return [h[i:i + 16] for i in range(0, len(h), 16)]

def unhex(tokens):
    if not tokens:
        return np.zeros(0)
    return np.frombuffer(bytes.fromhex(''.join(tokens)), dtype='>f8').astype(np.float64)

def arr_tok(a):
    """`n h1 … hn`, or `-1` for None"""
    if a is None:
        return ["-1"]
    hs = hexs(a)
    return [str(len(hs))] + hs

def ints_tok(idx):
    idx = [int(i) for i in np.asarray(idx).reshape(-1)]
    return [str(len(idx))] + [str(i) for i in idx]

# ----------------------------------------------------------------------------------------------
# classification of exceptions into the small refusal enum

def classify(e):
    if isinstance(e, NotImplementedError):
        return "refuse-documented"
    if isinstance(e, RuntimeError) and ("not implemented" in str(e) or "should be one" in str(e)
                                        or "need to be specified" in str(e)):
        return "refuse-documented"
    if isinstance(e, AssertionError):
        return "refuse-documented"
    if isinstance(e, ValueError) and "Leading dimension" in str(e):
        return "refuse-documented"
    if isinstance(e, (TypeError, ValueError, IndexError)):
        return "shape-error"
    return "other"

# ----------------------------------------------------------------------------------------------
# canonical dump of implementation objects

def _np(x):
    return None if x is None else np.asarray(x, dtype=np.float64)

def factor_kind(f):
    if isinstance(f, gt_factor.OneRankFactor):
        return "onerank"
    if isinstance(f, gt_factor.LinearFactor):
        return "linear"
    if isinstance(f, gt_factor.ConstantFactor):
        return "constant"
    return "general"

def dump_obj(o):
    """-> dict(type=…, head=(…), fields={name: ndarray})"""
    if isinstance(o, np.ndarray) or isinstance(o, jnp.ndarray):
        a = np.asarray(o, dtype=np.float64)
        return dict(type="arr", head=tuple(a.shape), fields={"data": a})
    # [approx-feature] LRBF/LSEM conditionals (subclasses of ConditionalGaussianPDF: must come first)
    from machine_approx import dump_feature
    d = dump_feature(o)
    if d is not None:
        return d
    if isinstance(o, gt_measure.GaussianMeasure):
        if isinstance(o, gt_pdf.GaussianDiagPDF):
            cls = "diagpdf"
        elif isinstance(o, gt_pdf.GaussianPDF):
            cls = "pdf"
        elif isinstance(o, gt_measure.GaussianDiagMeasure):
            cls = "diagmeasure"
        else:
            cls = "measure"
        fields = {"Lambda": _np(o.Lambda), "nu": _np(o.nu), "ln_beta": _np(o.ln_beta)}
        for name in ("Sigma", "ln_det_Sigma", "ln_det_Lambda", "mu", "lnZ"):
            v = getattr(o, name, None)
            if v is not None:
                fields[name] = _np(v)
        return dict(type="meas", head=(cls, o.R, o.D), fields=fields)
    if isinstance(o, gt_factor.ConjugateFactor):
        fields = {"Lambda": _np(o.Lambda), "nu": _np(o.nu), "ln_beta": _np(o.ln_beta)}
        if isinstance(o, gt_factor.OneRankFactor):
            fields["v"] = _np(o.v)
            fields["g"] = _np(o.g)
        return dict(type="factor", head=(factor_kind(o), o.R, o.D), fields=fields)
    # [hetero] heteroscedastic conditionals subclass ConditionalGaussianPDF: test them first
    if type(o).__name__.startswith("Heteroscedastic") and hasattr(o, "W") and hasattr(o, "A"):
        from machine_hetero import hetero_class_tag
        return dict(type="hetero", head=(hetero_class_tag(o), o.Dy, o.Dx, o.Da, o.Dk),
                    fields={"M": _np(o.M), "b": _np(o.b), "A": _np(o.A), "W": _np(o.W), "Sigma": _np(o.Sigma),
                            "Lambda": _np(o.Lambda), "ln_det_Sigma": _np(o.ln_det_Sigma)})
    if isinstance(o, gt_cond.NNControlGaussianConditional):
        return dict(type="cond", head=(0, o.R, o.Dy, o.Dx),
                    fields={"M": np.zeros((o.R, o.Dy, o.Dx)), "b": np.zeros((o.R, o.Dy)), "Sigma": _np(o.Sigma),
                            "Lambda": _np(o.Lambda), "ln_det_Sigma": _np(o.ln_det_Sigma)})
    if isinstance(o, gt_cond.ConditionalIdentityGaussianPDF):
        diag = int(isinstance(o, gt_cond.ConditionalIdentityDiagGaussianPDF))
        return dict(type="condid", head=(diag, o.R, o.Dy),
                    fields={"Sigma": _np(o.Sigma), "Lambda": _np(o.Lambda), "ln_det_Sigma": _np(o.ln_det_Sigma)})
    if isinstance(o, gt_cond.ConditionalGaussianPDF):
        diag = int(isinstance(o, gt_cond.ConditionalGaussianDiagPDF))
        return dict(type="cond", head=(diag, o.R, o.Dy, o.Dx),
                    fields={"M": _np(o.M), "b": _np(o.b), "Sigma": _np(o.Sigma), "Lambda": _np(o.Lambda),
                            "ln_det_Sigma": _np(o.ln_det_Sigma)})
    # [trunc] truncated measures / densities (gaussian_toolbox/experimental/truncated_measure.py)
    from machine_trunc import dump_trunc
    d = dump_trunc(o)
    if d is not None:
        return d
    if o is None:
        return dict(type="arr", head=(0,), fields={"data": np.zeros(0)})
    raise TypeError(f"cannot dump {type(o)}")

def parse_dump(tokens):
    """parse the Lean driver's dump string (already split)"""
    t = tokens[0]
    pos = 1
    if t == "arr":
        nd = int(tokens[1])
        shape = tuple(int(x) for x in tokens[2:2 + nd])
        pos = 2 + nd
        head = shape
    elif t == "meas":
        head = (tokens[1], int(tokens[2]), int(tokens[3])); pos = 4
    elif t == "factor":
        head = (tokens[1], int(tokens[2]), int(tokens[3])); pos = 4
    elif t == "cond":
        head = (int(tokens[1]), int(tokens[2]), int(tokens[3]), int(tokens[4])); pos = 5
    elif t == "condid":
        head = (int(tokens[1]), int(tokens[2]), int(tokens[3])); pos = 4
    elif t == "feat":   # [approx-feature]
        from machine_approx import parse_feature_head
        head, pos = parse_feature_head(tokens)
    elif t == "trunc":   # [trunc]
        head = (tokens[1], int(tokens[2])); pos = 3
    elif t == "empty":
        return dict(type="empty", head=(), fields={})
    elif t == "hetero":  # [hetero]
        head = (tokens[1], int(tokens[2]), int(tokens[3]), int(tokens[4]), int(tokens[5])); pos = 6
    else:
        raise ValueError(f"bad dump head {t}")
    fields = {}
    while pos < len(tokens):
        name = tokens[pos]; n = int(tokens[pos + 1])
        fields[name] = unhex(tokens[pos + 2:pos + 2 + n])
        pos += 2 + n
    return dict(type=t, head=head, fields=fields)

# ----------------------------------------------------------------------------------------------

TOL = 1e-8

def close(a, b, tol=TOL):
    a = np.asarray(a, dtype=np.float64).reshape(-1)
    b = np.asarray(b, dtype=np.float64).reshape(-1)
    if a.shape != b.shape:
        return False, float('inf')
    if a.size == 0:
        return True, 0.0
    nan_a, nan_b = np.isnan(a), np.isnan(b)
    if not np.array_equal(nan_a, nan_b):
        return False, float('nan')
    inf_a = np.isinf(a)
    if not np.array_equal(inf_a, np.isinf(b)) or not np.array_equal(a[inf_a], b[inf_a]):
        return False, float('inf')
    m = ~(nan_a | inf_a)
    if not m.any():
        return True, 0.0
    scale = max(1.0, float(np.max(np.abs(a[m]))))
    err = float(np.max(np.abs(a[m] - b[m]))) / scale
    return err <= tol, err

class Disagreement(Exception):
    pass

from machine_approx import ApproxOps
from machine_trunc import TruncOps
from machine_hetero import HeteroOps


class Machine(ApproxOps, TruncOps, HeteroOps):
    """One program = one sequence of instructions over registers."""

    def __init__(self, label=""):
        self.label = label
        self.lines = []          # protocol lines
        self.impl = []           # per line: ("ok", dump) | ("refuse", kind)
        self.regs = {}           # register -> implementation object
        self.next = 0
        self.meta = []           # per line: free-form dict for the evidence (op name, shapes, flags)
        self.exact_lines = set() # lines whose model/implementation comparison is bit-exact (exact mode)

    # -- plumbing ------------------------------------------------------------------------------
    def new(self):
        r = self.next
        self.next += 1
        return r

    def _emit(self, dst, op, toks, fn, meta=None):
        self.lines.append(" ".join([str(dst), op] + [str(t) for t in toks]))
        self.meta.append(dict(op=op, **(meta or {})))
        try:
            val = fn()
            if val is None:
                val = np.zeros(0)      # methods returning None: an empty array on both sides
            self.regs[dst] = val
            self.impl.append(("ok", dump_obj(val)))
        except Exception as e:  # noqa
            self.impl.append(("refuse", classify(e), repr(e)[:200]))
            self.regs[dst] = None
        return dst

    def dumpall(self):
        self.lines.append("dumpall")
        self.meta.append(dict(op="dumpall"))
        snap = {}
        for r, o in self.regs.items():
            try:
                snap[r] = dump_obj(o) if o is not None else dict(type="empty", head=(), fields={})
            except TypeError:
                snap[r] = dict(type="empty", head=(), fields={})
        self.impl.append(("dumpall", snap))

    # -- constructors --------------------------------------------------------------------------
    def arr(self, a):
        a = np.asarray(a, dtype=np.float64)
        dst = self.new()
        toks = [a.ndim] + list(a.shape) + arr_tok(a)
        return self._emit(dst, "arr", toks, lambda: jnp.asarray(a), dict(shape=a.shape))

    def factor(self, kind, R, D, **kw):
        dst = self.new()
        g = lambda k: None if kw.get(k) is None else jnp.asarray(kw[k])
        if kind == "general":
            toks = ["general", R, D] + arr_tok(kw["Lambda"]) + arr_tok(kw.get("nu")) + arr_tok(kw.get("ln_beta"))
            fn = lambda: gt_factor.ConjugateFactor(Lambda=g("Lambda"), nu=g("nu"), ln_beta=g("ln_beta"))
        elif kind == "onerank":
            toks = ["onerank", R, D] + arr_tok(kw["v"]) + arr_tok(kw.get("g")) + arr_tok(kw.get("nu")) + arr_tok(kw.get("ln_beta"))
            fn = lambda: gt_factor.OneRankFactor(v=g("v"), g=g("g"), nu=g("nu"), ln_beta=g("ln_beta"))
        elif kind == "linear":
            toks = ["linear", R, D] + arr_tok(kw["nu"]) + arr_tok(kw.get("ln_beta"))
            fn = lambda: gt_factor.LinearFactor(nu=g("nu"), ln_beta=g("ln_beta"))
        elif kind == "constant":
            toks = ["constant", R, D] + arr_tok(kw["ln_beta"])
            fn = lambda: gt_factor.ConstantFactor(ln_beta=g("ln_beta"), num_dim=D)
        else:
            raise ValueError(kind)
        return self._emit(dst, "factor", toks, fn, dict(kind=kind, R=R, D=D))

    def measure(self, R, D, Lambda, nu=None, ln_beta=None, diag=False):
        dst = self.new()
        toks = [int(diag), R, D] + arr_tok(Lambda) + arr_tok(nu) + arr_tok(ln_beta)
        cls = gt_measure.GaussianDiagMeasure if diag else gt_measure.GaussianMeasure
        j = lambda a: None if a is None else jnp.asarray(a)
        return self._emit(dst, "measure", toks, lambda: cls(Lambda=j(Lambda), nu=j(nu), ln_beta=j(ln_beta)),
                          dict(R=R, D=D, diag=diag))

    def pdf(self, R, D, Sigma, mu, Lambda=None, ln_det_Sigma=None, diag=False):
        dst = self.new()
        toks = [int(diag), R, D] + arr_tok(Sigma) + arr_tok(mu) + arr_tok(Lambda) + arr_tok(ln_det_Sigma)
        cls = gt_pdf.GaussianDiagPDF if diag else gt_pdf.GaussianPDF
        j = lambda a: None if a is None else jnp.asarray(a)
        return self._emit(dst, "pdf", toks,
                          lambda: cls(Sigma=j(Sigma), mu=j(mu), Lambda=j(Lambda), ln_det_Sigma=j(ln_det_Sigma)),
                          dict(R=R, D=D, diag=diag, given=(Lambda is not None, ln_det_Sigma is not None)))

    def cond(self, R, Dy, Dx, M, b=None, Sigma=None, Lambda=None, ln_det_Sigma=None, diag=False):
        dst = self.new()
        toks = [int(diag), R, Dy, Dx] + arr_tok(M) + arr_tok(b) + arr_tok(Sigma) + arr_tok(Lambda) + arr_tok(ln_det_Sigma)
        cls = gt_cond.ConditionalGaussianDiagPDF if diag else gt_cond.ConditionalGaussianPDF
        j = lambda a: None if a is None else jnp.asarray(a)
        return self._emit(dst, "cond", toks,
                          lambda: cls(M=j(M), b=j(b), Sigma=j(Sigma), Lambda=j(Lambda), ln_det_Sigma=j(ln_det_Sigma)),
                          dict(R=R, Dy=Dy, Dx=Dx, diag=diag))

    def condid(self, R, D, Sigma=None, Lambda=None, ln_det_Sigma=None, diag=False):
        dst = self.new()
        toks = [int(diag), R, D] + arr_tok(Sigma) + arr_tok(Lambda) + arr_tok(ln_det_Sigma)
        cls = gt_cond.ConditionalIdentityDiagGaussianPDF if diag else gt_cond.ConditionalIdentityGaussianPDF
        j = lambda a: None if a is None else jnp.asarray(a)
        return self._emit(dst, "condid", toks,
                          lambda: cls(Sigma=j(Sigma), Lambda=j(Lambda), ln_det_Sigma=j(ln_det_Sigma)),
                          dict(R=R, D=D, diag=diag))

    # -- NN-controlled conditional: the control function is a parameter (affine map u -> W'u + c) --
    def nncond(self, Dy, Dx, Du, Sigma, W, c):
        dst = self.new()
        W = np.asarray(W); c = np.asarray(c)
        ctrl = lambda u: jnp.asarray(u) @ jnp.asarray(W) + jnp.asarray(c)
        self.ctrl = getattr(self, "ctrl", {})
        self.ctrl[dst] = (W, c)
        return self._emit(dst, "nncond", [Dy, Dx] + arr_tok(Sigma),
                          lambda: gt_cond.NNControlGaussianConditional(Sigma=jnp.asarray(Sigma), num_cond_dim=Dx,
                                                                       num_control_dim=Du, control_func=ctrl),
                          dict(Dy=Dy, Dx=Dx, Du=Du))

    def nn_out(self, nn, u):
        W, c = self.ctrl[nn]
        return np.asarray(u) @ W + c

    def nn_set_control(self, nn, u):
        dst = self.new()
        out = self.nn_out(nn, u)
        return self._emit(dst, "nn_set_control", [nn, out.shape[0]] + arr_tok(out),
                          lambda: self.regs[nn].set_control_variable(jnp.asarray(u)), dict(Ru=out.shape[0]))

    def nn_call(self, which, nn, u, *args):
        """an NN-conditional method with control u; the model side is set_control_variable followed by
        the general-class operation (two protocol lines)"""
        t = self.nn_set_control(nn, u)
        dst = self.new()
        ju = jnp.asarray(u)
        if which in ("joint", "marginal", "conditional", "cond_entropy", "mutual_information"):
            name = {"joint": "affine_joint_transformation", "marginal": "affine_marginal_transformation",
                    "conditional": "affine_conditional_transformation", "cond_entropy": "conditional_entropy",
                    "mutual_information": "mutual_information"}[which]
            p = args[0]
            return self._emit(dst, which, [t, p], lambda: getattr(self.regs[nn], name)(self.regs[p], u=ju), dict(which=which, nn=True))
        if which == "set_y":
            y = args[0]
            return self._emit(dst, "set_y", [t, y], lambda: self.regs[nn].set_y(self.regs[y], u=ju), dict(nn=True))
        if which == "condition_on_x":
            x = args[0]
            return self._emit(dst, "condition_on_x", [t, x], lambda: self.regs[nn].condition_on_x_u(self.regs[x], ju), dict(nn=True))
        if which == "log_cond":
            q = args[0]
            return self._emit(dst, "log_cond", [t, q], lambda: self.regs[nn].integrate_log_conditional(self.regs[q], u=ju), dict(nn=True))
        if which == "log_cond_y":
            p, y = args
            return self._emit(dst, "log_cond_y", [t, p, y], lambda: self.regs[nn].integrate_log_conditional_y(self.regs[p], u=ju, y=self.regs[y]), dict(nn=True))
        raise ValueError(which)

    # -- factor / measure ----------------------------------------------------------------------
    def evalln(self, f, x, element_wise=False):
        dst = self.new()
        op = "evalln_ew" if element_wise else "evalln"
        return self._emit(dst, op, [f, x],
                          lambda: self.regs[f].evaluate_ln(self.regs[x], element_wise=element_wise))

    def evaluate(self, f, x):
        """evaluate(x): the function value itself (not its logarithm)"""
        dst = self.new()
        return self._emit(dst, "evaluate", [f, x], lambda: self.regs[f].evaluate(self.regs[x]))

    def multiply(self, u, f, update_full):
        dst = self.new()
        return self._emit(dst, "multiply", [u, f, int(update_full)],
                          lambda: self.regs[u].multiply(self.regs[f], update_full=update_full),
                          dict(uf=update_full))

    def mul(self, u, f):
        """`u * f` (== multiply with update_full=False)"""
        dst = self.new()
        return self._emit(dst, "multiply", [u, f, 0], lambda: self.regs[u] * self.regs[f], dict(uf=False, via="__mul__"))

    def hadamard(self, u, f, update_full):
        dst = self.new()
        def fn():
            res = self.regs[u].hadamard(self.regs[f], update_full=update_full)
            # a well-formed batch has one leading dimension in every stored array
            lead = {np.asarray(getattr(res, n)).shape[0] for n in ("Lambda", "nu", "ln_beta")}
            if len(lead) != 1:
                raise IllFormed(f"hadamard result has leading dims {sorted(lead)}")
            return res
        return self._emit(dst, "hadamard", [u, f, int(update_full)], fn, dict(uf=update_full))

    def product(self, src):
        dst = self.new()
        return self._emit(dst, "product", [src], lambda: self.regs[src].product())

    def slice(self, src, idx):
        dst = self.new()
        return self._emit(dst, "slice", [src] + ints_tok(idx),
                          lambda: self.regs[src].slice(jnp.asarray(np.asarray(idx, dtype=np.int32))),
                          dict(idx=[int(i) for i in idx]))

    def query(self, what, src):
        dst = self.new()
        def fn():
            o = self.regs[src]
            if what in ("log_integral", "log_integral_light", "integral", "integral_light", "get_density"):
                return getattr(o, what)()
            if what == "compute_lnZ":
                o.compute_lnZ(); return o.lnZ
            if what == "compute_mu":
                o.compute_mu(); return o.mu
            if what == "prepare":
                o._prepare_integration(); return None
            if what == "normalize":
                o.normalize(); return None
            raise ValueError(what)
        return self._emit(dst, "query", [what, src], fn, dict(what=what))

    # integrals: forms are (mat, vec) with mat None | 2-D | 3-D, vec None | 1-D | 2-D
    @staticmethod
    def _form_tok(R, mat, vec):
        t = []
        if mat is None:
            t += [0]
        elif np.ndim(mat) == 2:
            t += [1] + arr_tok(mat)
        else:
            m = np.asarray(mat)
            if m.shape[0] == 1 and R != 1:
                m = np.tile(m, (R, 1, 1))
            t += [2] + arr_tok(m)
        if vec is None:
            t += [0]
        elif np.ndim(vec) == 1:
            t += [1] + arr_tok(vec)
        else:
            v = np.asarray(vec)
            if v.shape[0] == 1 and R != 1:
                v = np.tile(v, (R, 1))
            t += [2] + arr_tok(v)
        return t

    KEYS = {
        "Ax+a": ("(Ax+a)", "A"), "quad_inner": ("(Ax+a)'(Bx+b)", "AB"), "quad_outer": ("(Ax+a)(Bx+b)'", "AB"),
        "cubic_inner": ("(Ax+a)(Bx+b)'(Cx+c)", "ABC"), "cubic_outer": ("(Ax+a)'(Bx+b)(Cx+c)'", "ABC"),
        "quartic_inner": ("(Ax+a)'(Bx+b)(Cx+c)'(Dx+d)", "ABCD"), "quartic_outer": ("(Ax+a)(Bx+b)'(Cx+c)(Dx+d)'", "ABCD"),
    }

    def integrate(self, src, key, dims=(), forms=(), **kw):
        """key in {1,x,xx',Ax+a,quad_inner,…}; dims = output dims (K[,L[,M]]); forms = [(mat,vec),…]"""
        dst = self.new()
        o = lambda: self.regs[src]
        R = self.regs[src].R if self.regs.get(src) is not None else 1
        j = lambda a: None if a is None else jnp.asarray(a)
        if key in ("1", "x", "xx'"):
            return self._emit(dst, "integrate", [key, src], lambda: o().integrate(key), dict(key=key))
        if key in self.KEYS:
            expr, letters = self.KEYS[key]
            toks = [key, src] + list(dims)
            for (mat, vec) in forms:
                toks += self._form_tok(R, mat, vec)
            def fn():
                kwargs = {}
                for L, (mat, vec) in zip(letters, forms):
                    if mat is not None:
                        kwargs[f"{L}_mat"] = j(mat)
                    if vec is not None:
                        kwargs[f"{L.lower()}_vec"] = j(vec)
                return o().integrate(expr, **kwargs)
            modes = [(0 if m is None else np.ndim(m) - 1, 0 if v is None else np.ndim(v)) for m, v in forms]
            return self._emit(dst, "integrate", toks, fn, dict(key=key, dims=tuple(dims), modes=modes))
        if key == "xbxx":
            b = np.asarray(kw["b"])
            bb = np.tile(b[None], (R, 1)) if b.ndim == 1 else (np.tile(b, (R, 1)) if b.shape[0] == 1 and R != 1 else b)
            return self._emit(dst, "integrate", [key, src] + arr_tok(bb),
                              lambda: o().integrate("xb'xx'", b_vec=j(b)), dict(key=key, mode=b.ndim))
        if key == "xAxx":
            A = np.asarray(kw["A"]); a = np.asarray(kw["a"])
            A3 = A[None] if A.ndim == 2 else A           # [#R,1,D]
            a2 = a[None] if a.ndim == 1 else a           # [#R,1]
            AA = np.tile(A3, (R, 1, 1)) if A3.shape[0] == 1 and R != 1 else A3
            aa = np.tile(a2, (R, 1)) if a2.shape[0] == 1 and R != 1 else a2
            return self._emit(dst, "integrate", [key, src] + arr_tok(AA[:, 0]) + arr_tok(aa[:, 0]),
                              lambda: o().integrate("x(A'x + a)x'", A_mat=j(A), a_vec=j(a)),
                              dict(key=key, mode=(A.ndim, a.ndim)))
        if key == "log_u":
            f = kw["factor"]
            return self._emit(dst, "integrate", [key, src, f],
                              lambda: o().integrate("log u(x)", factor=self.regs[f]), dict(key=key))
        raise ValueError(key)

    # -- pdf -----------------------------------------------------------------------------------
    def get_marginal(self, p, dims):
        dst = self.new()
        return self._emit(dst, "get_marginal", [p] + ints_tok(dims),
                          lambda: self.regs[p].get_marginal(jnp.asarray(np.asarray(dims, dtype=np.int32))),
                          dict(dims=[int(d) for d in dims]))

    def entropy(self, p):
        dst = self.new()
        return self._emit(dst, "entropy", [p], lambda: self.regs[p].entropy())

    def kl(self, p, q):
        dst = self.new()
        return self._emit(dst, "kl", [p, q], lambda: self.regs[p].kl_divergence(self.regs[q]))

    def linear_sum(self, p, W, b=None):
        dst = self.new()
        W = np.asarray(W)
        return self._emit(dst, "linear_sum", [p, W.shape[1]] + arr_tok(W) + arr_tok(b),
                          lambda: self.regs[p].get_density_of_linear_sum(jnp.asarray(W), None if b is None else jnp.asarray(b)),
                          dict(K=W.shape[1], has_b=b is not None))

    def sample(self, p, seed, n):
        """structural check of `sample`: the model is fed z = jax.random.normal(key, (n,R,D))"""
        key = jax.random.PRNGKey(seed)
        P = self.regs[p]
        z = np.asarray(jax.random.normal(key, (n, P.R, P.D)))
        zr = self.arr(z)
        dst = self.new()
        return self._emit(dst, "sample_from", [p, zr], lambda: P.sample(key, n), dict(seed=seed, n=n))

    def update(self, p, idx, d):
        dst = self.new()
        def fn():
            self.regs[p].update(jnp.asarray(np.asarray(idx, dtype=np.int32)), self.regs[d])
            return None
        return self._emit(dst, "update", [p] + ints_tok(idx) + [d], fn, dict(idx=[int(i) for i in idx]))

    def condition_on(self, p, dims):
        dst = self.new()
        return self._emit(dst, "condition_on", [p] + ints_tok(dims),
                          lambda: self.regs[p].condition_on(jnp.asarray(np.asarray(dims, dtype=np.int32))),
                          dict(dims=[int(d) for d in dims]))

    def condition_on_explicit(self, p, dim_y, dim_x):
        dst = self.new()
        return self._emit(dst, "condition_on_explicit", [p] + ints_tok(dim_y) + ints_tok(dim_x),
                          lambda: self.regs[p].condition_on_explicit(jnp.asarray(np.asarray(dim_y, dtype=np.int32)),
                                                                      jnp.asarray(np.asarray(dim_x, dtype=np.int32))),
                          dict(dim_y=[int(d) for d in dim_y], dim_x=[int(d) for d in dim_x]))

    # -- conditionals --------------------------------------------------------------------------
    def condition_on_x(self, c, x, via_call=False):
        """via_call: through `cond(x)` (`__call__`), documented to be the same operation"""
        dst = self.new()
        if via_call:
            return self._emit(dst, "condition_on_x", [c, x], lambda: self.regs[c](self.regs[x]), dict(via="__call__"))
        return self._emit(dst, "condition_on_x", [c, x], lambda: self.regs[c].condition_on_x(self.regs[x]))

    def cond_mu(self, c, x):
        dst = self.new()
        return self._emit(dst, "cond_mu", [c, x], lambda: self.regs[c].get_conditional_mu(self.regs[x]))

    def set_y(self, c, y):
        dst = self.new()
        def fn():
            res = self.regs[c].set_y(self.regs[y])
            lead = {np.asarray(getattr(res, n)).shape[0] for n in ("Lambda", "nu", "ln_beta")}
            if len(lead) != 1:
                raise IllFormed(f"set_y result has leading dims {sorted(lead)}")
            return res
        return self._emit(dst, "set_y", [c, y], fn)

    def transform(self, which, c, p):
        dst = self.new()
        name = {"joint": "affine_joint_transformation", "marginal": "affine_marginal_transformation",
                "conditional": "affine_conditional_transformation", "cond_entropy": "conditional_entropy",
                "mutual_information": "mutual_information"}[which]
        return self._emit(dst, which, [c, p], lambda: getattr(self.regs[c], name)(self.regs[p]), dict(which=which))

    def update_sigma(self, c, S):
        dst = self.new()
        def fn():
            self.regs[c].update_Sigma(jnp.asarray(S)); return None
        return self._emit(dst, "update_sigma", [c] + arr_tok(S), fn)

    def log_cond(self, c, q):
        dst = self.new()
        return self._emit(dst, "log_cond", [c, q], lambda: self.regs[c].integrate_log_conditional(self.regs[q]))

    def log_cond_y(self, c, p, y, callable_form=False):
        dst = self.new()
        def fn():
            if callable_form:
                return self.regs[c].integrate_log_conditional_y(self.regs[p])(self.regs[y])
            return self.regs[c].integrate_log_conditional_y(self.regs[p], y=self.regs[y])
        return self._emit(dst, "log_cond_y", [c, p, y], fn, dict(callable_form=callable_form))

    def copy(self, src):
        dst = self.new()
        return self._emit(dst, "copy", [src], lambda: copy.deepcopy(self.regs[src]))


class IllFormed(Exception):
    """result object whose stored arrays disagree on the batch size"""


_orig_classify = classify
def classify(e):  # noqa: F811
    if isinstance(e, IllFormed):
        return "ill-formed"
    return _orig_classify(e)

# ----------------------------------------------------------------------------------------------
# running the Lean side and comparing

def run_lean(lines, native=True, timeout=600):
    inp = "\n".join(lines) + "\n"
    if native and os.path.exists(DRIVER):
        cmd = [DRIVER]
        cwd = None
    else:
        cmd = ["lake", "env", "lean", "--run", "GT/Driver.lean"]
        cwd = os.path.join(VERIF, "lean")
    res = subprocess.run(cmd, input=inp, capture_output=True, text=True, cwd=cwd, timeout=timeout)
    if res.returncode != 0:
        raise RuntimeError(f"lean driver failed: {res.stderr[:2000]}")
    return res.stdout.split("\n")

def parse_lean_output(out_lines):
    """-> list aligned with input lines: ("ok", dump) | ("refuse", kind) | ("dumpall", {reg: dump})"""
    res = {}
    i = 0
    n = len(out_lines)
    while i < n:
        ln = out_lines[i]
        if not ln.strip():
            i += 1
            continue
        toks = ln.split(" ")
        idx = int(toks[0])
        if toks[1] == "ok":
            res[idx] = ("ok", parse_dump(toks[2:]))
            i += 1
        elif toks[1] == "refuse":
            res[idx] = ("refuse", toks[2] if len(toks) > 2 else "")
            i += 1
        elif toks[1] == "reg":
            snap = {}
            first = True
            while True:
                ln = out_lines[i]
                toks = ln.split(" ")
                if first:
                    toks = toks[1:]
                    first = False
                if toks[0] == "enddump":
                    i += 1
                    break
                snap[int(toks[1])] = parse_dump(toks[2:])
                i += 1
            res[idx] = ("dumpall", snap)
        elif toks[1] == "enddump":
            res[idx] = ("dumpall", {})
            i += 1
        else:
            res[idx] = ("bad", ln[:200])
            i += 1
    return res

# fields whose PRESENCE may differ between model and implementation without being a disagreement
OPTIONAL_FIELDS = {"Sigma", "ln_det_Sigma", "ln_det_Lambda", "mu", "lnZ"}

def compare_dump(a, b, tol=TOL):
    """a = implementation dump, b = model dump -> list of problems"""
    probs = []
    if a["type"] != b["type"]:
        return [f"type {a['type']} vs {b['type']}"]
    if tuple(a["head"]) != tuple(b["head"]):
        return [f"head {a['head']} vs {b['head']}"]
    for name, va in a["fields"].items():
        if name not in b["fields"]:
            if name not in OPTIONAL_FIELDS:
                probs.append(f"field {name} missing in model")
            continue
        ok, err = close(va, b["fields"][name], tol)
        if not ok:
            probs.append(f"field {name}: rel.err {err:.3e}")
    for name in b["fields"]:
        if name not in a["fields"] and name not in OPTIONAL_FIELDS:
            probs.append(f"field {name} missing in implementation")
    return probs

def compare(machine, lean_res, tol=TOL):
    """-> list of (line_no, line_prefix, problems)"""
    out = []
    for i, imp in enumerate(machine.impl):
        lr = lean_res.get(i)
        head = machine.lines[i][:80]
        if lr is None:
            out.append((i, head, ["no model output"]))
            continue
        if imp[0] == "ok":
            if lr[0] != "ok":
                out.append((i, head, [f"implementation ok, model {lr[0]} {lr[1] if len(lr) > 1 else ''}"]))
                continue
            p = compare_dump(imp[1], lr[1], 0.0 if i in machine.exact_lines else tol)
            if p:
                out.append((i, head, p))
        elif imp[0] == "refuse":
            if lr[0] != "refuse":
                out.append((i, head, [f"implementation refuses ({imp[1]}: {imp[2]}), model {lr[0]}"]))
            else:
                mk = lr[1]
                # both refuse: kinds are compared on the coarse enum only
                coarse = lambda k: "documented" if k == "refuse-documented" else ("ill-formed" if k == "ill-formed" else "error")
                if coarse(imp[1]) != coarse(mk):
                    out.append((i, head, [f"refusal kind {imp[1]} ({imp[2]}) vs model {mk}"]))
        elif imp[0] == "dumpall":
            if lr[0] != "dumpall":
                out.append((i, head, ["model did not dump"]))
                continue
            for r, d in imp[1].items():
                md = lr[1].get(r)
                if md is None:
                    if d["type"] != "empty":
                        out.append((i, f"reg {r}", ["missing in model dump"]))
                    continue
                if d["type"] == "empty" or md["type"] == "empty":
                    if d["type"] != md["type"]:
                        out.append((i, f"reg {r}", [f"type {d['type']} vs {md['type']}"]))
                    continue
                p = compare_dump(d, md, tol)
                if p:
                    out.append((i, f"reg {r}", p))
    return out
