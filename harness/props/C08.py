"""C08 — see DESIGN.md §5 C08.  Cases: every conditional class × batch regime × Dx⋛Dy."""
from .condfam import *
PROPERTY = "C08"
LEAN_MODULES = ["GT.Props.C08"]
ASSUMPTIONS = ["float64 rounding outside the theorems; inputs with condition number <= 1e4"]

def cases(seed, tier):
    out = [case_marginal(PROPERTY, *s) for s in shape_grid(seed, "C08", tier)]
    out += [case_marginal(PROPERTY, *s, tag="/pdiag") for s in pdiag_grid(seed, "C08", tier)]
    out += [case_marginal(PROPERTY, *s, tag="/upd") for s in upd_grid(seed, "C08", tier)]
    out += [case_marginal(PROPERTY, *s, tag=t) for s, t in ctor_grid(seed, "C08", tier)]
    out += [case_marginal(PROPERTY, *s, tag="/hd") for s in hd_grid(seed, "C08", tier)]
    out += [case_marginal(PROPERTY, *s) for s in nn_grid(seed, "C08", tier)]       # NN-controlled class through its own methods (u=...)
    return seeded(out, seed)
