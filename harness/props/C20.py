"""C20 — truncated one-dimensional Gaussian measures integrate correctly
(gaussian_toolbox/experimental/truncated_measure.py, experimental/misc.py).

Oracles are NumPy/SciPy/mpmath only: `scipy.integrate.quad` of x^k u(x) over [a,b] (split into
pieces of two standard deviations, infinite ends cut at 32 sigma, where u is below 1e-220 of its maximum), cross-checked
with `mpmath.quad` on part of the components, and closed-form Gaussian moments for the untruncated
integrals.  The reference values never come from the library.

Tolerances (the property's QUANTIFIER): integrals of the truncated *measure* are compared
absolutely, 1e-8 times the untruncated integral of |x|^k u(x).  Quantities of the *normalised*
truncated density are compared relative 1e-8 (of max(1, |reference|)) plus the cancellation slack
4 eps Phi(beta) / (Phi(beta) - Phi(alpha)): the library computes the truncated mass as a difference
of cdf values, which in the far UPPER tail cancels (in the lower tail it does not, and the slack is
~1e-15 there)."""
import sys
import numpy as np
from scipy import integrate as sp_integrate
from scipy.special import ndtr, comb
from .common import *

PROPERTY = "C20"
LEAN_MODULES = ["GT.Props.C20"]
ASSUMPTIONS = ["float64 rounding outside the theorems",
               "normalised truncated densities in the far upper tail are compared with the cancellation slack "
               "4 eps Phi(beta)/(Phi(beta)-Phi(alpha)) on top of 1e-8",
               "x**k orders 0..6 (binom() is exact there)"]

# intervals whose normalised mass underflows to exactly zero in the library (alpha > 8.3 sigma): the
# truncated density is inf/nan there.  Kept as a separate, clearly labelled case.
INCLUDE_ZERO_MASS = True

INF = float("inf")
EPS = 2.220446049250313e-16
KMAX = 6
_MP = None


def mp():
    global _MP
    if _MP is None:
        whl = '/opt/veriftools/wheels/mpmath-1.3.0-py3-none-any.whl'
        if whl not in sys.path:
            sys.path.insert(0, whl)
        import mpmath
        _MP = mpmath
    return _MP


# ----------------------------------------------------------------------------------------------
# references

def u_np(L, nu, lb, x):
    """u(x) = exp(-L x^2/2 + nu x + lb) for one component"""
    x = np.asarray(x, dtype=float)
    return np.exp(-0.5 * L * x * x + nu * x + lb)


def _pieces(L, nu, a, b):
    mu, s = nu / L, 1.0 / np.sqrt(L)
    A, B = max(a, mu - 32.0 * s), min(b, mu + 32.0 * s)
    if not A < B:
        return []
    j0, j1 = int(np.ceil((A - mu) / (2 * s))), int(np.floor((B - mu) / (2 * s)))
    pts = [A] + [mu + 2 * s * j for j in range(j0, j1 + 1) if A < mu + 2 * s * j < B] + [B]
    return list(zip(pts[:-1], pts[1:]))


def quad_moments(L, nu, lb, a, b, kmax=KMAX, absolute=False):
    """[∫_a^b x^k u(x) dx for k = 0..kmax]  (|x|^k if absolute)"""
    import warnings
    out = np.zeros(kmax + 1)
    with warnings.catch_warnings():
        # pieces where the integrand is below 1e-200 of its maximum make QUADPACK report round-off; the
        # references are cross-checked against mpmath below
        warnings.simplefilter("ignore", sp_integrate.IntegrationWarning)
        return _quad_moments(L, nu, lb, a, b, kmax, absolute, out)


def _quad_moments(L, nu, lb, a, b, kmax, absolute, out):
    for k in range(kmax + 1):
        f = (lambda x: np.abs(x) ** k * u_np(L, nu, lb, x)) if absolute else (lambda x: x ** k * u_np(L, nu, lb, x))
        tot = 0.0
        for (p, q) in _pieces(L, nu, a, b):
            if absolute and p < 0.0 < q:
                tot += sp_integrate.quad(f, p, 0.0, epsabs=0.0, epsrel=1e-13, limit=200)[0]
                tot += sp_integrate.quad(f, 0.0, q, epsabs=0.0, epsrel=1e-13, limit=200)[0]
            else:
                tot += sp_integrate.quad(f, p, q, epsabs=0.0, epsrel=1e-13, limit=200)[0]
        out[k] = tot
    return out


def mp_moment(L, nu, lb, a, b, k):
    """the same integral with mpmath (30 digits)"""
    m = mp()
    m.mp.dps = 30
    Lm, num, lbm = m.mpf(float(L)), m.mpf(float(nu)), m.mpf(float(lb))
    f = lambda x: x ** k * m.exp(-Lm * x * x / 2 + num * x + lbm)
    pcs = _pieces(L, nu, a, b)
    if not pcs:
        return 0.0
    pts = [m.mpf(float(pcs[0][0]))] + [m.mpf(float(q)) for (_, q) in pcs]
    if a == -INF:
        pts = [-m.inf] + pts
    if b == INF:
        pts = pts + [m.inf]
    return float(m.quad(f, pts))


def gauss_raw_moments(L, nu, lb, kmax=KMAX):
    """closed form: ∫ x^k u(x) dx over the whole line, k = 0..kmax"""
    mu, s2 = nu / L, 1.0 / L
    mass = np.exp(lb + 0.5 * nu * nu / L + 0.5 * np.log(2 * np.pi / L))
    mom = [1.0, mu]
    for k in range(2, kmax + 1):
        mom.append(mu * mom[k - 1] + (k - 1) * s2 * mom[k - 2])
    return mass * np.array(mom[:kmax + 1])


class Ref:
    """all reference numbers for a batch of truncated components"""
    def __init__(self, L, nu, lb, a, b):
        self.L, self.nu, self.lb = [np.asarray(v, dtype=float).reshape(-1) for v in (L, nu, lb)]
        self.a, self.b = np.asarray(a, dtype=float).reshape(-1), np.asarray(b, dtype=float).reshape(-1)
        self.R = len(self.L)
        self.mu, self.sig = self.nu / self.L, 1.0 / np.sqrt(self.L)
        self.I = np.stack([quad_moments(self.L[r], self.nu[r], self.lb[r], self.a[r], self.b[r]) for r in range(self.R)])  # [R, K+1]
        self.U = np.stack([quad_moments(self.L[r], self.nu[r], self.lb[r], -INF, INF, absolute=True) for r in range(self.R)])
        self.full = np.stack([gauss_raw_moments(self.L[r], self.nu[r], self.lb[r]) for r in range(self.R)])
        al, be = (self.a - self.mu) / self.sig, (self.b - self.mu) / self.sig
        with np.errstate(all="ignore"):
            zn = self.I[:, 0] / self.full[:, 0]
            self.slack = np.where(zn > 0, 4 * EPS * ndtr(be) / np.where(zn > 0, zn, 1.0), np.inf)
        self.alpha, self.beta, self.zn = al, be, zn

    def u(self, r, x):
        return u_np(self.L[r], self.nu[r], self.lb[r], x)

    def inside(self, r, x):
        x = np.asarray(x, dtype=float)
        return (x >= self.a[r]) & (x <= self.b[r])

    def mean(self):
        return self.I[:, 1] / self.I[:, 0]

    def var(self):
        return self.I[:, 2] / self.I[:, 0] - self.mean() ** 2


def cond_moments_ref(ref):
    """E[x^k | a <= x <= b] for k = 0..KMAX, [R, K+1]"""
    return ref.I / ref.I[:, :1]


# ----------------------------------------------------------------------------------------------
# failure helpers

def fail_abs(fails, site, what, got, exp, tol, params):
    """|got - exp| <= tol entry-wise (tol an array); non-finite results always fail"""
    got = np.asarray(got, dtype=float); exp = np.asarray(exp, dtype=float); tol = np.broadcast_to(np.asarray(tol, dtype=float), exp.shape)
    if got.shape != exp.shape:
        fails.append(failure(PROPERTY, site, what + f" (shape {got.shape} vs {exp.shape})", params=params)); return True
    with np.errstate(all="ignore"):
        bad = ~(np.abs(got - exp) <= tol)
    if bad.any():
        with np.errstate(all="ignore"):
            dev = float(np.nanmax(np.where(bad, np.abs(got - exp) / np.where(tol > 0, tol, 1.0), 0.0))) if np.isfinite(got[bad]).any() else float("inf")
        fails.append(failure(PROPERTY, site, what, expected=exp.tolist(), got=got.tolist(), deviation=dev,
                             params=dict(params, tolerance=tol.tolist())))
        return True
    return False


def got_arr(m, reg):
    v = m.regs.get(reg)
    return None if v is None else np.asarray(v, dtype=float)


def raised(fails, m, reg, site, params):
    if m.regs.get(reg) is None:
        fails.append(failure(PROPERTY, site, f"raised: {m.impl[-1][1:]}", params=params))
        return True
    return False


# ----------------------------------------------------------------------------------------------
# builders

def mk_base(m, rng, kind, R, unit=False):
    """a one-dimensional measure / density and its (Lambda, nu, ln_beta) as flat NumPy arrays"""
    if kind in ("measure", "diagmeasure"):
        L = gen.pd_batch(rng, R, 1, diag=(kind == "diagmeasure")); nu = gen.vec_batch(rng, R, 1); lb = rng.standard_normal(R)
        if unit:
            L = np.ones((R, 1, 1)); nu = np.zeros((R, 1)); lb = np.zeros(R)
        reg = m.measure(R, 1, L, nu, lb, diag=(kind == "diagmeasure"))
        return reg, L.reshape(R), nu.reshape(R), lb.reshape(R)
    S = gen.pd_batch(rng, R, 1, diag=(kind == "diagpdf")); mu = gen.vec_batch(rng, R, 1)
    L, nu, lb = pdf_params(S, mu)
    reg = m.pdf(R, 1, S, mu, diag=(kind == "diagpdf"))
    return reg, L.reshape(R), nu.reshape(R), lb.reshape(R)


def to_x(L, nu, z):
    """standardised limits z (numbers of standard deviations from the mean, +-inf allowed) -> x-space, shape (R,1)"""
    mu, s = nu / L, 1.0 / np.sqrt(L)
    z = np.asarray(z, dtype=float)
    with np.errstate(invalid="ignore"):
        return np.where(np.isinf(z), z, mu + s * z).reshape(-1, 1)


def eval_points(ref, rng):
    """points covering, for every component: both (finite) limits exactly, an interior point, points outside"""
    pts = []
    for r in range(ref.R):
        a, b = ref.a[r], ref.b[r]
        lo = a if np.isfinite(a) else (min(b, ref.mu[r]) - 2 * ref.sig[r])
        hi = b if np.isfinite(b) else (max(a, ref.mu[r]) + 2 * ref.sig[r])
        pts += [lo + (hi - lo) * rng.uniform(0.2, 0.8)]
        if np.isfinite(a):
            pts += [a, a - 0.3 * ref.sig[r]]
        if np.isfinite(b):
            pts += [b, b + 0.3 * ref.sig[r]]
    return np.asarray(pts, dtype=float).reshape(-1, 1)


def check_eval(m, fails, t, ref, rng, site, params, norm=None, tol=None):
    """t(x) == u(x)/norm inside, 0 outside; both call conventions"""
    x = eval_points(ref, rng)
    xr = m.arr(x)
    c = m.trunc_call(t, xr)
    norm = np.ones(ref.R) if norm is None else norm
    tol_r = np.full(ref.R, 1e-8) if tol is None else tol
    if not raised(fails, m, c, site + ":call", params):
        exp = np.stack([np.where(ref.inside(r, x[:, 0]), ref.u(r, x[:, 0]) / norm[r], 0.0) for r in range(ref.R)])
        scale = np.maximum(1.0, np.max(np.abs(exp), axis=1, keepdims=True))
        fail_abs(fails, site + ":call", "t(x) != u(x)/norm inside the interval, 0 outside", got_arr(m, c), exp,
                 tol_r[:, None] * scale * np.ones_like(exp), params)
    # element-wise: one interior and one exterior point per component
    xin = np.array([x[[i for i in range(len(x)) if ref.inside(r, x[i, 0])][0], 0] for r in range(ref.R)])
    outs = [[i for i in range(len(x)) if not ref.inside(r, x[i, 0])] for r in range(ref.R)]
    xout = np.array([x[o[0], 0] if o else np.nan for o in outs])
    for name, xe in (("in", xin), ("out", xout)):
        if np.any(np.isnan(xe)):
            continue
        ce = m.trunc_call(t, m.arr(xe.reshape(-1, 1)), element_wise=True)
        if not raised(fails, m, ce, site + ":call_ew", params):
            exp = np.array([ref.u(r, xe[r]) / norm[r] if ref.inside(r, xe[r]) else 0.0 for r in range(ref.R)])
            fail_abs(fails, site + ":call_ew:" + name, "element-wise t(x) != u(x)/norm inside, 0 outside", got_arr(m, ce), exp,
                     tol_r * np.maximum(1.0, np.abs(exp)), params)


def check_measure_integrals(m, fails, t, ref, site, params, ks=range(KMAX + 1)):
    """integrate('1'|'x'|'x**2'|'x**k') of the truncated measure against ∫_a^b x^k u, absolute 1e-8 U_k"""
    tol = 1e-8 * ref.U
    for key, k in (("1", 0), ("x", 1), ("x**2", 2)):
        g = m.trunc_integrate(t, key)
        if not raised(fails, m, g, f"{site}:integrate:{key}", params):
            fail_abs(fails, f"{site}:integrate:{key}", f"integrate('{key}') != ∫_a^b x^{k} u(x) dx", got_arr(m, g).reshape(-1), ref.I[:, k], tol[:, k], params)
    for k in ks:
        g = m.trunc_integrate(t, "x**k", k)
        s = f"{site}:integrate:x**k:order{k}"
        if not raised(fails, m, g, s, dict(params, k=k)):
            fail_abs(fails, s, f"integrate('x**k', k={k}) != ∫_a^b x^{k} u(x) dx", got_arr(m, g).reshape(-1), ref.I[:, k], tol[:, k], dict(params, k=k))


def ref_span(ref):
    """max(|alpha|, |beta|) with infinite limits ignored (how far out the boundary terms are evaluated)"""
    al = np.where(np.isfinite(ref.alpha), np.abs(ref.alpha), 0.0)
    be = np.where(np.isfinite(ref.beta), np.abs(ref.beta), 0.0)
    return np.maximum(al, be)


def density_tolerances(ref):
    """-> (tol_k [R, K+1] for E[x^k | a<=x<=b], tol_var [R], tol_std [R], tol_rel [R] for evaluation).
    1e-8 of the natural scale max(1, E|x|^k, |reference|), plus the cancellation slack of the cdf difference
    (see the module docstring) times the size of the summed terms: (|mu| + sigma (1+span))^k for the moments, and
    (1+span)^2 for the variance formula 1 - (b phi(b) - a phi(a))/Z - ((phi(a) - phi(b))/Z)^2."""
    cm = cond_moments_ref(ref)
    span = ref_span(ref)
    ks = np.arange(KMAX + 1)[None, :]
    scale = np.maximum(1.0, np.maximum(ref.U / ref.full[:, :1], np.abs(cm)))
    reach = (np.abs(ref.mu) + ref.sig * (1 + span))[:, None] ** ks
    tol_k = 1e-8 * scale + ref.slack[:, None] * reach
    tol_var = 1e-8 * scale[:, 2] + ref.slack * (1 + span) ** 2 * reach[:, 2]
    with np.errstate(all="ignore"):
        std = np.sqrt(ref.var())
        tol_std = 1e-8 * np.maximum(1.0, std) + ref.slack * (1 + span) ** 2 * reach[:, 2] / std
    return tol_k, tol_var, tol_std, 1e-8 + ref.slack


def check_density(m, fails, d, ref, rng, site, params, ks=(0, 3, 6), norm=None):
    """normalised truncated density `d` of the components in `ref`: evaluation u/Z_trunc, integrates to one,
    conditional moments, exact mean / variance / std"""
    tol_k, tol_var, tol_std, tol_rel = density_tolerances(ref)
    check_eval(m, fails, d, ref, rng, site, params, norm=ref.I[:, 0] if norm is None else norm, tol=tol_rel)
    cm = cond_moments_ref(ref)
    for key, k in (("1", 0), ("x", 1), ("x**2", 2)):
        g = m.trunc_integrate(d, key)
        if not raised(fails, m, g, f"{site}:integrate:{key}", params):
            fail_abs(fails, f"{site}:integrate:{key}", f"normalised density: integrate('{key}') != E[x^{k} | a<=x<=b]",
                     got_arr(m, g).reshape(-1), cm[:, k], tol_k[:, k], params)
    for k in ks:
        g = m.trunc_integrate(d, "x**k", k)
        s = f"{site}:integrate:x**k:order{k}"
        if not raised(fails, m, g, s, dict(params, k=k)):
            fail_abs(fails, s, f"normalised density: integrate('x**k', k={k}) != E[x^{k} | a<=x<=b]",
                     got_arr(m, g).reshape(-1), cm[:, k], tol_k[:, k], dict(params, k=k))
    with np.errstate(all="ignore"):
        std = np.sqrt(ref.var())
    for what, exp, t in (("get_mean", ref.mean(), tol_k[:, 1]), ("get_variance", ref.var(), tol_var), ("get_std", std, tol_std)):
        g = m.trunc_query(what, d)
        if not raised(fails, m, g, f"{site}:{what}", params):
            fail_abs(fails, f"{site}:{what}", f"{what}() of the normalised truncated density is not exact", got_arr(m, g).reshape(-1), exp, t, params)


def pass_limit(z_arr, how):
    """how the limit is handed to the constructor: None / Python float / (R,1) array"""
    if how == "none":
        return None
    if how == "scalar":
        return float(z_arr.reshape(-1)[0])
    return z_arr


# ----------------------------------------------------------------------------------------------
# cases

def case_measure(label, kind, R, zlo, zhi, lo_how="array", hi_how="array", density_ks=(0, 3, 6), mp_check=True, x_space=False, tag=""):
    """truncated measure on [mu + zlo sigma, mu + zhi sigma] per component (zlo/zhi lists, +-inf allowed; with
    x_space the numbers are the limits themselves): evaluation, the four integrals for k = 0..6, and the
    normalised density from get_density()"""
    def fn(m):
        rng = gen.rng_path(m.seed, label)
        fails = []
        src, L, nu, lb = mk_base(m, rng, kind, R)
        lo = np.asarray(zlo, dtype=float).reshape(-1, 1) * np.ones((R, 1)) if x_space else to_x(L, nu, np.asarray(zlo, dtype=float) * np.ones(R))
        hi = np.asarray(zhi, dtype=float).reshape(-1, 1) * np.ones((R, 1)) if x_space else to_x(L, nu, np.asarray(zhi, dtype=float) * np.ones(R))
        params = dict(kind=kind, R=R, Lambda=L.tolist(), nu=nu.tolist(), ln_beta=lb.tolist(), lower=lo.reshape(-1).tolist(),
                      upper=hi.reshape(-1).tolist(), lower_passed=lo_how, upper_passed=hi_how)
        t = m.trunc(src, pass_limit(lo, lo_how), pass_limit(hi, hi_how))
        if raised(fails, m, t, "construct", params):
            return fails
        ref = Ref(L, nu, lb, lo, hi)
        check_eval(m, fails, t, ref, rng, tag + "measure", params)
        check_measure_integrals(m, fails, t, ref, tag + "measure", params)
        if mp_check:
            for r in range(R):
                for k in (0, KMAX):
                    v = mp_moment(L[r], nu[r], lb[r], lo[r, 0], hi[r, 0], k)
                    fail_abs(fails, "oracle-self-check", "scipy.quad and mpmath.quad references disagree (harness problem, not a library failure)",
                             np.array([ref.I[r, k]]), np.array([v]), np.array([1e-11 * abs(v) + 1e-15 * ref.U[r, k]]), dict(params, k=k, r=r))
        for w in ("expectation_integral", "expectation_x", "variance"):
            m.trunc_query(w, t)
        m.trunc_query("moment_all", t, 4)
        d = m.trunc_density(t)
        if not raised(fails, m, d, "get_density", params):
            check_density(m, fails, d, ref, rng, tag + "density(get_density)", params, ks=density_ks)
        return fails
    return Case(label, fn)


def case_additivity(label, kind, R, zlo, zmid, zhi):
    """I_k[a,c] + I_k[c,b] == I_k[a,b], and (-inf,c] + [c,inf) == the untruncated integrals"""
    def fn(m):
        rng = gen.rng_path(m.seed, label)
        fails = []
        src, L, nu, lb = mk_base(m, rng, kind, R)
        a, c, b = (to_x(L, nu, np.asarray(z, dtype=float) * np.ones(R)) for z in (zlo, zmid, zhi))
        params = dict(kind=kind, R=R, Lambda=L.tolist(), nu=nu.tolist(), ln_beta=lb.tolist(), a=a.reshape(-1).tolist(),
                      c=c.reshape(-1).tolist(), b=b.reshape(-1).tolist())
        U = np.stack([quad_moments(L[r], nu[r], lb[r], -INF, INF, absolute=True) for r in range(R)])
        full = np.stack([gauss_raw_moments(L[r], nu[r], lb[r]) for r in range(R)])
        def all_k(t):
            out = np.full((R, KMAX + 1), np.nan)
            for key, k in (("1", 0), ("x", 1), ("x**2", 2)):
                g = got_arr(m, m.trunc_integrate(t, key))
                if g is not None:
                    out[:, k] = g.reshape(-1)
            for k in range(3, KMAX + 1):
                g = got_arr(m, m.trunc_integrate(t, "x**k", k))
                if g is not None:
                    out[:, k] = g.reshape(-1)
            return out
        tAC = m.trunc(src, a, c); tCB = m.trunc(src, c, b); tAB = m.trunc(src, a, b)
        tL = m.trunc(src, None, c); tR = m.trunc(src, c, None); tF = m.trunc(src, -INF, INF)
        if any(m.regs.get(t) is None for t in (tAC, tCB, tAB, tL, tR, tF)):
            fails.append(failure(PROPERTY, "additivity:construct", "constructor raised", params=params)); return fails
        iAC, iCB, iAB, iL, iR, iF = (all_k(t) for t in (tAC, tCB, tAB, tL, tR, tF))
        fail_abs(fails, "additivity:adjacent", "I_k[a,c] + I_k[c,b] != I_k[a,b]", iAC + iCB, iAB, 2e-8 * U, params)
        fail_abs(fails, "additivity:half-lines", "I_k(-inf,c] + I_k[c,inf) != untruncated ∫ x^k u (closed form)", iL + iR, full, 2e-8 * U, params)
        fail_abs(fails, "additivity:whole-line", "I_k(-inf,inf) != untruncated ∫ x^k u (closed form)", iF, full, 1e-8 * U, params)
        # the library's own untruncated integrals for k = 0, 1, 2
        for key, k in (("1", 0), ("x", 1), ("xx'", 2)):
            g = got_arr(m, m.integrate(src, key))
            if g is not None:
                fail_abs(fails, f"additivity:vs-untruncated:{key}", "halves do not add up to GaussianMeasure.integrate",
                         (iL + iR)[:, k], g.reshape(-1), 2e-8 * U[:, k], params)
        return fails
    return Case(label, fn)


def case_truncpdf_direct(label, kind, R, zlo, zhi, lo_how="array", hi_how="array", ks=(3,)):
    """TruncatedGaussianPDF built directly on a Gaussian measure (mass != 1 for kind == 'measure')"""
    def fn(m):
        rng = gen.rng_path(m.seed, label)
        fails = []
        src, L, nu, lb = mk_base(m, rng, kind, R)
        lo, hi = to_x(L, nu, np.asarray(zlo, dtype=float) * np.ones(R)), to_x(L, nu, np.asarray(zhi, dtype=float) * np.ones(R))
        ref = Ref(L, nu, lb, lo, hi)
        params = dict(kind=kind, R=R, Lambda=L.tolist(), nu=nu.tolist(), ln_beta=lb.tolist(), lower=lo.reshape(-1).tolist(),
                      upper=hi.reshape(-1).tolist(), base_mass=ref.full[:, 0].tolist())
        d = m.trunc(src, pass_limit(lo, lo_how), pass_limit(hi, hi_how), pdf=True)
        if raised(fails, m, d, "construct", params):
            return fails
        site = "truncpdf-unnormalised-base" if kind in ("measure", "diagmeasure") else "truncpdf-on-density"
        before = len(fails)
        check_density(m, fails, d, ref, rng, site, params, ks=ks)
        for f in fails[before:]:
            # signature of the defect: evaluation is too large by exactly the mass of the base measure
            if f["site"].startswith("truncpdf-unnormalised-base") and ":call" in f["site"] and f.get("got") is not None:
                g, e = np.asarray(f["got"], dtype=float), np.asarray(f["expected"], dtype=float)
                if g.ndim == 2 and e.ndim == 2:
                    with np.errstate(all="ignore"):
                        ratio = np.where(e != 0, g / np.where(e != 0, e, 1.0), np.nan)
                    f["params"]["ratio_got_over_expected"] = np.nanmean(ratio, axis=1).tolist()
        for w in ("expectation_integral",):
            m.trunc_query(w, d)
        m.trunc_density(d)
        return fails
    return Case(label, fn)


def case_refusals(label):
    """documented refusals and shape conventions (correspondence only; nothing to compare numerically)"""
    def fn(m):
        rng = gen.rng_path(m.seed, label)
        src, L, nu, lb = mk_base(m, rng, "measure", 2)
        m.trunc(src, None, None)                       # ValueError: at least one limit
        m.trunc(src, None, None, pdf=True)
        L2 = gen.pd_batch(rng, 2, 2)
        src2 = m.measure(2, 2, L2, gen.vec_batch(rng, 2, 2), rng.standard_normal(2))
        m.trunc(src2, -1.0, 1.0)                       # assert D == 1
        t = m.trunc(src, -1.0, np.array([[0.7]]))      # scalar and (1,1) limits
        m.trunc_call(t, m.arr(gen.points(rng, 3, 1)), element_wise=True)     # N != R
        m.trunc_call(t, m.arr(gen.points(rng, 3, 2)))                        # wrong coordinate dimension
        for w in ("get_mean", "get_variance", "get_std"):
            m.trunc_query(w, t)                        # exist on the density class only
        p = m.trunc(src, INF, -INF)                    # empty support: lower = +inf, upper = -inf
        m.trunc_integrate(p, "1"); m.trunc_call(p, m.arr(gen.points(rng, 2, 1)))
        return []
    return Case(label, fn)


def case_misc(label):
    """experimental/misc.py: binom, normal_pdf, normal_cdf (with the logcdf patch)"""
    def fn(m):
        rng = gen.rng_path(m.seed, label)
        fails = []
        x = np.concatenate([np.linspace(-40, 40, 161), rng.uniform(-9, 9, 60), [INF, -INF, 0.0, 8.2, 8.3, 8.4, 37.0, -37.0]])
        xr = m.arr(x)
        with np.errstate(all="ignore"):
            refs = {"normal_pdf": np.exp(-0.5 * x * x) / np.sqrt(2 * np.pi), "normal_cdf": ndtr(x)}
        for fn_, ref in refs.items():
            g = m.misc(fn_, xr)
            if not raised(fails, m, g, f"misc:{fn_}", {}):
                fail_abs(fails, f"misc:{fn_}", f"{fn_} differs from the SciPy reference", got_arr(m, g), ref, np.full(x.shape, 1e-12), {})
        for fn_ in ("norm_cdf", "norm_logcdf"):
            m.misc(fn_, xr)
        for k in (0, 1, 2, 5, 6, 10):
            g = m.misc("binom", k=k)
            if not raised(fails, m, g, "misc:binom", dict(k=k)):
                fail_abs(fails, "misc:binom", "binom(k, i) != C(k, i)", got_arr(m, g), comb(k, np.arange(k + 1), exact=False), np.zeros(k + 1), dict(k=k))
        return fails
    return Case(label, fn)


def cases(seed, tier):
    rng = gen.rng_path(seed, "C20")
    out = []
    quick = tier == "quick"
    # --- truncated measures: R >= 1, non-unit precisions and ln_beta, every way of passing limits -------------
    out.append(case_measure("measure/two-sided/R3", "measure", 3, [-1.3, -0.4, 0.6], [0.2, 1.7, 2.4]))
    out.append(case_measure("measure/lower-only/R3/diag", "diagmeasure", 3, [-0.8, 0.3, 1.5], [INF] * 3, hi_how="none"))
    out.append(case_measure("measure/upper-only/R3/pdf-base", "pdf", 3, [-INF] * 3, [-1.1, 0.4, 2.0], lo_how="none"))
    out.append(case_measure("measure/mixed-inf-entries/R3", "measure", 3, [-INF, -0.5, 0.1], [0.9, INF, 1.3]))
    out.append(case_measure("measure/far-tail/R3", "measure", 3, [6.0, -9.0, 5.0], [9.0, -6.0, INF]))
    out.append(case_measure("measure/scalar-limits/R1", "measure", 1, [-0.7], [1.1], lo_how="scalar", hi_how="scalar", x_space=True))
    out.append(case_measure("measure/scalar-neg-inf-lower/R2/pdf-base", "pdf", 2, [-INF], [0.8], lo_how="scalar", hi_how="scalar", x_space=True))
    out.append(case_measure("measure/two-sided/R2/diagpdf-base", "diagpdf", 2, [-2.2, 0.1], [-0.6, 0.9]))
    out.append(case_measure("measure/one-sided-tails/R4", "diagmeasure", 4, [5.0, -INF, -INF, 3.0], [INF, -5.0, 3.5, INF], density_ks=(3, 5)))
    if INCLUDE_ZERO_MASS:
        out.append(case_measure("measure/zero-mass-upper-tail/R3", "measure", 3, [9.0, 8.6, -12.0], [12.0, INF, -9.0], density_ks=(3,), mp_check=False, tag="zero-mass-upper-tail:"))
    # --- additivity ----------------------------------------------------------------------------------------------
    out.append(case_additivity("additivity/R3", "measure", 3, [-1.5, -0.2, 0.5], [-0.3, 0.9, 1.4], [1.0, 2.2, 3.0]))
    # --- TruncatedGaussianPDF built directly ----------------------------------------------------------------------
    out.append(case_truncpdf_direct("truncpdf-direct/unnormalised/R3", "measure", 3, [-1.0, -INF, 0.3], [0.5, 0.8, INF]))
    out.append(case_truncpdf_direct("truncpdf-direct/density/R3", "pdf", 3, [-1.0, -INF, 0.3], [0.5, 0.8, INF]))
    out.append(case_truncpdf_direct("truncpdf-direct/unnormalised/upper-only/R1", "diagmeasure", 1, [-INF], [0.4], lo_how="none"))
    out.append(case_refusals("refusals"))
    out.append(case_misc("misc"))
    if not quick:
        kinds = ("measure", "diagmeasure", "pdf", "diagpdf")
        for i in range(14):
            R = int(rng.integers(1, 6))
            kind = kinds[i % 4]
            zc = rng.uniform(-2.5, 2.5, R); w = rng.uniform(0.3, 3.0, R)
            zlo, zhi = zc - w / 2, zc + w / 2
            mode = i % 5
            if mode == 1:
                zlo = np.where(rng.random(R) < 0.5, -INF, zlo)
            elif mode == 2:
                zhi = np.where(rng.random(R) < 0.5, INF, zhi)
            elif mode == 3:      # far tails, both sides
                s = np.where(rng.random(R) < 0.5, -1.0, 1.0); st = rng.uniform(4.0, 7.0, R); wd = rng.uniform(0.5, 4.0, R)
                zlo, zhi = np.where(s > 0, st, -st - wd), np.where(s > 0, st + wd, -st)
            elif mode == 4:      # one-sided far tails
                s = rng.random(R) < 0.5; st = rng.uniform(3.0, 7.0, R)
                zlo, zhi = np.where(s, st, -INF), np.where(s, INF, -st)
            out.append(case_measure(f"measure/random{i}/{kind}/R{R}/mode{mode}", kind, R, zlo.tolist(), zhi.tolist(),
                                    density_ks=(0, 1, 2, 3, 4, 5, 6) if i % 3 == 0 else (3, 5)))
        for i in range(4):
            R = int(rng.integers(1, 5))
            zm = rng.uniform(-1.5, 1.5, R)
            out.append(case_additivity(f"additivity/random{i}/R{R}", kinds[i % 4], R, (zm - rng.uniform(0.3, 3, R)).tolist(), zm.tolist(),
                                       (zm + rng.uniform(0.3, 3, R)).tolist()))
        for i in range(6):
            R = int(rng.integers(1, 5))
            zc = rng.uniform(-2, 2, R); w = rng.uniform(0.4, 3.0, R)
            zlo = np.where(rng.random(R) < 0.25, -INF, zc - w / 2); zhi = np.where(rng.random(R) < 0.25, INF, zc + w / 2)
            out.append(case_truncpdf_direct(f"truncpdf-direct/random{i}/R{R}", kinds[i % 4], R, zlo.tolist(), zhi.tolist(), ks=(2, 4)))
    return seeded(out, seed)
