"""C15 — specialised representations agree with the general one."""
from .condfam import *
from .C12 import same_obj as _same
PROPERTY = "C15"
LEAN_MODULES = ["GT.Props.C15"]
ASSUMPTIONS = ["float64 rounding outside the theorems"]


def same(fails, site, a, b, params, tol=1e-8, ignore_class=True):
    if a is None or b is None:
        fails.append(failure(PROPERTY, site, "specialised or general operation raised", params=params)); return
    da, db = dump_obj(a), dump_obj(b)
    if da["type"] != db["type"]:
        # identity conditionals dump as 'condid': compare the shared attributes only
        pass
    for k in da["fields"]:
        if k in db["fields"]:
            fail_if(fails, PROPERTY, site + ":" + k, "specialised class disagrees with the general class on the same parameters",
                    da["fields"][k], db["fields"][k], tol=tol, params=params)


def case_factor_kinds(kind, R1, R2, D, cached):
    label = f"factor/{kind}/R{R1}x{R2}/D{D}/cached{int(cached)}"
    def fn(m):
        rng = gen.rng_path(m.seed, label)
        fails = []
        f = mk_factor(m, rng, kind, R2, D)
        g = m.factor("general", R2, D, Lambda=f.Lambda, nu=f.nu, ln_beta=f.ln_beta)
        u = mk_measure(m, rng, R1, D)
        params = dict(kind=kind, R1=R1, R2=R2, D=D, cached=cached)
        if cached:
            m.query("log_integral", u.reg)
        for uf in (False, True):
            a = m.multiply(u.reg, f.reg, uf); b = m.multiply(u.reg, g, uf)
            same(fails, f"multiply:{kind}:uf{int(uf)}", m.regs.get(a), m.regs.get(b), params, tol=1e-7)
            if m.regs.get(a) is not None and m.regs.get(b) is not None:
                la = m.query("log_integral", a); lb = m.query("log_integral", b)
                fail_if(fails, PROPERTY, f"multiply:{kind}:log_integral", "mass after product differs from the general factor",
                        np.asarray(m.regs[la]), np.asarray(m.regs[lb]), params=params)
        uu = mk_measure(m, rng, R2, D)
        if cached:
            m.query("integral", uu.reg)
        for uf in (False, True):
            a = m.hadamard(uu.reg, f.reg, uf); b = m.hadamard(uu.reg, g, uf)
            same(fails, f"hadamard:{kind}:uf{int(uf)}", m.regs.get(a), m.regs.get(b), params, tol=1e-7)
        ia = m.integrate(uu.reg, "log_u", factor=f.reg); ib = m.integrate(uu.reg, "log_u", factor=g)
        if m.regs.get(ia) is not None and m.regs.get(ib) is not None:
            fail_if(fails, PROPERTY, f"log_u:{kind}", "expected log-factor differs from the general factor", np.asarray(m.regs[ia]), np.asarray(m.regs[ib]), params=params)
        same(fails, f"product:{kind}", m.regs.get(m.product(f.reg)), m.regs.get(m.product(g)), params)
        # evaluation, all pairs and element-wise (one point per component)
        xa = m.arr(gen.points(rng, 3, D)); xe = m.arr(gen.points(rng, R2, D))
        for ew in (False, True):
            ea = m.evalln(f.reg, xe if ew else xa, element_wise=ew); eb = m.evalln(g, xe if ew else xa, element_wise=ew)
            if m.regs.get(ea) is not None and m.regs.get(eb) is not None:
                fail_if(fails, PROPERTY, f"evaluate_ln:{kind}:element_wise{int(ew)}", "specialised factor evaluates differently from the general factor", np.asarray(m.regs[ea]), np.asarray(m.regs[eb]), params=params)
            else:
                fails.append(failure(PROPERTY, f"evaluate_ln:{kind}:element_wise{int(ew)}", "raised", params=params))
        return fails
    return Case(label, fn)


def case_diag_measure(R, D):
    label = f"diag-measure/R{R}/D{D}"
    def fn(m):
        rng = gen.rng_path(m.seed, label)
        fails = []
        L = gen.pd_batch(rng, R, D, diag=True); nu = gen.vec_batch(rng, R, D); lb = rng.standard_normal(R)
        a = m.measure(R, D, L, nu, lb, diag=True); b = m.measure(R, D, L, nu, lb, diag=False)
        params = dict(R=R, D=D)
        for q in ("log_integral", "integral_light"):
            fail_if(fails, PROPERTY, f"diagmeasure:{q}", "diagonal measure differs", np.asarray(m.regs[m.query(q, a)]), np.asarray(m.regs[m.query(q, b)]), params=params)
        same(fails, "diagmeasure:caches", m.regs[a], m.regs[b], params)
        A = rng.standard_normal((2, D))
        for key, kw in (("x", {}), ("xx'", {}), ("quad_inner", dict(dims=(2,), forms=[(A, None), (A, None)])),
                        ("quartic_inner", dict(dims=(2, 2), forms=[(A, None)] * 4))):
            fail_if(fails, PROPERTY, f"diagmeasure:integrate:{key}", "diagonal measure differs",
                    np.asarray(m.regs[m.integrate(a, key, **kw)]), np.asarray(m.regs[m.integrate(b, key, **kw)]), params=params)
        same(fails, "diagmeasure:get_density", m.regs.get(m.query("get_density", a)), m.regs.get(m.query("get_density", b)), params)
        same(fails, "diagmeasure:product", m.regs.get(m.product(a)), m.regs.get(m.product(b)), params)
        idx = gen.index_array(rng, R)
        same(fails, "diagmeasure:slice", m.regs.get(m.slice(a, idx)), m.regs.get(m.slice(b, idx)), params)
        S = gen.pd_batch(rng, R, D, diag=True); mu = gen.vec_batch(rng, R, D)
        pa = m.pdf(R, D, S, mu, diag=True); pb = m.pdf(R, D, S, mu)
        same(fails, "diagpdf:ctor", m.regs[pa], m.regs[pb], params)
        fail_if(fails, PROPERTY, "diagpdf:entropy", "diagonal density differs", np.asarray(m.regs[m.entropy(pa)]), np.asarray(m.regs[m.entropy(pb)]), params=params)
        fail_if(fails, PROPERTY, "diagpdf:kl", "diagonal density differs", np.asarray(m.regs[m.kl(pa, pb)]), np.zeros(R), params=params, tol=1e-9)
        if D >= 2:
            dims = gen.subset(rng, D, proper=True)
            same(fails, "diagpdf:get_marginal", m.regs.get(m.get_marginal(pa, dims)), m.regs.get(m.get_marginal(pb, dims)), params)
            same(fails, "diagpdf:condition_on", m.regs.get(m.condition_on(pa, dims)), m.regs.get(m.condition_on(pb, dims)), params)
        same(fails, "diagpdf:slice", m.regs.get(m.slice(pa, idx)), m.regs.get(m.slice(pb, idx)), params)
        # the diagonal object as the FACTOR of a product with a full (non-diagonal) measure, every route
        full = mk_measure(m, rng, R, D)
        for cached in (False, True):
            if cached:
                m.query("integral", full.reg); m.query("integral", a); m.query("integral", b)
            for uf in (False, True):
                ra = m.hadamard(full.reg, a, uf); rb = m.hadamard(full.reg, b, uf)
                same(fails, f"diagmeasure-as-factor:hadamard:uf{int(uf)}:cached{int(cached)}", m.regs.get(ra), m.regs.get(rb), params)
                if m.regs.get(ra) is not None and m.regs.get(rb) is not None:
                    fail_if(fails, PROPERTY, f"diagmeasure-as-factor:hadamard:uf{int(uf)}:log_integral", "diagonal factor differs from the general object",
                            np.asarray(m.regs[m.query("log_integral", ra)]), np.asarray(m.regs[m.query("log_integral", rb)]), params=params)
                ma = m.multiply(full.reg, a, uf); mb = m.multiply(full.reg, b, uf)
                same(fails, f"diagmeasure-as-factor:multiply:uf{int(uf)}:cached{int(cached)}", m.regs.get(ma), m.regs.get(mb), params)
        return fails
    return Case(label, fn)


def case_cond_special(cls, Rc, Rx, Dy, Dx):
    label = f"cond/{cls}/R{Rc}x{Rx}/Dy{Dy}Dx{Dx}"
    def fn(m):
        rng = gen.rng_path(m.seed, label)
        fails = []
        c = mk_cond(m, rng, cls, Rc, Dy, Dx)
        g = m.cond(Rc, Dy, Dx, c.M, c.b, Sigma=c.Sigma)      # the general class on the same parameters
        p = mk_pdf(m, rng, Rx, Dx)
        params = dict(cls=cls, Rc=Rc, Rx=Rx, Dy=Dy, Dx=Dx)
        for which in ("joint", "marginal", "conditional"):
            same(fails, f"{which}:{cls}", m.regs.get(m.transform(which, c.reg, p.reg)), m.regs.get(m.transform(which, g, p.reg)), params, tol=1e-7)
        for which in ("cond_entropy", "mutual_information"):
            a = m.transform(which, c.reg, p.reg); b = m.transform(which, g, p.reg)
            if m.regs.get(a) is None or m.regs.get(b) is None:
                fails.append(failure(PROPERTY, f"{which}:{cls}", "raised", params=params))
            else:
                fail_if(fails, PROPERTY, f"{which}:{cls}", "specialised class disagrees", np.asarray(m.regs[a]), np.asarray(m.regs[b]), params=params)
        N = 3 if Rc == 1 else Rc
        x = m.arr(gen.points(rng, 2, Dx)); y = m.arr(gen.points(rng, N, Dy))
        same(fails, f"condition_on_x:{cls}", m.regs.get(m.condition_on_x(c.reg, x)), m.regs.get(m.condition_on_x(g, x)), params)
        same(fails, f"set_y:{cls}", m.regs.get(m.set_y(c.reg, y)), m.regs.get(m.set_y(g, y)), params)
        idx = gen.index_array(rng, Rc)
        a = m.slice(c.reg, idx); b = m.slice(g, idx)
        same(fails, f"slice:{cls}", m.regs.get(a), m.regs.get(b), params)
        if Rc == 1:
            q = mk_pdf(m, rng, 2, Dy + Dx)
            la = m.log_cond(c.reg, q.reg); lb = m.log_cond(g, q.reg)
            if m.regs.get(la) is not None and m.regs.get(lb) is not None:
                fail_if(fails, PROPERTY, f"integrate_log_conditional:{cls}", "specialised class disagrees", np.asarray(m.regs[la]), np.asarray(m.regs[lb]), params=params)
            yy = m.arr(gen.points(rng, Rx, Dy))
            la = m.log_cond_y(c.reg, p.reg, yy); lb = m.log_cond_y(g, p.reg, yy)
            if m.regs.get(la) is not None and m.regs.get(lb) is not None:
                fail_if(fails, PROPERTY, f"integrate_log_conditional_y:{cls}", "specialised class disagrees", np.asarray(m.regs[la]), np.asarray(m.regs[lb]), params=params)
        S2 = gen.pd_batch(rng, Rc, Dy, diag=(cls in ("diag", "identitydiag")))
        m.update_sigma(c.reg, S2); m.update_sigma(g, S2)
        same(fails, f"update_Sigma:{cls}", m.regs[c.reg], m.regs[g], params)
        return fails
    return Case(label, fn)


def case_cond_ctor(cls, give, R, Dy, Dx):
    """every accepted covariance-argument combination of every specialised conditional constructor"""
    label = f"cond-ctor/{cls}/{give}/R{R}/Dy{Dy}Dx{Dx}"
    def fn(m):
        rng = gen.rng_path(m.seed, label)
        fails = []
        c = mk_cond(m, rng, cls, R, Dy, Dx, give=give)
        params = dict(cls=cls, give=give, R=R, Dy=Dy, Dx=Dx)
        o = m.regs.get(c.reg)
        if o is None:
            fails.append(failure(PROPERTY, f"ctor:{cls}:{give}", f"constructor raised: {m.impl[-1][1:]}", params=params)); return fails
        fail_if(fails, PROPERTY, f"ctor:{cls}:{give}:Sigma", "Sigma after construction", np.asarray(o.Sigma), c.Sigma, params=params)
        fail_if(fails, PROPERTY, f"ctor:{cls}:{give}:Lambda", "Lambda after construction is not the inverse of Sigma", np.asarray(o.Lambda), c.Lambda, params=params)
        fail_if(fails, PROPERTY, f"ctor:{cls}:{give}:ln_det_Sigma", "ln_det_Sigma after construction is not log det Sigma", np.asarray(o.ln_det_Sigma), c.ln_det_Sigma, params=params)
        g = m.cond(R, Dy, Dx, c.M, c.b, Sigma=c.Sigma)
        x = m.arr(gen.points(rng, 2, Dx)); y = gen.points(rng, 2, Dy); yr = m.arr(y)
        a = m.condition_on_x(c.reg, x); b = m.condition_on_x(g, x)
        if m.regs.get(a) is not None and m.regs.get(b) is not None:
            fail_if(fails, PROPERTY, f"ctor:{cls}:{give}:density", "conditional density differs from the general class",
                    np.asarray(m.regs[m.evalln(a, yr)]), np.asarray(m.regs[m.evalln(b, yr)]), params=params)
        return fails
    return Case(label, fn)


def case_nn(Ru, Dy, Dx, Du, Rx):
    label = f"nncontrol/Ru{Ru}/Dy{Dy}Dx{Dx}Du{Du}/Rx{Rx}"
    def fn(m):
        rng = gen.rng_path(m.seed, label)
        fails = []
        S = gen.pd_batch(rng, 1, Dy)
        W = rng.standard_normal((Du, Dy * (Dx + 1))); c = rng.standard_normal(Dy * (Dx + 1))
        nn = m.nncond(Dy, Dx, Du, S, W, c)
        u = rng.standard_normal((Ru, Du))
        out = u @ W + c
        M = out[:, :Dy * Dx].reshape(Ru, Dy, Dx); b = out[:, Dy * Dx:]
        g = m.cond(Ru, Dy, Dx, M, b, Sigma=np.tile(S, (Ru, 1, 1)))       # general class, same parameters
        params = dict(Ru=Ru, Dy=Dy, Dx=Dx, Du=Du, Rx=Rx)
        same(fails, "nn:set_control_variable", m.regs.get(m.nn_set_control(nn, u)), m.regs.get(g), params)
        p = mk_pdf(m, rng, Rx if Ru == 1 else 1, Dx)
        for which in ("joint", "marginal", "conditional"):
            same(fails, f"nn:{which}", m.regs.get(m.nn_call(which, nn, u, p.reg)), m.regs.get(m.transform(which, g, p.reg)), params, tol=1e-7)
        a = m.nn_call("cond_entropy", nn, u, p.reg); bb = m.transform("cond_entropy", g, p.reg)
        if m.regs.get(a) is not None and m.regs.get(bb) is not None:
            fail_if(fails, PROPERTY, "nn:conditional_entropy", "NN-controlled conditional disagrees with the general class", np.asarray(m.regs[a]), np.asarray(m.regs[bb]), params=params)
        a = m.nn_call("mutual_information", nn, u, p.reg); bb = m.transform("mutual_information", g, p.reg)
        if m.regs.get(a) is not None and m.regs.get(bb) is not None:
            fail_if(fails, PROPERTY, "nn:mutual_information", "NN-controlled conditional disagrees with the general class", np.asarray(m.regs[a]), np.asarray(m.regs[bb]), params=params)
        else:
            fails.append(failure(PROPERTY, "nn:mutual_information", "raised", params=params))
        N = 3 if Ru == 1 else Ru
        x = m.arr(gen.points(rng, 2, Dx)); y = m.arr(gen.points(rng, N, Dy))
        same(fails, "nn:condition_on_x_u", m.regs.get(m.nn_call("condition_on_x", nn, u, x)), m.regs.get(m.condition_on_x(g, x)), params)
        same(fails, "nn:set_y", m.regs.get(m.nn_call("set_y", nn, u, y)), m.regs.get(m.set_y(g, y)), params)
        if Ru == 1:
            q = mk_pdf(m, rng, 2, Dy + Dx)
            la = m.nn_call("log_cond", nn, u, q.reg); lb = m.log_cond(g, q.reg)
            if m.regs.get(la) is not None and m.regs.get(lb) is not None:
                fail_if(fails, PROPERTY, "nn:integrate_log_conditional", "NN-controlled conditional disagrees", np.asarray(m.regs[la]), np.asarray(m.regs[lb]), params=params)
            yy = m.arr(gen.points(rng, p.R, Dy))
            la = m.nn_call("log_cond_y", nn, u, p.reg, yy); lb = m.log_cond_y(g, p.reg, yy)
            if m.regs.get(la) is not None and m.regs.get(lb) is not None:
                fail_if(fails, PROPERTY, "nn:integrate_log_conditional_y", "NN-controlled conditional disagrees", np.asarray(m.regs[la]), np.asarray(m.regs[lb]), params=params)
        return fails
    return Case(label, fn)


def cases(seed, tier):
    rng = gen.rng_path(seed, "C15")
    out = []
    for i, kind in enumerate(("onerank", "linear", "constant")):
        for (R1, R2, D) in [(2, 3, 2), (1, 1, 3)] + ([(int(rng.integers(1, 4)), int(rng.integers(1, 4)), int(rng.integers(1, 5)))] if tier != "quick" else []):
            for cached in (False, True):
                out.append(case_factor_kinds(kind, R1, R2, D, cached))
    for (R, D) in [(2, 3), (1, 1)] + ([(3, 4)] if tier != "quick" else []):
        out.append(case_diag_measure(R, D))
    for (Ru, Dy, Dx, Du, Rx) in [(1, 2, 3, 2, 1), (1, 3, 2, 1, 3), (3, 2, 2, 2, 1)] + ([(2, 1, 3, 3, 1), (1, 2, 1, 2, 2)] if tier != "quick" else []):
        out.append(case_nn(Ru, Dy, Dx, Du, Rx))
    for cls in ("diag", "identity", "identitydiag", "full"):
        for give in ("Sigma", "Lambda", "all"):
            Dy = 2 if cls in ("diag", "full") else 3
            out.append(case_cond_ctor(cls, give, 2, Dy, 3))
    grid = [s for s in shape_grid(seed, "C15", tier) if s[0] != "full"]
    for s in grid:
        out.append(case_cond_special(*s))
    return seeded(out, seed)
