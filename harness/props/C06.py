"""C06 — conditioning on coordinates satisfies p(x_a | x_b) p(x_b) = p(x)."""
from .common import *
PROPERTY = "C06"
LEAN_MODULES = ["GT.Props.C06"]
ASSUMPTIONS = ["float64 rounding outside the theorems; inputs with condition number <= 1e4"]


def case_condition(R, D, diag, sorted_b, hist=False, fixed_b=None):
    label = f"condition_on/R{R}/D{D}/diag{int(diag)}/sorted{int(sorted_b)}" + ("/hist" if hist else "") + (f"/b{'-'.join(map(str, fixed_b))}" if fixed_b else "")
    def fn(m):
        rng = gen.rng_path(m.seed, label)
        fails = []
        p = mk_pdf(m, rng, R, D, diag=diag)
        if hist:
            m.condition_on(p.reg, gen.subset(rng, D, proper=True))
            mutate_pdf(m, rng, p, diag=diag)
        b = gen.subset(rng, D, proper=True, ordered=sorted_b)
        if fixed_b is not None:
            b = np.array(fixed_b)
        a = np.array([d for d in range(D) if d not in list(b)])
        params = dict(R=R, D=D, b=[int(i) for i in b])
        c = m.condition_on(p.reg, b)
        if m.regs.get(c) is None:
            fails.append(failure(PROPERTY, "condition_on", f"raised: {m.impl[-1][1:]}", params=params)); return fails
        N = 2
        xb = gen.points(rng, N, len(b)); xa = gen.points(rng, 3, len(a))
        xbr = m.arr(xb); xar = m.arr(xa)
        px = m.condition_on_x(c, xbr)                     # components r*N + n
        ev = np.asarray(m.regs[m.evalln(px, xar)])        # [R*N, 3]
        exp = np.zeros_like(ev)
        for r in range(R):
            for n in range(N):
                for t in range(3):
                    x = np.zeros(D); x[b] = xb[n]; x[a] = xa[t]
                    joint = normal_logpdf(x[None], p.mu[r], p.Sigma[r])[0]
                    marg = normal_logpdf(xb[n:n + 1], p.mu[r][b], p.Sigma[r][np.ix_(b, b)])[0]
                    exp[r * N + n, t] = joint - marg
        fail_if(fails, PROPERTY, "condition_on", "p(x_a|x_b) p(x_b) != p(x)", ev, exp, params=params)
        # the conditional evaluated through __call__, at all points and at a single point (shape [1, |b|])
        pc = m.condition_on_x(c, xbr, via_call=True)
        if m.regs.get(pc) is not None:
            fail_if(fails, PROPERTY, "condition_on:__call__", "cond(x_b) p(x_b) != p(x) through __call__", np.asarray(m.regs[m.evalln(pc, xar)]), exp, params=params)
        else:
            fails.append(failure(PROPERTY, "condition_on:__call__", f"raised: {m.impl[-1][1:]}", params=params))
        p1 = m.condition_on_x(c, m.arr(xb[:1]), via_call=True)
        if m.regs.get(p1) is not None:
            fail_if(fails, PROPERTY, "condition_on:__call__:single-point", "cond(x_b) p(x_b) != p(x) for a single conditioning point",
                    np.asarray(m.regs[m.evalln(p1, xar)]), exp[[r * N for r in range(R)]], params=params)
        else:
            fails.append(failure(PROPERTY, "condition_on:__call__:single-point", f"raised: {m.impl[-1][1:]}", params=params))
        # conditional covariance = Schur complement of the covariance
        C = m.regs[c]
        for r in range(R):
            S = p.Sigma[r]
            sch = S[np.ix_(a, a)] - S[np.ix_(a, b)] @ np.linalg.solve(S[np.ix_(b, b)], S[np.ix_(b, a)])
            fail_if(fails, PROPERTY, "condition_on:Sigma", "conditional covariance != Schur complement", np.asarray(C.Sigma)[r], sch, tol=1e-7, params=params)
        # explicit variant with rows in a requested order
        perm = rng.permutation(len(a))
        ce = m.condition_on_explicit(p.reg, b, a[perm])
        if m.regs.get(ce) is not None:
            E = m.regs[ce]
            fail_if(fails, PROPERTY, "condition_on_explicit:M", "explicit conditional: rows of M not in the requested order", np.asarray(E.M), np.asarray(C.M)[:, perm], params=params)
            fail_if(fails, PROPERTY, "condition_on_explicit:b", "explicit conditional: b", np.asarray(E.b), np.asarray(C.b)[:, perm], params=params)
            fail_if(fails, PROPERTY, "condition_on_explicit:Sigma", "explicit conditional: Sigma", np.asarray(E.Sigma), np.asarray(C.Sigma)[:, perm][:, :, perm], params=params)
            fail_if(fails, PROPERTY, "condition_on_explicit:ln_det_Sigma", "explicit conditional: ln_det_Sigma (row order does not change it)", np.asarray(E.ln_det_Sigma), np.asarray(C.ln_det_Sigma), params=params)
            # the product rule for the explicit conditional, rows in the requested order
            pe = m.condition_on_x(ce, xbr)
            xa_p = xa[:, perm]
            eve = np.asarray(m.regs[m.evalln(pe, m.arr(xa_p))])
            fail_if(fails, PROPERTY, "condition_on_explicit", "explicit conditional: p(x_a|x_b) p(x_b) != p(x)", eve, exp, params=params)
        else:
            fails.append(failure(PROPERTY, "condition_on_explicit", f"raised: {m.impl[-1][1:]}", params=params))
        return fails
    return Case(label, fn)


def cases(seed, tier):
    rng = gen.rng_path(seed, "C06")
    out = []
    grid = [(1, 2), (2, 3), (3, 4), (2, 5)] + [(int(rng.integers(1, 4)), int(rng.integers(2, 6))) for _ in range(2 if tier == "quick" else 14)]
    for i, (R, D) in enumerate(grid):
        out.append(case_condition(R, D, bool(i % 2), False))
        out.append(case_condition(R, D, bool((i + 1) % 2), True))
    # contiguous index sets listed in another order, and reversed ranges
    out.append(case_condition(2, 4, False, False, fixed_b=[2, 1])); out.append(case_condition(1, 5, False, False, fixed_b=[3, 1, 2]))
    out.append(case_condition(2, 3, True, False, fixed_b=[2, 1, 0][:2]))
    out.append(case_condition(2, 3, False, False, hist=True)); out.append(case_condition(3, 2, True, True, hist=True))
    return seeded(out, seed)
