"""C13 — entropy, KL, conditional entropy, mutual information."""
from .condfam import *
PROPERTY = "C13"
LEAN_MODULES = ["GT.Props.C13", "GT.Props.C13Id"]
ASSUMPTIONS = ["float64 rounding outside the theorems; inputs with condition number <= 1e4"]


def case_entropy_kl(R1, R2, D, diag):
    label = f"entropy-kl/R{R1}-{R2}/D{D}/diag{int(diag)}"
    def fn(m):
        rng = gen.rng_path(m.seed, label)
        fails = []
        p = mk_pdf(m, rng, R1, D, diag=diag); q = mk_pdf(m, rng, R2, D)
        params = dict(R1=R1, R2=R2, D=D)
        e = m.entropy(p.reg)
        H = np.array([0.5 * np.sum(np.log(2 * np.pi * np.e * np.linalg.eigvalsh(S))) for S in p.Sigma])
        fail_if(fails, PROPERTY, "entropy", "entropy != -E[ln p]", np.asarray(m.regs[e]), H, params=params)
        # -E_p[ln p] through the expected-log-factor integral (independent code path of the library)
        il = m.integrate(p.reg, "log_u", factor=p.reg)
        if m.regs.get(il) is not None:
            fail_if(fails, PROPERTY, "entropy", "entropy != -integrate('log u(x)', factor=p)", np.asarray(m.regs[e]), -np.asarray(m.regs[il]), params=params)
        def kl_ref(mu0, S0, mu1, S1):
            d = mu1 - mu0
            L1 = np.linalg.inv(S1)
            return 0.5 * (np.trace(L1 @ S0) + d @ L1 @ d - len(mu0) + np.linalg.slogdet(S1)[1] - np.linalg.slogdet(S0)[1])
        for (a, b, A, B) in ((p, q, "p", "q"), (q, p, "q", "p"), (p, p, "p", "p")):
            k = m.kl(a.reg, b.reg)
            if m.regs.get(k) is None:
                fails.append(failure(PROPERTY, "kl_divergence", f"raised: {m.impl[-1][1:]}", params=params))
                continue
            got = np.asarray(m.regs[k])
            Ro = max(a.R, b.R)
            exp = np.array([kl_ref(a.mu[r % a.R if a.R > 1 else 0], a.Sigma[r if a.R > 1 else 0],
                                   b.mu[r if b.R > 1 else 0], b.Sigma[r if b.R > 1 else 0]) for r in range(Ro)])
            fail_if(fails, PROPERTY, "kl_divergence", f"KL({A}||{B}) != E_p[ln p - ln q]", got, exp, params=params)
            if np.any(got < -1e-9):
                fails.append(failure(PROPERTY, "kl_divergence", "KL negative", got=got.tolist(), params=params))
            if a is b and np.any(np.abs(got) > 1e-9):
                fails.append(failure(PROPERTY, "kl_divergence", "KL(p||p) != 0", got=got.tolist(), params=params))
        return fails
    return Case(label, fn)


def cases(seed, tier):
    rng = gen.rng_path(seed, "C13")
    out = []
    for (R1, R2, D, dg) in [(1, 1, 1, False), (3, 3, 2, False), (3, 1, 3, False), (1, 4, 2, True), (2, 2, 4, True)]:
        out.append(case_entropy_kl(R1, R2, D, dg))
    for s in shape_grid(seed, "C13", tier):
        out.append(case_info(PROPERTY, *s))
    out.append(case_info(PROPERTY, "full", 1, 1, 2, 3, zero_M=True))
    out.append(case_info(PROPERTY, "diag", 2, 1, 2, 2, zero_M=True))
    for (s, t) in [(("full", 1, 2, 2, 3), "/hist"), (("identity", 1, 1, 2, 2), "/hist"), (("diag", 1, 3, 1, 2), "/hist/pdiag"),
                   (("full", 1, 1, 3, 2), "/histp"), (("full", 1, 2, 2, 2), "/histp"), (("identity", 1, 2, 3, 3), "/histp"), (("diag", 1, 1, 2, 2), "/hists"), (("diag", 1, 1, 2, 3), "/giveL"), (("diag", 2, 1, 1, 3), "/bnone"),
                   (("identitydiag", 1, 2, 3, 3), "/pdiag/giveL")]:
        out.append(case_info(PROPERTY, *s, tag=t))
    out.append(case_info(PROPERTY, "full", 1, 1, 2, 2, zero_M=True, tag="/histp"))
    return seeded(out, seed)
