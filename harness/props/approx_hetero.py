"""Case builders for the heteroscedastic conditionals (HeteroscedasticExpConditional,
HeteroscedasticCoshM1Conditional): C17 (coherent p(y|x), valid and tight lower bounds) and the
heteroscedastic clause of C16 (exact moment matching).

Oracles are NumPy/SciPy only.  mean(x) = Mx + b and cov(x) = AA' + A_k diag(link(Wx + w0)) A_k' are
built directly from the constructor parameters (class `HetRef`), never from the library's Lambda.
True expectations E_{p(x)}[ln N(y; mean(x), cov(x))] come from adaptive quadrature with break points
(Dx = 1) or tensor Gauss-Hermite with node escalation until two rules agree (Dx >= 2); the agreement
gap is added to the tolerance of the inequality.

Sites.  Failures caused by the Woodbury step of `get_conditional_cov` / the lower bounds being applied
as if A_k'(AA')^{-1}A_k = I (only true for Da = Dy) carry `hetero-woodbury-Da>Dy` in `site`."""
import numpy as np
from scipy import integrate as sci_int
import gen
from runner import Case, failure
from oracle.common import rel_err, LOG2PI
from .common import seeded, fail_if

LINKS = ("exp", "coshm1")
WOOD = "hetero-woodbury-Da>Dy"


# ----------------------------------------------------------------------------------------------
# NumPy reference

class HetRef:
    """p(y|x) = N(Mx + b, AA' + A_k diag(link(W[:,1:] x + W[:,0])) A_k') from the constructor arrays"""

    def __init__(self, cls, M, b, A, W):
        self.cls = cls
        self.M = np.asarray(M, float).reshape(np.shape(M)[-2:])
        self.b = np.asarray(b, float).reshape(-1)
        self.A = np.asarray(A, float).reshape(np.shape(A)[-2:])
        self.W = np.asarray(W, float)
        self.Dy, self.Dx = self.M.shape
        self.Da = self.A.shape[1]
        self.Dk = self.W.shape[0]
        self.Ak = self.A[:, :self.Dk]
        self.S0 = self.A @ self.A.T

    def link(self, h):
        return np.exp(h) if self.cls == "exp" else np.cosh(h) - 1.0

    def h(self, x):
        return np.atleast_2d(x) @ self.W[:, 1:].T + self.W[:, 0]

    def mean(self, x):
        return np.atleast_2d(x) @ self.M.T + self.b

    def cov(self, x):
        D = self.link(self.h(x))
        return self.S0[None] + np.einsum("ik,nk,jk->nij", self.Ak, D, self.Ak)

    def logpdf(self, y, x):
        """ln N(y; mean(x), cov(x)) for x [n, Dx] -> [n]"""
        d = np.asarray(y, float)[None] - self.mean(x)
        C = self.cov(x)
        sol = np.linalg.solve(C, d[..., None])[..., 0]
        ld = np.linalg.slogdet(C)[1]
        return -0.5 * (np.sum(d * sol, axis=1) + self.Dy * LOG2PI + ld)

    def expected_link(self, mu, S):
        """E[link(h_k(x))] under N(mu, S): Gaussian integrals in closed form"""
        w = self.W[:, 1:]
        m = w @ mu + self.W[:, 0]
        s2 = np.einsum("ki,ij,kj->k", w, S, w)
        if self.cls == "exp":
            return np.exp(m + 0.5 * s2)
        return np.exp(0.5 * s2) * np.cosh(m) - 1.0

    def moments(self, mu, S):
        """exact mean / covariance of y and cross-covariance cov(y, x) under p(y|x) N(x; mu, S)"""
        Ecov = self.S0 + (self.Ak * self.expected_link(mu, S)[None]) @ self.Ak.T
        mu_y = self.M @ mu + self.b
        C = self.M @ S
        return mu_y, Ecov + C @ self.M.T, C

    def params(self):
        return dict(cls=self.cls, Dy=self.Dy, Dx=self.Dx, Da=self.Da, Dk=self.Dk, M=self.M.tolist(), b=self.b.tolist(),
                    A=self.A.tolist(), W=self.W.tolist())


def gh_nodes(n, mu, S):
    """tensor Gauss-Hermite rule for N(mu, S): nodes [n^D, D], weights [n^D]"""
    z, w = np.polynomial.hermite.hermgauss(n)
    D = len(mu)
    L = np.linalg.cholesky(S)
    grids = np.meshgrid(*([z] * D), indexing="ij")
    Z = np.stack([g.reshape(-1) for g in grids], axis=1)
    wg = np.meshgrid(*([w] * D), indexing="ij")
    Wt = np.ones(Z.shape[0])
    for g in wg:
        Wt = Wt * g.reshape(-1)
    keep = Wt > 1e-32 * Wt.max()     # far-out nodes carry no mass (the integrand grows polynomially) but overflow exp(h)
    X = mu[None] + np.sqrt(2.0) * Z[keep] @ L.T
    return X, Wt[keep] / np.pi ** (D / 2.0)


def expect_logp(ref, y, mu, S):
    """E_{N(mu,S)}[ln p(y|x)] -> (value, error estimate)"""
    mu = np.asarray(mu, float); S = np.asarray(S, float)
    Dx = len(mu)
    if Dx == 1:
        s = float(np.sqrt(S[0, 0]))
        f = lambda t: float(ref.logpdf(y, np.array([[t]]))[0]) * np.exp(-0.5 * ((t - mu[0]) / s) ** 2) / (s * np.sqrt(2 * np.pi))
        lo, hi = mu[0] - 14 * s, mu[0] + 14 * s
        pts = [mu[0] + k * s for k in (-8, -5, -3, -2, -1, 0, 1, 2, 3, 5, 8)]
        for k in range(ref.Dk):            # where a noise unit switches on
            if ref.W[k, 1] != 0.0:
                t0 = -ref.W[k, 0] / ref.W[k, 1]
                if lo < t0 < hi:
                    pts.append(t0)
        val, err = sci_int.quad(f, lo, hi, points=sorted(set(pts)), epsabs=1e-13, epsrel=1e-13, limit=2000)
        return val, max(err, 1e-12)
    ladder = [48, 72, 110, 160, 230, 320] if Dx == 2 else [24, 36, 52, 72]
    prev, gap = None, np.inf
    for n in ladder:
        X, w = gh_nodes(n, mu, S)
        val = float(np.sum(w * ref.logpdf(y, X)))
        if prev is not None:
            gap = abs(val - prev)
            if gap <= 1e-10 * max(1.0, abs(val)):
                return val, gap + 1e-12
        prev = val
    return prev, gap + 1e-12


def homoscedastic_expect(ref, y, mu, S):
    """closed form of E[ln p(y|x)] when the weights of all noise units vanish (h = w0)"""
    C = ref.S0 + (ref.Ak * ref.link(ref.W[:, 0])[None]) @ ref.Ak.T
    L = np.linalg.inv(C)
    r = np.asarray(y, float) - ref.M @ mu - ref.b
    return -0.5 * (np.trace(L @ ref.M @ S @ ref.M.T) + r @ L @ r + np.linalg.slogdet(C)[1] + ref.Dy * LOG2PI)


# ----------------------------------------------------------------------------------------------
# generators

def gen_A(rng, Dy, Da, lo=0.6, hi=1.8):
    """Dy x Da with singular values in [lo, hi] (cond(AA') <= 9)"""
    U = gen.orth(rng, Dy)
    V = gen.orth(rng, Da)[:, :Dy]
    s = np.exp(rng.uniform(np.log(lo), np.log(hi), size=Dy))
    return (U * s) @ V.T


def gen_W(rng, Dk, Dx, scale, min_offset=0.3):
    """noise-unit weights: offsets first column, |offset| >= min_offset (non-zero offsets)"""
    W = scale * rng.standard_normal((Dk, Dx + 1))
    off = W[:, 0]
    off = np.where(np.abs(off) < min_offset, np.sign(off + 1e-300) * min_offset, off)
    W[:, 0] = off
    return W


def gen_params(rng, Dy, Dx, Da, Dk, wscale):
    M = rng.standard_normal((1, Dy, Dx)); b = rng.standard_normal((1, Dy))
    A = gen_A(rng, Dy, Da)[None]
    W = gen_W(rng, Dk, Dx, wscale)
    return M, b, A, W


def gen_px(rng, R, Dx, hi=2.0):
    return gen.pd_batch(rng, R, Dx, lo=0.3, hi=hi), gen.vec_batch(rng, R, Dx)


def raised(m, reg):
    return m.regs.get(reg) is None


# ----------------------------------------------------------------------------------------------
# C17: p(y|x) is the stated Gaussian

def case_condition_on_x(prop, seed, cls, Dy, Dx, Da, Dk, wscale=1.0):
    label = f"hetero/condition_on_x/{cls}/Dy{Dy}Dx{Dx}Da{Da}Dk{Dk}/w{wscale}"

    def fn(m):
        rng = gen.rng_path(seed, label)
        fails = []
        M, b, A, W = gen_params(rng, Dy, Dx, Da, Dk, wscale)
        ref = HetRef(cls, M, b, A, W)
        params = ref.params()
        wood = (WOOD + ":") if Da > Dy else ""
        c = m.hetero(cls, M, b, A, W)
        if raised(m, c):
            fails.append(failure(prop, f"constructor:{cls}", f"raised: {m.impl[-1][1:]}", params=params)); return fails
        o = m.regs[c]
        fail_if(fails, prop, f"constructor:Sigma:{cls}", "Sigma != AA'", np.asarray(o.Sigma)[0], ref.S0, params=params)
        fail_if(fails, prop, f"constructor:Lambda:{cls}", "Lambda != inv(AA')", np.asarray(o.Lambda)[0], np.linalg.inv(ref.S0), params=params)
        fail_if(fails, prop, f"constructor:ln_det_Sigma:{cls}", "ln_det_Sigma != ln det AA'", np.asarray(o.ln_det_Sigma), [np.linalg.slogdet(ref.S0)[1]], params=params)
        N = 4
        xs = gen.points(rng, N, Dx)
        x = m.arr(xs)
        mean, cov = ref.mean(xs), ref.cov(xs)
        r = m.het_linear_layer(c, x)
        if not raised(m, r):
            fail_if(fails, prop, f"linear_layer:{cls}", "linear_layer(x) != W[:,1:] x + W[:,0]", np.asarray(m.regs[r]), ref.h(xs), params=params)
        r = m.het_cond_mu(c, x)
        if not raised(m, r):
            fail_if(fails, prop, f"get_conditional_mu:{cls}", "mu(x) != Mx + b", np.asarray(m.regs[r])[0], mean, params=params)
        r = m.het_cond_cov(c, x, 0)
        if not raised(m, r):
            fail_if(fails, prop, f"get_conditional_cov:{cls}", "Sigma(x) != AA' + A_k D(x) A_k'", np.asarray(m.regs[r]), cov, params=params)
        for which in (1, 2, 3):
            m.het_cond_cov(c, x, which)
        pr = m.het_condition_on_x(c, x)
        if raised(m, pr):
            fails.append(failure(prop, f"condition_on_x:{cls}", f"raised: {m.impl[-1][1:]}", params=params)); return fails
        P = m.regs[pr]
        fail_if(fails, prop, f"condition_on_x:mu:{cls}", "mean of p(y|x) != Mx + b", np.asarray(P.mu), mean, params=params)
        fail_if(fails, prop, f"condition_on_x:Sigma:{cls}", "covariance of p(y|x) != AA' + A_k diag(link(Wx+w0)) A_k'", np.asarray(P.Sigma), cov, params=params)
        fail_if(fails, prop, f"{wood}condition_on_x:Lambda:{cls}", "Lambda of p(y|x) is not the inverse of its Sigma",
                np.asarray(P.Lambda), np.linalg.inv(cov), params=params)
        fail_if(fails, prop, f"{wood}condition_on_x:ln_det_Sigma:{cls}", "ln_det_Sigma of p(y|x) is not ln det of its Sigma",
                np.asarray(P.ln_det_Sigma), np.linalg.slogdet(cov)[1], params=params)
        # the density it evaluates: ln p(y|x) at a few y (uses Lambda, nu, ln_beta)
        ys = gen.points(rng, 3, Dy)
        e = m.evalln(pr, m.arr(ys))
        if not raised(m, e):
            exp = np.stack([[ref.logpdf(ys[j], xs[n:n + 1])[0] for j in range(len(ys))] for n in range(N)])
            fail_if(fails, prop, f"{wood}condition_on_x:evaluate_ln:{cls}", "ln p(y|x) of the returned density != ln N(y; Mx+b, Sigma(x))",
                    np.asarray(m.regs[e]), exp, params=params)
        s = m.het_set_y(c, m.arr(ys))
        if not raised(m, s):
            fails.append(failure(prop, f"set_y:{cls}", "set_y is documented to raise", params=params))
        return fails
    return Case(label, fn)


def case_constructor_refusals(prop, seed, cls):
    label = f"hetero/constructor-refusals/{cls}"

    def fn(m):
        rng = gen.rng_path(seed, label)
        fails = []
        for (R, Dy, Dx, Da, Dk, why) in [(2, 2, 2, 2, 1, "R != 1"), (1, 3, 2, 2, 1, "Dy > Da"), (1, 2, 2, 2, 3, "Dk > Da")]:
            M = rng.standard_normal((R, Dy, Dx)); b = rng.standard_normal((R, Dy))
            A = rng.standard_normal((R, Dy, Da)); W = rng.standard_normal((Dk, Dx + 1))
            c = m.hetero(cls, M, b, A, W)
            if not raised(m, c) or m.impl[-1][1] != "refuse-documented":
                fails.append(failure(prop, f"constructor:{cls}", f"constructor accepted / mis-refused shapes with {why}",
                                     params=dict(cls=cls, R=R, Dy=Dy, Dx=Dx, Da=Da, Dk=Dk)))
        return fails
    return Case(label, fn)


# ----------------------------------------------------------------------------------------------
# C17: lower bound

def case_lower_bound(prop, seed, cls, Dy, Dx, Da, Dk, R, N, wscale=1.0, internals=True):
    label = f"hetero/lower_bound/{cls}/Dy{Dy}Dx{Dx}Da{Da}Dk{Dk}/R{R}N{N}/w{wscale}"

    def fn(m):
        rng = gen.rng_path(seed, label)
        fails = []
        M, b, A, W = gen_params(rng, Dy, Dx, Da, Dk, wscale)
        ref = HetRef(cls, M, b, A, W)
        S, mu = gen_px(rng, R, Dx)
        ys = gen.points(rng, N, Dy)
        params = dict(ref.params(), R=R, N=N, Sigma_x=S.tolist(), mu_x=mu.tolist(), y=ys.tolist())
        wood = (WOOD + ":") if Da > Dy else ""
        c = m.hetero(cls, M, b, A, W)
        p = m.pdf(R, Dx, S, mu)
        y = m.arr(ys)
        r = m.het_log_cond_y(c, p, y)
        if raised(m, r):
            fails.append(failure(prop, f"integrate_log_conditional_y:{cls}", f"raised on the documented calling convention: {m.impl[-1][1:]}", params=params))
            return fails
        lb = np.asarray(m.regs[r])
        B = max(R, N)
        true = np.zeros(B); qerr = np.zeros(B)
        for k in range(B):
            true[k], qerr[k] = expect_logp(ref, ys[k if N > 1 else 0], mu[k if R > 1 else 0], S[k if R > 1 else 0])
        if lb.shape != (B,) or not np.all(np.isfinite(lb)):
            fails.append(failure(prop, f"integrate_log_conditional_y:{cls}", "result is not a finite array of one value per pair",
                                 expected=true.tolist(), got=lb.tolist(), params=params))
            return fails
        m.meta[-1]["quadrature_error"] = float(np.max(qerr))
        viol = lb - true
        tol = 1e-7 + qerr
        if np.any(viol > tol):
            fails.append(failure(prop, f"{wood}integrate_log_conditional_y:bound:{cls}",
                                 "integrate_log_conditional_y(p_x, y) exceeds the true E_p(x)[ln p(y|x)]",
                                 expected=true.tolist(), got=lb.tolist(), deviation=viol.tolist(),
                                 params=dict(params, quadrature_error=qerr.tolist())))
        # the two halves of the bound and the intermediate quantities (correspondence only)
        m.het_lb_quadratic(c, p, y); m.het_lb_log_det(c, p)
        if internals:
            Ainv = np.linalg.inv(ref.S0) @ ref.Ak
            k = int(rng.integers(0, Dk))
            a = m.arr(Ainv[:, k])
            od = m.het_omega_dagger(c, p, k)
            m.het_k_func(c, p, k, od)
            os_ = m.het_omega_star(c, p, y, k, a)
            up = m.het_update_omega(c, p, y, k, a, od)
            for which in (0, 1, 2):
                m.het_lb_integrals(c, p, y, k, a, od, which)
            if not raised(m, up) and not raised(m, od):
                m.het_omega_loop(c, p, y, k, a, up, od)
            if not raised(m, os_) and not raised(m, od) and not raised(m, up):
                d_star = float(np.max(np.abs(np.asarray(m.regs[os_]) - np.asarray(m.regs[od]))))
                d_up = float(np.max(np.abs(np.asarray(m.regs[up]) - np.asarray(m.regs[od]))))
                m.meta[-1]["omega_star_equals_dagger"] = (d_star == 0.0)
                m.meta[-1]["one_update_moves_by"] = round(d_up, 3)
        return fails
    return Case(label, fn)


def case_calling_convention(prop, seed, cls):
    """shapes outside the documented convention must raise (not silently broadcast)"""
    label = f"hetero/lower_bound/undocumented-batches/{cls}"

    def fn(m):
        rng = gen.rng_path(seed, label)
        fails = []
        Dy, Dx, Da, Dk = 2, 1, 2, 1
        M, b, A, W = gen_params(rng, Dy, Dx, Da, Dk, 0.5)
        c = m.hetero(cls, M, b, A, W)
        for (R, N) in [(1, 3), (2, 3)]:
            S, mu = gen_px(rng, R, Dx)
            p = m.pdf(R, Dx, S, mu)
            m.het_log_cond_y(c, p, m.arr(gen.points(rng, N, Dy)))
        return fails
    return Case(label, fn)


def case_tightness(prop, seed, cls, Dy, Dx, Da, Dk):
    """gap(eps) = true - bound for input weights eps*w: quadratic decay, zero at zero weights"""
    label = f"hetero/tightness/{cls}/Dy{Dy}Dx{Dx}Da{Da}Dk{Dk}"

    def fn(m):
        rng = gen.rng_path(seed, label)
        fails = []
        M, b, A, W = gen_params(rng, Dy, Dx, Da, Dk, 1.0)
        S, mu = gen_px(rng, 1, Dx, hi=1.5)
        ys = gen.points(rng, 1, Dy)
        wood = (WOOD + ":") if Da > Dy else ""
        p = m.pdf(1, Dx, S, mu)
        y = m.arr(ys)
        gaps = {}
        base = dict(Sigma_x=S.tolist(), mu_x=mu.tolist(), y=ys.tolist())
        for eps in (1e-1, 1e-2, 1e-3, 0.0):
            We = W.copy(); We[:, 1:] *= eps
            ref = HetRef(cls, M, b, A, We)
            c = m.hetero(cls, M, b, A, We)
            r = m.het_log_cond_y(c, p, y)
            if raised(m, r):
                fails.append(failure(prop, f"integrate_log_conditional_y:{cls}", f"raised: {m.impl[-1][1:]}", params=dict(ref.params(), eps=eps, **base)))
                return fails
            lb = float(np.asarray(m.regs[r])[0])
            if eps == 0.0:
                true, qerr = float(homoscedastic_expect(ref, ys[0], mu[0], S[0])), 1e-12
            else:
                true, qerr = expect_logp(ref, ys[0], mu[0], S[0])
            gaps[eps] = (true - lb, qerr, ref)
        g0, _, ref0 = gaps[0.0]
        if not abs(g0) <= 1e-9 * max(1.0, abs(g0 + 1.0)):
            fails.append(failure(prop, f"{wood}integrate_log_conditional_y:zero-weights:{cls}",
                                 "bound differs from the closed-form E[ln p(y|x)] at zero input weights (homoscedastic limit)",
                                 expected=0.0, got=g0, deviation=g0, params=dict(ref0.params(), eps=0.0, **base)))
        for eps in (1e-1, 1e-2):
            g, qe, ref = gaps[eps]
            g10, qe10, _ = gaps[eps / 10]
            if g < -(1e-7 + qe) or g10 < -(1e-7 + qe10):
                fails.append(failure(prop, f"{wood}integrate_log_conditional_y:bound:{cls}", "bound exceeds the true expectation",
                                     expected=0.0, got=[g, g10], deviation=[-g, -g10], params=dict(ref.params(), eps=eps, **base)))
            elif not g10 <= g / 30.0 + 10 * (qe + qe10) + 1e-12:
                fails.append(failure(prop, f"{wood}integrate_log_conditional_y:tightness:{cls}",
                                     "gap to the true value does not decay quadratically: gap(eps/10) > gap(eps)/30",
                                     expected=g / 30.0, got=g10, deviation=g10 / g if g != 0 else None,
                                     params=dict(ref.params(), eps=eps, gaps={str(k): v[0] for k, v in gaps.items()}, **base)))
        m.meta[-1]["gaps"] = {str(k): float(v[0]) for k, v in gaps.items()}
        return fails
    return Case(label, fn)


def c17_cases(seed, tier):
    quick = tier == "quick"
    out = []
    # --- p(y|x): every constructor-accepted shape family (Da = Dy and Da > Dy; Dk <= Da; Dx in 1..3)
    shapes = [(2, 2, 2, 2), (2, 1, 2, 1), (1, 3, 1, 1), (3, 2, 3, 2), (2, 2, 3, 2), (1, 1, 2, 2), (2, 3, 4, 3), (3, 1, 3, 3)]
    if not quick:
        shapes += [(1, 2, 1, 1), (3, 3, 3, 1), (2, 2, 4, 4), (1, 3, 3, 2), (4, 2, 4, 3), (3, 2, 4, 1)]
    for i, (Dy, Dx, Da, Dk) in enumerate(shapes):
        for j, cls in enumerate(LINKS):
            if quick and (i + j) % 2 == 1 and i >= 4:
                continue
            out.append(case_condition_on_x("C17", seed, cls, Dy, Dx, Da, Dk, wscale=1.0 if i % 2 == 0 else 0.4))
    for cls in LINKS:
        out.append(case_constructor_refusals("C17", seed, cls))
        out.append(case_calling_convention("C17", seed, cls))
    # --- lower bound <= truth: (Dy, Dx, Da, Dk, R, N, weight scale)
    lbs = [(1, 1, 1, 1, 1, 1, 1.0), (2, 1, 2, 2, 3, 3, 0.8), (2, 2, 2, 1, 1, 1, 0.7), (2, 2, 2, 2, 2, 2, 0.5),
           (2, 1, 3, 2, 1, 1, 1.0), (1, 2, 2, 1, 2, 2, 0.7)]
    if quick:
        lbs_cls = [(s, cls) for i, s in enumerate(lbs) for j, cls in enumerate(LINKS) if i < 2 or (i + j) % 2 == 0]
        lbs_cls.append(((2, 3, 2, 2, 1, 1, 0.5), "exp"))
    else:
        lbs += [(2, 3, 2, 2, 1, 1, 0.5), (3, 1, 3, 3, 1, 1, 1.0), (3, 2, 3, 2, 1, 1, 0.6), (2, 1, 2, 1, 4, 1, 1.0),
                (1, 3, 1, 1, 2, 2, 0.4), (2, 2, 4, 3, 1, 1, 0.6), (3, 1, 4, 2, 2, 2, 0.9), (1, 1, 3, 1, 1, 1, 1.0)]
        lbs_cls = [(s, cls) for s in lbs for cls in LINKS]
    for k, ((Dy, Dx, Da, Dk, R, N, ws), cls) in enumerate(lbs_cls):
        out.append(case_lower_bound("C17", seed, cls, Dy, Dx, Da, Dk, R, N, wscale=ws, internals=(not quick) or k % 2 == 0))
    # --- tightness in the homoscedastic limit
    tight = [(1, 1, 1, 1), (2, 1, 2, 2)] + ([] if quick else [(2, 2, 2, 1), (3, 1, 3, 2), (2, 1, 2, 1)])
    for (Dy, Dx, Da, Dk) in tight:
        for cls in LINKS:
            out.append(case_tightness("C17", seed, cls, Dy, Dx, Da, Dk))
    out.append(case_tightness("C17", seed, "exp", 1, 1, 2, 1))      # Da > Dy: the shared Woodbury assumption
    if not quick:
        out.append(case_tightness("C17", seed, "coshm1", 2, 1, 3, 2))
    return seeded(out, seed)


# ----------------------------------------------------------------------------------------------
# C16 (heteroscedastic clause): moment matching is exact

def case_moments(prop, seed, cls, Dy, Dx, Da, Dk, R=1, wscale=0.8):
    label = f"hetero/moments/{cls}/Dy{Dy}Dx{Dx}Da{Da}Dk{Dk}/R{R}/w{wscale}"
    batched = (R != 1)
    tag = "hetero-batched-px:" if batched else ""

    def fn(m):
        rng = gen.rng_path(seed, label)
        fails = []
        M, b, A, W = gen_params(rng, Dy, Dx, Da, Dk, wscale)
        ref = HetRef(cls, M, b, A, W)
        S, mu = gen_px(rng, R, Dx)
        params = dict(ref.params(), R=R, Sigma_x=S.tolist(), mu_x=mu.tolist())
        c = m.hetero(cls, M, b, A, W)
        p = m.pdf(R, Dx, S, mu)
        mom = [ref.moments(mu[r], S[r]) for r in range(R)]
        mu_y = np.stack([q[0] for q in mom]); Sy = np.stack([q[1] for q in mom]); Cyx = np.stack([q[2] for q in mom])
        # expected noise diagonal (closed-form Gaussian integrals) and expected covariance
        r_ = m.het_noise_diag(c, p)
        if not raised(m, r_):
            fail_if(fails, prop, f"_integrate_noise_diagonal:{cls}", "E[link(h_k)] differs from the closed form",
                    np.asarray(m.regs[r_]).reshape(R, Dk), np.stack([ref.expected_link(mu[r], S[r]) for r in range(R)]), params=params)
        m.het_integrate_sigma_x(c, p)
        for which in (0, 1):
            m.het_expected_moments(c, p, which)
        r_ = m.het_expected_cross(c, p)
        if not raised(m, r_):
            Eyx = Cyx + np.einsum("ri,rj->rij", mu_y, mu)
            fail_if(fails, prop, f"get_expected_cross_terms:{cls}", "E[y x'] differs", np.asarray(m.regs[r_]), Eyx, params=params)
        # own-quadrature of what the object returns when conditioned on x (Dx <= 2, R = 1)
        if Dx <= 2 and not batched:
            X, w = gh_nodes(40 if Dx == 1 else 24, mu[0], S[0])
            q = m.het_condition_on_x(c, m.arr(X))
            if not raised(m, q):
                Q = m.regs[q]
                mq = np.asarray(Q.mu); Sq = np.asarray(Q.Sigma)
                mu_q = w @ mq
                d = mq - mu_q[None]
                Sy_q = np.einsum("n,nij->ij", w, Sq) + np.einsum("n,ni,nj->ij", w, d, d)
                Cyx_q = np.einsum("n,ni,nj->ij", w, d, X - mu[0][None])
                for name, a_, b_ in (("mean", mu_q, mu_y[0]), ("covariance", Sy_q, Sy[0]), ("cross-covariance", Cyx_q, Cyx[0])):
                    if rel_err(a_, b_) > 1e-9:
                        fails.append(failure(prop, f"oracle-consistency:{cls}", f"Gauss-Hermite moments of condition_on_x and the closed form disagree on the {name}",
                                             expected=np.asarray(b_).tolist(), got=np.asarray(a_).tolist(), params=params))
        mr = m.het_transform("marginal", c, p)
        if raised(m, mr):
            fails.append(failure(prop, f"{tag}affine_marginal_transformation:{cls}", f"raised: {m.impl[-1][1:]}", params=params))
        else:
            P = m.regs[mr]
            fail_if(fails, prop, f"{tag}affine_marginal_transformation:mu:{cls}", "mean of the marginal != E[y]", np.asarray(P.mu), mu_y, params=params)
            fail_if(fails, prop, f"{tag}affine_marginal_transformation:Sigma:{cls}", "covariance of the marginal != Cov[y]", np.asarray(P.Sigma), Sy, params=params)
        jr = m.het_transform("joint", c, p)
        if raised(m, jr):
            fails.append(failure(prop, f"{tag}affine_joint_transformation:{cls}", f"raised: {m.impl[-1][1:]}", params=params))
        else:
            J = m.regs[jr]
            mu_j = np.concatenate([mu, mu_y], axis=1)
            S_j = np.stack([np.block([[S[r], Cyx[r].T], [Cyx[r], Sy[r]]]) for r in range(R)])
            fail_if(fails, prop, f"{tag}affine_joint_transformation:mu:{cls}", "mean of the joint != (E[x], E[y])", np.asarray(J.mu), mu_j, params=params)
            fail_if(fails, prop, f"{tag}affine_joint_transformation:Sigma:{cls}", "covariance of the joint != exact second moments of (x, y)", np.asarray(J.Sigma), S_j, params=params)
            fail_if(fails, prop, f"{tag}affine_joint_transformation:Lambda:{cls}", "Lambda of the joint is not the inverse of its Sigma", np.asarray(J.Lambda), np.linalg.inv(np.asarray(J.Sigma, dtype=float)), params=params, tol=1e-7)
        cr = m.het_transform("conditional", c, p)
        if raised(m, cr):
            fails.append(failure(prop, f"{tag}affine_conditional_transformation:{cls}", f"raised: {m.impl[-1][1:]}", params=params))
        else:
            C = m.regs[cr]
            Mc = np.stack([Cyx[r].T @ np.linalg.inv(Sy[r]) for r in range(R)])
            bc = np.stack([mu[r] - Mc[r] @ mu_y[r] for r in range(R)])
            Sc = np.stack([S[r] - Mc[r] @ Cyx[r] for r in range(R)])
            fail_if(fails, prop, f"{tag}affine_conditional_transformation:M:{cls}", "p(x|y) of the matched joint: M differs", np.asarray(C.M), Mc, params=params, tol=1e-7)
            fail_if(fails, prop, f"{tag}affine_conditional_transformation:b:{cls}", "p(x|y) of the matched joint: b differs", np.asarray(C.b), bc, params=params, tol=1e-7)
            fail_if(fails, prop, f"{tag}affine_conditional_transformation:Sigma:{cls}", "p(x|y) of the matched joint: Sigma differs", np.asarray(C.Sigma), Sc, params=params, tol=1e-7)
        return fails
    return Case(label, fn)


def c16_hetero_cases(seed, tier):
    quick = tier == "quick"
    shapes = [(2, 2, 2, 2), (1, 1, 1, 1), (2, 1, 3, 2), (3, 2, 3, 1), (2, 3, 2, 2), (1, 2, 2, 2)]
    if not quick:
        shapes += [(3, 3, 4, 3), (2, 2, 4, 4), (1, 3, 1, 1), (3, 1, 3, 3), (4, 2, 4, 2)]
    out = []
    for i, (Dy, Dx, Da, Dk) in enumerate(shapes):
        for cls in LINKS:
            out.append(case_moments("C16", seed, cls, Dy, Dx, Da, Dk, wscale=1.0 if i % 2 == 0 else 0.5))
    return out


def c12_hetero_cases(seed, tier):
    """p(x) with several components: every component must get its own moments (property C12: batches are
    independent components).  The pinned code sums the expected noise over the components (Dk = 1) or raises
    (Dk > 1) — recorded as known finding `hetero-batched-px`."""
    out = []
    for cls in LINKS:
        out.append(case_moments("C12", seed, cls, 2, 2, 2, 1, R=2))
        out.append(case_moments("C12", seed, cls, 2, 2, 2, 2, R=2))
    return out


def replay_woodbury():
    """recorded input of known finding `hetero-woodbury-Da>Dy` (Exp link, Dy = 1, Da = 2)"""
    import jax.numpy as jnp
    from gaussian_toolbox import approximate_conditional as ac
    c = ac.HeteroscedasticExpConditional(M=jnp.array([[[1.0]]]), b=jnp.array([[0.0]]), A=jnp.array([[[1.0, 1.0]]]),
                                          W=jnp.array([[0.0, 0.0]]))
    d = c.condition_on_x(jnp.array([[0.0]]))
    S = float(np.asarray(d.Sigma)[0, 0, 0]); L = float(np.asarray(d.Lambda)[0, 0, 0]); ld = float(np.asarray(d.ln_det_Sigma)[0])
    return abs(S - 3.0) < 1e-9 and abs(L - 0.375) < 1e-9 and abs(L - 1.0 / S) > 1e-3 and abs(ld - np.log(S)) > 1e-3


def replay_batched_px():
    """recorded input of known finding `hetero-batched-px` (two prior components, one noise unit)"""
    import jax.numpy as jnp
    from gaussian_toolbox import approximate_conditional as ac, pdf
    c = ac.HeteroscedasticExpConditional(M=jnp.array([[[1.0]]]), b=jnp.array([[0.0]]), A=jnp.array([[[1.0]]]),
                                          W=jnp.array([[0.0, 1.0]]))
    p = pdf.GaussianPDF(Sigma=jnp.ones((2, 1, 1)), mu=jnp.array([[0.0], [1.0]]))
    try:
        S = np.asarray(c.affine_marginal_transformation(p).Sigma).reshape(-1)
    except Exception:
        return True
    # exact: Var[y] = 1 (x) + 1 (AA') + E[exp(x)] with x ~ N(mu, 1): differs per component
    exact = np.array([2.0 + np.exp(0.5), 2.0 + np.exp(1.5)])
    return bool(np.max(np.abs(S - exact)) > 1e-3)
