"""Case builders for the heteroscedastic conditionals (HeteroscedasticExpConditional,
HeteroscedasticCoshM1Conditional, and -- [hetero-trunc] -- HeteroscedasticHeavisideConditional,
HeteroscedasticReLUConditional): C17 (coherent p(y|x), valid and tight lower bounds) and the
heteroscedastic clause of C16 (exact moment matching).

Oracles are NumPy/SciPy only.  mean(x) = Mx + b and cov(x) = AA' + A_k diag(link(Wx + w0)) A_k' are
built directly from the constructor parameters (class `HetRef`), never from the library's Lambda.
True expectations E_{p(x)}[ln N(y; mean(x), cov(x))] come from adaptive quadrature with break points
(Dx = 1) or tensor Gauss-Hermite with node escalation until two rules agree (Dx >= 2); the agreement
gap is added to the tolerance of the inequality.

[hetero-trunc] The step link `heaviside(h)` (1 for h >= 0) and the rectified-linear link `relu(h)` have a
kink at h = 0, where tensor Gauss-Hermite does not converge.  Their true expectations are integrated
piecewise: Dx = 1 by adaptive quadrature split at the kinks (as above); Dx >= 2 by `expect_logp_kinked`
(the directions of x that move h are integrated with Gauss-Legendre panels split at the kinks, the
remaining directions in closed form; two rule orders must agree).  For the step link
integrate_log_conditional_y is not a bound but the exact value (G = D/(1+D) and ln(1+D) are themselves step
functions of h), so the oracle is an equality; for the rectified-linear link it is `bound <= truth`.
Expected links are the truncated-Gaussian closed forms E[1(h>=0)] = Phi(m/s), E[relu(h)] = m Phi(m/s) +
s phi(m/s), cross-checked for Dx = 1 by quadrature split at the kink.

Sites.  Failures caused by the Woodbury step of `get_conditional_cov` / the lower bounds being applied
as if A_k'(AA')^{-1}A_k = I (only true for Da = Dy) carry `hetero-woodbury-Da>Dy` in `site`."""
import numpy as np
from scipy import integrate as sci_int
from scipy.stats import norm as sp_norm
import gen
from runner import Case, failure
from oracle.common import rel_err, LOG2PI
from .common import seeded, fail_if

LINKS = ("exp", "coshm1")
TRUNC_LINKS = ("heaviside", "relu")          # [hetero-trunc] links with a kink at h = 0
ALL_LINKS = LINKS + TRUNC_LINKS
WOOD = "hetero-woodbury-Da>Dy"
BATCHED = "hetero-batched-px"
DEGEN = "hetero-trunc-degenerate"


# ----------------------------------------------------------------------------------------------
# NumPy reference

class HetRef:
    """p(y|x) = N(Mx + b, AA' + A_k diag(link(W[:,1:] x + W[:,0])) A_k') from the constructor arrays"""

    def __init__(self, cls, M, b, A, W):
        self.cls = cls
        self.M = np.asarray(M, float).reshape(np.shape(M)[-2:])
        self.b = np.asarray(b, float).reshape(-1)
        self.A = np.asarray(A, float).reshape(np.shape(A)[-2:])
        self.W = np.asarray(W, float)
        self.Dy, self.Dx = self.M.shape
        self.Da = self.A.shape[1]
        self.Dk = self.W.shape[0]
        self.Ak = self.A[:, :self.Dk]
        self.S0 = self.A @ self.A.T

    def link(self, h):
        h = np.asarray(h, float)
        if self.cls == "exp":
            return np.exp(h)
        if self.cls == "coshm1":
            return np.cosh(h) - 1.0
        if self.cls == "heaviside":          # heaviside(h) with value 1 at h = 0
            return np.where(h >= 0.0, 1.0, 0.0)
        if self.cls == "relu":
            return np.maximum(h, 0.0)
        raise ValueError(self.cls)

    def h(self, x):
        return np.atleast_2d(x) @ self.W[:, 1:].T + self.W[:, 0]

    def mean(self, x):
        return np.atleast_2d(x) @ self.M.T + self.b

    def cov(self, x):
        D = self.link(self.h(x))
        return self.S0[None] + np.einsum("ik,nk,jk->nij", self.Ak, D, self.Ak)

    def logpdf(self, y, x):
        """ln N(y; mean(x), cov(x)) for x [n, Dx] -> [n]"""
        d = np.asarray(y, float)[None] - self.mean(x)
        C = self.cov(x)
        sol = np.linalg.solve(C, d[..., None])[..., 0]
        ld = np.linalg.slogdet(C)[1]
        return -0.5 * (np.sum(d * sol, axis=1) + self.Dy * LOG2PI + ld)

    def expected_link(self, mu, S):
        """E[link(h_k(x))] under N(mu, S): Gaussian integrals in closed form"""
        w = self.W[:, 1:]
        m = w @ mu + self.W[:, 0]
        s2 = np.einsum("ki,ij,kj->k", w, S, w)
        if self.cls == "exp":
            return np.exp(m + 0.5 * s2)
        if self.cls == "coshm1":
            return np.exp(0.5 * s2) * np.cosh(m) - 1.0
        # truncated-Gaussian moments of h ~ N(m, s^2) over h >= 0 (s = 0: the link at m)
        sd = np.sqrt(s2)
        z = np.where(sd > 0, m / np.where(sd > 0, sd, 1.0), np.where(m >= 0, np.inf, -np.inf))
        if self.cls == "heaviside":
            return sp_norm.cdf(z)
        return m * sp_norm.cdf(z) + sd * sp_norm.pdf(z)

    def expected_link_quad(self, mu, S):
        """Dx = 1: E[link(h_k(x))] by adaptive quadrature split at the kink h_k(x) = 0 -> (values, error)"""
        s = float(np.sqrt(S[0, 0])); m0 = float(mu[0])
        out = np.zeros(self.Dk); err = 0.0
        for k in range(self.Dk):
            w0, w = self.W[k, 0], self.W[k, 1]
            f = lambda t: float(self.link(w * t + w0)) * np.exp(-0.5 * ((t - m0) / s) ** 2) / (s * np.sqrt(2 * np.pi))
            lo, hi = m0 - 14 * s, m0 + 14 * s
            pts = [m0 + j * s for j in (-8, -5, -3, -2, -1, 0, 1, 2, 3, 5, 8)]
            if w != 0.0 and lo < -w0 / w < hi:
                pts.append(-w0 / w)
            out[k], e = sci_int.quad(f, lo, hi, points=sorted(set(pts)), epsabs=1e-13, epsrel=1e-13, limit=2000)
            err = max(err, e)
        return out, max(err, 1e-12)

    def moments(self, mu, S):
        """exact mean / covariance of y and cross-covariance cov(y, x) under p(y|x) N(x; mu, S)"""
        Ecov = self.S0 + (self.Ak * self.expected_link(mu, S)[None]) @ self.Ak.T
        mu_y = self.M @ mu + self.b
        C = self.M @ S
        return mu_y, Ecov + C @ self.M.T, C

    def params(self):
        return dict(cls=self.cls, Dy=self.Dy, Dx=self.Dx, Da=self.Da, Dk=self.Dk, M=self.M.tolist(), b=self.b.tolist(),
                    A=self.A.tolist(), W=self.W.tolist())


def gh_nodes(n, mu, S):
    """tensor Gauss-Hermite rule for N(mu, S): nodes [n^D, D], weights [n^D]"""
    z, w = np.polynomial.hermite.hermgauss(n)
    D = len(mu)
    L = np.linalg.cholesky(S)
    grids = np.meshgrid(*([z] * D), indexing="ij")
    Z = np.stack([g.reshape(-1) for g in grids], axis=1)
    wg = np.meshgrid(*([w] * D), indexing="ij")
    Wt = np.ones(Z.shape[0])
    for g in wg:
        Wt = Wt * g.reshape(-1)
    keep = Wt > 1e-32 * Wt.max()     # far-out nodes carry no mass (the integrand grows polynomially) but overflow exp(h)
    X = mu[None] + np.sqrt(2.0) * Z[keep] @ L.T
    return X, Wt[keep] / np.pi ** (D / 2.0)


def expect_logp(ref, y, mu, S):
    """E_{N(mu,S)}[ln p(y|x)] -> (value, error estimate)"""
    mu = np.asarray(mu, float); S = np.asarray(S, float)
    Dx = len(mu)
    if Dx == 1:
        s = float(np.sqrt(S[0, 0]))
        f = lambda t: float(ref.logpdf(y, np.array([[t]]))[0]) * np.exp(-0.5 * ((t - mu[0]) / s) ** 2) / (s * np.sqrt(2 * np.pi))
        lo, hi = mu[0] - 14 * s, mu[0] + 14 * s
        pts = [mu[0] + k * s for k in (-8, -5, -3, -2, -1, 0, 1, 2, 3, 5, 8)]
        for k in range(ref.Dk):            # where a noise unit switches on
            if ref.W[k, 1] != 0.0:
                t0 = -ref.W[k, 0] / ref.W[k, 1]
                if lo < t0 < hi:
                    pts.append(t0)
        val, err = sci_int.quad(f, lo, hi, points=sorted(set(pts)), epsabs=1e-13, epsrel=1e-13, limit=2000)
        return val, max(err, 1e-12)
    ladder = [48, 72, 110, 160, 230, 320] if Dx == 2 else [24, 36, 52, 72]
    prev, gap = None, np.inf
    for n in ladder:
        X, w = gh_nodes(n, mu, S)
        val = float(np.sum(w * ref.logpdf(y, X)))
        if prev is not None:
            gap = abs(val - prev)
            if gap <= 1e-10 * max(1.0, abs(val)):
                return val, gap + 1e-12
        prev = val
    return prev, gap + 1e-12


def homoscedastic_expect(ref, y, mu, S):
    """closed form of E[ln p(y|x)] when the weights of all noise units vanish (h = w0)"""
    C = ref.S0 + (ref.Ak * ref.link(ref.W[:, 0])[None]) @ ref.Ak.T
    L = np.linalg.inv(C)
    r = np.asarray(y, float) - ref.M @ mu - ref.b
    return -0.5 * (np.trace(L @ ref.M @ S @ ref.M.T) + r @ L @ r + np.linalg.slogdet(C)[1] + ref.Dy * LOG2PI)


# [hetero-trunc] ------------------------------------------------------------------------------
# piecewise quadrature for links with a kink at h = 0

def gl_panels(breaks, n):
    """Gauss-Legendre nodes / weights on the panels between consecutive break points"""
    z, w = np.polynomial.legendre.leggauss(n)
    b = np.asarray(breaks, float)
    a, c = b[:-1], b[1:]
    X = (0.5 * (c + a))[:, None] + (0.5 * (c - a))[:, None] * z[None]
    Wt = (0.5 * (c - a))[:, None] * w[None]
    return X.reshape(-1), Wt.reshape(-1)


def std_breaks(kinks, lim=10.0, step=1.0):
    """panel boundaries for a standard-normal weight: a regular grid plus the kinks inside it"""
    g = list(np.arange(-lim, lim + 0.5 * step, step))
    for k in kinks:
        if np.isfinite(k) and -lim < k < lim and min(abs(k - t) for t in g) > 1e-9:
            g.append(float(k))
    return sorted(g)


def _phi(s):
    return np.exp(-0.5 * s * s) / np.sqrt(2 * np.pi)


def expect_logp_kinked(ref, y, mu, S):
    """E_{N(mu,S)}[ln p(y|x)] for a link that is smooth except at h = 0 -> (value, error estimate).

    x = mu + L z with z standard normal.  h = G z + c with G = W[:,1:] L only depends on the coordinates s of z in
    the row space of G (dimension q <= 2 supported); given s the covariance of y is fixed and ln p(y|x) is
    quadratic in the remaining coordinates, whose Gaussian expectation is closed-form.  The s-integral uses
    Gauss-Legendre panels split at the kinks (q = 2: the kink of unit k in s2 moves with s1; G Q1 is lower
    triangular, so the first unit's kink is a point of the outer variable)."""
    y = np.asarray(y, float); mu = np.asarray(mu, float); S = np.asarray(S, float)
    L = np.linalg.cholesky(S)
    G = ref.W[:, 1:] @ L
    c = ref.W[:, 1:] @ mu + ref.W[:, 0]
    q = int(np.linalg.matrix_rank(G))
    if q > 2 or q == 0:
        raise NotImplementedError("expect_logp_kinked: row space of W[:,1:] of dimension 1 or 2 only")
    Q, _ = np.linalg.qr(G.T, mode="complete")
    Q1, Q2 = Q[:, :q], Q[:, q:]
    if q == 2 and ref.Dk > 2:
        raise NotImplementedError("expect_logp_kinked: q = 2 needs Dk = 2 (no crossings of kink lines)")
    B1 = L @ Q1
    Ht = G @ Q1                           # h = Ht s + c; [Dk, q], lower triangular
    Crest = L @ Q2 @ Q2.T @ L.T
    MCM = ref.M @ Crest @ ref.M.T

    def inner(Sn):                         # Sn [n, q] -> E over the remaining coordinates of ln p(y|x)
        X = mu[None] + Sn @ B1.T
        d = y[None] - ref.mean(X)
        C = ref.cov(X)
        sol = np.linalg.solve(C, d[..., None])[..., 0]
        tr = np.trace(np.linalg.solve(C, np.broadcast_to(MCM, C.shape)), axis1=1, axis2=2)
        return -0.5 * (np.sum(d * sol, axis=1) + tr + np.linalg.slogdet(C)[1] + ref.Dy * LOG2PI)

    def rule(n):
        if q == 1:
            kinks = [-c[k] / Ht[k, 0] for k in range(ref.Dk) if Ht[k, 0] != 0.0]
            s, w = gl_panels(std_breaks(kinks), n)
            return float(np.sum(w * _phi(s) * inner(s[:, None])))
        k1 = [-c[k] / Ht[k, 0] for k in range(ref.Dk) if abs(Ht[k, 1]) <= 1e-14 * abs(Ht[k, 0])]
        s1, w1 = gl_panels(std_breaks(k1), n)
        tot = 0.0
        for a, wa in zip(s1, w1 * _phi(s1)):
            k2 = [-(c[k] + Ht[k, 0] * a) / Ht[k, 1] for k in range(ref.Dk) if abs(Ht[k, 1]) > 1e-14 * abs(Ht[k, 0])]
            s2, w2 = gl_panels(std_breaks(k2), n)
            Sn = np.stack([np.full_like(s2, a), s2], axis=1)
            tot += wa * float(np.sum(w2 * _phi(s2) * inner(Sn)))
        return tot

    prev, gap = None, np.inf
    for n in (8, 12, 18, 26):
        val = rule(n)
        if prev is not None:
            gap = abs(val - prev)
            if gap <= 1e-11 * max(1.0, abs(val)):
                return val, gap + 1e-12
        prev = val
    return prev, gap + 1e-12


def expect_for(ref):
    """the quadrature that converges for the link of `ref`"""
    if ref.cls in TRUNC_LINKS and ref.Dx >= 2:
        return expect_logp_kinked
    return expect_logp


def pw_nodes_1d(ref, mu, S, n=12):
    """Dx = 1: quadrature nodes / weights for N(mu, S) on panels split where a noise unit switches on"""
    s = float(np.sqrt(S[0, 0])); m0 = float(mu[0])
    kinks = [(-ref.W[k, 0] / ref.W[k, 1] - m0) / s for k in range(ref.Dk) if ref.W[k, 1] != 0.0]
    z, w = gl_panels(std_breaks(kinks), n)
    return (m0 + s * z)[:, None], w * _phi(z)


# ----------------------------------------------------------------------------------------------
# generators

def gen_A(rng, Dy, Da, lo=0.6, hi=1.8):
    """Dy x Da with singular values in [lo, hi] (cond(AA') <= 9)"""
    U = gen.orth(rng, Dy)
    V = gen.orth(rng, Da)[:, :Dy]
    s = np.exp(rng.uniform(np.log(lo), np.log(hi), size=Dy))
    return (U * s) @ V.T


def gen_W(rng, Dk, Dx, scale, min_offset=0.3):
    """noise-unit weights: offsets first column, |offset| >= min_offset (non-zero offsets)"""
    W = scale * rng.standard_normal((Dk, Dx + 1))
    off = W[:, 0]
    off = np.where(np.abs(off) < min_offset, np.sign(off + 1e-300) * min_offset, off)
    W[:, 0] = off
    return W


def gen_params(rng, Dy, Dx, Da, Dk, wscale):
    M = rng.standard_normal((1, Dy, Dx)); b = rng.standard_normal((1, Dy))
    A = gen_A(rng, Dy, Da)[None]
    W = gen_W(rng, Dk, Dx, wscale)
    return M, b, A, W


def gen_px(rng, R, Dx, hi=2.0):
    return gen.pd_batch(rng, R, Dx, lo=0.3, hi=hi), gen.vec_batch(rng, R, Dx)


def raised(m, reg):
    return m.regs.get(reg) is None


# ----------------------------------------------------------------------------------------------
# C17: p(y|x) is the stated Gaussian

def case_condition_on_x(prop, seed, cls, Dy, Dx, Da, Dk, wscale=1.0):
    label = f"hetero/condition_on_x/{cls}/Dy{Dy}Dx{Dx}Da{Da}Dk{Dk}/w{wscale}"

    def fn(m):
        rng = gen.rng_path(seed, label)
        fails = []
        M, b, A, W = gen_params(rng, Dy, Dx, Da, Dk, wscale)
        ref = HetRef(cls, M, b, A, W)
        params = ref.params()
        wood = (WOOD + ":") if Da > Dy else ""
        c = m.hetero(cls, M, b, A, W)
        if raised(m, c):
            fails.append(failure(prop, f"constructor:{cls}", f"raised: {m.impl[-1][1:]}", params=params)); return fails
        o = m.regs[c]
        fail_if(fails, prop, f"constructor:Sigma:{cls}", "Sigma != AA'", np.asarray(o.Sigma)[0], ref.S0, params=params)
        fail_if(fails, prop, f"constructor:Lambda:{cls}", "Lambda != inv(AA')", np.asarray(o.Lambda)[0], np.linalg.inv(ref.S0), params=params)
        fail_if(fails, prop, f"constructor:ln_det_Sigma:{cls}", "ln_det_Sigma != ln det AA'", np.asarray(o.ln_det_Sigma), [np.linalg.slogdet(ref.S0)[1]], params=params)
        N = 4
        xs = gen.points(rng, N, Dx)
        x = m.arr(xs)
        mean, cov = ref.mean(xs), ref.cov(xs)
        r = m.het_linear_layer(c, x)
        if not raised(m, r):
            fail_if(fails, prop, f"linear_layer:{cls}", "linear_layer(x) != W[:,1:] x + W[:,0]", np.asarray(m.regs[r]), ref.h(xs), params=params)
        r = m.het_cond_mu(c, x)
        if not raised(m, r):
            fail_if(fails, prop, f"get_conditional_mu:{cls}", "mu(x) != Mx + b", np.asarray(m.regs[r])[0], mean, params=params)
        r = m.het_cond_cov(c, x, 0)
        if not raised(m, r):
            fail_if(fails, prop, f"get_conditional_cov:{cls}", "Sigma(x) != AA' + A_k D(x) A_k'", np.asarray(m.regs[r]), cov, params=params)
        for which in (1, 2, 3):
            m.het_cond_cov(c, x, which)
        pr = m.het_condition_on_x(c, x)
        if raised(m, pr):
            fails.append(failure(prop, f"condition_on_x:{cls}", f"raised: {m.impl[-1][1:]}", params=params)); return fails
        P = m.regs[pr]
        fail_if(fails, prop, f"condition_on_x:mu:{cls}", "mean of p(y|x) != Mx + b", np.asarray(P.mu), mean, params=params)
        fail_if(fails, prop, f"condition_on_x:Sigma:{cls}", "covariance of p(y|x) != AA' + A_k diag(link(Wx+w0)) A_k'", np.asarray(P.Sigma), cov, params=params)
        fail_if(fails, prop, f"{wood}condition_on_x:Lambda:{cls}", "Lambda of p(y|x) is not the inverse of its Sigma",
                np.asarray(P.Lambda), np.linalg.inv(cov), params=params)
        fail_if(fails, prop, f"{wood}condition_on_x:ln_det_Sigma:{cls}", "ln_det_Sigma of p(y|x) is not ln det of its Sigma",
                np.asarray(P.ln_det_Sigma), np.linalg.slogdet(cov)[1], params=params)
        # the density it evaluates: ln p(y|x) at a few y (uses Lambda, nu, ln_beta)
        ys = gen.points(rng, 3, Dy)
        e = m.evalln(pr, m.arr(ys))
        if not raised(m, e):
            exp = np.stack([[ref.logpdf(ys[j], xs[n:n + 1])[0] for j in range(len(ys))] for n in range(N)])
            fail_if(fails, prop, f"{wood}condition_on_x:evaluate_ln:{cls}", "ln p(y|x) of the returned density != ln N(y; Mx+b, Sigma(x))",
                    np.asarray(m.regs[e]), exp, params=params)
        s = m.het_set_y(c, m.arr(ys))
        if not raised(m, s):
            fails.append(failure(prop, f"set_y:{cls}", "set_y is documented to raise", params=params))
        return fails
    return Case(label, fn)


def case_constructor_refusals(prop, seed, cls):
    label = f"hetero/constructor-refusals/{cls}"

    def fn(m):
        rng = gen.rng_path(seed, label)
        fails = []
        for (R, Dy, Dx, Da, Dk, why) in [(2, 2, 2, 2, 1, "R != 1"), (1, 3, 2, 2, 1, "Dy > Da"), (1, 2, 2, 2, 3, "Dk > Da")]:
            M = rng.standard_normal((R, Dy, Dx)); b = rng.standard_normal((R, Dy))
            A = rng.standard_normal((R, Dy, Da)); W = rng.standard_normal((Dk, Dx + 1))
            c = m.hetero(cls, M, b, A, W)
            if not raised(m, c) or m.impl[-1][1] != "refuse-documented":
                fails.append(failure(prop, f"constructor:{cls}", f"constructor accepted / mis-refused shapes with {why}",
                                     params=dict(cls=cls, R=R, Dy=Dy, Dx=Dx, Da=Da, Dk=Dk)))
        return fails
    return Case(label, fn)


# ----------------------------------------------------------------------------------------------
# C17: lower bound

def case_lower_bound(prop, seed, cls, Dy, Dx, Da, Dk, R, N, wscale=1.0, internals=True, halves=True):
    label = f"hetero/lower_bound/{cls}/Dy{Dy}Dx{Dx}Da{Da}Dk{Dk}/R{R}N{N}/w{wscale}"

    def fn(m):
        rng = gen.rng_path(seed, label)
        fails = []
        M, b, A, W = gen_params(rng, Dy, Dx, Da, Dk, wscale)
        ref = HetRef(cls, M, b, A, W)
        S, mu = gen_px(rng, R, Dx)
        ys = gen.points(rng, N, Dy)
        params = dict(ref.params(), R=R, N=N, Sigma_x=S.tolist(), mu_x=mu.tolist(), y=ys.tolist())
        wood = (WOOD + ":") if Da > Dy else ""
        c = m.hetero(cls, M, b, A, W)
        p = m.pdf(R, Dx, S, mu)
        y = m.arr(ys)
        r = m.het_log_cond_y(c, p, y)
        if raised(m, r):
            fails.append(failure(prop, f"integrate_log_conditional_y:{cls}", f"raised on the documented calling convention: {m.impl[-1][1:]}", params=params))
            return fails
        lb = np.asarray(m.regs[r])
        B = max(R, N)
        true = np.zeros(B); qerr = np.zeros(B)
        expect = expect_for(ref)
        for k in range(B):
            true[k], qerr[k] = expect(ref, ys[k if N > 1 else 0], mu[k if R > 1 else 0], S[k if R > 1 else 0])
        if cls in TRUNC_LINKS and Dx == 1 and B == 1:     # [hetero-trunc] the two piecewise quadratures must agree
            v2, e2 = expect_logp_kinked(ref, ys[0], mu[0], S[0])
            if abs(v2 - true[0]) > 1e-9 * max(1.0, abs(v2)) + e2 + qerr[0]:
                fails.append(failure(prop, f"oracle-consistency:{cls}", "adaptive quadrature and Gauss-Legendre panels disagree on E[ln p(y|x)]",
                                     expected=float(true[0]), got=float(v2), params=params))
        if lb.shape != (B,) or not np.all(np.isfinite(lb)):
            fails.append(failure(prop, f"integrate_log_conditional_y:{cls}", "result is not a finite array of one value per pair",
                                 expected=true.tolist(), got=lb.tolist(), params=params))
            return fails
        m.meta[-1]["quadrature_error"] = float(np.max(qerr))
        viol = lb - true
        tol = 1e-7 + qerr
        if cls == "heaviside":
            # [hetero-trunc] step link: D/(1+D) = 1(h>=0)/2 and ln(1+D) = ln 2 1(h>=0), nothing is bounded
            tol_eq = 1e-8 * np.maximum(1.0, np.abs(true)) + 10 * qerr
            if np.any(np.abs(viol) > tol_eq):
                fails.append(failure(prop, f"{wood}integrate_log_conditional_y:exact:{cls}",
                                     "integrate_log_conditional_y(p_x, y) differs from the true E_p(x)[ln p(y|x)] (exact for the step link)",
                                     expected=true.tolist(), got=lb.tolist(), deviation=viol.tolist(),
                                     params=dict(params, quadrature_error=qerr.tolist())))
        elif np.any(viol > tol):
            fails.append(failure(prop, f"{wood}integrate_log_conditional_y:bound:{cls}",
                                 "integrate_log_conditional_y(p_x, y) exceeds the true E_p(x)[ln p(y|x)]",
                                 expected=true.tolist(), got=lb.tolist(), deviation=viol.tolist(),
                                 params=dict(params, quadrature_error=qerr.tolist())))
        # the two halves of the bound and the intermediate quantities (correspondence only)
        if halves:
            m.het_lb_quadratic(c, p, y)
        m.het_lb_log_det(c, p)
        if internals == "light":       # [hetero-trunc] the loop body and the loop only (every call re-traces while_loop / scan)
            Ainv = np.linalg.inv(ref.S0) @ ref.Ak
            k = int(rng.integers(0, Dk))
            a = m.arr(Ainv[:, k])
            od = m.het_omega_dagger(c, p, k)
            up = m.het_update_omega(c, p, y, k, a, od)
            if not raised(m, up) and not raised(m, od):
                m.het_omega_loop(c, p, y, k, a, up, od)
        elif internals:
            Ainv = np.linalg.inv(ref.S0) @ ref.Ak
            k = int(rng.integers(0, Dk))
            a = m.arr(Ainv[:, k])
            od = m.het_omega_dagger(c, p, k)
            m.het_k_func(c, p, k, od)
            os_ = m.het_omega_star(c, p, y, k, a)
            up = m.het_update_omega(c, p, y, k, a, od)
            for which in (0, 1, 2):
                m.het_lb_integrals(c, p, y, k, a, od, which)
            if not raised(m, up) and not raised(m, od):
                m.het_omega_loop(c, p, y, k, a, up, od)
            if not raised(m, os_) and not raised(m, od) and not raised(m, up):
                d_star = float(np.max(np.abs(np.asarray(m.regs[os_]) - np.asarray(m.regs[od]))))
                d_up = float(np.max(np.abs(np.asarray(m.regs[up]) - np.asarray(m.regs[od]))))
                m.meta[-1]["omega_star_equals_dagger"] = (d_star == 0.0)
                m.meta[-1]["one_update_moves_by"] = round(d_up, 3)
        return fails
    return Case(label, fn)


def case_calling_convention(prop, seed, cls):
    """shapes outside the documented convention must raise (not silently broadcast)"""
    label = f"hetero/lower_bound/undocumented-batches/{cls}"

    def fn(m):
        rng = gen.rng_path(seed, label)
        fails = []
        Dy, Dx, Da, Dk = 2, 1, 2, 1
        M, b, A, W = gen_params(rng, Dy, Dx, Da, Dk, 0.5)
        c = m.hetero(cls, M, b, A, W)
        for (R, N) in [(1, 3), (2, 3)]:
            S, mu = gen_px(rng, R, Dx)
            p = m.pdf(R, Dx, S, mu)
            m.het_log_cond_y(c, p, m.arr(gen.points(rng, N, Dy)))
        return fails
    return Case(label, fn)


def case_tightness(prop, seed, cls, Dy, Dx, Da, Dk, eps_list=None, N=1):
    """gap(eps) = true - bound for input weights eps*w: quadratic decay, zero at zero weights.
    N > 1: N observations paired with N prior components (the documented calling convention); every pair is judged on its own"""
    label = f"hetero/tightness/{cls}/Dy{Dy}Dx{Dx}Da{Da}Dk{Dk}" + (f"/N{N}" if N != 1 else "")

    def fn(m):
        rng = gen.rng_path(seed, label)
        fails = []
        M, b, A, W = gen_params(rng, Dy, Dx, Da, Dk, 1.0)
        S, mu = gen_px(rng, N, Dx, hi=1.5)
        ys = gen.points(rng, N, Dy)
        wood = (WOOD + ":") if Da > Dy else ""
        p = m.pdf(N, Dx, S, mu)
        y = m.arr(ys)
        gaps = {}
        base = dict(Sigma_x=S.tolist(), mu_x=mu.tolist(), y=ys.tolist(), N=N)
        # [hetero-trunc] zero input weights make h degenerate for the step / rectified-linear classes: `case_degenerate`
        default = (1e-1, 1e-2, 1e-3, 0.0) if cls in LINKS else (1e-1, 1e-2, 1e-3)
        for eps in (eps_list or default):
            We = W.copy(); We[:, 1:] *= eps
            ref = HetRef(cls, M, b, A, We)
            c = m.hetero(cls, M, b, A, We)
            r = m.het_log_cond_y(c, p, y)
            if raised(m, r):
                fails.append(failure(prop, f"integrate_log_conditional_y:{cls}", f"raised: {m.impl[-1][1:]}", params=dict(ref.params(), eps=eps, **base)))
                return fails
            lbs = np.asarray(m.regs[r], dtype=float).reshape(-1)
            if lbs.shape != (N,):
                fails.append(failure(prop, f"integrate_log_conditional_y:{cls}", f"{lbs.shape[0]} values for {N} (observation, prior) pairs", params=dict(ref.params(), eps=eps, **base)))
                return fails
            for n in range(N):
                if eps == 0.0:
                    true, qerr = float(homoscedastic_expect(ref, ys[n], mu[n], S[n])), 1e-12
                else:
                    true, qerr = expect_for(ref)(ref, ys[n], mu[n], S[n])
                gaps[(eps, n)] = (true - float(lbs[n]), qerr, ref)
        for n in range(N):
            g0, _, ref0 = gaps.get((0.0, n), (0.0, 0.0, None))
            if not abs(g0) <= 1e-9 * max(1.0, abs(g0 + 1.0)):
                fails.append(failure(prop, f"{wood}integrate_log_conditional_y:zero-weights:{cls}",
                                     "bound differs from the closed-form E[ln p(y|x)] at zero input weights (homoscedastic limit)",
                                     expected=0.0, got=g0, deviation=g0, params=dict(ref0.params(), eps=0.0, pair=n, **base)))
            # "the gap vanishes quadratically as the weights shrink" is an asymptotic statement: gap(eps)/eps^2 stays bounded.
            # The decay ratio gap(eps/10) <= gap(eps)/30 is judged on the FINEST pair of scales that was computed; a coarser
            # pair may fall short of 30 although the gap is O(eps^2), namely when higher-order terms make gap(1e-1) smaller
            # than its quadratic extrapolation (observed on the unchanged tree: ratios 26 and 88, coefficient gap/eps^2 =
            # 0.09, 0.36, 0.41).  A gap that decays more slowly than quadratically (ratio ~10 or ~1) fails on every pair.
            pairs = [eps for eps in (1e-1, 1e-2) if (eps, n) in gaps and (eps / 10, n) in gaps]
            # a gap below 1e-7 cannot be resolved (the property grants 1e-7 absolute error to bound and reference alike; observed
            # on the unchanged tree: gaps of 1.9e-7 and 2.7e-8 at weight scales 1.6e-3 and 1.6e-4): the decay ratio is judged on
            # the finest pair whose smaller gap is still resolvable
            FLOOR = 1e-7
            resolvable = [eps for eps in pairs if np.isnan(gaps[(eps / 10, n)][0]) or gaps[(eps / 10, n)][0] >= FLOOR]
            judge = resolvable[-1] if resolvable else None
            for eps in pairs:
                g, qe, ref = gaps[(eps, n)]
                g10, qe10, _ = gaps[(eps / 10, n)]
                if not (np.isfinite(g) and np.isfinite(g10)):
                    if eps == pairs[-1] or not np.isfinite(g):
                        fails.append(failure(prop, f"{wood}integrate_log_conditional_y:finite:{cls}", "the returned value (or the gap to the true value) is not finite",
                                             expected=0.0, got=[g, g10], deviation=[g, g10],
                                             params=dict(ref.params(), eps=eps, pair=n, gaps={f"{k[0]}/{k[1]}": v[0] for k, v in gaps.items()}, **base)))
                elif g < -(1e-7 + qe) or g10 < -(1e-7 + qe10):
                    fails.append(failure(prop, f"{wood}integrate_log_conditional_y:bound:{cls}", "bound exceeds the true expectation",
                                         expected=0.0, got=[g, g10], deviation=[-g, -g10], params=dict(ref.params(), eps=eps, pair=n, **base)))
                elif eps == judge and not g10 <= g / 30.0 + 10 * (qe + qe10) + 1e-12:
                    fails.append(failure(prop, f"{wood}integrate_log_conditional_y:tightness:{cls}",
                                         "gap to the true value does not decay quadratically: gap(eps/10) > gap(eps)/30 on the finest pair of scales",
                                         expected=g / 30.0, got=g10, deviation=g10 / g if g != 0 else None,
                                         params=dict(ref.params(), eps=eps, pair=n, gaps={f"{k[0]}/{k[1]}": v[0] for k, v in gaps.items()}, **base)))
        m.meta[-1]["gaps"] = {f"{k[0]}/{k[1]}": float(v[0]) for k, v in gaps.items()}
        return fails
    return Case(label, fn)


def case_degenerate(prop, seed, cls, kind, Dy, Dx, Da, Dk):
    """[hetero-trunc] parameters for which the density the step / rectified-linear classes truncate is degenerate,
    while p(y|x) and E[ln p(y|x)] are perfectly regular:
    kind = "zero-weights": all input weights zero (h = w0 has variance 0; homoscedastic p(y|x), closed form);
    kind = "collinear" (Dx = 2, Dk = 1): w parallel to M'a with a = (AA')^{-1} A_k, so that h is an affine function of
    g = a'(y - Mx - b) and the joint density of (g, h) is singular (the Dx == 1 branch of the code is this situation)."""
    label = f"hetero/degenerate/{kind}/{cls}/Dy{Dy}Dx{Dx}Da{Da}Dk{Dk}"

    def fn(m):
        rng = gen.rng_path(seed, label)
        fails = []
        M, b, A, W = gen_params(rng, Dy, Dx, Da, Dk, 1.0)
        S, mu = gen_px(rng, 1, Dx, hi=1.5)
        ys = gen.points(rng, 1, Dy)
        if kind == "zero-weights":
            W[:, 1:] = 0.0
        else:
            # mean and noise both driven by the first input, the second input irrelevant.  Fixed dyadic numbers: the
            # covariance of (g, h) is singular exactly (zero pivot), not up to rounding
            assert (Dy, Dx, Da, Dk) == (1, 2, 1, 1)
            M = np.array([[[1.0, 0.0]]]); b = np.array([[0.25]]); A = np.array([[[1.0]]]); W = np.array([[0.25, 2.0, 0.0]])
            S = np.array([[[1.0, 0.5], [0.5, 2.0]]]); mu = np.array([[0.5, -0.25]]); ys = np.array([[0.75]])
        ref = HetRef(cls, M, b, A, W)
        params = dict(ref.params(), kind=kind, Sigma_x=S.tolist(), mu_x=mu.tolist(), y=ys.tolist())
        c = m.hetero(cls, M, b, A, W)
        p = m.pdf(1, Dx, S, mu)
        if prop == "C16":
            r = m.het_transform("marginal", c, p)
            _, Sy, _ = ref.moments(mu[0], S[0])
            got = None if raised(m, r) else np.asarray(m.regs[r].Sigma, dtype=float)
            if got is None or not np.all(np.isfinite(got)) or rel_err(got[0], Sy) > 1e-8:
                fails.append(failure(prop, f"{DEGEN}:{kind}:affine_marginal_transformation:Sigma:{cls}",
                                     "covariance of the marginal != Cov[y] (regular p(y|x), degenerate density of h)",
                                     expected=Sy.tolist(), got=None if got is None else got.tolist(), params=params))
            return fails
        r = m.het_log_cond_y(c, p, m.arr(ys))
        if kind == "zero-weights":
            true, qerr = float(homoscedastic_expect(ref, ys[0], mu[0], S[0])), 1e-12
        else:
            true, qerr = expect_for(ref)(ref, ys[0], mu[0], S[0])
        lb = None if raised(m, r) else np.asarray(m.regs[r], dtype=float)
        ok = lb is not None and lb.shape == (1,) and np.isfinite(lb[0])
        if ok:
            ok = (abs(lb[0] - true) <= 1e-8 * max(1.0, abs(true)) + 10 * qerr) if (cls == "heaviside" or kind == "zero-weights") \
                else (lb[0] - true <= 1e-7 + qerr)
        if not ok:
            fails.append(failure(prop, f"{DEGEN}:{kind}:integrate_log_conditional_y:{cls}",
                                 "the result is not the (finite, well-defined) E[ln p(y|x)] / a bound of it",
                                 expected=true, got=None if lb is None else lb.tolist(), params=params))
        return fails
    return Case(label, fn)


def c17_trunc_cases(seed, tier):
    """[hetero-trunc] step and rectified-linear links"""
    quick = tier == "quick"
    out = []
    # p(y|x): Da = Dy, and one Da > Dy shape (the shared Woodbury assumption)
    shapes = [(2, 2, 2, 2), (2, 1, 2, 1), (1, 3, 1, 1), (3, 2, 3, 2), (2, 2, 3, 2)]
    if not quick:
        shapes += [(3, 1, 3, 3), (1, 2, 1, 1), (2, 3, 2, 2), (4, 2, 4, 3), (1, 1, 2, 2)]
    for i, (Dy, Dx, Da, Dk) in enumerate(shapes):
        for j, cls in enumerate(TRUNC_LINKS):
            if quick and i in (1, 2, 3) and (i + j) % 2 == 1:
                continue
            out.append(case_condition_on_x("C17", seed, cls, Dy, Dx, Da, Dk, wscale=1.0 if i % 2 == 0 else 0.4))
    for cls in TRUNC_LINKS:
        out.append(case_constructor_refusals("C17", seed, cls))
        out.append(case_calling_convention("C17", seed, cls))
    # step link: value == truth; rectified-linear link: value <= truth.  (Dy, Dx, Da, Dk, R, N, weight scale);
    # Da = Dy and a single-component p(x) in the main cases
    # (every library call of the rectified-linear class re-traces a while_loop / scan: the quick tier keeps few of them)
    lbs = [(1, 1, 1, 1, 1, 1, 1.0), (2, 1, 2, 2, 1, 1, 0.8), (2, 2, 2, 1, 1, 1, 0.7), (2, 2, 2, 2, 1, 1, 0.6)]
    if quick:
        both = [(s_, "heaviside", s_[:4] == (2, 2, 2, 2)) for s_ in lbs]
        both += [((2, 1, 2, 2, 1, 1, 0.8), "relu", "light"), ((2, 2, 2, 1, 1, 1, 0.7), "relu", False)]     # Dx = 1 / Dx > 1 branches
    else:
        both = [(s_, cls, True) for s_ in lbs for cls in TRUNC_LINKS]
    both += [((2, 1, 2, 1, 1, 3, 1.0), "heaviside", False),        # one p(x), three observations (no while_loop in this class)
             ((2, 2, 2, 1, 2, 2, 0.7), "heaviside", False),        # paired batches
             ((1, 1, 2, 1, 1, 1, 1.0), "heaviside", False)]        # Da > Dy
    if not quick:
        both.append(((1, 1, 1, 1, 2, 2, 0.8), "relu", False))
        more = [(2, 3, 2, 2, 1, 1, 0.5), (3, 1, 3, 3, 1, 1, 1.0), (3, 2, 3, 2, 1, 1, 0.6), (1, 3, 1, 1, 1, 1, 0.6),
                (2, 1, 2, 1, 4, 1, 1.0), (2, 2, 2, 2, 2, 2, 0.5), (1, 2, 1, 1, 3, 3, 0.9), (2, 1, 2, 2, 2, 2, 1.5),
                (2, 1, 2, 2, 3, 3, 0.8), (2, 2, 3, 2, 1, 1, 0.6), (1, 1, 3, 1, 1, 1, 1.0), (2, 1, 3, 1, 2, 2, 0.8),
                (2, 1, 3, 2, 1, 1, 1.0)]
        both = [(s_, cls, True) for (s_, cls, _) in both]
        both += [(s_, cls, True) for s_ in more for cls in TRUNC_LINKS]
        both += [((2, 2, 2, 2, 1, 3, 0.7), "heaviside", True), ((1, 1, 1, 1, 1, 4, 1.0), "heaviside", True)]
    for ((Dy, Dx, Da, Dk, R, N, ws), cls, internals) in both:
        # (quick tier: the quadratic half of the rectified-linear bound is one more trace of the while_loop; it is compared
        # in the case with the internals and through the sum everywhere)
        out.append(case_lower_bound("C17", seed, cls, Dy, Dx, Da, Dk, R, N, wscale=ws, internals=internals,
                                    halves=not (quick and cls == "relu" and not internals)))
    # rectified-linear link: the gap closes quadratically with the input weights
    tight = [(1, 1, 1, 1)] + ([] if quick else [(2, 1, 2, 2), (2, 2, 2, 1)])
    for (Dy, Dx, Da, Dk) in tight:
        out.append(case_tightness("C17", seed, "relu", Dy, Dx, Da, Dk, eps_list=(1e-2, 1e-3) if quick else None))
    # regular p(y|x), degenerate density of h / of (g, h)
    for cls in TRUNC_LINKS:
        if not quick or cls == "heaviside":       # (quick tier: the rectified-linear class through C16 only)
            out.append(case_degenerate("C17", seed, cls, "zero-weights", 1, 1, 1, 1))
            out.append(case_degenerate("C17", seed, cls, "collinear", 1, 2, 1, 1))
        if not quick:
            out.append(case_degenerate("C17", seed, cls, "zero-weights", 2, 2, 2, 1))
    return out


def c17_cases(seed, tier):
    quick = tier == "quick"
    out = []
    # --- p(y|x): every constructor-accepted shape family (Da = Dy and Da > Dy; Dk <= Da; Dx in 1..3)
    shapes = [(2, 2, 2, 2), (2, 1, 2, 1), (1, 3, 1, 1), (3, 2, 3, 2), (2, 2, 3, 2), (1, 1, 2, 2), (2, 3, 4, 3), (3, 1, 3, 3)]
    if not quick:
        shapes += [(1, 2, 1, 1), (3, 3, 3, 1), (2, 2, 4, 4), (1, 3, 3, 2), (4, 2, 4, 3), (3, 2, 4, 1)]
    for i, (Dy, Dx, Da, Dk) in enumerate(shapes):
        for j, cls in enumerate(LINKS):
            if quick and (i + j) % 2 == 1 and i >= 4:
                continue
            out.append(case_condition_on_x("C17", seed, cls, Dy, Dx, Da, Dk, wscale=1.0 if i % 2 == 0 else 0.4))
    for cls in LINKS:
        out.append(case_constructor_refusals("C17", seed, cls))
        out.append(case_calling_convention("C17", seed, cls))
    # --- lower bound <= truth: (Dy, Dx, Da, Dk, R, N, weight scale)
    lbs = [(1, 1, 1, 1, 1, 1, 1.0), (2, 1, 2, 2, 3, 3, 0.8), (2, 2, 2, 1, 1, 1, 0.7), (2, 2, 2, 2, 2, 2, 0.5),
           (2, 1, 3, 2, 1, 1, 1.0), (1, 2, 2, 1, 2, 2, 0.7)]
    if quick:
        lbs_cls = [(s, cls) for i, s in enumerate(lbs) for j, cls in enumerate(LINKS) if i < 2 or (i + j) % 2 == 0]
        lbs_cls.append(((2, 3, 2, 2, 1, 1, 0.5), "exp"))
    else:
        lbs += [(2, 3, 2, 2, 1, 1, 0.5), (3, 1, 3, 3, 1, 1, 1.0), (3, 2, 3, 2, 1, 1, 0.6), (2, 1, 2, 1, 4, 1, 1.0),
                (1, 3, 1, 1, 2, 2, 0.4), (2, 2, 4, 3, 1, 1, 0.6), (3, 1, 4, 2, 2, 2, 0.9), (1, 1, 3, 1, 1, 1, 1.0)]
        lbs_cls = [(s, cls) for s in lbs for cls in LINKS]
    for k, ((Dy, Dx, Da, Dk, R, N, ws), cls) in enumerate(lbs_cls):
        out.append(case_lower_bound("C17", seed, cls, Dy, Dx, Da, Dk, R, N, wscale=ws, internals=(not quick) or k % 2 == 0))
    # --- tightness in the homoscedastic limit
    tight = [(1, 1, 1, 1), (2, 1, 2, 2)] + ([] if quick else [(2, 2, 2, 1), (3, 1, 3, 2), (2, 1, 2, 1)])
    for (Dy, Dx, Da, Dk) in tight:
        for cls in LINKS:
            out.append(case_tightness("C17", seed, cls, Dy, Dx, Da, Dk))
    out.append(case_tightness("C17", seed, "exp", 1, 1, 2, 1))      # Da > Dy: the shared Woodbury assumption
    # N observations paired with N prior components: each pair on its own (tight at zero weights, quadratic decay)
    out.append(case_tightness("C17", seed, "exp", 2, 1, 2, 2, eps_list=(1e-1, 1e-2, 1e-3, 0.0), N=3))
    out.append(case_tightness("C17", seed, "coshm1", 1, 1, 1, 1, eps_list=(1e-1, 1e-2, 1e-3, 0.0), N=2))
    if not quick:
        out.append(case_tightness("C17", seed, "coshm1", 2, 1, 3, 2))
    out.extend(c17_trunc_cases(seed, tier))      # [hetero-trunc]
    return seeded(out, seed)


# ----------------------------------------------------------------------------------------------
# C16 (heteroscedastic clause): moment matching is exact

def case_moments(prop, seed, cls, Dy, Dx, Da, Dk, R=1, wscale=0.8):
    label = f"hetero/moments/{cls}/Dy{Dy}Dx{Dx}Da{Da}Dk{Dk}/R{R}/w{wscale}"
    batched = (R != 1)
    tag = ""      # (was the known-finding tag `hetero-batched-px`; repaired in /repo a0dce47, failures are violations again)

    def fn(m):
        rng = gen.rng_path(seed, label)
        fails = []
        M, b, A, W = gen_params(rng, Dy, Dx, Da, Dk, wscale)
        ref = HetRef(cls, M, b, A, W)
        S, mu = gen_px(rng, R, Dx)
        params = dict(ref.params(), R=R, Sigma_x=S.tolist(), mu_x=mu.tolist())
        c = m.hetero(cls, M, b, A, W)
        p = m.pdf(R, Dx, S, mu)
        mom = [ref.moments(mu[r], S[r]) for r in range(R)]
        mu_y = np.stack([q[0] for q in mom]); Sy = np.stack([q[1] for q in mom]); Cyx = np.stack([q[2] for q in mom])
        # expected noise diagonal (closed-form Gaussian integrals) and expected covariance
        r_ = m.het_noise_diag(c, p)
        if not raised(m, r_):
            got_d = np.asarray(m.regs[r_]); exp_d = np.stack([ref.expected_link(mu[r], S[r]) for r in range(R)])
            if got_d.size != R * Dk:
                fails.append(failure(prop, f"{tag}_integrate_noise_diagonal:{cls}", f"E[link(h_k)]: {got_d.size} values for the R*Dk = {R * Dk} (component, unit) pairs",
                                     expected=exp_d.tolist(), got=got_d.tolist(), params=params))
            else:
                fail_if(fails, prop, f"_integrate_noise_diagonal:{cls}", "E[link(h_k)] differs from the closed form",
                        got_d.reshape(R, Dk), exp_d, params=params)
        if cls in TRUNC_LINKS and Dx == 1 and not batched:      # [hetero-trunc] closed form vs quadrature split at the kink
            ql, qe = ref.expected_link_quad(mu[0], S[0])
            if np.max(np.abs(ql - ref.expected_link(mu[0], S[0]))) > 1e-10 + qe:
                fails.append(failure(prop, f"oracle-consistency:{cls}", "truncated-Gaussian closed form and piecewise quadrature of E[link(h)] disagree",
                                     expected=ref.expected_link(mu[0], S[0]).tolist(), got=ql.tolist(), params=params))
        m.het_integrate_sigma_x(c, p)
        for which in (0, 1):
            m.het_expected_moments(c, p, which)
        r_ = m.het_expected_cross(c, p)
        if not raised(m, r_):
            Eyx = Cyx + np.einsum("ri,rj->rij", mu_y, mu)
            fail_if(fails, prop, f"get_expected_cross_terms:{cls}", "E[y x'] differs", np.asarray(m.regs[r_]), Eyx, params=params)
        # own-quadrature of what the object returns when conditioned on x (Dx <= 2, R = 1)
        # ([hetero-trunc] links with a kink: Dx = 1 only, on panels split at the kinks)
        if (Dx <= 2 if cls in LINKS else Dx == 1) and not batched:
            X, w = gh_nodes(40 if Dx == 1 else 24, mu[0], S[0]) if cls in LINKS else pw_nodes_1d(ref, mu[0], S[0])
            q = m.het_condition_on_x(c, m.arr(X))
            if not raised(m, q):
                Q = m.regs[q]
                mq = np.asarray(Q.mu); Sq = np.asarray(Q.Sigma)
                mu_q = w @ mq
                d = mq - mu_q[None]
                Sy_q = np.einsum("n,nij->ij", w, Sq) + np.einsum("n,ni,nj->ij", w, d, d)
                Cyx_q = np.einsum("n,ni,nj->ij", w, d, X - mu[0][None])
                for name, a_, b_ in (("mean", mu_q, mu_y[0]), ("covariance", Sy_q, Sy[0]), ("cross-covariance", Cyx_q, Cyx[0])):
                    if rel_err(a_, b_) > 1e-9:
                        fails.append(failure(prop, f"oracle-consistency:{cls}", f"quadrature moments of condition_on_x and the closed form disagree on the {name}",
                                             expected=np.asarray(b_).tolist(), got=np.asarray(a_).tolist(), params=params))
        mr = m.het_transform("marginal", c, p)
        if raised(m, mr):
            fails.append(failure(prop, f"{tag}affine_marginal_transformation:{cls}", f"raised: {m.impl[-1][1:]}", params=params))
        else:
            P = m.regs[mr]
            fail_if(fails, prop, f"{tag}affine_marginal_transformation:mu:{cls}", "mean of the marginal != E[y]", np.asarray(P.mu), mu_y, params=params)
            fail_if(fails, prop, f"{tag}affine_marginal_transformation:Sigma:{cls}", "covariance of the marginal != Cov[y]", np.asarray(P.Sigma), Sy, params=params)
        jr = m.het_transform("joint", c, p)
        if raised(m, jr):
            fails.append(failure(prop, f"{tag}affine_joint_transformation:{cls}", f"raised: {m.impl[-1][1:]}", params=params))
        else:
            J = m.regs[jr]
            mu_j = np.concatenate([mu, mu_y], axis=1)
            S_j = np.stack([np.block([[S[r], Cyx[r].T], [Cyx[r], Sy[r]]]) for r in range(R)])
            fail_if(fails, prop, f"{tag}affine_joint_transformation:mu:{cls}", "mean of the joint != (E[x], E[y])", np.asarray(J.mu), mu_j, params=params)
            fail_if(fails, prop, f"{tag}affine_joint_transformation:Sigma:{cls}", "covariance of the joint != exact second moments of (x, y)", np.asarray(J.Sigma), S_j, params=params)
            fail_if(fails, prop, f"{tag}affine_joint_transformation:Lambda:{cls}", "Lambda of the joint is not the inverse of its Sigma", np.asarray(J.Lambda), np.linalg.inv(np.asarray(J.Sigma, dtype=float)), params=params, tol=1e-7)
        cr = m.het_transform("conditional", c, p)
        if raised(m, cr):
            fails.append(failure(prop, f"{tag}affine_conditional_transformation:{cls}", f"raised: {m.impl[-1][1:]}", params=params))
        else:
            C = m.regs[cr]
            Mc = np.stack([Cyx[r].T @ np.linalg.inv(Sy[r]) for r in range(R)])
            bc = np.stack([mu[r] - Mc[r] @ mu_y[r] for r in range(R)])
            Sc = np.stack([S[r] - Mc[r] @ Cyx[r] for r in range(R)])
            fail_if(fails, prop, f"{tag}affine_conditional_transformation:M:{cls}", "p(x|y) of the matched joint: M differs", np.asarray(C.M), Mc, params=params, tol=1e-7)
            fail_if(fails, prop, f"{tag}affine_conditional_transformation:b:{cls}", "p(x|y) of the matched joint: b differs", np.asarray(C.b), bc, params=params, tol=1e-7)
            fail_if(fails, prop, f"{tag}affine_conditional_transformation:Sigma:{cls}", "p(x|y) of the matched joint: Sigma differs", np.asarray(C.Sigma), Sc, params=params, tol=1e-7)
        return fails
    return Case(label, fn)


def c16_hetero_cases(seed, tier):
    quick = tier == "quick"
    shapes = [(2, 2, 2, 2), (1, 1, 1, 1), (2, 1, 3, 2), (3, 2, 3, 1), (2, 3, 2, 2), (1, 2, 2, 2)]
    if not quick:
        shapes += [(3, 3, 4, 3), (2, 2, 4, 4), (1, 3, 1, 1), (3, 1, 3, 3), (4, 2, 4, 2)]
    out = []
    for i, (Dy, Dx, Da, Dk) in enumerate(shapes):
        for cls in LINKS:
            out.append(case_moments("C16", seed, cls, Dy, Dx, Da, Dk, wscale=1.0 if i % 2 == 0 else 0.5))
    # [hetero-trunc] step / rectified-linear links (Dx = 1: piecewise quadrature of condition_on_x as well)
    tshapes = [(1, 1, 1, 1), (2, 1, 2, 2), (2, 2, 2, 2), (3, 2, 3, 1), (2, 1, 3, 2)]
    if not quick:
        tshapes += [(2, 3, 2, 2), (3, 1, 3, 3), (1, 2, 2, 2), (3, 3, 4, 3), (1, 3, 1, 1), (4, 2, 4, 2)]
    for i, (Dy, Dx, Da, Dk) in enumerate(tshapes):
        for cls in TRUNC_LINKS:
            out.append(case_moments("C16", seed, cls, Dy, Dx, Da, Dk, wscale=1.0 if i % 2 == 0 else 0.5))
    for cls in TRUNC_LINKS:
        out.append(case_degenerate("C16", seed, cls, "zero-weights", 1, 1, 1, 1))
    return out


def c12_hetero_cases(seed, tier):
    """p(x) with several components: every component must get its own moments (property C12: batches are
    independent components).  The pinned code summed the expected noise over the components (Dk = 1) or raised
    (Dk > 1) — repaired in /repo a0dce47 (`fixed:` entry in known_findings.json)."""
    out = []
    for cls in LINKS:
        out.append(case_moments("C12", seed, cls, 2, 2, 2, 1, R=2))
        out.append(case_moments("C12", seed, cls, 2, 2, 2, 2, R=2))
    # [hetero-trunc] step / rectified-linear classes (the pinned code used component 0 of p(x) for every component)
    for cls in TRUNC_LINKS:
        out.append(case_moments("C12", seed, cls, 2, 2, 2, 2, R=2))
    return out


def replay_woodbury():
    """recorded input of known finding `hetero-woodbury-Da>Dy` (Exp link, Dy = 1, Da = 2)"""
    import jax.numpy as jnp
    from gaussian_toolbox import approximate_conditional as ac
    c = ac.HeteroscedasticExpConditional(M=jnp.array([[[1.0]]]), b=jnp.array([[0.0]]), A=jnp.array([[[1.0, 1.0]]]),
                                          W=jnp.array([[0.0, 0.0]]))
    d = c.condition_on_x(jnp.array([[0.0]]))
    S = float(np.asarray(d.Sigma)[0, 0, 0]); L = float(np.asarray(d.Lambda)[0, 0, 0]); ld = float(np.asarray(d.ln_det_Sigma)[0])
    return abs(S - 3.0) < 1e-9 and abs(L - 0.375) < 1e-9 and abs(L - 1.0 / S) > 1e-3 and abs(ld - np.log(S)) > 1e-3


def replay_batched_px():
    """recorded input of known finding `hetero-batched-px` (two prior components, one noise unit)"""
    import jax.numpy as jnp
    from gaussian_toolbox import approximate_conditional as ac, pdf
    c = ac.HeteroscedasticExpConditional(M=jnp.array([[[1.0]]]), b=jnp.array([[0.0]]), A=jnp.array([[[1.0]]]),
                                          W=jnp.array([[0.0, 1.0]]))
    p = pdf.GaussianPDF(Sigma=jnp.ones((2, 1, 1)), mu=jnp.array([[0.0], [1.0]]))
    try:
        S = np.asarray(c.affine_marginal_transformation(p).Sigma).reshape(-1)
    except Exception:
        return True
    # exact: Var[y] = 1 (x) + 1 (AA') + E[exp(x)] with x ~ N(mu, 1): differs per component
    exact = np.array([2.0 + np.exp(0.5), 2.0 + np.exp(1.5)])
    return bool(np.max(np.abs(S - exact)) > 1e-3)


def replay_trunc_far_tail():
    """recorded input of known finding `hetero-trunc-far-tail` (the instance generated at VERIF_SEED = 11): rectified-linear
    unit with offset -0.35 and input weight -0.013: h >= 0 lies ~33 standard deviations of h above its mean; E[ln p(y|x)] is
    an ordinary number (the unit is switched off), the bound is NaN"""
    import jax.numpy as jnp
    from gaussian_toolbox import approximate_conditional as ac, pdf
    J = jnp.asarray
    c = ac.HeteroscedasticReLUConditional(M=J([[[1.674240068669946]]]), b=J([[0.6082512230436107]]), A=J([[[-1.0866229700934324]]]),
                                          W=J([[-0.35205453374754403, -0.01281605681404392]]))
    p = pdf.GaussianPDF(Sigma=J([[[0.7013700913099427]]]), mu=J([[0.6889949767547318]]))
    v = np.asarray(c.integrate_log_conditional_y(p, y=J([[0.3990203588219495]])))
    return bool(not np.all(np.isfinite(v)))


def replay_trunc_degenerate():
    """[hetero-trunc] minimal inputs of the finding `hetero-trunc-degenerate`: zero input weights (both classes) and,
    for Dx = 2, w parallel to M'a (mean and noise driven by the same input); the exact values are finite"""
    import jax.numpy as jnp
    from gaussian_toolbox import approximate_conditional as ac, pdf
    J = jnp.asarray
    bad = []
    for K in (ac.HeteroscedasticHeavisideConditional, ac.HeteroscedasticReLUConditional):
        c = K(M=J([[[1.0]]]), b=J([[0.0]]), A=J([[[1.0]]]), W=J([[0.5, 0.0]]))
        p = pdf.GaussianPDF(Sigma=J([[[1.0]]]), mu=J([[0.0]]))
        bad.append(not np.isfinite(np.asarray(c.integrate_log_conditional_y(p, J([[0.3]])))[0]))
        bad.append(not np.all(np.isfinite(np.asarray(c.affine_marginal_transformation(p).Sigma))))
        c = K(M=J([[[1.0, 0.0]]]), b=J([[0.25]]), A=J([[[1.0]]]), W=J([[0.25, 2.0, 0.0]]))
        p = pdf.GaussianPDF(Sigma=J([[[1.0, 0.5], [0.5, 2.0]]]), mu=J([[0.5, -0.25]]))
        bad.append(not np.isfinite(np.asarray(c.integrate_log_conditional_y(p, J([[0.75]])))[0]))
    return all(bad)
