"""C18 — JAX transformations and round trips preserve values (partial, see DESIGN.md §5 C18).

What runs here: (1) the class table is regenerated from /repo's source and the `decide` theorems
over it are rebuilt (NEEDS_CLASS_TABLE); (2) eager programs on the Machine (implementation vs Lean
model); (3) the same pipelines on the implementation under jit / vmap / scan / grad and pytree,
to_dict round trips, compared with the eager implementation (which (2) ties to the model)."""
import numpy as np
import jax
import jax.numpy as jnp
from .condfam import *
from gaussian_toolbox import factor as gt_factor, measure as gt_measure, pdf as gt_pdf, conditional as gt_cond

PROPERTY = "C18"
LEAN_MODULES = ["GT.Props.C18", "GT.Props.C18Approx"]
NEEDS_CLASS_TABLE = True
ASSUMPTIONS = ["jit / vmap / grad are modelled as semantically transparent; their agreement with the real tracer is validated by "
               "running the pipelines, not proved", "gradients compared with central differences (h = 1e-5, rel. tol 1e-5)"]


def obj_fields(o):
    d = dump_obj(o)
    return d["fields"]


def same_function(fails, site, a, b, x, params, tol=1e-8):
    """two factor-like objects evaluate to the same function at the points x"""
    try:
        ea = np.asarray(a.evaluate_ln(x)); eb = np.asarray(b.evaluate_ln(x))
    except Exception as e:
        fails.append(failure(PROPERTY, site, f"evaluation raised after the round trip: {type(e).__name__}: {str(e)[:120]}", params=params)); return
    fail_if(fails, PROPERTY, site, "object does not evaluate to the same function after the transformation boundary", ea, eb, tol=tol, params=params)
    # measure-like objects: everything derived from the function (mass, mean) must agree as well, whatever caches travelled along
    if hasattr(a, "log_integral") and hasattr(b, "log_integral"):
        try:
            la = np.asarray(a.log_integral()); lb = np.asarray(b.log_integral())
            ma = np.asarray(a.integrate("x")); mb = np.asarray(b.integrate("x"))
        except Exception as e:
            fails.append(failure(PROPERTY, site, f"integration raised after the round trip: {type(e).__name__}: {str(e)[:120]}", params=params)); return
        fail_if(fails, PROPERTY, site + ":log_integral", "mass differs after the transformation boundary", la, lb, tol=tol, params=params)
        fail_if(fails, PROPERTY, site + ":integrate_x", "first moment differs after the transformation boundary", ma, mb, tol=tol, params=params)


def build_objects(m, rng, R, D):
    """one instance of every factor / measure / density / conditional class, as (name, register, is_factor_like)"""
    objs = []
    for kind in ("general", "onerank", "linear", "constant", "measure", "diagmeasure", "pdf", "diagpdf"):
        o = mk_factor(m, rng, kind, R, D)
        objs.append((kind, o.reg, True))
    Dy = max(1, D - 1)
    for cls in ("full", "diag"):
        c = mk_cond(m, rng, cls, R, Dy, D)
        objs.append(("cond-" + cls, c.reg, False))
    for cls in ("identity", "identitydiag"):
        c = mk_cond(m, rng, cls, R, D, D)
        objs.append(("cond-" + cls, c.reg, False))
    return objs


def case_roundtrips(R, D, populate):
    label = f"roundtrips/R{R}/D{D}/caches{int(populate)}"
    def fn(m):
        rng = gen.rng_path(m.seed, label)
        fails = []
        x = jnp.asarray(gen.points(rng, 3, D))
        params = dict(R=R, D=D, populate=populate)
        for name, reg, factor_like in build_objects(m, rng, R, D):
            o = m.regs[reg]
            if populate and hasattr(o, "integrate") and name not in ("general", "onerank", "linear", "constant"):
                m.query("integral", reg)
            site = f"pytree:{name}"
            # tree flatten / unflatten
            try:
                leaves, treedef = jax.tree_util.tree_flatten(o)
                o2 = jax.tree_util.tree_unflatten(treedef, leaves)
            except Exception as e:
                fails.append(failure(PROPERTY, site, f"tree_flatten/unflatten raised: {type(e).__name__}: {str(e)[:160]}", params=params)); continue
            # jit argument and jit result
            try:
                o3 = jax.jit(lambda z: z)(o)
            except Exception as e:
                fails.append(failure(PROPERTY, f"jit-identity:{name}", f"passing the object through jit raised: {type(e).__name__}: {str(e)[:160]}", params=params)); o3 = None
            for tag, oo in (("unflatten", o2), ("jit", o3)):
                if oo is None:
                    continue
                if type(oo) is not type(o):
                    fails.append(failure(PROPERTY, site, f"{tag}: class changed {type(o).__name__} -> {type(oo).__name__}", params=params)); continue
                if factor_like:
                    same_function(fails, f"{tag}:{name}", oo, o, x, params)
                else:
                    xs = x[:, :o.Dx]
                    same_function(fails, f"{tag}:{name}", oo.condition_on_x(xs), o.condition_on_x(xs), x[:, :o.Dy], params)
            # pickle (the classes patch __getstate__/__setstate__ and register the pytree lazily on unpickling) and deepcopy
            try:
                import pickle, copy
                for how, oc in (("pickle", pickle.loads(pickle.dumps(o))), ("deepcopy", copy.deepcopy(o))):
                    if factor_like:
                        same_function(fails, f"{how}:{name}", oc, o, x, params)
                        ev_j = jax.jit(lambda z, xx: z.evaluate_ln(xx))(oc, x)
                        fail_if(fails, PROPERTY, f"{how}:{name}:jit-arg", "the copied object as a jit argument evaluates differently", np.asarray(ev_j), np.asarray(o.evaluate_ln(x)), params=params)
                    else:
                        xs = x[:, :o.Dx]
                        same_function(fails, f"{how}:{name}", oc.condition_on_x(xs), o.condition_on_x(xs), x[:, :o.Dy], params)
            except Exception as e:
                fails.append(failure(PROPERTY, f"pickle:{name}", f"pickle / deepcopy round trip raised: {type(e).__name__}: {str(e)[:160]}", params=params))
            # to_dict / from_dict; the rebuilt object is a first-class object again (jit argument, jit result)
            if hasattr(o, "to_dict"):
                try:
                    o4 = type(o).from_dict(o.to_dict())
                    same_function(fails, f"from_dict:{name}", o4, o, x, params)
                except Exception as e:
                    fails.append(failure(PROPERTY, f"from_dict:{name}", f"from_dict(to_dict()) raised: {type(e).__name__}: {str(e)[:160]}", params=params)); o4 = None
                if o4 is not None:
                    try:
                        ev_j = jax.jit(lambda z, xx: z.evaluate_ln(xx))(o4, x)
                        fail_if(fails, PROPERTY, f"from_dict:{name}:jit-arg", "rebuilt object as a jit argument evaluates differently", np.asarray(ev_j), np.asarray(o.evaluate_ln(x)), params=params)
                        same_function(fails, f"from_dict:{name}:jit-result", jax.jit(lambda z: z)(o4), o, x, params)
                    except Exception as e:
                        fails.append(failure(PROPERTY, f"from_dict:{name}:jit", f"the object rebuilt by from_dict cannot pass a jit boundary: {type(e).__name__}: {str(e)[:160]}", params=params))
            # .replace(field=value): every other constructor argument is kept
            try:
                d = 0.37
                if name in ("general", "onerank", "linear", "constant", "measure", "diagmeasure"):
                    o5 = o.replace(ln_beta=o.ln_beta + d)
                    fail_if(fails, PROPERTY, f"replace:{name}", "replace(ln_beta=ln_beta+d) does not evaluate to the old function + d (another argument was lost or changed)",
                            np.asarray(o5.evaluate_ln(x)), np.asarray(o.evaluate_ln(x)) + d, params=params)
                elif name in ("pdf", "diagpdf"):
                    o5 = o.replace(mu=o.mu + d)
                    fail_if(fails, PROPERTY, f"replace:{name}", "replace(mu=mu+d) is not the shifted density", np.asarray(o5.evaluate_ln(x + d)), np.asarray(o.evaluate_ln(x)), params=params)
                elif name in ("cond-full", "cond-diag"):
                    o5 = o.replace(M=o.M * 1.0)
                    xs = x[:, :o.Dx]
                    same_function(fails, f"replace:{name}", o5.condition_on_x(xs), o.condition_on_x(xs), x[:, :o.Dy], params)
            except Exception as e:
                fails.append(failure(PROPERTY, f"replace:{name}", f".replace raised: {type(e).__name__}: {str(e)[:160]}", params=params))
        return fails
    return Case(label, fn)


def case_roundtrips_approx(Dy, Dx, Dk):
    """approximate conditionals through flatten/unflatten and jit (their conditional mean and the
    moment-matched marginal must be unchanged)"""
    label = f"roundtrips-approx/Dy{Dy}Dx{Dx}Dk{Dk}"
    def fn(m):
        rng = gen.rng_path(m.seed, label)
        fails = []
        params = dict(Dy=Dy, Dx=Dx, Dk=Dk)
        S = gen.pd_batch(rng, 1, Dy)
        M = rng.standard_normal((1, Dy, Dx + Dk)); b = rng.standard_normal((1, Dy))
        regs = []
        if hasattr(m, "feat_rbf"):
            regs.append(("LRBF", m.feat_rbf(M, b, rng.standard_normal((Dk, Dx)), rng.uniform(0.7, 1.5, (Dk, Dx)), Sigma=S)))
            regs.append(("LSEM", m.feat_lsem(M, b, rng.standard_normal((Dk, Dx + 1)), Sigma=S)))
        if hasattr(m, "hetero"):
            A = rng.standard_normal((1, Dy, Dy)) + 2 * np.eye(Dy)[None]
            for cls in ("exp", "coshm1"):
                try:
                    regs.append(("Hetero-" + cls, m.hetero(cls, rng.standard_normal((1, Dy, Dx)), b, A, 0.5 * rng.standard_normal((min(Dk, Dy), Dx + 1)))))
                except Exception:
                    pass
        p = mk_pdf(m, rng, 1, Dx)
        x = jnp.asarray(gen.points(rng, 3, Dx))
        for name, reg in regs:
            o = m.regs.get(reg)
            if o is None:
                continue
            try:
                leaves, td = jax.tree_util.tree_flatten(o)
                o2 = jax.tree_util.tree_unflatten(td, leaves)
                o3 = jax.jit(lambda z: z)(o)
            except Exception as e:
                fails.append(failure(PROPERTY, f"pytree:{name}", f"flatten/unflatten/jit raised: {type(e).__name__}: {str(e)[:160]}", params=params)); continue
            for tag, oo in (("unflatten", o2), ("jit", o3)):
                try:
                    fail_if(fails, PROPERTY, f"{tag}:{name}", "conditional mean changed after the transformation boundary",
                            np.asarray(oo.get_conditional_mu(x)), np.asarray(o.get_conditional_mu(x)), params=params)
                    a = oo.affine_marginal_transformation(m.regs[p.reg]); bb = o.affine_marginal_transformation(m.regs[p.reg])
                    fail_if(fails, PROPERTY, f"{tag}:{name}:marginal", "moment-matched marginal changed after the transformation boundary",
                            np.asarray(a.Sigma), np.asarray(bb.Sigma), params=params)
                except Exception as e:
                    fails.append(failure(PROPERTY, f"{tag}:{name}", f"raised after the round trip: {type(e).__name__}: {str(e)[:160]}", params=params))
            try:
                jm = jax.jit(lambda oo, xx: oo.get_conditional_mu(xx))(o, x)
                fail_if(fails, PROPERTY, f"jit-arg:{name}", "jit result differs from eager", np.asarray(jm), np.asarray(o.get_conditional_mu(x)), params=params)
            except Exception as e:
                fails.append(failure(PROPERTY, f"jit-arg:{name}", f"raised under jit: {type(e).__name__}: {str(e)[:160]}", params=params))
        return fails
    return Case(label, fn)


def case_pipelines(R, D, sub):
    """pipelines run eagerly on the Machine (model tie) and on the implementation eager vs jit / vmap"""
    label = f"pipelines/R{R}/D{D}/{sub}"
    def fn(m):
        rng = gen.rng_path(m.seed, label)
        fails = []
        params = dict(R=R, D=D)
        u = mk_measure(m, rng, R, D); f = mk_factor(m, rng, "onerank", 1, D); g = mk_factor(m, rng, "general", R, D)
        p = mk_pdf(m, rng, R, D); c = mk_cond(m, rng, "full", 1, max(1, D - 1), D)
        x = gen.points(rng, 4, D); xr = m.arr(x)
        # eager programs through the Machine: the model is compared on exactly these operations
        r1 = m.hadamard(u.reg, f.reg, True); m.evalln(r1, xr); m.query("log_integral", r1); m.integrate(r1, "x")
        r2 = m.multiply(u.reg, g.reg, False); m.query("log_integral", r2)
        j = m.transform("joint", c.reg, p.reg); m.evalln(j, m.arr(gen.points(rng, 2, D + c.Dy)))
        mg = m.transform("marginal", c.reg, p.reg); m.entropy(mg)
        U, F, G, P, C = (m.regs[k] for k in (u.reg, f.reg, g.reg, p.reg, c.reg))
        X = jnp.asarray(x)
        pipes = {
            "hadamard+evaluate": (lambda U, F, X: U.hadamard(F, update_full=True).evaluate_ln(X), (U, F, X)),
            "hadamard+log_integral": (lambda U, F: U.hadamard(F, update_full=True).log_integral(), (U, F)),
            "multiply+integrate_x": (lambda U, G: U.multiply(G).integrate("x"), (U, G)),
            "multiply+quartic": (lambda U, G, X: U.multiply(G).integrate("(Ax+a)'(Bx+b)(Cx+c)'(Dx+d)", A_mat=X[:2], B_mat=X[:2], C_mat=X[2:], D_mat=X[2:]), (U, G, X)),
            "joint+evaluate": (lambda C, P, X: C.affine_joint_transformation(P).get_marginal(jnp.arange(D)).evaluate_ln(X), (C, P, X)),
            "marginal+entropy": (lambda C, P: C.affine_marginal_transformation(P).entropy(), (C, P)),
            "posterior": (lambda C, P, X: C.affine_conditional_transformation(P).condition_on_x(X[:1, :C.Dy]).mu, (C, P, X)),
            "kl": (lambda P, U: P.kl_divergence(U.get_density()), (P, U)),
            "return-object": (lambda C, P: C.affine_marginal_transformation(P), (C, P)),
        }
        for name, (fun, args) in pipes.items():
            try:
                eager = fun(*args)
            except Exception as e:
                fails.append(failure(PROPERTY, f"eager:{name}", f"eager pipeline raised: {type(e).__name__}: {str(e)[:160]}", params=params)); continue
            try:
                jitted = jax.jit(fun)(*args)
            except Exception as e:
                fails.append(failure(PROPERTY, f"jit:{name}", f"pipeline raised under jit: {type(e).__name__}: {str(e)[:160]}", params=params)); continue
            if hasattr(eager, "evaluate_ln"):
                pts = jnp.asarray(gen.points(rng, 3, eager.D))
                same_function(fails, f"jit:{name}", jitted, eager, pts, params)
            else:
                fail_if(fails, PROPERTY, f"jit:{name}", "jit result differs from the eager result", np.asarray(jitted), np.asarray(eager), params=params)
        # vmap over the data axis
        try:
            v = jax.vmap(lambda xi: P.evaluate_ln(xi[None])[:, 0])(X)          # [N, R]
            fail_if(fails, PROPERTY, "vmap:evaluate_ln", "vmap over points differs from the batched evaluation", np.asarray(v).T, np.asarray(P.evaluate_ln(X)), params=params)
            v2 = jax.vmap(lambda xi: C.condition_on_x(xi[None]).mu[0])(X)
            fail_if(fails, PROPERTY, "vmap:condition_on_x", "vmap over points differs", np.asarray(v2), np.asarray(C.condition_on_x(X).mu), params=params)
            v3 = jax.vmap(lambda yi: C.set_y(yi[None]).nu[0])(X[:, :C.Dy])
            fail_if(fails, PROPERTY, "vmap:set_y", "vmap over observations differs", np.asarray(v3), np.asarray(C.set_y(X[:, :C.Dy]).nu), params=params)
        except Exception as e:
            fails.append(failure(PROPERTY, "vmap", f"vmap raised: {type(e).__name__}: {str(e)[:160]}", params=params))
        return fails
    return Case(label, fn)


def case_scan(T, Dz, Dy):
    label = f"scan-kalman/T{T}/Dz{Dz}/Dy{Dy}"
    def fn(m):
        rng = gen.rng_path(m.seed, label)
        fails = []
        params = dict(T=T, Dz=Dz, Dy=Dy)
        A = gen.orth(rng, Dz) * 0.9; b = 0.2 * rng.standard_normal(Dz); Q = gen.pd(rng, Dz, 0.2, 1.0)
        Cm = rng.standard_normal((Dy, Dz)); d = rng.standard_normal(Dy); Rn = gen.pd(rng, Dy, 0.2, 1.0)
        p0 = mk_pdf(m, rng, 1, Dz)
        ys = gen.points(rng, T, Dy)
        state = m.cond(1, Dz, Dz, A[None], b[None], Sigma=Q[None]); obs = m.cond(1, Dy, Dz, Cm[None], d[None], Sigma=Rn[None])
        # eager through the Machine (model tie)
        filt = p0.reg
        for t in range(T):
            pred = m.transform("marginal", state, filt)
            post = m.transform("conditional", obs, pred)
            filt = m.condition_on_x(post, m.arr(ys[t:t + 1]))
        S, O, P0 = m.regs[state], m.regs[obs], m.regs[p0.reg]
        def step(carry, y):
            pred = S.affine_marginal_transformation(carry)
            ll = O.affine_marginal_transformation(pred).evaluate_ln(y[None])[0, 0]
            new = O.affine_conditional_transformation(pred).condition_on_x(y[None])
            return new, ll
        try:
            final, lls = jax.lax.scan(step, P0, jnp.asarray(ys))
        except Exception as e:
            fails.append(failure(PROPERTY, "scan", f"lax.scan with a density as carry raised: {type(e).__name__}: {str(e)[:200]}", params=params)); return fails
        ref = m.regs[filt]
        fail_if(fails, PROPERTY, "scan:mu", "scan carry differs from the eager filter", np.asarray(final.mu), np.asarray(ref.mu), tol=1e-7, params=params)
        fail_if(fails, PROPERTY, "scan:Sigma", "scan carry differs from the eager filter", np.asarray(final.Sigma), np.asarray(ref.Sigma), tol=1e-7, params=params)
        # the same filter with the measurement update through likelihood factors: set_y -> multiply -> get_density; the carry
        # is a density produced by get_density(), the initial carry a constructed one (same pytree structure required)
        def step2(carry, y):
            pred = S.affine_marginal_transformation(carry)
            new = pred.multiply(O.set_y(y[None]), update_full=True).get_density()
            return new, new.mu[0]
        try:
            final2, _ = jax.lax.scan(step2, P0, jnp.asarray(ys))
            fail_if(fails, PROPERTY, "scan-factors:mu", "scan over set_y -> multiply -> get_density differs from the eager filter", np.asarray(final2.mu), np.asarray(ref.mu), tol=1e-7, params=params)
            fail_if(fails, PROPERTY, "scan-factors:Sigma", "scan over set_y -> multiply -> get_density differs from the eager filter", np.asarray(final2.Sigma), np.asarray(ref.Sigma), tol=1e-7, params=params)
        except Exception as e:
            fails.append(failure(PROPERTY, "scan-factors", f"lax.scan with a get_density() result as carry raised: {type(e).__name__}: {str(e)[:200]}", params=params))
        return fails
    return Case(label, fn)


def fd_grad(fun, theta, h=1e-5):
    theta = np.asarray(theta, dtype=float)
    g = np.zeros_like(theta)
    it = np.nditer(theta, flags=["multi_index"])
    for _ in it:
        idx = it.multi_index
        tp = theta.copy(); tp[idx] += h
        tm = theta.copy(); tm[idx] -= h
        g[idx] = (float(fun(jnp.asarray(tp))) - float(fun(jnp.asarray(tm)))) / (2 * h)
    return g


def case_grad(D, Dy, sub):
    label = f"grad/D{D}/Dy{Dy}/{sub}"
    def fn(m):
        rng = gen.rng_path(m.seed, label)
        fails = []
        params = dict(D=D, Dy=Dy)
        B = rng.standard_normal((D, D)); nu = rng.standard_normal((1, D)); x = jnp.asarray(gen.points(rng, 2, D))
        M = rng.standard_normal((1, Dy, D)); b = rng.standard_normal((1, Dy)); Bs = rng.standard_normal((Dy, Dy)); y = jnp.asarray(gen.points(rng, 1, Dy))
        mk_prec = lambda Bm: (Bm @ Bm.T + D * jnp.eye(D))[None]
        mk_cov = lambda Bm: (Bm @ Bm.T + Dy * jnp.eye(Dy))[None]
        v = rng.standard_normal((1, D))
        funs = {
            "log_integral wrt precision factor": (lambda Bm: gt_measure.GaussianMeasure(Lambda=mk_prec(Bm), nu=jnp.asarray(nu)).log_integral()[0], B),
            "log_integral wrt nu": (lambda n: gt_measure.GaussianMeasure(Lambda=mk_prec(jnp.asarray(B)), nu=n).log_integral()[0], nu),
            "density value wrt mean": (lambda mu: gt_pdf.GaussianPDF(Sigma=mk_prec(jnp.asarray(B)), mu=mu).evaluate_ln(x)[0, 1], nu),
            "entropy wrt covariance factor": (lambda Bm: gt_pdf.GaussianPDF(Sigma=mk_prec(Bm), mu=jnp.asarray(nu)).entropy()[0], B),
            "rank-one product mass wrt v": (lambda vv: gt_measure.GaussianMeasure(Lambda=mk_prec(jnp.asarray(B)), nu=jnp.asarray(nu)).hadamard(
                gt_factor.OneRankFactor(v=vv, g=jnp.asarray([0.7])), update_full=True).log_integral()[0], v),
            "quadratic integral wrt A": (lambda Am: gt_pdf.GaussianPDF(Sigma=mk_prec(jnp.asarray(B)), mu=jnp.asarray(nu)).integrate(
                "(Ax+a)'(Bx+b)", A_mat=Am, B_mat=Am)[0], rng.standard_normal((2, D))),
            "marginal log-likelihood wrt M": (lambda Mm: gt_cond.ConditionalGaussianPDF(M=Mm, b=jnp.asarray(b), Sigma=mk_cov(jnp.asarray(Bs))).affine_marginal_transformation(
                gt_pdf.GaussianPDF(Sigma=mk_prec(jnp.asarray(B)), mu=jnp.asarray(nu))).evaluate_ln(y)[0, 0], M),
            "posterior mean wrt b": (lambda bb: jnp.sum(gt_cond.ConditionalGaussianPDF(M=jnp.asarray(M), b=bb, Sigma=mk_cov(jnp.asarray(Bs))).affine_conditional_transformation(
                gt_pdf.GaussianPDF(Sigma=mk_prec(jnp.asarray(B)), mu=jnp.asarray(nu))).condition_on_x(y).mu), b),
            "expected log-conditional wrt noise factor": (lambda Bm: gt_cond.ConditionalGaussianPDF(M=jnp.asarray(M), b=jnp.asarray(b), Sigma=mk_cov(Bm)).integrate_log_conditional_y(
                gt_pdf.GaussianPDF(Sigma=mk_prec(jnp.asarray(B)), mu=jnp.asarray(nu)), y=y)[0], Bs),
            "mutual information wrt M": (lambda Mm: gt_cond.ConditionalGaussianPDF(M=Mm, b=jnp.asarray(b), Sigma=mk_cov(jnp.asarray(Bs))).mutual_information(
                gt_pdf.GaussianPDF(Sigma=mk_prec(jnp.asarray(B)), mu=jnp.asarray(nu)))[0], M),
        }
        # approximate conditionals: gradients of the variational bound terms and of moment-matched quantities
        try:
            from gaussian_toolbox import approximate_conditional as gt_ac
            Dk = Dy
            Ah = jnp.asarray(rng.standard_normal((1, Dy, Dy)) + 2.0 * np.eye(Dy)[None])
            Wh = 0.3 * rng.standard_normal((Dk, D + 1))
            Sx = mk_prec(jnp.asarray(B)); mx = jnp.asarray(nu)
            for lname, cls in (("exp", gt_ac.HeteroscedasticExpConditional), ("coshm1", gt_ac.HeteroscedasticCoshM1Conditional),
                               ("heaviside", gt_ac.HeteroscedasticHeavisideConditional), ("relu", gt_ac.HeteroscedasticReLUConditional)):
                funs[f"hetero-{lname}: log-det bound wrt W"] = (
                    lambda Wm, cls=cls: jnp.sum(cls(M=jnp.asarray(M), b=jnp.asarray(b), A=Ah, W=Wm).get_lb_log_det(gt_pdf.GaussianPDF(Sigma=Sx, mu=mx))), Wh)
                if lname in ("heaviside", "relu"):      # (each call of these classes re-traces scans: two gradients per class)
                    funs[f"hetero-{lname}: expected log-conditional bound wrt W"] = (
                        lambda Wm, cls=cls: cls(M=jnp.asarray(M), b=jnp.asarray(b), A=Ah, W=Wm).integrate_log_conditional_y(
                            gt_pdf.GaussianPDF(Sigma=Sx, mu=mx), y=jnp.asarray(np.full((1, Dy), 0.3)))[0], Wh)
                    continue
                funs[f"hetero-{lname}: log-det bound wrt mean of p(x)"] = (
                    lambda mm, cls=cls: jnp.sum(cls(M=jnp.asarray(M), b=jnp.asarray(b), A=Ah, W=jnp.asarray(Wh)).get_lb_log_det(gt_pdf.GaussianPDF(Sigma=Sx, mu=mm))), nu)
                yh = jnp.asarray(gen.points(rng, 1, Dy))
                funs[f"hetero-{lname}: expected log-conditional bound wrt W"] = (
                    lambda Wm, cls=cls: cls(M=jnp.asarray(M), b=jnp.asarray(b), A=Ah, W=Wm).integrate_log_conditional_y(gt_pdf.GaussianPDF(Sigma=Sx, mu=mx), y=yh)[0], Wh)
                funs[f"hetero-{lname}: expected log-conditional bound wrt mean of p(x)"] = (
                    lambda mm, cls=cls: cls(M=jnp.asarray(M), b=jnp.asarray(b), A=Ah, W=jnp.asarray(Wh)).integrate_log_conditional_y(gt_pdf.GaussianPDF(Sigma=Sx, mu=mm), y=yh)[0], nu)
                funs[f"hetero-{lname}: matched marginal covariance wrt W"] = (
                    lambda Wm, cls=cls: jnp.sum(cls(M=jnp.asarray(M), b=jnp.asarray(b), A=Ah, W=Wm).affine_marginal_transformation(gt_pdf.GaussianPDF(Sigma=Sx, mu=mx)).Sigma), Wh)
            Dkf = 2
            Mf = rng.standard_normal((1, Dy, D + Dkf))
            funs["rbf: matched marginal mean wrt centres"] = (
                lambda cm: jnp.sum(gt_ac.LRBFGaussianConditional(M=jnp.asarray(Mf), b=jnp.asarray(b), mu=cm, length_scale=jnp.ones((Dkf, D)), Sigma=mk_cov(jnp.asarray(Bs))
                                                               ).affine_marginal_transformation(gt_pdf.GaussianPDF(Sigma=Sx, mu=mx)).mu), rng.standard_normal((Dkf, D)))
            funs["lsem: expected log-conditional wrt W"] = (
                lambda Wm: gt_ac.LSEMGaussianConditional(M=jnp.asarray(Mf), b=jnp.asarray(b), W=Wm, Sigma=mk_cov(jnp.asarray(Bs))
                                                         ).integrate_log_conditional_y(gt_pdf.GaussianPDF(Sigma=Sx, mu=mx), y=y)[0], 0.5 * rng.standard_normal((Dkf, D + 1)))
        except ImportError:
            pass
        for name, (fun, theta) in funs.items():
            try:
                g = np.asarray(jax.grad(fun)(jnp.asarray(theta)))
            except Exception as e:
                fails.append(failure(PROPERTY, f"grad:{name}", f"jax.grad raised: {type(e).__name__}: {str(e)[:160]}", params=params)); continue
            ref = fd_grad(fun, theta)
            fail_if(fails, PROPERTY, f"grad:{name}", "reverse-mode gradient differs from central differences", g, ref, tol=1e-5, params=params)
            if not np.all(np.isfinite(g)):
                fails.append(failure(PROPERTY, f"grad:{name}", "gradient not finite", params=params))
        return fails
    return Case(label, fn)


def case_grad_obj(D, Dy, sub):
    """reverse-mode gradients with respect to library OBJECTS passed as arguments (pytrees): the cotangent of every
    constructor field must be the derivative of the loss w.r.t. that constructor argument — derived fields (Lambda of a
    rank-one factor, nu / ln_beta of a density, …) are recomputed from the leaves, not carried along as constants"""
    label = f"grad-obj/D{D}/Dy{Dy}/{sub}"
    def fn(m):
        rng = gen.rng_path(m.seed, label)
        fails = []
        params = dict(D=D, Dy=Dy)
        J = jnp.asarray
        B = rng.standard_normal((D, D)); L = J(B @ B.T + D * np.eye(D))[None]; nu = J(rng.standard_normal((1, D)))
        x = J(gen.points(rng, 2, D)); y = J(gen.points(rng, 1, Dy))
        U = gt_measure.GaussianMeasure(Lambda=L, nu=nu)
        P = gt_pdf.GaussianPDF(Sigma=L, mu=nu)
        Bs = rng.standard_normal((Dy, Dy)); Sy = J(Bs @ Bs.T + Dy * np.eye(Dy))[None]
        objs = {
            "OneRankFactor": (gt_factor.OneRankFactor, dict(v=J(rng.standard_normal((1, D))), g=J([0.7]), nu=J(rng.standard_normal((1, D))), ln_beta=J([0.3])),
                              lambda f: U.hadamard(f, update_full=True).log_integral()[0], ("v", "g", "nu")),
            "LinearFactor": (gt_factor.LinearFactor, dict(nu=J(rng.standard_normal((1, D))), ln_beta=J([0.2])),
                             lambda f: U.hadamard(f, update_full=True).log_integral()[0], ("nu", "ln_beta")),
            "GaussianPDF": (gt_pdf.GaussianPDF, dict(Sigma=L, mu=nu), lambda p: p.evaluate_ln(x)[0, 1], ("mu",)),
            "GaussianMeasure": (gt_measure.GaussianMeasure, dict(Lambda=L, nu=nu, ln_beta=J([0.4])), lambda u: u.log_integral()[0], ("nu", "ln_beta")),
            "ConditionalGaussianPDF": (gt_cond.ConditionalGaussianPDF, dict(M=J(rng.standard_normal((1, Dy, D))), b=J(rng.standard_normal((1, Dy))), Sigma=Sy),
                                       lambda c: c.affine_marginal_transformation(P).evaluate_ln(y)[0, 0], ("M", "b")),
        }
        for name, (cls, kw, loss, fields) in objs.items():
            try:
                G = jax.grad(loss)(cls(**kw))
            except Exception as e:
                fails.append(failure(PROPERTY, f"grad-obj:{name}", f"jax.grad w.r.t. the object raised: {type(e).__name__}: {str(e)[:160]}", params=params)); continue
            for fld in fields:
                ref = fd_grad(lambda t, fld=fld: loss(cls(**dict(kw, **{fld: t}))), np.asarray(kw[fld]))
                got = getattr(G, fld, None)
                if got is None:
                    fails.append(failure(PROPERTY, f"grad-obj:{name}.{fld}", "cotangent object has no such field", params=params)); continue
                fail_if(fails, PROPERTY, f"grad-obj:{name}.{fld}", "cotangent of a constructor field differs from central differences over that constructor argument",
                        np.asarray(got), ref, tol=1e-5, params=params)
            # a gradient step on the leaves yields the object its constructor would build from the stepped fields
            try:
                obj = cls(**kw)
                stepped = jax.tree_util.tree_map(lambda l: l, obj)
                same = loss(stepped) - loss(obj)
                fail_if(fails, PROPERTY, f"tree_map:{name}", "tree_map(identity) changes the object", np.asarray(same), np.zeros(()), params=params)
            except Exception as e:
                fails.append(failure(PROPERTY, f"tree_map:{name}", f"raised: {type(e).__name__}: {str(e)[:160]}", params=params))
        return fails
    return Case(label, fn)


def case_nested(R):
    """objects that hold other library objects as constructor fields (truncated measures hold their base measure): the nested
    object is data — traced under jit (two instances with different values through ONE jitted function), differentiable
    (cotangent of the nested measure's fields vs finite differences), and survives flatten/unflatten"""
    label = f"nested/R{R}"
    def fn(m):
        from gaussian_toolbox.experimental import truncated_measure as gt_trunc
        rng = gen.rng_path(m.seed, label)
        fails = []
        params = dict(R=R)
        J = jnp.asarray
        def base(scale):
            return gt_measure.GaussianMeasure(Lambda=J(rng.uniform(0.5, 2.0, (R, 1, 1))), nu=J(scale * rng.standard_normal((R, 1))), ln_beta=J(0.3 * rng.standard_normal(R)))
        lo, hi = J(-0.5 * np.ones((R, 1))), J(1.5 * np.ones((R, 1)))       # documented shape [R, 1]
        mk = lambda b: gt_trunc.TruncatedGaussianMeasure(measure=b, lower_limit=lo, upper_limit=hi)
        b1, b2 = base(1.0), base(0.3)
        t1, t2 = mk(b1), mk(b2)
        for name, fun in {"integral": lambda t: t.integral(), "integrate x": lambda t: t.integrate("x"), "integrate x**3": lambda t: t.integrate("x**k", k=3),
                          "evaluate": lambda t: t(J(np.linspace(-1.0, 2.0, 5))[:, None])}.items():
            try:
                jf = jax.jit(fun)
                for t in (t1, t2):
                    fail_if(fails, PROPERTY, f"nested:jit:{name}", "jit with the truncated measure as ARGUMENT differs from eager", np.asarray(jf(t)), np.asarray(fun(t)), params=params)
            except Exception as e:
                fails.append(failure(PROPERTY, f"nested:jit:{name}", f"raised: {type(e).__name__}: {str(e)[:200]}", params=params))
        try:
            leaves, treedef = jax.tree_util.tree_flatten(t1)
            t1b = jax.tree_util.tree_unflatten(treedef, leaves)
            fail_if(fails, PROPERTY, "nested:flatten", "flatten/unflatten changes the truncated measure", np.asarray(t1b.integrate("x")), np.asarray(t1.integrate("x")), params=params)
            if not any(np.shape(l) == np.shape(b1.nu) and np.allclose(np.asarray(l), np.asarray(b1.nu)) for l in leaves):
                fails.append(failure(PROPERTY, "nested:flatten", "the nested measure's parameters are not among the leaves (treated as static structure)", params=params))
        except Exception as e:
            fails.append(failure(PROPERTY, "nested:flatten", f"raised: {type(e).__name__}: {str(e)[:200]}", params=params))
        try:
            loss = lambda t: jnp.sum(t.integrate("x"))
            G = jax.grad(loss)(t1)
            ref = fd_grad(lambda nu: loss(mk(gt_measure.GaussianMeasure(Lambda=b1.Lambda, nu=nu, ln_beta=b1.ln_beta))), np.asarray(b1.nu))
            fail_if(fails, PROPERTY, "nested:grad", "cotangent of the nested measure's nu differs from central differences", np.asarray(G.measure.nu), ref, tol=1e-5, params=params)
        except Exception as e:
            fails.append(failure(PROPERTY, "nested:grad", f"raised: {type(e).__name__}: {str(e)[:200]}", params=params))
        # deepcopy is deep: changing the original's nested measure in place afterwards does not change the copy
        try:
            import copy
            base3 = base(1.0); t3 = mk(base3)
            before = np.asarray(t3.integrate("x"))
            t3c = copy.deepcopy(t3)
            base3.normalize(); t3.measure.normalize()
            fail_if(fails, PROPERTY, "nested:deepcopy", "the deep copy changed when the original's nested measure was normalised in place", np.asarray(t3c.integrate("x")), before, params=params)
            if t3c.measure is t3.measure:
                fails.append(failure(PROPERTY, "nested:deepcopy", "deepcopy shares the nested measure object with the original", params=params))
        except Exception as e:
            fails.append(failure(PROPERTY, "nested:deepcopy", f"raised: {type(e).__name__}: {str(e)[:200]}", params=params))
        # one-sided intervals (an infinite limit): gradients w.r.t. precision, nu of the base measure and the finite limit
        for side, kw in (("lower-only", dict(lower_limit=J(0.2 * np.ones((R, 1))))), ("upper-only", dict(upper_limit=J(0.7 * np.ones((R, 1)))))):
            mk1 = lambda L, nu: gt_trunc.TruncatedGaussianMeasure(measure=gt_measure.GaussianMeasure(Lambda=L, nu=nu, ln_beta=b1.ln_beta), **kw)
            for what, fun, theta in (("Lambda", lambda L: jnp.sum(mk1(L, b1.nu).integrate("x")), np.asarray(b1.Lambda)),
                                     ("nu", lambda nu: jnp.sum(mk1(b1.Lambda, nu).integral()), np.asarray(b1.nu)),
                                     ("Lambda/x**2", lambda L: jnp.sum(mk1(L, b1.nu).integrate("x**2")), np.asarray(b1.Lambda))):
                try:
                    g = np.asarray(jax.grad(fun)(J(theta)))
                    gj = np.asarray(jax.jit(jax.grad(fun))(J(theta)))
                except Exception as e:
                    fails.append(failure(PROPERTY, f"trunc-grad:{side}:{what}", f"raised: {type(e).__name__}: {str(e)[:200]}", params=params)); continue
                if not (np.all(np.isfinite(g)) and np.all(np.isfinite(gj))):
                    fails.append(failure(PROPERTY, f"trunc-grad:{side}:{what}", "gradient of a one-sided truncated integral is not finite", got=g.tolist(), params=params)); continue
                ref = fd_grad(fun, theta)
                fail_if(fails, PROPERTY, f"trunc-grad:{side}:{what}", "reverse-mode gradient differs from central differences", g, ref, tol=1e-5, params=params)
                fail_if(fails, PROPERTY, f"trunc-grad:{side}:{what}", "jit(grad) differs from grad", gj, g, params=params)
        return fails
    return Case(label, fn)


def case_jit_first(D):
    """call order: the FIRST use of an operation (for a dimension nothing else in this process uses) happens under jit, the
    same operation is then run eagerly on fresh objects and under a second jit trace; nothing created while tracing may leak"""
    label = f"jit-first/D{D}"
    def fn(m):
        rng = gen.rng_path(m.seed, label)
        fails = []
        params = dict(D=D)
        J = jnp.asarray
        def fresh():
            B = rng.standard_normal((D, D))
            return gt_pdf.GaussianPDF(Sigma=J(B @ B.T + D * np.eye(D))[None], mu=J(rng.standard_normal((1, D))))
        a = J(rng.standard_normal((D,)))
        ops = {
            "quadratic integral with omitted matrices": lambda p: p.integrate("(Ax+a)'(Bx+b)", a_vec=a, b_vec=a),
            "cubic with omitted matrices": lambda p: p.integrate("(Ax+a)(Bx+b)'(Cx+c)", a_vec=a),
            "log_integral": lambda p: p.log_integral(),
            "entropy": lambda p: p.entropy(),
            "marginal": lambda p: p.get_marginal(jnp.arange(max(1, D - 1))).evaluate_ln(J(np.zeros((1, max(1, D - 1))))),
        }
        for name, fun in ops.items():
            p1, p2 = fresh(), fresh()
            try:
                j1 = np.asarray(jax.jit(fun)(p1))
                e1 = np.asarray(fun(p1)); e2 = np.asarray(fun(p2))
                j2 = np.asarray(jax.jit(lambda p: fun(p) * 1.0)(p2))
            except Exception as e:
                fails.append(failure(PROPERTY, f"jit-first:{name}", f"raised when the first call was traced: {type(e).__name__}: {str(e)[:200]}", params=params)); continue
            fail_if(fails, PROPERTY, f"jit-first:{name}", "jit (first call) differs from eager", j1, e1, params=params)
            fail_if(fails, PROPERTY, f"jit-first:{name}", "second jit trace differs from eager", j2, e2, params=params)
        return fails
    return Case(label, fn)


def cases(seed, tier):
    rng = gen.rng_path(seed, "C18")
    out = []
    for (R, D) in [(2, 3), (1, 1)] + ([(3, 2)] if tier != "quick" else []):
        for pop in (False, True):
            out.append(case_roundtrips(R, D, pop))
    for i, (R, D) in enumerate([(2, 3), (1, 2)] + ([(3, 4), (2, 1)] if tier != "quick" else [])):
        out.append(case_pipelines(R, D, i))
    out.append(case_roundtrips_approx(2, 2, 2))
    if tier != "quick":
        out.append(case_roundtrips_approx(1, 3, 3))
    out.append(case_scan(4, 2, 1))
    if tier != "quick":
        out.append(case_scan(8, 3, 2))
    out.append(case_grad(2, 1, 0))
    out.append(case_grad_obj(3, 2, 0))
    out.append(case_nested(2))
    if tier != "quick":
        out.append(case_grad(3, 2, 1))
        out.append(case_grad_obj(2, 1, 1))
    cases_ = seeded(out, seed)
    # must come first in the process: its dimension (7) is used by no other case, and its first calls are traced
    return seeded([case_jit_first(7)], seed) + cases_
