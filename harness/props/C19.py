"""C19 — samples follow the density's law and are reproducible.
Structural check (decides, together with the theorems): sample(key, n) == mu + cholesky(Sigma) z with
z = jax.random.normal(key, (n, R, D)) recomputed by the harness; the model is fed the same z.
Statistical clause (thorough tier): supporting evidence only, labelled as a test."""
import numpy as np
import jax
import jax.numpy as jnp
from .common import *
PROPERTY = "C19"
LEAN_MODULES = ["GT.Props.C19"]
ASSUMPTIONS = ["jax.random.normal(key, shape) is an i.i.d. standard normal array and a pure function of the key (trusted primitive)",
               "the statistical clause (moments within 6 standard errors) is a test and never decides the property"]


def case_structural(R, D, n, seed_key, diag, strong):
    label = f"sample/R{R}/D{D}/n{n}/key{seed_key}/diag{int(diag)}/strong{int(strong)}"
    def fn(m):
        rng = gen.rng_path(m.seed, label)
        fails = []
        if strong and not diag:
            # strongly correlated, distinct per component (permuted-pairing detector)
            S = np.stack([(lambda B: B @ B.T + 0.05 * np.eye(D))(rng.standard_normal((D, D)) * (1 + r)) for r in range(R)])
            mu = 3.0 * gen.vec_batch(rng, R, D)
            p = Obj(m.pdf(R, D, S, mu), Sigma=S, mu=mu)
        else:
            p = mk_pdf(m, rng, R, D, diag=diag, scale=2.0)
        params = dict(R=R, D=D, n=n, key=seed_key)
        s = m.sample(p.reg, seed_key, n)
        if m.regs.get(s) is None:
            fails.append(failure(PROPERTY, "sample", f"sample raised: {m.impl[-1][1:]}", params=params)); return fails
        got = np.asarray(m.regs[s])
        if got.shape != (n, R, D):
            fails.append(failure(PROPERTY, "sample", f"shape {got.shape} != {(n, R, D)}", params=params)); return fails
        z = np.asarray(jax.random.normal(jax.random.PRNGKey(seed_key), (n, R, D)))
        L = np.linalg.cholesky(p.Sigma)
        exp = p.mu[None] + np.einsum("rij,nrj->nri", L, z)
        fail_if(fails, PROPERTY, "sample", "draws are not mu_r + chol(Sigma_r) z[d,r] (pairing of factors, components and draws)", got, exp, params=params)
        # deterministic function of the key
        again = np.asarray(m.regs[p.reg].sample(jax.random.PRNGKey(seed_key), n))
        if not np.array_equal(again, got):
            fails.append(failure(PROPERTY, "sample", "same key gives different samples", params=params))
        other = np.asarray(m.regs[p.reg].sample(jax.random.PRNGKey(seed_key + 1), n))
        if np.array_equal(other, got):
            fails.append(failure(PROPERTY, "sample", "different keys give identical samples", params=params))
        return fails
    return Case(label, fn)


def case_history(R, D, n, seed_key, diag):
    """sample -> update(idx, d) in place -> sample again: the second draw follows the updated components (nothing derived
    from the old parameters may survive), and the untouched components are bit-identical for the same key"""
    label = f"sample-history/R{R}/D{D}/n{n}/key{seed_key}/diag{int(diag)}"
    def fn(m):
        rng = gen.rng_path(m.seed, label)
        fails = []
        p = mk_pdf(m, rng, R, D, diag=diag, scale=2.0)
        params = dict(R=R, D=D, n=n, key=seed_key, diag=diag)
        first = m.sample(p.reg, seed_key, n)
        K = int(rng.integers(1, R + 1)); uidx = rng.permutation(R)[:K]
        d = mk_pdf(m, rng, K, D, diag=diag, scale=3.0)
        m.update(p.reg, uidx, d.reg)
        S = p.Sigma.copy(); mu = p.mu.copy(); S[uidx] = d.Sigma; mu[uidx] = d.mu
        s = m.sample(p.reg, seed_key, n)
        if m.regs.get(s) is None or m.regs.get(first) is None:
            fails.append(failure(PROPERTY, "sample:after-update", f"sample raised: {m.impl[-1][1:]}", params=params)); return fails
        z = np.asarray(jax.random.normal(jax.random.PRNGKey(seed_key), (n, R, D)))
        exp = mu[None] + np.einsum("rij,nrj->nri", np.linalg.cholesky(S), z)
        fail_if(fails, PROPERTY, "sample:after-update", "draws after update() are not mu_r + chol(Sigma_r) z of the UPDATED components",
                np.asarray(m.regs[s]), exp, params=dict(params, uidx=[int(i) for i in uidx]))
        return fails
    return Case(label, fn)


def case_large_n(seed_key):
    """more than 2**20 draws in one call (implementation only, nothing goes through the protocol): still mu + L z of the
    key's normal stream, no block repeats"""
    label = f"sample-large-n/key{seed_key}"
    def fn(m):
        from gaussian_toolbox import pdf as gt_pdf
        fails = []
        n = 2 ** 20 + 5
        p = gt_pdf.GaussianPDF(Sigma=jnp.asarray([[[2.25]]]), mu=jnp.asarray([[0.5]]))
        x = np.asarray(p.sample(jax.random.PRNGKey(seed_key), n))
        z = np.asarray(jax.random.normal(jax.random.PRNGKey(seed_key), (n, 1, 1)))
        params = dict(n=n, key=seed_key)
        if x.shape != (n, 1, 1):
            fails.append(failure(PROPERTY, "sample:large-n", f"shape {x.shape}", params=params)); return fails
        fail_if(fails, PROPERTY, "sample:large-n", "draws are not mu + chol(Sigma) z for n > 2**20", x[-64:], 0.5 + 1.5 * z[-64:], params=params)
        if np.array_equal(x[:5], x[2 ** 20:2 ** 20 + 5]):
            fails.append(failure(PROPERTY, "sample:large-n", "draw i equals draw i + 2**20 (a block of the stream is repeated)", params=params))
        return fails
    return Case(label, fn)


def case_statistical(R, D, seed_key):
    label = f"sample-moments/R{R}/D{D}/key{seed_key}"
    def fn(m):
        rng = gen.rng_path(m.seed, label)
        fails = []
        p = mk_pdf(m, rng, R, D, scale=2.0)
        n = 40000
        x = np.asarray(m.regs[p.reg].sample(jax.random.PRNGKey(seed_key), n))
        params = dict(R=R, D=D, n=n, key=seed_key, test_only=True)
        for r in range(R):
            se = np.sqrt(np.diag(p.Sigma[r]) / n)
            if np.any(np.abs(x[:, r].mean(axis=0) - p.mu[r]) > 6 * se):
                fails.append(failure(PROPERTY, "sample:moments", "sample mean off by more than 6 standard errors", params=params))
            C = np.cov(x[:, r].T).reshape(D, D)
            sd = np.sqrt((np.outer(np.diag(p.Sigma[r]), np.diag(p.Sigma[r])) + p.Sigma[r] ** 2) / n)
            if np.any(np.abs(C - p.Sigma[r]) > 6 * sd):
                fails.append(failure(PROPERTY, "sample:moments", "sample covariance off by more than 6 standard errors", params=params))
        if R >= 2:
            c01 = np.corrcoef(x[:, 0, 0], x[:, 1, 0])[0, 1]
            if abs(c01) > 6 / np.sqrt(n):
                fails.append(failure(PROPERTY, "sample:moments", "components are correlated", got=float(c01), params=params))
        return fails
    return Case(label, fn)


def cases(seed, tier):
    rng = gen.rng_path(seed, "C19")
    out = []
    grid = [(1, 1, 3, False, False), (2, 3, 4, False, True), (3, 2, 5, True, False), (4, 4, 2, False, True)]
    for _ in range(2 if tier == "quick" else 10):
        grid.append((int(rng.integers(1, 5)), int(rng.integers(1, 6)), int(rng.integers(1, 6)), bool(rng.integers(0, 2)), bool(rng.integers(0, 2))))
    for i, (R, D, n, dg, st) in enumerate(grid):
        out.append(case_structural(R, D, n, int(rng.integers(0, 1000)) + i, dg, st))
    out.append(case_history(3, 2, 3, 5, True)); out.append(case_history(2, 3, 2, 6, False))
    out.append(case_large_n(3))
    if tier != "quick":
        out.append(case_history(4, 4, 3, 7, True))
        out.append(case_statistical(2, 3, 11)); out.append(case_statistical(3, 2, 12))
    return seeded(out, seed)
