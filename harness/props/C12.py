"""C12 — batches are independent components; slicing commutes with every operation."""
from .condfam import *
PROPERTY = "C12"
LEAN_MODULES = ["GT.Props.C12", "GT.Props.C12Ext"]
ASSUMPTIONS = ["float64 rounding outside the theorems; metamorphic relation evaluated on the implementation, both sides also compared with the model"]


def same_obj(fails, site, a, b, params, tol=1e-8):
    """a, b implementation objects or arrays: every attribute exposed by both must agree"""
    if a is None or b is None:
        fails.append(failure(PROPERTY, site, "one side of the metamorphic relation raised", params=params)); return
    da, db = dump_obj(a), dump_obj(b)
    if da["type"] != db["type"] or tuple(da["head"]) != tuple(db["head"]):
        fails.append(failure(PROPERTY, site, f"slice(op(o)) and op(slice(o)) differ in class/shape: {da['type']}{da['head']} vs {db['type']}{db['head']}", params=params)); return
    for k in da["fields"]:
        if k in db["fields"]:
            fail_if(fails, PROPERTY, site + ":" + k, "slice(op(o)) != op(slice(o))", da["fields"][k], db["fields"][k], tol=tol, params=params)


def wrap(idx, R):
    return np.where(np.asarray(idx) < 0, np.asarray(idx) + R, np.asarray(idx))


def case_measure_ops(kind, R, D):
    label = f"measure-ops/{kind}/R{R}/D{D}"
    def fn(m):
        rng = gen.rng_path(m.seed, label)
        fails = []
        o = mk_factor(m, rng, kind, R, D)
        idx = gen.index_array(rng, R); w = wrap(idx, R)
        params = dict(kind=kind, R=R, D=D, idx=[int(i) for i in idx])
        os_ = m.slice(o.reg, idx)
        x = gen.points(rng, 2, D); xr = m.arr(x)
        e1 = np.asarray(m.regs[m.evalln(o.reg, xr)])[w]; e2 = np.asarray(m.regs[m.evalln(os_, xr)])
        fail_if(fails, PROPERTY, f"evaluate_ln:{kind}", "slice then evaluate != evaluate then index", e2, e1, params=params)
        if kind in ("measure", "diagmeasure", "pdf", "diagpdf"):
            for q in ("log_integral", "integral_light"):
                a = np.asarray(m.regs[m.query(q, o.reg)])[w]; b = np.asarray(m.regs[m.query(q, os_)])
                fail_if(fails, PROPERTY, q, "integral of the slice != slice of the integrals", b, a, params=params)
            # per-component predicates are per component: is_normalized() of the slice is the slice of is_normalized()
            try:
                na = np.asarray(m.regs[o.reg].is_normalized()); nb = np.asarray(m.regs[os_].is_normalized())
                if na.shape != (R,) or nb.shape != (len(w),) or not np.array_equal(nb, na[w]):
                    fails.append(failure(PROPERTY, f"is_normalized:{kind}", f"is_normalized() of the slice != slice of is_normalized(): shapes {na.shape} / {nb.shape}", params=params))
                if kind in ("pdf", "diagpdf") and not np.all(na):
                    fails.append(failure(PROPERTY, f"is_normalized:{kind}", "a density reports that it is not normalised", params=params))
            except Exception as e:
                fails.append(failure(PROPERTY, f"is_normalized:{kind}", f"raised: {type(e).__name__}: {str(e)[:160]}", params=params))
            # slice AFTER the caches were filled
            os2 = m.slice(o.reg, idx)
            same_obj(fails, f"slice-after-query:{kind}", m.regs.get(os2), m.regs.get(os_), params)
            A = rng.standard_normal((2, D)); a_ = rng.standard_normal((R, 2))
            for key, kw in (("x", {}), ("xx'", {}), ("Ax+a", dict(dims=(2,), forms=[(A, a_)])),
                            ("quad_outer", dict(dims=(2, 2), forms=[(A, a_), (np.tile(A[None], (R, 1, 1)), None)])),
                            ("cubic_inner", dict(dims=(2, 2), forms=[(A, a_), (A, None), (A, a_)])),
                            ("quad_inner", dict(dims=(2,), forms=[(np.tile(A[None], (R, 1, 1)), a_), (A, a_)])),
                            ("cubic_outer", dict(dims=(2, 2), forms=[(A, a_), (A, a_), (np.tile(A[None], (R, 1, 1)), None)])),
                            ("quartic_inner", dict(dims=(2, 2), forms=[(A, a_), (A, None), (A, a_), (A, a_)])),
                            ("quartic_outer", dict(dims=(2, 2, 2), forms=[(A, a_), (A, a_), (A, None), (np.tile(A[None], (R, 1, 1)), a_)]))):
                full = m.integrate(o.reg, key, **kw)
                kw2 = dict(kw)
                if "forms" in kw:
                    kw2["forms"] = [(ma if (ma is None or np.ndim(ma) == 2) else ma[w], ve if (ve is None or np.ndim(ve) == 1) else ve[w]) for ma, ve in kw["forms"]]
                part = m.integrate(os_, key, **kw2)
                if m.regs.get(full) is not None and m.regs.get(part) is not None:
                    fail_if(fails, PROPERTY, f"integrate:{key}", "integral of the slice != slice of the integrals",
                            np.asarray(m.regs[part]), np.asarray(m.regs[full])[w], params=params)
            # the two cubic keys with their own argument conventions, one coefficient set per component
            bR = rng.standard_normal((R, D)); AR = rng.standard_normal((R, 1, D)); aR = rng.standard_normal((R, 1))
            for key, kwf, kwp in (("xbxx", dict(b=bR), dict(b=bR[w])), ("xAxx", dict(A=AR, a=aR), dict(A=AR[w], a=aR[w]))):
                full = m.integrate(o.reg, key, **kwf); part = m.integrate(os_, key, **kwp)
                if m.regs.get(full) is not None and m.regs.get(part) is not None:
                    fail_if(fails, PROPERTY, f"integrate:{key}", "integral of the slice != slice of the integrals",
                            np.asarray(m.regs[part]), np.asarray(m.regs[full])[w], params=params)
                else:
                    fails.append(failure(PROPERTY, f"integrate:{key}", "raised", params=params))
            d1 = m.query("get_density", o.reg); d2 = m.query("get_density", os_)
            same_obj(fails, "get_density", m.regs.get(m.slice(d1, idx)), m.regs.get(d2), params)
        # products: result component i*R2+j
        R2 = 2
        u = mk_measure(m, rng, R2, D)
        if kind not in ("pdf", "diagpdf", "measure", "diagmeasure"):
            jdx = gen.index_array(rng, R2, allow_negative=False)
            for uf in (False, True):
                full = m.multiply(u.reg, o.reg, uf)           # [R2 * R]
                part = m.multiply(m.slice(u.reg, jdx), os_, uf)
                comb = np.array([int(a) * R + int(b) for a in jdx for b in w])
                same_obj(fails, f"multiply:{kind}:uf{int(uf)}", m.regs.get(m.slice(full, comb)), m.regs.get(part), params)
            # hadamard with equal batches
            uu = mk_measure(m, rng, R, D)
            for uf in (False, True):
                full = m.hadamard(uu.reg, o.reg, uf)
                part = m.hadamard(m.slice(uu.reg, idx), os_, uf)
                same_obj(fails, f"hadamard:{kind}:uf{int(uf)}", m.regs.get(m.slice(full, idx)), m.regs.get(part), params)
            # single-component measure broadcast over the factor's batch
            u1 = mk_measure(m, rng, 1, D)
            full = m.hadamard(u1.reg, o.reg, True)
            part = m.hadamard(u1.reg, os_, True)
            same_obj(fails, f"hadamard-bcast:{kind}", m.regs.get(m.slice(full, idx)) if m.regs.get(full) is not None else None, m.regs.get(part), params)
        return fails
    return Case(label, fn)


def case_pdf_ops(R, D, diag):
    label = f"pdf-ops/R{R}/D{D}/diag{int(diag)}"
    def fn(m):
        rng = gen.rng_path(m.seed, label)
        fails = []
        p = mk_pdf(m, rng, R, D, diag=diag)
        idx = gen.index_array(rng, R); w = wrap(idx, R)
        params = dict(R=R, D=D, idx=[int(i) for i in idx])
        ps = m.slice(p.reg, idx)
        a = np.asarray(m.regs[m.entropy(p.reg)])[w]; b = np.asarray(m.regs[m.entropy(ps)])
        fail_if(fails, PROPERTY, "entropy", "entropy of the slice != slice of the entropies", b, a, params=params)
        q = mk_pdf(m, rng, R, D)
        a = np.asarray(m.regs[m.kl(p.reg, q.reg)])[w]; b = np.asarray(m.regs[m.kl(ps, m.slice(q.reg, idx))])
        fail_if(fails, PROPERTY, "kl_divergence", "KL of the slices != slice of the KLs", b, a, params=params)
        q1 = mk_pdf(m, rng, 1, D)
        a = np.asarray(m.regs[m.kl(p.reg, q1.reg)])[w]; b = np.asarray(m.regs[m.kl(ps, q1.reg)])
        fail_if(fails, PROPERTY, "kl_divergence", "KL against a single component: slice mismatch", b, a, params=params)
        if D >= 2:
            dims = gen.subset(rng, D, proper=True)
            same_obj(fails, "get_marginal", m.regs.get(m.slice(m.get_marginal(p.reg, dims), idx)), m.regs.get(m.get_marginal(ps, dims)), params)
            c_full = m.condition_on(p.reg, dims); c_part = m.condition_on(ps, dims)
            same_obj(fails, "condition_on", m.regs.get(m.slice(c_full, idx)), m.regs.get(c_part), params, tol=1e-7)
            # condition_on_x on N points: component r*N + n
            N = 2
            xb = m.arr(gen.points(rng, N, len(dims)))
            full = m.condition_on_x(c_full, xb); part = m.condition_on_x(c_part, xb)
            comb = np.array([int(r) * N + n for r in w for n in range(N)])
            same_obj(fails, "condition_on_x", m.regs.get(m.slice(full, comb)), m.regs.get(part), params, tol=1e-7)
        W = rng.standard_normal((R, max(1, D - 1), D))
        same_obj(fails, "get_density_of_linear_sum", m.regs.get(m.slice(m.linear_sum(p.reg, W), idx)), m.regs.get(m.linear_sum(ps, W[w])), params)
        # a density on the left of a product: the result is a measure whose slices are the products of the slices
        for fk in ("constant", "linear", "onerank", "general"):
            ff = mk_factor(m, rng, fk, 2, D)
            full = m.multiply(p.reg, ff.reg, bool(rng.integers(0, 2)))          # [R * 2]
            part = m.multiply(ps, ff.reg, False)
            comb = np.array([int(a) * 2 + b for a in w for b in range(2)])
            same_obj(fails, f"pdf-multiply:{fk}", m.regs.get(m.slice(full, comb)) if m.regs.get(full) is not None else None, m.regs.get(part), params)
            if m.regs.get(full) is not None:
                x2 = gen.points(rng, 2, D); x2r = m.arr(x2)
                e_full = np.asarray(m.regs[m.evalln(full, x2r)])[comb]
                sl = m.slice(full, comb)
                if m.regs.get(sl) is not None:
                    fail_if(fails, PROPERTY, f"pdf-multiply:{fk}:slice-evaluate", "slice of the product evaluates differently from the product's components",
                            np.asarray(m.regs[m.evalln(sl, x2r)]), e_full, params=params)
                    la = np.asarray(m.regs[m.query("log_integral", full)])[comb]; lb_ = np.asarray(m.regs[m.query("log_integral", sl)])
                    fail_if(fails, PROPERTY, f"pdf-multiply:{fk}:slice-mass", "mass of the sliced product != sliced masses", lb_, la, params=params)
        # sample: the draws of component r only depend on component r and the key
        s_full = m.sample(p.reg, 3, 4)
        # update(idx, d) replaces exactly the addressed components
        K = min(2, R)
        uidx = rng.permutation(R)[:K]
        d = mk_pdf(m, rng, K, D, diag=diag)
        before = dump_obj(m.regs[p.reg])
        m.update(p.reg, uidx, d.reg)
        after = dump_obj(m.regs[p.reg]); dd = dump_obj(m.regs[d.reg])
        for k in before["fields"]:
            if k == "ln_det_Lambda":
                continue
            exp = before["fields"][k].copy()
            if k in dd["fields"]:
                exp[uidx] = dd["fields"][k]
                fail_if(fails, PROPERTY, f"update:{k}", "update() did not replace exactly the addressed components", after["fields"][k], exp, tol=0.0, params=dict(params, uidx=[int(i) for i in uidx]))
        x = gen.points(rng, 2, D); xr = m.arr(x)
        m.evalln(p.reg, xr)
        return fails
    return Case(label, fn)


def case_cond_ops(cls, R, Dy, Dx):
    label = f"cond-ops/{cls}/R{R}/Dy{Dy}Dx{Dx}"
    def fn(m):
        rng = gen.rng_path(m.seed, label)
        fails = []
        c = mk_cond(m, rng, cls, R, Dy, Dx)
        idx = gen.index_array(rng, R); w = wrap(idx, R)
        params = dict(cls=cls, R=R, Dy=Dy, Dx=Dx, idx=[int(i) for i in idx])
        cs = m.slice(c.reg, idx)
        p1 = mk_pdf(m, rng, 1, Dx)
        for which in ("joint", "marginal", "conditional"):
            full = m.transform(which, c.reg, p1.reg); part = m.transform(which, cs, p1.reg)
            same_obj(fails, f"{which}:{cls}:batch-of-conditionals", m.regs.get(m.slice(full, idx)) if m.regs.get(full) is not None else None, m.regs.get(part), params, tol=1e-7)
        for which in ("cond_entropy", "mutual_information"):
            full = m.transform(which, c.reg, p1.reg); part = m.transform(which, cs, p1.reg)
            if m.regs.get(full) is not None and m.regs.get(part) is not None:
                fail_if(fails, PROPERTY, f"{which}:{cls}", "information quantity of the slice != slice", np.asarray(m.regs[part]), np.asarray(m.regs[full])[w], params=params)
            else:
                fails.append(failure(PROPERTY, f"{which}:{cls}", "raised", params=params))
        # batch of marginals with one conditional
        c1 = mk_cond(m, rng, cls, 1, Dy, Dx)
        pR = mk_pdf(m, rng, R, Dx); pRs = m.slice(pR.reg, idx)
        for which in ("joint", "marginal", "conditional"):
            full = m.transform(which, c1.reg, pR.reg); part = m.transform(which, c1.reg, pRs)
            same_obj(fails, f"{which}:{cls}:batch-of-marginals", m.regs.get(m.slice(full, idx)) if m.regs.get(full) is not None else None, m.regs.get(part), params, tol=1e-7)
        # expected log-conditionals against a batch of marginals / joints: component r only sees component r
        yR = gen.points(rng, R, Dy)
        for cf in (False, True):
            full = m.log_cond_y(c1.reg, pR.reg, m.arr(yR), callable_form=cf); part = m.log_cond_y(c1.reg, pRs, m.arr(yR[w]), callable_form=cf)
            if m.regs.get(full) is not None and m.regs.get(part) is not None:
                fail_if(fails, PROPERTY, f"integrate_log_conditional_y:{cls}", "expected log-conditional of the slice != slice", np.asarray(m.regs[part]), np.asarray(m.regs[full])[w], params=params)
            else:
                fails.append(failure(PROPERTY, f"integrate_log_conditional_y:{cls}", "raised", params=params))
        qR = mk_pdf(m, rng, R, Dy + Dx); qRs = m.slice(qR.reg, idx)
        full = m.log_cond(c1.reg, qR.reg); part = m.log_cond(c1.reg, qRs)
        if m.regs.get(full) is not None and m.regs.get(part) is not None:
            fail_if(fails, PROPERTY, f"integrate_log_conditional:{cls}", "expected log-conditional of the slice != slice", np.asarray(m.regs[part]), np.asarray(m.regs[full])[w], params=params)
        else:
            fails.append(failure(PROPERTY, f"integrate_log_conditional:{cls}", "raised", params=params))
        # condition_on_x: r*N+n
        N = 3
        x = gen.points(rng, N, Dx); xr = m.arr(x)
        full = m.condition_on_x(c.reg, xr); part = m.condition_on_x(cs, xr)
        comb = np.array([int(r) * N + n for r in w for n in range(N)])
        same_obj(fails, f"condition_on_x:{cls}", m.regs.get(m.slice(full, comb)), m.regs.get(part), params)
        # set_y with R conditionals paired with R observations
        y = gen.points(rng, R, Dy); yr = m.arr(y); ysr = m.arr(y[w])
        full = m.set_y(c.reg, yr); part = m.set_y(cs, ysr)
        same_obj(fails, f"set_y:{cls}", m.regs.get(m.slice(full, idx)) if m.regs.get(full) is not None else None, m.regs.get(part), params)
        return fails
    return Case(label, fn)


def case_feature_batch(kind, Dy, Dx, Dk, R):
    """feature conditionals with a batch of R densities p(x): component r of every transformation only sees component r"""
    label = f"feature-batch/{kind}/Dy{Dy}Dx{Dx}Dk{Dk}/R{R}"
    def fn(m):
        from .approx import mk_feat, mk_px
        rng = gen.rng_path(m.seed, label)
        fails = []
        c = mk_feat(m, rng, kind, Dy, Dx, Dk)
        p = mk_px(m, rng, R, Dx)
        idx = gen.index_array(rng, R); w = wrap(idx, R)
        params = dict(kind=kind, Dy=Dy, Dx=Dx, Dk=Dk, R=R, idx=[int(i) for i in idx])
        ps = m.slice(p.reg, idx)
        for which in ("marginal", "joint", "conditional"):
            full = m.feat_transform(which, c.reg, p.reg); part = m.feat_transform(which, c.reg, ps)
            same_obj(fails, f"feature:{which}:{kind}", m.regs.get(m.slice(full, idx)) if m.regs.get(full) is not None else None, m.regs.get(part), params, tol=1e-7)
        fx = m.feat_cross(c.reg, p.reg); px_ = m.feat_cross(c.reg, ps)
        if m.regs.get(fx) is not None and m.regs.get(px_) is not None:
            fail_if(fails, PROPERTY, f"feature:cross-terms:{kind}", "E[y x'] of the slice != slice", np.asarray(m.regs[px_]), np.asarray(m.regs[fx])[w], params=params)
        return fails
    return Case(label, fn)


def cases(seed, tier):
    rng = gen.rng_path(seed, "C12")
    out = []
    kinds = ["general", "onerank", "linear", "constant", "measure", "diagmeasure", "pdf", "diagpdf"]
    for i, kind in enumerate(kinds):
        R = [3, 6, 2, 4][i % 4]; D = [2, 1, 3][i % 3]
        out.append(case_measure_ops(kind, R, D))
        if tier != "quick":
            out.append(case_measure_ops(kind, int(rng.integers(1, 7)), int(rng.integers(1, 5))))
    for (R, D, dg) in [(3, 3, False), (4, 2, True), (1, 2, False), (6, 1, False)] + ([(int(rng.integers(1, 7)), int(rng.integers(1, 5)), False) for _ in range(4)] if tier != "quick" else []):
        out.append(case_pdf_ops(R, D, dg))
    for (cls, R, Dy, Dx) in [("full", 3, 2, 3), ("full", 2, 3, 1), ("diag", 4, 2, 2), ("identity", 3, 2, 2), ("identitydiag", 2, 3, 3)]:
        out.append(case_cond_ops(cls, R, Dy, Dx))
    if tier != "quick":
        for _ in range(8):
            cls = COND_CLASSES[int(rng.integers(0, 4))]
            Dy, Dx = dims_for(cls, rng)
            out.append(case_cond_ops(cls, int(rng.integers(1, 7)), Dy, Dx))
    for kind, Dy, Dx, Dk, R in [("rbf", 2, 2, 3, 3), ("lsem", 1, 2, 2, 2)] + ([("lsem", 2, 3, 3, 4)] if tier != "quick" else []):
        out.append(case_feature_batch(kind, Dy, Dx, Dk, R))
    try:
        from . import approx_hetero
        out.extend(approx_hetero.c12_hetero_cases(seed, tier))
    except ImportError:
        pass
    return seeded(out, seed)
