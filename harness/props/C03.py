"""C03 — polynomial integrals are the exact Gaussian moments (12 keys)."""
from .common import *
from oracle.isserlis import E_forms
from oracle.common import log_gauss_integral
PROPERTY = "C03"
LEAN_MODULES = ["GT.Props.C03", "GT.Props.C03Integral"]
ASSUMPTIONS = ["float64 rounding outside the theorems; exact mode: integer inputs, results compared bit for bit"]

# key -> (letters of the forms, output dims of the forms as indices into (K,L,M), contraction)
SPEC = {
    "Ax+a": ("A", "K", "u->u"),
    "quad_inner": ("AB", "KK", "uu->"),
    "quad_outer": ("AB", "KL", "uv->uv"),
    "cubic_inner": ("ABC", "KLL", "uvv->u"),
    "cubic_outer": ("ABC", "KKL", "uuw->w"),
    "quartic_inner": ("ABCD", "KKLL", "uuww->"),
    "quartic_outer": ("ABCD", "KLLM", "uvvz->uz"),
}


def draw_form(rng, R, k, D, mode, exact):
    """mode: (mat_mode, vec_mode) with 0 = omitted, 1 = shared, 2 = per component"""
    mm, vm = mode
    rnd = (lambda *s: rng.integers(-2, 3, size=s).astype(float)) if exact else (lambda *s: rng.standard_normal(s))
    mat = None if mm == 0 else (rnd(k, D) if mm == 1 else rnd(R, k, D))
    vec = None if vm == 0 else (rnd(k) if vm == 1 else rnd(R, k))
    return mat, vec


def resolve(mat, vec, r, k, D):
    A = np.eye(D) if mat is None else (mat if mat.ndim == 2 else mat[r])
    a = np.zeros(A.shape[0]) if vec is None else (vec if vec.ndim == 1 else vec[r])
    return A, a


def case_key(key, R, D, K, L, M, modes, exact, sub):
    label = f"{key}/R{R}/D{D}/K{K}L{L}M{M}/{'x' if exact else 'f'}/{sub}"
    def fn(m):
        rng = gen.rng_path(m.seed, label)
        fails = []
        if exact:
            S = np.stack([gen.int_pd(rng, D) for _ in range(R)]); mu = rng.integers(-2, 3, size=(R, D)).astype(float)
            reg = m.pdf(R, D, S, mu); mass = np.ones(R)
        else:
            # an un-normalised measure with non-unit mass
            u = mk_measure(m, rng, R, D)
            reg = u.reg
            S = np.linalg.inv(u.Lambda); mu = np.einsum("rij,rj->ri", S, u.nu)
            mass = np.exp(np.array([log_gauss_integral(u.Lambda[r], u.nu[r], u.ln_beta[r]) for r in range(R)]))
        params = dict(key=key, R=R, D=D, K=K, L=L, M=M, modes=modes, exact=exact)
        dimmap = dict(K=K, L=L, M=M)
        I = (np.eye(D), np.zeros(D))
        if key in SPEC:
            letters, dl, contr = SPEC[key]
            ks = [dimmap[c] for c in dl]
            md = list(modes)[:len(letters)]
            # an omitted matrix is the identity: only possible when that form's output dim equals D
            md = [((mm if (mm != 0 or kk == D) else 1), vm) for (mm, vm), kk in zip(md, ks)]
            forms = [draw_form(rng, R, kk, D, mo, exact) for kk, mo in zip(ks, md)]
            dims = {"Ax+a": (K,), "quad_inner": (K,), "quad_outer": (K, L), "cubic_inner": (K, L), "cubic_outer": (K, L),
                    "quartic_inner": (K, L), "quartic_outer": (K, L, M)}[key]
            r_ = m.integrate(reg, key, dims=dims, forms=forms)
            ref = np.stack([mass[r] * np.einsum(contr, E_forms([resolve(ma, ve, r, kk, D) for (ma, ve), kk in zip(forms, ks)], mu[r], S[r]))
                            for r in range(R)])
        elif key == "x":
            r_ = m.integrate(reg, "x"); ref = mass[:, None] * mu
        elif key == "xx'":
            r_ = m.integrate(reg, "xx'"); ref = mass[:, None, None] * (S + np.einsum("ri,rj->rij", mu, mu))
        elif key == "1":
            r_ = m.integrate(reg, "1"); ref = mass
        elif key == "xbxx":
            per = modes[0][0] == 2
            b = (rng.integers(-2, 3, size=(R, D)) if per else rng.integers(-2, 3, size=(D,))).astype(float) if exact else \
                (rng.standard_normal((R, D)) if per else rng.standard_normal(D))
            r_ = m.integrate(reg, "xbxx", b=b)
            ref = np.stack([mass[r] * np.einsum("ujw,j->uw", E_forms([I, I, I], mu[r], S[r]), b[r] if per else b) for r in range(R)])
        elif key == "xAxx":
            per = modes[0][0] == 2
            rnd = (lambda *s: rng.integers(-2, 3, size=s).astype(float)) if exact else (lambda *s: rng.standard_normal(s))
            A = rnd(R, 1, D) if per else rnd(1, D); a = rnd(R, 1) if per else rnd(1)
            r_ = m.integrate(reg, "xAxx", A=A, a=a)
            ref = np.stack([mass[r] * (np.einsum("ujw,j->uw", E_forms([I, I, I], mu[r], S[r]), (A[r] if per else A)[0])
                                        + (a[r] if per else a)[0] * E_forms([I, I], mu[r], S[r])) for r in range(R)])
        else:
            raise ValueError(key)
        if m.regs.get(r_) is None:
            fails.append(failure(PROPERTY, f"integrate:{key}", f"raised: {m.impl[-1][1:]}", params=params)); return fails
        got = np.asarray(m.regs[r_])
        if exact:
            m.exact_lines.add(len(m.lines) - 1)    # the model must reproduce the implementation bit for bit, too
            if got.shape != ref.shape or not np.array_equal(got, ref):
                fails.append(failure(PROPERTY, f"integrate:{key}", "exact mode: result differs from the exact moment (bit-exact comparison)",
                                     expected=ref.tolist(), got=got.tolist(), params=params))
        else:
            fail_if(fails, PROPERTY, f"integrate:{key}", "integral != mass × exact Gaussian moment", got, ref, params=params)
        return fails
    return Case(label, fn)


def case_history(R, D, sub):
    """integrals are functions of the measure's CURRENT parameters: integrate, change the measure in place (normalize(),
    density update), integrate again; and integrate after products built on an already integrated measure"""
    label = f"history/R{R}/D{D}/{sub}"
    def fn(m):
        rng = gen.rng_path(m.seed, label)
        fails = []
        params = dict(R=R, D=D, history=True)
        u = mk_measure(m, rng, R, D)
        S = np.linalg.inv(u.Lambda); mu = np.einsum("rij,rj->ri", S, u.nu)
        lm = np.array([log_gauss_integral(u.Lambda[r], u.nu[r], u.ln_beta[r]) for r in range(R)])
        I = (np.eye(D), np.zeros(D))
        def check(reg, mass, mu_, S_, when):
            for key, ref in (("1", mass), ("x", mass[:, None] * mu_), ("xx'", mass[:, None, None] * (S_ + np.einsum("ri,rj->rij", mu_, mu_)))):
                r_ = m.integrate(reg, key)
                if m.regs.get(r_) is None:
                    fails.append(failure(PROPERTY, f"integrate:{key}:{when}", f"raised: {m.impl[-1][1:]}", params=params)); continue
                fail_if(fails, PROPERTY, f"integrate:{key}:{when}", "integral != mass x exact Gaussian moment of the CURRENT measure", np.asarray(m.regs[r_]), ref, params=params)
            A = rng.standard_normal((2, D)); a = rng.standard_normal(2)
            r_ = m.integrate(reg, "quad_inner", dims=(2,), forms=[(A, a), (A, a)])
            ref = np.stack([mass[r] * np.einsum("uu->", E_forms([(A, a), (A, a)], mu_[r], S_[r])) for r in range(R)])
            if m.regs.get(r_) is not None:
                fail_if(fails, PROPERTY, f"integrate:quad_inner:{when}", "integral != mass x exact Gaussian moment of the CURRENT measure", np.asarray(m.regs[r_]), ref, params=params)
        # a product measure (Sherman-Morrison cache) whose mass was asked for through the light route BEFORE its first
        # polynomial integral, and another one that was normalised before its first integral
        for pre in ("log_integral_light", "normalize"):
            base = mk_measure(m, rng, R, D); g = mk_factor(m, rng, "onerank", 1, D)
            m.query("integral", base.reg)
            pr = m.hadamard(base.reg, g.reg, True)
            Lp = base.Lambda + g.Lambda; nup = base.nu + g.nu; lbp = base.ln_beta + g.ln_beta
            Sp = np.linalg.inv(Lp); mup = np.einsum("rij,rj->ri", Sp, nup)
            lmp = np.array([log_gauss_integral(Lp[r], nup[r], lbp[r]) for r in range(R)])
            m.query(pre, pr)
            check(pr, np.ones(R) if pre == "normalize" else np.exp(lmp), mup, Sp, f"product-after-{pre}")
            d_ = m.query("get_density", pr)
            if m.regs.get(d_) is None:
                fails.append(failure(PROPERTY, f"get_density:product-after-{pre}", f"raised: {m.impl[-1][1:]}", params=params))
        check(u.reg, np.exp(lm), mu, S, "fresh")
        m.query("normalize", u.reg)                      # in place: same Gaussian, mass one
        check(u.reg, np.ones(R), mu, S, "after-normalize")
        f = mk_factor(m, rng, "general", 1, D)           # product on top of the integrated, normalised measure
        h = m.hadamard(u.reg, f.reg, bool(rng.integers(0, 2)))
        L2 = u.Lambda + f.Lambda; nu2 = u.nu + f.nu; lb2 = (u.ln_beta - lm) + f.ln_beta
        S2 = np.linalg.inv(L2); mu2 = np.einsum("rij,rj->ri", S2, nu2)
        mass2 = np.exp(np.array([log_gauss_integral(L2[r], nu2[r], lb2[r]) for r in range(R)]))
        check(h, mass2, mu2, S2, "after-product")
        return fails
    return Case(label, fn)


ALL_KEYS = ["1", "x", "xx'", "Ax+a", "quad_inner", "quad_outer", "cubic_inner", "cubic_outer", "xAxx", "xbxx",
            "quartic_inner", "quartic_outer"]


def cases(seed, tier):
    rng = gen.rng_path(seed, "C03")
    out = []
    shapes = [(2, 3, 2, 4, 5), (1, 1, 1, 1, 1), (3, 2, 2, 3, 1), (2, 2, 2, 2, 2)]    # the last: every form may omit its matrix
    for _ in range(1 if tier == "quick" else 8):
        K, L, M = [int(x) for x in rng.permutation(5)[:3] + 1]
        shapes.append((int(rng.integers(1, 4)), int(rng.integers(1, 7)), K, L, M))
    mode_sets = [
        [(1, 1)] * 4,                       # all shared
        [(2, 2)] * 4,                       # all per component
        [(1, 2), (2, 1), (1, 1), (2, 2)],   # mixed
        [(0, 0), (1, 1), (0, 1), (1, 0)],   # defaults
        [(1, 0), (0, 0), (2, 2), (0, 2)],
        [(0, 1), (0, 2), (0, 1), (0, 2)],   # only the offset vectors given (matrices default to the identity)
        [(0, 2), (1, 1), (0, 0), (0, 1)],
    ]
    for si, (R, D, K, L, M) in enumerate(shapes):
        for key in ALL_KEYS:
            for mi, modes in enumerate(mode_sets):
                if key in ("1", "x", "xx'") and mi > 0:
                    continue
                if key in ("xbxx", "xAxx") and mi > 1:
                    continue
                if tier == "quick" and si == 2 and mi >= 3:
                    continue
                if si == 3 and mi < 3 and tier == "quick":
                    continue                # shape 3 is there for the default-handling mode sets
                for exact in (False, True):
                    if exact and (mi in (2, 4, 6)) and tier == "quick":
                        continue
                    out.append(case_key(key, R, D, K, L, M, modes, exact, f"s{si}m{mi}"))
    for i, (R, D) in enumerate([(2, 2), (1, 3)] + ([(3, 1), (2, 4)] if tier != "quick" else [])):
        out.append(case_history(R, D, i))
    return seeded(out, seed)
