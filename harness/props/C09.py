"""C09 — see DESIGN.md §5 C09.  Cases: every conditional class × batch regime × Dx⋛Dy."""
from .condfam import *
PROPERTY = "C09"
LEAN_MODULES = ["GT.Props.C09", "GT.Props.C09Id"]
ASSUMPTIONS = ["float64 rounding outside the theorems; inputs with condition number <= 1e4"]

def cases(seed, tier):
    out = [case_conditional(PROPERTY, *s) for s in shape_grid(seed, "C09", tier)]
    out += [case_conditional(PROPERTY, *s, tag="/pdiag") for s in pdiag_grid(seed, "C09", tier)]
    out += [case_conditional(PROPERTY, *s, tag="/upd") for s in upd_grid(seed, "C09", tier)]
    out += [case_conditional(PROPERTY, *s, tag=t) for s, t in ctor_grid(seed, "C09", tier)]
    out += [case_conditional(PROPERTY, *s, tag="/hd") for s in hd_grid(seed, "C09", tier)]
    out += [case_conditional(PROPERTY, *s) for s in nn_grid(seed, "C09", tier)]       # NN-controlled class through its own methods (u=...)
    return seeded(out, seed)
