"""C17 — heteroscedastic conditionals: coherent p(y|x) and valid, tight lower bounds (exp, cosh-1 links).
Cases and NumPy/SciPy oracles: props/approx_hetero.py."""
from . import approx_hetero
PROPERTY = "C17"
LEAN_MODULES = ["GT.Props.C17", "GT.Props.C17Trunc"]
ASSUMPTIONS = ["float64 rounding outside the theorems; true expectations by adaptive quadrature (Dx = 1) and converged "
               "tensor Gauss-Hermite (Dx >= 2), inequality up to 1e-7 + quadrature error",
               "step and rectified-linear links: modelled (GT/Model/HeteroTrunc.lean) and tied by the correspondence run; their "
               "bounds are validated against piecewise quadrature only (no theorem): step link equality, rectified-linear "
               "inequality and quadratic decay of the gap"]


def cases(seed, tier):
    return approx_hetero.c17_cases(seed, tier)
