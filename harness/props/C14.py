"""C14 — expected log-factor and expected log-conditional integrals."""
from .condfam import *
from oracle.isserlis import E_forms
PROPERTY = "C14"
LEAN_MODULES = ["GT.Props.C14", "GT.Props.C14Feature"]
ASSUMPTIONS = ["float64 rounding outside the theorems; feature models: Gauss-Hermite reference, Dx <= 2"]


def e_quad(mu, S, A, a, B, b):
    """E[(Ax+a)'(Bx+b)] under N(mu,S)"""
    return float(np.trace(A.T @ B @ S) + (A @ mu + a) @ (B @ mu + b))


def case_log_factor(kind, R, Rf, D):
    label = f"log_u/{kind}/R{R}/Rf{Rf}/D{D}"
    def fn(m):
        rng = gen.rng_path(m.seed, label)
        fails = []
        u = mk_measure(m, rng, R, D)
        f = mk_factor(m, rng, kind, Rf, D)
        params = dict(kind=kind, R=R, Rf=Rf, D=D)
        r_ = m.integrate(u.reg, "log_u", factor=f.reg)
        if m.regs.get(r_) is None:
            if Rf not in (1, R):
                return fails      # documented refusal
            fails.append(failure(PROPERTY, f"integrate:log_u:{kind}", f"raised: {m.impl[-1][1:]}", params=params)); return fails
        S = np.linalg.inv(u.Lambda); mu = np.einsum("rij,rj->ri", S, u.nu)
        mass = np.exp(np.array([log_gauss_integral(u.Lambda[r], u.nu[r], u.ln_beta[r]) for r in range(R)]))
        ref = np.zeros(R)
        for r in range(R):
            k = r if Rf > 1 else 0
            Exx = S[r] + np.outer(mu[r], mu[r])
            ref[r] = mass[r] * (-0.5 * np.trace(f.Lambda[k] @ Exx) + f.nu[k] @ mu[r] + f.ln_beta[k])
        fail_if(fails, PROPERTY, f"integrate:log_u:{kind}", "integrate('log u(x)') != ∫ ln f dφ", np.asarray(m.regs[r_]), ref, params=params)
        return fails
    return Case(label, fn)


def case_log_cond(cls, Rc, Rq, Dy, Dx, hist=False):
    label = f"log_cond/{cls}/Rc{Rc}/Rq{Rq}/Dy{Dy}Dx{Dx}" + ("/hist" if hist else "")
    def fn(m):
        rng = gen.rng_path(m.seed, label)
        fails = []
        c = mk_cond(m, rng, cls, Rc, Dy, Dx)
        q = mk_pdf(m, rng, Rq, Dy + Dx)       # ANY Gaussian over (y, x), y first
        if hist:                               # both operands were used once and then changed in place
            m.log_cond(c.reg, q.reg); mutate_cond(m, rng, c); mutate_pdf(m, rng, q)
        params = dict(cls=cls, Rc=Rc, Rq=Rq, Dy=Dy, Dx=Dx)
        r_ = m.log_cond(c.reg, q.reg)
        if m.regs.get(r_) is None:
            documented = (Rc != 1 and (cls in ("identity", "identitydiag") or Rc != Rq))
            if not documented:
                fails.append(failure(PROPERTY, f"integrate_log_conditional:{cls}", f"raised: {m.impl[-1][1:]}", params=params))
            return fails
        ref = np.zeros(Rq)
        for r in range(Rq):
            k = r if Rc > 1 else 0
            A = np.hstack([np.eye(Dy), -c.M[k]]); a = -c.b[k]
            L = np.linalg.inv(c.Sigma[k])
            ref[r] = -0.5 * (e_quad(q.mu[r], q.Sigma[r], A, a, L @ A, L @ a) + np.linalg.slogdet(c.Sigma[k])[1] + Dy * LOG2PI)
        fail_if(fails, PROPERTY, f"integrate_log_conditional:{cls}", "integrate_log_conditional(q) != E_q[ln p(y|x)]",
                np.asarray(m.regs[r_]), ref, params=params)
        return fails
    return Case(label, fn)


def case_log_cond_y(cls, Rp, N, Dy, Dx, callable_form, hist=False):
    label = f"log_cond_y/{cls}/Rp{Rp}/N{N}/Dy{Dy}Dx{Dx}/call{int(callable_form)}" + ("/hist" if hist else "")
    def fn(m):
        rng = gen.rng_path(m.seed, label)
        fails = []
        c = mk_cond(m, rng, cls, 1, Dy, Dx)
        p = mk_pdf(m, rng, Rp, Dx)
        y = gen.points(rng, N, Dy); yr = m.arr(y)
        if hist:
            m.log_cond_y(c.reg, p.reg, yr, callable_form=callable_form); mutate_cond(m, rng, c); mutate_pdf(m, rng, p)
        params = dict(cls=cls, Rp=Rp, N=N, Dy=Dy, Dx=Dx, callable_form=callable_form)
        r_ = m.log_cond_y(c.reg, p.reg, yr, callable_form=callable_form)
        if m.regs.get(r_) is None:
            fails.append(failure(PROPERTY, f"integrate_log_conditional_y:{cls}", f"raised: {m.impl[-1][1:]}", params=params)); return fails
        L = np.linalg.inv(c.Sigma[0])
        Ro = max(Rp, N)
        ref = np.zeros(Ro)
        for k in range(Ro):
            r = k if Rp > 1 else 0; n = k if N > 1 else 0
            A = -c.M[0]; a = y[n] - c.b[0]
            ref[k] = -0.5 * (e_quad(p.mu[r], p.Sigma[r], A, a, L @ A, L @ a) + np.linalg.slogdet(c.Sigma[0])[1] + Dy * LOG2PI)
        fail_if(fails, PROPERTY, f"integrate_log_conditional_y:{cls}", "integrate_log_conditional_y(p_x)(y) != E_p[ln p(y|x)]",
                np.asarray(m.regs[r_]), ref, params=params)
        return fails
    return Case(label, fn)


def case_callable_is_closed():
    """`f = cond.integrate_log_conditional_y(p_x)` is the function y -> E_{p_x}[ln p(y|x)] of the p_x it was given: changing p_x
    in place afterwards does not change f (implementation level; linear and feature classes)"""
    label = "log_cond_y/callable-closed"
    def fn(m):
        import jax.numpy as jnp
        from gaussian_toolbox import pdf as gt_pdf, conditional as gt_cond, approximate_conditional as gt_ac
        rng = gen.rng_path(m.seed, label)
        fails = []
        Dy, Dx, Dk = 2, 2, 2
        J = jnp.asarray
        S = gen.pd_batch(rng, 1, Dy); y = J(gen.points(rng, 1, Dy))
        conds = {
            "full": gt_cond.ConditionalGaussianPDF(M=J(rng.standard_normal((1, Dy, Dx))), b=J(rng.standard_normal((1, Dy))), Sigma=J(S)),
            "lsem": gt_ac.LSEMGaussianConditional(M=J(rng.standard_normal((1, Dy, Dx + Dk))), b=J(rng.standard_normal((1, Dy))), W=J(0.5 * rng.standard_normal((Dk, Dx + 1))), Sigma=J(S)),
            "rbf": gt_ac.LRBFGaussianConditional(M=J(rng.standard_normal((1, Dy, Dx + Dk))), b=J(rng.standard_normal((1, Dy))), mu=J(rng.standard_normal((Dk, Dx))), length_scale=J(np.ones((Dk, Dx))), Sigma=J(S)),
        }
        for name, c in conds.items():
            try:
                p = gt_pdf.GaussianPDF(Sigma=J(gen.pd_batch(rng, 1, Dx)), mu=J(rng.standard_normal((1, Dx))))
                f = c.integrate_log_conditional_y(p)
                v0 = np.asarray(f(y))
                direct = np.asarray(c.integrate_log_conditional_y(p, y=y))
                p.update(J(np.array([0])), gt_pdf.GaussianPDF(Sigma=J(gen.pd_batch(rng, 1, Dx)), mu=J(3.0 + rng.standard_normal((1, Dx)))))
                v1 = np.asarray(f(y))
            except Exception as e:
                fails.append(failure(PROPERTY, f"integrate_log_conditional_y:callable:{name}", f"raised: {type(e).__name__}: {str(e)[:160]}")); continue
            fail_if(fails, PROPERTY, f"integrate_log_conditional_y:callable:{name}", "callable form and y= form differ", v0, direct)
            fail_if(fails, PROPERTY, f"integrate_log_conditional_y:callable:{name}", "the callable changed when p_x was updated in place afterwards", v1, v0)
        return fails
    return Case(label, fn)


def cases(seed, tier):
    rng = gen.rng_path(seed, "C14")
    out = []
    for kind in ("general", "onerank", "linear", "constant", "measure", "pdf"):
        for (R, Rf, D) in [(3, 1, 2), (2, 2, 3), (1, 1, 1)] + ([(int(rng.integers(1, 5)), 1, int(rng.integers(1, 5)))] if tier != "quick" else []):
            out.append(case_log_factor(kind, R, Rf, D))
    grid = [("full", 1, 1, 2, 3), ("full", 1, 3, 1, 2), ("full", 2, 2, 2, 1), ("diag", 1, 2, 3, 2),
            ("identity", 1, 2, 2, 2), ("identitydiag", 1, 1, 3, 3)]
    for _ in range(2 if tier == "quick" else 16):
        cls = COND_CLASSES[int(rng.integers(0, 4))]
        Dy, Dx = dims_for(cls, rng)
        grid.append((cls, 1, int(rng.integers(1, 4)), Dy, Dx))
    for g in grid:
        out.append(case_log_cond(*g))
    for i, (cls, Rc, Rq, Dy, Dx) in enumerate(grid):
        N = Rq
        out.append(case_log_cond_y(cls, Rq, N, Dy, Dx, bool(i % 2)))
        out.append(case_log_cond_y(cls, 1, max(N, 2), Dy, Dx, bool((i + 1) % 2)))
    for (cls, Rq, Dy, Dx) in [("full", 2, 2, 3), ("identity", 1, 2, 2), ("diag", 3, 1, 2)]:
        out.append(case_log_cond(cls, 1, Rq, Dy, Dx, hist=True))
        out.append(case_log_cond_y(cls, Rq, Rq, Dy, Dx, Rq % 2 == 0, hist=True))
    out.append(case_callable_is_closed())
    from . import approx
    out.extend(approx.c14_cases(seed, tier))
    return seeded(out, seed)
