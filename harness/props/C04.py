"""C04 — cached covariance, log-determinants, mean and log-partition always match, for every
history; results do not depend on earlier read-only queries."""
from .condfam import *
PROPERTY = "C04"
LEAN_MODULES = ["GT.Props.C04", "GT.Props.C04Ext"]
ASSUMPTIONS = ["float64 rounding outside the theorems; histories sampled (length <= 8 quick, <= 20 thorough), the theorems cover all lengths"]

QUERIES = ["integral", "log_integral", "log_integral_light", "integral_light", "evaluate", "get_density", "integrate_x"]


def check_inv(m, fails, reg, site, params):
    check_inv_obj(fails, m.regs.get(reg), site, params)


def check_roundtrips(fails, o, site, params):
    """whatever travels with an object across a transformation boundary (pytree flatten/unflatten, to_dict/from_dict where
    the class offers it) is consistent with the object's own parameters: the invariant holds for the rebuilt object and after
    the first query on it"""
    import jax
    if o is None or not hasattr(o, "Lambda"):
        return
    rebuilt = []
    try:
        leaves, treedef = jax.tree_util.tree_flatten(o)
        rebuilt.append(("unflatten", jax.tree_util.tree_unflatten(treedef, leaves)))
    except Exception as e:
        fails.append(failure(PROPERTY, site + ":unflatten", f"raised: {type(e).__name__}: {str(e)[:160]}", params=params))
    if hasattr(o, "to_dict") and hasattr(type(o), "from_dict"):
        try:
            rebuilt.append(("from_dict", type(o).from_dict(o.to_dict())))
        except Exception as e:
            fails.append(failure(PROPERTY, site + ":from_dict", f"raised: {type(e).__name__}: {str(e)[:160]}", params=params))
    for how, o2 in rebuilt:
        check_inv_obj(fails, o2, f"{site}:{how}", params)
        if hasattr(o2, "log_integral") and hasattr(o, "log_integral"):
            fail_if(fails, PROPERTY, f"{site}:{how}:log_integral", "mass of the rebuilt object differs", np.asarray(o2.log_integral()), np.asarray(o.log_integral()), tol=1e-7, params=params)
            check_inv_obj(fails, o2, f"{site}:{how}:after-query", params)


def check_inv_obj(fails, o, site, params):
    if o is None or not hasattr(o, "Lambda"):
        return
    L = np.asarray(o.Lambda); R, D = L.shape[0], L.shape[1]
    S = getattr(o, "Sigma", None)
    tol = 1e-7
    if S is not None:
        S = np.asarray(S)
        eye = np.tile(np.eye(D)[None], (R, 1, 1))
        fail_if(fails, PROPERTY, site + ":Sigma*Lambda", "covariance times precision is not the identity", np.einsum("rij,rjk->rik", S, L), eye, tol=tol, params=params)
        lds = getattr(o, "ln_det_Sigma", None)
        if lds is not None:
            fail_if(fails, PROPERTY, site + ":ln_det_Sigma", "ln_det_Sigma is not the log-determinant of Sigma", np.asarray(lds), np.linalg.slogdet(S)[1], tol=tol, params=params)
            fail_if(fails, PROPERTY, site + ":ln_det_Sigma", "ln_det_Sigma is not -log det Lambda", np.asarray(lds), -np.linalg.slogdet(L)[1], tol=tol, params=params)
        ldl = getattr(o, "ln_det_Lambda", None)
        if ldl is not None:
            fail_if(fails, PROPERTY, site + ":ln_det_Lambda", "ln_det_Lambda is not the log-determinant of Lambda", np.asarray(ldl), np.linalg.slogdet(L)[1], tol=tol, params=params)
    if hasattr(o, "nu"):
        nu = np.asarray(o.nu)
        mu = getattr(o, "mu", None)
        if mu is not None:
            fail_if(fails, PROPERTY, site + ":mu", "mu != Sigma nu", np.asarray(mu), np.stack([np.linalg.solve(L[r], nu[r]) for r in range(R)]), tol=tol, params=params)
        lnZ = getattr(o, "lnZ", None)
        if lnZ is not None:
            ref = np.array([0.5 * (nu[r] @ np.linalg.solve(L[r], nu[r]) + D * LOG2PI - np.linalg.slogdet(L[r])[1]) for r in range(R)])
            fail_if(fails, PROPERTY, site + ":lnZ", "lnZ is not the Gaussian log-normaliser", np.asarray(lnZ), ref, tol=tol, params=params)


def do_query(m, rng, reg):
    o = m.regs.get(reg)
    if o is None or not hasattr(o, "integrate"):
        return
    q = QUERIES[int(rng.integers(0, len(QUERIES)))]
    if q == "evaluate":
        x = m.arr(gen.points(rng, 2, o.D)); m.evalln(reg, x)
    elif q == "integrate_x":
        m.integrate(reg, "x")
    else:
        m.query(q, reg)


def history(m, seed_label, steps, with_queries, fails, params):
    """one random history; all random choices for the *operations* come from `rng`, the interleaved
    queries from `qrng`, so that the same history can be run with and without queries"""
    rng = gen.rng_path(m.seed, seed_label)
    qrng = gen.rng_path(m.seed, seed_label, "queries")
    D = int(rng.integers(1, 4)); R = int(rng.integers(1, 3))
    start = int(rng.integers(0, 6))     # full measure / full density twice as likely as the diagonal classes
    cur = (mk_measure(m, rng, R, D).reg if start in (0, 1) else mk_pdf(m, rng, R, D).reg if start in (2, 3)
           else mk_measure(m, rng, R, D, diag=True).reg if start == 4 else mk_pdf(m, rng, R, D, diag=True).reg)
    trace = []
    for s in range(steps):
        o = m.regs.get(cur)
        if o is None:
            break
        if with_queries and qrng.random() < 0.7:
            do_query(m, qrng, cur)
        R, D = o.R, o.D
        is_pdf = hasattr(o, "get_marginal")
        ops = ["multiply", "hadamard", "hadamard1", "product", "slice", "get_density"]
        if is_pdf:
            ops += ["joint", "marginal", "condition", "posterior", "linear_sum", "update"]
            if D >= 2:
                ops += ["get_marginal"]
        if not is_pdf and rng.random() < 0.3:
            ops = ["get_density"]           # come back to a density: the density-only operations are part of the histories
        elif is_pdf and rng.random() < 0.5:
            ops = [x for x in ops if x in ("joint", "marginal", "condition", "posterior", "linear_sum", "update", "get_marginal")]
        op = ops[int(rng.integers(0, len(ops)))]
        kind = ["general", "onerank", "linear", "constant", "measure"][int(rng.integers(0, 5))]
        uf = bool(rng.integers(0, 2))
        if op == "multiply" and R <= 3:
            f = mk_factor(m, rng, kind, int(rng.integers(1, 3)), D)
            if with_queries and kind == "measure" and qrng.random() < 0.5:
                do_query(m, qrng, f.reg)
            nxt = m.multiply(cur, f.reg, uf)
        elif op in ("hadamard", "multiply"):
            f = mk_factor(m, rng, kind, R, D)
            if with_queries and kind == "measure" and qrng.random() < 0.5:
                do_query(m, qrng, f.reg)
            nxt = m.hadamard(cur, f.reg, uf)
        elif op == "hadamard1":
            if R == 1 and rng.random() < 0.5:      # one-component measure, batched factor (broadcast of the measure)
                f = mk_factor(m, rng, kind, int(rng.integers(2, 4)), D)
            else:
                f = mk_factor(m, rng, kind, 1, D)
            nxt = m.hadamard(cur, f.reg, uf)
        elif op == "product":
            nxt = m.product(cur)
        elif op == "slice":
            nxt = m.slice(cur, gen.index_array(rng, R, N=int(rng.integers(1, 4))))
        elif op == "get_density":
            nxt = m.query("get_density", cur)
        elif op == "update":
            # in-place replacement of some components: every cache of the addressed components must follow
            K = int(rng.integers(1, R + 1))
            d = mk_pdf(m, rng, K, D, diag=(type(o).__name__ == "GaussianDiagPDF"), scale=2.0)
            m.update(cur, rng.permutation(R)[:K], d.reg)
            nxt = cur
        elif op == "get_marginal":
            nxt = m.get_marginal(cur, gen.subset(rng, D, proper=True))
        elif op == "linear_sum":
            K = int(rng.integers(1, D + 1))
            W = np.stack([gen.orth(rng, D)[:K] * rng.uniform(0.5, 2.0, (K, 1)) for _ in range(R)])
            nxt = m.linear_sum(cur, W)
        elif op in ("joint", "marginal", "posterior", "condition"):
            cls = COND_CLASSES[int(rng.integers(0, 4))]
            Dy = D if cls.startswith("identity") else int(rng.integers(1, 3))
            c = mk_cond(m, rng, cls, 1, Dy, D)
            if op == "joint":
                nxt = m.transform("joint", c.reg, cur)
            elif op == "marginal":
                nxt = m.transform("marginal", c.reg, cur)
            elif op == "posterior":
                post = m.transform("conditional", c.reg, cur)
                y = m.arr(gen.points(rng, 1, Dy))
                nxt = m.condition_on_x(post, y) if m.regs.get(post) is not None else None
            else:
                j = m.transform("joint", c.reg, cur)
                if m.regs.get(j) is not None:
                    cc = m.condition_on(j, list(range(D, D + Dy)))
                    y = m.arr(gen.points(rng, 1, Dy))
                    nxt = m.condition_on_x(cc, y) if m.regs.get(cc) is not None else None
                else:
                    nxt = None
        else:
            nxt = None
        if nxt is None or m.regs.get(nxt) is None:
            fails.append(failure(PROPERTY, f"history:{op}", f"operation raised in a history: {m.impl[-1][1:]}", params=dict(params, step=s, op=op, kind=kind)))
            break
        trace.append((op, kind, uf))
        check_inv(m, fails, nxt, f"history:{op}:{kind}", dict(params, step=s, op=op, kind=kind, uf=uf, trace=[t[0] for t in trace]))
        if rng.random() < 0.35:
            check_roundtrips(fails, m.regs.get(nxt), f"history:{op}:{kind}:roundtrip", dict(params, step=s, op=op, kind=kind, uf=uf))
        if nxt != cur:       # the operand of the step keeps consistent caches, too
            check_inv(m, fails, cur, f"history:{op}:{kind}:operand", dict(params, step=s, op=op, kind=kind, uf=uf, trace=[t[0] for t in trace]))
        cur = nxt
        if m.regs[cur].R > 8:
            cur = m.slice(cur, [0, 1])
    return cur, trace


def case_history(i, steps):
    label = f"history/{i}/len{steps}"
    def fn(m):
        fails = []
        params = dict(history=i, steps=steps)
        a, tr = history(m, label, steps, True, fails, params)
        b, _ = history(m, label, steps, False, [], params)
        oa, ob = m.regs.get(a), m.regs.get(b)
        if oa is not None and ob is not None:
            da, db = dump_obj(oa), dump_obj(ob)
            for k in ("Lambda", "nu", "ln_beta"):
                fail_if(fails, PROPERTY, "query-independence:" + k, "result depends on read-only queries made beforehand",
                        da["fields"][k], db["fields"][k], tol=1e-7, params=dict(params, trace=[t[0] for t in tr]))
            for k in da["fields"]:
                if k in db["fields"]:
                    fail_if(fails, PROPERTY, "query-independence:" + k, "exposed cache depends on read-only queries made beforehand",
                            da["fields"][k], db["fields"][k], tol=1e-7, params=dict(params, trace=[t[0] for t in tr]))
            # final mass through both paths
            la = m.query("log_integral", a); lb = m.query("log_integral", b)
            fail_if(fails, PROPERTY, "query-independence:log_integral", "mass depends on read-only queries made beforehand",
                    np.asarray(m.regs[la]), np.asarray(m.regs[lb]), tol=1e-7, params=params)
            check_inv(m, fails, a, "history:final", params)
        return fails
    return Case(label, fn)


def case_update(R, D, diag, q):
    """density with filled caches (query q) -> update(idx, d) in place -> every cache follows; then a product on top"""
    label = f"update/R{R}/D{D}/diag{int(diag)}/{q}"
    def fn(m):
        rng = gen.rng_path(m.seed, label)
        fails = []
        params = dict(R=R, D=D, diag=diag, query=q)
        p = mk_pdf(m, rng, R, D, diag=diag)
        if q == "integrate_x":
            m.integrate(p.reg, "x")
        elif q != "none":
            m.query(q, p.reg)
        K = int(rng.integers(1, R + 1))
        d = mk_pdf(m, rng, K, D, diag=diag, scale=2.0)
        m.update(p.reg, rng.permutation(R)[:K], d.reg)
        check_inv(m, fails, p.reg, "update", params)
        r = m.query("log_integral", p.reg)
        fail_if(fails, PROPERTY, "update:log_integral", "mass of a density after update() != 1", np.asarray(m.regs[r]), np.zeros(R), tol=1e-7, params=params, signed_dev=True)
        f = mk_factor(m, rng, "onerank", 1, D)
        h = m.hadamard(p.reg, f.reg, bool(rng.integers(0, 2)))
        check_inv(m, fails, h, "update:hadamard", params)
        return fails
    return Case(label, fn)


def case_single(kind, uf, cached, R1, R2, D, diag=False):
    """one product via the fast path (cached covariance) against full inversion; diag: the left operand is a
    GaussianDiagMeasure (the factor is not diagonal in general, so the product must not be treated as diagonal)"""
    label = f"paths/{kind}/uf{int(uf)}/cached{int(cached)}/R{R1}x{R2}/D{D}" + ("/diag" if diag else "")
    def fn(m):
        rng = gen.rng_path(m.seed, label)
        fails = []
        u = mk_measure(m, rng, R1, D, diag=diag); f = mk_factor(m, rng, kind, R2, D)
        params = dict(kind=kind, uf=uf, cached=cached, R1=R1, R2=R2, D=D, diag=diag)
        if cached:
            m.query("integral", u.reg)
            if kind == "measure":
                m.query("log_integral", f.reg)      # a measure used as the factor, with its own caches filled
        for op in ("multiply", "hadamard"):
            if op == "hadamard" and R1 != R2 and R2 != 1 and R1 != 1:
                continue
            r = m.multiply(u.reg, f.reg, uf) if op == "multiply" else m.hadamard(u.reg, f.reg, uf)
            check_inv(m, fails, r, f"{op}:{kind}", params)
            check_roundtrips(fails, m.regs.get(r), f"{op}:{kind}:roundtrip", params)
            # the operands are not modified, and whatever was cached in them meanwhile is consistent with THEIR parameters
            check_inv(m, fails, u.reg, f"{op}:{kind}:left-operand", params)
            if kind == "measure":
                check_inv(m, fails, f.reg, f"{op}:{kind}:right-operand", params)
            if m.regs.get(r) is not None:
                m.query("integral", r)
                check_inv(m, fails, r, f"{op}:{kind}:after-integral", params)
                d = m.query("get_density", r)
                check_inv(m, fails, d, f"{op}:{kind}:get_density", params)
        return fails
    return Case(label, fn)


def cases(seed, tier):
    out = []
    n_hist = 10 if tier == "quick" else 60
    for i in range(n_hist):
        out.append(case_history(i, 8 if tier == "quick" else 8 + (i % 13)))
    rng = gen.rng_path(seed, "C04")
    for kind in ("general", "onerank", "linear", "constant", "measure"):
        for cached in (False, True):
            out.append(case_single(kind, True, cached, 2, 3, 3))
            out.append(case_single(kind, True, cached, 1, 2, 2))
            out.append(case_single(kind, False, cached, 2, 2, 3))
            out.append(case_single(kind, True, cached, 1, 3, 2))
            out.append(case_single(kind, True, cached, 2, 2, 2))
        for uf in (False, True):
            out.append(case_single(kind, uf, bool(uf), 2, 2, 3, diag=True))
    for i, q in enumerate(["log_integral", "integral_light", "integrate_x", "none"]):
        out.append(case_update(2 + i % 2, 1 + i % 3, bool(i % 2), q))
    return seeded(out, seed)
