"""C16 — moment matching of approximate conditionals is exact (DESIGN.md §5 C16).

Feature models (linear + RBF features, linear + squared-exponential features): props/approx.py.
Heteroscedastic models: props/approx_hetero.py (`c16_hetero_cases`), if present."""
from .common import seeded
from . import approx
PROPERTY = "C16"
LEAN_MODULES = ["GT.Props.C16", "GT.Props.C16Trunc", "GT.Props.C16Joint"]
ASSUMPTIONS = ["float64 rounding outside the theorems; inputs with condition number <= 1e4",
               "feature models: Gauss-Hermite reference (Dx <= 2, two orders compared) and closed-form Gaussian integrals (any Dx)"]


def cases(seed, tier):
    out = list(approx.c16_feature_cases(seed, tier))
    try:
        from . import approx_hetero
        out.extend(approx_hetero.c16_hetero_cases(seed, tier))
    except (ImportError, AttributeError):
        pass
    return seeded(out, seed)


def evidence_extra():
    return approx.evidence_extra()
