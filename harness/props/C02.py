"""C02 — reported mass equals the true integral; densities integrate to one."""
from .condfam import *
PROPERTY = "C02"
LEAN_MODULES = ["GT.Props.C02"]
ASSUMPTIONS = ["float64 rounding outside the theorems; inputs with condition number <= 1e4"]


def mass_of(obj):
    """log ∫ of the function the object evaluates to, from its exposed natural parameters (NumPy)"""
    L = np.asarray(obj.Lambda); nu = np.asarray(obj.nu); lb = np.asarray(obj.ln_beta)
    return np.array([log_gauss_integral(L[r], nu[r], lb[r]) for r in range(L.shape[0])])


def check_density(m, fails, reg, site, params=None):
    o = m.regs.get(reg)
    if o is None:
        fails.append(failure(PROPERTY, site, f"raised: {m.impl[-1][1:]}", params=params))
        return
    lm = mass_of(o)
    fail_if(fails, PROPERTY, site, "object presented as a density does not integrate to one (log-mass != 0)",
            lm, np.zeros_like(lm), params=params, signed_dev=True)
    r = m.query("integral", reg)
    fail_if(fails, PROPERTY, site, "integral() of a density != 1", np.asarray(m.regs[r]), np.ones_like(lm), params=params)


def case_measure(R, D, diag, kind_hist):
    label = f"mass/R{R}/D{D}/diag{int(diag)}/{kind_hist}"
    def fn(m):
        rng = gen.rng_path(m.seed, label)
        fails = []
        u = mk_measure(m, rng, R, D, diag=diag)
        reg = u.reg
        L, nu, lb = u.Lambda, u.nu, u.ln_beta
        if kind_hist == "multiplied":
            f = mk_factor(m, rng, "onerank", 1, D)
            reg = m.hadamard(reg, f.reg, True)
            L = L + f.Lambda; nu = nu + f.nu; lb = lb + f.ln_beta
        elif kind_hist == "sliced":
            idx = gen.index_array(rng, R)
            m.query("log_integral_light", reg)
            reg = m.slice(reg, idx)
            L, nu, lb = L[idx], nu[idx], lb[idx]
        ref = np.array([log_gauss_integral(L[r], nu[r], lb[r]) for r in range(L.shape[0])])
        params = dict(R=R, D=D, diag=diag, hist=kind_hist)
        for q in ("log_integral_light", "log_integral"):
            r = m.query(q, reg)
            fail_if(fails, PROPERTY, q, f"{q}() != log of the integral of the evaluated function", np.asarray(m.regs[r]), ref, params=params, signed_dev=True)
        for q in ("integral_light", "integral"):
            r = m.query(q, reg)
            fail_if(fails, PROPERTY, q, f"{q}() != integral of the evaluated function", np.asarray(m.regs[r]), np.exp(ref), params=params)
        r = m.integrate(reg, "1")
        fail_if(fails, PROPERTY, "integrate('1')", "integrate('1') != integral", np.asarray(m.regs[r]), np.exp(ref), params=params)
        # normalising yields u(x) / ∫u
        x = gen.points(rng, 3, D); xr = m.arr(x)
        before = np.asarray(m.regs[m.evalln(reg, xr)])
        m.query("normalize", reg)
        after = np.asarray(m.regs[m.evalln(reg, xr)])
        fail_if(fails, PROPERTY, "normalize", "normalize() does not yield u(x)/∫u", after, before - ref[:, None], params=params)
        d = m.query("get_density", reg)
        check_density(m, fails, d, "get_density", params)
        evd = np.asarray(m.regs[m.evalln(d, xr)])
        fail_if(fails, PROPERTY, "get_density", "get_density() does not evaluate to u(x)/∫u", evd, before - ref[:, None], params=params)
        return fails
    return Case(label, fn)


def case_ctor(R, D, diag, give):
    label = f"ctor/R{R}/D{D}/diag{int(diag)}/give{give}"
    def fn(m):
        rng = gen.rng_path(m.seed, label)
        fails = []
        p = mk_pdf(m, rng, R, D, diag=diag, give=give)
        params = dict(R=R, D=D, diag=diag, give=give)
        check_density(m, fails, p.reg, f"GaussianPDF(give={give},diag={diag})", params)
        x = gen.points(rng, 3, D); xr = m.arr(x)
        ev = np.asarray(m.regs[m.evalln(p.reg, xr)])
        exp = np.stack([normal_logpdf(x, p.mu[r], p.Sigma[r]) for r in range(R)])
        fail_if(fails, PROPERTY, "GaussianPDF", "density value != N(x; mu, Sigma)", ev, exp, params=params)
        idx = gen.index_array(rng, R)
        check_density(m, fails, m.slice(p.reg, idx), "slice", params)
        if D >= 2:
            dims = gen.subset(rng, D, proper=False)
            check_density(m, fails, m.get_marginal(p.reg, dims), "get_marginal", params)
            dy = gen.subset(rng, D, proper=True)
            c = m.condition_on(p.reg, dy)
            xb = m.arr(gen.points(rng, 2, len(dy)))
            check_density(m, fails, m.condition_on_x(c, xb), "condition_on_x", params)
        W = rng.standard_normal((R, max(1, D - 1), D))
        check_density(m, fails, m.linear_sum(p.reg, W), "get_density_of_linear_sum", params)
        # update(idx, d): the object is still presented as a density, every component must still integrate to one
        K = min(2, R)
        uidx = rng.permutation(R)[:K]
        d = mk_pdf(m, rng, K, D, diag=diag, scale=2.0)
        m.query("log_integral", p.reg)            # fill the caches of the object that is updated in place
        m.update(p.reg, uidx, d.reg)
        check_density(m, fails, p.reg, "update", dict(params, uidx=[int(i) for i in uidx]))
        r = m.integrate(p.reg, "x")
        mu_exp = p.mu.copy(); mu_exp[uidx] = d.mu
        fail_if(fails, PROPERTY, "update", "mean (integrate('x')) after update() is not the mean of the addressed/new components",
                np.asarray(m.regs[r]), mu_exp, params=params)
        return fails
    return Case(label, fn)


def case_far_mean(D, dist):
    """densities whose mean is far from the origin (|mu| ~ dist standard deviations): the natural parameters are large
    (mu' Lambda mu / 2 beyond the float64 exponent range for dist >= 40) while every value of the density is an ordinary
    number; evaluate(), evaluate_ln() and the mass must agree with the closed form"""
    label = f"far-mean/D{D}/dist{dist:g}"
    def fn(m):
        rng = gen.rng_path(m.seed, label)
        fails = []
        R = 2
        S = gen.pd_batch(rng, R, D)
        dirs = rng.standard_normal((R, D)); dirs /= np.linalg.norm(dirs, axis=1, keepdims=True)
        mu = dist * dirs * np.sqrt(np.array([np.max(np.linalg.eigvalsh(S[r])) for r in range(R)]))[:, None]
        params = dict(R=R, D=D, dist=dist)
        reg = m.pdf(R, D, S, mu)
        if m.regs.get(reg) is None:
            fails.append(failure(PROPERTY, "GaussianPDF", f"raised: {m.impl[-1][1:]}", params=params)); return fails
        x = np.concatenate([mu[:1], mu[:1] + rng.standard_normal((2, D)) @ np.linalg.cholesky(S[0]).T])
        xr = m.arr(x)
        ln_ref = np.stack([normal_logpdf(x, mu[r], S[r]) for r in range(R)])
        ev = np.asarray(m.regs[m.evalln(reg, xr)])
        fail_if(fails, PROPERTY, "evaluate_ln:far-mean", "log-density != ln N(x; mu, Sigma)", ev, ln_ref, params=params, tol=1e-7)
        val = np.asarray(m.regs[m.evaluate(reg, xr)])
        ref = np.exp(ln_ref)
        if not np.all(np.isfinite(val[0])):
            fails.append(failure(PROPERTY, "evaluate:far-mean", "density value not finite at / near its own mean", expected=ref[0].tolist(), got=val[0].tolist(), params=params))
        else:
            fail_if(fails, PROPERTY, "evaluate:far-mean", "density value != N(x; mu, Sigma)", val[0], ref[0], params=params, tol=1e-6)
        r_ = m.query("log_integral", reg)
        fail_if(fails, PROPERTY, "log_integral:far-mean", "log_integral() of a density != 0", np.asarray(m.regs[r_]), np.zeros(R), params=params, tol=1e-6, signed_dev=True)
        return fails
    return Case(label, fn)


def case_near_duplicates(D, eps):
    """a batch whose covariances agree to ~eps (relative) without being identical — e.g. filter covariances close to
    their steady state: every component is inverted on its own"""
    label = f"near-duplicates/D{D}/eps{eps:g}"
    def fn(m):
        rng = gen.rng_path(m.seed, label)
        fails = []
        R = 3
        S0 = gen.pd_batch(rng, 1, D)[0]
        E = rng.uniform(-1.0, 1.0, (R, D, D)); E = 0.5 * (E + np.transpose(E, (0, 2, 1)))
        S = np.stack([S0 * (1.0 + eps * r * E[r]) for r in range(R)])      # entrywise relative perturbation
        mu = np.tile(rng.standard_normal((1, D)), (R, 1)) + eps * rng.standard_normal((R, D))
        params = dict(R=R, D=D, eps=eps)
        for give, kw in ((0, {}), (1, dict(Lambda=np.linalg.inv(S)))):
            reg = m.pdf(R, D, S, mu, **kw)
            o = m.regs.get(reg)
            if o is None:
                fails.append(failure(PROPERTY, "GaussianPDF", f"raised: {m.impl[-1][1:]}", params=params)); continue
            fail_if(fails, PROPERTY, f"near-duplicates:give{give}:ln_det_Sigma", "ln det Sigma of a component is not its own log-determinant", np.asarray(o.ln_det_Sigma), np.linalg.slogdet(S)[1], params=params, tol=1e-10)
            fail_if(fails, PROPERTY, f"near-duplicates:give{give}:Lambda", "precision of a component is not the inverse of its own covariance", np.asarray(o.Lambda), np.linalg.inv(S), params=params, tol=1e-9)
            check_density(m, fails, reg, f"near-duplicates:give{give}", params)
        u = m.measure(R, D, np.linalg.inv(S), np.einsum("rij,rj->ri", np.linalg.inv(S), mu), np.zeros(R))
        r_ = m.query("log_integral", u)
        ref = np.array([log_gauss_integral(np.linalg.inv(S[r]), np.linalg.inv(S[r]) @ mu[r], 0.0) for r in range(R)])
        fail_if(fails, PROPERTY, "near-duplicates:measure:log_integral", "log_integral of a component is not its own mass", np.asarray(m.regs[r_]), ref, params=params, tol=1e-10)
        return fails
    return Case(label, fn)


def case_highdim(D, scale):
    """diagonal densities of high dimension with uniformly small / large variances: well conditioned (condition number 4),
    but det Sigma itself is far outside the float64 range, the log-determinant is not (C02 quantifies over all D)"""
    label = f"highdim/diag/D{D}/scale{scale:g}"
    def fn(m):
        rng = gen.rng_path(m.seed, label)
        fails = []
        R = 2
        var = scale * rng.uniform(0.5, 2.0, (R, D))
        S = np.stack([np.diag(v) for v in var]); mu = gen.vec_batch(rng, R, D, 1.0) * np.sqrt(scale)
        params = dict(R=R, D=D, diag=True, scale=scale)
        ld = np.sum(np.log(var), axis=1)
        for give, kw in ((0, {}), (1, dict(Lambda=np.stack([np.diag(1.0 / v) for v in var])))):
            reg = m.pdf(R, D, S, mu, diag=True, **kw)
            o = m.regs.get(reg)
            if o is None:
                fails.append(failure(PROPERTY, f"GaussianDiagPDF(give={give})", f"raised: {m.impl[-1][1:]}", params=params)); continue
            fail_if(fails, PROPERTY, f"GaussianDiagPDF(give={give}):ln_det_Sigma", "ln det Sigma != sum of the log variances",
                    np.asarray(o.ln_det_Sigma), ld, params=params)
            x = mu[0][None] + np.sqrt(var[0])[None] * rng.standard_normal((2, D))
            ev = np.asarray(m.regs[m.evalln(reg, m.arr(x))])
            exp = np.stack([-0.5 * (np.sum((x - mu[r]) ** 2 / var[r], axis=1) + D * LOG2PI + ld[r]) for r in range(R)])
            fail_if(fails, PROPERTY, f"GaussianDiagPDF(give={give})", "density value != N(x; mu, Sigma)", ev, exp, params=params)
            r = m.query("log_integral", reg)
            fail_if(fails, PROPERTY, f"GaussianDiagPDF(give={give}):log_integral", "log_integral() of a density != 0",
                    np.asarray(m.regs[r]), np.zeros(R), params=params, signed_dev=True)
        return fails
    return Case(label, fn)


def case_transform(cls, Rc, Rx, Dy, Dx):
    label = f"transform/{cls}/R{Rc}x{Rx}/Dy{Dy}Dx{Dx}"
    def fn(m):
        rng = gen.rng_path(m.seed, label)
        fails = []
        c = mk_cond(m, rng, cls, Rc, Dy, Dx)
        p = mk_pdf(m, rng, Rx, Dx)
        params = dict(cls=cls, Rc=Rc, Rx=Rx, Dy=Dy, Dx=Dx)
        check_density(m, fails, m.transform("joint", c.reg, p.reg), f"affine_joint_transformation:{cls}", params)
        check_density(m, fails, m.transform("marginal", c.reg, p.reg), f"affine_marginal_transformation:{cls}", params)
        post = m.transform("conditional", c.reg, p.reg)
        if m.regs.get(post) is not None:
            yb = m.arr(gen.points(rng, 2, Dy))
            check_density(m, fails, m.condition_on_x(post, yb), f"affine_conditional_transformation:{cls}:condition_on_x", params)
        xb = m.arr(gen.points(rng, 2, Dx))
        check_density(m, fails, m.condition_on_x(c.reg, xb), f"condition_on_x:{cls}", params)
        return fails
    return Case(label, fn)


def cases(seed, tier):
    rng = gen.rng_path(seed, "C02")
    out = []
    shapes = [(1, 1), (2, 3), (3, 2)] + [(int(rng.integers(1, 5)), int(rng.integers(1, 5))) for _ in range(2 if tier == "quick" else 10)]
    for i, (R, D) in enumerate(shapes):
        for hist in ("fresh", "multiplied", "sliced"):
            out.append(case_measure(R, D, bool(i % 2), hist))
        for give in (0, 1, 2):
            out.append(case_ctor(R, D, bool((i + give) % 2), give))
    for s in shape_grid(seed, "C02t", tier)[:8 if tier == "quick" else None]:
        out.append(case_transform(*s))
    for D, scale in [(96, 1e-4), (96, 1e4)] + ([] if tier == "quick" else [(160, 1e-3), (48, 1e-8), (128, 1e3)]):
        out.append(case_highdim(D, scale))
    out.append(case_near_duplicates(3, 1e-6)); out.append(case_near_duplicates(2, 3e-6))
    for D, dist in [(1, 45.0), (2, 60.0)] + ([] if tier == "quick" else [(3, 100.0), (1, 10.0)]):
        out.append(case_far_mean(D, dist))
    return seeded(out, seed)
