"""C07 — see DESIGN.md §5 C07.  Cases: every conditional class × batch regime × Dx⋛Dy."""
from .condfam import *
PROPERTY = "C07"
LEAN_MODULES = ["GT.Props.C07"]
ASSUMPTIONS = ["float64 rounding outside the theorems; inputs with condition number <= 1e4"]

def cases(seed, tier):
    out = [case_joint(PROPERTY, *s) for s in shape_grid(seed, "C07", tier)]
    out += [case_joint(PROPERTY, *s, tag="/pdiag") for s in pdiag_grid(seed, "C07", tier)]
    out += [case_joint(PROPERTY, *s, tag="/upd") for s in upd_grid(seed, "C07", tier)]
    out += [case_joint(PROPERTY, *s, tag=t) for s, t in ctor_grid(seed, "C07", tier)]
    out += [case_joint(PROPERTY, *s, tag="/hd") for s in hd_grid(seed, "C07", tier)]
    out += [case_joint(PROPERTY, *s) for s in nn_grid(seed, "C07", tier)]       # NN-controlled class through its own methods (u=...)
    return seeded(out, seed)
