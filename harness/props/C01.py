"""C01 — product with a conjugate factor is pointwise multiplication.

corr: factor constructors, multiply / * / hadamard / product × 6 factor kinds × update_full ×
cached/uncached; oracle: the product function against the operands' values computed by NumPy
from the *input arrays*, and the operands' stored arrays before/after."""
import numpy as np
import gen
from runner import Case, failure
from oracle.common import evalln, rel_err
from machine import dump_obj

PROPERTY = "C01"
LEAN_MODULES = ["GT.Props.C01"]
ASSUMPTIONS = ["float64 rounding is outside the theorems; compared at rel. 1e-8 on inputs with condition number <= 1e4"]
TOL = 1e-8
KINDS = ["general", "onerank", "linear", "constant", "measure", "pdf"]


def make_factor(m, rng, kind, R, D):
    """-> (register, (Lambda, nu, ln_beta) as NumPy arrays computed independently)"""
    if kind == "general":
        L = gen.psd_batch(rng, R, D); nu = gen.vec_batch(rng, R, D); lb = rng.standard_normal(R)
        return m.factor("general", R, D, Lambda=L, nu=nu, ln_beta=lb), (L, nu, lb)
    if kind == "onerank":
        v = gen.vec_batch(rng, R, D); g = rng.uniform(0.2, 2.0, R)
        nu = gen.vec_batch(rng, R, D); lb = rng.standard_normal(R)
        L = np.einsum("r,ri,rj->rij", g, v, v)
        return m.factor("onerank", R, D, v=v, g=g, nu=nu, ln_beta=lb), (L, nu, lb)
    if kind == "linear":
        nu = gen.vec_batch(rng, R, D); lb = rng.standard_normal(R)
        return m.factor("linear", R, D, nu=nu, ln_beta=lb), (np.zeros((R, D, D)), nu, lb)
    if kind == "constant":
        lb = rng.standard_normal(R)
        return m.factor("constant", R, D, ln_beta=lb), (np.zeros((R, D, D)), np.zeros((R, D)), lb)
    if kind == "measure":
        L = gen.pd_batch(rng, R, D); nu = gen.vec_batch(rng, R, D); lb = rng.standard_normal(R)
        return m.measure(R, D, L, nu, lb), (L, nu, lb)
    if kind == "pdf":
        S = gen.pd_batch(rng, R, D); mu = gen.vec_batch(rng, R, D)
        L = np.linalg.inv(S); nu = np.einsum("rij,rj->ri", L, mu)
        lb = -0.5 * (np.einsum("ri,ri->r", mu, nu) + D * np.log(2 * np.pi) + np.linalg.slogdet(S)[1])
        return m.pdf(R, D, S, mu), (L, nu, lb)
    raise ValueError(kind)


def snapshot(m, regs):
    return {r: dump_obj(m.regs[r]) for r in regs if m.regs.get(r) is not None}


def same_snapshot(a, b):
    for r in a:
        fa, fb = a[r]["fields"], b[r]["fields"]
        if set(fa) != set(fb):
            return False, f"register {r}: attributes {sorted(fa)} -> {sorted(fb)}"
        for k in fa:
            if not np.array_equal(fa[k], fb[k]):
                return False, f"register {r}: array {k} changed"
    return True, ""


def product_case(kind, op, uf, cached, R1, R2, D, sub):
    label = f"{op}/{kind}/uf{int(uf)}/cached{int(cached)}/R{R1}x{R2}/D{D}/{sub}"

    def fn(m):
        rng = gen.rng_path(m.seed, label)
        fails = []
        Lu = gen.pd_batch(rng, R1, D); nuu = gen.vec_batch(rng, R1, D); lbu = rng.standard_normal(R1)
        u = m.measure(R1, D, Lu, nuu, lbu)
        f, (Lf, nuf, lbf) = make_factor(m, rng, kind, R2, D)
        x = gen.points(rng, 3, D)
        xr = m.arr(x)
        if cached:
            m.query("integral", u)       # fills Sigma, ln_det, mu, lnZ of the measure
        before = snapshot(m, [u, f])
        if op == "multiply":
            r = m.multiply(u, f, uf)
        elif op == "mul":
            r = m.mul(u, f)
        else:
            r = m.hadamard(u, f, uf)
        after = snapshot(m, [u, f])
        ok, why = same_snapshot(before, after)
        if not ok:
            fails.append(failure(PROPERTY, f"{op}:{kind}", "operand changed by the operation: " + why))
        if m.regs.get(r) is None:
            fails.append(failure(PROPERTY, f"{op}:{kind}", f"operation raised: {m.impl[-1][1:]}",
                                 params=dict(R1=R1, R2=R2, D=D, uf=uf, cached=cached)))
            return fails
        ev = m.evalln(r, xr)
        got = np.asarray(m.regs[ev])
        eu = evalln(Lu, nuu, lbu, x); ef = evalln(Lf, nuf, lbf, x)
        if op in ("multiply", "mul"):
            exp = (eu[:, None, :] + ef[None, :, :]).reshape(R1 * R2, -1)    # component i*R2+j
        else:
            exp = eu + ef                                                    # NumPy broadcasting of a single component
        err = rel_err(got, exp)
        if err > TOL:
            fails.append(failure(PROPERTY, f"{op}:{kind}", "product does not evaluate to u_i(x) f_j(x)",
                                 expected=exp.tolist(), got=got.tolist(), deviation=float(err),
                                 params=dict(R1=R1, R2=R2, D=D, uf=uf, cached=cached)))
        # the result must be a usable measure: same value through a second query path
        m.query("log_integral", r)
        m.evalln(r, xr)
        return fails
    return Case(label, fn)


def reduce_case(kind, cached, R, D):
    label = f"product/{kind}/cached{int(cached)}/R{R}/D{D}"

    def fn(m):
        rng = gen.rng_path(m.seed, label)
        fails = []
        f, (L, nu, lb) = make_factor(m, rng, kind, R, D)
        x = gen.points(rng, 3, D); xr = m.arr(x)
        if cached and kind in ("measure", "pdf"):
            m.query("integral", f)
        before = snapshot(m, [f])
        p = m.product(f)
        ok, why = same_snapshot(before, snapshot(m, [f]))
        if not ok:
            fails.append(failure(PROPERTY, f"product:{kind}", "operand changed: " + why))
        ev = m.evalln(p, xr)
        got = np.asarray(m.regs[ev])
        exp = evalln(L, nu, lb, x).sum(axis=0, keepdims=True)
        err = rel_err(got, exp)
        if err > TOL:
            fails.append(failure(PROPERTY, f"product:{kind}", "product() is not the product of all components",
                                 expected=exp.tolist(), got=got.tolist(), deviation=float(err), params=dict(R=R, D=D)))
        # the result is an object of its own: changing it in place (normalize) leaves the operand as it was
        if kind in ("measure", "pdf") and m.regs.get(p) is not None and m.regs[p] is not None:
            if m.regs[p] is m.regs[f]:
                fails.append(failure(PROPERTY, f"product:{kind}:aliasing", "product() returned its operand itself (a later in-place change of the result changes the operand)", params=dict(R=R, D=D)))
            m.query("normalize", p)
            ok, why = same_snapshot(before, snapshot(m, [f]))
            if not ok:
                fails.append(failure(PROPERTY, f"product:{kind}:aliasing", "normalising the RESULT of product() in place changed the operand: " + why, params=dict(R=R, D=D)))
        return fails
    return Case(label, fn)


def cases(seed, tier):
    rng = gen.rng_path(seed, "C01-shapes")
    n_shapes = 2 if tier == "quick" else 8
    shapes = [(2, 3, 2), (1, 1, 1)]
    for _ in range(n_shapes):
        shapes.append((int(rng.integers(1, 5)), int(rng.integers(1, 5)), int(rng.integers(1, 5))))
    out = []
    for si, (R1, R2, D) in enumerate(shapes):
        for kind in KINDS:
            for uf in (False, True):
                for cached in (False, True):
                    out.append(product_case(kind, "multiply", uf, cached, R1, R2, D, si))
            out.append(product_case(kind, "mul", False, bool(si % 2), R1, R2, D, si))
            if si == 0:
                out.append(product_case(kind, "mul", False, True, 3, 3, D, si))      # equal batches: still the full n*n product
                out.append(product_case(kind, "mul", False, False, 2, 2, D, si))
            # hadamard: equal batches, single-component factor, single-component measure
            for (a, b) in ((R1, R1), (R1, 1), (1, R2)):
                for uf in (False, True):
                    out.append(product_case(kind, "hadamard", uf, bool((si + a + b + uf) % 2), a, b, D, si))
            out.append(reduce_case(kind, bool(si % 2), max(R1, R2), D))
            if si == 0:
                out.append(reduce_case(kind, True, 1, D))      # one component: the product is a copy, not the operand
    # de-duplicate labels
    seen, res = set(), []
    for c in out:
        if c.label not in seen:
            seen.add(c.label); res.append(c)
    for c in res:
        c.seed = seed
    return _with_seed(res, seed)


def _with_seed(cs, seed):
    for c in cs:
        f = c.fn
        def wrapped(m, f=f):
            m.seed = seed
            return f(m)
        c.fn = wrapped
    return cs
