"""Shared builders for the per-property case generators.  Every builder returns the register of
the object on the Machine *and* the NumPy arrays it was built from, so that oracles never read
their reference values from the library."""
import numpy as np
import gen
from runner import Case, failure
from oracle.common import evalln, rel_err, normal_logpdf, LOG2PI
from machine import dump_obj

TOL = 1e-8


def seeded(cases, seed):
    """attach the run seed to every Machine the case builds on; drop duplicate labels"""
    seen, res = set(), []
    for c in cases:
        if c.label in seen:
            continue
        seen.add(c.label)
        f = c.fn
        def wrapped(m, f=f):
            m.seed = seed
            return f(m)
        c.fn = wrapped
        res.append(c)
    return res


def snapshot(m, regs):
    return {r: dump_obj(m.regs[r]) for r in regs if m.regs.get(r) is not None}


def same_snapshot(a, b, allow_new_caches=False):
    for r in a:
        fa, fb = a[r]["fields"], b[r]["fields"]
        if not allow_new_caches and set(fa) != set(fb):
            return False, f"register {r}: attributes {sorted(fa)} -> {sorted(fb)}"
        for k in fa:
            if k not in fb or not np.array_equal(fa[k], fb[k]):
                return False, f"register {r}: array {k} changed"
    return True, ""


class Obj:
    """a register plus the NumPy parameters it was built from"""
    def __init__(self, reg, **kw):
        self.reg = reg
        self.__dict__.update(kw)


def mk_measure(m, rng, R, D, diag=False):
    L = gen.pd_batch(rng, R, D, diag=diag); nu = gen.vec_batch(rng, R, D); lb = rng.standard_normal(R)
    return Obj(m.measure(R, D, L, nu, lb, diag=diag), Lambda=L, nu=nu, ln_beta=lb, R=R, D=D)


def pdf_params(S, mu):
    R, D = mu.shape
    L = np.linalg.inv(S)
    nu = np.einsum("rij,rj->ri", L, mu)
    lb = -0.5 * (np.einsum("ri,ri->r", mu, nu) + D * LOG2PI + np.linalg.slogdet(S)[1])
    return L, nu, lb


def mk_pdf(m, rng, R, D, diag=False, give=0, scale=1.0, cov_scale=1.0):
    """give: 0 = Sigma only, 1 = Sigma+Lambda, 2 = Sigma+Lambda+ln_det_Sigma; cov_scale multiplies the covariance"""
    S = cov_scale * gen.pd_batch(rng, R, D, diag=diag); mu = np.sqrt(cov_scale) * gen.vec_batch(rng, R, D, scale)
    L, nu, lb = pdf_params(S, mu)
    kw = {}
    if give >= 1:
        kw["Lambda"] = L
    if give >= 2:
        kw["ln_det_Sigma"] = np.linalg.slogdet(S)[1]
    return Obj(m.pdf(R, D, S, mu, diag=diag, **kw), Sigma=S, mu=mu, Lambda=L, nu=nu, ln_beta=lb, R=R, D=D)


def mutate_pdf(m, rng, p, diag=False):
    """history: fill the lazily computed caches of the density, use it once, then replace some components IN PLACE with
    update(); returns nothing, the Obj's reference parameters follow.  Whatever is computed from the object afterwards must
    see the new parameters only."""
    m.query("log_integral", p.reg); m.integrate(p.reg, "x")
    R, D = p.R, p.D
    K = int(rng.integers(1, R + 1)); uidx = rng.permutation(R)[:K]
    d = mk_pdf(m, rng, K, D, diag=diag, scale=2.0)
    m.update(p.reg, uidx, d.reg)
    for f in ("Sigma", "mu", "Lambda", "nu", "ln_beta"):
        a = getattr(p, f).copy(); a[uidx] = getattr(d, f); setattr(p, f, a)


def mutate_cond(m, rng, c):
    """history: replace the noise covariance of a conditional in place (update_Sigma); reference parameters follow"""
    S2 = gen.pd_batch(rng, c.R, c.Dy, diag=(c.cls in ("diag", "identitydiag")))
    m.update_sigma(c.reg, S2)
    c.Sigma = S2; c.Lambda = np.linalg.inv(S2); c.ln_det_Sigma = np.linalg.slogdet(S2)[1]


def mk_factor(m, rng, kind, R, D):
    if kind == "general":
        L = gen.psd_batch(rng, R, D); nu = gen.vec_batch(rng, R, D); lb = rng.standard_normal(R)
        return Obj(m.factor("general", R, D, Lambda=L, nu=nu, ln_beta=lb), Lambda=L, nu=nu, ln_beta=lb, R=R, D=D)
    if kind == "onerank":
        v = gen.vec_batch(rng, R, D); g = rng.uniform(0.2, 2.0, R)
        nu = gen.vec_batch(rng, R, D); lb = rng.standard_normal(R)
        L = np.einsum("r,ri,rj->rij", g, v, v)
        return Obj(m.factor("onerank", R, D, v=v, g=g, nu=nu, ln_beta=lb), Lambda=L, nu=nu, ln_beta=lb, R=R, D=D, v=v, g=g)
    if kind == "linear":
        nu = gen.vec_batch(rng, R, D); lb = rng.standard_normal(R)
        return Obj(m.factor("linear", R, D, nu=nu, ln_beta=lb), Lambda=np.zeros((R, D, D)), nu=nu, ln_beta=lb, R=R, D=D)
    if kind == "constant":
        lb = rng.standard_normal(R)
        return Obj(m.factor("constant", R, D, ln_beta=lb), Lambda=np.zeros((R, D, D)), nu=np.zeros((R, D)), ln_beta=lb, R=R, D=D)
    if kind == "measure":
        return mk_measure(m, rng, R, D)
    if kind == "diagmeasure":
        return mk_measure(m, rng, R, D, diag=True)
    if kind == "pdf":
        return mk_pdf(m, rng, R, D)
    if kind == "diagpdf":
        return mk_pdf(m, rng, R, D, diag=True)
    raise ValueError(kind)


COND_CLASSES = ["full", "diag", "identity", "identitydiag"]


def mk_cond(m, rng, cls, R, Dy, Dx, give=None, b_none=False, tag=""):
    """linear-Gaussian conditional of the given class; identity classes need Dy == Dx.
    give: which covariance arguments the constructor receives (Sigma | Lambda | all); drawn when None.
    b_none: the offset is left to its default (zero).  A case tag can force both: '/giveL', '/giveA', '/bnone'."""
    if "giveL" in tag:
        give = "Lambda"
    elif "giveA" in tag:
        give = "all"
    b_none = b_none or ("bnone" in tag)
    cov_scale = 1e-6 if "hd" in tag else 1.0     # '/hd': high dimension with uniformly small variances (well conditioned)
    if give is None:
        give = ("Sigma", "Lambda", "all", "Sigma")[int(rng.integers(0, 4))]
    diag = cls in ("diag", "identitydiag")
    S = cov_scale * gen.pd_batch(rng, R, Dy, diag=diag)
    L = np.linalg.inv(S)
    ld = np.linalg.slogdet(S)[1]
    if cls in ("identity", "identitydiag"):
        assert Dy == Dx
        kw = dict(Sigma=S) if give == "Sigma" else (dict(Lambda=L) if give == "Lambda" else dict(Sigma=S, Lambda=L, ln_det_Sigma=ld))
        reg = m.condid(R, Dy, diag=diag, **kw)
        M = np.tile(np.eye(Dy)[None], (R, 1, 1)); b = np.zeros((R, Dy))
    else:
        M = rng.standard_normal((R, Dy, Dx)); b = np.zeros((R, Dy)) if b_none else rng.standard_normal((R, Dy))
        if "bzero" in tag:          # an offset with SOME entries exactly zero
            b[0, 0] = 0.0
            if Dy > 1 and R > 1:
                b[-1, -1] = 0.0
        kw = dict(Sigma=S) if give == "Sigma" else (dict(Lambda=L) if give == "Lambda" else dict(Sigma=S, Lambda=L, ln_det_Sigma=ld))
        reg = m.cond(R, Dy, Dx, M, None if b_none else b, diag=diag, **kw)
    return Obj(reg, M=M, b=b, Sigma=S, Lambda=L, ln_det_Sigma=ld, R=R, Dy=Dy, Dx=Dx, cls=cls)


def fail_if(fails, prop, site, what, got, exp, tol=TOL, params=None, signed_dev=False):
    got = np.asarray(got, dtype=float); exp = np.asarray(exp, dtype=float)
    err = rel_err(got, exp)
    if not (err <= tol):
        dev = None
        if got.shape == exp.shape:
            dev = (got - exp).reshape(-1).tolist() if signed_dev else float(err)
        fails.append(failure(prop, site, what, expected=exp.tolist(), got=got.tolist(), deviation=dev, params=params))
        return True
    return False
