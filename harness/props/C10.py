"""C10 — set_y is the likelihood including its normaliser."""
from .condfam import *
PROPERTY = "C10"
LEAN_MODULES = ["GT.Props.C10"]
ASSUMPTIONS = ["float64 rounding outside the theorems; inputs with condition number <= 1e4"]

def cases(seed, tier):
    rng = gen.rng_path(seed, "C10")
    out = []
    grid = [("full", 1, 4, 1, 3), ("diag", 1, 3, 1, 2), ("full", 1, 3, 2, 3), ("full", 3, 3, 3, 1), ("full", 1, 1, 2, 2), ("diag", 1, 2, 1, 3), ("diag", 2, 2, 2, 2),
            ("identity", 1, 3, 2, 2), ("identity", 3, 3, 1, 1), ("identitydiag", 1, 4, 3, 3), ("identitydiag", 2, 2, 2, 2)]
    for _ in range(3 if tier == "quick" else 20):
        cls = COND_CLASSES[int(rng.integers(0, 4))]
        Dy, Dx = dims_for(cls, rng)
        N = int(rng.integers(1, 5)); R = 1 if rng.random() < 0.5 else N
        grid.append((cls, R, N, Dy, Dx))
    for (cls, R, N, Dy, Dx) in grid:
        out.append(case_set_y(PROPERTY, cls, R, N, Dy, Dx))
    for (cls, Rc, Rx, Dy, Dx), t in ctor_grid(seed, "C10", tier):
        N = 3
        out.append(case_set_y(PROPERTY, cls, 1 if Rc == 1 else N, N, Dy, Dx, tag=t))
    for (cls, Rc, Rx, Dy, Dx) in upd_grid(seed, "C10", tier):
        out.append(case_set_y(PROPERTY, cls, 1 if Rc == 1 else 3, 3, Dy, Dx, tag="/upd"))
    for (Ru, N, Dy, Dx, Du) in [(1, 3, 2, 3, 2), (3, 3, 1, 2, 1)] + ([(1, 1, 3, 1, 2), (2, 2, 2, 2, 3)] if tier != "quick" else []):
        out.append(case_set_y_nn(Ru, N, Dy, Dx, Du))
    return seeded(out, seed)


def case_set_y_nn(Ru, N, Dy, Dx, Du):
    """NN-controlled conditional: set_y(y, u) is the likelihood x -> N(y; M(u) x + b(u), Sigma), with M(u), b(u) computed here
    from the network output (one control for all observations, or one per observation)"""
    label = f"set_y/nncontrol/Ru{Ru}/N{N}/Dy{Dy}Dx{Dx}Du{Du}"
    def fn(m):
        rng = gen.rng_path(m.seed, label)
        fails = []
        S = gen.pd_batch(rng, 1, Dy)
        W = rng.standard_normal((Du, Dy * (Dx + 1))); c0 = rng.standard_normal(Dy * (Dx + 1))
        nn = m.nncond(Dy, Dx, Du, S, W, c0)
        u = rng.standard_normal((Ru, Du))
        o = u @ W + c0
        M = o[:, :Dy * Dx].reshape(Ru, Dy, Dx); b = o[:, Dy * Dx:]
        y = gen.points(rng, N, Dy, 1.5); x = gen.points(rng, 3, Dx, 1.5)
        params = dict(cls="nncontrol", R=Ru, N=N, Dy=Dy, Dx=Dx, Du=Du)
        f = m.nn_call("set_y", nn, u, m.arr(y))
        if m.regs.get(f) is None:
            fails.append(failure(PROPERTY, "set_y:nncontrol", f"raised: {m.impl[-1][1:]}", params=params)); return fails
        got = np.asarray(m.regs[m.evalln(f, m.arr(x))])
        exp = np.zeros_like(got)
        for n in range(N):
            r = 0 if Ru == 1 else n
            for t in range(3):
                exp[n, t] = normal_logpdf(y[n:n + 1], M[r] @ x[t] + b[r], S[0])[0]
        if rel_err(got, exp) > TOL:
            fails.append(failure(PROPERTY, "set_y:nncontrol", "set_y(y, u)(x) != N(y; M(u)x+b(u), Sigma)", expected=exp.tolist(), got=got.tolist(),
                                 deviation=(got - exp).reshape(-1).tolist(), params=params))
        return fails
    return Case(label, fn)


def replay_set_y_offset(Dy, Dx):
    """recorded input of the known finding: one conditional, one observation, fixed numbers"""
    import jax.numpy as jnp
    from gaussian_toolbox import conditional
    M = np.arange(Dy * Dx, dtype=float).reshape(1, Dy, Dx) / 10.0
    c = conditional.ConditionalGaussianPDF(M=jnp.asarray(M), b=jnp.zeros((1, Dy)), Sigma=jnp.eye(Dy)[None] * 2.0)
    y = jnp.ones((1, Dy)); x = jnp.full((1, Dx), 0.5)
    got = float(c.set_y(y).evaluate_ln(x)[0, 0])
    ref = float(normal_logpdf(np.ones((1, Dy)), M[0] @ np.full(Dx, 0.5), 2.0 * np.eye(Dy))[0])
    return abs((got - ref) - 0.5 * (Dy - Dx) * LOG2PI) < 1e-9 and abs(got - ref) > 1e-6
