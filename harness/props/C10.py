"""C10 — set_y is the likelihood including its normaliser."""
from .condfam import *
PROPERTY = "C10"
LEAN_MODULES = ["GT.Props.C10"]
ASSUMPTIONS = ["float64 rounding outside the theorems; inputs with condition number <= 1e4"]

def cases(seed, tier):
    rng = gen.rng_path(seed, "C10")
    out = []
    grid = [("full", 1, 3, 2, 3), ("full", 3, 3, 3, 1), ("full", 1, 1, 2, 2), ("diag", 1, 2, 1, 3), ("diag", 2, 2, 2, 2),
            ("identity", 1, 3, 2, 2), ("identity", 3, 3, 1, 1), ("identitydiag", 1, 4, 3, 3), ("identitydiag", 2, 2, 2, 2)]
    for _ in range(3 if tier == "quick" else 20):
        cls = COND_CLASSES[int(rng.integers(0, 4))]
        Dy, Dx = dims_for(cls, rng)
        N = int(rng.integers(1, 5)); R = 1 if rng.random() < 0.5 else N
        grid.append((cls, R, N, Dy, Dx))
    for (cls, R, N, Dy, Dx) in grid:
        out.append(case_set_y(PROPERTY, cls, R, N, Dy, Dx))
    return seeded(out, seed)


def replay_set_y_offset(Dy, Dx):
    """recorded input of the known finding: one conditional, one observation, fixed numbers"""
    import jax.numpy as jnp
    from gaussian_toolbox import conditional
    M = np.arange(Dy * Dx, dtype=float).reshape(1, Dy, Dx) / 10.0
    c = conditional.ConditionalGaussianPDF(M=jnp.asarray(M), b=jnp.zeros((1, Dy)), Sigma=jnp.eye(Dy)[None] * 2.0)
    y = jnp.ones((1, Dy)); x = jnp.full((1, Dx), 0.5)
    got = float(c.set_y(y).evaluate_ln(x)[0, 0])
    ref = float(normal_logpdf(np.ones((1, Dy)), M[0] @ np.full(Dx, 0.5), 2.0 * np.eye(Dy))[0])
    return abs((got - ref) - 0.5 * (Dy - Dx) * LOG2PI) < 1e-9 and abs(got - ref) > 1e-6
