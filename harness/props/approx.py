"""Case builders for the approximate conditionals (filled in with the approximate model)."""
def c14_cases(seed, tier):
    return []
