"""Case builders for the feature-based approximate conditionals
(`LRBFGaussianConditional`, `LSEMGaussianConditional`; approximate_conditional.py:1-690).

Properties: C16 (moment matching is exact; read-out of unit-height bumps) and the feature-model
clause of C14 (expected log-conditionals).

Oracles are NumPy only and never read a reference value from the library:

* the DOCUMENTED model  mean(x) = M [x; phi(x)] + b,  cov = Sigma,  with
  RBF  phi_k(x) = exp(-1/2 sum_i ((x_i - s_ki)/l_ki)^2)          (one at the centre s_k),
  LSEM phi_k(x) = exp(-1/2 (w_k'x + w_k0)^2)                      (one on the hyperplane w_k'x + w_k0 = 0),
  evaluated directly from the constructor parameters;
* its moments under p(x) by converged tensor Gauss-Hermite quadrature (Dx <= 2, two orders compared)
  and, independently, by closed-form Gaussian integrals of Gaussian bumps (any Dx).

`LSEM-kernel-sign`: the code's LSEM kernel factor is exp(-1/2 (w'x - w0)^2).  Every oracle is therefore
evaluated for the documented sign first; when that fails for an LSEM object and the same oracle with
the argument w'x - w0 reproduces the library's value, the failure is reported with a site that
contains "LSEM-kernel-sign" (one defect, many call sites); anything else is a plain failure.
"""
import numpy as np
import gen
from runner import Case, failure
from oracle.common import rel_err, LOG2PI
from .common import seeded, Obj, pdf_params, TOL

GH_ORDERS = (80, 120)          # compared against each other; agreement <= GH_CONV required
GH_CONV = 1e-10
STATS = dict(gh_used=0, gh_unconverged=0, closed_form_used=0, lsem_sign_failures=0)


# ==================================================================================================
# the documented model in NumPy

def kernel_values(kind, prm, x, sign=+1):
    """phi_k(x) for points x [N, Dx] -> [N, Dk], straight from the class documentation.
    `sign` only matters for LSEM: +1 = documented argument w'x + w0, -1 = w'x - w0."""
    x = np.atleast_2d(x)
    if kind == "rbf":
        s, l = prm["mu"], prm["length_scale"]
        h = (x[:, None, :] - s[None]) / l[None]                 # [N, Dk, Dx]
        return np.exp(-0.5 * np.sum(h ** 2, axis=2))
    W = prm["W"]
    w0, w = W[:, 0], W[:, 1:]
    h = x @ w.T + sign * w0[None]
    return np.exp(-0.5 * h ** 2)


def kernel_quadratics(kind, prm, sign=+1):
    """the same kernels written as exp(-x'A_k x/2 + a_k'x + c_k) (used by the closed forms only)"""
    if kind == "rbf":
        s, l = prm["mu"], prm["length_scale"]
        A = np.stack([np.diag(1.0 / l[k] ** 2) for k in range(s.shape[0])])
        a = s / l ** 2
        c = -0.5 * np.sum((s / l) ** 2, axis=1)
        return A, a, c
    W = prm["W"]
    w0, w = W[:, 0], W[:, 1:]
    A = np.einsum("ki,kj->kij", w, w)
    a = -sign * w0[:, None] * w                                   # -(w'x + s w0)^2/2 = -(w'x)^2/2 - s w0 w'x - w0^2/2
    c = -0.5 * w0 ** 2
    return A, a, c


def mean_fn(kind, prm, x, sign=+1):
    """documented conditional mean M [x; phi(x)] + b for points x [N, Dx] -> [N, Dy]"""
    x = np.atleast_2d(x)
    F = np.hstack([x, kernel_values(kind, prm, x, sign)])
    return F @ prm["M"][0].T + prm["b"][0][None]


# ==================================================================================================
# feature moments E[f], E[f f'], E[f x'] under N(m, S):  Gauss-Hermite and closed form

def gh_nodes(m, S, n):
    t, w = np.polynomial.hermite_e.hermegauss(n)
    w = w / np.sqrt(2.0 * np.pi)
    D = m.shape[0]
    grids = np.meshgrid(*([t] * D), indexing="ij")
    Z = np.stack([g.reshape(-1) for g in grids], axis=1)
    wg = np.meshgrid(*([w] * D), indexing="ij")
    Wt = np.ones(Z.shape[0])
    for g in wg:
        Wt = Wt * g.reshape(-1)
    L = np.linalg.cholesky(S)
    return m[None] + Z @ L.T, Wt


def gh_expect(fn, m, S):
    """E_{N(m,S)}[fn(x)] (fn: [Q, D] -> [Q, ...]) by tensor Gauss-Hermite; None if the two orders disagree"""
    vals = []
    for n in GH_ORDERS:
        X, Wt = gh_nodes(m, S, n)
        F = fn(X)
        vals.append(np.tensordot(Wt, F, axes=(0, 0)))
    if rel_err(vals[0], vals[1]) > GH_CONV:
        STATS["gh_unconverged"] += 1
        return None
    STATS["gh_used"] += 1
    return vals[1]


def tilt(m, S, A, a, c):
    """Z = ∫ N(x; m, S) exp(-x'Ax/2 + a'x + c) dx and the mean / covariance of the tilted Gaussian"""
    P = np.linalg.inv(S)
    Q = P + A
    h = P @ m + a
    Sq = np.linalg.inv(Q)
    mq = Sq @ h
    lnZ = c + 0.5 * h @ mq - 0.5 * m @ P @ m - 0.5 * np.linalg.slogdet(Q)[1] - 0.5 * np.linalg.slogdet(S)[1]
    return float(np.exp(lnZ)), mq, Sq


def feature_moments_cf(kind, prm, m, S, sign=+1):
    """closed forms: Ef [Dphi], Eff [Dphi, Dphi], Efx [Dphi, Dx]"""
    A, a, c = kernel_quadratics(kind, prm, sign)
    Dk, Dx = a.shape
    Ek = np.zeros(Dk); Ekx = np.zeros((Dk, Dx)); Ekk = np.zeros((Dk, Dk))
    for k in range(Dk):
        Z, mk, _ = tilt(m, S, A[k], a[k], c[k])
        Ek[k] = Z; Ekx[k] = Z * mk
        for l in range(Dk):
            Ekk[k, l] = tilt(m, S, A[k] + A[l], a[k] + a[l], c[k] + c[l])[0]
    Exx = S + np.outer(m, m)
    Ef = np.concatenate([m, Ek])
    Eff = np.block([[Exx, Ekx.T], [Ekx, Ekk]])
    Efx = np.vstack([Exx, Ekx])
    STATS["closed_form_used"] += 1
    return Ef, Eff, Efx


def feature_moments_gh(kind, prm, m, S, sign=+1):
    Dx = m.shape[0]
    def fn(X):
        F = np.hstack([X, kernel_values(kind, prm, X, sign)])
        return np.concatenate([F, np.einsum("qi,qj->qij", F, F).reshape(len(X), -1),
                               np.einsum("qi,qj->qij", F, X).reshape(len(X), -1)], axis=1)
    v = gh_expect(fn, m, S)
    if v is None:
        return None
    Dphi = Dx + (prm["mu"].shape[0] if kind == "rbf" else prm["W"].shape[0])
    Ef = v[:Dphi]
    Eff = v[Dphi:Dphi + Dphi * Dphi].reshape(Dphi, Dphi)
    Efx = v[Dphi + Dphi * Dphi:].reshape(Dphi, Dx)
    return Ef, Eff, Efx


def matched_moments(prm, m, feat):
    """moments of (x, y) under p(y|x) p(x) from the feature moments:
    mu_y, Sigma_y, C_yx = Cov(y, x), E[m m'] (second moment of the conditional mean)"""
    Ef, Eff, Efx = feat
    M, b, Sig = prm["M"][0], prm["b"][0], prm["Sigma"][0]
    MEf = M @ Ef
    mu_y = MEf + b
    Emm = M @ Eff @ M.T + np.outer(MEf, b) + np.outer(b, MEf) + np.outer(b, b)
    S_y = Sig + Emm - np.outer(mu_y, mu_y)
    Eyx = M @ Efx + np.outer(b, m)
    C_yx = Eyx - np.outer(mu_y, m)
    return mu_y, S_y, C_yx, Emm


def reference_sets(kind, prm, m, S):
    """[(name, sign, (mu_y, S_y, C_yx, Emm))]: closed form (always) and Gauss-Hermite (Dx <= 2, converged),
    for the documented kernel (sign +1) and, for LSEM, for the argument w'x - w0 (sign -1)"""
    out = []
    signs = (+1, -1) if kind == "lsem" else (+1,)
    for sign in signs:
        out.append(("closed-form", sign, matched_moments(prm, m, feature_moments_cf(kind, prm, m, S, sign))))
        if m.shape[0] <= 2:
            fg = feature_moments_gh(kind, prm, m, S, sign)
            if fg is not None:
                out.append(("gauss-hermite", sign, matched_moments(prm, m, fg)))
    return out


# ==================================================================================================
# verdict helper: documented model first, then the sign-flipped LSEM kernel

def judge(fails, prop, kind, site, what, got, refs, params, tol=TOL):
    """refs: list of (oracle name, sign, expected).  Passes iff `got` agrees with EVERY documented
    (sign +1) reference.  Otherwise: if it agrees with every sign -1 reference the failure carries
    'LSEM-kernel-sign' in its site."""
    got = np.asarray(got, dtype=float)
    doc = [(n, e) for (n, s, e) in refs if s == +1]
    alt = [(n, e) for (n, s, e) in refs if s == -1]
    if not doc:
        raise RuntimeError(f"oracle for {site} has no reference value (harness bug)")
    bad = [(n, e, rel_err(got, np.asarray(e, dtype=float))) for (n, e) in doc]
    bad = [t for t in bad if not (t[2] <= tol)]
    if not bad:
        return True
    n, e, err = bad[0]
    if kind == "lsem" and alt and all(rel_err(got, np.asarray(ea, dtype=float)) <= tol for (_, ea) in alt):
        STATS["lsem_sign_failures"] += 1
        fails.append(failure(prop, f"{site}:LSEM-kernel-sign",
                             what + " for the documented kernel exp(-(w'x + w0)^2/2); the value equals the one for "
                                    "exp(-(w'x - w0)^2/2) (update_phi sets nu = +w0*w)",
                             expected=np.asarray(e).tolist(), got=got.tolist(), deviation=float(err),
                             params=dict(params, oracle=n)))
    else:
        fails.append(failure(prop, site, what, expected=np.asarray(e).tolist(), got=got.tolist(), deviation=float(err),
                             params=dict(params, oracle=n)))
    return False


# ==================================================================================================
# builders

def feat_params(rng, kind, Dy, Dx, Dk, zero_offset=False):
    """parameters with non-zero b, centres / offsets; length scales and weights such that the
    Gauss-Hermite reference converges for the p(x) of `mk_px`"""
    prm = dict(M=rng.standard_normal((1, Dy, Dx + Dk)), b=rng.standard_normal((1, Dy)), Sigma=gen.pd_batch(rng, 1, Dy))
    if kind == "rbf":
        prm["mu"] = np.zeros((Dk, Dx)) if zero_offset else rng.standard_normal((Dk, Dx)) + 0.3
        prm["length_scale"] = rng.uniform(1.0, 2.5, (Dk, Dx))
    else:
        W = 0.6 * rng.standard_normal((Dk, Dx + 1))
        W[:, 0] = 0.0 if zero_offset else rng.uniform(0.4, 1.2, Dk) * rng.choice([-1.0, 1.0], Dk)
        prm["W"] = W
    return prm


def mk_feat(m, rng, kind, Dy, Dx, Dk, give="Sigma", zero_offset=False, b_none=False):
    prm = feat_params(rng, kind, Dy, Dx, Dk, zero_offset)
    S = prm["Sigma"]
    kw = dict(Sigma=S) if give == "Sigma" else (dict(Lambda=np.linalg.inv(S)) if give == "Lambda" else
                                                dict(Sigma=S, Lambda=np.linalg.inv(S), ln_det_Sigma=np.linalg.slogdet(S)[1]))
    b = None if b_none else prm["b"]
    if b_none:
        prm["b"] = np.zeros((1, Dy))
    if kind == "rbf":
        reg = m.feat_rbf(prm["M"], b, prm["mu"], prm["length_scale"], **kw)
    else:
        reg = m.feat_lsem(prm["M"], b, prm["W"], **kw)
    return Obj(reg, kind=kind, prm=prm, Dy=Dy, Dx=Dx, Dk=Dk)


def mk_px(m, rng, R, D, hi=1.2):
    S = gen.pd_batch(rng, R, D, lo=0.3, hi=hi); mu = gen.vec_batch(rng, R, D)
    L, nu, lb = pdf_params(S, mu)
    return Obj(m.pdf(R, D, S, mu), Sigma=S, mu=mu, Lambda=L, R=R, D=D)


def raised(m, reg):
    return m.regs.get(reg) is None


def gauss_entropy(S):
    D = S.shape[0]
    return 0.5 * (D * (1.0 + LOG2PI) + np.linalg.slogdet(S)[1])


# ==================================================================================================
# C16

def case_readout(kind, Dy, Dx, Dk, give="Sigma", zero_offset=False, b_none=False):
    """conditional mean = documented linear read-out of x and of unit-height bumps"""
    PROP = "C16"
    label = f"feature-readout/{kind}/Dy{Dy}Dx{Dx}Dk{Dk}/{give}/z{int(zero_offset)}b{int(b_none)}"
    def fn(m):
        rng = gen.rng_path(m.seed, label)
        fails = []
        c = mk_feat(m, rng, kind, Dy, Dx, Dk, give, zero_offset, b_none)
        prm = c.prm
        params = dict(kind=kind, Dy=Dy, Dx=Dx, Dk=Dk, give=give, zero_offset=zero_offset, b_none=b_none)
        if raised(m, c.reg):
            fails.append(failure(PROP, f"constructor:{kind}", f"raised: {m.impl[-1][1:]}", params=params)); return fails
        x = gen.points(rng, 4, Dx)
        xr = m.arr(x)
        refs = lambda f, pts: [("documented-model", s, f(s, pts)) for s in ((+1, -1) if kind == "lsem" else (+1,))]
        # feature vector
        ph = m.feat_phi(c.reg, xr)
        if raised(m, ph):
            fails.append(failure(PROP, f"evaluate_phi:{kind}", f"raised: {m.impl[-1][1:]}", params=params))
        else:
            judge(fails, PROP, kind, f"evaluate_phi:{kind}", "evaluate_phi(x) != (x, phi(x))", np.asarray(m.regs[ph]),
                  refs(lambda s, p: np.hstack([p, kernel_values(kind, prm, p, s)]), x), params)
        # unit height: one at the RBF centre / on the hyperplane where the documented argument vanishes
        if kind == "rbf":
            x1 = prm["mu"].copy()
        else:
            W = prm["W"]; w0, w = W[:, 0], W[:, 1:]
            t = rng.standard_normal((Dk, Dx))
            nrm = np.sum(w * w, axis=1)
            t = t - (np.sum(t * w, axis=1) / nrm)[:, None] * w          # component inside the hyperplane
            x1 = t - (w0 / nrm)[:, None] * w                             # w'x1 + w0 = 0
        x1r = m.arr(x1)
        ph1 = m.feat_phi(c.reg, x1r)
        if not raised(m, ph1):
            got = np.diag(np.asarray(m.regs[ph1])[:, Dx:])
            alt = [("documented-model", -1, np.diag(kernel_values(kind, prm, x1, -1)))] if kind == "lsem" else []
            judge(fails, PROP, kind, f"unit-height:{kind}",
                  "kernel is not one at the centre / on the hyperplane where its documented argument vanishes",
                  got, [("unit-height", +1, np.ones(Dk))] + alt, params)
        # conditional mean and condition_on_x (the object's own p(y|x))
        cm = m.feat_cond_mu(c.reg, xr)
        if raised(m, cm):
            fails.append(failure(PROP, f"get_conditional_mu:{kind}", f"raised: {m.impl[-1][1:]}", params=params))
        else:
            judge(fails, PROP, kind, f"get_conditional_mu:{kind}", "get_conditional_mu(x) != M (x, phi(x)) + b",
                  np.asarray(m.regs[cm]), refs(lambda s, p: mean_fn(kind, prm, p, s), x), params)
        for via_call in (False, True):
            cx = m.feat_condition_on_x(c.reg, xr, via_call=via_call)
            site = f"condition_on_x:{kind}" + (":__call__" if via_call else "")
            if raised(m, cx):
                fails.append(failure(PROP, site, f"raised: {m.impl[-1][1:]}", params=params)); continue
            P = m.regs[cx]
            judge(fails, PROP, kind, site + ":mu", "condition_on_x(x).mu != M (x, phi(x)) + b", np.asarray(P.mu),
                  refs(lambda s, p: mean_fn(kind, prm, p, s), x), params)
            judge(fails, PROP, kind, site + ":Sigma", "condition_on_x(x).Sigma != Sigma", np.asarray(P.Sigma),
                  [("documented-model", +1, np.tile(prm["Sigma"], (len(x), 1, 1)))], params)
        # set_y is documented as unavailable
        sy = m.feat_set_y(c.reg, m.arr(gen.points(rng, 2, Dy)))
        if not (m.impl[-1][0] == "refuse" and m.impl[-1][1] == "refuse-documented"):
            fails.append(failure(PROP, f"set_y:{kind}", "set_y did not raise NotImplementedError", params=params))
        return fails
    return Case(label, fn)


def case_moments(kind, Dy, Dx, Dk, Rx, zero_offset=False, housekeeping=False):
    """marginal / joint / conditional transformations carry exactly the moments of p(y|x) p(x)"""
    PROP = "C16"
    label = f"feature-moments/{kind}/Dy{Dy}Dx{Dx}Dk{Dk}/Rx{Rx}/z{int(zero_offset)}h{int(housekeeping)}"
    def fn(m):
        rng = gen.rng_path(m.seed, label)
        fails = []
        c = mk_feat(m, rng, kind, Dy, Dx, Dk, zero_offset=zero_offset)
        prm = c.prm
        p = mk_px(m, rng, Rx, Dx)
        params = dict(kind=kind, Dy=Dy, Dx=Dx, Dk=Dk, Rx=Rx, zero_offset=zero_offset)

        def check_all(tag):
            R = [{(n, s): mm for (n, s, mm) in reference_sets(kind, prm, p.mu[r], p.Sigma[r])} for r in range(Rx)]
            keys = [k for k in R[0] if all(k in R[r] for r in range(Rx))]      # oracles available for every component
            pick = lambda f: [(n, s, np.stack([f(R[r][(n, s)], r) for r in range(Rx)])) for (n, s) in keys]
            joint_S = lambda mm, r: np.block([[p.Sigma[r], mm[2].T], [mm[2], mm[1]]])
            def cond_of(mm, r):
                Mc = mm[2].T @ np.linalg.inv(mm[1])
                return Mc, p.mu[r] - Mc @ mm[0], p.Sigma[r] - Mc @ mm[2]
            # raw matched moments
            r_mu, r_S = m.feat_moments(c.reg, p.reg)
            r_X = m.feat_cross(c.reg, p.reg)
            if raised(m, r_mu) or raised(m, r_S) or raised(m, r_X):
                fails.append(failure(PROP, f"get_expected_moments:{kind}{tag}", "raised", params=params))
            else:
                judge(fails, PROP, kind, f"get_expected_moments:{kind}:mu{tag}", "E[y] under p(y|x)p(x)", np.asarray(m.regs[r_mu]),
                      pick(lambda mm, r: mm[0]), params)
                judge(fails, PROP, kind, f"get_expected_moments:{kind}:Sigma{tag}", "Cov[y] under p(y|x)p(x)", np.asarray(m.regs[r_S]),
                      pick(lambda mm, r: mm[1]), params)
                judge(fails, PROP, kind, f"get_expected_cross_terms:{kind}{tag}", "E[y x'] under p(y|x)p(x)", np.asarray(m.regs[r_X]),
                      pick(lambda mm, r: mm[2] + np.outer(mm[0], p.mu[r])), params)
            # marginal
            g = m.feat_transform("marginal", c.reg, p.reg)
            if raised(m, g):
                fails.append(failure(PROP, f"affine_marginal_transformation:{kind}{tag}", f"raised: {m.impl[-1][1:]}", params=params))
            else:
                G = m.regs[g]
                judge(fails, PROP, kind, f"affine_marginal_transformation:{kind}:mu{tag}", "marginal mean != E[y]", np.asarray(G.mu),
                      pick(lambda mm, r: mm[0]), params)
                judge(fails, PROP, kind, f"affine_marginal_transformation:{kind}:Sigma{tag}", "marginal covariance != Cov[y]",
                      np.asarray(G.Sigma), pick(lambda mm, r: mm[1]), params)
            # joint (x first)
            j = m.feat_transform("joint", c.reg, p.reg)
            if raised(m, j):
                fails.append(failure(PROP, f"affine_joint_transformation:{kind}{tag}", f"raised: {m.impl[-1][1:]}", params=params))
            else:
                J = m.regs[j]
                judge(fails, PROP, kind, f"affine_joint_transformation:{kind}:mu{tag}", "joint mean != (E[x], E[y])", np.asarray(J.mu),
                      pick(lambda mm, r: np.concatenate([p.mu[r], mm[0]])), params)
                judge(fails, PROP, kind, f"affine_joint_transformation:{kind}:Sigma{tag}",
                      "joint covariance != [[Cov x, Cov(x,y)], [Cov(y,x), Cov y]]", np.asarray(J.Sigma), pick(joint_S), params)
            # conditional p(x|y) of that joint
            cc = m.feat_transform("conditional", c.reg, p.reg)
            if raised(m, cc):
                fails.append(failure(PROP, f"affine_conditional_transformation:{kind}{tag}", f"raised: {m.impl[-1][1:]}", params=params))
            else:
                C = m.regs[cc]
                judge(fails, PROP, kind, f"affine_conditional_transformation:{kind}:M{tag}", "M != Cov(x,y) Cov(y)^-1", np.asarray(C.M),
                      pick(lambda mm, r: cond_of(mm, r)[0]), params)
                judge(fails, PROP, kind, f"affine_conditional_transformation:{kind}:b{tag}", "b != E[x] - M E[y]", np.asarray(C.b),
                      pick(lambda mm, r: cond_of(mm, r)[1]), params)
                judge(fails, PROP, kind, f"affine_conditional_transformation:{kind}:Sigma{tag}", "Sigma != Cov x - M Cov(y,x)",
                      np.asarray(C.Sigma), pick(lambda mm, r: cond_of(mm, r)[2]), params)
            if housekeeping:
                ce = m.feat_transform("cond_entropy", c.reg, p.reg)
                mi = m.feat_transform("mutual_information", c.reg, p.reg)
                if raised(m, ce) or raised(m, mi):
                    fails.append(failure(PROP, f"conditional_entropy:{kind}{tag}", "raised", params=params))
                else:
                    Hx = lambda r: gauss_entropy(p.Sigma[r])
                    judge(fails, PROP, kind, f"conditional_entropy:{kind}{tag}", "H(matched joint) - H(p_x)", np.asarray(m.regs[ce]),
                          pick(lambda mm, r: gauss_entropy(joint_S(mm, r)) - Hx(r)), params)
                    judge(fails, PROP, kind, f"mutual_information:{kind}{tag}", "H(y) + H(x) - H(matched joint)", np.asarray(m.regs[mi]),
                          pick(lambda mm, r: gauss_entropy(mm[1]) + Hx(r) - gauss_entropy(joint_S(mm, r))), params)

        if raised(m, c.reg):
            fails.append(failure(PROP, f"constructor:{kind}", f"raised: {m.impl[-1][1:]}", params=params)); return fails
        check_all("")
        if housekeeping:
            # inherited slice: a linear conditional over the feature vector with the same arrays
            s = m.feat_slice(c.reg, [0, -1])
            if raised(m, s):
                fails.append(failure(PROP, f"slice:{kind}", f"raised: {m.impl[-1][1:]}", params=params))
            else:
                S_ = m.regs[s]
                judge(fails, PROP, kind, f"slice:{kind}:M", "slice([0,-1]).M != (M, M)", np.asarray(S_.M),
                      [("parameters", +1, np.tile(prm["M"], (2, 1, 1)))], params)
            m.feat_slice(c.reg, [1])        # out of range: NaN fill on both sides
            # update_Sigma, update_phi: the transformations must follow the new covariance
            S2 = gen.pd_batch(rng, 1, Dy)
            m.feat_update_sigma(c.reg, S2); prm["Sigma"] = S2
            m.feat_update_phi(c.reg)
            check_all(":after-update_Sigma")
        return fails
    return Case(label, fn)


def case_ctor_refusal(kind):
    """neither Sigma nor Lambda: RuntimeError("Either Sigma or Lambda need to be specified.") — documented"""
    PROP = "C16"
    label = f"feature-ctor-refusal/{kind}"
    def fn(m):
        rng = gen.rng_path(m.seed, label)
        prm = feat_params(rng, kind, 2, 2, 2)
        if kind == "rbf":
            m.feat_rbf(prm["M"], prm["b"], prm["mu"], prm["length_scale"])
        else:
            m.feat_lsem(prm["M"], prm["b"], prm["W"])
        if not (m.impl[-1][0] == "refuse" and m.impl[-1][1] == "refuse-documented"):
            return [failure(PROP, f"constructor:{kind}", "constructor without Sigma and Lambda did not raise the documented RuntimeError",
                            params=dict(kind=kind))]
        return []
    return Case(label, fn, nontrivial=False)


def c16_feature_cases(seed, tier):
    rng = gen.rng_path(seed, "C16-feature")
    out = []
    # (Dy, Dx, Dk, Rx): Dx <= 2 have the Gauss-Hermite reference, Dx = 3 the closed form only
    shapes = [(2, 2, 3, 2), (1, 1, 1, 1), (2, 3, 2, 1)]
    if tier != "quick":
        shapes += [(3, 1, 2, 3), (1, 2, 4, 2), (2, 4, 1, 2), (3, 3, 3, 1)]
        for _ in range(6):
            shapes.append((int(rng.integers(1, 4)), int(rng.integers(1, 5)), int(rng.integers(1, 5)), int(rng.integers(1, 4))))
    gives = ["Sigma", "Lambda", "all"]
    for i, (Dy, Dx, Dk, Rx) in enumerate(shapes):
        for kind in ("rbf", "lsem"):
            out.append(case_readout(kind, Dy, Dx, Dk, give=gives[i % 3], b_none=(i % 3 == 1)))
            out.append(case_moments(kind, Dy, Dx, Dk, Rx, housekeeping=(i == 0)))
    for kind in ("rbf", "lsem"):
        out.append(case_ctor_refusal(kind))
    # offsets / centres at zero: the LSEM sign is immaterial there, the moment matching itself is checked
    out.append(case_moments("lsem", 2, 2, 3, 2, zero_offset=True))
    out.append(case_readout("lsem", 2, 2, 3, zero_offset=True))
    if tier != "quick":
        out.append(case_moments("rbf", 2, 2, 3, 2, zero_offset=True))
        out.append(case_moments("lsem", 1, 3, 2, 2, zero_offset=True, housekeeping=True))
    return seeded(out, seed)


# ==================================================================================================
# C14, feature clause

def log_cond_refs(kind, prm, mq, Sq, Dy, Dx):
    """E_q[ln p(y|x)] for q = N(mq, Sq) over (y, x), y first: closed form and Gauss-Hermite over x"""
    M, b, Sig = prm["M"][0], prm["b"][0], prm["Sigma"][0]
    Lam = np.linalg.inv(Sig)
    const = np.linalg.slogdet(Sig)[1] + Dy * LOG2PI
    my, mx = mq[:Dy], mq[Dy:]
    Syy, Sxx, Syx = Sq[:Dy, :Dy], Sq[Dy:, Dy:], Sq[:Dy, Dy:]
    out = []
    for sign in ((+1, -1) if kind == "lsem" else (+1,)):
        # closed form: E[(y-m)'L(y-m)] = tr L E[yy'] - 2 tr L E[m y'] + tr L E[m m']
        feat = feature_moments_cf(kind, prm, mx, Sxx, sign)
        Emm = matched_moments(prm, mx, feat)[3]
        A, a, c = kernel_quadratics(kind, prm, sign)
        Dk = a.shape[0]
        Eky = np.zeros((Dk, Dy))
        for k in range(Dk):
            Aj = np.zeros((Dy + Dx, Dy + Dx)); Aj[Dy:, Dy:] = A[k]
            aj = np.concatenate([np.zeros(Dy), a[k]])
            Z, mk, _ = tilt(mq, Sq, Aj, aj, c[k])
            Eky[k] = Z * mk[:Dy]
        Efy = np.vstack([Syx.T + np.outer(mx, my), Eky])           # E[f(x) y']
        Emy = M @ Efy + np.outer(b, my)
        quad = np.trace(Lam @ (Syy + np.outer(my, my))) - 2.0 * np.trace(Lam @ Emy) + np.trace(Lam @ Emm)
        out.append(("closed-form", sign, -0.5 * (quad + const)))
        if Dx <= 2:
            G = Syx @ np.linalg.inv(Sxx)
            Sc = Syy - G @ Syx.T
            def fn(X, sign=sign):
                d = my[None] + (X - mx[None]) @ G.T - mean_fn(kind, prm, X, sign)
                return np.einsum("qi,ij,qj->q", d, Lam, d)
            v = gh_expect(fn, mx, Sxx)
            if v is not None:
                out.append(("gauss-hermite", sign, -0.5 * (np.trace(Lam @ Sc) + float(v) + const)))
    return out


def log_cond_y_refs(kind, prm, mx, Sxx, y, Dy):
    """E_{N(mx,Sxx)}[ln p(y|x)] at one y"""
    M, b, Sig = prm["M"][0], prm["b"][0], prm["Sigma"][0]
    Lam = np.linalg.inv(Sig)
    const = np.linalg.slogdet(Sig)[1] + Dy * LOG2PI
    out = []
    for sign in ((+1, -1) if kind == "lsem" else (+1,)):
        feat = feature_moments_cf(kind, prm, mx, Sxx, sign)
        mu_y, _, _, Emm = matched_moments(prm, mx, feat)
        quad = y @ Lam @ y - 2.0 * y @ Lam @ mu_y + np.trace(Lam @ Emm)
        out.append(("closed-form", sign, -0.5 * (quad + const)))
        if mx.shape[0] <= 2:
            def fn(X, sign=sign):
                d = y[None] - mean_fn(kind, prm, X, sign)
                return np.einsum("qi,ij,qj->q", d, Lam, d)
            v = gh_expect(fn, mx, Sxx)
            if v is not None:
                out.append(("gauss-hermite", sign, -0.5 * (float(v) + const)))
    return out


def stack_refs(per_comp):
    """[[(name, sign, scalar)] per component] -> [(name, sign, array over components)] (common oracles only)"""
    keys = [(n, s) for (n, s, _) in per_comp[0]]
    keys = [k for k in keys if all(any((n, s) == k for (n, s, _) in pc) for pc in per_comp)]
    return [(n, s, np.array([[v for (n2, s2, v) in pc if (n2, s2) == (n, s)][0] for pc in per_comp])) for (n, s) in keys]


def case_feat_log_cond(kind, Dy, Dx, Dk, Rq, given_px=False, zero_offset=False):
    PROP = "C14"
    label = f"feature-log_cond/{kind}/Dy{Dy}Dx{Dx}Dk{Dk}/Rq{Rq}/px{int(given_px)}z{int(zero_offset)}"
    def fn(m):
        rng = gen.rng_path(m.seed, label)
        fails = []
        c = mk_feat(m, rng, kind, Dy, Dx, Dk, zero_offset=zero_offset)
        prm = c.prm
        q = mk_px(m, rng, Rq, Dy + Dx, hi=1.5)            # ANY Gaussian over (y, x), y first
        params = dict(kind=kind, Dy=Dy, Dx=Dx, Dk=Dk, Rq=Rq, given_px=given_px, zero_offset=zero_offset)
        px = None
        if given_px:
            px = m.pdf(Rq, Dx, q.Sigma[:, Dy:, Dy:], q.mu[:, Dy:])
        r_ = m.feat_log_cond(c.reg, q.reg, px)
        if raised(m, r_):
            fails.append(failure(PROP, f"integrate_log_conditional:{kind}", f"raised: {m.impl[-1][1:]}", params=params)); return fails
        refs = stack_refs([log_cond_refs(kind, prm, q.mu[r], q.Sigma[r], Dy, Dx) for r in range(Rq)])
        judge(fails, PROP, kind, f"integrate_log_conditional:{kind}", "integrate_log_conditional(q) != E_q[ln p(y|x)]",
              np.asarray(m.regs[r_]), refs, params)
        return fails
    return Case(label, fn)


def case_feat_log_cond_y(kind, Dy, Dx, Dk, Rp, N, callable_form, zero_offset=False):
    PROP = "C14"
    label = f"feature-log_cond_y/{kind}/Dy{Dy}Dx{Dx}Dk{Dk}/Rp{Rp}/N{N}/call{int(callable_form)}z{int(zero_offset)}"
    def fn(m):
        rng = gen.rng_path(m.seed, label)
        fails = []
        c = mk_feat(m, rng, kind, Dy, Dx, Dk, zero_offset=zero_offset)
        prm = c.prm
        p = mk_px(m, rng, Rp, Dx)
        y = gen.points(rng, N, Dy); yr = m.arr(y)
        params = dict(kind=kind, Dy=Dy, Dx=Dx, Dk=Dk, Rp=Rp, N=N, callable_form=callable_form, zero_offset=zero_offset)
        r_ = m.feat_log_cond_y(c.reg, p.reg, yr, callable_form=callable_form)
        if raised(m, r_):
            if N != Rp and N != 1 and Rp != 1:
                return fails          # y and p_x batches that do not broadcast: an einsum shape error on both sides
            fails.append(failure(PROP, f"integrate_log_conditional_y:{kind}", f"raised: {m.impl[-1][1:]}", params=params)); return fails
        Ro = max(Rp, N)
        per = []
        for k in range(Ro):
            r = k if Rp > 1 else 0; n = k if N > 1 else 0
            per.append(log_cond_y_refs(kind, prm, p.mu[r], p.Sigma[r], y[n], Dy))
        judge(fails, PROP, kind, f"integrate_log_conditional_y:{kind}", "integrate_log_conditional_y(p_x)(y) != E_p[ln p(y|x)]",
              np.asarray(m.regs[r_]), stack_refs(per), params)
        return fails
    return Case(label, fn)


def c14_cases(seed, tier):
    rng = gen.rng_path(seed, "C14-feature")
    out = []
    shapes = [(2, 2, 2, 2), (1, 1, 1, 1), (2, 3, 2, 1)]          # (Dy, Dx, Dk, R of the Gaussian)
    if tier != "quick":
        shapes += [(1, 2, 3, 3), (3, 1, 2, 2), (2, 4, 1, 1)]
        for _ in range(5):
            shapes.append((int(rng.integers(1, 4)), int(rng.integers(1, 5)), int(rng.integers(1, 4)), int(rng.integers(1, 4))))
    for i, (Dy, Dx, Dk, R) in enumerate(shapes):
        for kind in ("rbf", "lsem"):
            out.append(case_feat_log_cond(kind, Dy, Dx, Dk, R, given_px=bool(i % 2)))
            out.append(case_feat_log_cond_y(kind, Dy, Dx, Dk, R, R, callable_form=bool(i % 2)))
            if i == 0 or tier != "quick":
                out.append(case_feat_log_cond_y(kind, Dy, Dx, Dk, 1, 3, callable_form=not bool(i % 2)))
                out.append(case_feat_log_cond_y(kind, Dy, Dx, Dk, R, 1, callable_form=bool(i % 2)))
    out.append(case_feat_log_cond("lsem", 2, 2, 2, 2, zero_offset=True))
    out.append(case_feat_log_cond_y("lsem", 2, 2, 2, 2, 2, callable_form=False, zero_offset=True))
    if tier != "quick":
        out.append(case_feat_log_cond_y("rbf", 2, 2, 2, 3, 2, callable_form=False))      # non-broadcastable: refused on both sides
    return seeded(out, seed)


def evidence_extra():
    return dict(feature_oracle_stats=dict(STATS))
