"""C11 — Bayesian updating is path independent (posterior and evidence); Kalman filtering."""
from .condfam import *
PROPERTY = "C11"
LEAN_MODULES = ["GT.Props.C11"]
ASSUMPTIONS = ["float64 rounding outside the theorems; workflows sampled (N <= 6, T <= 12), reference = dense joint built with NumPy"]


def dense_posterior(mu0, S0, Ms, bs, Ss, ys):
    """prior N(mu0,S0), y_i = M_i w + b_i + e_i: posterior (mu, S) and log marginal likelihood"""
    M = np.vstack(Ms); b = np.concatenate(bs); y = np.concatenate(ys)
    N = len(Ms)
    Sn = np.zeros((len(b), len(b)))
    o = 0
    for S in Ss:
        d = S.shape[0]; Sn[o:o + d, o:o + d] = S; o += d
    Syy = Sn + M @ S0 @ M.T
    my = M @ mu0 + b
    K = S0 @ M.T @ np.linalg.inv(Syy)
    mu = mu0 + K @ (y - my)
    S = S0 - K @ M @ S0
    lml = normal_logpdf(y[None], my, Syy)[0]
    return mu, S, lml


def case_regression(N, Dw, Dy, sub, pdiag=False):
    label = f"regression/N{N}/Dw{Dw}/Dy{Dy}/{sub}" + ("/pdiag" if pdiag else "")
    def fn(m):
        rng = gen.rng_path(m.seed, label)
        fails = []
        prior = mk_pdf(m, rng, 1, Dw, diag=pdiag)      # pdiag: the prior is a GaussianDiagPDF, the likelihood factors are not diagonal
        Ms = rng.standard_normal((N, Dy, Dw)); bs = rng.standard_normal((N, Dy)); Ss = gen.pd_batch(rng, N, Dy)
        ys = gen.points(rng, N, Dy)
        mu_ref, S_ref, lml_ref = dense_posterior(prior.mu[0], prior.Sigma[0], list(Ms), list(bs), list(Ss), list(ys))
        params = dict(N=N, Dx=Dw, Dy=Dy)
        def check_post(reg, route):
            o = m.regs.get(reg)
            if o is None:
                fails.append(failure(PROPERTY, f"posterior:{route}", f"route raised: {m.impl[-1][1:]}", params=params)); return
            fail_if(fails, PROPERTY, f"posterior:{route}:mu", "posterior mean differs from the dense reference", np.asarray(o.mu)[0], mu_ref, tol=1e-7, params=params)
            fail_if(fails, PROPERTY, f"posterior:{route}:Sigma", "posterior covariance differs from the dense reference", np.asarray(o.Sigma)[0], S_ref, tol=1e-7, params=params)
        # (a) sequential, in a random order, with predictive log-densities accumulated
        order = rng.permutation(N)
        cur = prior.reg
        ev_seq = 0.0
        for i in order:
            c = m.cond(1, Dy, Dw, Ms[i:i + 1], bs[i:i + 1], Sigma=Ss[i:i + 1])
            yi = m.arr(ys[i:i + 1])
            pred = m.transform("marginal", c, cur)
            e = m.evalln(pred, yi)
            ev_seq += float(np.asarray(m.regs[e])[0, 0])
            post = m.transform("conditional", c, cur)
            cur = m.condition_on_x(post, yi)
        check_post(cur, "sequential")
        fail_if(fails, PROPERTY, "evidence:sequential", "sum of predictive log-densities != log marginal likelihood (dense reference)", ev_seq, lml_ref, tol=1e-7, params=params)
        # (b) joint transformation then coordinate conditioning, all observations stacked
        Mst = Ms.reshape(1, N * Dy, Dw); bst = bs.reshape(1, N * Dy)
        Sst = np.zeros((1, N * Dy, N * Dy))
        for i in range(N):
            Sst[0, i * Dy:(i + 1) * Dy, i * Dy:(i + 1) * Dy] = Ss[i]
        cst = m.cond(1, N * Dy, Dw, Mst, bst, Sigma=Sst)
        j = m.transform("joint", cst, prior.reg)
        cc = m.condition_on(j, list(range(Dw, Dw + N * Dy)))
        yst = m.arr(ys.reshape(1, N * Dy))
        check_post(m.condition_on_x(cc, yst), "joint+condition_on")
        # (c) prior × product of likelihood factors, normalised
        cb = m.cond(N, Dy, Dw, Ms, bs, Sigma=Ss)
        f = m.set_y(cb, m.arr(ys))
        if m.regs.get(f) is None:
            fails.append(failure(PROPERTY, "posterior:factors", f"set_y raised: {m.impl[-1][1:]}", params=params)); return fails
        fp = m.product(f)
        u = m.hadamard(prior.reg, fp, bool(rng.integers(0, 2)))
        li = m.query("log_integral", u)
        check_post(m.query("get_density", u), "prior*likelihood")
        got = float(np.asarray(m.regs[li])[0])
        if abs(got - lml_ref) > 1e-7 * max(1.0, abs(lml_ref)):
            fails.append(failure(PROPERTY, "evidence:set_y-product", "log-integral of prior × likelihood factors != log marginal likelihood",
                                 expected=lml_ref, got=got, deviation=[got - lml_ref], params=dict(params, Nsum=N)))
        # factors multiplied one at a time in another order give the same measure
        u2 = prior.reg
        for i in rng.permutation(N):
            u2 = m.hadamard(u2, m.slice(f, [int(i)]), False)
        l2 = m.query("log_integral", u2)
        fail_if(fails, PROPERTY, "evidence:order", "evidence depends on the order in which factors are multiplied", np.asarray(m.regs[l2]), np.asarray(m.regs[li]), tol=1e-7, params=params)
        # (d) the same product through multiply() / '*' (single-component operands), with the prior's caches filled
        m.query("log_integral", prior.reg)
        for how in ("multiply-uf1", "multiply-uf0", "mul"):
            u3 = m.multiply(prior.reg, fp, True) if how == "multiply-uf1" else (m.multiply(prior.reg, fp, False) if how == "multiply-uf0" else m.mul(prior.reg, fp))
            if m.regs.get(u3) is None:
                fails.append(failure(PROPERTY, f"posterior:{how}", f"raised: {m.impl[-1][1:]}", params=params)); continue
            l3 = m.query("log_integral", u3)
            check_post(m.query("get_density", u3), f"prior*likelihood:{how}")
            fail_if(fails, PROPERTY, f"evidence:{how}", "evidence differs between the product routes", np.asarray(m.regs[l3]), np.asarray(m.regs[li]), tol=1e-7, params=dict(params, Nsum=N))
        # (e) sequential updating where each step's posterior is obtained by normalising the product IN PLACE and is the
        #     next step's prior; the evidence is the sum of the log-masses before each normalisation
        cur = prior.reg
        ev_norm = 0.0
        for i in rng.permutation(N):
            prod = m.hadamard(cur, m.slice(f, [int(i)]), bool(rng.integers(0, 2)))
            ev_norm += float(np.asarray(m.regs[m.query("log_integral", prod)])[0])
            m.query("normalize", prod)
            lm = np.asarray(m.regs[m.query("log_integral", prod)])
            fail_if(fails, PROPERTY, "posterior:normalize", "a normalised product does not have mass one", lm, np.zeros(1), tol=1e-7, params=params, signed_dev=True)
            cur = prod
        check_post(m.query("get_density", cur), "sequential-normalize")
        if abs(ev_norm - got) > 1e-7 * max(1.0, abs(got)):
            fails.append(failure(PROPERTY, "evidence:sequential-normalize", "evidence accumulated over normalised sequential products != evidence of the batch product",
                                 expected=got, got=ev_norm, deviation=[ev_norm - got], params=dict(params, Nsum=N)))
        return fails
    return Case(label, fn)


def case_sensor_reuse(cls, N, Dw, Dy):
    """ONE conditional object (a sensor with fixed M, b) reused for all observations, its noise covariance replaced before each
    use with update_Sigma: the sequential posterior and evidence equal the dense reference with per-observation noise, in
    any order"""
    label = f"sensor-reuse/{cls}/N{N}/Dw{Dw}/Dy{Dy}"
    def fn(m):
        rng = gen.rng_path(m.seed, label)
        fails = []
        diag = (cls == "diag")
        prior = mk_pdf(m, rng, 1, Dw)
        M = rng.standard_normal((1, Dy, Dw)); b = rng.standard_normal((1, Dy))
        Ss = gen.pd_batch(rng, N, Dy, diag=diag); ys = gen.points(rng, N, Dy)
        mu_ref, S_ref, lml_ref = dense_posterior(prior.mu[0], prior.Sigma[0], [M[0]] * N, [b[0]] * N, list(Ss), list(ys))
        params = dict(N=N, Dx=Dw, Dy=Dy, cls=cls)
        sensor = m.cond(1, Dy, Dw, M, b, Sigma=gen.pd_batch(rng, 1, Dy, diag=diag), diag=diag)
        cur = prior.reg; ev = 0.0
        for i in rng.permutation(N):
            m.update_sigma(sensor, Ss[i:i + 1])
            yi = m.arr(ys[i:i + 1])
            pred = m.transform("marginal", sensor, cur)
            ev += float(np.asarray(m.regs[m.evalln(pred, yi)])[0, 0])
            post = m.transform("conditional", sensor, cur)
            cur = m.condition_on_x(post, yi)
        o = m.regs.get(cur)
        if o is None:
            fails.append(failure(PROPERTY, "posterior:sensor-reuse", f"raised: {m.impl[-1][1:]}", params=params)); return fails
        fail_if(fails, PROPERTY, "posterior:sensor-reuse:mu", "posterior mean differs from the dense reference", np.asarray(o.mu)[0], mu_ref, tol=1e-7, params=params)
        fail_if(fails, PROPERTY, "posterior:sensor-reuse:Sigma", "posterior covariance differs from the dense reference", np.asarray(o.Sigma)[0], S_ref, tol=1e-7, params=params)
        fail_if(fails, PROPERTY, "evidence:sensor-reuse", "sum of predictive log-densities != log marginal likelihood (dense reference)", ev, lml_ref, tol=1e-7, params=params)
        return fails
    return Case(label, fn)


def case_kalman(T, Dz, Dy, sub, pdiag=False):
    label = f"kalman/T{T}/Dz{Dz}/Dy{Dy}/{sub}" + ("/pdiag" if pdiag else "")
    def fn(m):
        rng = gen.rng_path(m.seed, label)
        fails = []
        A = gen.orth(rng, Dz) * 0.9 + 0.05 * rng.standard_normal((Dz, Dz)); b = 0.3 * rng.standard_normal(Dz); Q = gen.pd(rng, Dz, 0.2, 1.0)
        C = rng.standard_normal((Dy, Dz)); d = rng.standard_normal(Dy); Rn = gen.pd(rng, Dy, 0.2, 1.0)
        p0 = mk_pdf(m, rng, 1, Dz, diag=pdiag)
        ys = gen.points(rng, T, Dy)
        params = dict(T=T, Dz=Dz, Dy=Dy)
        state = m.cond(1, Dz, Dz, A[None], b[None], Sigma=Q[None])
        obs = m.cond(1, Dy, Dz, C[None], d[None], Sigma=Rn[None])
        filt = p0.reg
        ev = 0.0
        for t in range(T):
            pred = m.transform("marginal", state, filt)
            yt = m.arr(ys[t:t + 1])
            py = m.transform("marginal", obs, pred)
            ev += float(np.asarray(m.regs[m.evalln(py, yt)])[0, 0])
            post = m.transform("conditional", obs, pred)
            filt = m.condition_on_x(post, yt)
        # dense reference over z_1..z_T (z_0 integrated out) and y_1..y_T
        n = T * Dz
        mu = np.zeros(n); S = np.zeros((n, n))
        mz, Sz = p0.mu[0], p0.Sigma[0]
        means, covs = [], []
        # cross-covariances by propagation: Cov(z_s, z_t) = Cov(z_s) (A')^{t-s}
        for t in range(T):
            mz = A @ mz + b; Sz = A @ Sz @ A.T + Q
            means.append(mz); covs.append(Sz)
        for s in range(T):
            mu[s * Dz:(s + 1) * Dz] = means[s]
            P = covs[s]
            for t in range(s, T):
                S[s * Dz:(s + 1) * Dz, t * Dz:(t + 1) * Dz] = P
                S[t * Dz:(t + 1) * Dz, s * Dz:(s + 1) * Dz] = P.T
                P = P @ A.T
        H = np.zeros((T * Dy, n)); dd = np.tile(d, T); RR = np.zeros((T * Dy, T * Dy))
        for t in range(T):
            H[t * Dy:(t + 1) * Dy, t * Dz:(t + 1) * Dz] = C
            RR[t * Dy:(t + 1) * Dy, t * Dy:(t + 1) * Dy] = Rn
        mu_p, S_p, lml = dense_posterior(mu, S, [H], [dd], [RR], [ys.reshape(-1)])
        o = m.regs.get(filt)
        if o is None:
            fails.append(failure(PROPERTY, "kalman", "filter raised", params=params)); return fails
        fail_if(fails, PROPERTY, "kalman:mu", "filtered mean != conditional of the dense joint", np.asarray(o.mu)[0], mu_p[-Dz:], tol=1e-7, params=params)
        fail_if(fails, PROPERTY, "kalman:Sigma", "filtered covariance != conditional of the dense joint", np.asarray(o.Sigma)[0], S_p[-Dz:, -Dz:], tol=1e-7, params=params)
        fail_if(fails, PROPERTY, "kalman:evidence", "accumulated evidence != log-likelihood of the dense joint", ev, lml, tol=1e-7, params=params)
        return fails
    return Case(label, fn)


def cases(seed, tier):
    rng = gen.rng_path(seed, "C11")
    out = []
    grid = [(3, 2, 2), (2, 3, 1), (4, 1, 2)] + [(int(rng.integers(1, 7)), int(rng.integers(1, 5)), int(rng.integers(1, 5))) for _ in range(2 if tier == "quick" else 12)]
    for i, (N, Dw, Dy) in enumerate(grid):
        out.append(case_regression(N, Dw, Dy, i))
    kg = [(4, 2, 1), (3, 1, 2)] + [(int(rng.integers(2, 13)), int(rng.integers(1, 4)), int(rng.integers(1, 4))) for _ in range(1 if tier == "quick" else 8)]
    for i, (T, Dz, Dy) in enumerate(kg):
        out.append(case_kalman(T, Dz, Dy, i))
    out.append(case_sensor_reuse("diag", 3, 2, 2)); out.append(case_sensor_reuse("full", 3, 3, 1))
    out.append(case_regression(3, 3, 2, "d", pdiag=True))
    out.append(case_kalman(3, 2, 2, "d", pdiag=True))
    if tier != "quick":
        out.append(case_regression(5, 2, 1, "d2", pdiag=True))
    return seeded(out, seed)
