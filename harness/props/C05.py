"""C05 — marginals and linear images."""
from .common import *
from oracle.common import log_gauss_integral
PROPERTY = "C05"
LEAN_MODULES = ["GT.Props.C05"]
ASSUMPTIONS = ["float64 rounding outside the theorems; inputs with condition number <= 1e4"]


def gh_marginal(x_keep, dims, mu, S, n=40):
    """∫ N(x; mu, S) d(dropped coordinates) by tensor Gauss–Hermite on the dropped block (≤ 2 dropped).
    The nodes are placed where the integrand lives (centre and scale of the dropped block given the kept coordinates,
    computed here with NumPy, widened by 1.5): the placement only affects the accuracy of the rule, the value it converges to
    is the integral of the joint density, whatever formula the library uses."""
    D = len(mu)
    dims = list(dims)
    drop = [d for d in range(D) if d not in dims]
    if not drop:
        perm_x = np.zeros(D); perm_x[dims] = x_keep
        return float(np.exp(normal_logpdf(perm_x[None], mu, S)[0]))
    Skk = S[np.ix_(dims, dims)]; Sdk = S[np.ix_(drop, dims)]
    G = Sdk @ np.linalg.inv(Skk)
    c = mu[drop] + G @ (np.asarray(x_keep) - mu[dims])
    C = S[np.ix_(drop, drop)] - G @ Sdk.T
    Lc = np.linalg.cholesky(C) * 1.5
    t, w = np.polynomial.hermite.hermgauss(n)
    T = np.stack(np.meshgrid(*[t for _ in drop], indexing="ij"), axis=-1).reshape(-1, len(drop))
    Wt = np.prod(np.stack(np.meshgrid(*[w for _ in drop], indexing="ij"), axis=-1).reshape(-1, len(drop)), axis=1)
    Z = c[None] + np.sqrt(2) * T @ Lc.T
    pts = np.zeros((Z.shape[0], D))
    pts[:, dims] = x_keep
    pts[:, drop] = Z
    logp = normal_logpdf(pts, mu, S)
    # ∫ f(z) dz = ∫ f(c + √2 L t) |det √2 L| e^{|t|²} e^{-|t|²} dt
    jac = (np.sqrt(2) ** len(drop)) * abs(np.linalg.det(Lc)) * np.exp(np.sum(T ** 2, axis=1))
    return float(np.sum(Wt * jac * np.exp(logp)))


def case_marginal(R, D, diag, full, hist=False):
    label = f"get_marginal/R{R}/D{D}/diag{int(diag)}/full{int(full)}" + ("/hist" if hist else "")
    def fn(m):
        rng = gen.rng_path(m.seed, label)
        fails = []
        p = mk_pdf(m, rng, R, D, diag=diag)
        if hist:
            m.get_marginal(p.reg, rng.permutation(D)[:max(1, D - 1)])
            mutate_pdf(m, rng, p, diag=diag)
        dims = rng.permutation(D) if full else gen.subset(rng, D, proper=(D > 1))
        params = dict(R=R, D=D, dims=[int(d) for d in dims], diag=diag)
        mg = m.get_marginal(p.reg, dims)
        if m.regs.get(mg) is None:
            fails.append(failure(PROPERTY, "get_marginal", f"raised: {m.impl[-1][1:]}", params=params)); return fails
        x = gen.points(rng, 3, len(dims)); xr = m.arr(x)
        ev = np.asarray(m.regs[m.evalln(mg, xr)])
        exp = np.stack([normal_logpdf(x, p.mu[r][dims], p.Sigma[r][np.ix_(dims, dims)]) for r in range(R)])
        fail_if(fails, PROPERTY, "get_marginal", "marginal density != N(mu[dims], Sigma[dims,dims])", ev, exp, params=params)
        M = m.regs[mg]
        fail_if(fails, PROPERTY, "get_marginal:mu", "mean of the marginal", np.asarray(M.mu), p.mu[:, dims], params=params)
        fail_if(fails, PROPERTY, "get_marginal:Sigma", "covariance of the marginal", np.asarray(M.Sigma), np.stack([p.Sigma[r][np.ix_(dims, dims)] for r in range(R)]), params=params)
        if D - len(dims) <= 2 and D <= 4:
            q = np.array([[gh_marginal(x[n], dims, p.mu[r], p.Sigma[r]) for n in range(len(x))] for r in range(R)])
            fail_if(fails, PROPERTY, "get_marginal", "marginal density != integral of the joint over the dropped coordinates (quadrature)",
                    np.exp(ev), q, tol=1e-7, params=params)
        return fails
    return Case(label, fn)


def case_linear_sum(R, D, K, has_b, diag, hist=False, far=0.0):
    """far > 0: mean and offset of that magnitude (the covariance of W x + b does not depend on them: no digits may be lost)"""
    label = f"linear_sum/R{R}/D{D}/K{K}/b{int(has_b)}/diag{int(diag)}" + ("/hist" if hist else "") + (f"/far{far:g}" if far else "")
    def fn(m):
        rng = gen.rng_path(m.seed, label)
        fails = []
        p = mk_pdf(m, rng, R, D, diag=diag, scale=(far if far else 1.0))
        if hist:
            mutate_pdf(m, rng, p, diag=diag)
        # full row rank with bounded condition number
        W = np.stack([(gen.orth(rng, D)[:K] * rng.uniform(0.5, 2.0, (K, 1))) for _ in range(R)])
        b = (far if far else 1.0) * rng.standard_normal((R, K)) if has_b else None
        params = dict(R=R, D=D, K=K, has_b=has_b, far=far)
        ls = m.linear_sum(p.reg, W, b)
        if m.regs.get(ls) is None:
            fails.append(failure(PROPERTY, "get_density_of_linear_sum", f"raised: {m.impl[-1][1:]}", params=params)); return fails
        Sref = np.stack([W[r] @ p.Sigma[r] @ W[r].T for r in range(R)])
        fail_if(fails, PROPERTY, "get_density_of_linear_sum:Sigma", "covariance != W Sigma W'", np.asarray(m.regs[ls].Sigma), Sref, params=params, tol=1e-9)
        fail_if(fails, PROPERTY, "get_density_of_linear_sum:mu", "mean != W mu + b", np.asarray(m.regs[ls].mu),
                np.stack([W[r] @ p.mu[r] + (b[r] if has_b else 0) for r in range(R)]), params=params, tol=1e-12)
        fail_if(fails, PROPERTY, "get_density_of_linear_sum:Lambda", "Lambda is not the inverse of W Sigma W'", np.asarray(m.regs[ls].Lambda), np.linalg.inv(Sref), params=params, tol=1e-8)
        if far:
            return fails          # (density values at such points are dominated by the cancellation inside any natural-parameter form)
        y = gen.points(rng, 3, K); yr = m.arr(y)
        ev = np.asarray(m.regs[m.evalln(ls, yr)])
        exp = np.stack([normal_logpdf(y, W[r] @ p.mu[r] + (b[r] if has_b else 0), W[r] @ p.Sigma[r] @ W[r].T) for r in range(R)])
        fail_if(fails, PROPERTY, "get_density_of_linear_sum", "density != N(W mu + b, W Sigma W')", ev, exp, params=params)
        # b must not be modified in place and mu of the operand unchanged
        fail_if(fails, PROPERTY, "get_density_of_linear_sum", "operand mean changed", np.asarray(m.regs[p.reg].mu), p.mu, params=params)
        return fails
    return Case(label, fn)


def cases(seed, tier):
    rng = gen.rng_path(seed, "C05")
    out = []
    grid = [(1, 1), (2, 3), (3, 4), (1, 2)] + [(int(rng.integers(1, 4)), int(rng.integers(1, 6))) for _ in range(2 if tier == "quick" else 12)]
    for i, (R, D) in enumerate(grid):
        out.append(case_marginal(R, D, bool(i % 2), False))
        out.append(case_marginal(R, D, bool((i + 1) % 2), True))
        K = int(rng.integers(1, D + 1))
        out.append(case_linear_sum(R, D, K, bool(i % 2), bool((i // 2) % 2)))
        out.append(case_linear_sum(R, D, D, bool((i + 1) % 2), False))
    out.append(case_linear_sum(2, 3, 2, True, False, far=1e5)); out.append(case_linear_sum(1, 2, 2, False, True, far=3e4))
    for (R, D, dg) in [(2, 3, False), (3, 2, True)] + ([(2, 4, False), (1, 3, True)] if tier != "quick" else []):
        out.append(case_marginal(R, D, dg, False, hist=True))
        out.append(case_linear_sum(R, D, max(1, D - 1), True, dg, hist=True))
    return seeded(out, seed)
