"""C05 — marginals and linear images."""
from .common import *
from oracle.common import log_gauss_integral
PROPERTY = "C05"
LEAN_MODULES = ["GT.Props.C05"]
ASSUMPTIONS = ["float64 rounding outside the theorems; inputs with condition number <= 1e4"]


def gh_marginal(x_keep, dims, mu, S, n=40):
    """∫ N(x; mu, S) d(dropped coordinates) by tensor Gauss–Hermite on the dropped block (≤ 2 dropped)"""
    D = len(mu)
    drop = [d for d in range(D) if d not in list(dims)]
    if not drop:
        perm_x = np.zeros(D); perm_x[list(dims)] = x_keep
        return float(np.exp(normal_logpdf(perm_x[None], mu, S)[0]))
    t, w = np.polynomial.hermite.hermgauss(n)
    # integrate against a wide proposal N(mu_d, 4 S_dd) to be independent of the conditional formula
    sd = np.sqrt(np.diag(S)[drop]) * 2.0
    grids = np.meshgrid(*[mu[d] + np.sqrt(2) * s * t for d, s in zip(drop, sd)], indexing="ij")
    wts = np.meshgrid(*[w for _ in drop], indexing="ij")
    W = np.ones_like(grids[0])
    for ww in wts:
        W = W * ww
    pts = np.zeros((grids[0].size, D))
    pts[:, list(dims)] = x_keep
    for d, g in zip(drop, grids):
        pts[:, d] = g.reshape(-1)
    logp = normal_logpdf(pts, mu, S)
    # ∫ f(z) dz = ∫ f(mu+√2 s t) √2 s e^{t²} e^{-t²} dt
    jac = np.ones(grids[0].size)
    for d, s, g in zip(drop, sd, grids):
        tt = (g.reshape(-1) - mu[d]) / (np.sqrt(2) * s)
        jac = jac * np.sqrt(2) * s * np.exp(tt ** 2)
    return float(np.sum(W.reshape(-1) * jac * np.exp(logp)))


def case_marginal(R, D, diag, full):
    label = f"get_marginal/R{R}/D{D}/diag{int(diag)}/full{int(full)}"
    def fn(m):
        rng = gen.rng_path(m.seed, label)
        fails = []
        p = mk_pdf(m, rng, R, D, diag=diag)
        dims = rng.permutation(D) if full else gen.subset(rng, D, proper=(D > 1))
        params = dict(R=R, D=D, dims=[int(d) for d in dims], diag=diag)
        mg = m.get_marginal(p.reg, dims)
        if m.regs.get(mg) is None:
            fails.append(failure(PROPERTY, "get_marginal", f"raised: {m.impl[-1][1:]}", params=params)); return fails
        x = gen.points(rng, 3, len(dims)); xr = m.arr(x)
        ev = np.asarray(m.regs[m.evalln(mg, xr)])
        exp = np.stack([normal_logpdf(x, p.mu[r][dims], p.Sigma[r][np.ix_(dims, dims)]) for r in range(R)])
        fail_if(fails, PROPERTY, "get_marginal", "marginal density != N(mu[dims], Sigma[dims,dims])", ev, exp, params=params)
        M = m.regs[mg]
        fail_if(fails, PROPERTY, "get_marginal:mu", "mean of the marginal", np.asarray(M.mu), p.mu[:, dims], params=params)
        fail_if(fails, PROPERTY, "get_marginal:Sigma", "covariance of the marginal", np.asarray(M.Sigma), np.stack([p.Sigma[r][np.ix_(dims, dims)] for r in range(R)]), params=params)
        if D - len(dims) <= 2 and D <= 4:
            q = np.array([[gh_marginal(x[n], dims, p.mu[r], p.Sigma[r]) for n in range(len(x))] for r in range(R)])
            fail_if(fails, PROPERTY, "get_marginal", "marginal density != integral of the joint over the dropped coordinates (quadrature)",
                    np.exp(ev), q, tol=1e-7, params=params)
        return fails
    return Case(label, fn)


def case_linear_sum(R, D, K, has_b, diag):
    label = f"linear_sum/R{R}/D{D}/K{K}/b{int(has_b)}/diag{int(diag)}"
    def fn(m):
        rng = gen.rng_path(m.seed, label)
        fails = []
        p = mk_pdf(m, rng, R, D, diag=diag)
        # full row rank with bounded condition number
        W = np.stack([(gen.orth(rng, D)[:K] * rng.uniform(0.5, 2.0, (K, 1))) for _ in range(R)])
        b = rng.standard_normal((R, K)) if has_b else None
        params = dict(R=R, D=D, K=K, has_b=has_b)
        ls = m.linear_sum(p.reg, W, b)
        if m.regs.get(ls) is None:
            fails.append(failure(PROPERTY, "get_density_of_linear_sum", f"raised: {m.impl[-1][1:]}", params=params)); return fails
        y = gen.points(rng, 3, K); yr = m.arr(y)
        ev = np.asarray(m.regs[m.evalln(ls, yr)])
        exp = np.stack([normal_logpdf(y, W[r] @ p.mu[r] + (b[r] if has_b else 0), W[r] @ p.Sigma[r] @ W[r].T) for r in range(R)])
        fail_if(fails, PROPERTY, "get_density_of_linear_sum", "density != N(W mu + b, W Sigma W')", ev, exp, params=params)
        # b must not be modified in place and mu of the operand unchanged
        fail_if(fails, PROPERTY, "get_density_of_linear_sum", "operand mean changed", np.asarray(m.regs[p.reg].mu), p.mu, params=params)
        return fails
    return Case(label, fn)


def cases(seed, tier):
    rng = gen.rng_path(seed, "C05")
    out = []
    grid = [(1, 1), (2, 3), (3, 4), (1, 2)] + [(int(rng.integers(1, 4)), int(rng.integers(1, 6))) for _ in range(2 if tier == "quick" else 12)]
    for i, (R, D) in enumerate(grid):
        out.append(case_marginal(R, D, bool(i % 2), False))
        out.append(case_marginal(R, D, bool((i + 1) % 2), True))
        K = int(rng.integers(1, D + 1))
        out.append(case_linear_sum(R, D, K, bool(i % 2), bool((i // 2) % 2)))
        out.append(case_linear_sum(R, D, D, bool((i + 1) % 2), False))
    return seeded(out, seed)
