"""Case builders shared by C06–C10, C13 (linear-Gaussian conditionals) with NumPy oracles.

Batch regimes: (R_cond, R_x) ∈ {(1,1), (1,n), (n,1)}; result component k ↔ (k // R_x, k % R_x)."""
import numpy as np
import gen
from runner import Case, failure
from oracle.common import evalln, rel_err, normal_logpdf, LOG2PI, log_gauss_integral
from .common import *

REGIMES = [(1, 1), (1, 3), (3, 1)]


def dims_for(cls, rng, small=False):
    if cls in ("identity", "identitydiag"):
        D = int(rng.integers(1, 4))
        return D, D
    Dy, Dx = int(rng.integers(1, 4)), int(rng.integers(1, 4))
    return Dy, Dx


def shape_grid(seed, tag, tier):
    """(cls, Rc, Rx, Dy, Dx) tuples: fixed corners + seeded extras"""
    rng = gen.rng_path(seed, tag)
    out = []
    corners = [("full", 1, 1, 2, 3), ("full", 1, 3, 1, 2), ("full", 3, 1, 3, 2), ("full", 1, 2, 2, 2),
               ("diag", 1, 2, 2, 3), ("diag", 2, 1, 3, 1),
               ("identity", 1, 3, 2, 2), ("identity", 3, 1, 2, 2), ("identity", 1, 1, 1, 1),
               ("identitydiag", 1, 2, 3, 3), ("identitydiag", 2, 1, 2, 2)]
    out.extend(corners)
    n_extra = 3 if tier == "quick" else 24
    for _ in range(n_extra):
        cls = COND_CLASSES[int(rng.integers(0, 4))]
        Rc, Rx = REGIMES[int(rng.integers(0, 3))]
        if Rc > 1:
            Rc = int(rng.integers(2, 5))
        if Rx > 1:
            Rx = int(rng.integers(2, 5))
        Dy, Dx = dims_for(cls, rng)
        out.append((cls, Rc, Rx, Dy, Dx))
    return out


def pdiag_grid(seed, tag, tier):
    """(cls, Rc, Rx, Dy, Dx) tuples for the cases whose prior p(x) is a GaussianDiagPDF (tag '/pdiag'): every conditional
    class (full-covariance ones included: a diagonal prior must not make the result diagonal) x batch regimes"""
    out = [("full", 1, 1, 2, 3), ("identity", 1, 1, 3, 3), ("identity", 1, 2, 2, 2), ("identity", 2, 1, 2, 2),
           ("identitydiag", 1, 1, 2, 2), ("identitydiag", 1, 3, 3, 3), ("diag", 1, 2, 2, 2)]
    if tier != "quick":
        out += [("full", 3, 1, 3, 2), ("full", 1, 2, 1, 2), ("identitydiag", 2, 1, 3, 3), ("diag", 2, 1, 3, 2), ("identity", 1, 4, 4, 4)]
    return out


def upd_history(m, rng, c, p, kind, tag):
    """tag '/upd': the conditional has a history — it was already used for the same transformation and its noise covariance
    was then replaced with update_Sigma; everything derived from Sigma must follow (no stale memo)"""
    if "upd" not in tag:
        return
    m.transform(kind, c.reg, p.reg)
    S2 = gen.pd_batch(rng, c.R, c.Dy, diag=(c.cls in ("diag", "identitydiag")))
    m.update_sigma(c.reg, S2)
    c.Sigma = S2


def ctor_grid(seed, tag, tier):
    """(tuple, case tag): constructor variants that the drawn `give` may not hit — every class built from Lambda only and from
    all three covariance arguments; general classes with the default (absent) offset and Dy != Dx"""
    out = [(("full", 1, 1, 2, 3), "/giveL"), (("diag", 1, 2, 2, 3), "/giveL"), (("identity", 1, 2, 2, 2), "/giveL"),
           (("identitydiag", 1, 1, 3, 3), "/giveL"), (("identitydiag", 2, 1, 2, 2), "/giveA"), (("diag", 2, 1, 3, 2), "/giveA"),
           (("diag", 1, 1, 1, 3), "/bnone"), (("full", 1, 2, 1, 2), "/bnone"), (("diag", 1, 1, 3, 2), "/bnone/giveL"),
           (("full", 2, 1, 2, 3), "/bzero"), (("diag", 1, 2, 2, 2), "/bzero")]
    if tier != "quick":
        out += [(("full", 2, 1, 3, 1), "/giveA"), (("identity", 3, 1, 3, 3), "/giveA"), (("full", 1, 1, 3, 2), "/bnone/giveA")]
    return out


def mk_any_cond(m, rng, cls, Rc, Dy, Dx, tag=""):
    """cls 'nn': an NNControlGaussianConditional with control u (one row per conditional component); the reference
    parameters M(u), b(u) are computed here from the network output (first Dy*Dx entries: M row-major, then Dy entries: b)"""
    if cls != "nn":
        return mk_cond(m, rng, cls, Rc, Dy, Dx, tag=tag)
    Du = 2
    S = gen.pd_batch(rng, 1, Dy)
    W = rng.standard_normal((Du, Dy * (Dx + 1))); c0 = rng.standard_normal(Dy * (Dx + 1))
    nn = m.nncond(Dy, Dx, Du, S, W, c0)
    u = rng.standard_normal((Rc, Du))
    o = u @ W + c0
    return Obj(None, nn=nn, u=u, M=o[:, :Dy * Dx].reshape(Rc, Dy, Dx), b=o[:, Dy * Dx:], Sigma=np.tile(S, (Rc, 1, 1)), R=Rc, Dy=Dy, Dx=Dx, cls="nn")


def do_transform(m, kind, c, p_reg):
    """the conditional's own method: for the NN-controlled class `affine_*_transformation(p, u=u)`"""
    if getattr(c, "nn", None) is not None:
        return m.nn_call(kind, c.nn, c.u, p_reg)
    return m.transform(kind, c.reg, p_reg)


def nn_grid(seed, tag, tier):
    out = [("nn", 1, 1, 2, 3), ("nn", 1, 3, 2, 2), ("nn", 3, 1, 1, 2)]
    if tier != "quick":
        out += [("nn", 1, 2, 3, 1), ("nn", 2, 1, 3, 3)]
    return out


def well_formed(fails, prop, site, o, R, params):
    """every per-component field of a batch of R components has leading dimension R (a result that only broadcasts to the
    right values is not a batch: its slices, updates and round trips break)"""
    if o is None:
        return
    for f in ("Sigma", "Lambda", "mu", "nu", "ln_beta", "ln_det_Sigma", "M", "b"):
        a = getattr(o, f, None)
        if a is not None and hasattr(a, "shape") and (len(a.shape) == 0 or a.shape[0] != R):
            fails.append(failure(prop, f"{site}:shape:{f}", f"field {f} has shape {tuple(a.shape)} in a batch of {R} components", params=params))


def hd_grid(seed, tag, tier):
    """'/hd' cases: dimension 48-64 with variances ~1e-5 / 1e-6: every matrix is well conditioned, but determinants are far
    outside the float64 range (their logarithms are not)"""
    out = [("full", 1, 1, 56, 64)]
    if tier != "quick":
        out += [("diag", 1, 1, 64, 48), ("identity", 1, 1, 64, 64)]
    return out


def upd_grid(seed, tag, tier):
    out = [("full", 1, 1, 2, 3), ("identity", 1, 2, 2, 2), ("diag", 2, 1, 3, 2), ("identitydiag", 1, 1, 3, 3)]
    if tier != "quick":
        out += [("full", 1, 3, 3, 2), ("full", 2, 1, 1, 2), ("identity", 3, 1, 2, 2), ("diag", 1, 2, 2, 2)]
    return out


def joint_ref(c, p, ci, xi):
    """dense reference joint N over (x, y) for conditional component ci and prior component xi"""
    M, b, Sy = c.M[ci], c.b[ci], c.Sigma[ci]
    mu, Sx = p.mu[xi], p.Sigma[xi]
    mu_xy = np.concatenate([mu, M @ mu + b])
    C = M @ Sx
    S_xy = np.block([[Sx, C.T], [C, Sy + C @ M.T]])
    return mu_xy, S_xy


def case_joint(prop, cls, Rc, Rx, Dy, Dx, tag=""):
    label = f"joint/{cls}/R{Rc}x{Rx}/Dy{Dy}Dx{Dx}{tag}"

    def fn(m):
        rng = gen.rng_path(m.seed, label)
        fails = []
        c = mk_any_cond(m, rng, cls, Rc, Dy, Dx, tag=tag)
        p = mk_pdf(m, rng, Rx, Dx, diag=("pdiag" in tag), cov_scale=(1e-5 if "hd" in tag else 1.0))      # tag '/pdiag': the prior is a GaussianDiagPDF
        upd_history(m, rng, c, p, "joint", tag)
        j = do_transform(m, "joint", c, p.reg)
        params = dict(cls=cls, Rc=Rc, Rx=Rx, Dy=Dy, Dx=Dx)
        well_formed(fails, prop, f"affine_joint_transformation:{cls}", m.regs.get(j), Rc * Rx, params)
        if m.regs.get(j) is None:
            fails.append(failure(prop, f"affine_joint_transformation:{cls}", f"raised: {m.impl[-1][1:]}", params=params))
            return fails
        pts = gen.points(rng, 3, Dx + Dy, 1.0)
        pr = m.arr(pts)
        ev = m.evalln(j, pr)
        got = np.asarray(m.regs[ev])
        exp = np.zeros_like(got)
        for k in range(Rc * Rx):
            ci, xi = k // Rx, k % Rx
            x, y = pts[:, :Dx], pts[:, Dx:]
            # chain rule with independent normal log-densities
            ly = np.array([normal_logpdf(y[n:n + 1], c.M[ci] @ x[n] + c.b[ci], c.Sigma[ci])[0] for n in range(len(pts))])
            lx = normal_logpdf(x, p.mu[xi], p.Sigma[xi])
            exp[k] = ly + lx
        fail_if(fails, prop, f"affine_joint_transformation:{cls}", "joint(x,y) != p(y|x) p(x)", got, exp, params=params)
        # caches of the joint must describe the same Gaussian (C04)
        J = m.regs[j]
        for k in range(Rc * Rx):
            mu_xy, S_xy = joint_ref(c, p, k // Rx, k % Rx)
            fail_if(fails, prop, f"affine_joint_transformation:{cls}:Sigma", "joint covariance", np.asarray(J.Sigma)[k], S_xy, params=params)
            fail_if(fails, prop, f"affine_joint_transformation:{cls}:mu", "joint mean", np.asarray(J.mu)[k], mu_xy, params=params)
            fail_if(fails, prop, f"affine_joint_transformation:{cls}:ln_det_Sigma", "joint log-determinant",
                    np.asarray(J.ln_det_Sigma)[k], np.linalg.slogdet(S_xy)[1], params=params)
            fail_if(fails, prop, f"affine_joint_transformation:{cls}:Lambda", "joint precision",
                    np.asarray(J.Lambda)[k], np.linalg.inv(S_xy), params=params, tol=1e-7)
        return fails
    return Case(label, fn)


def case_marginal(prop, cls, Rc, Rx, Dy, Dx, tag=""):
    label = f"marginal/{cls}/R{Rc}x{Rx}/Dy{Dy}Dx{Dx}{tag}"

    def fn(m):
        rng = gen.rng_path(m.seed, label)
        fails = []
        c = mk_any_cond(m, rng, cls, Rc, Dy, Dx, tag=tag)
        p = mk_pdf(m, rng, Rx, Dx, diag=("pdiag" in tag), cov_scale=(1e-5 if "hd" in tag else 1.0))      # tag '/pdiag': the prior is a GaussianDiagPDF
        upd_history(m, rng, c, p, "marginal", tag)
        mg = do_transform(m, "marginal", c, p.reg)
        params = dict(cls=cls, Rc=Rc, Rx=Rx, Dy=Dy, Dx=Dx)
        well_formed(fails, prop, f"affine_marginal_transformation:{cls}", m.regs.get(mg), Rc * Rx, params)
        if m.regs.get(mg) is None:
            fails.append(failure(prop, f"affine_marginal_transformation:{cls}", f"raised: {m.impl[-1][1:]}", params=params))
            return fails
        y = gen.points(rng, 3, Dy, 1.5)
        yr = m.arr(y)
        ev = m.evalln(mg, yr)
        got = np.asarray(m.regs[ev])
        exp = np.zeros_like(got)
        for k in range(Rc * Rx):
            ci, xi = k // Rx, k % Rx
            exp[k] = normal_logpdf(y, c.M[ci] @ p.mu[xi] + c.b[ci], c.Sigma[ci] + c.M[ci] @ p.Sigma[xi] @ c.M[ci].T)
        fail_if(fails, prop, f"affine_marginal_transformation:{cls}", "marginal(y) != N(y; M mu + b, Sigma_y + M Sigma_x M')",
                got, exp, params=params)
        # equals the y-marginal of the joint transformation
        j = do_transform(m, "joint", c, p.reg)
        if m.regs.get(j) is not None:
            mj = m.get_marginal(j, list(range(Dx, Dx + Dy)))
            ev2 = m.evalln(mj, yr)
            fail_if(fails, prop, f"affine_marginal_transformation:{cls}", "marginal != y-marginal of the joint",
                    got, np.asarray(m.regs[ev2]), params=params)
        return fails
    return Case(label, fn)


def case_conditional(prop, cls, Rc, Rx, Dy, Dx, tag=""):
    label = f"conditional/{cls}/R{Rc}x{Rx}/Dy{Dy}Dx{Dx}{tag}"

    def fn(m):
        rng = gen.rng_path(m.seed, label)
        fails = []
        c = mk_any_cond(m, rng, cls, Rc, Dy, Dx, tag=tag)
        p = mk_pdf(m, rng, Rx, Dx, diag=("pdiag" in tag), cov_scale=(1e-5 if "hd" in tag else 1.0))      # tag '/pdiag': the prior is a GaussianDiagPDF
        upd_history(m, rng, c, p, "conditional", tag)
        post = do_transform(m, "conditional", c, p.reg)
        params = dict(cls=cls, Rc=Rc, Rx=Rx, Dy=Dy, Dx=Dx)
        well_formed(fails, prop, f"affine_conditional_transformation:{cls}", m.regs.get(post), Rc * Rx, params)
        if m.regs.get(post) is None:
            fails.append(failure(prop, f"affine_conditional_transformation:{cls}", f"raised: {m.impl[-1][1:]}", params=params))
            return fails
        N = 2
        y = gen.points(rng, N, Dy, 1.5); x = gen.points(rng, 3, Dx, 1.5)
        yr = m.arr(y); xr = m.arr(x)
        pxy = m.condition_on_x(post, yr)          # components k*N + n
        ev = m.evalln(pxy, xr)                    # [R*N, 3]
        got = np.asarray(m.regs[ev])
        exp = np.zeros_like(got)
        for k in range(Rc * Rx):
            ci, xi = k // Rx, k % Rx
            Sy = c.Sigma[ci] + c.M[ci] @ p.Sigma[xi] @ c.M[ci].T
            my = c.M[ci] @ p.mu[xi] + c.b[ci]
            for n in range(N):
                lpy = normal_logpdf(y[n:n + 1], my, Sy)[0]
                for t in range(3):
                    lyx = normal_logpdf(y[n:n + 1], c.M[ci] @ x[t] + c.b[ci], c.Sigma[ci])[0]
                    lx = normal_logpdf(x[t:t + 1], p.mu[xi], p.Sigma[xi])[0]
                    exp[k * N + n, t] = lyx + lx - lpy     # Bayes' rule
        fail_if(fails, prop, f"affine_conditional_transformation:{cls}", "p(x|y) p(y) != p(y|x) p(x)", got, exp, params=params)
        # round trips, component by component
        mg = do_transform(m, "marginal", c, p.reg)
        if m.regs.get(mg) is not None:
            for k in range(min(Rc * Rx, 2)):
                ci, xi = k // Rx, k % Rx
                pk = m.slice(post, [k]); mk = m.slice(mg, [k])
                back = m.transform("conditional", pk, mk)       # should be c[ci]
                backm = m.transform("marginal", pk, mk)         # should be p[xi]
                if m.regs.get(back) is not None:
                    B = m.regs[back]
                    fail_if(fails, prop, f"round-trip:{cls}:M", "conditional∘conditional does not recover M", np.asarray(B.M)[0], c.M[ci], tol=1e-7, params=params)
                    fail_if(fails, prop, f"round-trip:{cls}:b", "conditional∘conditional does not recover b", np.asarray(B.b)[0], c.b[ci], tol=1e-7, params=params)
                    fail_if(fails, prop, f"round-trip:{cls}:Sigma", "conditional∘conditional does not recover Sigma", np.asarray(B.Sigma)[0], c.Sigma[ci], tol=1e-7, params=params)
                if m.regs.get(backm) is not None:
                    Bm = m.regs[backm]
                    fail_if(fails, prop, f"round-trip:{cls}:mu", "marginal of the posterior does not recover mu_x", np.asarray(Bm.mu)[0], p.mu[xi], tol=1e-7, params=params)
                    fail_if(fails, prop, f"round-trip:{cls}:Sigma_x", "marginal of the posterior does not recover Sigma_x", np.asarray(Bm.Sigma)[0], p.Sigma[xi], tol=1e-7, params=params)
        return fails
    return Case(label, fn)


def case_set_y(prop, cls, R, N, Dy, Dx, tag=""):
    label = f"set_y/{cls}/R{R}/N{N}/Dy{Dy}Dx{Dx}{tag}"

    def fn(m):
        rng = gen.rng_path(m.seed, label)
        fails = []
        c = mk_cond(m, rng, cls, R, Dy, Dx, tag=tag)
        y = gen.points(rng, N, Dy, 1.5); x = gen.points(rng, 3, Dx, 1.5)
        yr = m.arr(y); xr = m.arr(x)
        if "upd" in tag:                   # history: the likelihood was already built once, then the noise was replaced
            m.set_y(c.reg, yr); mutate_cond(m, rng, c)
        f = m.set_y(c.reg, yr)
        params = dict(cls=cls, R=R, N=N, Dy=Dy, Dx=Dx)
        if m.regs.get(f) is None:
            fails.append(failure(prop, f"set_y:{cls}", f"set_y raised or returned an ill-formed batch: {m.impl[-1][1:]}", params=params))
            return fails
        ev = m.evalln(f, xr)
        got = np.asarray(m.regs[ev])                       # [N, 3]
        exp = np.zeros_like(got)
        for n in range(N):
            r = 0 if R == 1 else n
            for t in range(3):
                exp[n, t] = normal_logpdf(y[n:n + 1], c.M[r] @ x[t] + c.b[r], c.Sigma[r])[0]
        err = rel_err(got, exp)
        if err > TOL:
            fails.append(failure(prop, f"set_y:{cls}", "set_y(y)(x) != N(y; Mx+b, Sigma)", expected=exp.tolist(), got=got.tolist(),
                                 deviation=(got - exp).reshape(-1).tolist(), params=params))
        # cond.set_y(y)(x) == cond(x)(y) through the library
        px = m.condition_on_x(c.reg, xr)                   # components r*3 + t
        ev2 = m.evalln(px, yr)                             # [R*3, N]
        # usable like any factor: product, slice, multiply
        pr = m.product(f)
        evp = m.evalln(pr, xr)
        if m.regs.get(evp) is not None:
            gp = np.asarray(m.regs[evp])[0]
            errp = rel_err(gp, exp.sum(axis=0))
            if errp > TOL:
                fails.append(failure(prop, f"set_y:{cls}:product", "product() of the likelihood factor != sum of log-likelihoods",
                                     expected=exp.sum(axis=0).tolist(), got=gp.tolist(),
                                     deviation=(gp - exp.sum(axis=0)).tolist(), params=dict(params, Nsum=N)))
        sl = m.slice(f, [N - 1, 0])
        evs = m.evalln(sl, xr)
        if m.regs.get(evs) is not None:
            gs = np.asarray(m.regs[evs]); es = exp[[N - 1, 0]]
            if gs.shape != es.shape or rel_err(gs, es) > TOL:
                fails.append(failure(prop, f"set_y:{cls}:slice", "slice of the likelihood factor != the addressed observations' likelihoods",
                                     expected=es.tolist(), got=gs.tolist(), deviation=((gs - es).reshape(-1).tolist() if gs.shape == es.shape else None), params=params))
        else:
            fails.append(failure(prop, f"set_y:{cls}:slice", f"slicing / evaluating the likelihood factor raised: {m.impl[-1][1:]}", params=params))
        u = mk_measure(m, rng, 1, Dx)
        m.multiply(u.reg, f, False)
        return fails
    return Case(label, fn)


def case_info(prop, cls, Rc, Rx, Dy, Dx, tag="", zero_M=False):
    label = f"info/{cls}/R{Rc}x{Rx}/Dy{Dy}Dx{Dx}{'/M0' if zero_M else ''}{tag}"

    def fn(m):
        rng = gen.rng_path(m.seed, label)
        fails = []
        if zero_M and cls in ("full", "diag"):
            S = gen.pd_batch(rng, Rc, Dy, diag=(cls == "diag"))
            M = np.zeros((Rc, Dy, Dx)); b = rng.standard_normal((Rc, Dy))
            c = Obj(m.cond(Rc, Dy, Dx, M, b, Sigma=S, diag=(cls == "diag")), M=M, b=b, Sigma=S, R=Rc, Dy=Dy, Dx=Dx, cls=cls)
        else:
            c = mk_cond(m, rng, cls, Rc, Dy, Dx, tag=tag)
        p = mk_pdf(m, rng, Rx, Dx, diag=("pdiag" in tag), cov_scale=(1e-5 if "hd" in tag else 1.0))      # tag '/pdiag': the prior is a GaussianDiagPDF
        params = dict(cls=cls, Rc=Rc, Rx=Rx, Dy=Dy, Dx=Dx)
        if "hist" in tag:
            # history: the quantities were already computed for these two objects, then both were changed in place
            # (p.update, c.update_Sigma); the second computation must see the new parameters
            m.transform("cond_entropy", c.reg, p.reg); m.transform("mutual_information", c.reg, p.reg)
            # '/histp': only p(x) is updated, '/hists': only the noise covariance, '/hist': both
            if "hists" not in tag:
                K = int(rng.integers(1, Rx + 1)); uidx = rng.permutation(Rx)[:K]
                d = mk_pdf(m, rng, K, Dx, diag=("pdiag" in tag), scale=2.0)
                m.update(p.reg, uidx, d.reg)
                p.Sigma = p.Sigma.copy(); p.mu = p.mu.copy(); p.Sigma[uidx] = d.Sigma; p.mu[uidx] = d.mu
            if "histp" not in tag:
                S2 = gen.pd_batch(rng, Rc, Dy, diag=(cls in ("diag", "identitydiag")))
                m.update_sigma(c.reg, S2); c.Sigma = S2
        ce = m.transform("cond_entropy", c.reg, p.reg)
        mi = m.transform("mutual_information", c.reg, p.reg)
        H = lambda S: 0.5 * np.sum(np.log(2 * np.pi * np.e * np.linalg.eigvalsh(S)))
        for k in range(Rc * Rx):
            ci, xi = k // Rx, k % Rx
            _, Sxy = joint_ref(c, p, ci, xi)
            Sy = Sxy[Dx:, Dx:]
            hxy, hx, hy = H(Sxy), H(p.Sigma[xi]), H(Sy)
            if m.regs.get(ce) is not None:
                fail_if(fails, prop, f"conditional_entropy:{cls}", "H(Y|X) != H(X,Y) - H(X)", np.asarray(m.regs[ce])[k], hxy - hx, params=params)
                # = -E[ln p(y|x)] = H of the noise
                fail_if(fails, prop, f"conditional_entropy:{cls}", "H(Y|X) != entropy of the noise", np.asarray(m.regs[ce])[k], H(c.Sigma[ci]), params=params)
            else:
                fails.append(failure(prop, f"conditional_entropy:{cls}", f"raised: {m.impl[-2][1:]}", params=params))
            if m.regs.get(mi) is not None:
                g = float(np.asarray(m.regs[mi])[k])
                fail_if(fails, prop, f"mutual_information:{cls}", "I != H(X)+H(Y)-H(X,Y)", g, hx + hy - hxy, params=params, signed_dev=True)
                if g < -1e-9:
                    fails.append(failure(prop, f"mutual_information:{cls}", "mutual information negative", got=g, params=params))
                if zero_M and abs(g) > 1e-9:
                    fails.append(failure(prop, f"mutual_information:{cls}", "mutual information not zero although y does not depend on x", got=g, params=params))
            else:
                fails.append(failure(prop, f"mutual_information:{cls}", f"raised: {m.impl[-1][1:]}", params=params))
        # symmetry under the conditional transformation (single components)
        if Rc == 1 and Rx == 1 and m.regs.get(mi) is not None:
            post = m.transform("conditional", c.reg, p.reg)
            mg = do_transform(m, "marginal", c, p.reg)
            if m.regs.get(post) is not None and m.regs.get(mg) is not None:
                mi2 = m.transform("mutual_information", post, mg)
                if m.regs.get(mi2) is not None:
                    fail_if(fails, prop, f"mutual_information:{cls}", "I(X;Y) changes when the roles are swapped",
                            np.asarray(m.regs[mi2]), np.asarray(m.regs[mi]), params=params)
        return fails
    return Case(label, fn)
