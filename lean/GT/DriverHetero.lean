import GT.DriverCore
/-!
# Driver extension: operations of `gaussian_toolbox/approximate_conditional.py (heteroscedastic classes)`
`execHetero dst op` returns `true` when it handled the instruction.
-/
namespace GT.Driver
open GT

def execHetero (dst : Nat) (op : String) : M Bool := do
  let _ := dst
  match op with
  | _ => pure false

end GT.Driver
