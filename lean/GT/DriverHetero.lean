import GT.DriverCore
import GT.Model.Hetero
import GT.Model.HeteroTrunc
/-!
# Driver extension: operations of `gaussian_toolbox/approximate_conditional.py (heteroscedastic classes)`
`execHetero dst op` returns `true` when it handled the instruction.

Instructions (`c` = register of a heteroscedastic conditional, `p` = register of a `GaussianPDF`,
`x`, `y`, `a`, `om` = registers of arrays, `k` = index of a noise unit):

* `hetero <exp|coshm1|heaviside|relu> R Dy Dx Da Dk M b A W` — constructor (refusals of `__post_init__`)
* `het_linear_layer c x`, `het_cond_mu c x`, `het_cond_cov c x which` (`0`: `invert=False`;
  `1,2,3`: `Sigma`, `Lambda`, `ln_det` of `invert=True`), `het_condition_on_x c x`, `het_set_y c y`
* `het_noise_diag c p`, `het_integrate_sigma_x c p`, `het_expected_moments c p which`,
  `het_expected_cross c p`, `het_joint c p`, `het_marginal c p`, `het_conditional c p`
* `het_log_cond_y c p y`, `het_lb_quadratic c p y`, `het_lb_log_det c p`
* `het_omega_dagger c p k`, `het_k_func c p k om`, `het_omega_star c p y k a`,
  `het_update_omega c p y k a om`, `het_lb_integrals c p y k a om which` (`0`: second order,
  `compute_fourth_order=False`; `1`, `2`: second / fourth order of `compute_fourth_order=True`),
  `het_omega_loop c p y k a start prev` (the `while_loop` from an arbitrary start)

Step / rectified-linear links (`GT/Model/HeteroTrunc.lean`, class tags `heaviside`, `relu`):
`_integrate_noise_diagonal` returns `[R, Dk]`, which `het_noise_diag` dumps.  The step class has
no `while_loop` on the path of `integrate_log_conditional_y`, so a single-component `p_x` is
broadcast over `N > 1` observations (`pairYP`); its `k_func` / `_lower_bound_integrals` are `pass`
(`None`, dumped as the empty array; everything that unpacks the `None` is a `TypeError`).
-/
namespace GT.Driver
open GT

def hetOpsOf (name : String) : Option (HLinkOps F) :=
  match name with
  | "exp" => some expOps
  | "coshm1" => some coshM1Ops
  | "heaviside" => some heavisideOps
  | "relu" => some reluOps
  | _ => none

/-- the classes of `GT/Model/HeteroTrunc.lean` -/
def isTruncLink (ops : HLinkOps F) : Bool := ops.name == "heaviside" || ops.name == "relu"
def isHeaviside (ops : HLinkOps F) : Bool := ops.name == "heaviside"

structure HetV where
  Dy : Nat
  Dx : Nat
  Da : Nat
  Dk : Nat
  ops : HLinkOps F
  c : HeteroB Dy Dx Da Dk F

def getHet (i : Nat) : M HetV := do
  match (← getReg i) with
  | .hetero Dy Dx Da Dk ops c => pure ⟨Dy, Dx, Da, Dk, ops, c⟩
  | _ => refuse "type-error:hetero"

/-- an `[N, D]` array register as `N` points -/
def getPointsH (i : Nat) (D : Nat) : M (Σ N, Arr N (Vec D F)) := do
  let (shape, x) ← getArr i
  match shape with
  | [N, D'] =>
    if D' ≠ D then refuse "shape-error"
    pure ⟨N, v2 x⟩
  | _ => refuse "shape-error"

/-- a `[D]` array register -/
def getVec (i : Nat) (D : Nat) : M (Vec D F) := do
  let (shape, x) ← getArr i
  match shape with
  | [D'] =>
    if D' ≠ D then refuse "shape-error"
    pure (v1 x)
  | _ => refuse "shape-error"

/-- the density `p_x` with its dimension checked -/
def getPx (i : Nat) (Dx : Nat) : M (Σ R, PdfV R Dx F) := do
  let ⟨R, D, p⟩ ← getPdf i
  if h : D = Dx then pure ⟨R, h ▸ p⟩ else refuse "shape-error"

/-- `y` (`[N, Dy]`) paired with the `R` components of `p_x`: `N = R`, or `N = 1` broadcast.
Everything else raises in the code (`N > 1, R = 1`: the `while_loop` carry changes shape;
`N ≠ R`: einsum shape error). -/
def pairY {Dy : Nat} (R : Nat) (i : Nat) : M (Arr R (Vec Dy F)) := do
  let ⟨N, ys⟩ ← getPointsH i Dy
  if h : N = R then pure (h ▸ ys)
  else if h1 : N = 1 then pure (tab fun _ => ys (h1 ▸ (0 : Fin 1)))
  else refuse "shape-error"

/-- a single-component density used for each of `N` observations (einsum broadcasting of the
leading axis of length one) -/
def replicatePx {Dx : Nat} (N : Nat) (p : PdfV 1 Dx F) : PdfV N Dx F :=
  ⟨p.diag, tab fun _ => p.Lambda 0, tab fun _ => p.nu 0, tab fun _ => p.lnBeta 0, tab fun _ => p.Sigma 0,
   tab fun _ => p.lnDetSigma 0, tab fun _ => p.mu 0, tab fun _ => p.lnZ 0⟩

/-- `pairY` together with `p_x`: for the step link `R = 1` is paired with every one of `N > 1`
observations (the broadcasting einsums do this; the other classes fail in the `while_loop`). -/
def pairYP {Dy Dx : Nat} (ops : HLinkOps F) (R : Nat) (p : PdfV R Dx F) (i : Nat) :
    M (Σ B, PdfV B Dx F × Arr B (Vec Dy F)) := do
  let ⟨N, ys⟩ ← getPointsH i Dy
  if h : N = R then pure ⟨R, p, h ▸ ys⟩
  else if h1 : N = 1 then pure ⟨R, p, tab fun _ => ys (h1 ▸ (0 : Fin 1))⟩
  else if hR : R = 1 then
    if isHeaviside ops then pure ⟨N, replicatePx N (hR ▸ p), ys⟩ else refuse "shape-error"
  else refuse "shape-error"

def unitIdx (Dk : Nat) : M (Fin Dk) := do
  let k ← lp nat
  if h : k < Dk then pure ⟨k, h⟩ else refuse "index-error"

def execHetero (dst : Nat) (op : String) : M Bool := do
  match op with
  | "hetero" => do
    let cls ← lp tok
    let R ← lp nat; let Dy ← lp nat; let Dx ← lp nat; let Da ← lp nat; let Dk ← lp nat
    let Mm ← lp (floats (R * Dy * Dx)); let b ← lp (floats (R * Dy))
    let A ← lp (floats (R * Dy * Da)); let W ← lp (floats (Dk * (Dx + 1)))
    match hetOpsOf cls with
    | none => refuse "bad-op"
    | some ops =>
      -- `__post_init__`: three NotImplementedErrors, in this order
      if R ≠ 1 then refuse "refuse-documented"
      if hy : Dy ≤ Da then
        if hk : Dk ≤ Da then
          setReg dst (.hetero Dy Dx Da Dk ops (mkHetero be (v3 Mm) (v2 b) (v3 A) (v2 W) hy hk))
        else refuse "refuse-documented"
      else refuse "refuse-documented"
    pure true
  | "het_linear_layer" => do
    let h ← getHet (← reg)
    let ⟨N, x⟩ ← getPointsH (← reg) h.Dx
    setReg dst (.arr [N, h.Dk] (d2 (h.c.linearLayer x)))
    pure true
  | "het_cond_mu" => do
    let h ← getHet (← reg)
    let ⟨N, x⟩ ← getPointsH (← reg) h.Dx
    setReg dst (.arr [1, N, h.Dy] (d2 (h.c.condMu x)))
    pure true
  | "het_cond_cov" => do
    let h ← getHet (← reg)
    let ⟨N, x⟩ ← getPointsH (← reg) h.Dx
    let which ← lp nat
    match which with
    | 0 => setReg dst (.arr [N, h.Dy, h.Dy] (d3 (h.c.conditionalCov h.ops x)))
    | 1 => setReg dst (.arr [N, h.Dy, h.Dy] (d3 (h.c.conditionalCovInv h.ops x).1))
    | 2 => setReg dst (.arr [N, h.Dy, h.Dy] (d3 (h.c.conditionalCovInv h.ops x).2.1))
    | _ => setReg dst (.arr [N] (d1 (h.c.conditionalCovInv h.ops x).2.2))
    pure true
  | "het_condition_on_x" => do
    let h ← getHet (← reg)
    let ⟨N, x⟩ ← getPointsH (← reg) h.Dx
    setReg dst (.meas N h.Dy (h.c.conditionOnX h.ops be x))
    pure true
  | "het_set_y" => do
    let _ ← getHet (← reg)
    -- `raise AttributeError("HeteroscedasticConditional doesn't have function set_y.")`
    refuse "other"
  | "het_noise_diag" => do
    let h ← getHet (← reg)
    let ⟨R, p⟩ ← getPx (← reg) h.Dx
    -- exp / cosh-1: the flat `[R*Dk]` result of `integrate()`; step / rectified-linear: `[R, Dk]` (same order)
    if isTruncLink h.ops then
      setReg dst (.arr [R, h.Dk] (d1 (h.ops.integrateNoiseDiagonal be h.c p)))
    else
      setReg dst (.arr [R * h.Dk] (d1 (h.ops.integrateNoiseDiagonal be h.c p)))
    pure true
  | "het_integrate_sigma_x" | "het_expected_moments" | "het_joint" | "het_marginal" | "het_conditional" => do
    let h ← getHet (← reg)
    let ⟨R, p⟩ ← getPx (← reg) h.Dx
    match op with
    | "het_integrate_sigma_x" => setReg dst (.arr [R, h.Dy, h.Dy] (d3 (h.c.integrateSigmaX h.ops be p)))
    | "het_expected_moments" =>
      let which ← lp nat
      let (mu, S) := h.c.getExpectedMoments h.ops be p
      if which = 0 then setReg dst (.arr [R, h.Dy] (d2 mu)) else setReg dst (.arr [R, h.Dy, h.Dy] (d3 S))
    | "het_joint" => setReg dst (.meas R (h.Dx + h.Dy) (h.c.affineJoint h.ops be p))
    | "het_marginal" => setReg dst (.meas R h.Dy (h.c.affineMarginal h.ops be p))
    | _ =>
      match h.c.affineConditional h.ops be p with
      | some cnd => setReg dst (.cond R h.Dx h.Dy cnd)
      | none => refuse "refuse-documented"
    pure true
  | "het_expected_cross" => do
    let h ← getHet (← reg)
    let ⟨R, p⟩ ← getPx (← reg) h.Dx
    setReg dst (.arr [R, h.Dy, h.Dx] (d3 (h.c.getExpectedCrossTerms be p)))
    pure true
  | "het_log_cond_y" => do
    let h ← getHet (← reg)
    let ⟨R, p⟩ ← getPx (← reg) h.Dx
    let ⟨B, p, y⟩ ← pairYP (Dy := h.Dy) h.ops R p (← reg)
    setReg dst (.arr [B] (d1 (h.c.integrateLogConditionalY h.ops be p y)))
    pure true
  | "het_lb_quadratic" => do
    let h ← getHet (← reg)
    let ⟨R, p⟩ ← getPx (← reg) h.Dx
    let ⟨B, p, y⟩ ← pairYP (Dy := h.Dy) h.ops R p (← reg)
    setReg dst (.arr [1, B] (d1 (h.c.getLbQuadraticTerm h.ops be p y)))
    pure true
  | "het_lb_log_det" => do
    let h ← getHet (← reg)
    let ⟨R, p⟩ ← getPx (← reg) h.Dx
    setReg dst (.arr [R] (d1 (h.ops.getLbLogDet be h.c p)))
    pure true
  | "het_omega_dagger" => do
    let h ← getHet (← reg)
    let ⟨R, p⟩ ← getPx (← reg) h.Dx
    let k ← unitIdx h.Dk
    setReg dst (.arr [R] (d1 (h.ops.getOmegaDagger be p (h.c.W k))))
    pure true
  | "het_k_func" => do
    let h ← getHet (← reg)
    let ⟨R, p⟩ ← getPx (← reg) h.Dx
    let k ← unitIdx h.Dk
    -- `pass`: returns `None` whatever the arguments are
    if isHeaviside h.ops then
      setReg dst (.arr [0] #[])
      return true
    let om ← getVec (← reg) R
    setReg dst (.arr [R] (d1 (h.ops.kFunc be p (h.c.W k) om)))
    pure true
  | "het_omega_star" => do
    let h ← getHet (← reg)
    let ⟨R, p⟩ ← getPx (← reg) h.Dx
    let y ← pairY (Dy := h.Dy) R (← reg)
    let k ← unitIdx h.Dk
    let a ← getVec (← reg) h.Dy
    -- the `while_loop` traces `_update_omega_star`, which unpacks the `None` of `_lower_bound_integrals`
    if isHeaviside h.ops then refuse "shape-error"
    setReg dst (.arr [R] (d1 (getOmegaStar h.ops be h.c p y (h.c.W k) a)))
    pure true
  | "het_update_omega" => do
    let h ← getHet (← reg)
    let ⟨R, p⟩ ← getPx (← reg) h.Dx
    let y ← pairY (Dy := h.Dy) R (← reg)
    let k ← unitIdx h.Dk
    let a ← getVec (← reg) h.Dy
    let om ← getVec (← reg) R
    if isHeaviside h.ops then refuse "shape-error"   -- unpacks `None`
    setReg dst (.arr [R] (d1 (h.ops.updateOmegaStar be h.c p y (h.c.W k) a om)))
    pure true
  | "het_lb_integrals" => do
    let h ← getHet (← reg)
    let ⟨R, p⟩ ← getPx (← reg) h.Dx
    if isHeaviside h.ops then
      -- `pass`: `None` whatever the arguments are; `None[which - 1]` is a `TypeError`
      let _ ← reg; let _ ← unitIdx h.Dk; let _ ← reg; let _ ← reg
      let which ← lp nat
      if which = 0 then
        setReg dst (.arr [0] #[])
        return true
      else refuse "shape-error"
    let y ← pairY (Dy := h.Dy) R (← reg)
    let k ← unitIdx h.Dk
    let a ← getVec (← reg) h.Dy
    let om ← getVec (← reg) R
    let which ← lp nat
    let (q2, q4) := h.ops.lowerBoundIntegrals be h.c p y (h.c.W k) a om (which != 0)
    match which, q4 with
    | 2, some q4 => setReg dst (.arr [1, R] (d1 q4))
    | 2, none => refuse "other"
    | _, _ => setReg dst (.arr [1, R] (d1 q2))
    pure true
  | "het_omega_loop" => do
    let h ← getHet (← reg)
    let ⟨R, p⟩ ← getPx (← reg) h.Dx
    let y ← pairY (Dy := h.Dy) R (← reg)
    let k ← unitIdx h.Dk
    let a ← getVec (← reg) h.Dy
    let start ← getVec (← reg) R
    let prev ← getVec (← reg) R
    if isHeaviside h.ops then refuse "shape-error"   -- the traced body unpacks `None`
    setReg dst (.arr [R] (d1 (omegaStarFrom h.ops be h.c p y (h.c.W k) a start prev)))
    pure true
  | _ => pure false

end GT.Driver
