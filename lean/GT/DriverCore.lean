import GT.Model.Conditional
import GT.Model.Integrals
import GT.Model.LogCond
import GT.Model.ApproxFeature   -- [approx-feature]
import GT.Model.Hetero  -- [hetero]
import GT.Model.Truncated  -- [trunc]
/-!
# Line-protocol driver: a register machine over the model at `Float`

One instruction per input line, `<dst> <op> <args…>`; floats cross the boundary as 16-digit
hex bit patterns.  After every instruction the destination register is dumped
(`<lineno> ok <dump>` or `<lineno> refuse <kind>`); the line `dumpall` dumps every register,
which is how operand immutability and cache filling are observed.  The Python harness runs the
same program on the real library and compares.  Imports nothing from Mathlib, so it is also
built as the native executable `gtdriver`.
-/
namespace GT.Driver
open GT

abbrev F := Float

inductive Val where
  | factor (R D : Nat) (f : Factor R D F)
  | meas (R D : Nat) (m : MeasureB R D F)
  | cond (R Dy Dx : Nat) (c : CondB R Dy Dx F)
  | condId (R D : Nat) (c : CondIdB R D F)
  | arr (shape : List Nat) (data : Array F)
  | feat (Dy Dx Dk : Nat) (c : FeatCondB Dy Dx Dk F)   -- [approx-feature] LRBF/LSEM conditional (R = 1)
  | trunc (R : Nat) (t : TruncB R F)  -- [trunc]
  | empty
  | hetero (Dy Dx Da Dk : Nat) (ops : HLinkOps F) (c : HeteroB Dy Dx Da Dk F)  -- [hetero]

/-! ## hex / token helpers -/

def hexDigit (c : Char) : Option Nat :=
  if '0' ≤ c ∧ c ≤ '9' then some (c.toNat - '0'.toNat)
  else if 'a' ≤ c ∧ c ≤ 'f' then some (c.toNat - 'a'.toNat + 10)
  else if 'A' ≤ c ∧ c ≤ 'F' then some (c.toNat - 'A'.toNat + 10)
  else none

def parseHex (s : String) : Option F :=
  let r := s.foldl (fun (acc : Option Nat) c => match acc, hexDigit c with
    | some a, some d => some (a * 16 + d)
    | _, _ => none) (some 0)
  r.map fun n => Float.ofBits (UInt64.ofNat n)

def toHex (x : F) : String :=
  let n := x.toBits.toNat
  let ds := Nat.toDigits 16 n
  String.ofList (List.replicate (16 - ds.length) '0' ++ ds)

abbrev P := StateT (List String) (Except String)

def tok : P String := do
  match (← get) with
  | [] => throw "eol"
  | t :: ts => set ts; pure t

def nat : P Nat := do
  let t ← tok
  match t.toNat? with
  | some n => pure n
  | none => throw s!"nat expected, got {t}"

def int : P Int := do
  let t ← tok
  match t.toInt? with
  | some n => pure n
  | none => throw s!"int expected, got {t}"

def bool : P Bool := do pure ((← nat) != 0)

/-- `n h₁ … hₙ`, or `-1` for an omitted (None) array -/
def optFloats : P (Option (Array F)) := do
  let n ← int
  if n < 0 then return none
  let mut a : Array F := Array.mkEmpty n.toNat
  for _ in [0:n.toNat] do
    let t ← tok
    match parseHex t with
    | some x => a := a.push x
    | none => throw s!"hex expected, got {t}"
  return some a

def floats (expected : Nat) : P (Array F) := do
  match (← optFloats) with
  | some a => if a.size = expected then pure a else throw s!"size {a.size} ≠ {expected}"
  | none => throw "array required"

def optFloatsN (expected : Nat) : P (Option (Array F)) := do
  match (← optFloats) with
  | some a => if a.size = expected then pure (some a) else throw s!"size {a.size} ≠ {expected}"
  | none => pure none

def ints : P (Array Int) := do
  let n ← nat
  let mut a : Array Int := Array.mkEmpty n
  for _ in [0:n] do a := a.push (← int)
  return a

/-! ## arrays ↔ functions -/

def v1 {n : Nat} (a : Array F) : Arr n F := tab fun i => a.getD i.1 0
def v2 {m n : Nat} (a : Array F) : Arr m (Arr n F) := tab2 fun i j => a.getD (i.1 * n + j.1) 0
def v3 {r m n : Nat} (a : Array F) : Arr r (Arr m (Arr n F)) :=
  tab3 fun k i j => a.getD ((k.1 * m + i.1) * n + j.1) 0

def d1 {n : Nat} (f : Arr n F) : Array F := f.data
def d2 {m n : Nat} (f : Arr m (Arr n F)) : Array F :=
  f.data.foldl (fun acc row => acc ++ row.data) (Array.mkEmpty (m * n))
def d3 {r m n : Nat} (f : Arr r (Arr m (Arr n F))) : Array F :=
  f.data.foldl (fun acc x => acc ++ d2 x) (Array.mkEmpty (r * m * n))

def fld (name : String) (a : Array F) : String :=
  a.foldl (fun s x => s ++ " " ++ toHex x) s!"{name} {a.size}"

def dumpVal : Val → String
  | .factor R D f =>
    let b := f.toB
    let kind := match f with
      | .general _ => "general" | .oneRank .. => "onerank" | .linear .. => "linear" | .constant .. => "constant"
    let extra := match f with
      | .oneRank v g _ _ => " " ++ fld "v" (d2 v) ++ " " ++ fld "g" (d1 g)
      | _ => ""
    s!"factor {kind} {R} {D} " ++ fld "Lambda" (d3 b.Lambda) ++ " " ++ fld "nu" (d2 b.nu) ++ " " ++
      fld "ln_beta" (d1 b.lnBeta) ++ extra
  | .meas R D m =>
    let cls := match m.cls with
      | .measure => "measure" | .diagMeasure => "diagmeasure" | .pdf => "pdf" | .diagPdf => "diagpdf"
    let s := s!"meas {cls} {R} {D} " ++ fld "Lambda" (d3 m.Lambda) ++ " " ++ fld "nu" (d2 m.nu) ++ " " ++
      fld "ln_beta" (d1 m.lnBeta)
    let s := match m.cov with
      | some c => s ++ " " ++ fld "Sigma" (d3 c.Sigma) ++ " " ++ fld "ln_det_Sigma" (d1 c.lnDetSigma)
      | none => s
    let s := match m.lnDetLambda with
      | some l => s ++ " " ++ fld "ln_det_Lambda" (d1 l)
      | none => s
    let s := match m.mu with
      | some mu => s ++ " " ++ fld "mu" (d2 mu)
      | none => s
    match m.lnZ with
      | some z => s ++ " " ++ fld "lnZ" (d1 z)
      | none => s
  | .cond R Dy Dx c =>
    s!"cond {if c.diag then 1 else 0} {R} {Dy} {Dx} " ++ fld "M" (d3 c.M) ++ " " ++ fld "b" (d2 c.b) ++ " " ++
      fld "Sigma" (d3 c.Sigma) ++ " " ++ fld "Lambda" (d3 c.Lambda) ++ " " ++ fld "ln_det_Sigma" (d1 c.lnDetSigma)
  | .condId R D c =>
    s!"condid {if c.diag then 1 else 0} {R} {D} " ++ fld "Sigma" (d3 c.Sigma) ++ " " ++
      fld "Lambda" (d3 c.Lambda) ++ " " ++ fld "ln_det_Sigma" (d1 c.lnDetSigma)
  | .arr shape data =>
    "arr " ++ toString shape.length ++ (shape.foldl (fun s n => s ++ " " ++ toString n) "") ++ " " ++ fld "data" data
  | .feat Dy Dx Dk c =>   -- [approx-feature]
    let kb := c.kFunc.toB
    let (kind, extra) := match c.kernel with
      | .rbf mu ls => ("rbf", fld "mu" (d2 mu) ++ " " ++ fld "length_scale" (d2 ls))
      | .lsem W w0 => ("lsem", fld "W" (d2 W) ++ " " ++ fld "w0" (d1 w0))
    let kextra := match c.kFunc with
      | .oneRank v g _ _ => " " ++ fld "k_v" (d2 v) ++ " " ++ fld "k_g" (d1 g)
      | _ => ""
    s!"feat {kind} 1 {Dy} {Dx} {Dk} " ++ fld "M" (d3 c.M) ++ " " ++ fld "b" (d2 c.b) ++ " " ++
      fld "Sigma" (d3 c.Sigma) ++ " " ++ fld "Lambda" (d3 c.Lambda) ++ " " ++ fld "ln_det_Sigma" (d1 c.lnDetSigma) ++ " " ++
      extra ++ " " ++ fld "k_Lambda" (d3 kb.Lambda) ++ " " ++ fld "k_nu" (d2 kb.nu) ++ " " ++
      fld "k_ln_beta" (d1 kb.lnBeta) ++ kextra
  | .trunc R t =>  -- [trunc] limits as floats (`±inf` for the infinite constructors)
    let lf : Lim F → F := fun l => match l with
      | .negInf => -(1.0 / 0.0) | .fin x => x | .posInf => 1.0 / 0.0
    let lims (a : Arr R (Lim F)) : Array F := a.data.map lf
    s!"trunc {if t.isPdf then "pdf" else "measure"} {R} " ++ fld "lower_limit" (lims t.lower) ++ " " ++
      fld "upper_limit" (lims t.upper) ++ " " ++ fld "alpha" (lims t.alpha) ++ " " ++ fld "beta" (lims t.beta) ++ " " ++
      fld "constant" (d1 t.constant) ++ " " ++ fld "m_Lambda" (d3 t.measure.Lambda) ++ " " ++
      fld "m_nu" (d2 t.measure.nu) ++ " " ++ fld "m_ln_beta" (d1 t.measure.lnBeta) ++ " " ++
      fld "d_Sigma" (d3 t.density.Sigma) ++ " " ++ fld "d_mu" (d2 t.density.mu) ++ " " ++
      fld "d_Lambda" (d3 t.density.Lambda) ++ " " ++ fld "d_nu" (d2 t.density.nu) ++ " " ++
      fld "d_ln_beta" (d1 t.density.lnBeta) ++ " " ++ fld "d_lnZ" (d1 t.density.lnZ) ++ " " ++
      fld "d_ln_det_Sigma" (d1 t.density.lnDetSigma)
  | .empty => "empty"
  | .hetero Dy Dx Da Dk ops c =>  -- [hetero]
    s!"hetero {ops.name} {Dy} {Dx} {Da} {Dk} " ++ fld "M" (d3 c.M) ++ " " ++ fld "b" (d2 c.b) ++ " " ++
      fld "A" (d3 c.A) ++ " " ++ fld "W" (d2 c.W) ++ " " ++ fld "Sigma" (d3 c.Sigma) ++ " " ++
      fld "Lambda" (d3 c.Lambda) ++ " " ++ fld "ln_det_Sigma" (d1 c.lnDetSigma)

/-! ## the machine -/

structure St where
  regs : Array Val := #[]

def St.get (s : St) (i : Nat) : Val := s.regs.getD i .empty
def St.set (s : St) (i : Nat) (v : Val) : St :=
  let regs := if i < s.regs.size then s.regs else s.regs ++ Array.replicate (i + 1 - s.regs.size) Val.empty
  { regs := regs.set! i v }

def be : Backend F := Backend.std

inductive Res where
  | ok (s : St) (dst : Nat)
  | refuse (kind : String)

abbrev M := ExceptT String (StateT St P)

def reg : M Nat := liftM (m := P) nat
def getReg (i : Nat) : M Val := do return (← getThe St).get i
def setReg (i : Nat) (v : Val) : M Unit := modifyThe St (·.set i v)
def refuse {β : Type} (k : String) : M β := throw k
def lp {β : Type} (p : P β) : M β := liftM p

def getMeas (i : Nat) : M (Σ R D, MeasureB R D F) := do
  match (← getReg i) with
  | .meas R D m => pure ⟨R, D, m⟩
  | _ => refuse "type-error:meas"

def getPdf (i : Nat) : M (Σ R D, PdfV R D F) := do
  let ⟨R, D, m⟩ ← getMeas i
  if !m.cls.isPdf then refuse "type-error:pdf"
  match m.asPdf with
  | some p => pure ⟨R, D, p⟩
  | none => refuse "type-error:pdf"

def getArr (i : Nat) : M (List Nat × Array F) := do
  match (← getReg i) with
  | .arr s d => pure (s, d)
  | _ => refuse "type-error:arr"

/-- anything usable as a conjugate factor -/
def getFactor (i : Nat) : M (Σ R D, Factor R D F) := do
  match (← getReg i) with
  | .factor R D f => pure ⟨R, D, f⟩
  | .meas R D m => pure ⟨R, D, m.toFactor⟩
  | _ => refuse "type-error:factor"

def castMeas {R D R' D' : Nat} (m : MeasureB R D F) (hR : R = R') (hD : D = D') : MeasureB R' D' F :=
  hR ▸ hD ▸ m

def matArg {R : Nat} (K D : Nat) : M (Option (MatArg R K D F)) := do
  let mode ← lp nat   -- 0 none, 1 shared, 2 per component
  match mode with
  | 0 => pure none
  | 1 => do let a ← lp (floats (K * D)); pure (some (.shared (v2 a)))
  | _ => do let a ← lp (floats (R * K * D)); pure (some (.perComp (v3 a)))

def vecArg {R : Nat} (K : Nat) : M (Option (VecArg R K F)) := do
  let mode ← lp nat
  match mode with
  | 0 => pure none
  | 1 => do let a ← lp (floats K); pure (some (.shared (v1 a)))
  | _ => do let a ← lp (floats (R * K)); pure (some (.perComp (v2 a)))

def form {R : Nat} (K D : Nat) : M (AffForm R K D F) := do
  let m ← matArg (R := R) K D
  let v ← vecArg (R := R) K
  if m.isNone ∧ K ≠ D then refuse "shape-error"
  pure (getDefault m v)

def idxToFin {N : Nat} (R : Nat) (a : Array Int) : M (Fin N → Fin R) := do
  if a.size ≠ N then refuse "shape-error"
  let mut ok := true
  for x in a do
    if x < 0 ∨ x ≥ R then ok := false
  if !ok then refuse "index-error"
  if h : 0 < R then
    pure fun n => ⟨(a.getD n.1 0).toNat % R, Nat.mod_lt _ h⟩
  else refuse "index-error"


end GT.Driver
