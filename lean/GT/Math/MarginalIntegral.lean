import GT.Math.GaussianIntegral
import GT.Math.Block
import Mathlib.MeasureTheory.Group.Integral
/-!
# Integrating out a block of coordinates of a multivariate normal density
(independent of the library)

`gaussian_marginal_integral`: for a positive definite `S` on `a ⊕ b`,
`∫ z, N((y,z); μ, S) dz = N(y; μ_a, S_aa)`.
Proof: expand the quadratic form in blocks of `Λ = S⁻¹`, integrate the `b`-block with
`gaussian_integral_posDef`, and use `S_aa⁻¹ = Λ_aa − Λ_ab Λ_bb⁻¹ Λ_ba`,
`det S_aa = det S · det Λ_bb`.
-/
namespace GT.Math

open Matrix MeasureTheory Real

/-- the normal log-density over an arbitrary finite index type -/
noncomputable def nLn {n : Type*} [Fintype n] (μ : n → ℝ) (Λ : Matrix n n ℝ) (ℓ : ℝ) (x : n → ℝ) : ℝ :=
  -(1 / 2) * ((x - μ) ⬝ᵥ Λ *ᵥ (x - μ)) - 1 / 2 * ((Fintype.card n : ℝ) * Real.log (2 * π) + ℓ)

/-- relabelling the coordinates does not change the normal log-density -/
theorem nLn_equiv {n m : Type*} [Fintype n] [Fintype m] [DecidableEq n] [DecidableEq m] (e : m ≃ n)
    (μ : n → ℝ) (S : Matrix n n ℝ) (x : n → ℝ) :
    nLn μ S⁻¹ (Real.log S.det) x =
      nLn (μ ∘ e) (S.submatrix e e)⁻¹ (Real.log (S.submatrix e e).det) (x ∘ e) := by
  simp only [nLn, Matrix.inv_submatrix_equiv, Matrix.det_submatrix_equiv_self, Fintype.card_congr e]
  have h1 : (x ∘ e - μ ∘ e) = (x - μ) ∘ e := rfl
  rw [h1, Matrix.submatrix_mulVec_equiv]
  have h2 : ((x - μ) ∘ ⇑e) ∘ ⇑e.symm = x - μ := by
    ext i; simp
  rw [h2]
  have h3 : (x - μ) ∘ ⇑e ⬝ᵥ (S⁻¹ *ᵥ (x - μ)) ∘ ⇑e = (x - μ) ⬝ᵥ S⁻¹ *ᵥ (x - μ) := by
    simp only [dotProduct, Function.comp_apply]
    exact Equiv.sum_comp e fun i => (x - μ) i * (S⁻¹ *ᵥ (x - μ)) i
  rw [h3]

variable {a b : Type*} [Fintype a] [Fintype b] [DecidableEq a] [DecidableEq b]

omit [DecidableEq a] [DecidableEq b] in
theorem quad_fromBlocks (Laa : Matrix a a ℝ) (Lab : Matrix a b ℝ) (Lba : Matrix b a ℝ) (Lbb : Matrix b b ℝ)
    (u : a → ℝ) (w : b → ℝ) :
    Sum.elim u w ⬝ᵥ fromBlocks Laa Lab Lba Lbb *ᵥ Sum.elim u w =
      u ⬝ᵥ Laa *ᵥ u + u ⬝ᵥ Lab *ᵥ w + w ⬝ᵥ Lba *ᵥ u + w ⬝ᵥ Lbb *ᵥ w := by
  rw [fromBlocks_mulVec, sumElim_dotProduct_sumElim]
  simp only [Sum.elim_comp_inl, Sum.elim_comp_inr, dotProduct_add]
  ring

/-- mirror image of `schur_mul_marginal_cov`: the Schur complement of `Λbb` is a left inverse of
`Σaa`. -/
theorem schur_mul_marginal_cov₁
    {Laa : Matrix a a ℝ} {Lab : Matrix a b ℝ} {Lba : Matrix b a ℝ} {Lbb : Matrix b b ℝ}
    {Saa : Matrix a a ℝ} {Sab : Matrix a b ℝ} {Sba : Matrix b a ℝ} {Sbb : Matrix b b ℝ}
    (h : fromBlocks Laa Lab Lba Lbb * fromBlocks Saa Sab Sba Sbb = 1) (hLbb : Lbb.det ≠ 0) :
    (Laa - Lab * Lbb⁻¹ * Lba) * Saa = 1 := by
  obtain ⟨h1, -, h3, -⟩ := block_eqs_of_mul_eq_one h
  have hu : IsUnit Lbb.det := isUnit_iff_ne_zero.mpr hLbb
  have h3' : Lba * Saa = -(Lbb * Sba) := by
    rw [eq_neg_iff_add_eq_zero]; exact h3
  rw [Matrix.sub_mul, Matrix.mul_assoc, h3', Matrix.mul_neg, Matrix.mul_assoc,
    ← Matrix.mul_assoc Lbb⁻¹, nonsing_inv_mul _ hu, Matrix.one_mul, sub_neg_eq_add]
  exact h1

theorem marginal_prec_eq_schur₁
    {Laa : Matrix a a ℝ} {Lab : Matrix a b ℝ} {Lba : Matrix b a ℝ} {Lbb : Matrix b b ℝ}
    {Saa : Matrix a a ℝ} {Sab : Matrix a b ℝ} {Sba : Matrix b a ℝ} {Sbb : Matrix b b ℝ}
    (h : fromBlocks Laa Lab Lba Lbb * fromBlocks Saa Sab Sba Sbb = 1) (hLbb : Lbb.det ≠ 0) :
    Saa⁻¹ = Laa - Lab * Lbb⁻¹ * Lba :=
  inv_eq_left_inv (schur_mul_marginal_cov₁ h hLbb)

/-- `det Σaa = det Σ · det Λbb` -/
theorem det_marginal_cov₁
    {Laa : Matrix a a ℝ} {Lab : Matrix a b ℝ} {Lba : Matrix b a ℝ} {Lbb : Matrix b b ℝ}
    {Saa : Matrix a a ℝ} {Sab : Matrix a b ℝ} {Sba : Matrix b a ℝ} {Sbb : Matrix b b ℝ}
    (h : fromBlocks Laa Lab Lba Lbb * fromBlocks Saa Sab Sba Sbb = 1) (hLbb : Lbb.det ≠ 0) :
    Saa.det = (fromBlocks Saa Sab Sba Sbb).det * Lbb.det := by
  have hinv : Invertible Lbb := Matrix.invertibleOfIsUnitDet Lbb (isUnit_iff_ne_zero.mpr hLbb)
  have hdΛ : (fromBlocks Laa Lab Lba Lbb).det = Lbb.det * (Laa - Lab * Lbb⁻¹ * Lba).det := by
    rw [det_fromBlocks₂₂, Matrix.invOf_eq_nonsing_inv]
  have hprod := congrArg Matrix.det h
  rw [det_mul, det_one, hdΛ] at hprod
  have hs := congrArg Matrix.det (schur_mul_marginal_cov₁ h hLbb)
  rw [det_mul, det_one] at hs
  -- `x * Saa.det = 1`, `Lbb.det * x * det Σ = 1`
  have hx : (Laa - Lab * Lbb⁻¹ * Lba).det ≠ 0 := left_ne_zero_of_mul_eq_one hs
  have : Saa.det = Saa.det * (Lbb.det * (Laa - Lab * Lbb⁻¹ * Lba).det * (fromBlocks Saa Sab Sba Sbb).det) := by
    rw [hprod, mul_one]
  calc Saa.det = Saa.det * (Lbb.det * (Laa - Lab * Lbb⁻¹ * Lba).det * (fromBlocks Saa Sab Sba Sbb).det) := this
    _ = ((Laa - Lab * Lbb⁻¹ * Lba).det * Saa.det) * ((fromBlocks Saa Sab Sba Sbb).det * Lbb.det) := by ring
    _ = (fromBlocks Saa Sab Sba Sbb).det * Lbb.det := by rw [hs, one_mul]

/-- integrating the `b` block of a centred Gaussian exponent -/
theorem marginal_integral_blocks
    {Laa : Matrix a a ℝ} {Lab : Matrix a b ℝ} {Lba : Matrix b a ℝ} {Lbb : Matrix b b ℝ}
    {Saa : Matrix a a ℝ} {Sab : Matrix a b ℝ} {Sba : Matrix b a ℝ} {Sbb : Matrix b b ℝ}
    (hΛ : (fromBlocks Laa Lab Lba Lbb).PosDef)
    (h : fromBlocks Laa Lab Lba Lbb * fromBlocks Saa Sab Sba Sbb = 1) (u : a → ℝ) :
    ∫ w : b → ℝ, rexp (-(1 / 2) * (Sum.elim u w ⬝ᵥ fromBlocks Laa Lab Lba Lbb *ᵥ Sum.elim u w)) =
      rexp (-(1 / 2) * (u ⬝ᵥ Saa⁻¹ *ᵥ u)
        + 1 / 2 * ((Fintype.card b : ℝ) * Real.log (2 * π) - Real.log Lbb.det)) := by
  have hLbb : Lbb.PosDef := by
    have := hΛ.submatrix (e := (Sum.inr : b → a ⊕ b)) Sum.inr_injective
    have he : (fromBlocks Laa Lab Lba Lbb).submatrix Sum.inr Sum.inr = Lbb := by
      ext i j; simp
    rwa [he] at this
  have hd : Lbb.det ≠ 0 := hLbb.det_pos.ne'
  have hsym : Labᵀ = Lba := by
    have h1 : (fromBlocks Laa Lab Lba Lbb)ᵀ = fromBlocks Laa Lab Lba Lbb := by
      rw [← Matrix.conjTranspose_eq_transpose_of_trivial]; exact hΛ.isHermitian
    rw [fromBlocks_transpose, fromBlocks_inj] at h1
    exact h1.2.2.1
  have hcross : ∀ t : b → ℝ, u ⬝ᵥ Lab *ᵥ t = (Lba *ᵥ u) ⬝ᵥ t := by
    intro t
    rw [Matrix.dotProduct_mulVec, ← Matrix.mulVec_transpose, hsym]
  have hint : ∀ w : b → ℝ,
      rexp (-(1 / 2) * (Sum.elim u w ⬝ᵥ fromBlocks Laa Lab Lba Lbb *ᵥ Sum.elim u w)) =
        rexp (-(1 / 2) * (w ⬝ᵥ Lbb *ᵥ w) + (-(Lba *ᵥ u)) ⬝ᵥ w) * rexp (-(1 / 2) * (u ⬝ᵥ Laa *ᵥ u)) := by
    intro w
    rw [← Real.exp_add, quad_fromBlocks, hcross w, dotProduct_comm w (Lba *ᵥ u), neg_dotProduct]
    congr 1
    ring
  simp_rw [hint]
  rw [integral_mul_const, gaussian_integral_posDef Lbb hLbb, ← Real.exp_add]
  congr 1
  rw [marginal_prec_eq_schur₁ h hd, Matrix.sub_mulVec, dotProduct_sub]
  have hq : (-(Lba *ᵥ u)) ⬝ᵥ Lbb⁻¹ *ᵥ (-(Lba *ᵥ u)) = u ⬝ᵥ (Lab * Lbb⁻¹ * Lba) *ᵥ u := by
    rw [Matrix.mul_assoc, ← Matrix.mulVec_mulVec, ← Matrix.mulVec_mulVec, hcross, Matrix.mulVec_neg,
      neg_dotProduct, dotProduct_neg, neg_neg]
  rw [hq]
  ring

/-- **marginalisation of a multivariate normal density**: integrating `N((y, z); μ, S)` over the
block `z` gives `N(y; μ_a, S_aa)`. -/
theorem gaussian_marginal_integral (S : Matrix (a ⊕ b) (a ⊕ b) ℝ) (hS : S.PosDef) (μ : a ⊕ b → ℝ)
    (y : a → ℝ) :
    ∫ z : b → ℝ, rexp (nLn μ S⁻¹ (Real.log S.det) (Sum.elim y z)) =
      rexp (nLn (μ ∘ Sum.inl) (S.toBlocks₁₁)⁻¹ (Real.log S.toBlocks₁₁.det) y) := by
  have hSu : IsUnit S.det := hS.det_pos.ne'.isUnit
  have hΛ : (S⁻¹).PosDef := hS.inv
  have hprod : S⁻¹ * S = 1 := nonsing_inv_mul _ hSu
  rw [← fromBlocks_toBlocks S⁻¹] at hΛ
  have hprod' : fromBlocks (S⁻¹).toBlocks₁₁ (S⁻¹).toBlocks₁₂ (S⁻¹).toBlocks₂₁ (S⁻¹).toBlocks₂₂ *
      fromBlocks S.toBlocks₁₁ S.toBlocks₁₂ S.toBlocks₂₁ S.toBlocks₂₂ = 1 := by
    rw [fromBlocks_toBlocks, fromBlocks_toBlocks]; exact hprod
  have hLbb : ((S⁻¹).toBlocks₂₂).PosDef := by
    have := hS.inv.submatrix (e := (Sum.inr : b → a ⊕ b)) Sum.inr_injective
    exact this
  have hsplit : ∀ z : b → ℝ, Sum.elim y z - μ = Sum.elim (y - μ ∘ Sum.inl) (z - μ ∘ Sum.inr) := by
    intro z; ext (i | j) <;> simp
  have hint : ∀ z : b → ℝ, rexp (nLn μ S⁻¹ (Real.log S.det) (Sum.elim y z)) =
      (fun w : b → ℝ => rexp (-(1 / 2) * (Sum.elim (y - μ ∘ Sum.inl) w ⬝ᵥ
        fromBlocks (S⁻¹).toBlocks₁₁ (S⁻¹).toBlocks₁₂ (S⁻¹).toBlocks₂₁ (S⁻¹).toBlocks₂₂ *ᵥ
          Sum.elim (y - μ ∘ Sum.inl) w))) (z - μ ∘ Sum.inr) *
        rexp (-(1 / 2 * ((Fintype.card (a ⊕ b) : ℝ) * Real.log (2 * π) + Real.log S.det))) := by
    intro z
    simp only [nLn]
    rw [← Real.exp_add, hsplit, fromBlocks_toBlocks]
    congr 1
  simp_rw [hint]
  rw [integral_mul_const, integral_sub_right_eq_self
    (fun w : b → ℝ => rexp (-(1 / 2) * (Sum.elim (y - μ ∘ Sum.inl) w ⬝ᵥ
        fromBlocks (S⁻¹).toBlocks₁₁ (S⁻¹).toBlocks₁₂ (S⁻¹).toBlocks₂₁ (S⁻¹).toBlocks₂₂ *ᵥ
          Sum.elim (y - μ ∘ Sum.inl) w))) (μ ∘ Sum.inr),
    marginal_integral_blocks hΛ hprod', ← Real.exp_add]
  congr 1
  have hdet := det_marginal_cov₁ hprod' hLbb.det_pos.ne'
  rw [fromBlocks_toBlocks] at hdet
  simp only [nLn]
  rw [hdet, Real.log_mul hS.det_pos.ne' hLbb.det_pos.ne', Fintype.card_sum]
  push_cast
  ring

end GT.Math

#print axioms GT.Math.gaussian_marginal_integral
