import Mathlib.Probability.Moments.MGFAnalytic
import GT.Math.GaussianIntegral
/-!
# M4 — moments of the multivariate Gaussian weight in natural parameters

`gaussW Λ ν x = exp (-(1/2) xᵀΛx + νᵀx)` is the unnormalised Gaussian weight with precision `Λ` (positive
definite) and natural location `ν`; its mass is `∫ gaussW Λ ν` (value given by `gaussian_integral_posDef`),
the mean is `Λ⁻¹ ν` and the covariance `Λ⁻¹`.

Main results (all for `Λ.PosDef`):
* `integrable_gaussW`, `integrable_linear_pow_mul_gaussW` (all powers `k`), `integrable_two_linear_mul_gaussW`,
  `integrable_three_linear_mul_gaussW`, `integrable_four_linear_mul_gaussW` (G0)
* `moments_of_mgf_quad`: abstract 1-D lemma, moments 1–4 of any `X` under any measure whose mgf is
  `C * exp (m s + v s² / 2)` for all `s`
* `gaussian_mgf_linear` (G1)
* `gaussian_first_moment`, `gaussian_second_moment`, `gaussian_third_moment`, `gaussian_fourth_moment` (G2, G4)
* `gaussian_mixed_second_moment`, `gaussian_coord_moments` (G3)
* `isserlis_three`, `isserlis_four` (G4, polarised)
-/
namespace GT.Math

open MeasureTheory ProbabilityTheory Matrix Real

/-! ## One-dimensional part: moments from an mgf of the form `C * exp (m s + v s² / 2)` -/

/-- derivative of `P(t) * exp(m t + v t²/2)` -/
lemma hasDerivAt_mul_exp_quad (m v : ℝ) (P P' : ℝ → ℝ) (t : ℝ) (hP : HasDerivAt P (P' t) t) :
    HasDerivAt (fun s => P s * rexp (m * s + v * s ^ 2 / 2))
      ((P' t + P t * (m + v * t)) * rexp (m * t + v * t ^ 2 / 2)) t := by
  have h1 : HasDerivAt (fun s : ℝ => m * s) m t := by
    simpa using (hasDerivAt_id t).const_mul m
  have h2 : HasDerivAt (fun s : ℝ => v * s ^ 2 / 2) (v * t) t :=
    (((hasDerivAt_pow 2 t).const_mul v).div_const 2).congr_deriv (by push_cast; ring)
  have hg : HasDerivAt (fun s => m * s + v * s ^ 2 / 2) (m + v * t) t := h1.add h2
  exact (hP.mul hg.exp).congr_deriv (by ring)

/-- If the moment generating function of `X` under a (not necessarily finite) measure `P` is
`C * exp (m s + v s² / 2)` for all `s`, the first four moments of `X` are those of `C • 𝓝(m, v)`. -/
theorem moments_of_mgf_quad {Ω : Type*} {mΩ : MeasurableSpace Ω} (P : Measure Ω) (X : Ω → ℝ) (C m v : ℝ)
    (hint : ∀ s, Integrable (fun ω => rexp (s * X ω)) P)
    (hmgf : ∀ s, mgf X P s = C * rexp (m * s + v * s ^ 2 / 2)) :
    (∫ ω, X ω ∂P = C * m) ∧
    (∫ ω, X ω ^ 2 ∂P = C * (m ^ 2 + v)) ∧
    (∫ ω, X ω ^ 3 ∂P = C * (m ^ 3 + 3 * m * v)) ∧
    (∫ ω, X ω ^ 4 ∂P = C * (m ^ 4 + 6 * m ^ 2 * v + 3 * v ^ 2)) := by
  have hset : integrableExpSet X P = Set.univ := Set.eq_univ_of_forall hint
  have h0 : (0:ℝ) ∈ interior (integrableExpSet X P) := by simp [hset]
  have hm : ∀ k, iteratedDeriv k (mgf X P) 0 = ∫ ω, X ω ^ k ∂P := by
    intro k; rw [iteratedDeriv_mgf_zero h0 k]; simp
  set g : ℝ → ℝ := fun s => rexp (m * s + v * s ^ 2 / 2) with hg
  have hmgf' : mgf X P = fun s => C * g s := funext hmgf
  let L : ℝ → ℝ := fun t => m + v * t
  have hL : ∀ t, HasDerivAt L v t := by
    intro t; simpa [L] using ((hasDerivAt_id t).const_mul v).const_add m
  have d1 : deriv (fun t => C * g t) = fun t => (C * L t) * g t := by
    funext t
    have := hasDerivAt_mul_exp_quad m v (fun _ => C) (fun _ => 0) t (hasDerivAt_const t C)
    rw [this.deriv]; simp only [g, L]; ring
  have d2 : deriv (fun t => (C * L t) * g t) = fun t => (C * (L t ^ 2 + v)) * g t := by
    funext t
    have := hasDerivAt_mul_exp_quad m v (fun t => C * L t) (fun _ => C * v) t ((hL t).const_mul C)
    rw [this.deriv]; simp only [g, L]; ring
  have d3 : deriv (fun t => (C * (L t ^ 2 + v)) * g t)
      = fun t => (C * (L t ^ 3 + 3 * v * L t)) * g t := by
    funext t
    have hP : HasDerivAt (fun t => C * (L t ^ 2 + v)) (C * (2 * L t * v)) t :=
      ((((hL t).pow 2).add_const v).const_mul C).congr_deriv (by push_cast; ring)
    have := hasDerivAt_mul_exp_quad m v (fun t => C * (L t ^ 2 + v)) (fun t => C * (2 * L t * v)) t hP
    rw [this.deriv]; simp only [g, L]; ring
  have d4 : deriv (fun t => (C * (L t ^ 3 + 3 * v * L t)) * g t)
      = fun t => (C * (L t ^ 4 + 6 * v * L t ^ 2 + 3 * v ^ 2)) * g t := by
    funext t
    have hP : HasDerivAt (fun t => C * (L t ^ 3 + 3 * v * L t)) (C * (3 * L t ^ 2 * v + 3 * v * v)) t :=
      ((((hL t).pow 3).add ((hL t).const_mul (3 * v))).const_mul C).congr_deriv (by push_cast; ring)
    have := hasDerivAt_mul_exp_quad m v (fun t => C * (L t ^ 3 + 3 * v * L t))
      (fun t => C * (3 * L t ^ 2 * v + 3 * v * v)) t hP
    rw [this.deriv]; simp only [g, L]; ring
  have g0 : g 0 = 1 := by simp [g]
  have L0 : L 0 = m := by simp [L]
  refine ⟨?_, ?_, ?_, ?_⟩
  · have := hm 1
    rw [hmgf', iteratedDeriv_one, d1] at this
    simp only [pow_one] at this
    rw [← this]; simp [g0, L0]
  · have := hm 2
    rw [hmgf', iteratedDeriv_succ, iteratedDeriv_one, d1, d2] at this
    rw [← this]; simp [g0, L0]
  · have := hm 3
    rw [hmgf', iteratedDeriv_succ, iteratedDeriv_succ, iteratedDeriv_one, d1, d2, d3] at this
    rw [← this]; simp only [g0, L0]; ring
  · have := hm 4
    rw [hmgf', iteratedDeriv_succ, iteratedDeriv_succ, iteratedDeriv_succ, iteratedDeriv_one,
      d1, d2, d3, d4] at this
    rw [← this]; simp only [g0, L0]; ring

/-! ## The Gaussian weight -/

variable {n : Type*} [Fintype n] [DecidableEq n]

/-- The unnormalised Gaussian weight `exp (-(1/2) xᵀΛx + νᵀx)` in natural parameters. -/
noncomputable def gaussW (Λ : Matrix n n ℝ) (ν : n → ℝ) (x : n → ℝ) : ℝ :=
  rexp (-(1/2) * (x ⬝ᵥ Λ *ᵥ x) + ν ⬝ᵥ x)

omit [DecidableEq n] in
theorem gaussW_apply (Λ : Matrix n n ℝ) (ν x : n → ℝ) :
    gaussW Λ ν x = rexp (-(1/2) * (x ⬝ᵥ Λ *ᵥ x) + ν ⬝ᵥ x) := rfl

omit [DecidableEq n] in
theorem gaussW_pos (Λ : Matrix n n ℝ) (ν x : n → ℝ) : 0 < gaussW Λ ν x := exp_pos _

omit [DecidableEq n] in
theorem continuous_gaussW (Λ : Matrix n n ℝ) (ν : n → ℝ) : Continuous (gaussW Λ ν) := by
  unfold gaussW
  have h1 : Continuous fun x : n → ℝ => x ⬝ᵥ Λ *ᵥ x :=
    continuous_id.dotProduct (continuous_const.matrix_mulVec continuous_id)
  have h2 : Continuous fun x : n → ℝ => ν ⬝ᵥ x := continuous_const.dotProduct continuous_id
  fun_prop

omit [DecidableEq n] in
/-- tilting the weight by `exp (s tᵀx)` shifts the natural location -/
theorem exp_mul_gaussW (Λ : Matrix n n ℝ) (ν t : n → ℝ) (s : ℝ) (x : n → ℝ) :
    rexp (s * (t ⬝ᵥ x)) * gaussW Λ ν x = gaussW Λ (ν + s • t) x := by
  simp only [gaussW, ← Real.exp_add, add_dotProduct, smul_dotProduct, smul_eq_mul]
  congr 1; ring

omit [Fintype n] [DecidableEq n] in
theorem dotProduct_mulVec_symm [Fintype n] {A : Matrix n n ℝ} (hA : Aᵀ = A) (a b : n → ℝ) :
    a ⬝ᵥ A *ᵥ b = b ⬝ᵥ A *ᵥ a := by
  rw [dotProduct_mulVec, ← mulVec_transpose, hA, dotProduct_comm]

theorem PosDef_inv_transpose {Λ : Matrix n n ℝ} (hΛ : Λ.PosDef) : (Λ⁻¹)ᵀ = Λ⁻¹ := by
  rw [← Matrix.conjTranspose_eq_transpose_of_trivial]; exact hΛ.inv.isHermitian

/-- the mass of the weight (M1) -/
theorem integral_gaussW {Λ : Matrix n n ℝ} (hΛ : Λ.PosDef) (ν : n → ℝ) :
    ∫ x, gaussW Λ ν x
      = rexp ((1/2) * (ν ⬝ᵥ Λ⁻¹ *ᵥ ν + (Fintype.card n : ℝ) * Real.log (2 * π) - Real.log Λ.det)) :=
  gaussian_integral_posDef Λ hΛ ν

theorem integral_gaussW_pos {Λ : Matrix n n ℝ} (hΛ : Λ.PosDef) (ν : n → ℝ) :
    0 < ∫ x, gaussW Λ ν x := by
  rw [integral_gaussW hΛ]; exact exp_pos _

/-- **G0** the weight is integrable -/
theorem integrable_gaussW {Λ : Matrix n n ℝ} (hΛ : Λ.PosDef) (ν : n → ℝ) :
    Integrable (gaussW Λ ν) := by
  by_contra h
  have h1 := integral_gaussW_pos hΛ ν
  rw [integral_undef h] at h1
  exact lt_irrefl _ h1

theorem integrable_exp_mul_gaussW {Λ : Matrix n n ℝ} (hΛ : Λ.PosDef) (ν t : n → ℝ) (s : ℝ) :
    Integrable (fun x => rexp (s * (t ⬝ᵥ x)) * gaussW Λ ν x) := by
  simp_rw [exp_mul_gaussW]
  exact integrable_gaussW hΛ _

/-- **G1** moment generating function of a linear form under the Gaussian weight -/
theorem gaussian_mgf_linear {Λ : Matrix n n ℝ} (hΛ : Λ.PosDef) (ν t : n → ℝ) (s : ℝ) :
    ∫ x, rexp (s * (t ⬝ᵥ x)) * gaussW Λ ν x
      = (∫ x, gaussW Λ ν x)
        * rexp (s * (t ⬝ᵥ Λ⁻¹ *ᵥ ν) + s ^ 2 / 2 * (t ⬝ᵥ Λ⁻¹ *ᵥ t)) := by
  simp_rw [exp_mul_gaussW]
  rw [integral_gaussW hΛ, integral_gaussW hΛ, ← Real.exp_add]
  congr 1
  have hs := dotProduct_mulVec_symm (PosDef_inv_transpose hΛ) ν t
  simp only [mulVec_add, mulVec_smul, add_dotProduct, dotProduct_add, smul_dotProduct,
    dotProduct_smul, smul_eq_mul, hs]
  ring

/-! ## The weighted measure and transfer of integrals -/

/-- Lebesgue measure weighted by `gaussW Λ ν` -/
noncomputable def gaussMeasure (Λ : Matrix n n ℝ) (ν : n → ℝ) : Measure (n → ℝ) :=
  volume.withDensity (fun x => ((gaussW Λ ν x).toNNReal : ENNReal))

omit [DecidableEq n] in
theorem integral_gaussMeasure (Λ : Matrix n n ℝ) (ν : n → ℝ) (g : (n → ℝ) → ℝ) :
    ∫ x, g x ∂(gaussMeasure Λ ν) = ∫ x, g x * gaussW Λ ν x := by
  unfold gaussMeasure
  rw [integral_withDensity_eq_integral_smul (continuous_gaussW Λ ν).measurable.real_toNNReal]
  congr 1; funext x
  rw [NNReal.smul_def, Real.coe_toNNReal _ (gaussW_pos Λ ν x).le, smul_eq_mul, mul_comm]

omit [DecidableEq n] in
theorem integrable_gaussMeasure_iff (Λ : Matrix n n ℝ) (ν : n → ℝ) (g : (n → ℝ) → ℝ) :
    Integrable g (gaussMeasure Λ ν) ↔ Integrable (fun x => g x * gaussW Λ ν x) := by
  unfold gaussMeasure
  rw [integrable_withDensity_iff_integrable_smul (continuous_gaussW Λ ν).measurable.real_toNNReal]
  have : (fun x => (gaussW Λ ν x).toNNReal • g x) = fun x => g x * gaussW Λ ν x := by
    funext x
    rw [NNReal.smul_def, Real.coe_toNNReal _ (gaussW_pos Λ ν x).le, smul_eq_mul, mul_comm]
  rw [this]

theorem integrableExpSet_linear_gaussMeasure {Λ : Matrix n n ℝ} (hΛ : Λ.PosDef) (ν t : n → ℝ) (s : ℝ) :
    Integrable (fun x => rexp (s * (t ⬝ᵥ x))) (gaussMeasure Λ ν) :=
  (integrable_gaussMeasure_iff Λ ν _).2 (integrable_exp_mul_gaussW hΛ ν t s)

/-- **G0** polynomial factors in a linear form are integrable against the weight -/
theorem integrable_linear_pow_mul_gaussW {Λ : Matrix n n ℝ} (hΛ : Λ.PosDef) (ν t : n → ℝ) (k : ℕ) :
    Integrable (fun x => (t ⬝ᵥ x) ^ k * gaussW Λ ν x) := by
  rw [← integrable_gaussMeasure_iff Λ ν (fun x => (t ⬝ᵥ x) ^ k)]
  have hset : integrableExpSet (fun x => t ⬝ᵥ x) (gaussMeasure Λ ν) = Set.univ :=
    Set.eq_univ_of_forall (integrableExpSet_linear_gaussMeasure hΛ ν t)
  exact integrable_pow_of_mem_interior_integrableExpSet (by simp [hset]) k

/-- moments 1–4 of a linear form under the Gaussian weight -/
theorem gaussian_linear_moments {Λ : Matrix n n ℝ} (hΛ : Λ.PosDef) (ν t : n → ℝ) :
    let Z := ∫ x, gaussW Λ ν x
    let m := t ⬝ᵥ Λ⁻¹ *ᵥ ν
    let v := t ⬝ᵥ Λ⁻¹ *ᵥ t
    (∫ x, (t ⬝ᵥ x) * gaussW Λ ν x = Z * m) ∧
    (∫ x, (t ⬝ᵥ x) ^ 2 * gaussW Λ ν x = Z * (m ^ 2 + v)) ∧
    (∫ x, (t ⬝ᵥ x) ^ 3 * gaussW Λ ν x = Z * (m ^ 3 + 3 * m * v)) ∧
    (∫ x, (t ⬝ᵥ x) ^ 4 * gaussW Λ ν x = Z * (m ^ 4 + 6 * m ^ 2 * v + 3 * v ^ 2)) := by
  intro Z m v
  have h := moments_of_mgf_quad (gaussMeasure Λ ν) (fun x => t ⬝ᵥ x) Z m v
    (integrableExpSet_linear_gaussMeasure hΛ ν t)
    (by
      intro s
      rw [mgf, integral_gaussMeasure, gaussian_mgf_linear hΛ]
      congr 2; ring)
  simp only [integral_gaussMeasure] at h
  exact h

/-- **G2** first moment -/
theorem gaussian_first_moment {Λ : Matrix n n ℝ} (hΛ : Λ.PosDef) (ν t : n → ℝ) :
    ∫ x, (t ⬝ᵥ x) * gaussW Λ ν x = (∫ x, gaussW Λ ν x) * (t ⬝ᵥ Λ⁻¹ *ᵥ ν) :=
  (gaussian_linear_moments hΛ ν t).1

/-- **G2** second moment -/
theorem gaussian_second_moment {Λ : Matrix n n ℝ} (hΛ : Λ.PosDef) (ν t : n → ℝ) :
    ∫ x, (t ⬝ᵥ x) ^ 2 * gaussW Λ ν x
      = (∫ x, gaussW Λ ν x) * ((t ⬝ᵥ Λ⁻¹ *ᵥ ν) ^ 2 + t ⬝ᵥ Λ⁻¹ *ᵥ t) :=
  (gaussian_linear_moments hΛ ν t).2.1

/-- **G4** third moment -/
theorem gaussian_third_moment {Λ : Matrix n n ℝ} (hΛ : Λ.PosDef) (ν t : n → ℝ) :
    ∫ x, (t ⬝ᵥ x) ^ 3 * gaussW Λ ν x
      = (∫ x, gaussW Λ ν x)
        * ((t ⬝ᵥ Λ⁻¹ *ᵥ ν) ^ 3 + 3 * (t ⬝ᵥ Λ⁻¹ *ᵥ ν) * (t ⬝ᵥ Λ⁻¹ *ᵥ t)) :=
  (gaussian_linear_moments hΛ ν t).2.2.1

/-- **G4** fourth moment -/
theorem gaussian_fourth_moment {Λ : Matrix n n ℝ} (hΛ : Λ.PosDef) (ν t : n → ℝ) :
    ∫ x, (t ⬝ᵥ x) ^ 4 * gaussW Λ ν x
      = (∫ x, gaussW Λ ν x)
        * ((t ⬝ᵥ Λ⁻¹ *ᵥ ν) ^ 4 + 6 * (t ⬝ᵥ Λ⁻¹ *ᵥ ν) ^ 2 * (t ⬝ᵥ Λ⁻¹ *ᵥ t)
            + 3 * (t ⬝ᵥ Λ⁻¹ *ᵥ t) ^ 2) :=
  (gaussian_linear_moments hΛ ν t).2.2.2

/-! ## Polarisation -/

/-- **G0** products of two linear forms are integrable against the weight -/
theorem integrable_two_linear_mul_gaussW {Λ : Matrix n n ℝ} (hΛ : Λ.PosDef) (ν a b : n → ℝ) :
    Integrable (fun x => (a ⬝ᵥ x) * (b ⬝ᵥ x) * gaussW Λ ν x) := by
  have key : (fun x => (a ⬝ᵥ x) * (b ⬝ᵥ x) * gaussW Λ ν x)
      = fun x => (1/2) * (((a + b) ⬝ᵥ x) ^ 2 * gaussW Λ ν x - (a ⬝ᵥ x) ^ 2 * gaussW Λ ν x
          - (b ⬝ᵥ x) ^ 2 * gaussW Λ ν x) := by
    funext x; rw [add_dotProduct]; ring
  have i2 := fun t => integrable_linear_pow_mul_gaussW hΛ ν t 2
  rw [key]
  exact (((i2 _).sub (i2 _)).sub (i2 _)).const_mul _

/-- **G3** mixed second moment of two linear forms -/
theorem gaussian_mixed_second_moment {Λ : Matrix n n ℝ} (hΛ : Λ.PosDef) (ν a b : n → ℝ) :
    ∫ x, (a ⬝ᵥ x) * (b ⬝ᵥ x) * gaussW Λ ν x
      = (∫ x, gaussW Λ ν x)
        * ((a ⬝ᵥ Λ⁻¹ *ᵥ ν) * (b ⬝ᵥ Λ⁻¹ *ᵥ ν) + a ⬝ᵥ Λ⁻¹ *ᵥ b) := by
  have key : ∀ x, (a ⬝ᵥ x) * (b ⬝ᵥ x) * gaussW Λ ν x
      = (1/2) * (((a + b) ⬝ᵥ x) ^ 2 * gaussW Λ ν x - (a ⬝ᵥ x) ^ 2 * gaussW Λ ν x
          - (b ⬝ᵥ x) ^ 2 * gaussW Λ ν x) := by
    intro x; rw [add_dotProduct]; ring
  have i2 := fun t => integrable_linear_pow_mul_gaussW hΛ ν t 2
  simp_rw [key]
  have e : ∫ x, (((a + b) ⬝ᵥ x) ^ 2 * gaussW Λ ν x - (a ⬝ᵥ x) ^ 2 * gaussW Λ ν x
        - (b ⬝ᵥ x) ^ 2 * gaussW Λ ν x)
      = (∫ x, ((a + b) ⬝ᵥ x) ^ 2 * gaussW Λ ν x) - (∫ x, (a ⬝ᵥ x) ^ 2 * gaussW Λ ν x)
        - ∫ x, (b ⬝ᵥ x) ^ 2 * gaussW Λ ν x := by
    rw [integral_sub, integral_sub (i2 _) (i2 _)]
    · exact (i2 _).sub (i2 _)
    · exact i2 _
  rw [integral_const_mul, e,
    gaussian_second_moment hΛ, gaussian_second_moment hΛ, gaussian_second_moment hΛ]
  have hs := dotProduct_mulVec_symm (PosDef_inv_transpose hΛ) b a
  simp only [mulVec_add, add_dotProduct, dotProduct_add, hs]
  ring

/-- **G3** coordinate form: mean and second moments of the coordinates -/
theorem gaussian_coord_moments {Λ : Matrix n n ℝ} (hΛ : Λ.PosDef) (ν : n → ℝ) (i j : n) :
    (∫ x, x i * gaussW Λ ν x = (∫ x, gaussW Λ ν x) * (Λ⁻¹ *ᵥ ν) i) ∧
    (∫ x, x i * x j * gaussW Λ ν x
      = (∫ x, gaussW Λ ν x) * (Λ⁻¹ i j + (Λ⁻¹ *ᵥ ν) i * (Λ⁻¹ *ᵥ ν) j)) := by
  constructor
  · have h := gaussian_first_moment hΛ ν (Pi.single i 1)
    simpa only [single_one_dotProduct] using h
  · have h := gaussian_mixed_second_moment hΛ ν (Pi.single i 1) (Pi.single j 1)
    simp only [single_one_dotProduct, mulVec_single_one, col_apply] at h
    rw [h]; ring

theorem isserlis_three_aux {Λ : Matrix n n ℝ} (hΛ : Λ.PosDef) (ν a b c : n → ℝ) :
    Integrable (fun x => (a ⬝ᵥ x) * (b ⬝ᵥ x) * (c ⬝ᵥ x) * gaussW Λ ν x) ∧
    ∫ x, (a ⬝ᵥ x) * (b ⬝ᵥ x) * (c ⬝ᵥ x) * gaussW Λ ν x
      = (∫ x, gaussW Λ ν x)
        * ((a ⬝ᵥ Λ⁻¹ *ᵥ ν) * (b ⬝ᵥ Λ⁻¹ *ᵥ ν) * (c ⬝ᵥ Λ⁻¹ *ᵥ ν)
          + (a ⬝ᵥ Λ⁻¹ *ᵥ b) * (c ⬝ᵥ Λ⁻¹ *ᵥ ν)
          + (a ⬝ᵥ Λ⁻¹ *ᵥ c) * (b ⬝ᵥ Λ⁻¹ *ᵥ ν)
          + (b ⬝ᵥ Λ⁻¹ *ᵥ c) * (a ⬝ᵥ Λ⁻¹ *ᵥ ν)) := by
  let sg : Fin 2 → ℝ := ![1, -1]
  let T : Fin 2 × Fin 2 → n → ℝ := fun e => a + sg e.1 • b + sg e.2 • c
  have key : ∀ x, (a ⬝ᵥ x) * (b ⬝ᵥ x) * (c ⬝ᵥ x) * gaussW Λ ν x
      = ∑ e : Fin 2 × Fin 2, (sg e.1 * sg e.2 / 24) * ((T e ⬝ᵥ x) ^ 3 * gaussW Λ ν x) := by
    intro x
    simp only [Fintype.sum_prod_type, Fin.sum_univ_two, T, sg, Matrix.cons_val_zero,
      Matrix.cons_val_one, add_dotProduct, smul_dotProduct, smul_eq_mul]
    ring
  simp_rw [key]
  refine ⟨integrable_finsetSum _
    (fun e _ => (integrable_linear_pow_mul_gaussW hΛ ν (T e) 3).const_mul _), ?_⟩
  rw [integral_finsetSum _
    (fun e _ => (integrable_linear_pow_mul_gaussW hΛ ν (T e) 3).const_mul _)]
  simp_rw [integral_const_mul, gaussian_third_moment hΛ]
  have hs := dotProduct_mulVec_symm (PosDef_inv_transpose hΛ)
  simp only [Fintype.sum_prod_type, Fin.sum_univ_two, T, sg, Matrix.cons_val_zero,
    Matrix.cons_val_one, mulVec_add, mulVec_smul, add_dotProduct, dotProduct_add, smul_dotProduct,
    dotProduct_smul, smul_eq_mul, hs b a, hs c a, hs c b]
  ring

theorem isserlis_four_aux {Λ : Matrix n n ℝ} (hΛ : Λ.PosDef) (ν a b c d : n → ℝ) :
    Integrable (fun x => (a ⬝ᵥ x) * (b ⬝ᵥ x) * (c ⬝ᵥ x) * (d ⬝ᵥ x) * gaussW Λ ν x) ∧
    ∫ x, (a ⬝ᵥ x) * (b ⬝ᵥ x) * (c ⬝ᵥ x) * (d ⬝ᵥ x) * gaussW Λ ν x
      = (∫ x, gaussW Λ ν x)
        * ((a ⬝ᵥ Λ⁻¹ *ᵥ ν) * (b ⬝ᵥ Λ⁻¹ *ᵥ ν) * (c ⬝ᵥ Λ⁻¹ *ᵥ ν) * (d ⬝ᵥ Λ⁻¹ *ᵥ ν)
          + (a ⬝ᵥ Λ⁻¹ *ᵥ b) * (c ⬝ᵥ Λ⁻¹ *ᵥ ν) * (d ⬝ᵥ Λ⁻¹ *ᵥ ν)
          + (a ⬝ᵥ Λ⁻¹ *ᵥ c) * (b ⬝ᵥ Λ⁻¹ *ᵥ ν) * (d ⬝ᵥ Λ⁻¹ *ᵥ ν)
          + (a ⬝ᵥ Λ⁻¹ *ᵥ d) * (b ⬝ᵥ Λ⁻¹ *ᵥ ν) * (c ⬝ᵥ Λ⁻¹ *ᵥ ν)
          + (b ⬝ᵥ Λ⁻¹ *ᵥ c) * (a ⬝ᵥ Λ⁻¹ *ᵥ ν) * (d ⬝ᵥ Λ⁻¹ *ᵥ ν)
          + (b ⬝ᵥ Λ⁻¹ *ᵥ d) * (a ⬝ᵥ Λ⁻¹ *ᵥ ν) * (c ⬝ᵥ Λ⁻¹ *ᵥ ν)
          + (c ⬝ᵥ Λ⁻¹ *ᵥ d) * (a ⬝ᵥ Λ⁻¹ *ᵥ ν) * (b ⬝ᵥ Λ⁻¹ *ᵥ ν)
          + (a ⬝ᵥ Λ⁻¹ *ᵥ b) * (c ⬝ᵥ Λ⁻¹ *ᵥ d)
          + (a ⬝ᵥ Λ⁻¹ *ᵥ c) * (b ⬝ᵥ Λ⁻¹ *ᵥ d)
          + (a ⬝ᵥ Λ⁻¹ *ᵥ d) * (b ⬝ᵥ Λ⁻¹ *ᵥ c)) := by
  let sg : Fin 2 → ℝ := ![1, -1]
  let T : Fin 2 × Fin 2 × Fin 2 → n → ℝ := fun e => a + sg e.1 • b + sg e.2.1 • c + sg e.2.2 • d
  have key : ∀ x, (a ⬝ᵥ x) * (b ⬝ᵥ x) * (c ⬝ᵥ x) * (d ⬝ᵥ x) * gaussW Λ ν x
      = ∑ e : Fin 2 × Fin 2 × Fin 2,
          (sg e.1 * sg e.2.1 * sg e.2.2 / 192) * ((T e ⬝ᵥ x) ^ 4 * gaussW Λ ν x) := by
    intro x
    simp only [Fintype.sum_prod_type, Fin.sum_univ_two, T, sg, Matrix.cons_val_zero,
      Matrix.cons_val_one, add_dotProduct, smul_dotProduct, smul_eq_mul]
    ring
  simp_rw [key]
  refine ⟨integrable_finsetSum _
    (fun e _ => (integrable_linear_pow_mul_gaussW hΛ ν (T e) 4).const_mul _), ?_⟩
  rw [integral_finsetSum _
    (fun e _ => (integrable_linear_pow_mul_gaussW hΛ ν (T e) 4).const_mul _)]
  simp_rw [integral_const_mul, gaussian_fourth_moment hΛ]
  have hs := dotProduct_mulVec_symm (PosDef_inv_transpose hΛ)
  simp only [Fintype.sum_prod_type, Fin.sum_univ_two, T, sg, Matrix.cons_val_zero,
    Matrix.cons_val_one, mulVec_add, mulVec_smul, add_dotProduct, dotProduct_add, smul_dotProduct,
    dotProduct_smul, smul_eq_mul, hs b a, hs c a, hs d a, hs c b, hs d b, hs d c]
  ring

/-- **G0** products of three linear forms are integrable against the weight -/
theorem integrable_three_linear_mul_gaussW {Λ : Matrix n n ℝ} (hΛ : Λ.PosDef) (ν a b c : n → ℝ) :
    Integrable (fun x => (a ⬝ᵥ x) * (b ⬝ᵥ x) * (c ⬝ᵥ x) * gaussW Λ ν x) :=
  (isserlis_three_aux hΛ ν a b c).1

/-- **G4** mixed third moment of three linear forms (Isserlis with non-zero mean) -/
theorem isserlis_three {Λ : Matrix n n ℝ} (hΛ : Λ.PosDef) (ν a b c : n → ℝ) :
    ∫ x, (a ⬝ᵥ x) * (b ⬝ᵥ x) * (c ⬝ᵥ x) * gaussW Λ ν x
      = (∫ x, gaussW Λ ν x)
        * ((a ⬝ᵥ Λ⁻¹ *ᵥ ν) * (b ⬝ᵥ Λ⁻¹ *ᵥ ν) * (c ⬝ᵥ Λ⁻¹ *ᵥ ν)
          + (a ⬝ᵥ Λ⁻¹ *ᵥ b) * (c ⬝ᵥ Λ⁻¹ *ᵥ ν)
          + (a ⬝ᵥ Λ⁻¹ *ᵥ c) * (b ⬝ᵥ Λ⁻¹ *ᵥ ν)
          + (b ⬝ᵥ Λ⁻¹ *ᵥ c) * (a ⬝ᵥ Λ⁻¹ *ᵥ ν)) :=
  (isserlis_three_aux hΛ ν a b c).2

/-- **G0** products of four linear forms are integrable against the weight -/
theorem integrable_four_linear_mul_gaussW {Λ : Matrix n n ℝ} (hΛ : Λ.PosDef) (ν a b c d : n → ℝ) :
    Integrable (fun x => (a ⬝ᵥ x) * (b ⬝ᵥ x) * (c ⬝ᵥ x) * (d ⬝ᵥ x) * gaussW Λ ν x) :=
  (isserlis_four_aux hΛ ν a b c d).1

/-- **G4** Isserlis / Wick formula for four linear forms under the Gaussian weight (non-zero mean) -/
theorem isserlis_four {Λ : Matrix n n ℝ} (hΛ : Λ.PosDef) (ν a b c d : n → ℝ) :
    ∫ x, (a ⬝ᵥ x) * (b ⬝ᵥ x) * (c ⬝ᵥ x) * (d ⬝ᵥ x) * gaussW Λ ν x
      = (∫ x, gaussW Λ ν x)
        * ((a ⬝ᵥ Λ⁻¹ *ᵥ ν) * (b ⬝ᵥ Λ⁻¹ *ᵥ ν) * (c ⬝ᵥ Λ⁻¹ *ᵥ ν) * (d ⬝ᵥ Λ⁻¹ *ᵥ ν)
          + (a ⬝ᵥ Λ⁻¹ *ᵥ b) * (c ⬝ᵥ Λ⁻¹ *ᵥ ν) * (d ⬝ᵥ Λ⁻¹ *ᵥ ν)
          + (a ⬝ᵥ Λ⁻¹ *ᵥ c) * (b ⬝ᵥ Λ⁻¹ *ᵥ ν) * (d ⬝ᵥ Λ⁻¹ *ᵥ ν)
          + (a ⬝ᵥ Λ⁻¹ *ᵥ d) * (b ⬝ᵥ Λ⁻¹ *ᵥ ν) * (c ⬝ᵥ Λ⁻¹ *ᵥ ν)
          + (b ⬝ᵥ Λ⁻¹ *ᵥ c) * (a ⬝ᵥ Λ⁻¹ *ᵥ ν) * (d ⬝ᵥ Λ⁻¹ *ᵥ ν)
          + (b ⬝ᵥ Λ⁻¹ *ᵥ d) * (a ⬝ᵥ Λ⁻¹ *ᵥ ν) * (c ⬝ᵥ Λ⁻¹ *ᵥ ν)
          + (c ⬝ᵥ Λ⁻¹ *ᵥ d) * (a ⬝ᵥ Λ⁻¹ *ᵥ ν) * (b ⬝ᵥ Λ⁻¹ *ᵥ ν)
          + (a ⬝ᵥ Λ⁻¹ *ᵥ b) * (c ⬝ᵥ Λ⁻¹ *ᵥ d)
          + (a ⬝ᵥ Λ⁻¹ *ᵥ c) * (b ⬝ᵥ Λ⁻¹ *ᵥ d)
          + (a ⬝ᵥ Λ⁻¹ *ᵥ d) * (b ⬝ᵥ Λ⁻¹ *ᵥ c)) :=
  (isserlis_four_aux hΛ ν a b c d).2

/-- the statements unfold definitionally to the explicit exponential form -/
example {Λ : Matrix n n ℝ} (hΛ : Λ.PosDef) (ν t : n → ℝ) :
    ∫ x : n → ℝ, (t ⬝ᵥ x) * rexp (-(1/2) * (x ⬝ᵥ Λ *ᵥ x) + ν ⬝ᵥ x)
      = (∫ x : n → ℝ, rexp (-(1/2) * (x ⬝ᵥ Λ *ᵥ x) + ν ⬝ᵥ x)) * (t ⬝ᵥ Λ⁻¹ *ᵥ ν) :=
  gaussian_first_moment hΛ ν t

end GT.Math

#print axioms GT.Math.integrable_two_linear_mul_gaussW
#print axioms GT.Math.integrable_three_linear_mul_gaussW
#print axioms GT.Math.integrable_four_linear_mul_gaussW

#print axioms GT.Math.integrable_gaussW
#print axioms GT.Math.integrable_linear_pow_mul_gaussW
#print axioms GT.Math.gaussian_mgf_linear
#print axioms GT.Math.gaussian_first_moment
#print axioms GT.Math.gaussian_second_moment
#print axioms GT.Math.gaussian_mixed_second_moment
#print axioms GT.Math.gaussian_coord_moments
#print axioms GT.Math.gaussian_third_moment
#print axioms GT.Math.gaussian_fourth_moment
#print axioms GT.Math.isserlis_three
#print axioms GT.Math.isserlis_four
