import Mathlib.LinearAlgebra.Matrix.SchurComplement
import Mathlib.LinearAlgebra.Matrix.NonsingularInverse
import Mathlib.Data.Real.Basic
import Mathlib.Tactic.Ring
import Mathlib.Tactic.FieldSimp
import Mathlib.Tactic.LinearCombination
/-!
# M5 — rank-one updates: Sherman–Morrison and the matrix determinant lemma
-/
namespace GT.Math
open Matrix

variable {n : Type*} [Fintype n] [DecidableEq n]

/-- Sherman–Morrison for a symmetric inverse `S = L⁻¹`. -/
theorem sherman_morrison (L S : Matrix n n ℝ) (hLS : L * S = 1) (hS : Sᵀ = S) (v : n → ℝ) (g : ℝ)
    (hd : 1 + g * (v ⬝ᵥ S *ᵥ v) ≠ 0) :
    (L + g • vecMulVec v v)⁻¹ =
      S - (g / (1 + g * (v ⬝ᵥ S *ᵥ v))) • vecMulVec (S *ᵥ v) (S *ᵥ v) := by
  apply Matrix.inv_eq_right_inv
  set s := v ⬝ᵥ S *ᵥ v with hs
  set d := 1 + g * s with hdd
  have hvS : v ᵥ* S = S *ᵥ v := by rw [← Matrix.mulVec_transpose, hS]
  have h1 : L * vecMulVec (S *ᵥ v) (S *ᵥ v) = vecMulVec v (S *ᵥ v) := by
    rw [Matrix.mul_vecMulVec, Matrix.mulVec_mulVec, hLS, Matrix.one_mulVec]
  have h2 : vecMulVec v v * S = vecMulVec v (S *ᵥ v) := by
    rw [Matrix.vecMulVec_mul, hvS]
  have h3 : vecMulVec v v * vecMulVec (S *ᵥ v) (S *ᵥ v) = s • vecMulVec v (S *ᵥ v) := by
    rw [Matrix.vecMulVec_mul_vecMulVec, Matrix.vecMulVec_smul]
  rw [Matrix.add_mul, Matrix.mul_sub, Matrix.mul_sub, hLS, Matrix.mul_smul, Matrix.smul_mul,
    Matrix.smul_mul, Matrix.mul_smul, h1, h2, h3]
  ext i j
  simp only [Matrix.add_apply, Matrix.sub_apply, Matrix.smul_apply, smul_eq_mul]
  have : g - g / d - g * (g / d * s) = 0 := by
    field_simp
    ring
  linear_combination (vecMulVec v (S *ᵥ v) i j) * this

/-- matrix determinant lemma for `g v vᵀ` -/
theorem det_rank_one_update (L : Matrix n n ℝ) (hL : IsUnit L.det) (v : n → ℝ) (g : ℝ) :
    (L + g • vecMulVec v v).det = L.det * (1 + g * (v ⬝ᵥ L⁻¹ *ᵥ v)) := by
  have h : g • vecMulVec v v = replicateCol Unit (g • v) * replicateRow Unit v := by
    ext i j
    simp [vecMulVec_apply, Matrix.mul_apply, mul_assoc]
  rw [h, det_add_replicateCol_mul_replicateRow hL]
  congr 1
  rw [Matrix.det_unique]
  simp only [Matrix.add_apply, Matrix.one_apply_eq, Matrix.mul_apply, replicateRow_apply,
    replicateCol_apply, Pi.smul_apply, smul_eq_mul]
  congr 1
  simp only [dotProduct, Matrix.mulVec, Finset.mul_sum, Finset.sum_mul]
  rw [Finset.sum_comm]
  apply Finset.sum_congr rfl; intro i _
  apply Finset.sum_congr rfl; intro j _
  ring

end GT.Math
