import GT.Math.KL
import Mathlib.Analysis.Matrix.Spectrum
/-!
# Monotonicity of the determinant on the positive definite cone (independent of the library)

`det A ≤ det (A + B)` for positive definite `A` and positive semidefinite `B`
(used for the non-negativity of the mutual information of a linear-Gaussian channel).
-/
namespace GT.Math

open Matrix
open scoped MatrixOrder

variable {n : Type*} [Fintype n] [DecidableEq n]

/-- all eigenvalues of `1 + Q` (`Q` positive semidefinite) are `≥ 1`, hence `log det ≥ 0`. -/
theorem log_det_one_add_nonneg (Y Q : Matrix n n ℝ) (hY : Y.PosDef) (hQ : Q.PosSemidef)
    (h : Y = 1 + Q) : 0 ≤ Real.log Y.det := by
  have hdet : Y.det = ∏ i, hY.isHermitian.eigenvalues i := by
    simpa using hY.isHermitian.det_eq_prod_eigenvalues
  rw [hdet, Real.log_prod (fun i _ => (hY.eigenvalues_pos i).ne')]
  refine Finset.sum_nonneg fun i _ => Real.log_nonneg ?_
  have he := hY.isHermitian.eigenvalues_eq i
  have hnorm : ‖hY.isHermitian.eigenvectorBasis i‖ = 1 := hY.isHermitian.eigenvectorBasis.orthonormal.1 i
  have hv : (⇑(hY.isHermitian.eigenvectorBasis i) : n → ℝ) ⬝ᵥ ⇑(hY.isHermitian.eigenvectorBasis i) = 1 := by
    have h1 := inner_self_eq_norm_sq_to_K (𝕜 := ℝ) (hY.isHermitian.eigenvectorBasis i)
    rw [EuclideanSpace.inner_eq_star_dotProduct, hnorm] at h1
    simpa using h1
  have hq := hQ.dotProduct_mulVec_nonneg (⇑(hY.isHermitian.eigenvectorBasis i) : n → ℝ)
  rw [he]
  clear hnorm he
  generalize (hY.isHermitian.eigenvectorBasis i).ofLp = v at hv hq ⊢
  simp only [h, add_mulVec, one_mulVec, dotProduct_add, star_trivial, RCLike.re_to_real] at hq ⊢
  rw [hv]
  linarith

/-- `log det A ≤ log det (A + B)` for positive definite `A`, positive semidefinite `B`. -/
theorem log_det_le_log_det_add (A B : Matrix n n ℝ) (hA : A.PosDef) (hB : B.PosSemidef) :
    Real.log A.det ≤ Real.log (A + B).det := by
  have hS : (A + B).PosDef := hA.add_posSemidef hB
  obtain ⟨C, hCdet, hC, hX, -, hlog⟩ := exists_whitening (A + B) A hS hA
  have hCu : IsUnit C.det := isUnit_iff_ne_zero.2 hCdet
  have hCHu : IsUnit (Cᴴ).det := by rw [det_conjTranspose]; simpa using hCu
  have hAu : IsUnit A.det := isUnit_iff_ne_zero.2 hA.det_pos.ne'
  -- `C A Cᴴ = 1`
  have hA' : A = C⁻¹ * (Cᴴ)⁻¹ := by
    rw [← Matrix.mul_inv_rev, ← hC, nonsing_inv_nonsing_inv _ hAu]
  have hone : C * A * Cᴴ = 1 := by
    rw [hA', ← Matrix.mul_assoc, mul_nonsing_inv _ hCu, Matrix.one_mul, nonsing_inv_mul _ hCHu]
  have hY : C * (A + B) * Cᴴ = 1 + C * B * Cᴴ := by
    rw [Matrix.mul_add, Matrix.add_mul, hone]
  have := log_det_one_add_nonneg _ _ hX (hB.mul_mul_conjTranspose_same C) hY
  rw [hlog] at this
  linarith

/-- **determinant monotonicity**: `det A ≤ det (A + B)`. -/
theorem det_le_det_add (A B : Matrix n n ℝ) (hA : A.PosDef) (hB : B.PosSemidef) :
    A.det ≤ (A + B).det := by
  have h := log_det_le_log_det_add A B hA hB
  exact (Real.log_le_log_iff hA.det_pos (hA.add_posSemidef hB).det_pos).1 h

end GT.Math

#print axioms GT.Math.log_det_le_log_det_add
#print axioms GT.Math.det_le_det_add
