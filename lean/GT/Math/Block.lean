import GT.Bridge.Matrix
import Mathlib.Data.Matrix.Block
import Mathlib.LinearAlgebra.Matrix.SchurComplement
import Mathlib.LinearAlgebra.Matrix.Determinant.Basic
import Mathlib.Logic.Equiv.Fin.Basic
import Mathlib.Analysis.Matrix.PosDef
import Mathlib.Tactic.Abel
/-!
# Block identities of the linear-Gaussian joint, conditioning, and the bridge of `block`/`vappend`

Part A (`GT.Math`, pure Mathlib): for `x ~ N(·, Sx)`, `y | x ~ N(M x + b, Sy)` the joint covariance
`[[Sx, Sx Mᵀ], [M Sx, Sy + M Sx Mᵀ]]` and the joint precision
`[[Lx + Mᵀ Ly M, -Mᵀ Ly], [-Ly M, Ly]]` are inverse of each other, with determinants
`det Sx * det Sy` and `det Lx * det Ly`; Schur-complement form of marginal precision and
conditional covariance.

Part B (`GT`): `toM (block A B C D)` is `Matrix.fromBlocks` reindexed along `finSumFinEquiv`,
`toV (vappend u v)` is `Sum.elim` along `finSumFinEquiv.symm`, and the statements of part A at the
level of the model's `block`.
-/

namespace GT.Math
open Matrix

section joint
variable {m n : Type*} [Fintype m] [Fintype n] [DecidableEq m] [DecidableEq n]

/-- **A1** joint covariance × joint precision = 1. -/
theorem joint_cov_mul_prec (Sx Lx : Matrix m m ℝ) (Sy Ly : Matrix n n ℝ) (M : Matrix n m ℝ)
    (hx : Sx * Lx = 1) (hy : Sy * Ly = 1) :
    fromBlocks Sx (Sx * Mᵀ) (M * Sx) (Sy + M * Sx * Mᵀ)
      * fromBlocks (Lx + Mᵀ * Ly * M) (-(Mᵀ * Ly)) (-(Ly * M)) Ly = 1 := by
  rw [fromBlocks_multiply, ← fromBlocks_one]
  congr 1
  · simp only [Matrix.mul_add, Matrix.mul_neg, hx, Matrix.mul_assoc]; abel
  · simp only [Matrix.mul_neg, Matrix.mul_assoc]; abel
  · simp only [Matrix.mul_add, Matrix.add_mul, Matrix.mul_neg, Matrix.mul_assoc, hx]
    rw [← Matrix.mul_assoc Sy, hy]; simp
  · simp only [Matrix.add_mul, Matrix.mul_neg, Matrix.mul_assoc, hy]; abel

/-- **A1'** joint precision × joint covariance = 1 (square matrices: one-sided inverse suffices). -/
theorem joint_prec_mul_cov (Sx Lx : Matrix m m ℝ) (Sy Ly : Matrix n n ℝ) (M : Matrix n m ℝ)
    (hx : Sx * Lx = 1) (hy : Sy * Ly = 1) :
    fromBlocks (Lx + Mᵀ * Ly * M) (-(Mᵀ * Ly)) (-(Ly * M)) Ly
      * fromBlocks Sx (Sx * Mᵀ) (M * Sx) (Sy + M * Sx * Mᵀ) = 1 :=
  mul_eq_one_comm.1 (joint_cov_mul_prec Sx Lx Sy Ly M hx hy)

/-- the joint precision is the (Mathlib) inverse of the joint covariance. -/
theorem joint_cov_inv (Sx Lx : Matrix m m ℝ) (Sy Ly : Matrix n n ℝ) (M : Matrix n m ℝ)
    (hx : Sx * Lx = 1) (hy : Sy * Ly = 1) :
    (fromBlocks Sx (Sx * Mᵀ) (M * Sx) (Sy + M * Sx * Mᵀ))⁻¹
      = fromBlocks (Lx + Mᵀ * Ly * M) (-(Mᵀ * Ly)) (-(Ly * M)) Ly :=
  inv_eq_right_inv (joint_cov_mul_prec Sx Lx Sy Ly M hx hy)

/-- **A2** determinant of the joint covariance. -/
theorem joint_cov_det (Sx : Matrix m m ℝ) (Sy : Matrix n n ℝ) (M : Matrix n m ℝ)
    (hSx : Sx.det ≠ 0) :
    (fromBlocks Sx (Sx * Mᵀ) (M * Sx) (Sy + M * Sx * Mᵀ)).det = Sx.det * Sy.det := by
  have : Invertible Sx := Matrix.invertibleOfIsUnitDet Sx (isUnit_iff_ne_zero.mpr hSx)
  rw [det_fromBlocks₁₁]
  congr 2
  have : M * Sx * ⅟Sx * (Sx * Mᵀ) = M * Sx * Mᵀ := by
    rw [Matrix.mul_assoc M, mul_invOf_self, Matrix.mul_one, ← Matrix.mul_assoc]
  rw [this]; abel

/-- **A3** determinant of the joint precision. -/
theorem joint_prec_det (Lx : Matrix m m ℝ) (Ly : Matrix n n ℝ) (M : Matrix n m ℝ)
    (hLy : Ly.det ≠ 0) :
    (fromBlocks (Lx + Mᵀ * Ly * M) (-(Mᵀ * Ly)) (-(Ly * M)) Ly).det = Lx.det * Ly.det := by
  have : Invertible Ly := Matrix.invertibleOfIsUnitDet Ly (isUnit_iff_ne_zero.mpr hLy)
  rw [det_fromBlocks₂₂, mul_comm]
  congr 2
  have : -(Mᵀ * Ly) * ⅟Ly * -(Ly * M) = Mᵀ * Ly * M := by
    rw [Matrix.neg_mul, Matrix.neg_mul, Matrix.mul_neg, neg_neg, Matrix.mul_assoc Mᵀ,
      mul_invOf_self, Matrix.mul_one, ← Matrix.mul_assoc]
  rw [this]; abel

end joint

section conditioning
variable {a b : Type*} [Fintype a] [Fintype b] [DecidableEq a] [DecidableEq b]

/-- the four block equations of `Λ * Σ = 1`. -/
theorem block_eqs_of_mul_eq_one
    {Laa : Matrix a a ℝ} {Lab : Matrix a b ℝ} {Lba : Matrix b a ℝ} {Lbb : Matrix b b ℝ}
    {Saa : Matrix a a ℝ} {Sab : Matrix a b ℝ} {Sba : Matrix b a ℝ} {Sbb : Matrix b b ℝ}
    (h : fromBlocks Laa Lab Lba Lbb * fromBlocks Saa Sab Sba Sbb = 1) :
    Laa * Saa + Lab * Sba = 1 ∧ Laa * Sab + Lab * Sbb = 0 ∧
      Lba * Saa + Lbb * Sba = 0 ∧ Lba * Sab + Lbb * Sbb = 1 := by
  rw [fromBlocks_multiply, ← fromBlocks_one, fromBlocks_inj] at h
  exact h

/-- **A4a** (one-sided form) the Schur complement of `Λaa` is a left inverse of `Σbb`. -/
theorem schur_mul_marginal_cov
    {Laa : Matrix a a ℝ} {Lab : Matrix a b ℝ} {Lba : Matrix b a ℝ} {Lbb : Matrix b b ℝ}
    {Saa : Matrix a a ℝ} {Sab : Matrix a b ℝ} {Sba : Matrix b a ℝ} {Sbb : Matrix b b ℝ}
    (h : fromBlocks Laa Lab Lba Lbb * fromBlocks Saa Sab Sba Sbb = 1) (hLaa : Laa.det ≠ 0) :
    (Lbb - Lba * Laa⁻¹ * Lab) * Sbb = 1 := by
  obtain ⟨-, h2, -, h4⟩ := block_eqs_of_mul_eq_one h
  have hu : IsUnit Laa.det := isUnit_iff_ne_zero.mpr hLaa
  have h2' : Lab * Sbb = -(Laa * Sab) := by
    rw [eq_neg_iff_add_eq_zero, add_comm]; exact h2
  rw [Matrix.sub_mul, Matrix.mul_assoc, h2', Matrix.mul_neg, Matrix.mul_assoc,
    ← Matrix.mul_assoc Laa⁻¹, nonsing_inv_mul _ hu, Matrix.one_mul, sub_neg_eq_add, add_comm]
  exact h4

/-- **A4a** precision of the marginal of `b`: `Σbb⁻¹ = Λbb - Λba Λaa⁻¹ Λab`. -/
theorem marginal_prec_eq_schur
    {Laa : Matrix a a ℝ} {Lab : Matrix a b ℝ} {Lba : Matrix b a ℝ} {Lbb : Matrix b b ℝ}
    {Saa : Matrix a a ℝ} {Sab : Matrix a b ℝ} {Sba : Matrix b a ℝ} {Sbb : Matrix b b ℝ}
    (h : fromBlocks Laa Lab Lba Lbb * fromBlocks Saa Sab Sba Sbb = 1) (hLaa : Laa.det ≠ 0) :
    Sbb⁻¹ = Lbb - Lba * Laa⁻¹ * Lab :=
  inv_eq_left_inv (schur_mul_marginal_cov h hLaa)

/-- the marginal covariance block is invertible as soon as `Λaa` is. -/
theorem marginal_cov_det_ne_zero
    {Laa : Matrix a a ℝ} {Lab : Matrix a b ℝ} {Lba : Matrix b a ℝ} {Lbb : Matrix b b ℝ}
    {Saa : Matrix a a ℝ} {Sab : Matrix a b ℝ} {Sba : Matrix b a ℝ} {Sbb : Matrix b b ℝ}
    (h : fromBlocks Laa Lab Lba Lbb * fromBlocks Saa Sab Sba Sbb = 1) (hLaa : Laa.det ≠ 0) :
    Sbb.det ≠ 0 := by
  have := congrArg Matrix.det (schur_mul_marginal_cov h hLaa)
  rw [det_mul, det_one] at this
  exact right_ne_zero_of_mul_eq_one this

/-- **A4b** (one-sided form) `Λaa * (Σaa - Σab Σbb⁻¹ Σba) = 1`, for invertible `Σbb`. -/
theorem prec_block_mul_cond_cov
    {Laa : Matrix a a ℝ} {Lab : Matrix a b ℝ} {Lba : Matrix b a ℝ} {Lbb : Matrix b b ℝ}
    {Saa : Matrix a a ℝ} {Sab : Matrix a b ℝ} {Sba : Matrix b a ℝ} {Sbb : Matrix b b ℝ}
    (h : fromBlocks Laa Lab Lba Lbb * fromBlocks Saa Sab Sba Sbb = 1) (hSbb : Sbb.det ≠ 0) :
    Laa * (Saa - Sab * Sbb⁻¹ * Sba) = 1 := by
  obtain ⟨h1, h2, -, -⟩ := block_eqs_of_mul_eq_one h
  have hu : IsUnit Sbb.det := isUnit_iff_ne_zero.mpr hSbb
  have h2' : Laa * Sab = -(Lab * Sbb) := by
    rw [eq_neg_iff_add_eq_zero]; exact h2
  rw [Matrix.mul_sub, ← Matrix.mul_assoc, ← Matrix.mul_assoc, h2', Matrix.neg_mul, Matrix.neg_mul,
    Matrix.mul_assoc Lab, mul_nonsing_inv _ hu, Matrix.mul_one, sub_neg_eq_add]
  exact h1

/-- **A4b** conditional covariance of `a` given `b` = inverse of the precision block:
`Σaa - Σab Σbb⁻¹ Σba = Λaa⁻¹` (for invertible `Σbb`). -/
theorem cond_cov_eq_inv_prec_block
    {Laa : Matrix a a ℝ} {Lab : Matrix a b ℝ} {Lba : Matrix b a ℝ} {Lbb : Matrix b b ℝ}
    {Saa : Matrix a a ℝ} {Sab : Matrix a b ℝ} {Sba : Matrix b a ℝ} {Sbb : Matrix b b ℝ}
    (h : fromBlocks Laa Lab Lba Lbb * fromBlocks Saa Sab Sba Sbb = 1) (hSbb : Sbb.det ≠ 0) :
    Saa - Sab * Sbb⁻¹ * Sba = Laa⁻¹ :=
  (inv_eq_right_inv (prec_block_mul_cond_cov h hSbb)).symm

/-- **A4b** the same with invertibility of `Λaa` as the hypothesis. -/
theorem cond_cov_eq_inv_prec_block'
    {Laa : Matrix a a ℝ} {Lab : Matrix a b ℝ} {Lba : Matrix b a ℝ} {Lbb : Matrix b b ℝ}
    {Saa : Matrix a a ℝ} {Sab : Matrix a b ℝ} {Sba : Matrix b a ℝ} {Sbb : Matrix b b ℝ}
    (h : fromBlocks Laa Lab Lba Lbb * fromBlocks Saa Sab Sba Sbb = 1) (hLaa : Laa.det ≠ 0) :
    Saa - Sab * Sbb⁻¹ * Sba = Laa⁻¹ :=
  cond_cov_eq_inv_prec_block h (marginal_cov_det_ne_zero h hLaa)

/-- **A4** for a positive definite `Λ` both statements hold without further hypotheses. -/
theorem conditioning_of_posDef
    {Laa : Matrix a a ℝ} {Lab : Matrix a b ℝ} {Lba : Matrix b a ℝ} {Lbb : Matrix b b ℝ}
    {Saa : Matrix a a ℝ} {Sab : Matrix a b ℝ} {Sba : Matrix b a ℝ} {Sbb : Matrix b b ℝ}
    (hΛ : (fromBlocks Laa Lab Lba Lbb).PosDef)
    (h : fromBlocks Laa Lab Lba Lbb * fromBlocks Saa Sab Sba Sbb = 1) :
    Sbb⁻¹ = Lbb - Lba * Laa⁻¹ * Lab ∧ Saa - Sab * Sbb⁻¹ * Sba = Laa⁻¹ := by
  have hLaa : Laa.PosDef := by
    have := hΛ.submatrix (e := (Sum.inl : a → a ⊕ b)) Sum.inl_injective
    have he : (fromBlocks Laa Lab Lba Lbb).submatrix Sum.inl Sum.inl = Laa := by
      ext i j; simp
    rwa [he] at this
  have hd : Laa.det ≠ 0 := ne_of_gt hLaa.det_pos
  exact ⟨marginal_prec_eq_schur h hd, cond_cov_eq_inv_prec_block' h hd⟩

end conditioning
end GT.Math

/-! ## Part B: bridge to the model -/

namespace GT
open Matrix

variable {m n p q : Nat}

/-- the model's index split is Mathlib's `finSumFinEquiv.symm`. -/
theorem splitIdx_eq (k : Fin (m + n)) : splitIdx k = finSumFinEquiv.symm k := by
  rw [Equiv.eq_symm_apply]
  unfold splitIdx
  split
  · ext; simp
  · ext; simp; omega

@[simp] theorem splitIdx_castAdd (i : Fin m) : splitIdx (Fin.castAdd n i) = Sum.inl i := by
  rw [splitIdx_eq]; simp

@[simp] theorem splitIdx_natAdd (j : Fin n) : splitIdx (Fin.natAdd m j) = Sum.inr j := by
  rw [splitIdx_eq]; simp

/-- **B1** -/
theorem toM_block (A : Mat m p ℝ) (B : Mat m q ℝ) (C : Mat n p ℝ) (D : Mat n q ℝ) :
    toM (block A B C D)
      = Matrix.reindex finSumFinEquiv finSumFinEquiv
          (Matrix.fromBlocks (toM A) (toM B) (toM C) (toM D)) := by
  ext i j
  simp only [block, toM_apply, tab2_apply, splitIdx_eq, reindex_apply, submatrix_apply]
  rcases finSumFinEquiv.symm i with i' | i' <;> rcases finSumFinEquiv.symm j with j' | j' <;> simp

/-- **B1** in `submatrix` form. -/
theorem toM_block_submatrix (A : Mat m p ℝ) (B : Mat m q ℝ) (C : Mat n p ℝ) (D : Mat n q ℝ) :
    toM (block A B C D)
      = (Matrix.fromBlocks (toM A) (toM B) (toM C) (toM D)).submatrix
          finSumFinEquiv.symm finSumFinEquiv.symm := by
  rw [toM_block, reindex_apply]

/-- **B1** the other way round: the Mathlib block matrix is the model's `block`, reindexed. -/
theorem fromBlocks_toM (A : Mat m p ℝ) (B : Mat m q ℝ) (C : Mat n p ℝ) (D : Mat n q ℝ) :
    Matrix.fromBlocks (toM A) (toM B) (toM C) (toM D)
      = (toM (block A B C D)).submatrix finSumFinEquiv finSumFinEquiv := by
  rw [toM_block_submatrix]; ext i j; simp

/-- **B2** -/
theorem toV_vappend (u : Vec m ℝ) (v : Vec n ℝ) :
    toV (vappend u v) = Sum.elim (toV u) (toV v) ∘ finSumFinEquiv.symm := by
  ext k
  simp only [vappend, toV_apply, tab_apply, splitIdx_eq, Function.comp_apply]
  rcases finSumFinEquiv.symm k with i | j <;> simp

@[simp] theorem vappend_castAdd (u : Vec m ℝ) (v : Vec n ℝ) (i : Fin m) :
    (vappend u v) (Fin.castAdd n i) = u i := by simp [vappend]

@[simp] theorem vappend_natAdd (u : Vec m ℝ) (v : Vec n ℝ) (j : Fin n) :
    (vappend u v) (Fin.natAdd m j) = v j := by simp [vappend]

/-! ### B3: transport -/

/-- products of model blocks are Mathlib block products, reindexed. -/
theorem toM_block_mul {r s : Nat} (A : Mat m p ℝ) (B : Mat m q ℝ) (C : Mat n p ℝ) (D : Mat n q ℝ)
    (A' : Mat p r ℝ) (B' : Mat p s ℝ) (C' : Mat q r ℝ) (D' : Mat q s ℝ) :
    toM (block A B C D) * toM (block A' B' C' D')
      = Matrix.reindex finSumFinEquiv finSumFinEquiv
          (Matrix.fromBlocks (toM A) (toM B) (toM C) (toM D)
            * Matrix.fromBlocks (toM A') (toM B') (toM C') (toM D')) := by
  simp only [toM_block, reindex_apply, submatrix_mul_equiv]

/-- determinant of a model block = determinant of the Mathlib block matrix. -/
theorem det_toM_block (A : Mat m m ℝ) (B : Mat m n ℝ) (C : Mat n m ℝ) (D : Mat n n ℝ) :
    (toM (block A B C D)).det
      = (Matrix.fromBlocks (toM A) (toM B) (toM C) (toM D)).det := by
  rw [toM_block, det_reindex_self]

/-- a product of model blocks is the identity iff the Mathlib block product is. -/
theorem toM_block_mul_eq_one_iff (A : Mat m m ℝ) (B : Mat m n ℝ) (C : Mat n m ℝ) (D : Mat n n ℝ)
    (A' : Mat m m ℝ) (B' : Mat m n ℝ) (C' : Mat n m ℝ) (D' : Mat n n ℝ) :
    toM (block A B C D) * toM (block A' B' C' D') = 1 ↔
      Matrix.fromBlocks (toM A) (toM B) (toM C) (toM D)
        * Matrix.fromBlocks (toM A') (toM B') (toM C') (toM D') = 1 := by
  rw [toM_block_mul]
  constructor
  · intro h
    have := congrArg (Matrix.reindex finSumFinEquiv.symm finSumFinEquiv.symm) h
    simpa using this
  · intro h
    rw [h]; simp

/-- **B3/A1** (literal shapes of A1). -/
theorem toM_joint_cov_mul_prec (Sx Lx : Mat m m ℝ) (Sy Ly : Mat n n ℝ) (M : Mat n m ℝ)
    (hx : toM Sx * toM Lx = 1) (hy : toM Sy * toM Ly = 1) :
    toM (block Sx (mmul Sx (transpose M)) (mmul M Sx)
          (madd Sy (mmul (mmul M Sx) (transpose M))))
      * toM (block (madd Lx (mmul (mmul (transpose M) Ly) M)) (mneg (mmul (transpose M) Ly))
          (mneg (mmul Ly M)) Ly) = 1 := by
  rw [toM_block_mul_eq_one_iff]
  simp only [toM_mmul, toM_madd, toM_mneg, toM_transpose]
  exact Math.joint_cov_mul_prec _ _ _ _ _ hx hy

/-- **B3/A2** (literal shapes of A2). -/
theorem det_toM_joint_cov (Sx : Mat m m ℝ) (Sy : Mat n n ℝ) (M : Mat n m ℝ)
    (hSx : (toM Sx).det ≠ 0) :
    (toM (block Sx (mmul Sx (transpose M)) (mmul M Sx)
          (madd Sy (mmul (mmul M Sx) (transpose M))))).det
      = (toM Sx).det * (toM Sy).det := by
  rw [det_toM_block]
  simp only [toM_mmul, toM_madd, toM_transpose]
  exact Math.joint_cov_det _ _ _ hSx

/-- **B3/A3** (literal shapes of A3). -/
theorem det_toM_joint_prec (Lx : Mat m m ℝ) (Ly : Mat n n ℝ) (M : Mat n m ℝ)
    (hLy : (toM Ly).det ≠ 0) :
    (toM (block (madd Lx (mmul (mmul (transpose M) Ly) M)) (mneg (mmul (transpose M) Ly))
          (mneg (mmul Ly M)) Ly)).det
      = (toM Lx).det * (toM Ly).det := by
  rw [det_toM_block]
  simp only [toM_mmul, toM_madd, toM_mneg, toM_transpose]
  exact Math.joint_prec_det _ _ _ hLy

/-! ### B3 in the exact shapes computed by `CondB.affineJoint`

`Sig = block Sx (M Sx)ᵀ (M Sx) (Sy + (M Sx) Mᵀ)` and
`Lam = block (Lx + Mᵀ (Lyᵀ M)) (-(Lyᵀ M))ᵀ (-(Lyᵀ M)) Ly`; they agree with the shapes of A1–A3
for symmetric `Sx` and `Ly`. -/

/-- the covariance assembled by `CondB.affineJoint`. -/
def jointSigma (Sx : Mat m m ℝ) (Sy : Mat n n ℝ) (M : Mat n m ℝ) : Mat (m + n) (m + n) ℝ :=
  block Sx (transpose (mmul M Sx)) (mmul M Sx) (madd Sy (mmul (mmul M Sx) (transpose M)))

/-- the precision assembled by `CondB.affineJoint`. -/
def jointLambda (Lx : Mat m m ℝ) (Ly : Mat n n ℝ) (M : Mat n m ℝ) : Mat (m + n) (m + n) ℝ :=
  block (madd Lx (mmul (transpose M) (mmul (transpose Ly) M)))
    (transpose (mneg (mmul (transpose Ly) M))) (mneg (mmul (transpose Ly) M)) Ly

theorem toM_jointSigma (Sx : Mat m m ℝ) (Sy : Mat n n ℝ) (M : Mat n m ℝ)
    (hSx : (toM Sx)ᵀ = toM Sx) :
    toM (jointSigma Sx Sy M)
      = Matrix.reindex finSumFinEquiv finSumFinEquiv
          (Matrix.fromBlocks (toM Sx) (toM Sx * (toM M)ᵀ) (toM M * toM Sx)
            (toM Sy + toM M * toM Sx * (toM M)ᵀ)) := by
  simp only [jointSigma, toM_block, toM_mmul, toM_madd, toM_transpose, transpose_mul, hSx]

theorem toM_jointLambda (Lx : Mat m m ℝ) (Ly : Mat n n ℝ) (M : Mat n m ℝ)
    (hLy : (toM Ly)ᵀ = toM Ly) :
    toM (jointLambda Lx Ly M)
      = Matrix.reindex finSumFinEquiv finSumFinEquiv
          (Matrix.fromBlocks (toM Lx + (toM M)ᵀ * toM Ly * toM M) (-((toM M)ᵀ * toM Ly))
            (-(toM Ly * toM M)) (toM Ly)) := by
  simp only [jointLambda, toM_block, toM_mmul, toM_madd, toM_mneg, toM_transpose, transpose_mul,
    transpose_neg, hLy, Matrix.mul_assoc]

/-- **B3/A1** for the matrices of `CondB.affineJoint`. -/
theorem jointSigma_mul_jointLambda (Sx Lx : Mat m m ℝ) (Sy Ly : Mat n n ℝ) (M : Mat n m ℝ)
    (hSx : (toM Sx)ᵀ = toM Sx) (hLy : (toM Ly)ᵀ = toM Ly)
    (hx : toM Sx * toM Lx = 1) (hy : toM Sy * toM Ly = 1) :
    toM (jointSigma Sx Sy M) * toM (jointLambda Lx Ly M) = 1 := by
  rw [toM_jointSigma Sx Sy M hSx, toM_jointLambda Lx Ly M hLy]
  simp only [reindex_apply, submatrix_mul_equiv, Math.joint_cov_mul_prec _ _ _ _ _ hx hy,
    submatrix_one_equiv]

theorem jointLambda_mul_jointSigma (Sx Lx : Mat m m ℝ) (Sy Ly : Mat n n ℝ) (M : Mat n m ℝ)
    (hSx : (toM Sx)ᵀ = toM Sx) (hLy : (toM Ly)ᵀ = toM Ly)
    (hx : toM Sx * toM Lx = 1) (hy : toM Sy * toM Ly = 1) :
    toM (jointLambda Lx Ly M) * toM (jointSigma Sx Sy M) = 1 :=
  mul_eq_one_comm.1 (jointSigma_mul_jointLambda Sx Lx Sy Ly M hSx hLy hx hy)

/-- **B3/A2** for the covariance of `CondB.affineJoint`. -/
theorem det_jointSigma (Sx : Mat m m ℝ) (Sy : Mat n n ℝ) (M : Mat n m ℝ)
    (hSx : (toM Sx)ᵀ = toM Sx) (hd : (toM Sx).det ≠ 0) :
    (toM (jointSigma Sx Sy M)).det = (toM Sx).det * (toM Sy).det := by
  rw [toM_jointSigma Sx Sy M hSx, det_reindex_self]
  exact Math.joint_cov_det _ _ _ hd

/-- **B3/A3** for the precision of `CondB.affineJoint`. -/
theorem det_jointLambda (Lx : Mat m m ℝ) (Ly : Mat n n ℝ) (M : Mat n m ℝ)
    (hLy : (toM Ly)ᵀ = toM Ly) (hd : (toM Ly).det ≠ 0) :
    (toM (jointLambda Lx Ly M)).det = (toM Lx).det * (toM Ly).det := by
  rw [toM_jointLambda Lx Ly M hLy, det_reindex_self]
  exact Math.joint_prec_det _ _ _ hd

end GT

section axioms
#print axioms GT.Math.joint_cov_mul_prec
#print axioms GT.Math.joint_cov_det
#print axioms GT.Math.joint_prec_det
#print axioms GT.Math.marginal_prec_eq_schur
#print axioms GT.Math.cond_cov_eq_inv_prec_block
#print axioms GT.Math.conditioning_of_posDef
#print axioms GT.toM_block
#print axioms GT.toV_vappend
#print axioms GT.toM_joint_cov_mul_prec
#print axioms GT.det_toM_joint_cov
#print axioms GT.det_toM_joint_prec
#print axioms GT.jointSigma_mul_jointLambda
#print axioms GT.jointLambda_mul_jointSigma
#print axioms GT.det_jointSigma
#print axioms GT.det_jointLambda
end axioms
