import Mathlib.Analysis.Matrix.Order
import Mathlib.Analysis.Matrix.PosDef
import Mathlib.Analysis.SpecialFunctions.Log.Basic
/-!
# Non-negativity of the Gaussian Kullback–Leibler divergence (independent of the library)

* `trace_sub_logdet_nonneg` : `0 ≤ tr X - log det X - n` for positive definite `X`;
* `klGauss_nonneg` : the closed form of `KL(N(μ₀,S₀) ‖ N(μ₁,S₁))` is non-negative;
* `klGauss_self` : it vanishes on the diagonal;
* `klGauss_eq_zero_iff` : it vanishes only on the diagonal.
-/
namespace GT.Math

open Matrix
open scoped MatrixOrder

variable {n : Type*} [Fintype n] [DecidableEq n]

/-! ### The scalar inequality, summed over the spectrum -/

theorem trace_sub_logdet_eq_sum (X : Matrix n n ℝ) (hX : X.PosDef) :
    X.trace - Real.log X.det - (Fintype.card n : ℝ)
      = ∑ i, (hX.isHermitian.eigenvalues i - Real.log (hX.isHermitian.eigenvalues i) - 1) := by
  have htr : X.trace = ∑ i, hX.isHermitian.eigenvalues i := by
    simpa using hX.isHermitian.trace_eq_sum_eigenvalues
  have hdet : X.det = ∏ i, hX.isHermitian.eigenvalues i := by
    simpa using hX.isHermitian.det_eq_prod_eigenvalues
  rw [htr, hdet, Real.log_prod (fun i _ => (hX.eigenvalues_pos i).ne')]
  simp [Finset.sum_sub_distrib]

theorem trace_sub_logdet_nonneg (X : Matrix n n ℝ) (hX : X.PosDef) :
    0 ≤ X.trace - Real.log X.det - (Fintype.card n : ℝ) := by
  rw [trace_sub_logdet_eq_sum X hX]
  refine Finset.sum_nonneg fun i _ => ?_
  have := Real.log_le_sub_one_of_pos (hX.eigenvalues_pos i)
  linarith

theorem trace_sub_logdet_eq_zero_iff (X : Matrix n n ℝ) (hX : X.PosDef) :
    X.trace - Real.log X.det - (Fintype.card n : ℝ) = 0 ↔ X = 1 := by
  constructor
  · intro h
    rw [trace_sub_logdet_eq_sum X hX] at h
    have hnn : ∀ i ∈ (Finset.univ : Finset n),
        0 ≤ hX.isHermitian.eigenvalues i - Real.log (hX.isHermitian.eigenvalues i) - 1 := by
      intro i _
      have := Real.log_le_sub_one_of_pos (hX.eigenvalues_pos i)
      linarith
    have hz := (Finset.sum_eq_zero_iff_of_nonneg hnn).1 h
    have hone : hX.isHermitian.eigenvalues = fun _ => 1 := by
      funext i
      by_contra hne
      have := Real.log_lt_sub_one_of_pos (hX.eigenvalues_pos i) hne
      have := hz i (Finset.mem_univ i)
      linarith
    have hs := hX.isHermitian.spectral_theorem
    rw [hone] at hs
    have hd : (diagonal ((RCLike.ofReal : ℝ → ℝ) ∘ fun _ : n => (1 : ℝ))) = (1 : Matrix n n ℝ) := by
      ext i j
      simp [diagonal_apply, one_apply]
    rw [hd, map_one] at hs
    exact hs
  · rintro rfl
    simp

/-! ### The Gaussian KL divergence -/

/-- Closed form of `KL(N(μ₀,S₀) ‖ N(μ₁,S₁))`. -/
noncomputable def klGauss (μ₀ μ₁ : n → ℝ) (S₀ S₁ : Matrix n n ℝ) : ℝ :=
  1/2 * ((S₁⁻¹ * S₀).trace + (μ₁ - μ₀) ⬝ᵥ S₁⁻¹ *ᵥ (μ₁ - μ₀) - (Fintype.card n : ℝ)
    + Real.log S₁.det - Real.log S₀.det)

omit [DecidableEq n] in
theorem quad_nonneg (S : Matrix n n ℝ) (h : S.PosDef) (v : n → ℝ) : 0 ≤ v ⬝ᵥ S *ᵥ v := by
  by_cases hv : v = 0
  · simp [hv]
  · have := h.dotProduct_mulVec_pos hv
    simpa using this.le

omit [DecidableEq n] in
theorem quad_eq_zero_iff (S : Matrix n n ℝ) (h : S.PosDef) (v : n → ℝ) :
    v ⬝ᵥ S *ᵥ v = 0 ↔ v = 0 := by
  constructor
  · intro h0
    by_contra hv
    have := h.dotProduct_mulVec_pos hv
    simp only [star_trivial] at this
    linarith
  · rintro rfl; simp

/-- Whitening: for positive definite `S₀ S₁` there is an invertible `B` with `S₁⁻¹ = Bᵀ B`,
and the trace/log-det part of the KL divergence is that of the positive definite `B S₀ Bᵀ`. -/
theorem exists_whitening (S₀ S₁ : Matrix n n ℝ) (h₀ : S₀.PosDef) (h₁ : S₁.PosDef) :
    ∃ B : Matrix n n ℝ, B.det ≠ 0 ∧ S₁⁻¹ = Bᴴ * B ∧ (B * S₀ * Bᴴ).PosDef ∧
      (B * S₀ * Bᴴ).trace = (S₁⁻¹ * S₀).trace ∧
      Real.log (B * S₀ * Bᴴ).det = Real.log S₀.det - Real.log S₁.det := by
  have hinv : S₁⁻¹.PosDef := h₁.inv
  obtain ⟨B, hB⟩ := CStarAlgebra.nonneg_iff_eq_star_mul_self.mp hinv.posSemidef.nonneg
  have hB' : S₁⁻¹ = Bᴴ * B := by rw [hB]; rfl
  have hd1 : 0 < S₁.det := h₁.det_pos
  have hd0 : 0 < S₀.det := h₀.det_pos
  have hdi : 0 < (S₁⁻¹).det := hinv.det_pos
  have hdet : (S₁⁻¹).det = B.det ^ 2 := by
    rw [hB', det_mul, det_conjTranspose]; simp [sq]
  have hBdet : B.det ≠ 0 := by
    intro h; rw [hdet, h] at hdi; simp at hdi
  have hBu : IsUnit B.det := isUnit_iff_ne_zero.2 hBdet
  have hinj : Function.Injective B.vecMul := by
    intro x y hxy
    have := congrArg (fun v => v ᵥ* B⁻¹) hxy
    simpa [vecMul_vecMul, mul_nonsing_inv _ hBu] using this
  refine ⟨B, hBdet, hB', h₀.mul_mul_conjTranspose_same hinj, ?_, ?_⟩
  · rw [hB', Matrix.mul_assoc, Matrix.trace_mul_comm, Matrix.mul_assoc]
    exact Matrix.trace_mul_comm _ _
  · have : (B * S₀ * Bᴴ).det = S₀.det * (S₁⁻¹).det := by
      rw [hdet, det_mul, det_mul, det_conjTranspose]; simp; ring
    rw [this, det_nonsing_inv, Real.log_mul hd0.ne' (by simpa using hd1.ne'),
      Ring.inverse_eq_inv', Real.log_inv]
    ring

theorem klGauss_nonneg (μ₀ μ₁ : n → ℝ) (S₀ S₁ : Matrix n n ℝ)
    (h₀ : S₀.PosDef) (h₁ : S₁.PosDef) : 0 ≤ klGauss μ₀ μ₁ S₀ S₁ := by
  obtain ⟨B, -, -, hX, htr, hlog⟩ := exists_whitening S₀ S₁ h₀ h₁
  have h1 := trace_sub_logdet_nonneg _ hX
  have h2 := quad_nonneg S₁⁻¹ h₁.inv (μ₁ - μ₀)
  rw [htr, hlog] at h1
  unfold klGauss
  linarith

theorem klGauss_self (μ : n → ℝ) (S : Matrix n n ℝ) (h : S.PosDef) :
    klGauss μ μ S S = 0 := by
  have hu : IsUnit S.det := isUnit_iff_ne_zero.2 h.det_pos.ne'
  unfold klGauss
  rw [nonsing_inv_mul _ hu]
  simp

theorem klGauss_eq_zero_iff (μ₀ μ₁ : n → ℝ) (S₀ S₁ : Matrix n n ℝ)
    (h₀ : S₀.PosDef) (h₁ : S₁.PosDef) :
    klGauss μ₀ μ₁ S₀ S₁ = 0 ↔ μ₀ = μ₁ ∧ S₀ = S₁ := by
  constructor
  · intro h
    obtain ⟨B, hBdet, hB', hX, htr, hlog⟩ := exists_whitening S₀ S₁ h₀ h₁
    have h1 := trace_sub_logdet_nonneg _ hX
    have h2 := quad_nonneg S₁⁻¹ h₁.inv (μ₁ - μ₀)
    unfold klGauss at h
    have hq : (μ₁ - μ₀) ⬝ᵥ S₁⁻¹ *ᵥ (μ₁ - μ₀) = 0 := by
      rw [htr, hlog] at h1; linarith
    have ht : (B * S₀ * Bᴴ).trace - Real.log (B * S₀ * Bᴴ).det - (Fintype.card n : ℝ) = 0 := by
      rw [htr, hlog]; linarith
    have hμ := (quad_eq_zero_iff S₁⁻¹ h₁.inv _).1 hq
    have hX1 := (trace_sub_logdet_eq_zero_iff _ hX).1 ht
    refine ⟨(sub_eq_zero.1 hμ).symm, ?_⟩
    have hBu : IsUnit B.det := isUnit_iff_ne_zero.2 hBdet
    have hBHu : IsUnit (Bᴴ).det := by rw [det_conjTranspose]; simpa using hBu
    have hS1u : IsUnit S₁.det := isUnit_iff_ne_zero.2 h₁.det_pos.ne'
    -- `S₀ = B⁻¹ * (Bᴴ)⁻¹ = (Bᴴ * B)⁻¹ = S₁`
    have e0 : S₀ = B⁻¹ * (B * S₀ * Bᴴ) * (Bᴴ)⁻¹ := by
      rw [Matrix.mul_assoc B, ← Matrix.mul_assoc B⁻¹, nonsing_inv_mul _ hBu, Matrix.one_mul,
        Matrix.mul_assoc, mul_nonsing_inv _ hBHu, Matrix.mul_one]
    rw [hX1, Matrix.mul_one, ← Matrix.mul_inv_rev, ← hB', nonsing_inv_nonsing_inv _ hS1u] at e0
    exact e0
  · rintro ⟨rfl, rfl⟩
    exact klGauss_self _ _ h₀

end GT.Math

#print axioms GT.Math.trace_sub_logdet_nonneg
#print axioms GT.Math.klGauss_nonneg
#print axioms GT.Math.klGauss_self
#print axioms GT.Math.klGauss_eq_zero_iff
