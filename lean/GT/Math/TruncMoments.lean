import GT.Bridge.RealInst
import Mathlib.Probability.CDF
import Mathlib.Probability.Distributions.Gaussian.Real
import Mathlib.MeasureTheory.Integral.IntervalIntegral.FundThmCalculus
import Mathlib.MeasureTheory.Integral.IntegralEqImproper
import Mathlib.MeasureTheory.Measure.Lebesgue.Integral
import Mathlib.MeasureTheory.Measure.Haar.NormedSpace
import Mathlib.Analysis.SpecialFunctions.Gaussian.PoissonSummation
/-!
# Truncated moments of the standard normal density

`φ t = exp(−t²/2)/√(2π)` (`= gaussianPDFReal 0 1 t`), `Phi x = ∫_{−∞}^x φ`.

* `Phi`: continuity, monotonicity, limits, symmetry, `Phi b − Phi a = ∫_a^b φ`.
* moment recursion for `L k = ∫ t^k φ t` over `[a,b]`, `(−∞,b]`, `[a,∞)`, `ℝ`.
* affine substitution and binomial expansion.
-/
namespace GT.Math
open MeasureTheory ProbabilityTheory Set Filter Topology
open scoped NNReal

/-- the standard normal density -/
noncomputable def phi (t : ℝ) : ℝ := gaussianPDFReal 0 1 t

theorem phi_eq (t : ℝ) : phi t = Real.exp (-t ^ 2 / 2) / Real.sqrt (2 * Real.pi) := by
  simp only [phi, gaussianPDFReal, NNReal.coe_one, mul_one, sub_zero]
  rw [div_eq_mul_inv, mul_comm]
  congr 2

theorem phi_pos (t : ℝ) : 0 < phi t := gaussianPDFReal_pos 0 1 t one_ne_zero

theorem phi_neg (t : ℝ) : phi (-t) = phi t := by simp [phi_eq]

theorem hasDerivAt_phi (t : ℝ) : HasDerivAt phi (-t * phi t) t := by
  have h1 : HasDerivAt (fun t : ℝ => -t ^ 2 / 2) (-t) t := by
    have := ((hasDerivAt_pow 2 t).neg).div_const 2
    refine this.congr_deriv ?_
    simp
    ring
  have h2 := (h1.exp).div_const (Real.sqrt (2 * Real.pi))
  have h3 : phi = fun t => Real.exp (-t ^ 2 / 2) / Real.sqrt (2 * Real.pi) := funext phi_eq
  rw [h3]
  refine h2.congr_deriv ?_
  ring

theorem continuous_phi : Continuous phi :=
  continuous_iff_continuousAt.mpr fun t => (hasDerivAt_phi t).continuousAt

theorem integrable_phi : Integrable phi := integrable_gaussianPDFReal 0 1

theorem integral_phi : ∫ t, phi t = 1 := integral_gaussianPDFReal_eq_one 0 one_ne_zero

/-! ## `Phi` -/

theorem Phi_eq_measure (x : ℝ) : Phi x = (gaussianReal 0 1).real (Iic x) := by
  rw [Measure.real, gaussianReal_apply_eq_integral 0 one_ne_zero, ENNReal.toReal_ofReal]
  · rfl
  · exact setIntegral_nonneg measurableSet_Iic fun t _ => gaussianPDFReal_nonneg 0 1 t

theorem Phi_eq_cdf : Phi = cdf (gaussianReal 0 1) := by
  funext x
  rw [Phi_eq_measure, cdf_eq_real]

theorem monotone_Phi : Monotone Phi := by
  rw [Phi_eq_cdf]; exact monotone_cdf _

theorem Phi_nonneg (x : ℝ) : 0 ≤ Phi x := by
  rw [Phi_eq_cdf]; exact cdf_nonneg _ x

theorem Phi_le_one (x : ℝ) : Phi x ≤ 1 := by
  rw [Phi_eq_cdf]; exact cdf_le_one _ x

theorem tendsto_Phi_atBot : Tendsto Phi atBot (𝓝 0) := by
  rw [Phi_eq_cdf]; exact tendsto_cdf_atBot _

theorem tendsto_Phi_atTop : Tendsto Phi atTop (𝓝 1) := by
  rw [Phi_eq_cdf]; exact tendsto_cdf_atTop _

/-- `Phi b − Phi a = ∫_a^b φ` (any order of `a`, `b`) -/
theorem Phi_sub_Phi (a b : ℝ) : Phi b - Phi a = ∫ t in a..b, phi t :=
  intervalIntegral.integral_Iic_sub_Iic integrable_phi.integrableOn integrable_phi.integrableOn

theorem hasDerivAt_Phi (x : ℝ) : HasDerivAt Phi (phi x) x := by
  have h : Phi = fun x => Phi 0 + ∫ t in (0 : ℝ)..x, phi t := by
    funext x; rw [← Phi_sub_Phi]; ring
  rw [h]
  exact (intervalIntegral.integral_hasDerivAt_right (integrable_phi.intervalIntegrable)
    (continuous_phi.stronglyMeasurableAtFilter _ _) continuous_phi.continuousAt).const_add _

theorem continuous_Phi : Continuous Phi :=
  continuous_iff_continuousAt.mpr fun t => (hasDerivAt_Phi t).continuousAt

theorem strictMono_Phi : StrictMono Phi := by
  intro a b hab
  have := intervalIntegral.intervalIntegral_pos_of_pos
    (integrable_phi.intervalIntegrable (a := a) (b := b)) phi_pos hab
  rw [← Phi_sub_Phi] at this
  linarith

/-- the upper tail -/
theorem integral_Ioi_phi (x : ℝ) : ∫ t in Ioi x, phi t = 1 - Phi x := by
  have := intervalIntegral.integral_Iic_add_Ioi (b := x) integrable_phi.integrableOn
    integrable_phi.integrableOn
  rw [integral_phi] at this
  unfold Phi
  unfold phi at this ⊢
  linarith

/-- symmetry of the standard normal cdf -/
theorem Phi_neg (x : ℝ) : Phi (-x) = 1 - Phi x := by
  rw [← integral_Ioi_phi]
  have := integral_comp_neg_Iic (-x) phi
  rw [neg_neg] at this
  rw [← this]
  unfold Phi
  refine setIntegral_congr_fun measurableSet_Iic fun t _ => ?_
  exact (phi_neg t).symm

/-- the mirrored evaluation of the cdf difference -/
theorem Phi_sub_Phi_mirror (a b : ℝ) : Phi (-a) - Phi (-b) = Phi b - Phi a := by
  rw [Phi_neg, Phi_neg]; ring

theorem Phi_lt_one (x : ℝ) : Phi x < 1 := by
  have := Phi_neg x
  have h0 : Phi (x + 1) ≤ 1 := Phi_le_one _
  have := strictMono_Phi (lt_add_one x)
  linarith

theorem Phi_pos (x : ℝ) : 0 < Phi x := by
  have h0 : 0 ≤ Phi (x - 1) := Phi_nonneg _
  have := strictMono_Phi (sub_one_lt x)
  linarith


/-! ## `t^n φ t`: derivative, decay, integrability -/

theorem continuous_pow_mul_phi (n : ℕ) : Continuous fun t : ℝ => t ^ n * phi t :=
  (continuous_pow n).mul continuous_phi

/-- `d/dt (t^n φ t) = n t^(n−1) φ t − t^(n+1) φ t` -/
theorem hasDerivAt_pow_mul_phi (n : ℕ) (t : ℝ) :
    HasDerivAt (fun t : ℝ => t ^ n * phi t) ((n : ℝ) * (t ^ (n - 1) * phi t) - t ^ (n + 1) * phi t) t := by
  refine ((hasDerivAt_pow n t).mul (hasDerivAt_phi t)).congr_deriv ?_
  ring

theorem tendsto_pow_mul_phi_cocompact (n : ℕ) :
    Tendsto (fun t : ℝ => t ^ n * phi t) (cocompact ℝ) (𝓝 0) := by
  rw [tendsto_zero_iff_abs_tendsto_zero]
  have h := (tendsto_rpow_abs_mul_exp_neg_mul_sq_cocompact (a := 1 / 2) (by norm_num) (n : ℝ)).div_const
    (Real.sqrt (2 * Real.pi))
  rw [zero_div] at h
  refine h.congr fun t => ?_
  rw [Function.comp_apply, abs_mul, abs_pow, abs_of_pos (phi_pos t), phi_eq, Real.rpow_natCast]
  rw [mul_div_assoc]
  congr 3
  ring

theorem tendsto_pow_mul_phi_atTop (n : ℕ) : Tendsto (fun t : ℝ => t ^ n * phi t) atTop (𝓝 0) :=
  (tendsto_pow_mul_phi_cocompact n).mono_left atTop_le_cocompact

theorem tendsto_pow_mul_phi_atBot (n : ℕ) : Tendsto (fun t : ℝ => t ^ n * phi t) atBot (𝓝 0) :=
  (tendsto_pow_mul_phi_cocompact n).mono_left atBot_le_cocompact

theorem integrable_pow_mul_phi (k : ℕ) : Integrable fun t : ℝ => t ^ k * phi t := by
  have h := (memLp_id_gaussianReal' (μ := 0) (v := 1) (k : ENNReal) (by simp)).integrable_norm_pow'
  rw [gaussianReal_of_var_ne_zero 0 one_ne_zero,
    integrable_withDensity_iff (measurable_gaussianPDF 0 1) (ae_of_all _ fun _ => gaussianPDF_lt_top)] at h
  refine h.mono (continuous_pow_mul_phi k).aestronglyMeasurable (ae_of_all _ fun t => ?_)
  simp only [toReal_gaussianPDF, id_eq, norm_mul, norm_pow, Real.norm_eq_abs, abs_abs]
  exact le_of_eq rfl


/-! ## moments over a finite interval -/

/-- `L k = ∫_a^b t^k φ t dt` -/
noncomputable def L (a b : ℝ) (k : ℕ) : ℝ := ∫ t in a..b, t ^ k * phi t

theorem L_zero (a b : ℝ) : L a b 0 = Phi b - Phi a := by
  rw [Phi_sub_Phi]; simp [L]

/-- integral of the derivative of `t^n φ t` -/
theorem L_boundary (a b : ℝ) (n : ℕ) :
    (n : ℝ) * L a b (n - 1) - L a b (n + 1) = b ^ n * phi b - a ^ n * phi a := by
  have h := intervalIntegral.integral_eq_sub_of_hasDerivAt (a := a) (b := b)
    (fun t _ => hasDerivAt_pow_mul_phi n t)
    (((integrable_pow_mul_phi (n - 1)).const_mul (n : ℝ)).sub (integrable_pow_mul_phi (n + 1))).intervalIntegrable
  rw [← h, intervalIntegral.integral_sub, intervalIntegral.integral_const_mul]
  · rfl
  · exact ((integrable_pow_mul_phi (n - 1)).const_mul (n : ℝ)).intervalIntegrable
  · exact (integrable_pow_mul_phi (n + 1)).intervalIntegrable

theorem L_one (a b : ℝ) : L a b 1 = phi a - phi b := by
  have := L_boundary a b 0
  simp at this
  linarith

/-- **moment recursion** `L_{k+2} = −(b^{k+1} φ(b) − a^{k+1} φ(a)) + (k+1) L_k` -/
theorem L_succ_succ (a b : ℝ) (k : ℕ) :
    L a b (k + 2) = -(b ^ (k + 1) * phi b - a ^ (k + 1) * phi a) + ((k : ℝ) + 1) * L a b k := by
  have := L_boundary a b (k + 1)
  simp only [Nat.add_sub_cancel, Nat.cast_add, Nat.cast_one] at this
  linarith

theorem L_add_adjacent (a c b : ℝ) (k : ℕ) : L a c k + L c b k = L a b k :=
  intervalIntegral.integral_add_adjacent_intervals (integrable_pow_mul_phi k).intervalIntegrable
    (integrable_pow_mul_phi k).intervalIntegrable

/-! ## moments over a set -/

/-- `∫_S t^k φ t dt` -/
noncomputable def mom (S : Set ℝ) (k : ℕ) : ℝ := ∫ t in S, t ^ k * phi t

theorem mom_Icc {a b : ℝ} (hab : a ≤ b) (k : ℕ) : mom (Icc a b) k = L a b k := by
  rw [mom, L, intervalIntegral.integral_of_le hab, integral_Icc_eq_integral_Ioc]

theorem mom_Iic_boundary (b : ℝ) (n : ℕ) :
    (n : ℝ) * mom (Iic b) (n - 1) - mom (Iic b) (n + 1) = b ^ n * phi b := by
  have h := integral_Iic_of_hasDerivAt_of_tendsto' (a := b) (fun t _ => hasDerivAt_pow_mul_phi n t)
    (((integrable_pow_mul_phi (n - 1)).const_mul (n : ℝ)).sub (integrable_pow_mul_phi (n + 1))).integrableOn
    (tendsto_pow_mul_phi_atBot n)
  rw [sub_zero] at h
  rw [← h, integral_sub, integral_const_mul]
  · rfl
  · exact ((integrable_pow_mul_phi (n - 1)).const_mul (n : ℝ)).integrableOn
  · exact (integrable_pow_mul_phi (n + 1)).integrableOn

theorem mom_Ioi_boundary (a : ℝ) (n : ℕ) :
    (n : ℝ) * mom (Ioi a) (n - 1) - mom (Ioi a) (n + 1) = -(a ^ n * phi a) := by
  have h := integral_Ioi_of_hasDerivAt_of_tendsto' (a := a) (fun t _ => hasDerivAt_pow_mul_phi n t)
    (((integrable_pow_mul_phi (n - 1)).const_mul (n : ℝ)).sub (integrable_pow_mul_phi (n + 1))).integrableOn
    (tendsto_pow_mul_phi_atTop n)
  rw [zero_sub] at h
  rw [← h, integral_sub, integral_const_mul]
  · rfl
  · exact ((integrable_pow_mul_phi (n - 1)).const_mul (n : ℝ)).integrableOn
  · exact (integrable_pow_mul_phi (n + 1)).integrableOn

theorem mom_Ici_eq_Ioi (a : ℝ) (k : ℕ) : mom (Ici a) k = mom (Ioi a) k :=
  integral_Ici_eq_integral_Ioi

theorem mom_univ_boundary (n : ℕ) :
    (n : ℝ) * mom univ (n - 1) - mom univ (n + 1) = 0 := by
  have h := integral_of_hasDerivAt_of_tendsto (fun t => hasDerivAt_pow_mul_phi n t)
    (((integrable_pow_mul_phi (n - 1)).const_mul (n : ℝ)).sub (integrable_pow_mul_phi (n + 1)))
    (tendsto_pow_mul_phi_atBot n) (tendsto_pow_mul_phi_atTop n)
  rw [sub_zero] at h
  simp only [mom, Measure.restrict_univ]
  rw [← h, integral_sub, integral_const_mul]
  · exact ((integrable_pow_mul_phi (n - 1)).const_mul (n : ℝ))
  · exact (integrable_pow_mul_phi (n + 1))

/-! ### the three values/recursions for each shape -/

theorem mom_Iic_zero (b : ℝ) : mom (Iic b) 0 = Phi b := by simp [mom, Phi, phi]
theorem mom_Iic_one (b : ℝ) : mom (Iic b) 1 = -phi b := by
  have := mom_Iic_boundary b 0
  simp at this
  linarith
theorem mom_Iic_succ_succ (b : ℝ) (k : ℕ) :
    mom (Iic b) (k + 2) = -(b ^ (k + 1) * phi b) + ((k : ℝ) + 1) * mom (Iic b) k := by
  have := mom_Iic_boundary b (k + 1)
  simp only [Nat.add_sub_cancel, Nat.cast_add, Nat.cast_one] at this
  linarith

theorem mom_Ici_zero (a : ℝ) : mom (Ici a) 0 = 1 - Phi a := by
  rw [mom_Ici_eq_Ioi, ← integral_Ioi_phi]; simp [mom]
theorem mom_Ici_one (a : ℝ) : mom (Ici a) 1 = phi a := by
  have := mom_Ioi_boundary a 0
  rw [mom_Ici_eq_Ioi]
  simp at this
  linarith
theorem mom_Ici_succ_succ (a : ℝ) (k : ℕ) :
    mom (Ici a) (k + 2) = a ^ (k + 1) * phi a + ((k : ℝ) + 1) * mom (Ici a) k := by
  have := mom_Ioi_boundary a (k + 1)
  simp only [Nat.add_sub_cancel, Nat.cast_add, Nat.cast_one] at this
  rw [mom_Ici_eq_Ioi, mom_Ici_eq_Ioi]
  linarith

theorem mom_univ_zero : mom univ 0 = 1 := by simp [mom, integral_phi]
theorem mom_univ_one : mom univ 1 = 0 := by
  have := mom_univ_boundary 0
  simp at this
  linarith
theorem mom_univ_succ_succ (k : ℕ) : mom univ (k + 2) = ((k : ℝ) + 1) * mom univ k := by
  have := mom_univ_boundary (k + 1)
  simp only [Nat.add_sub_cancel, Nat.cast_add, Nat.cast_one] at this
  linarith

theorem mom_Icc_zero {a b : ℝ} (hab : a ≤ b) : mom (Icc a b) 0 = Phi b - Phi a := by
  rw [mom_Icc hab, L_zero]
theorem mom_Icc_one {a b : ℝ} (hab : a ≤ b) : mom (Icc a b) 1 = phi a - phi b := by
  rw [mom_Icc hab, L_one]
theorem mom_Icc_succ_succ {a b : ℝ} (hab : a ≤ b) (k : ℕ) :
    mom (Icc a b) (k + 2) =
      -(b ^ (k + 1) * phi b - a ^ (k + 1) * phi a) + ((k : ℝ) + 1) * mom (Icc a b) k := by
  rw [mom_Icc hab, mom_Icc hab, L_succ_succ]


/-! ## affine substitution and binomial expansion -/

theorem affine_pow_expand (m s t : ℝ) (k : ℕ) :
    (m + s * t) ^ k * phi t =
      ∑ i ∈ Finset.range (k + 1), ((k.choose i : ℝ) * s ^ i * m ^ (k - i)) * (t ^ i * phi t) := by
  rw [add_comm, add_pow, Finset.sum_mul]
  refine Finset.sum_congr rfl fun i _ => ?_
  rw [mul_pow]
  ring

/-- binomial expansion of the `k`-th moment about `m` with scale `s`, over any set -/
theorem integral_affine_pow_mul_phi (S : Set ℝ) (m s : ℝ) (k : ℕ) :
    ∫ t in S, (m + s * t) ^ k * phi t =
      ∑ i ∈ Finset.range (k + 1), ((k.choose i : ℝ) * s ^ i * m ^ (k - i)) * mom S i := by
  simp_rw [affine_pow_expand]
  rw [integral_finsetSum]
  · refine Finset.sum_congr rfl fun i _ => ?_
    rw [integral_const_mul, mom]
  · intro i _
    exact ((integrable_pow_mul_phi i).const_mul _).integrableOn

/-- the same over an interval `a..b` -/
theorem intervalIntegral_affine_pow_mul_phi (a b m s : ℝ) (k : ℕ) :
    ∫ t in a..b, (m + s * t) ^ k * phi t =
      ∑ i ∈ Finset.range (k + 1), ((k.choose i : ℝ) * s ^ i * m ^ (k - i)) * L a b i := by
  simp_rw [affine_pow_expand]
  rw [intervalIntegral.integral_finsetSum]
  · refine Finset.sum_congr rfl fun i _ => ?_
    rw [intervalIntegral.integral_const_mul, L]
  · intro i _
    exact ((integrable_pow_mul_phi i).const_mul _).intervalIntegrable

/-- substitution `x = m + s t` in a set integral (`s > 0`, `T` measurable) -/
theorem setIntegral_affine_subst (T : Set ℝ) (hT : MeasurableSet T) (G : ℝ → ℝ) (m : ℝ) {s : ℝ}
    (hs : 0 < s) :
    ∫ x in T, G x = s * ∫ t in (fun t => m + s * t) ⁻¹' T, G (m + s * t) := by
  have hpre : MeasurableSet ((fun t => m + s * t) ⁻¹' T) :=
    hT.preimage (measurable_const.add (measurable_const.mul measurable_id))
  rw [← integral_indicator hT, ← integral_indicator hpre]
  have h1 : ∀ t, ((fun t => m + s * t) ⁻¹' T).indicator (fun t => G (m + s * t)) t =
      T.indicator G (m + s * t) := fun t =>
    Set.indicator_comp_right (s := T) (fun t => m + s * t) (g := G) (x := t)
  simp_rw [h1]
  have h2 := Measure.integral_comp_mul_left (fun y => T.indicator G (m + y)) s
  rw [h2, integral_add_left_eq_self (μ := volume) (T.indicator G) m, abs_of_pos (inv_pos.mpr hs), smul_eq_mul,
    ← mul_assoc, mul_inv_cancel₀ hs.ne', one_mul]

/-- **A.4 over a set**: `∫_T x^k φ((x−m)/s)/s dx = Σ_i C(k,i) s^i m^{k−i} ∫_S t^i φ(t) dt`,
`S = {t | m + s t ∈ T}`. -/
theorem setIntegral_pow_mul_scaled_phi (T : Set ℝ) (hT : MeasurableSet T) (m : ℝ) {s : ℝ} (hs : 0 < s)
    (k : ℕ) :
    ∫ x in T, x ^ k * (phi ((x - m) / s) / s) =
      ∑ i ∈ Finset.range (k + 1),
        ((k.choose i : ℝ) * s ^ i * m ^ (k - i)) * mom ((fun t => m + s * t) ⁻¹' T) i := by
  rw [setIntegral_affine_subst T hT _ m hs, ← integral_affine_pow_mul_phi, ← integral_const_mul]
  refine integral_congr_ae (ae_of_all _ fun t => ?_)
  have : (m + s * t - m) / s = t := by rw [add_sub_cancel_left, mul_div_cancel_left₀ _ hs.ne']
  simp only [this]
  field_simp

/-- **A.4 over an interval** -/
theorem intervalIntegral_pow_mul_scaled_phi (a b m : ℝ) {s : ℝ} (hs : 0 < s) (k : ℕ) :
    ∫ x in (m + s * a)..(m + s * b), x ^ k * (phi ((x - m) / s) / s) =
      ∑ i ∈ Finset.range (k + 1), ((k.choose i : ℝ) * s ^ i * m ^ (k - i)) * L a b i := by
  have h := intervalIntegral.integral_comp_add_mul (a := a) (b := b)
    (fun x => x ^ k * (phi ((x - m) / s) / s)) hs.ne' m
  rw [smul_eq_mul] at h
  have h' : ∫ x in (m + s * a)..(m + s * b), x ^ k * (phi ((x - m) / s) / s) =
      s * ∫ t in a..b, (m + s * t) ^ k * (phi ((m + s * t - m) / s) / s) := by
    rw [h, ← mul_assoc, mul_inv_cancel₀ hs.ne', one_mul]
  rw [h', ← intervalIntegral_affine_pow_mul_phi, ← intervalIntegral.integral_const_mul]
  refine intervalIntegral.integral_congr fun t _ => ?_
  have : (m + s * t - m) / s = t := by rw [add_sub_cancel_left, mul_div_cancel_left₀ _ hs.ne']
  simp only [this]
  field_simp

/-- integrability of the scaled and shifted moments integrand -/
theorem integrable_pow_mul_scaled_phi (m : ℝ) {s : ℝ} (hs : s ≠ 0) (k : ℕ) :
    Integrable fun x : ℝ => x ^ k * (phi ((x - m) / s) / s) := by
  have hg : Integrable fun τ : ℝ => (m + s * τ) ^ k * phi τ := by
    simp_rw [affine_pow_expand]
    exact integrable_finsetSum _ fun i _ => (integrable_pow_mul_phi i).const_mul _
  have h2 := ((hg.comp_div hs).comp_sub_right m).const_mul (1 / s)
  refine h2.congr (ae_of_all _ fun x => ?_)
  have : m + s * ((x - m) / s) = x := by field_simp; ring
  simp only [this]
  ring

/-- moments over a set split at a point -/
theorem setIntegral_inter_Iic_add_inter_Ici (S : Set ℝ) (c : ℝ) (f : ℝ → ℝ) (hf : IntegrableOn f S) :
    (∫ x in S ∩ Iic c, f x) + ∫ x in S ∩ Ici c, f x = ∫ x in S, f x := by
  have h1 := integral_inter_add_sdiff (measurableSet_Iic (a := c)) hf
  have h2 : ∫ x in S ∩ Ici c, f x = ∫ x in S \ Iic c, f x := by
    apply setIntegral_congr_set
    have : S \ Iic c = S ∩ Ioi c := by ext x; simp
    rw [this]
    exact (Filter.EventuallyEq.refl _ S).inter Ioi_ae_eq_Ici.symm
  rw [h2]
  exact h1

/-! ## non-vacuity and axioms -/

/-- the second moment of the standard normal over `[−1, 1]`, by the recursion -/
example : L (-1) 1 2 = -(2 * phi 1) + (Phi 1 - Phi (-1)) := by
  rw [L_succ_succ, L_zero, phi_neg]
  norm_num
  ring

/-- the variance of the standard normal, by the recursion -/
example : mom univ 2 = 1 := by
  have := mom_univ_succ_succ 0
  simpa [mom_univ_zero] using this

end GT.Math

#print axioms GT.Math.Phi_neg
#print axioms GT.Math.Phi_sub_Phi
#print axioms GT.Math.strictMono_Phi
#print axioms GT.Math.L_succ_succ
#print axioms GT.Math.mom_Iic_succ_succ
#print axioms GT.Math.mom_Ici_succ_succ
#print axioms GT.Math.mom_univ_succ_succ
#print axioms GT.Math.setIntegral_pow_mul_scaled_phi
#print axioms GT.Math.intervalIntegral_pow_mul_scaled_phi
#print axioms GT.Math.L_zero
#print axioms GT.Math.L_one
#print axioms GT.Math.tendsto_Phi_atBot
#print axioms GT.Math.tendsto_Phi_atTop
#print axioms GT.Math.continuous_Phi
#print axioms GT.Math.integrable_pow_mul_scaled_phi
#print axioms GT.Math.setIntegral_inter_Iic_add_inter_Ici
