import Mathlib.Analysis.SpecialFunctions.Trigonometric.DerivHyp
import Mathlib.Analysis.SpecialFunctions.Log.Deriv
import Mathlib.Analysis.SpecialFunctions.Log.Basic
import Mathlib.Analysis.Calculus.Deriv.MeanValue
/-!
# M10 — the scalar inequalities behind the variational lower bounds

* `logcosh_quadratic_bound` (Jaakkola–Jordan): `log cosh h ≤ log cosh ω + tanh ω/(2ω) (h² − ω²)`
  for every real `h` and every `ω ≠ 0`, with equality at `h = ±ω`;
* `logcosh_half_quadratic_bound`: the `h/2` form used for the logistic function;
* consequences in the form the library uses them:
  `log1p_exp_le` (`log(1+eʰ)`), `logistic_ge` (`eʰ/(1+eʰ)`), `inv_cosh_ge` (`1/cosh h`);
* `log_one_add_tangent_bound`: tangent (concavity) bound of `log(1+u)`;
* `exp_tangent_bound`: tangent (convexity) bound of `exp`.
-/
namespace GT.Math
open Real Set

/-! ## the Jaakkola–Jordan bound -/

theorem self_le_sinh_mul_cosh (t : ℝ) (ht : 0 ≤ t) : t ≤ sinh t * cosh t := by
  have h1 : t ≤ sinh t := self_le_sinh_iff.2 ht
  have h2 : 1 ≤ cosh t := one_le_cosh t
  have h3 : 0 ≤ sinh t := sinh_nonneg_iff.2 ht
  nlinarith

/-- `ψ t = sinh t / (t * cosh t) = tanh t / t` is antitone on `(0, ∞)`. -/
theorem tanh_div_self_antitoneOn : AntitoneOn (fun t : ℝ => sinh t / (t * cosh t)) (Ioi 0) := by
  have hden : ∀ t ∈ Ioi (0:ℝ), t * cosh t ≠ 0 := fun t ht =>
    mul_ne_zero (ne_of_gt ht) (ne_of_gt (cosh_pos t))
  have hderiv : ∀ t ∈ Ioi (0:ℝ), HasDerivAt (fun t : ℝ => sinh t / (t * cosh t))
      ((cosh t * (t * cosh t) - sinh t * (1 * cosh t + t * sinh t)) / (t * cosh t) ^ 2) t := by
    intro t ht
    exact (hasDerivAt_sinh t).div ((hasDerivAt_id t).mul (hasDerivAt_cosh t)) (hden t ht)
  refine antitoneOn_of_deriv_nonpos (convex_Ioi 0) ?_ ?_ ?_
  · intro t ht; exact (hderiv t ht).continuousAt.continuousWithinAt
  · intro t ht; rw [interior_Ioi] at ht
    exact (hderiv t ht).differentiableAt.differentiableWithinAt
  · intro t ht; rw [interior_Ioi] at ht
    rw [(hderiv t ht).deriv]
    apply div_nonpos_of_nonpos_of_nonneg _ (sq_nonneg _)
    have := self_le_sinh_mul_cosh t (le_of_lt ht)
    have hcs : cosh t ^ 2 - sinh t ^ 2 = 1 := by rw [cosh_sq t]; ring
    have hnum : cosh t * (t * cosh t) - sinh t * (1 * cosh t + t * sinh t)
        = t * (cosh t ^ 2 - sinh t ^ 2) - sinh t * cosh t := by ring
    rw [hnum, hcs]; linarith

/-- the bound for `ω > 0`, slope written as `sinh ω / (ω cosh ω) / 2` -/
theorem log_cosh_le_aux (h ω : ℝ) (hω : 0 < ω) :
    log (cosh h) ≤ log (cosh ω) + (sinh ω / (ω * cosh ω)) / 2 * (h ^ 2 - ω ^ 2) := by
  wlog hh : 0 ≤ h generalizing h
  · have := this (-h) (by linarith)
    simpa [cosh_neg] using this
  set c : ℝ := sinh ω / (ω * cosh ω) with hc
  let G : ℝ → ℝ := fun t => log (cosh ω) + c / 2 * (t ^ 2 - ω ^ 2) - log (cosh t)
  have hG' : ∀ t, HasDerivAt G (c * t - sinh t / cosh t) t := by
    intro t
    have h1 : HasDerivAt (fun t : ℝ => c / 2 * (t ^ 2 - ω ^ 2)) (c * t) t :=
      ((((hasDerivAt_pow 2 t).sub_const (ω ^ 2)).const_mul (c / 2))).congr_deriv (by push_cast; ring)
    have h2 : HasDerivAt (fun t : ℝ => log (cosh t)) (sinh t / cosh t) t :=
      (hasDerivAt_cosh t).log (ne_of_gt (cosh_pos t))
    exact ((h1.const_add (log (cosh ω))).sub h2)
  have hGω : G ω = 0 := by simp [G]
  have hsign_le : ∀ t, 0 < t → t ≤ ω → c * t - sinh t / cosh t ≤ 0 := by
    intro t ht htω
    have := tanh_div_self_antitoneOn (mem_Ioi.2 ht) (mem_Ioi.2 hω) htω
    simp only at this
    have hct : 0 < cosh t := cosh_pos t
    have h3 : c * t ≤ sinh t / cosh t := by
      have : c ≤ sinh t / (t * cosh t) := by rw [hc]; exact this
      calc c * t ≤ sinh t / (t * cosh t) * t := by gcongr
        _ = sinh t / cosh t := by field_simp
    linarith
  have hsign_ge : ∀ t, ω ≤ t → 0 ≤ c * t - sinh t / cosh t := by
    intro t htω
    have ht : 0 < t := lt_of_lt_of_le hω htω
    have := tanh_div_self_antitoneOn (mem_Ioi.2 hω) (mem_Ioi.2 ht) htω
    simp only at this
    have hct : 0 < cosh t := cosh_pos t
    have h3 : sinh t / cosh t ≤ c * t := by
      calc sinh t / cosh t = sinh t / (t * cosh t) * t := by field_simp
        _ ≤ c * t := by gcongr
    linarith
  have hanti : AntitoneOn G (Icc 0 ω) := by
    refine antitoneOn_of_deriv_nonpos (convex_Icc 0 ω) ?_ ?_ ?_
    · intro t _; exact (hG' t).continuousAt.continuousWithinAt
    · intro t _; exact (hG' t).differentiableAt.differentiableWithinAt
    · intro t ht; rw [interior_Icc] at ht
      rw [(hG' t).deriv]; exact hsign_le t ht.1 (le_of_lt ht.2)
  have hmono : MonotoneOn G (Ici ω) := by
    refine monotoneOn_of_deriv_nonneg (convex_Ici ω) ?_ ?_ ?_
    · intro t _; exact (hG' t).continuousAt.continuousWithinAt
    · intro t _; exact (hG' t).differentiableAt.differentiableWithinAt
    · intro t ht; rw [interior_Ici] at ht
      rw [(hG' t).deriv]; exact hsign_ge t (le_of_lt ht)
  have hGh : 0 ≤ G h := by
    rcases le_total h ω with hle | hge
    · have := hanti ⟨hh, hle⟩ ⟨le_of_lt hω, le_refl ω⟩ hle
      linarith
    · have := hmono (mem_Ici.2 (le_refl ω)) (mem_Ici.2 hge) hge
      linarith
  simp only [G] at hGh
  linarith

/-- **Jaakkola–Jordan bound** (A1): for every real `h` and every `ω ≠ 0`,
`log cosh h ≤ log cosh ω + tanh ω / (2ω) · (h² − ω²)`. -/
theorem logcosh_quadratic_bound (h ω : ℝ) (hω : ω ≠ 0) :
    log (cosh h) ≤ log (cosh ω) + tanh ω / (2 * ω) * (h ^ 2 - ω ^ 2) := by
  rcases lt_or_gt_of_ne hω with hneg | hpos
  · have := log_cosh_le_aux h (-ω) (by linarith)
    have hc : cosh ω ≠ 0 := (cosh_pos ω).ne'
    have e : sinh (-ω) / (-ω * cosh (-ω)) / 2 = tanh ω / (2 * ω) := by
      rw [sinh_neg, cosh_neg, tanh_eq_sinh_div_cosh]; field_simp
    rw [e, cosh_neg, neg_sq] at this
    exact this
  · have := log_cosh_le_aux h ω hpos
    have hc : cosh ω ≠ 0 := (cosh_pos ω).ne'
    have e : sinh ω / (ω * cosh ω) / 2 = tanh ω / (2 * ω) := by
      rw [tanh_eq_sinh_div_cosh]; field_simp
    rw [e] at this
    exact this

/-- equality at `h = ω` -/
theorem logcosh_quadratic_bound_eq (ω : ℝ) :
    log (cosh ω) = log (cosh ω) + tanh ω / (2 * ω) * (ω ^ 2 - ω ^ 2) := by ring

/-- equality at `h = −ω` -/
theorem logcosh_quadratic_bound_eq_neg (ω : ℝ) :
    log (cosh (-ω)) = log (cosh ω) + tanh ω / (2 * ω) * ((-ω) ^ 2 - ω ^ 2) := by
  rw [cosh_neg]; ring

/-- equality whenever `h² = ω²` (the two tangent points) -/
theorem logcosh_quadratic_bound_eq_of_sq (h ω : ℝ) (hh : h ^ 2 = ω ^ 2) :
    log (cosh h) = log (cosh ω) + tanh ω / (2 * ω) * (h ^ 2 - ω ^ 2) := by
  have : cosh h = cosh ω := by
    rcases sq_eq_sq_iff_eq_or_eq_neg.1 hh with e | e
    · rw [e]
    · rw [e, cosh_neg]
  rw [this, hh]; ring

/-- (A2) the `h/2` form: `log cosh(h/2) ≤ log cosh(ω/2) + tanh(ω/2)/(4ω) · (h² − ω²)`. -/
theorem logcosh_half_quadratic_bound (h ω : ℝ) (hω : ω ≠ 0) :
    log (cosh (h / 2)) ≤ log (cosh (ω / 2)) + tanh (ω / 2) / (4 * ω) * (h ^ 2 - ω ^ 2) := by
  have := logcosh_quadratic_bound (h / 2) (ω / 2) (by intro h0; apply hω; linarith)
  have e : tanh (ω / 2) / (2 * (ω / 2)) * ((h / 2) ^ 2 - (ω / 2) ^ 2)
      = tanh (ω / 2) / (4 * ω) * (h ^ 2 - ω ^ 2) := by
    field_simp; ring
  rw [e] at this
  exact this

theorem logcosh_half_quadratic_bound_eq_of_sq (h ω : ℝ) (hh : h ^ 2 = ω ^ 2) :
    log (cosh (h / 2)) = log (cosh (ω / 2)) + tanh (ω / 2) / (4 * ω) * (h ^ 2 - ω ^ 2) := by
  have : cosh (h / 2) = cosh (ω / 2) := by
    rcases sq_eq_sq_iff_eq_or_eq_neg.1 hh with e | e
    · rw [e]
    · rw [e, neg_div, cosh_neg]
  rw [this, hh]; ring

/-- `tanh t / t ≥ 0` for every real `t` (the curvature `g` of the Gaussian-form bounds is
non-negative) -/
theorem tanh_div_self_nonneg (t : ℝ) : 0 ≤ tanh t / t := by
  rw [tanh_eq_sinh_div_cosh]
  have hc := cosh_pos t
  rcases le_total 0 t with h | h
  · exact div_nonneg (div_nonneg (sinh_nonneg_iff.2 h) hc.le) h
  · exact div_nonneg_of_nonpos (div_nonpos_of_nonpos_of_nonneg (sinh_nonpos_iff.2 h) hc.le) h

/-! ## the forms used by the exp and cosh−1 links -/

/-- `1 + eʰ = e^{h/2} · 2 cosh(h/2)` -/
theorem one_add_exp_eq (h : ℝ) : 1 + exp h = exp (h / 2) * (2 * cosh (h / 2)) := by
  rw [cosh_eq]
  have e1 : exp (h / 2) * exp (h / 2) = exp h := by rw [← exp_add]; congr 1; ring
  have e2 : exp (h / 2) * exp (-(h / 2)) = 1 := by rw [← exp_add]; simp
  linear_combination (-1 : ℝ) * e1 - e2

/-- `log(1 + eʰ) = h/2 + log cosh(h/2) + log 2` (softplus) -/
theorem log_one_add_exp (h : ℝ) : log (1 + exp h) = h / 2 + log (cosh (h / 2)) + log 2 := by
  rw [one_add_exp_eq, log_mul (exp_pos _).ne' (by have := cosh_pos (h / 2); positivity),
    log_exp, log_mul (by norm_num) (cosh_pos _).ne']
  ring

/-- upper bound of the softplus: `log(1+eʰ) ≤ h/2 + log cosh(ω/2) + log 2 + tanh(ω/2)/(4ω)(h²−ω²)` -/
theorem log1p_exp_le (h ω : ℝ) (hω : ω ≠ 0) :
    log (1 + exp h) ≤ h / 2 + (log (cosh (ω / 2)) + log 2) + tanh (ω / 2) / (4 * ω) * (h ^ 2 - ω ^ 2) := by
  rw [log_one_add_exp]
  have := logcosh_half_quadratic_bound h ω hω
  linarith

theorem log1p_exp_eq_of_sq (h ω : ℝ) (hh : h ^ 2 = ω ^ 2) :
    log (1 + exp h) = h / 2 + (log (cosh (ω / 2)) + log 2) + tanh (ω / 2) / (4 * ω) * (h ^ 2 - ω ^ 2) := by
  rw [log_one_add_exp, logcosh_half_quadratic_bound_eq_of_sq h ω hh]; ring

/-- lower bound of the logistic function by a Gaussian form:
`eʰ/(1+eʰ) ≥ exp(h/2 − log cosh(ω/2) − log 2 − tanh(ω/2)/(4ω)(h²−ω²))` -/
theorem logistic_ge (h ω : ℝ) (hω : ω ≠ 0) :
    exp (h / 2 - (log (cosh (ω / 2)) + log 2) - tanh (ω / 2) / (4 * ω) * (h ^ 2 - ω ^ 2))
      ≤ exp h / (1 + exp h) := by
  have hpos : 0 < 1 + exp h := by have := exp_pos h; linarith
  have e : exp h / (1 + exp h) = exp (h - log (1 + exp h)) := by
    rw [exp_sub, exp_log hpos]
  rw [e]
  apply exp_le_exp.2
  have := log1p_exp_le h ω hω
  linarith

theorem logistic_eq_of_sq (h ω : ℝ) (hh : h ^ 2 = ω ^ 2) :
    exp (h / 2 - (log (cosh (ω / 2)) + log 2) - tanh (ω / 2) / (4 * ω) * (h ^ 2 - ω ^ 2))
      = exp h / (1 + exp h) := by
  have hpos : 0 < 1 + exp h := by have := exp_pos h; linarith
  have e : exp h / (1 + exp h) = exp (h - log (1 + exp h)) := by
    rw [exp_sub, exp_log hpos]
  rw [e, log1p_exp_eq_of_sq h ω hh]
  congr 1; ring

/-- lower bound of `1/cosh h` by a Gaussian form -/
theorem inv_cosh_ge (h ω : ℝ) (hω : ω ≠ 0) :
    exp (-log (cosh ω) - tanh ω / (2 * ω) * (h ^ 2 - ω ^ 2)) ≤ 1 / cosh h := by
  have e : 1 / cosh h = exp (-log (cosh h)) := by
    rw [exp_neg, exp_log (cosh_pos h), one_div]
  rw [e]
  apply exp_le_exp.2
  have := logcosh_quadratic_bound h ω hω
  linarith

theorem inv_cosh_eq_of_sq (h ω : ℝ) (hh : h ^ 2 = ω ^ 2) :
    exp (-log (cosh ω) - tanh ω / (2 * ω) * (h ^ 2 - ω ^ 2)) = 1 / cosh h := by
  have e : 1 / cosh h = exp (-log (cosh h)) := by
    rw [exp_neg, exp_log (cosh_pos h), one_div]
  rw [e, logcosh_quadratic_bound_eq_of_sq h ω hh]
  congr 1; ring

/-! ## tangent bounds of `log` and `exp` -/

/-- (A3) concavity of the logarithm: the tangent of `u ↦ log(1+u)` at `ω` lies above it. -/
theorem log_one_add_tangent_bound (u ω : ℝ) (hu : 0 ≤ u) (hω : 0 ≤ ω) :
    log (1 + u) ≤ log (1 + ω) + (u - ω) / (1 + ω) := by
  have h1 : 0 < 1 + u := by linarith
  have h2 : 0 < 1 + ω := by linarith
  have := log_le_sub_one_of_pos (div_pos h1 h2)
  rw [log_div h1.ne' h2.ne'] at this
  have e : (1 + u) / (1 + ω) - 1 = (u - ω) / (1 + ω) := by field_simp; ring
  linarith

theorem log_one_add_tangent_bound_eq (ω : ℝ) :
    log (1 + ω) = log (1 + ω) + (ω - ω) / (1 + ω) := by simp

/-- (A4) convexity of the exponential: the tangent at `s` lies below it. -/
theorem exp_tangent_bound (t s : ℝ) : exp s + exp s * (t - s) ≤ exp t := by
  have h := add_one_le_exp (t - s)
  have e : exp t = exp s * exp (t - s) := by rw [← exp_add]; congr 1; ring
  rw [e]
  have hs := exp_pos s
  nlinarith

theorem exp_tangent_bound_eq (s : ℝ) : exp s + exp s * (s - s) = exp s := by simp

/-! ## non-vacuity -/

example : log (cosh 3) ≤ log (cosh 1) + tanh 1 / (2 * 1) * ((3:ℝ) ^ 2 - 1 ^ 2) :=
  logcosh_quadratic_bound 3 1 one_ne_zero

example : log (1 + 5) ≤ log (1 + 2) + ((5:ℝ) - 2) / (1 + 2) :=
  log_one_add_tangent_bound 5 2 (by norm_num) (by norm_num)

end GT.Math

#print axioms GT.Math.logcosh_quadratic_bound
#print axioms GT.Math.logcosh_half_quadratic_bound
#print axioms GT.Math.log1p_exp_le
#print axioms GT.Math.logistic_ge
#print axioms GT.Math.inv_cosh_ge
#print axioms GT.Math.log_one_add_tangent_bound
#print axioms GT.Math.exp_tangent_bound
