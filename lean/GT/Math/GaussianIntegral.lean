import Mathlib.Analysis.SpecialFunctions.Gaussian.FourierTransform
import Mathlib.Analysis.Matrix.Order
import Mathlib.MeasureTheory.Measure.Lebesgue.Basic
/-!
# M1 — the multivariate Gaussian integral over `n → ℝ` (independent of the library)
-/
namespace GT.Math

open MeasureTheory Matrix Real
open scoped MatrixOrder

variable {n : Type*} [Fintype n] [DecidableEq n]

omit [DecidableEq n] in
theorem integral_rexp_neg_half_sum_add (c : n → ℝ) :
    ∫ v : n → ℝ, rexp (-(1/2) * ∑ i, (v i) ^ 2 + ∑ i, c i * v i)
      = (2 * π) ^ ((Fintype.card n : ℝ) / 2) * rexp ((∑ i, c i ^ 2) / 2) := by
  have h := GaussianFourier.integral_cexp_neg_mul_sum_add (b := (1/2 : ℂ)) (ι := n)
    (by norm_num) (fun i => (c i : ℂ))
  have e1 : ∀ v : n → ℝ, Complex.exp (-(1/2 : ℂ) * ∑ i, (v i : ℂ) ^ 2 + ∑ i, (c i : ℂ) * v i)
      = ((rexp (-(1/2) * ∑ i, (v i) ^ 2 + ∑ i, c i * v i) : ℝ) : ℂ) := by
    intro v; push_cast; rfl
  simp_rw [e1] at h
  rw [integral_complex_ofReal] at h
  have e2 : ((π : ℂ) / (1/2 : ℂ)) = ((2 * π : ℝ) : ℂ) := by push_cast; ring
  have e3 : (Fintype.card n / 2 : ℂ) = (((Fintype.card n : ℝ) / 2 : ℝ) : ℂ) := by push_cast; ring
  have e4 : Complex.exp ((∑ i, (c i : ℂ) ^ 2) / (4 * (1/2 : ℂ))) = ((rexp ((∑ i, c i ^ 2) / 2) : ℝ) : ℂ) := by
    push_cast; congr 1; ring
  rw [e2, e3, e4, ← Complex.ofReal_cpow (by positivity), ← Complex.ofReal_mul] at h
  exact_mod_cast h

theorem integral_comp_mulVec (B : Matrix n n ℝ) (hB : B.det ≠ 0) (g : (n → ℝ) → ℝ) (hg : Continuous g) :
    ∫ x : n → ℝ, g (B *ᵥ x) = |B.det|⁻¹ * ∫ y : n → ℝ, g y := by
  have hmap := Real.map_matrix_volume_pi_eq_smul_volume_pi hB
  have hmeas : Measurable (toLin' B) := (LinearMap.continuous_on_pi _).measurable
  have : ∫ x : n → ℝ, g (B *ᵥ x) = ∫ y, g y ∂(Measure.map (toLin' B) volume) := by
    rw [integral_map hmeas.aemeasurable hg.aestronglyMeasurable]
    simp [toLin'_apply]
  rw [this, hmap, integral_smul_measure, abs_inv]
  simp [ENNReal.toReal_ofReal (inv_nonneg.2 (abs_nonneg _))]

theorem gaussian_integral_of_factor (B : Matrix n n ℝ) (hB : B.det ≠ 0) (ν : n → ℝ) :
    ∫ x : n → ℝ, rexp (-(1/2) * (x ⬝ᵥ (Bᵀ * B) *ᵥ x) + ν ⬝ᵥ x)
      = |B.det|⁻¹ * ((2 * π) ^ ((Fintype.card n : ℝ) / 2)
          * rexp ((ν ⬝ᵥ (Bᵀ * B)⁻¹ *ᵥ ν) / 2)) := by
  have hBu : IsUnit B.det := isUnit_iff_ne_zero.2 hB
  set c : n → ℝ := (B⁻¹)ᵀ *ᵥ ν with hc
  have key : ∀ x : n → ℝ, -(1/2) * (x ⬝ᵥ (Bᵀ * B) *ᵥ x) + ν ⬝ᵥ x
      = -(1/2) * ∑ i, ((B *ᵥ x) i) ^ 2 + ∑ i, c i * (B *ᵥ x) i := by
    intro x
    have h1 : x ⬝ᵥ (Bᵀ * B) *ᵥ x = (B *ᵥ x) ⬝ᵥ (B *ᵥ x) := by
      rw [← mulVec_mulVec, dotProduct_mulVec, vecMul_transpose]
    have h2 : ν ⬝ᵥ x = c ⬝ᵥ (B *ᵥ x) := by
      rw [hc, dotProduct_mulVec, vecMul_mulVec, transpose_transpose,
        nonsing_inv_mul _ hBu, vecMul_one]
    rw [h1, h2]; simp [dotProduct, sq]
  simp_rw [key]
  rw [integral_comp_mulVec B hB (fun y => rexp (-(1/2) * ∑ i, (y i) ^ 2 + ∑ i, c i * y i))
    (by fun_prop), integral_rexp_neg_half_sum_add]
  congr 3
  have : (Bᵀ * B)⁻¹ = B⁻¹ * (B⁻¹)ᵀ := by
    rw [Matrix.mul_inv_rev, transpose_nonsing_inv]
  rw [this, ← mulVec_mulVec, dotProduct_mulVec, ← mulVec_transpose, ← hc]
  simp [dotProduct, sq]

/-- **M1**: multivariate Gaussian integral for a positive definite precision matrix, log form. -/
theorem gaussian_integral_posDef (Λ : Matrix n n ℝ) (hΛ : Λ.PosDef) (ν : n → ℝ) :
    ∫ x : n → ℝ, rexp (-(1/2) * (x ⬝ᵥ Λ *ᵥ x) + ν ⬝ᵥ x)
      = rexp ((1/2) * (ν ⬝ᵥ Λ⁻¹ *ᵥ ν + (Fintype.card n : ℝ) * Real.log (2 * π) - Real.log Λ.det)) := by
  obtain ⟨B, hB⟩ := CStarAlgebra.nonneg_iff_eq_star_mul_self.mp hΛ.posSemidef.nonneg
  have hB' : Λ = Bᵀ * B := by rw [hB]; rfl
  have hdetΛ : 0 < Λ.det := hΛ.det_pos
  have hdet : Λ.det = B.det ^ 2 := by rw [hB', det_mul, det_transpose]; ring
  have hBdet : B.det ≠ 0 := by
    intro h; rw [hdet, h] at hdetΛ; simp at hdetΛ
  subst hB'
  rw [gaussian_integral_of_factor B hBdet ν]
  have h2π : (0:ℝ) < 2 * π := by positivity
  have habs : (0:ℝ) < |B.det| := abs_pos.2 hBdet
  have hinv : |B.det|⁻¹ = rexp (-(1/2) * Real.log ((Bᵀ * B).det)) := by
    rw [hdet, ← sq_abs, Real.log_pow]
    have : -(1/2 : ℝ) * (((2:ℕ):ℝ) * Real.log |B.det|) = -Real.log |B.det| := by push_cast; ring
    rw [this, Real.exp_neg, Real.exp_log habs]
  rw [hinv, Real.rpow_def_of_pos h2π, ← Real.exp_add, ← Real.exp_add]
  congr 1; ring

end GT.Math
