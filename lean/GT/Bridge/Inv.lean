import GT.Model.Pdf
import GT.Bridge.BackendSpec
/-!
# The consistency invariant of measures/densities and its preservation by the cache-filling
operations (helper lemmas for C02 and C04)
-/
namespace GT
open Matrix

variable {R R1 R2 Ro D : Nat}

/-- the Gaussian log-normaliser `½(νᵀΛ⁻¹ν + D log 2π − log det Λ)` -/
noncomputable def lnZRef (L : Matrix (Fin D) (Fin D) ℝ) (ν : Fin D → ℝ) : ℝ :=
  1 / 2 * (ν ⬝ᵥ L⁻¹ *ᵥ ν + (D : ℝ) * Real.log (2 * Real.pi) - Real.log L.det)

/-- covariance cache consistent with a precision matrix -/
structure CovOK (L S : Matrix (Fin D) (Fin D) ℝ) (ld : ℝ) : Prop where
  inv : S = L⁻¹
  logdet : ld = Real.log S.det

theorem CovOK.logdet_neg {L S : Matrix (Fin D) (Fin D) ℝ} {ld : ℝ} (h : CovOK L S ld) :
    ld = -Real.log L.det := by
  rw [h.logdet, h.inv, Matrix.det_nonsing_inv, Ring.inverse_eq_inv', Real.log_inv]

/-- **Invariant** (C04): whatever is cached next to `(Λ, ν)` is what it should be. -/
structure MeasureB.Inv (m : MeasureB R D ℝ) : Prop where
  posDef : ∀ r, (toM (m.Lambda r)).PosDef
  diagOK : m.cls.isDiag = true → ∀ r i j, i ≠ j → m.Lambda r i j = 0
  cov : ∀ c, m.cov = some c → ∀ r, CovOK (toM (m.Lambda r)) (toM (c.Sigma r)) (c.lnDetSigma r)
  lnDetLambda : ∀ l, m.lnDetLambda = some l → ∀ r, l r = Real.log (toM (m.Lambda r)).det
  mu : ∀ mu, m.mu = some mu → ∀ r, toV (mu r) = (toM (m.Lambda r))⁻¹ *ᵥ toV (m.nu r)
  lnZ : ∀ z, m.lnZ = some z → ∀ r, z r = lnZRef (toM (m.Lambda r)) (toV (m.nu r))
  /-- `lnZ` and `mu` are only ever computed from the covariance, which is then kept -/
  covOfLnZ : m.lnZ.isSome → m.cov.isSome
  covOfMu : m.mu.isSome → m.cov.isSome

theorem invertBatch_spec {be : Backend ℝ} (hbe : be.Spec) (diag : Bool) (A : Arr R (Mat D D ℝ))
    (hA : ∀ r, (toM (A r)).PosDef) (hd : diag = true → ∀ r i j, i ≠ j → A r i j = 0) (r : Fin R) :
    toM ((invertBatch be diag A).1 r) = (toM (A r))⁻¹ ∧
      (invertBatch be diag A).2 r = Real.log (toM (A r)).det := by
  simp only [invertBatch, tab_apply]
  cases diag with
  | true =>
    have hp : ∀ i, 0 < A r i i := fun i => by
      have := (hA r).diag_pos (i := i)
      simpa using this
    simpa using invertDiagonal_spec (A r) (hd rfl r) hp
  | false => simpa using invertMatrix_spec hbe (A r) (hA r)

theorem inv_mk0 (cls : MCls) (L : Arr R (Mat D D ℝ)) (nu : Arr R (Vec D ℝ)) (lb : Arr R ℝ)
    (hL : ∀ r, (toM (L r)).PosDef) (hd : cls.isDiag = true → ∀ r i j, i ≠ j → L r i j = 0) :
    (MeasureB.mk0 cls L nu lb).Inv :=
  ⟨hL, hd, by simp [MeasureB.mk0], by simp [MeasureB.mk0], by simp [MeasureB.mk0], by simp [MeasureB.mk0],
    by simp [MeasureB.mk0], by simp [MeasureB.mk0]⟩

section
variable {be : Backend ℝ} {m : MeasureB R D ℝ}

theorem ensureCov_fst_Lambda : (m.ensureCov be).1.Lambda = m.Lambda := by
  unfold MeasureB.ensureCov; split <;> rfl
theorem ensureCov_fst_nu : (m.ensureCov be).1.nu = m.nu := by
  unfold MeasureB.ensureCov; split <;> rfl
theorem ensureCov_fst_lnBeta : (m.ensureCov be).1.lnBeta = m.lnBeta := by
  unfold MeasureB.ensureCov; split <;> rfl
theorem ensureCov_fst_cov : (m.ensureCov be).1.cov = some (m.ensureCov be).2 := by
  unfold MeasureB.ensureCov; split
  · assumption
  · rfl
theorem ensureCov_fst_lnZ : (m.ensureCov be).1.lnZ = m.lnZ := by
  unfold MeasureB.ensureCov; split <;> rfl
theorem ensureCov_fst_mu : (m.ensureCov be).1.mu = m.mu := by
  unfold MeasureB.ensureCov; split <;> rfl
theorem computeMu_fst_lnZ : (m.computeMu be).1.lnZ = m.lnZ := by
  simp [MeasureB.computeMu, ensureCov_fst_lnZ]
theorem computeLnZ_fst_mu : (m.computeLnZ be).1.mu = m.mu := by
  simp [MeasureB.computeLnZ, ensureCov_fst_mu]
theorem computeLnZ_fst_Lambda : (m.computeLnZ be).1.Lambda = m.Lambda := by
  simp [MeasureB.computeLnZ, ensureCov_fst_Lambda]
theorem computeLnZ_fst_nu : (m.computeLnZ be).1.nu = m.nu := by
  simp [MeasureB.computeLnZ, ensureCov_fst_nu]
theorem computeLnZ_fst_lnBeta : (m.computeLnZ be).1.lnBeta = m.lnBeta := by
  simp [MeasureB.computeLnZ, ensureCov_fst_lnBeta]
theorem computeLnZ_fst_lnZ : (m.computeLnZ be).1.lnZ = some (m.computeLnZ be).2 := by
  simp [MeasureB.computeLnZ]
theorem computeMu_fst_Lambda : (m.computeMu be).1.Lambda = m.Lambda := by
  simp [MeasureB.computeMu, ensureCov_fst_Lambda]
theorem computeMu_fst_nu : (m.computeMu be).1.nu = m.nu := by
  simp [MeasureB.computeMu, ensureCov_fst_nu]
theorem computeMu_fst_lnBeta : (m.computeMu be).1.lnBeta = m.lnBeta := by
  simp [MeasureB.computeMu, ensureCov_fst_lnBeta]
theorem ensureLnZ_Lambda : (m.ensureLnZ be).Lambda = m.Lambda := by
  unfold MeasureB.ensureLnZ; split <;> simp [computeLnZ_fst_Lambda]
theorem ensureLnZ_nu : (m.ensureLnZ be).nu = m.nu := by
  unfold MeasureB.ensureLnZ; split <;> simp [computeLnZ_fst_nu]
theorem ensureLnZ_lnBeta : (m.ensureLnZ be).lnBeta = m.lnBeta := by
  unfold MeasureB.ensureLnZ; split <;> simp [computeLnZ_fst_lnBeta]
theorem ensureMu_Lambda : (m.ensureMu be).Lambda = m.Lambda := by
  unfold MeasureB.ensureMu; split <;> simp [computeMu_fst_Lambda]
theorem ensureMu_nu : (m.ensureMu be).nu = m.nu := by
  unfold MeasureB.ensureMu; split <;> simp [computeMu_fst_nu]
theorem ensureMu_lnBeta : (m.ensureMu be).lnBeta = m.lnBeta := by
  unfold MeasureB.ensureMu; split <;> simp [computeMu_fst_lnBeta]
theorem prepare_Lambda : (m.prepare be).Lambda = m.Lambda := by
  simp [MeasureB.prepare, ensureMu_Lambda, ensureLnZ_Lambda]
theorem prepare_nu : (m.prepare be).nu = m.nu := by
  simp [MeasureB.prepare, ensureMu_nu, ensureLnZ_nu]
theorem prepare_lnBeta : (m.prepare be).lnBeta = m.lnBeta := by
  simp [MeasureB.prepare, ensureMu_lnBeta, ensureLnZ_lnBeta]

variable (hbe : be.Spec)
include hbe

theorem invertLambda_covOK (h : m.Inv) (r : Fin R) :
    CovOK (toM (m.Lambda r)) (toM ((m.invertLambda be).2.Sigma r)) ((m.invertLambda be).2.lnDetSigma r) := by
  have hs := invertBatch_spec hbe m.cls.isDiag m.Lambda h.posDef h.diagOK r
  simp only [MeasureB.invertLambda, tab_apply]
  refine ⟨hs.1, ?_⟩
  rw [hs.2, hs.1, Matrix.det_nonsing_inv, Ring.inverse_eq_inv', Real.log_inv]

theorem inv_invertLambda (h : m.Inv) : (m.invertLambda be).1.Inv := by
  refine ⟨h.posDef, h.diagOK, ?_, ?_, h.mu, h.lnZ, by simp [MeasureB.invertLambda], by simp [MeasureB.invertLambda]⟩
  · intro c hc r
    simp only [MeasureB.invertLambda] at hc
    cases hc
    exact invertLambda_covOK hbe h r
  · intro l hl r
    simp only [MeasureB.invertLambda] at hl
    cases hl
    exact (invertBatch_spec hbe m.cls.isDiag m.Lambda h.posDef h.diagOK r).2

theorem inv_ensureCov (h : m.Inv) : (m.ensureCov be).1.Inv := by
  unfold MeasureB.ensureCov
  split
  · exact h
  · exact inv_invertLambda hbe h

theorem ensureCov_covOK (h : m.Inv) (r : Fin R) :
    CovOK (toM (m.Lambda r)) (toM ((m.ensureCov be).2.Sigma r)) ((m.ensureCov be).2.lnDetSigma r) := by
  unfold MeasureB.ensureCov
  split
  · next c hc => exact h.cov c hc r
  · exact invertLambda_covOK hbe h r

/-- `compute_lnZ` returns the Gaussian log-normaliser -/
theorem computeLnZ_value (h : m.Inv) (r : Fin R) :
    (m.computeLnZ be).2 r = lnZRef (toM (m.Lambda r)) (toV (m.nu r)) := by
  have hc := ensureCov_covOK hbe h r
  simp only [MeasureB.computeLnZ, tab_apply, half_real, ofNat_real, log2pi_real]
  rw [ensureCov_fst_nu, hc.logdet_neg, dot_eq, toV_mulVec, hc.inv]
  simp only [lnZRef]
  ring

theorem inv_computeLnZ (h : m.Inv) : (m.computeLnZ be).1.Inv := by
  have h1 := inv_ensureCov hbe h
  refine ⟨?_, ?_, ?_, ?_, ?_, ?_, ?_, ?_⟩
  · intro r; simpa [MeasureB.computeLnZ] using h1.posDef r
  · simpa [MeasureB.computeLnZ] using h1.diagOK
  · simpa [MeasureB.computeLnZ] using h1.cov
  · simpa [MeasureB.computeLnZ] using h1.lnDetLambda
  · simpa [MeasureB.computeLnZ] using h1.mu
  rotate_left
  · intro _; simp [MeasureB.computeLnZ, ensureCov_fst_cov]
  · intro _; simp [MeasureB.computeLnZ, ensureCov_fst_cov]
  · intro z hz r
    have hv := computeLnZ_value hbe h r
    simp only [MeasureB.computeLnZ] at hz hv ⊢
    cases hz
    simp only [ensureCov_fst_Lambda, ensureCov_fst_nu] at hv ⊢
    exact hv

theorem computeMu_value (h : m.Inv) (r : Fin R) :
    toV ((m.computeMu be).2 r) = (toM (m.Lambda r))⁻¹ *ᵥ toV (m.nu r) := by
  have hc := ensureCov_covOK hbe h r
  simp only [MeasureB.computeMu, tab_apply, toV_mulVec]
  rw [ensureCov_fst_nu, hc.inv]

theorem inv_computeMu (h : m.Inv) : (m.computeMu be).1.Inv := by
  have h1 := inv_ensureCov hbe h
  refine ⟨?_, ?_, ?_, ?_, ?_, ?_, ?_, ?_⟩
  · intro r; simpa [MeasureB.computeMu] using h1.posDef r
  · simpa [MeasureB.computeMu] using h1.diagOK
  · simpa [MeasureB.computeMu] using h1.cov
  · simpa [MeasureB.computeMu] using h1.lnDetLambda
  rotate_left 2
  · intro _; simp [MeasureB.computeMu, ensureCov_fst_cov]
  · intro _; simp [MeasureB.computeMu, ensureCov_fst_cov]
  · intro mu hmu r
    have hv := computeMu_value hbe h r
    simp only [MeasureB.computeMu] at hmu hv ⊢
    cases hmu
    simp only [ensureCov_fst_Lambda, ensureCov_fst_nu] at hv ⊢
    exact hv
  · simpa [MeasureB.computeMu] using h1.lnZ

theorem inv_ensureLnZ (h : m.Inv) : (m.ensureLnZ be).Inv := by
  unfold MeasureB.ensureLnZ
  split
  · exact h
  · exact inv_computeLnZ hbe h

theorem inv_ensureMu (h : m.Inv) : (m.ensureMu be).Inv := by
  unfold MeasureB.ensureMu
  split
  · exact h
  · exact inv_computeMu hbe h

theorem inv_prepare (h : m.Inv) : (m.prepare be).Inv :=
  inv_ensureMu hbe (inv_ensureLnZ hbe h)

theorem inv_normalize (h : m.Inv) : (m.normalize be).Inv := by
  have h1 := inv_computeLnZ hbe h
  exact ⟨h1.posDef, h1.diagOK, h1.cov, h1.lnDetLambda, h1.mu, h1.lnZ, h1.covOfLnZ, h1.covOfMu⟩

end
end GT
