import GT.Model.Tensor
import Mathlib.Algebra.BigOperators.Fin
import Mathlib.Algebra.BigOperators.Ring.Finset
import Mathlib.Data.Real.Basic
import Mathlib.Tactic.Ring
/-!
# Bridge: the model's tensors are finite functions; its sums are `Finset` sums
-/
namespace GT

namespace Arr
variable {β : Type} {n : Nat}

@[simp] theorem get_ofFn (f : Fin n → β) (i : Fin n) : (Arr.ofFn f) i = f i := by
  simp [Arr.get, Arr.ofFn]

@[ext] theorem ext {a b : Arr n β} (h : ∀ i, a i = b i) : a = b := by
  cases a with | mk da ha =>
  cases b with | mk db hb =>
  have : da = db := by
    apply Array.ext (by rw [ha, hb])
    intro i h1 h2
    have := h ⟨i, by rw [← ha]; exact h1⟩
    simpa [Arr.get] using this
  subst this; rfl

theorem ofFn_get (a : Arr n β) : Arr.ofFn (fun i => a i) = a := by
  ext i; simp
end Arr

@[simp] theorem tab_apply {β : Type} {n : Nat} (f : Fin n → β) (i : Fin n) : (tab f) i = f i :=
  Arr.get_ofFn f i
@[simp] theorem tab2_apply {β : Type} {m n : Nat} (f : Fin m → Fin n → β) (i : Fin m) (j : Fin n) :
    (tab2 f) i j = f i j := by simp [tab2]
@[simp] theorem tab3_apply {β : Type} {r m n : Nat} (f : Fin r → Fin m → Fin n → β) (k : Fin r)
    (i : Fin m) (j : Fin n) : (tab3 f) k i j = f k i j := by simp [tab3]

/-- the model's fold is the `Finset` sum -/
theorem vsum_eq_sum {M : Type} [AddCommMonoid M] {n : Nat} (f : Fin n → M) :
    @vsum M ⟨(· + ·)⟩ ⟨0⟩ n f = ∑ i, f i := by
  unfold vsum
  rw [← List.sum_ofFn, List.sum_eq_foldl]

@[simp] theorem vsum_real {n : Nat} (f : Fin n → ℝ) : vsum f = ∑ i, f i := by
  unfold vsum
  rw [← List.sum_ofFn, List.sum_eq_foldl]

section real
variable {m n k : Nat}

@[simp] theorem dot_real (u v : Vec n ℝ) : dot u v = ∑ i, u i * v i := by simp [dot]
@[simp] theorem mulVec_apply (A : Mat m n ℝ) (v : Vec n ℝ) (i : Fin m) :
    (mulVec A v) i = ∑ j, A i j * v j := by simp [mulVec]
@[simp] theorem vecMul_apply (v : Vec m ℝ) (A : Mat m n ℝ) (j : Fin n) :
    (vecMul v A) j = ∑ i, v i * A i j := by simp [vecMul]
@[simp] theorem mmul_apply (A : Mat m n ℝ) (B : Mat n k ℝ) (i : Fin m) (j : Fin k) :
    (mmul A B) i j = ∑ l, A i l * B l j := by simp [mmul]
@[simp] theorem transpose_apply (A : Mat m n ℝ) (i : Fin n) (j : Fin m) : (transpose A) i j = A j i := by
  simp [transpose]
@[simp] theorem trace_real (A : Mat n n ℝ) : trace A = ∑ i, A i i := by simp [trace]
@[simp] theorem outer_apply (u : Vec m ℝ) (v : Vec n ℝ) (i : Fin m) (j : Fin n) :
    (outer u v) i j = u i * v j := by simp [outer]
@[simp] theorem eye_apply (i j : Fin n) : (eye : Mat n n ℝ) i j = if i = j then 1 else 0 := by simp [eye]
@[simp] theorem zeroV_apply (i : Fin n) : (zeroV : Vec n ℝ) i = 0 := by simp [zeroV]
@[simp] theorem zeroM_apply (i : Fin m) (j : Fin n) : (zeroM : Mat m n ℝ) i j = 0 := by simp [zeroM]
@[simp] theorem madd_apply (A B : Mat m n ℝ) (i : Fin m) (j : Fin n) : (madd A B) i j = A i j + B i j := by
  simp [madd]
@[simp] theorem msub_apply (A B : Mat m n ℝ) (i : Fin m) (j : Fin n) : (msub A B) i j = A i j - B i j := by
  simp [msub]
@[simp] theorem mneg_apply (A : Mat m n ℝ) (i : Fin m) (j : Fin n) : (mneg A) i j = -(A i j) := by
  simp [mneg]
@[simp] theorem vadd_apply (u v : Vec n ℝ) (i : Fin n) : (vadd u v) i = u i + v i := by simp [vadd]
@[simp] theorem vsub_apply (u v : Vec n ℝ) (i : Fin n) : (vsub u v) i = u i - v i := by simp [vsub]
@[simp] theorem vneg_apply (u : Vec n ℝ) (i : Fin n) : (vneg u) i = -(u i) := by simp [vneg]
@[simp] theorem smulV_apply (c : ℝ) (u : Vec n ℝ) (i : Fin n) : (smulV c u) i = c * u i := by simp [smulV]
@[simp] theorem smulM_apply (c : ℝ) (A : Mat m n ℝ) (i : Fin m) (j : Fin n) :
    (smulM c A) i j = c * A i j := by simp [smulM]
@[simp] theorem quad_real (A : Mat n n ℝ) (x : Vec n ℝ) : quad A x = ∑ i, (∑ j, A i j * x j) * x i := by
  simp [quad]

@[simp] theorem half_real : (half : ℝ) = 1 / 2 := by simp [half, two]; norm_num
@[simp] theorem two_real : (two : ℝ) = 2 := by simp [two]; norm_num
@[simp] theorem ofNat_real (n : Nat) : (ofNat n : ℝ) = (n : ℝ) := by
  induction n with
  | zero => simp [ofNat]
  | succ n ih => simp [ofNat, ih]

end real
end GT
