import GT.Bridge.Basic
import Mathlib.Analysis.SpecialFunctions.Log.Basic
import Mathlib.Analysis.SpecialFunctions.Pow.Real
import Mathlib.Analysis.SpecialFunctions.Trigonometric.Basic
import Mathlib.Analysis.SpecialFunctions.Trigonometric.DerivHyp
import Mathlib.Probability.Distributions.Gaussian.Real
/-!
# `Transc ℝ`: the mathematical meaning of the transcendental primitives
-/
namespace GT
open MeasureTheory ProbabilityTheory

/-- standard normal cdf as the integral of the standard normal density -/
noncomputable def Phi (x : ℝ) : ℝ := ∫ t in Set.Iic x, gaussianPDFReal 0 1 t

noncomputable instance : Transc ℝ where
  log := Real.log
  exp := Real.exp
  sqrt := Real.sqrt
  pi := Real.pi
  normCdf := Phi
  normLogCdf := fun x => Real.log (Phi x)
  tanh := Real.tanh
  cosh := Real.cosh
  lt := fun a b => decide (a < b)
  nan := 0

@[simp] theorem transc_log (x : ℝ) : Transc.log x = Real.log x := rfl
@[simp] theorem transc_exp (x : ℝ) : Transc.exp x = Real.exp x := rfl
@[simp] theorem transc_sqrt (x : ℝ) : Transc.sqrt x = Real.sqrt x := rfl
@[simp] theorem transc_pi : (Transc.pi : ℝ) = Real.pi := rfl
@[simp] theorem transc_lt (a b : ℝ) : Transc.lt a b = decide (a < b) := rfl
@[simp] theorem log2pi_real : (log2pi : ℝ) = Real.log (2 * Real.pi) := by simp [log2pi]

end GT
