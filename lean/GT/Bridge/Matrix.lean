import GT.Bridge.Basic
import Mathlib.Data.Matrix.Mul
import Mathlib.LinearAlgebra.Matrix.NonsingularInverse
import Mathlib.LinearAlgebra.Matrix.Trace
/-!
# Bridge: model matrices/vectors as Mathlib `Matrix` / functions
-/
namespace GT
open Matrix

variable {m n k : Nat}

/-- a model matrix as a Mathlib matrix -/
def toM (A : Mat m n ℝ) : Matrix (Fin m) (Fin n) ℝ := Matrix.of fun i j => A i j
/-- a model vector as a function -/
def toV (v : Vec n ℝ) : Fin n → ℝ := fun i => v i

@[simp] theorem toM_apply (A : Mat m n ℝ) (i : Fin m) (j : Fin n) : toM A i j = A i j := rfl
@[simp] theorem toV_apply (v : Vec n ℝ) (i : Fin n) : toV v i = v i := rfl

theorem toM_injective : Function.Injective (toM : Mat m n ℝ → Matrix (Fin m) (Fin n) ℝ) := by
  intro A B h
  ext i j
  have := congrFun (congrFun h i) j
  simpa using this

theorem toV_injective : Function.Injective (toV : Vec n ℝ → Fin n → ℝ) := by
  intro u v h
  ext i
  exact congrFun h i

/-- a Mathlib matrix as a model matrix -/
def ofM (A : Matrix (Fin m) (Fin n) ℝ) : Mat m n ℝ := tab2 fun i j => A i j
def ofV (v : Fin n → ℝ) : Vec n ℝ := tab fun i => v i
@[simp] theorem toM_ofM (A : Matrix (Fin m) (Fin n) ℝ) : toM (ofM A) = A := by ext i j; simp [ofM]
@[simp] theorem toV_ofV (v : Fin n → ℝ) : toV (ofV v) = v := by ext i; simp [ofV]
@[simp] theorem ofM_toM (A : Mat m n ℝ) : ofM (toM A) = A := by ext i j; simp [ofM]
@[simp] theorem ofV_toV (v : Vec n ℝ) : ofV (toV v) = v := by ext i; simp [ofV]

@[simp] theorem toM_mmul (A : Mat m n ℝ) (B : Mat n k ℝ) : toM (mmul A B) = toM A * toM B := by
  ext i j; simp [Matrix.mul_apply]
@[simp] theorem toM_transpose (A : Mat m n ℝ) : toM (transpose A) = (toM A)ᵀ := by
  ext i j; simp
@[simp] theorem toM_madd (A B : Mat m n ℝ) : toM (madd A B) = toM A + toM B := by ext i j; simp
@[simp] theorem toM_msub (A B : Mat m n ℝ) : toM (msub A B) = toM A - toM B := by ext i j; simp
@[simp] theorem toM_mneg (A : Mat m n ℝ) : toM (mneg A) = -toM A := by ext i j; simp
@[simp] theorem toM_eye : toM (eye : Mat n n ℝ) = 1 := by ext i j; simp [Matrix.one_apply]
@[simp] theorem toM_zeroM : toM (zeroM : Mat m n ℝ) = 0 := by ext i j; simp
@[simp] theorem toM_smulM (c : ℝ) (A : Mat m n ℝ) : toM (smulM c A) = c • toM A := by ext i j; simp
@[simp] theorem toM_outer (u : Vec m ℝ) (v : Vec n ℝ) : toM (outer u v) = vecMulVec (toV u) (toV v) := by
  ext i j; simp [vecMulVec_apply]
@[simp] theorem toV_mulVec (A : Mat m n ℝ) (v : Vec n ℝ) : toV (mulVec A v) = toM A *ᵥ toV v := by
  ext i; simp [Matrix.mulVec, dotProduct]
@[simp] theorem toV_vecMul (v : Vec m ℝ) (A : Mat m n ℝ) : toV (vecMul v A) = toV v ᵥ* toM A := by
  ext i; simp [Matrix.vecMul, dotProduct]
@[simp] theorem toV_vadd (u v : Vec n ℝ) : toV (vadd u v) = toV u + toV v := by ext i; simp
@[simp] theorem toV_vsub (u v : Vec n ℝ) : toV (vsub u v) = toV u - toV v := by ext i; simp
@[simp] theorem toV_vneg (u : Vec n ℝ) : toV (vneg u) = -toV u := by ext i; simp
@[simp] theorem toV_smulV (c : ℝ) (u : Vec n ℝ) : toV (smulV c u) = c • toV u := by ext i; simp
@[simp] theorem toV_zeroV : toV (zeroV : Vec n ℝ) = 0 := by ext i; simp
theorem dot_eq (u v : Vec n ℝ) : dot u v = toV u ⬝ᵥ toV v := by simp [dotProduct]
theorem trace_eq (A : Mat n n ℝ) : trace A = Matrix.trace (toM A) := by simp [Matrix.trace]
theorem quad_eq (A : Mat n n ℝ) (x : Vec n ℝ) : quad A x = toV x ⬝ᵥ toM A *ᵥ toV x := by
  simp [dotProduct, Matrix.mulVec, mul_comm]

end GT
