import GT.Model.Conditional
import GT.Bridge.Normal
/-!
# `PdfOK`: what every constructed density view satisfies, and the view of a constructed density

`PdfOK p` says that the stored `Sigma`, `Lambda`, `ln_det_Sigma` of the density view `p` are
consistent.  `mkPdf_asPdf` shows that the object returned by the density constructor always has
the view, with the `Sigma`, `mu` handed to the constructor, and that the view is `PdfOK`.
-/
namespace GT
open Matrix

variable {R D : Nat}

/-- consistency of the covariance data of a density view -/
structure PdfOK (p : PdfV R D ℝ) : Prop where
  posDef : ∀ r, (toM (p.Sigma r)).PosDef
  lambda : ∀ r, toM (p.Lambda r) = (toM (p.Sigma r))⁻¹
  lnDet : ∀ r, p.lnDetSigma r = Real.log (toM (p.Sigma r)).det

/-- the diagonal class stores a diagonal covariance -/
def PdfDiagOK (p : PdfV R D ℝ) : Prop :=
  p.diag = true → ∀ r i j, i ≠ j → p.Sigma r i j = 0

theorem PdfOK.sigma_symm {p : PdfV R D ℝ} (h : PdfOK p) (r : Fin R) :
    (toM (p.Sigma r))ᵀ = toM (p.Sigma r) := by
  rw [← Matrix.conjTranspose_eq_transpose_of_trivial]; exact (h.posDef r).isHermitian

theorem PdfOK.lambda_symm {p : PdfV R D ℝ} (h : PdfOK p) (r : Fin R) :
    (toM (p.Lambda r))ᵀ = toM (p.Lambda r) := by
  rw [h.lambda r, ← Matrix.conjTranspose_eq_transpose_of_trivial]; exact (h.posDef r).inv.isHermitian

theorem PdfOK.sigma_mul_lambda {p : PdfV R D ℝ} (h : PdfOK p) (r : Fin R) :
    toM (p.Sigma r) * toM (p.Lambda r) = 1 := by
  rw [h.lambda r, Matrix.mul_nonsing_inv _ (h.posDef r).det_pos.ne'.isUnit]

theorem PdfOK.lambda_mul_sigma {p : PdfV R D ℝ} (h : PdfOK p) (r : Fin R) :
    toM (p.Lambda r) * toM (p.Sigma r) = 1 := by
  rw [h.lambda r, Matrix.nonsing_inv_mul _ (h.posDef r).det_pos.ne'.isUnit]

/-! ## the cached fields of a constructed density -/

variable {be : Backend ℝ}

theorem mkPdf_cov (diag : Bool) (Sigma : Arr R (Mat D D ℝ)) (mu : Arr R (Vec D ℝ))
    (Lambda : Option (Arr R (Mat D D ℝ))) (lnDetSigma : Option (Arr R ℝ)) :
    (mkPdf be diag Sigma mu Lambda lnDetSigma).cov =
      some ⟨Sigma, (pdfPrecision be diag Sigma Lambda lnDetSigma).2⟩ := by
  simp [mkPdf, pdfPre, MeasureB.prepare, MeasureB.ensureLnZ, MeasureB.computeLnZ, MeasureB.ensureCov,
    MeasureB.ensureMu, MeasureB.normalize]

theorem mkPdf_mu (diag : Bool) (Sigma : Arr R (Mat D D ℝ)) (mu : Arr R (Vec D ℝ))
    (Lambda : Option (Arr R (Mat D D ℝ))) (lnDetSigma : Option (Arr R ℝ)) :
    (mkPdf be diag Sigma mu Lambda lnDetSigma).mu = some mu := by
  simp [mkPdf, pdfPre, MeasureB.prepare, MeasureB.ensureLnZ, MeasureB.computeLnZ, MeasureB.ensureCov,
    MeasureB.ensureMu, MeasureB.normalize]

theorem mkPdf_lnZ_isSome (diag : Bool) (Sigma : Arr R (Mat D D ℝ)) (mu : Arr R (Vec D ℝ))
    (Lambda : Option (Arr R (Mat D D ℝ))) (lnDetSigma : Option (Arr R ℝ)) :
    (mkPdf be diag Sigma mu Lambda lnDetSigma).lnZ.isSome := by
  simp [mkPdf, MeasureB.normalize, MeasureB.computeLnZ]

/-- **the view of a constructed density always exists** and carries the `Sigma`, `mu` given to the
constructor and the `ln_det_Sigma` chosen by `__post_init__` (no hypothesis needed) -/
theorem mkPdf_asPdf (diag : Bool) (Sigma : Arr R (Mat D D ℝ)) (mu : Arr R (Vec D ℝ))
    (Lambda : Option (Arr R (Mat D D ℝ))) (lnDetSigma : Option (Arr R ℝ)) :
    ∃ j : PdfV R D ℝ, (mkPdf be diag Sigma mu Lambda lnDetSigma).asPdf = some j ∧
      j.Sigma = Sigma ∧ j.mu = mu ∧
      j.lnDetSigma = (pdfPrecision be diag Sigma Lambda lnDetSigma).2 ∧
      j.Lambda = (mkPdf be diag Sigma mu Lambda lnDetSigma).Lambda ∧
      j.nu = (mkPdf be diag Sigma mu Lambda lnDetSigma).nu ∧
      j.lnBeta = (mkPdf be diag Sigma mu Lambda lnDetSigma).lnBeta ∧
      j.diag = (mkPdf be diag Sigma mu Lambda lnDetSigma).cls.isDiag := by
  have hz := mkPdf_lnZ_isSome (be := be) diag Sigma mu Lambda lnDetSigma
  obtain ⟨z, hz⟩ := Option.isSome_iff_exists.1 hz
  set m := mkPdf be diag Sigma mu Lambda lnDetSigma with hm
  refine ⟨⟨m.cls.isDiag, m.Lambda, m.nu, m.lnBeta, Sigma,
    (pdfPrecision be diag Sigma Lambda lnDetSigma).2, mu, z⟩, ?_, rfl, rfl, rfl, rfl, rfl, rfl, rfl⟩
  unfold MeasureB.asPdf
  rw [hm, mkPdf_cov, mkPdf_mu, ← hm, hz]

/-- the class tag of a constructed density -/
theorem mkPdf_cls (diag : Bool) (Sigma : Arr R (Mat D D ℝ)) (mu : Arr R (Vec D ℝ))
    (Lambda : Option (Arr R (Mat D D ℝ))) (lnDetSigma : Option (Arr R ℝ)) :
    (mkPdf be diag Sigma mu Lambda lnDetSigma).cls.isDiag = diag := by
  cases diag <;>
  simp [mkPdf, pdfPre, MeasureB.prepare, MeasureB.ensureLnZ, MeasureB.computeLnZ, MeasureB.ensureCov,
    MeasureB.ensureMu, MeasureB.normalize, MCls.isDiag]

/-- under the constructor's preconditions the view is consistent -/
theorem mkPdf_asPdf_ok (hbe : be.Spec) (diag : Bool) (Sigma : Arr R (Mat D D ℝ)) (mu : Arr R (Vec D ℝ))
    (Lambda : Option (Arr R (Mat D D ℝ))) (lnDetSigma : Option (Arr R ℝ))
    (h : Props.C02.PdfArgsOK diag Sigma Lambda lnDetSigma) :
    ∃ j : PdfV R D ℝ, (mkPdf be diag Sigma mu Lambda lnDetSigma).asPdf = some j ∧
      j.Sigma = Sigma ∧ j.mu = mu ∧ j.diag = diag ∧ PdfOK j ∧ PdfDiagOK j := by
  obtain ⟨j, hj, hS, hmu, hld, hL, -, -, hdg⟩ := mkPdf_asPdf (be := be) diag Sigma mu Lambda lnDetSigma
  have hdg' : j.diag = diag := by rw [hdg, mkPdf_cls]
  refine ⟨j, hj, hS, hmu, hdg', ⟨?_, ?_, ?_⟩, ?_⟩
  · intro r; rw [hS]; exact h.posDef r
  · intro r
    rw [hS, hL]
    exact (mkPdf_params hbe diag Sigma mu Lambda lnDetSigma h r).1
  · intro r
    rw [hld, hS]
    exact (Props.C02.pdfPrecision_spec hbe diag Sigma Lambda lnDetSigma h r).2
  · intro hd r i j' hij
    rw [hS]
    exact h.diagOK (hdg' ▸ hd) r i j' hij

end GT
