import GT.Bridge.Normal
import GT.Math.Block
import Mathlib.Tactic.LinearCombination
/-!
# Well-formed prior densities (`PdfFullOK`) and the Gaussian product rule in block form

Part A (`GT.Math`, pure Mathlib): completing the square for a block quadratic form
(`schur_quad`), the block quadratic form (`fromBlocks_quad`), and the determinant of a block
covariance through the precision block (`block_cov_det`).

Part B (`GT`): `jointLn` (log-density of a Gaussian over `Fin Ka ⊕ Fin Kb` in block form) and the
**product rule** `normalLn_cond_add_marginal`:  `ln N(xa | xb) + ln N(xb) = ln N(xa, xb)`.

Part C: `PdfFullOK p` — what every view `p : PdfV R D ℝ` of a constructed density satisfies, and
`PdfV.evalLn_eq_normalLn`.

Shared by `GT/Props/C09.lean` and `GT/Props/C06.lean`.
-/

namespace GT.Math
open Matrix

section
variable {a b : Type*} [Fintype a] [Fintype b] [DecidableEq a] [DecidableEq b]

omit [DecidableEq a] [DecidableEq b] in
/-- the quadratic form of a block matrix -/
theorem fromBlocks_quad (A : Matrix a a ℝ) (B : Matrix a b ℝ) (C : Matrix b a ℝ) (D : Matrix b b ℝ)
    (u : a → ℝ) (v : b → ℝ) :
    Sum.elim u v ⬝ᵥ fromBlocks A B C D *ᵥ Sum.elim u v =
      u ⬝ᵥ A *ᵥ u + u ⬝ᵥ B *ᵥ v + v ⬝ᵥ C *ᵥ u + v ⬝ᵥ D *ᵥ v := by
  rw [fromBlocks_mulVec, sumElim_dotProduct_sumElim]
  simp only [Sum.elim_comp_inl, Sum.elim_comp_inr, dotProduct_add]
  ring

omit [DecidableEq b] in
/-- **completing the square** in the first block variable -/
theorem schur_quad (Laa : Matrix a a ℝ) (Lab : Matrix a b ℝ) (Lbb : Matrix b b ℝ)
    (hsym : Laaᵀ = Laa) (hd : Laa.det ≠ 0) (u : a → ℝ) (v : b → ℝ) :
    u ⬝ᵥ Laa *ᵥ u + u ⬝ᵥ Lab *ᵥ v + v ⬝ᵥ Labᵀ *ᵥ u + v ⬝ᵥ Lbb *ᵥ v =
      (u + Laa⁻¹ *ᵥ Lab *ᵥ v) ⬝ᵥ Laa *ᵥ (u + Laa⁻¹ *ᵥ Lab *ᵥ v)
        + v ⬝ᵥ (Lbb - Labᵀ * Laa⁻¹ * Lab) *ᵥ v := by
  have hu : IsUnit Laa.det := isUnit_iff_ne_zero.mpr hd
  set w := Lab *ᵥ v with hw
  have h1 : Laa *ᵥ (Laa⁻¹ *ᵥ w) = w := by
    rw [Matrix.mulVec_mulVec, Matrix.mul_nonsing_inv _ hu, Matrix.one_mulVec]
  have h2 : (Laa⁻¹ *ᵥ w) ⬝ᵥ Laa *ᵥ u = w ⬝ᵥ u := by
    rw [Matrix.dotProduct_mulVec, ← Matrix.mulVec_transpose, hsym, h1]
  have h3 : v ⬝ᵥ Labᵀ *ᵥ u = w ⬝ᵥ u := by
    rw [Matrix.dotProduct_mulVec, Matrix.vecMul_transpose]
  have h4 : v ⬝ᵥ (Labᵀ * Laa⁻¹ * Lab) *ᵥ v = w ⬝ᵥ Laa⁻¹ *ᵥ w := by
    rw [Matrix.mul_assoc, ← Matrix.mulVec_mulVec, Matrix.dotProduct_mulVec, Matrix.vecMul_transpose,
      ← Matrix.mulVec_mulVec]
  have h5 : (Laa⁻¹ *ᵥ w) ⬝ᵥ w = w ⬝ᵥ Laa⁻¹ *ᵥ w := dotProduct_comm _ _
  have h6 : u ⬝ᵥ w = w ⬝ᵥ u := dotProduct_comm _ _
  simp only [Matrix.mulVec_add, add_dotProduct, dotProduct_add, Matrix.sub_mulVec, dotProduct_sub,
    h1, h2, h3, h4, h5, h6]
  ring

/-- determinant of the joint covariance through the precision block: `det Σ · det Λaa = det Σbb` -/
theorem block_cov_det
    {Laa : Matrix a a ℝ} {Lab : Matrix a b ℝ} {Lba : Matrix b a ℝ} {Lbb : Matrix b b ℝ}
    {Saa : Matrix a a ℝ} {Sab : Matrix a b ℝ} {Sba : Matrix b a ℝ} {Sbb : Matrix b b ℝ}
    (h : fromBlocks Laa Lab Lba Lbb * fromBlocks Saa Sab Sba Sbb = 1) (hLaa : Laa.det ≠ 0) :
    (fromBlocks Saa Sab Sba Sbb).det * Laa.det = Sbb.det := by
  have hinv : Invertible Laa := Matrix.invertibleOfIsUnitDet Laa (isUnit_iff_ne_zero.mpr hLaa)
  have h1 : (fromBlocks Laa Lab Lba Lbb).det = Laa.det * (Lbb - Lba * Laa⁻¹ * Lab).det := by
    rw [det_fromBlocks₁₁, Matrix.invOf_eq_nonsing_inv]
  have h2 := congrArg Matrix.det (schur_mul_marginal_cov h hLaa)
  rw [det_mul, det_one] at h2
  have h3 := congrArg Matrix.det h
  rw [det_mul, det_one] at h3
  linear_combination (-((fromBlocks Saa Sab Sba Sbb).det * Sbb.det)) * h1
    + (-((fromBlocks Saa Sab Sba Sbb).det * Laa.det)) * h2 + Sbb.det * h3

end
end GT.Math

namespace GT
open Matrix

/-- log-density of a Gaussian over `Fin Ka ⊕ Fin Kb` written in block form: mean `(μa, μb)`,
precision `fromBlocks Laa Lab Lba Lbb`, `ℓ = log det` of the covariance -/
noncomputable def jointLn {Ka Kb : Nat} (μa : Fin Ka → ℝ) (μb : Fin Kb → ℝ)
    (Laa : Matrix (Fin Ka) (Fin Ka) ℝ) (Lab : Matrix (Fin Ka) (Fin Kb) ℝ)
    (Lba : Matrix (Fin Kb) (Fin Ka) ℝ) (Lbb : Matrix (Fin Kb) (Fin Kb) ℝ) (ℓ : ℝ)
    (xa : Fin Ka → ℝ) (xb : Fin Kb → ℝ) : ℝ :=
  -(1 / 2) * (Sum.elim (xa - μa) (xb - μb) ⬝ᵥ fromBlocks Laa Lab Lba Lbb *ᵥ Sum.elim (xa - μa) (xb - μb))
    - 1 / 2 * (((Ka : ℝ) + (Kb : ℝ)) * Real.log (2 * Real.pi) + ℓ)

/-- **product rule**, algebraic form: for a block precision `Λ` (symmetric in the sense
`Λaaᵀ = Λaa`, `Λba = Λabᵀ`, with invertible `Λaa`) and `Σ` with `Λ Σ = 1`: conditional of `a`
given `b` (precision `Λaa`, mean `μa − Λaa⁻¹Λab(xb − μb)`) times marginal of `b` (covariance
`Σbb`) is the joint. -/
theorem normalLn_cond_add_marginal' {Ka Kb : Nat}
    {Laa : Matrix (Fin Ka) (Fin Ka) ℝ} {Lab : Matrix (Fin Ka) (Fin Kb) ℝ}
    {Lba : Matrix (Fin Kb) (Fin Ka) ℝ} {Lbb : Matrix (Fin Kb) (Fin Kb) ℝ}
    {Saa : Matrix (Fin Ka) (Fin Ka) ℝ} {Sab : Matrix (Fin Ka) (Fin Kb) ℝ}
    {Sba : Matrix (Fin Kb) (Fin Ka) ℝ} {Sbb : Matrix (Fin Kb) (Fin Kb) ℝ}
    (hsym : Laaᵀ = Laa) (hba : Lba = Labᵀ) (hd : Laa.det ≠ 0)
    (h : fromBlocks Laa Lab Lba Lbb * fromBlocks Saa Sab Sba Sbb = 1)
    (μa : Fin Ka → ℝ) (μb : Fin Kb → ℝ) (xa : Fin Ka → ℝ) (xb : Fin Kb → ℝ) :
    normalLn (μa - Laa⁻¹ *ᵥ Lab *ᵥ (xb - μb)) Laa (Real.log (Laa⁻¹).det) xa
      + normalLn μb Sbb⁻¹ (Real.log Sbb.det) xb
      = jointLn μa μb Laa Lab Lba Lbb (Real.log (fromBlocks Saa Sab Sba Sbb).det) xa xb := by
  subst hba
  have hS : (fromBlocks Saa Sab Sba Sbb).det ≠ 0 := by
    have h3 := congrArg Matrix.det h
    rw [det_mul, det_one] at h3
    exact right_ne_zero_of_mul_eq_one h3
  have hdet := Math.block_cov_det h hd
  have hlog : Real.log (Laa⁻¹).det + Real.log Sbb.det
      = Real.log (fromBlocks Saa Sab Sba Sbb).det := by
    rw [Matrix.det_nonsing_inv, Ring.inverse_eq_inv', Real.log_inv, ← hdet, Real.log_mul hS hd]
    ring
  have hschur := Math.marginal_prec_eq_schur h hd
  have hxa : xa - (μa - Laa⁻¹ *ᵥ Lab *ᵥ (xb - μb)) = (xa - μa) + Laa⁻¹ *ᵥ Lab *ᵥ (xb - μb) := by
    ext i; simp only [Pi.sub_apply, Pi.add_apply]; ring
  simp only [normalLn, jointLn]
  rw [Math.fromBlocks_quad, Math.schur_quad Laa Lab Lbb hsym hd, hxa, hschur, ← hlog]
  ring

/-- **product rule** for a Gaussian with positive definite block precision `Λ` and covariance
`Σ = Λ⁻¹`. -/
theorem normalLn_cond_add_marginal {Ka Kb : Nat}
    {Laa : Matrix (Fin Ka) (Fin Ka) ℝ} {Lab : Matrix (Fin Ka) (Fin Kb) ℝ}
    {Lba : Matrix (Fin Kb) (Fin Ka) ℝ} {Lbb : Matrix (Fin Kb) (Fin Kb) ℝ}
    {Saa : Matrix (Fin Ka) (Fin Ka) ℝ} {Sab : Matrix (Fin Ka) (Fin Kb) ℝ}
    {Sba : Matrix (Fin Kb) (Fin Ka) ℝ} {Sbb : Matrix (Fin Kb) (Fin Kb) ℝ}
    (hΛ : (fromBlocks Laa Lab Lba Lbb).PosDef)
    (h : fromBlocks Laa Lab Lba Lbb * fromBlocks Saa Sab Sba Sbb = 1)
    (μa : Fin Ka → ℝ) (μb : Fin Kb → ℝ) (xa : Fin Ka → ℝ) (xb : Fin Kb → ℝ) :
    normalLn (μa - Laa⁻¹ *ᵥ Lab *ᵥ (xb - μb)) Laa (Real.log (Laa⁻¹).det) xa
      + normalLn μb Sbb⁻¹ (Real.log Sbb.det) xb
      = jointLn μa μb Laa Lab Lba Lbb (Real.log (fromBlocks Saa Sab Sba Sbb).det) xa xb := by
  have hLaa : Laa.PosDef := by
    have := hΛ.submatrix (e := (Sum.inl : Fin Ka → Fin Ka ⊕ Fin Kb)) Sum.inl_injective
    have he : (fromBlocks Laa Lab Lba Lbb).submatrix Sum.inl Sum.inl = Laa := by
      ext i j; simp
    rwa [he] at this
  have hsymΛ : (fromBlocks Laa Lab Lba Lbb)ᵀ = fromBlocks Laa Lab Lba Lbb := by
    rw [← Matrix.conjTranspose_eq_transpose_of_trivial]; exact hΛ.isHermitian
  rw [fromBlocks_transpose, fromBlocks_inj] at hsymΛ
  obtain ⟨hsym, hba, -, -⟩ := hsymΛ
  exact normalLn_cond_add_marginal' hsym (by rw [← hba, transpose_transpose])
    (ne_of_gt hLaa.det_pos) h μa μb xa xb

/-- a matrix reindexed along `e : a ⊕ b ≃ n` is the block matrix of its four submatrices -/
theorem fromBlocks_submatrix_equiv {a b n : Type*} (A : Matrix n n ℝ) (e : a ⊕ b → n) :
    fromBlocks (A.submatrix (e ∘ Sum.inl) (e ∘ Sum.inl)) (A.submatrix (e ∘ Sum.inl) (e ∘ Sum.inr))
      (A.submatrix (e ∘ Sum.inr) (e ∘ Sum.inl)) (A.submatrix (e ∘ Sum.inr) (e ∘ Sum.inr))
      = A.submatrix e e := by
  ext (i | i) (j | j) <;> rfl

/-- the block-form joint log-density along a splitting `e : Fin Ka ⊕ Fin Kb ≃ Fin D` of the
coordinates is the normal log-density on `Fin D` -/
theorem jointLn_reindex {Ka Kb D : Nat} (e : Fin Ka ⊕ Fin Kb ≃ Fin D) (μ : Fin D → ℝ)
    (Λ S : Matrix (Fin D) (Fin D) ℝ) (xa : Fin Ka → ℝ) (xb : Fin Kb → ℝ) :
    jointLn (μ ∘ e ∘ Sum.inl) (μ ∘ e ∘ Sum.inr)
      (Λ.submatrix (e ∘ Sum.inl) (e ∘ Sum.inl)) (Λ.submatrix (e ∘ Sum.inl) (e ∘ Sum.inr))
      (Λ.submatrix (e ∘ Sum.inr) (e ∘ Sum.inl)) (Λ.submatrix (e ∘ Sum.inr) (e ∘ Sum.inr))
      (Real.log (fromBlocks (S.submatrix (e ∘ Sum.inl) (e ∘ Sum.inl))
        (S.submatrix (e ∘ Sum.inl) (e ∘ Sum.inr)) (S.submatrix (e ∘ Sum.inr) (e ∘ Sum.inl))
        (S.submatrix (e ∘ Sum.inr) (e ∘ Sum.inr))).det) xa xb
      = normalLn μ Λ (Real.log S.det) (Sum.elim xa xb ∘ e.symm) := by
  have hD : (Ka : ℝ) + (Kb : ℝ) = (D : ℝ) := by
    have := Fintype.card_congr e
    simp only [Fintype.card_sum, Fintype.card_fin] at this
    exact_mod_cast this
  have hw : Sum.elim xa xb ∘ e.symm - μ
      = Sum.elim (xa - μ ∘ e ∘ Sum.inl) (xb - μ ∘ e ∘ Sum.inr) ∘ e.symm := by
    ext d
    obtain ⟨s, rfl⟩ := e.surjective d
    cases s <;> simp
  simp only [jointLn, normalLn]
  rw [fromBlocks_submatrix_equiv, fromBlocks_submatrix_equiv, det_submatrix_equiv_self, hw,
    submatrix_mulVec_equiv, ← comp_equiv_symm_dotProduct, hD]

/-! ## well-formed prior densities -/

variable {R D : Nat}

/-- what the view `p` of every constructed density satisfies: positive definite covariance with
its inverse, log-determinant, natural mean parameter and normaliser -/
structure PdfFullOK (p : PdfV R D ℝ) : Prop where
  posDef : ∀ r, (toM (p.Sigma r)).PosDef
  lambda : ∀ r, toM (p.Lambda r) = (toM (p.Sigma r))⁻¹
  lnDet : ∀ r, p.lnDetSigma r = Real.log (toM (p.Sigma r)).det
  nu : ∀ r, toV (p.nu r) = toM (p.Lambda r) *ᵥ toV (p.mu r)
  lnBeta : ∀ r, p.lnBeta r = -lnZRef (toM (p.Lambda r)) (toV (p.nu r))

theorem PdfFullOK.lambda_posDef {p : PdfV R D ℝ} (h : PdfFullOK p) (r : Fin R) : (toM (p.Lambda r)).PosDef := by
  rw [h.lambda r]; exact (h.posDef r).inv

theorem PdfFullOK.sigma_mul_lambda {p : PdfV R D ℝ} (h : PdfFullOK p) (r : Fin R) :
    toM (p.Sigma r) * toM (p.Lambda r) = 1 := by
  rw [h.lambda r, Matrix.mul_nonsing_inv _ (h.posDef r).det_pos.ne'.isUnit]

theorem PdfFullOK.lambda_mul_sigma {p : PdfV R D ℝ} (h : PdfFullOK p) (r : Fin R) :
    toM (p.Lambda r) * toM (p.Sigma r) = 1 := by
  rw [h.lambda r, Matrix.nonsing_inv_mul _ (h.posDef r).det_pos.ne'.isUnit]

/-- a normalised object with parameters `Λ = Σ⁻¹`, `ν = Λμ`, `ln β = −lnZ` evaluates to the
normal log-density -/
theorem evalLn_eq_normalLn_of_params (m : MeasureB R D ℝ) (r : Fin R)
    (S : Matrix (Fin D) (Fin D) ℝ) (μ : Fin D → ℝ) (hS : S.PosDef)
    (hL : toM (m.Lambda r) = S⁻¹) (hnu : toV (m.nu r) = S⁻¹ *ᵥ μ)
    (hlb : m.lnBeta r = -lnZRef S⁻¹ (S⁻¹ *ᵥ μ)) (y : Fin D → ℝ) :
    m.evalLn r (ofV y) = normalLn μ S⁻¹ (Real.log S.det) y := by
  have hSu : IsUnit S.det := hS.det_pos.ne'.isUnit
  set Λ := S⁻¹ with hΛ
  have hΛPD : Λ.PosDef := hS.inv
  have hsym : Λᵀ = Λ := by
    rw [← Matrix.conjTranspose_eq_transpose_of_trivial]; exact hΛPD.isHermitian
  rw [Props.C02.evalLn_eq, hL, hnu, hlb]
  simp only [normalLn, lnZRef]
  have hΛinv : Λ⁻¹ = S := by rw [hΛ, Matrix.nonsing_inv_nonsing_inv _ hSu]
  have hdet : Real.log Λ.det = -Real.log S.det := by
    rw [hΛ, Matrix.det_nonsing_inv, Ring.inverse_eq_inv', Real.log_inv]
  have h1 : (Λ *ᵥ μ) ⬝ᵥ Λ⁻¹ *ᵥ (Λ *ᵥ μ) = μ ⬝ᵥ Λ *ᵥ μ := by
    rw [Matrix.mulVec_mulVec, hΛinv, hΛ, Matrix.mul_nonsing_inv _ hSu, Matrix.one_mulVec,
      ← hΛ, Matrix.dotProduct_mulVec, ← Matrix.mulVec_transpose, hsym, dotProduct_comm]
  rw [h1, hdet]
  have h2 : (y - μ) ⬝ᵥ Λ *ᵥ (y - μ) = y ⬝ᵥ Λ *ᵥ y - 2 * ((Λ *ᵥ μ) ⬝ᵥ y) + μ ⬝ᵥ Λ *ᵥ μ := by
    have hc : y ⬝ᵥ Λ *ᵥ μ = (Λ *ᵥ μ) ⬝ᵥ y := dotProduct_comm _ _
    have hc' : μ ⬝ᵥ Λ *ᵥ y = (Λ *ᵥ μ) ⬝ᵥ y := by
      rw [Matrix.dotProduct_mulVec, ← Matrix.mulVec_transpose, hsym]
    simp only [Matrix.mulVec_sub, sub_dotProduct, dotProduct_sub, hc, hc']
    ring
  rw [h2]
  ring

/-- **a well-formed density view evaluates to the normal log-density** -/
theorem PdfV.evalLn_eq_normalLn {p : PdfV R D ℝ} (h : PdfFullOK p) (r : Fin R) (x : Fin D → ℝ) :
    p.evalLn r (ofV x) =
      normalLn (toV (p.mu r)) (toM (p.Sigma r))⁻¹ (Real.log (toM (p.Sigma r)).det) x := by
  have hnu : toV (p.nu r) = (toM (p.Sigma r))⁻¹ *ᵥ toV (p.mu r) := by rw [h.nu r, h.lambda r]
  have hlb : p.lnBeta r = -lnZRef (toM (p.Sigma r))⁻¹ ((toM (p.Sigma r))⁻¹ *ᵥ toV (p.mu r)) := by
    rw [h.lnBeta r, hnu, h.lambda r]
  exact evalLn_eq_normalLn_of_params p.toMeasure r _ _ (h.posDef r) (h.lambda r) hnu hlb x

/-- the view of any invariant-satisfying normalised object is well-formed -/
theorem pdfOK_of_inv {m : MeasureB R D ℝ} (hm : m.Inv) {p : PdfV R D ℝ} (hp : m.asPdf = some p)
    (hlb : ∀ r, m.lnBeta r = -lnZRef (toM (m.Lambda r)) (toV (m.nu r))) : PdfFullOK p := by
  unfold MeasureB.asPdf at hp
  cases hc : m.cov with
  | none => simp [hc] at hp
  | some c =>
    cases hmu : m.mu with
    | none => simp [hc, hmu] at hp
    | some mu =>
      cases hz : m.lnZ with
      | none => simp [hc, hmu, hz] at hp
      | some z =>
        simp only [hc, hmu, hz, Option.some.injEq] at hp
        subst hp
        have hu : ∀ r, IsUnit (toM (m.Lambda r)).det := fun r => (hm.posDef r).det_pos.ne'.isUnit
        refine ⟨fun r => ?_, fun r => ?_, fun r => (hm.cov c hc r).logdet, fun r => ?_, hlb⟩
        · show (toM (c.Sigma r)).PosDef
          rw [(hm.cov c hc r).inv]; exact (hm.posDef r).inv
        · show toM (m.Lambda r) = (toM (c.Sigma r))⁻¹
          rw [(hm.cov c hc r).inv, Matrix.nonsing_inv_nonsing_inv _ (hu r)]
        · show toV (m.nu r) = toM (m.Lambda r) *ᵥ toV (mu r)
          rw [hm.mu mu hmu r, Matrix.mulVec_mulVec, Matrix.mul_nonsing_inv _ (hu r), Matrix.one_mulVec]

/-- the view of an object built by the density constructor is well-formed -/
theorem mkPdf_pdfOK {be : Backend ℝ} (hbe : be.Spec) (diag : Bool) (Sigma : Arr R (Mat D D ℝ))
    (mu : Arr R (Vec D ℝ)) (Lambda : Option (Arr R (Mat D D ℝ))) (lnDetSigma : Option (Arr R ℝ))
    (h : Props.C02.PdfArgsOK diag Sigma Lambda lnDetSigma) {p : PdfV R D ℝ}
    (hp : (mkPdf be diag Sigma mu Lambda lnDetSigma).asPdf = some p) : PdfFullOK p := by
  refine pdfOK_of_inv (Props.C02.mkPdf_inv hbe diag Sigma mu Lambda lnDetSigma h) hp fun r => ?_
  obtain ⟨hL, hnu, hlb⟩ := mkPdf_params hbe diag Sigma mu Lambda lnDetSigma h r
  rw [hlb, hL, hnu]

/-- the view of a constructed density carries the constructor's `Sigma` and `mu` unchanged -/
theorem mkPdf_asPdf_sigma_mu (be : Backend ℝ) (diag : Bool) (Sigma : Arr R (Mat D D ℝ))
    (mu : Arr R (Vec D ℝ)) (Lambda : Option (Arr R (Mat D D ℝ))) (lnDetSigma : Option (Arr R ℝ))
    {p : PdfV R D ℝ} (hp : (mkPdf be diag Sigma mu Lambda lnDetSigma).asPdf = some p) :
    p.Sigma = Sigma ∧ p.mu = mu := by
  simp only [mkPdf, pdfPre, MeasureB.prepare, MeasureB.ensureLnZ, MeasureB.computeLnZ,
    MeasureB.ensureCov, MeasureB.ensureMu, MeasureB.normalize, MeasureB.asPdf, Option.some.injEq] at hp
  subst hp
  exact ⟨rfl, rfl⟩

/-- a constructed density always has a view (all its caches are filled) -/
theorem mkPdf_asPdf_isSome (be : Backend ℝ) (diag : Bool) (Sigma : Arr R (Mat D D ℝ))
    (mu : Arr R (Vec D ℝ)) (Lambda : Option (Arr R (Mat D D ℝ))) (lnDetSigma : Option (Arr R ℝ)) :
    ∃ p, (mkPdf be diag Sigma mu Lambda lnDetSigma).asPdf = some p := by
  simp only [mkPdf, pdfPre, MeasureB.prepare, MeasureB.ensureLnZ, MeasureB.computeLnZ,
    MeasureB.ensureCov, MeasureB.ensureMu, MeasureB.normalize, MeasureB.asPdf]
  exact ⟨_, rfl⟩

/-! ## layout lemmas -/

theorem unflatL_flat {a b : Nat} (i : Fin a) (j : Fin b) : unflatL (flat i j) = i := by
  apply Fin.ext
  simp only [unflatL, flat]
  rw [Nat.add_comm, Nat.add_mul_div_right _ _ (Nat.pos_of_ne_zero (by rintro rfl; exact absurd j.2 (by simp)))]
  simp [Nat.div_eq_of_lt j.2]

theorem unflatR_flat {a b : Nat} (i : Fin a) (j : Fin b) : unflatR (flat i j) = j := by
  apply Fin.ext
  simp only [unflatR, flat]
  rw [Nat.add_comm, Nat.add_mul_mod_self_right]
  exact Nat.mod_eq_of_lt j.2

/-! ## a concrete well-formed density (non-vacuity of `PdfFullOK`) -/

theorem posDef_two_one : (!![2, 1; 1, 2] : Matrix (Fin 2) (Fin 2) ℝ).PosDef := by
  apply Matrix.PosDef.of_dotProduct_mulVec_pos
  · ext i j; fin_cases i <;> fin_cases j <;> simp
  · intro x hx
    have hx' : x 0 ≠ 0 ∨ x 1 ≠ 0 := by
      by_contra hcon
      push Not at hcon
      apply hx
      ext i; fin_cases i <;> simp [hcon.1, hcon.2]
    simp only [dotProduct, Matrix.mulVec, Fin.sum_univ_two, star_trivial, Matrix.of_apply,
      Matrix.cons_val', Matrix.cons_val_zero, Matrix.cons_val_one, Matrix.cons_val_fin_one]
    rcases hx' with h0 | h1
    · nlinarith [sq_nonneg (x 0 + x 1), sq_pos_of_ne_zero h0, sq_nonneg (x 1)]
    · nlinarith [sq_nonneg (x 0 + x 1), sq_pos_of_ne_zero h1, sq_nonneg (x 0)]

theorem inv_two_one :
    (!![2 / 3, -1 / 3; -1 / 3, 2 / 3] : Matrix (Fin 2) (Fin 2) ℝ) = (!![2, 1; 1, 2])⁻¹ := by
  symm
  apply Matrix.inv_eq_right_inv
  ext i j
  fin_cases i <;> fin_cases j <;> simp [Matrix.mul_apply, Fin.sum_univ_two] <;> norm_num

/-- the density `N((1,−1), [[2,1],[1,2]])` with all its attributes -/
noncomputable def examplePdf : PdfV 1 2 ℝ where
  diag := false
  Lambda := tab fun _ => ofM !![2 / 3, -1 / 3; -1 / 3, 2 / 3]
  nu := tab fun _ => ofV (!![2 / 3, -1 / 3; -1 / 3, 2 / 3] *ᵥ ![1, -1])
  lnBeta := tab fun _ => -lnZRef !![2 / 3, -1 / 3; -1 / 3, 2 / 3] (!![2 / 3, -1 / 3; -1 / 3, 2 / 3] *ᵥ ![1, -1])
  Sigma := tab fun _ => ofM !![2, 1; 1, 2]
  lnDetSigma := tab fun _ => Real.log (!![2, 1; 1, 2] : Matrix (Fin 2) (Fin 2) ℝ).det
  mu := tab fun _ => ofV ![1, -1]
  lnZ := tab fun _ => lnZRef !![2 / 3, -1 / 3; -1 / 3, 2 / 3] (!![2 / 3, -1 / 3; -1 / 3, 2 / 3] *ᵥ ![1, -1])

theorem examplePdf_ok : PdfFullOK examplePdf := by
  refine ⟨fun r => ?_, fun r => ?_, fun r => ?_, fun r => ?_, fun r => ?_⟩
  · simp only [examplePdf, tab_apply, toM_ofM]; exact posDef_two_one
  · simp only [examplePdf, tab_apply, toM_ofM]; exact inv_two_one
  · simp only [examplePdf, tab_apply, toM_ofM]
  · simp only [examplePdf, tab_apply, toM_ofM, toV_ofV]
  · simp only [examplePdf, tab_apply, toM_ofM, toV_ofV]

end GT

section axioms
#print axioms GT.Math.schur_quad
#print axioms GT.Math.block_cov_det
#print axioms GT.normalLn_cond_add_marginal
#print axioms GT.jointLn_reindex
#print axioms GT.PdfV.evalLn_eq_normalLn
#print axioms GT.mkPdf_pdfOK
end axioms
