import GT.Bridge.BackendSpec
import Mathlib.Analysis.Matrix.LDL
import Mathlib.Analysis.SpecialFunctions.Log.Basic
/-!
# `Backend.Spec` is satisfiable

`Backend.Spec be` is a hypothesis of many theorems.  Here we construct a (noncomputable) backend
over `ℝ` that satisfies it, so those theorems are not vacuous.  The mathematical core is the
existence of the Cholesky factor of a real positive definite matrix, obtained from Mathlib's
LDL decomposition.
-/
namespace GT
open Matrix

section chol
variable {n : Nat}

/-- A positive definite real matrix is `L₀ L₀ᵀ` for some lower triangular `L₀` (from LDL). -/
theorem exists_lower_factor (A : Matrix (Fin n) (Fin n) ℝ) (hA : A.PosDef) :
    ∃ L : Matrix (Fin n) (Fin n) ℝ, L.IsLowerTriangular ∧ L * Lᵀ = A := by
  -- `P = lowerInv` is lower triangular and invertible, `D = P A Pᵀ` is diagonal
  have hP : (LDL.lowerInv hA).IsLowerTriangular := fun i j hij =>
    LDL.lowerInv_triangular hA (OrderDual.toDual_lt_toDual.mp hij)
  have hQ : (LDL.lower hA).IsLowerTriangular := by
    unfold LDL.lower
    exact blockTriangular_inv_of_blockTriangular hP
  -- the diagonal entries are positive
  have hDpd : (LDL.diag hA).PosDef := by
    rw [LDL.diag_eq_lowerInv_conj]
    exact hA.mul_mul_conjTranspose_same (vecMul_injective_of_invertible _)
  have hd : ∀ i, 0 < LDL.diagEntries hA i := by
    intro i
    have := hDpd.diag_pos (i := i)
    simpa [LDL.diag] using this
  refine ⟨LDL.lower hA * diagonal fun i => Real.sqrt (LDL.diagEntries hA i), ?_, ?_⟩
  · exact hQ.mul (blockTriangular_diagonal _)
  · have hsq : (diagonal fun i => Real.sqrt (LDL.diagEntries hA i)) *
        (diagonal fun i => Real.sqrt (LDL.diagEntries hA i)) = LDL.diag hA := by
      rw [diagonal_mul_diagonal, LDL.diag]
      congr 1
      funext i
      exact Real.mul_self_sqrt (hd i).le
    have h := LDL.lower_conj_diag hA
    rw [conjTranspose_eq_transpose_of_trivial] at h
    rw [transpose_mul, diagonal_transpose, Matrix.mul_assoc, ← Matrix.mul_assoc (diagonal _),
      hsq, ← Matrix.mul_assoc]
    exact h

/-- Flipping the signs of the columns of a lower triangular factor gives a Cholesky factor. -/
theorem isCholesky_of_lower_factor {A L : Matrix (Fin n) (Fin n) ℝ} (hA : A.PosDef)
    (hL : L.IsLowerTriangular) (hLA : L * Lᵀ = A) :
    IsCholesky (L * diagonal fun i => ((SignType.sign (L i i) : SignType) : ℝ)) A := by
  have hdet : L.det = ∏ i, L i i := det_of_isLowerTriangular L hL
  have hne : ∀ i, L i i ≠ 0 := by
    intro i h0
    have : A.det = 0 := by
      have hz : ∏ k, L k k = 0 := Finset.prod_eq_zero (Finset.mem_univ i) h0
      rw [← hLA, det_mul, det_transpose, hdet, hz, zero_mul]
    exact hA.det_pos.ne' this
  refine ⟨?_, ?_, ?_⟩
  · intro i j hij
    rw [mul_diagonal, hL (OrderDual.toDual_lt_toDual.mpr hij), zero_mul]
  · intro i
    rw [mul_diagonal]
    have := abs_pos.mpr (hne i)
    rwa [← self_mul_sign] at this
  · rw [transpose_mul, diagonal_transpose, Matrix.mul_assoc, ← Matrix.mul_assoc (diagonal _),
      diagonal_mul_diagonal]
    have : (fun i => ((SignType.sign (L i i) : ℝ)) * (SignType.sign (L i i) : ℝ)) = fun _ => 1 := by
      funext i
      rcases lt_or_gt_of_ne (hne i) with h | h
      · simp [sign_neg h]
      · simp [sign_pos h]
    rw [this, diagonal_one, Matrix.one_mul, hLA]

/-- **Cholesky decomposition** of a real positive definite matrix. -/
theorem exists_cholesky (A : Matrix (Fin n) (Fin n) ℝ) (hA : A.PosDef) :
    ∃ L : Matrix (Fin n) (Fin n) ℝ, IsCholesky L A := by
  obtain ⟨L, hL, hLA⟩ := exists_lower_factor A hA
  exact ⟨_, isCholesky_of_lower_factor hA hL hLA⟩

end chol

open Classical in
/-- the Cholesky factor of a positive definite matrix, the matrix itself otherwise -/
noncomputable def cholSat {n : Nat} (A : Mat n n ℝ) : Mat n n ℝ :=
  if h : (toM A).PosDef then ofM (Classical.choose (exists_cholesky (toM A) h)) else A

theorem cholSat_spec {n : Nat} (A : Mat n n ℝ) (h : (toM A).PosDef) :
    IsCholesky (toM (cholSat A)) (toM A) := by
  unfold cholSat
  rw [dif_pos h, toM_ofM]
  exact Classical.choose_spec (exists_cholesky (toM A) h)

/-- A mathematical (noncomputable) backend over `ℝ` satisfying the documented contract. -/
noncomputable def Backend.sat : Backend ℝ where
  choFactor := fun A => cholSat A
  choSolve := fun L B => ofM ((toM L * (toM L)ᵀ)⁻¹ * toM B)
  slogdet := fun A => Real.log |(toM A).det|
  cholesky := fun A => cholSat A

theorem Backend.sat_spec : Backend.sat.Spec where
  choFactor := fun A h => cholSat_spec A h
  choSolve := fun L B _ => by simp [Backend.sat]
  slogdet := fun A => rfl
  cholesky := fun A h => cholSat_spec A h

/-- The contract `Backend.Spec` is satisfiable: theorems assuming it are not vacuous. -/
theorem exists_backend_spec : ∃ be : Backend ℝ, be.Spec := ⟨Backend.sat, Backend.sat_spec⟩

end GT

#print axioms GT.exists_backend_spec
