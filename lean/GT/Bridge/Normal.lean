import GT.Props.C02
/-!
# The density constructor evaluates to the normal log-density

`normalLn μ Λ ℓ y = −½ (y−μ)ᵀΛ(y−μ) − ½ (D log 2π + ℓ)` with `Λ = Σ⁻¹`, `ℓ = log det Σ`.
This is the bridge from "object built by `GaussianPDF(Sigma, mu, …)`" to "the function
`N(y; μ, Σ)`", used by C05–C11, C13.
-/
namespace GT
open Matrix

variable {R D : Nat}

/-- `ln N(y; μ, Σ)` written with the precision `Λ = Σ⁻¹` and `ℓ = log det Σ` -/
noncomputable def normalLn (μ : Fin D → ℝ) (Λ : Matrix (Fin D) (Fin D) ℝ) (ℓ : ℝ) (y : Fin D → ℝ) : ℝ :=
  -(1 / 2) * ((y - μ) ⬝ᵥ Λ *ᵥ (y - μ)) - 1 / 2 * ((D : ℝ) * Real.log (2 * Real.pi) + ℓ)

variable {be : Backend ℝ} (hbe : be.Spec)
include hbe

/-- natural parameters of a constructed density -/
theorem mkPdf_params (diag : Bool) (Sigma : Arr R (Mat D D ℝ)) (mu : Arr R (Vec D ℝ))
    (Lambda : Option (Arr R (Mat D D ℝ))) (lnDetSigma : Option (Arr R ℝ))
    (h : Props.C02.PdfArgsOK diag Sigma Lambda lnDetSigma) (r : Fin R) :
    let p := mkPdf be diag Sigma mu Lambda lnDetSigma
    toM (p.Lambda r) = (toM (Sigma r))⁻¹ ∧
    toV (p.nu r) = (toM (Sigma r))⁻¹ *ᵥ toV (mu r) ∧
    p.lnBeta r = -lnZRef (toM (Sigma r))⁻¹ ((toM (Sigma r))⁻¹ *ᵥ toV (mu r)) := by
  intro p
  have hspec := Props.C02.pdfPrecision_spec hbe diag Sigma Lambda lnDetSigma h r
  have hpre := Props.C02.mkPdf_pre_inv hbe diag Sigma mu Lambda lnDetSigma h
  have hprep := inv_prepare (be := be) hbe hpre
  have hS := h.posDef r
  have hSinvPD : ((toM (Sigma r))⁻¹).PosDef := hS.inv
  have hsym : ((toM (Sigma r))⁻¹)ᵀ = (toM (Sigma r))⁻¹ := by
    rw [← Matrix.conjTranspose_eq_transpose_of_trivial]; exact hSinvPD.isHermitian
  have hL : toM (p.Lambda r) = (toM (Sigma r))⁻¹ := by
    simp only [p, mkPdf, MeasureB.normalize, computeLnZ_fst_Lambda, prepare_Lambda, pdfPre]
    exact hspec.1
  have hnu : toV (p.nu r) = (toM (Sigma r))⁻¹ *ᵥ toV (mu r) := by
    simp only [p, mkPdf, MeasureB.normalize, computeLnZ_fst_nu, prepare_nu, pdfPre, tab_apply, toV_vecMul]
    rw [hspec.1, ← Matrix.mulVec_transpose, hsym]
  refine ⟨hL, hnu, ?_⟩
  simp only [p, mkPdf, MeasureB.normalize, tab_apply]
  rw [computeLnZ_value hbe hprep r]
  simp only [prepare_Lambda, prepare_nu, pdfPre, tab_apply, toV_vecMul]
  rw [hspec.1, ← Matrix.mulVec_transpose, hsym]

/-- **the constructed density is the normal log-density** -/
theorem mkPdf_evalLn (diag : Bool) (Sigma : Arr R (Mat D D ℝ)) (mu : Arr R (Vec D ℝ))
    (Lambda : Option (Arr R (Mat D D ℝ))) (lnDetSigma : Option (Arr R ℝ))
    (h : Props.C02.PdfArgsOK diag Sigma Lambda lnDetSigma) (r : Fin R) (y : Fin D → ℝ) :
    (mkPdf be diag Sigma mu Lambda lnDetSigma).evalLn r (ofV y) =
      normalLn (toV (mu r)) (toM (Sigma r))⁻¹ (Real.log (toM (Sigma r)).det) y := by
  obtain ⟨hL, hnu, hlb⟩ := mkPdf_params hbe diag Sigma mu Lambda lnDetSigma h r
  have hS := h.posDef r
  have hSu : IsUnit (toM (Sigma r)).det := hS.det_pos.ne'.isUnit
  set Λ := (toM (Sigma r))⁻¹ with hΛ
  have hΛPD : Λ.PosDef := hS.inv
  have hsym : Λᵀ = Λ := by
    rw [← Matrix.conjTranspose_eq_transpose_of_trivial]; exact hΛPD.isHermitian
  rw [Props.C02.evalLn_eq, hL, hnu, hlb]
  simp only [normalLn, lnZRef]
  have hΛinv : Λ⁻¹ = toM (Sigma r) := by rw [hΛ, Matrix.nonsing_inv_nonsing_inv _ hSu]
  have hdet : Real.log Λ.det = -Real.log (toM (Sigma r)).det := by
    rw [hΛ, Matrix.det_nonsing_inv, Ring.inverse_eq_inv', Real.log_inv]
  have h1 : (Λ *ᵥ toV (mu r)) ⬝ᵥ Λ⁻¹ *ᵥ (Λ *ᵥ toV (mu r)) = toV (mu r) ⬝ᵥ Λ *ᵥ toV (mu r) := by
    rw [Matrix.mulVec_mulVec, hΛinv, hΛ, Matrix.mul_nonsing_inv _ hSu, Matrix.one_mulVec,
      ← hΛ, Matrix.dotProduct_mulVec, ← Matrix.mulVec_transpose, hsym, dotProduct_comm]
  rw [h1, hdet]
  -- expand the square
  have h2 : (y - toV (mu r)) ⬝ᵥ Λ *ᵥ (y - toV (mu r)) =
      y ⬝ᵥ Λ *ᵥ y - 2 * ((Λ *ᵥ toV (mu r)) ⬝ᵥ y) + toV (mu r) ⬝ᵥ Λ *ᵥ toV (mu r) := by
    have hc : y ⬝ᵥ Λ *ᵥ toV (mu r) = (Λ *ᵥ toV (mu r)) ⬝ᵥ y := dotProduct_comm _ _
    have hc' : toV (mu r) ⬝ᵥ Λ *ᵥ y = (Λ *ᵥ toV (mu r)) ⬝ᵥ y := by
      rw [Matrix.dotProduct_mulVec, ← Matrix.mulVec_transpose, hsym]
    simp only [Matrix.mulVec_sub, sub_dotProduct, dotProduct_sub, hc, hc']
    ring
  rw [h2]
  ring

end GT
