import GT.Model.Backend
import GT.Bridge.Matrix
import GT.Bridge.RealInst
import Mathlib.LinearAlgebra.Matrix.PosDef
import Mathlib.LinearAlgebra.Matrix.Block
/-!
# The documented contract of the JAX / LAPACK primitives, and what `utils/linalg.py` makes of it

`Backend.Spec` is a *hypothesis* of the theorems that need it (never an axiom).
-/
namespace GT
open Matrix

/-- lower triangular with positive diagonal and `L Lᵀ = A` -/
structure IsCholesky {n : Nat} (L A : Matrix (Fin n) (Fin n) ℝ) : Prop where
  lower : ∀ i j, i < j → L i j = 0
  diag_pos : ∀ i, 0 < L i i
  mul_transpose : L * Lᵀ = A

structure Backend.Spec (be : Backend ℝ) : Prop where
  /-- `cho_factor` of a positive definite matrix -/
  choFactor : ∀ {n : Nat} (A : Mat n n ℝ), (toM A).PosDef → IsCholesky (toM (be.choFactor A)) (toM A)
  /-- `cho_solve((L, lower), B) = (L Lᵀ)⁻¹ B` -/
  choSolve : ∀ {n k : Nat} (L : Mat n n ℝ) (B : Mat n k ℝ), (toM L * (toM L)ᵀ).det ≠ 0 →
    toM (be.choSolve L B) = (toM L * (toM L)ᵀ)⁻¹ * toM B
  /-- `slogdet(A)[1] = log |det A|` -/
  slogdet : ∀ {n : Nat} (A : Mat n n ℝ), be.slogdet A = Real.log |(toM A).det|
  /-- `jnp.linalg.cholesky` -/
  cholesky : ∀ {n : Nat} (A : Mat n n ℝ), (toM A).PosDef → IsCholesky (toM (be.cholesky A)) (toM A)

theorem IsCholesky.det_eq {n : Nat} {L A : Matrix (Fin n) (Fin n) ℝ} (h : IsCholesky L A) :
    A.det = (∏ i, L i i) ^ 2 := by
  have hL : L.det = ∏ i, L i i := by
    apply Matrix.det_of_lowerTriangular
    intro i j hij
    exact h.lower i j hij
  rw [← h.mul_transpose, det_mul, det_transpose, hL]; ring

theorem IsCholesky.log_det {n : Nat} {L A : Matrix (Fin n) (Fin n) ℝ} (h : IsCholesky L A) :
    Real.log A.det = 2 * ∑ i, Real.log (L i i) := by
  rw [h.det_eq, Real.log_pow, Real.log_prod (fun i _ => (h.diag_pos i).ne')]
  push_cast; ring

/-- `utils.linalg.invert_matrix` returns the inverse and the log-determinant. -/
theorem invertMatrix_spec {be : Backend ℝ} (hbe : be.Spec) {n : Nat} (A : Mat n n ℝ)
    (hA : (toM A).PosDef) :
    toM (invertMatrix be A).1 = (toM A)⁻¹ ∧ (invertMatrix be A).2 = Real.log (toM A).det := by
  have hc := hbe.choFactor A hA
  have hdet : (toM (be.choFactor A) * (toM (be.choFactor A))ᵀ).det ≠ 0 := by
    rw [hc.mul_transpose]; exact hA.det_pos.ne'
  constructor
  · simp only [invertMatrix]
    rw [hbe.choSolve _ _ hdet, hc.mul_transpose]
    simp
  · simp only [invertMatrix, vsum_real, two_real, transc_log]
    rw [hc.log_det]
    rfl

/-- `utils.linalg.invert_diagonal` on a diagonal matrix with positive diagonal. -/
theorem invertDiagonal_spec {n : Nat} (A : Mat n n ℝ) (hd : ∀ i j, i ≠ j → A i j = 0)
    (hp : ∀ i, 0 < A i i) :
    toM (invertDiagonal A).1 = (toM A)⁻¹ ∧ (invertDiagonal A).2 = Real.log (toM A).det := by
  have hA : toM A = Matrix.diagonal fun i => A i i := by
    ext i j
    by_cases h : i = j
    · subst h; simp
    · simp [h, hd i j h]
  constructor
  · symm
    apply Matrix.inv_eq_right_inv
    ext i j
    simp only [invertDiagonal, Matrix.mul_apply, toM_apply, tab2_apply, eye_apply, Matrix.one_apply]
    by_cases h : i = j
    · subst h
      rw [Finset.sum_eq_single i]
      · simp; field_simp [(hp i).ne']
      · intro b _ hb; simp [hd i b (Ne.symm hb)]
      · simp
    · simp only [h, if_false]
      apply Finset.sum_eq_zero
      intro b _
      by_cases hb : b = j
      · subst hb; simp [hd i b h]
      · simp [hb]
  · simp only [invertDiagonal, vsum_real, transc_log]
    rw [hA, Matrix.det_diagonal, Real.log_prod (fun i _ => (hp i).ne')]

end GT
