import GT.Model.Pdf
/-!
# `gaussian_toolbox/experimental/truncated_measure.py` and `experimental/misc.py`

A truncated measure wraps a one-dimensional `MeasureB R 1 α` and two limit arrays.  The code stores
`±jnp.inf` in float arrays and branches on `jnp.isfinite`; here an infinite limit is the explicit
constructor of `Lim`, so that the same definitions make sense over the reals.  The arrays
`lower_limit`, `upper_limit`, `alpha`, `beta` have shape `(R, 1)` in the code; the model drops
the trailing axis of length one (`Arr R (Lim α)`), results documented as `"R 1"` keep it
(`Arr R (Vec 1 α)`).

One definition per method, same intermediate quantities, same `jnp.where` branches — including
the branches that are dead because `Z` was overwritten before being tested again.
-/
namespace GT

/-- an entry of a limit array: `-inf`, a finite float, `+inf` -/
inductive Lim (α : Type) where
  | negInf
  | fin (x : α)
  | posInf

/-- a limit as the caller passes it (`None` is `Option.none`): a scalar or an `(R,1)` array -/
inductive LimArg (R : Nat) (α : Type) where
  | scalar (l : Lim α)
  | perComp (l : Arr R (Lim α))

/-- `TruncatedGaussianMeasure` / `TruncatedGaussianPDF` after `__post_init__` -/
structure TruncB (R : Nat) (α : Type) where
  /-- `TruncatedGaussianPDF`? -/
  isPdf : Bool
  measure : MeasureB R 1 α
  lower : Arr R (Lim α)
  upper : Arr R (Lim α)
  density : PdfV R 1 α
  constant : Arr R α
  alpha : Arr R (Lim α)
  beta : Arr R (Lim α)

/-- Pascal recursion (the equations of Mathlib's `Nat.choose`; no Mathlib here). -/
def choose : Nat → Nat → Nat
  | _, 0 => 1
  | 0, _ + 1 => 0
  | n + 1, k + 1 => choose n k + choose n (k + 1)

section
variable {α : Type} [Add α] [Sub α] [Mul α] [Div α] [Neg α] [OfNat α 0] [OfNat α 1] [Transc α]
variable {R : Nat}

/-! ## `misc.py` -/

/-- `binom(k, i)`: `round(exp(gammaln(k+1) - gammaln(i+1) - gammaln(k-i+1)))` as an integer, used as
a float factor. -/
def binom (k i : Nat) : α := ofNat (choose k i)

/-- `x ** n` for a non-negative integer exponent -/
def npow (x : α) : Nat → α
  | 0 => 1
  | n + 1 => npow x n * x

/-- `normal_pdf(x) = norm.pdf(x)` -/
def normalPdf (x : α) : α := Transc.exp (-(x * x) / two) / Transc.sqrt (two * Transc.pi)

/-- `normal_cdf(x)`: `y = norm.cdf(x); where(y < 1, y, 1 + norm.logcdf(x))` -/
def normalCdf (x : α) : α :=
  let y := Transc.normCdf x
  if Transc.lt y 1 then y else 1 + Transc.normLogCdf x

/-- `z != 0` -/
def ne0 (z : α) : Bool := Transc.lt z 0 || Transc.lt 0 z

namespace Lim

/-- `jnp.isfinite` -/
def isFinite : Lim α → Bool
  | fin _ => true
  | _ => false

/-- `jnp.where(jnp.isfinite(l), l, 0)` -/
def finOr0 : Lim α → α
  | fin x => x
  | _ => 0

/-- `normal_cdf` on an entry: `norm.cdf(-inf) = 0 < 1`; `norm.cdf(inf) = 1`, hence the patched
branch `1 + norm.logcdf(inf) = 1 + 0`. -/
def cdf : Lim α → α
  | negInf => 0
  | fin x => normalCdf x
  | posInf => 1

/-- `-l` -/
def neg : Lim α → Lim α
  | negInf => posInf
  | fin x => fin (-x)
  | posInf => negInf

/-- `l > 0` as `jnp` evaluates it -/
def isPos : Lim α → Bool
  | negInf => false
  | fin x => Transc.lt 0 x
  | posInf => true

/-- `_cdf_difference(alpha, beta)`: `Phi(beta) - Phi(alpha)`, evaluated as
`Phi(-alpha) - Phi(-beta)` when `alpha > 0` (upper tail) -/
def cdfDifference (a b : Lim α) : α :=
  let lo := if a.isPos then b.neg else a
  let hi := if a.isPos then a.neg else b
  hi.cdf - lo.cdf

/-- `normal_pdf` on an entry (`norm.pdf(±inf) = 0`) -/
def pdf : Lim α → α
  | fin x => normalPdf x
  | _ => 0

/-- `jnp.where(jnp.isfinite(l), l ** n * normal_pdf(l), 0)` -/
def powPdf (l : Lim α) (n : Nat) : α :=
  match l with
  | fin x => npow x n * normalPdf x
  | _ => 0

/-- `jnp.greater_equal(x, l)` for a finite `x` -/
def geOf (x : α) : Lim α → Bool
  | negInf => true
  | fin a => !(Transc.lt x a)
  | posInf => false

/-- `jnp.less_equal(x, l)` for a finite `x` -/
def leOf (x : α) : Lim α → Bool
  | negInf => false
  | fin b => !(Transc.lt b x)
  | posInf => true

end Lim

/-! ## `TruncatedGaussianMeasure.__post_init__` -/

/-- `_check_limits`; `none` = `ValueError` (both limits omitted).  A given limit is broadcast by
`* jnp.ones((R, D))`. -/
def checkLimits (lower upper : Option (LimArg R α)) : Option (Arr R (Lim α) × Arr R (Lim α)) :=
  let bc : LimArg R α → Arr R (Lim α) := fun a => match a with
    | .scalar l => tab fun _ => l
    | .perComp l => l
  match lower, upper with
  | none, none => none
  | none, some u => some (tab fun _ => Lim.negInf, bc u)
  | some l, none => some (bc l, tab fun _ => Lim.posInf)
  | some l, some u => some (bc l, bc u)

/-- `alpha` / `beta`:
`where(isfinite(l), (where(isfinite(l), l, 0) - density.mu) * sqrt(density.Lambda[:, :, 0]), l)` -/
def standardise (d : PdfV R 1 α) (l : Arr R (Lim α)) : Arr R (Lim α) :=
  tab fun r => match l r with
    | .fin _ => .fin (((l r).finOr0 - d.mu r 0) * Transc.sqrt (d.Lambda r 0 0))
    | .negInf => .negInf
    | .posInf => .posInf

/-- `TruncatedGaussianMeasure(measure=…, lower_limit=…, upper_limit=…)`.  Returns the measure
object as the constructor leaves it (`get_density()` and `integrate()` fill its caches) and the
new object; `none` = `ValueError` of `_check_limits`.  (`assert measure.D == 1` is the type.) -/
def mkTruncMeasure (be : Backend α) (m : MeasureB R 1 α) (lower upper : Option (LimArg R α)) :
    Option (MeasureB R 1 α × TruncB R α) :=
  match checkLimits lower upper with
  | none => none
  | some (lo, up) =>
    -- `if not isinstance(measure, GaussianPDF): density = measure.get_density() else: density = measure`
    let md := if m.cls.isPdf then (m, m) else m.getDensity be
    -- `self.constant = self.measure.integrate()`
    let mc := md.1.integral be
    match md.2.asPdf with
    | none => none   -- dead: a density carries `Sigma`, `mu`, `lnZ`
    | some d =>
      some (mc.1, ⟨false, mc.1, lo, up, d, mc.2, standardise d lo, standardise d up⟩)

namespace TruncB
variable (t : TruncB R α)

/-- `_expectation_integral`: `squeeze(_cdf_difference(alpha, beta))` -/
def expectationIntegral : Arr R α := tab fun r => Lim.cdfDifference (t.alpha r) (t.beta r)

/-- `integral`: `_expectation_integral() * constant` -/
def integral : Arr R α :=
  let Z := t.expectationIntegral
  tab fun r => Z r * t.constant r

/-- the support indicator of `__call__` (`jnp.all` over the single coordinate) -/
def inLimits (r : Fin R) (x : Vec 1 α) : Bool :=
  Lim.geOf (x 0) (t.lower r) && Lim.leOf (x 0) (t.upper r)

/-- `TruncatedGaussianMeasure.__call__` at one point for component `r`: `measure(x) * in_limits` -/
def callBase (r : Fin R) (x : Vec 1 α) : α :=
  t.measure.toB.eval r x * (if t.inLimits r x then 1 else 0)

/-- `__call__` of the object's own class (`TruncatedGaussianPDF` multiplies by `constant`) -/
def call (r : Fin R) (x : Vec 1 α) : α :=
  if t.isPdf then t.callBase r x * t.constant r else t.callBase r x

/-- `__call__(x)` (`element_wise=False`): `[R, N]` -/
def callAll {N : Nat} (x : Arr N (Vec 1 α)) : Arr R (Arr N α) := tab2 fun r n => t.call r (x n)

/-- `__call__(x, element_wise=True)`: `[R]` -/
def callEw (x : Arr R (Vec 1 α)) : Arr R α := tab fun r => t.call r (x r)

/-- `_expectation_x` -/
def expectationX : Arr R (Vec 1 α) :=
  let Z0 := t.expectationIntegral
  tab2 fun r i =>
    let Z := if ne0 (Z0 r) then Z0 r else 1
    let mean := t.density.mu r i
      + ((t.alpha r).pdf - (t.beta r).pdf) / Z * Transc.sqrt (t.density.Sigma r i 0)
    -- `jnp.where(Z != 0, mean, 0.0)` tests the *overwritten* `Z`
    if ne0 Z then mean else 0

/-- `integrate_x` -/
def integrateX : Arr R (Vec 1 α) :=
  let E := t.expectationX
  let I := t.integral
  tab2 fun r i => E r i * I r

/-- `_get_variance` -/
def getVariance : Arr R (Vec 1 α) :=
  let Z0 := t.expectationIntegral
  tab2 fun r i =>
    let Z := if ne0 (Z0 r) then Z0 r else 1
    let betaPdf := (if (t.upper r).isFinite then (t.beta r).finOr0 else 0) * (t.beta r).pdf
    let alphaPdf := (if (t.lower r).isFinite then (t.alpha r).finOr0 else 0) * (t.alpha r).pdf
    let dp := (t.alpha r).pdf - (t.beta r).pdf
    let variance := t.density.Sigma r i 0 * (1 - (betaPdf - alphaPdf) / Z - dp * dp / (Z * Z))
    if ne0 Z then variance else 0

/-- `integrate_x_pow_2`: `(variance + mu**2) * integral()[:, None]` -/
def integrateXPow2 : Arr R (Vec 1 α) :=
  let V := t.getVariance
  let E := t.expectationX
  let I := t.integral
  tab2 fun r i => (V r i + E r i * E r i) * I r

/-- `denominator` of `_get_moment` after `where(denominator != 0, denominator, 1.0)` -/
def momentDen : Arr R α :=
  tab fun r =>
    let d := Lim.cdfDifference (t.alpha r) (t.beta r)
    if ne0 d then d else 1

/-- the carry of `lax.scan(scan_function, (L0, L1), arange(2, order+1))` after `j` steps,
`(L_j, L_{j+1})`; step `j` (0-based) processes `k = j + 2`:
`L_new = -(beta**(k-1) pdf(beta) - alpha**(k-1) pdf(alpha)) / denominator + (k-1) * L2`. -/
def scanCarry (a b : Lim α) (den : α) : Nat → α × α
  | 0 => (1, -(b.pdf - a.pdf) / den)
  | j + 1 =>
    let c := scanCarry a b den j
    (c.2, -(b.powPdf (j + 1) - a.powPdf (j + 1)) / den + ofNat (j + 1) * c.1)

/-- number of rows of `Ls = concatenate([L0[None], L1[None], scan outputs])[: order + 1]` -/
def lsRows (order : Nat) : Nat := order + 1

/-- `Ls`, `[lsRows order, R]` -/
def scanLs (order : Nat) : Arr (lsRows order) (Arr R α) :=
  let den := t.momentDen
  tab2 fun j r => match j.1 with
    | 0 => 1
    | k + 1 => (scanCarry (t.alpha r) (t.beta r) (den r) k).2

/-- the summand array
`binom(order, k_range) * sqrt(Sigma[:, :, 0].T) ** k_range * mu.T ** (order - k_range) * Ls`.
`k_range` has shape `(order+1, 1)` and `Ls` has `order + 1` rows. -/
def momentTerms (order : Nat) : Arr (lsRows order) (Arr R α) :=
  let Ls := t.scanLs order
  tab2 fun j r =>
    let k := j.1
    binom order k * npow (Transc.sqrt (t.density.Sigma r 0 0)) k * npow (t.density.mu r 0) (order - k)
      * Ls j r

/-- `_get_moment(order)` (`return_all=False`): `[R]` -/
def getMoment (order : Nat) : Arr R α :=
  let terms := t.momentTerms order
  let den := t.momentDen
  tab fun r =>
    let moments := vsum fun j => terms j r
    -- tests the overwritten `denominator`
    if ne0 (den r) then moments else 0

/-- `_get_moment(order, return_all=True)`: `cumsum` over the rows, `[lsRows order, R]` -/
def getMomentAll (order : Nat) : Arr (lsRows order) (Arr R α) :=
  let terms := t.momentTerms order
  let den := t.momentDen
  tab2 fun j r =>
    let moments := vsum fun (i : Fin (lsRows order)) => if i.1 ≤ j.1 then terms i r else 0
    if ne0 (den r) then moments else 0

/-- `integrate_x_pow_k(k)`: `_get_moment(k)[:, None] * integral()[:, None]` -/
def integrateXPowK (k : Nat) : Arr R (Vec 1 α) :=
  let M := t.getMoment k
  let I := t.integral
  tab2 fun r _ => M r * I r

/-- `TruncatedGaussianPDF.get_std` -/
def getStd : Arr R (Vec 1 α) :=
  let V := t.getVariance
  tab2 fun r i => Transc.sqrt (V r i)

end TruncB

/-- `TruncatedGaussianPDF(measure=…, lower_limit=…, upper_limit=…)`: the parent constructor, then
`self.measure = self.density` (the normalised base density is what gets evaluated) and
`constant = 1.0 / _expectation_integral()`. -/
def mkTruncPdf (be : Backend α) (m : MeasureB R 1 α) (lower upper : Option (LimArg R α)) :
    Option (MeasureB R 1 α × TruncB R α) :=
  match mkTruncMeasure be m lower upper with
  | none => none
  | some (m, t) =>
    let Z := t.expectationIntegral
    some (m, { t with isPdf := true, measure := t.density.toMeasure, constant := tab fun r => 1 / Z r })

/-- `get_density()`: `TruncatedGaussianPDF(measure=self.density, lower_limit=self.lower_limit,
upper_limit=self.upper_limit)`. -/
def TruncB.getDensity (be : Backend α) (t : TruncB R α) : Option (TruncB R α) :=
  (mkTruncPdf be t.density.toMeasure (some (.perComp t.lower)) (some (.perComp t.upper))).map (·.2)

end
end GT
