import GT.Model.Tensor
/-!
# External primitives (JAX / LAPACK) as an explicit backend

Calls that leave the library are fields of `Backend`.  For proofs their documented contract is
the hypothesis `Backend.Spec` (`GT/Bridge/BackendSpec.lean`); for execution `Backend.std`
is a textbook implementation.  The library's *own* code on top of them (`utils/linalg.py`)
is model code: `invertMatrix`, `invertDiagonal`.
-/
namespace GT

structure Backend (α : Type) where
  /-- `jsc.linalg.cho_factor(A)[0]` as a lower-triangular `L` with `L Lᵀ = A` (the library only
  reads its diagonal, which is the same for the upper factor JAX actually returns). -/
  choFactor : {n : Nat} → Mat n n α → Mat n n α
  /-- `jsc.linalg.cho_solve((L, _), B) = (L Lᵀ)⁻¹ B` -/
  choSolve : {n k : Nat} → Mat n n α → Mat n k α → Mat n k α
  /-- `jnp.linalg.slogdet(A)[1] = log |det A|` -/
  slogdet : {n : Nat} → Mat n n α → α
  /-- `jnp.linalg.cholesky(A)` (lower) -/
  cholesky : {n : Nat} → Mat n n α → Mat n n α

section
variable {α : Type} [Add α] [Sub α] [Mul α] [Div α] [Neg α] [OfNat α 0] [OfNat α 1] [Transc α]

/-- `utils.linalg.invert_matrix` for one matrix: `(A⁻¹, ln det A)`. -/
def invertMatrix (be : Backend α) {n : Nat} (A : Mat n n α) : Mat n n α × α :=
  let L := be.choFactor A
  let Ainv := be.choSolve L (eye : Mat n n α)
  let lnDet := two * vsum fun i => Transc.log (L i i)
  (Ainv, lnDet)

/-- `utils.linalg.invert_diagonal` for one matrix. -/
def invertDiagonal {n : Nat} (A : Mat n n α) : Mat n n α × α :=
  let Ainv : Mat n n α := tab2 fun i j => (1 : α) / A i i * (eye : Mat n n α) i j
  let lnDet := vsum fun i => Transc.log (A i i)
  (Ainv, lnDet)

/-! ## textbook implementation used for execution -/

private def getA (a : Array (Array α)) (i j : Nat) : α := (a.getD i #[]).getD j 0

/-- Cholesky–Banachiewicz, row by row. -/
def cholArr (n : Nat) (A : Nat → Nat → α) : Array (Array α) := Id.run do
  let mut L : Array (Array α) := Array.replicate n (Array.replicate n (0 : α))
  for i in [0:n] do
    for j in [0:i+1] do
      let mut s : α := A i j
      for k in [0:j] do
        s := s - getA L i k * getA L j k
      let v : α := if i = j then Transc.sqrt s else s / getA L j j
      L := L.set! i ((L.getD i #[]).set! j v)
  return L

def choleskyStd {n : Nat} (A : Mat n n α) : Mat n n α :=
  let L := cholArr n (fun i j => if h : i < n ∧ j < n then A ⟨i, h.1⟩ ⟨j, h.2⟩ else 0)
  tab2 fun i j => getA L i.1 j.1

/-- solve `L Lᵀ X = B` by forward and back substitution -/
def choSolveStd {n k : Nat} (L : Mat n n α) (B : Mat n k α) : Mat n k α :=
  let Lf : Nat → Nat → α := fun i j => if h : i < n ∧ j < n then L ⟨i, h.1⟩ ⟨j, h.2⟩ else 0
  let X : Array (Array α) := Id.run do
    -- forward: L Y = B
    let mut Y : Array (Array α) := Array.replicate n (Array.replicate k (0 : α))
    for i in [0:n] do
      for c in [0:k] do
        let mut s : α := if h : i < n ∧ c < k then B ⟨i, h.1⟩ ⟨c, h.2⟩ else 0
        for l in [0:i] do
          s := s - Lf i l * getA Y l c
        Y := Y.set! i ((Y.getD i #[]).set! c (s / Lf i i))
    -- backward: Lᵀ X = Y
    let mut X : Array (Array α) := Array.replicate n (Array.replicate k (0 : α))
    for ii in [0:n] do
      let i := n - 1 - ii
      for c in [0:k] do
        let mut s : α := getA Y i c
        for l in [i+1:n] do
          s := s - Lf l i * getA X l c
        X := X.set! i ((X.getD i #[]).set! c (s / Lf i i))
    return X
  tab2 fun i c => getA X i.1 c.1

/-- `log |det A|` by Gaussian elimination with partial pivoting. -/
def slogdetStd {n : Nat} (A : Mat n n α) : α := Id.run do
  let absα : α → α := fun x => if Transc.lt x 0 then -x else x
  let mut M : Array (Array α) := Array.ofFn fun (i : Fin n) => (A i).data
  let mut acc : α := 0
  for c in [0:n] do
    -- pivot
    let mut p := c
    for r in [c+1:n] do
      if Transc.lt (absα (getA M p c)) (absα (getA M r c)) then p := r
    if p ≠ c then
      let rp := M.getD p #[]
      let rc := M.getD c #[]
      M := (M.set! p rc).set! c rp
    let piv := getA M c c
    acc := acc + Transc.log (absα piv)
    for r in [c+1:n] do
      let f := getA M r c / piv
      let mut row := M.getD r #[]
      for j in [c:n] do
        row := row.set! j (row.getD j 0 - f * getA M c j)
      M := M.set! r row
  return acc

/-- Backend used by the driver. -/
def Backend.std : Backend α where
  choFactor := fun A => choleskyStd A
  choSolve := fun L B => choSolveStd L B
  slogdet := fun A => slogdetStd A
  cholesky := fun A => choleskyStd A

end
end GT
