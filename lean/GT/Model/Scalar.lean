/-!
# Scalars of the executable model

No Mathlib import.  The model is written against bare operation classes
(`Add α`, `Mul α`, …) plus the law-free class `Transc α` below, so that the same
definitions run on `Float` (correspondence check) and are reasoned about at `ℝ`
(`GT/Bridge/RealInst.lean`), where `+`, `*`, … are syntactically Mathlib's.
-/
namespace GT

/-- Transcendental and order primitives the library uses; **no laws**. -/
class Transc (α : Type) where
  log : α → α
  exp : α → α
  sqrt : α → α
  pi : α
  /-- standard normal cdf `Φ` -/
  normCdf : α → α
  /-- `log Φ` (used by the patched `normal_cdf` in `experimental/misc.py`) -/
  normLogCdf : α → α
  tanh : α → α
  cosh : α → α
  /-- strict order test used by indicator / `jnp.where` branches -/
  lt : α → α → Bool
  /-- fill value of out-of-range `jnp.take` -/
  nan : α

section
variable {α : Type} [Add α] [Sub α] [Mul α] [Div α] [Neg α] [OfNat α 0] [OfNat α 1]

/-- the numeral `2` -/
def two : α := (1 : α) + 1
/-- `0.5` -/
def half : α := (1 : α) / two
/-- a natural number as a scalar (`D * log(2π)` etc.) -/
def ofNat : Nat → α
  | 0 => 0
  | n + 1 => ofNat n + 1

variable [Transc α]
/-- `log (2π)` -/
def log2pi : α := Transc.log (two * Transc.pi)
end

/-! ## `Float` instance: used only for execution -/

/-- `erfc` for `x ≥ 0` after W. J. Cody's rational Chebyshev approximations (as in
netlib `specfun/erf`), relative accuracy ≈ 1e-16.  Used only for execution. -/
def Float.erfcPos (x : Float) : Float :=
  if x < 0.46875 then
    -- erf(x) = x * P(x²)/Q(x²)
    let a : Array Float := #[3.16112374387056560e00, 1.13864154151050156e02, 3.77485237685302021e02,
      3.20937758913846947e03, 1.85777706184603153e-1]
    let b : Array Float := #[2.36012909523441209e01, 2.44024637934444173e02, 1.28261652607737228e03,
      2.84423683343917062e03]
    let y := x * x
    let xnum := a[4]! * y
    let xden := y
    let (xnum, xden) := (List.range 3).foldl (fun (p : Float × Float) i =>
      ((p.1 + a[i]!) * y, (p.2 + b[i]!) * y)) (xnum, xden)
    1.0 - x * (xnum + a[3]!) / (xden + b[3]!)
  else if x < 4.0 then
    let c : Array Float := #[5.64188496988670089e-1, 8.88314979438837594e00, 6.61191906371416295e01,
      2.98635138197400131e02, 8.81952221241769090e02, 1.71204761263407058e03,
      2.05107837782607147e03, 1.23033935479799725e03, 2.15311535474403846e-8]
    let d : Array Float := #[1.57449261107098347e01, 1.17693950891312499e02, 5.37181101862009858e02,
      1.62138957456669019e03, 3.29079923573345963e03, 4.36261909014324716e03,
      3.43936767414372164e03, 1.23033935480374942e03]
    let xnum := c[8]! * x
    let xden := x
    let (xnum, xden) := (List.range 7).foldl (fun (p : Float × Float) i =>
      ((p.1 + c[i]!) * x, (p.2 + d[i]!) * x)) (xnum, xden)
    let r := (xnum + c[7]!) / (xden + d[7]!)
    let ysq := Float.floor (x * 16.0) / 16.0
    let del := (x - ysq) * (x + ysq)
    Float.exp (-(ysq * ysq)) * Float.exp (-del) * r
  else
    let p : Array Float := #[3.05326634961232344e-1, 3.60344899949804439e-1, 1.25781726111229246e-1,
      1.60837851487422766e-2, 6.58749161529837803e-4, 1.63153871373020978e-2]
    let q : Array Float := #[2.56852019228982242e00, 1.87295284992346725e00, 5.27905102951428412e-1,
      6.05183413124413191e-2, 2.33520497626869185e-3]
    let sqrpi : Float := 5.6418958354775628695e-1
    let y := 1.0 / (x * x)
    let xnum := p[5]! * y
    let xden := y
    let (xnum, xden) := (List.range 4).foldl (fun (pr : Float × Float) i =>
      ((pr.1 + p[i]!) * y, (pr.2 + q[i]!) * y)) (xnum, xden)
    let r := y * (xnum + p[4]!) / (xden + q[4]!)
    let r := (sqrpi - r) / x
    let ysq := Float.floor (x * 16.0) / 16.0
    let del := (x - ysq) * (x + ysq)
    Float.exp (-(ysq * ysq)) * Float.exp (-del) * r

/-- `erfc` on all of `Float`. -/
def Float.erfc' (x : Float) : Float :=
  if x.isNaN then x
  else if x ≥ 0.0 then (if x > 27.0 then 0.0 else Float.erfcPos x)
  else (if x < -27.0 then 2.0 else 2.0 - Float.erfcPos (-x))

/-- `Φ(x) = ½ erfc(−x/√2)`. -/
def Float.normCdf' (x : Float) : Float :=
  -- [trunc] the argument is scaled by the constant `½√2` as `jax.scipy.special.ndtr` does (was `x / √2`):
  -- in the lower tail `Φ` has condition number `x²`, so the two roundings of `x/√2` differ by up to `x²·1e-16`
  0.5 * Float.erfc' (-(x * 0.70710678118654752440))

/-- `log Φ(x)`; for very negative `x` the asymptotic expansion keeps it finite. -/
def Float.normLogCdf' (x : Float) : Float :=
  if x > -20.0 then
    (if x > 0.0 then
      -- [trunc] `log1p(−ε)` with `ε = Φ(−x)` (Kahan: `log w · u / (w − 1)` with `w = 1 + u`); was
      -- `log Φ(x)` up to `x = 5`, which loses the digits of `ε` (relative error `1e-16/ε`)
      (fun (u : Float) =>
        let w := 1.0 + u
        if w == 1.0 then u else Float.log w * u / (w - 1.0)) (0.0 - Float.normCdf' (-x))
     else Float.log (Float.normCdf' x))
  else
    let x2 := x * x
    let y := 1.0 / x2
    -- [trunc] `Φ(x) ≈ φ(x)/|x| (1 − 1/x² + 3/x⁴ − 15/x⁶ + 105/x⁸ − 945/x¹⁰ + 10395/x¹² − 135135/x¹⁴)`; the three
    -- extra terms bring the truncation error at `x = −20` from `9e-11` down to `3e-15`
    let ser := 1.0 - y * (1.0 - 3.0 * y * (1.0 - 5.0 * y * (1.0 - 7.0 * y * (1.0 - 9.0 * y * (1.0 - 11.0 * y * (1.0 - 13.0 * y))))))
    0.0 - (x2 / 2.0) - Float.log (-x) - 0.5 * Float.log (2.0 * 3.14159265358979323846) + Float.log ser

instance : Transc Float where
  log := Float.log
  exp := Float.exp
  sqrt := Float.sqrt
  pi := 3.14159265358979323846
  normCdf := Float.normCdf'
  normLogCdf := Float.normLogCdf'
  tanh := Float.tanh
  cosh := Float.cosh
  lt := fun a b => a < b
  nan := 0.0 / 0.0

end GT
