import GT.Model.Pdf
/-!
# Polynomial integrals of `GaussianMeasure` (`measure.py:294-1036`)

Every `integrate_*` first calls `self.integral()` (which fills the caches) and multiplies the
normalised expectation by it.  Expectations are written per component, with the same
intermediate quantities as the einsum code.
-/
namespace GT

/-- a matrix argument as the caller may pass it: shared (2-D) or per component (3-D) -/
inductive MatArg (R K D : Nat) (α : Type) where
  | shared (A : Mat K D α)
  | perComp (A : Arr R (Mat K D α))

inductive VecArg (R K : Nat) (α : Type) where
  | shared (a : Vec K α)
  | perComp (a : Arr R (Vec K α))

/-- an affine form `A x + a` per component, after `_get_default` and einsum broadcasting -/
structure AffForm (R K D : Nat) (α : Type) where
  A : Arr R (Mat K D α)
  a : Arr R (Vec K α)

/-- what `_prepare_integration` leaves behind, plus the total mass -/
structure IntV (R D : Nat) (α : Type) where
  mass : Arr R α
  mu : Arr R (Vec D α)
  Sigma : Arr R (Mat D D α)

section
variable {α : Type} [Add α] [Sub α] [Mul α] [Div α] [Neg α] [OfNat α 0] [OfNat α 1] [Transc α]
variable {R D K L M : Nat}

/-- `_get_default(mat, vec)`: an omitted matrix is the identity (`K = D` in that case; the
rectangular identity below *is* `eye(D)` then), an omitted vector is zero; shared coefficients
are used for every component. -/
def getDefault (mat : Option (MatArg R K D α)) (vec : Option (VecArg R K α)) : AffForm R K D α :=
  let A : Arr R (Mat K D α) := match mat with
    | none => tab fun _ => tab2 fun i j => if i.1 = j.1 then 1 else 0
    | some (.shared A) => tab fun _ => A
    | some (.perComp A) => A
  let a : Arr R (Vec K α) := match vec with
    | none => tab fun _ => zeroV
    | some (.shared a) => tab fun _ => a
    | some (.perComp a) => a
  ⟨A, a⟩

/-- `self.integral()` followed by reading `mu`, `Sigma`. -/
def MeasureB.intView (be : Backend α) (m : MeasureB R D α) : MeasureB R D α × IntV R D α :=
  let (m, mass) := m.integral be
  match m.cov, m.mu with
  | some c, some mu => (m, ⟨mass, mu, c.Sigma⟩)
  | _, _ => (m, ⟨mass, tab fun _ => zeroV, tab fun _ => zeroM⟩)   -- dead after `integral`

namespace IntV
variable (v : IntV R D α)

/-- `A μ + a` -/
def aff (f : AffForm R K D α) (r : Fin R) : Vec K α := vadd (mulVec (f.A r) (v.mu r)) (f.a r)

/-- `A Σ Bᵀ` as `einsum("cab,cbd->cad", A, einsum("abc,adc->abd", Sigma, B))` -/
def ASB (f : AffForm R K D α) (g : AffForm R L D α) (r : Fin R) : Mat K L α :=
  mmul (f.A r) (mmul (v.Sigma r) (transpose (g.A r)))

/-- `_expectation_xxT`: `Sigma + einsum("ab,ac->acb", mu, mu)` -/
def Exx (r : Fin R) : Mat D D α := tab2 fun i j => v.Sigma r i j + v.mu r j * v.mu r i

def integrateX : Arr R (Vec D α) := tab2 fun r i => v.mass r * v.mu r i

def integrateLinear (f : AffForm R K D α) : Arr R (Vec K α) :=
  tab fun r => smulV (v.mass r) (v.aff f r)

def integrateXXT : Arr R (Mat D D α) := tab fun r => smulM (v.mass r) (v.Exx r)

/-- `_expectation_general_quadratic_inner` -/
def expQuadInner (f g : AffForm R K D α) (r : Fin R) : α :=
  let AB := (mmul (transpose (f.A r)) (g.A r))
  let tr := trace (mmul AB (v.Sigma r))
  let muABmu := dot (vecMul (v.mu r) AB) (v.mu r)
  let muAb := dot (mulVec (f.A r) (v.mu r)) (g.a r)
  let aBmb := dot (f.a r) (v.aff g r)
  tr + muABmu + muAb + aBmb

def integrateQuadInner (f g : AffForm R K D α) : Arr R α :=
  tab fun r => v.mass r * v.expQuadInner f g r

/-- `_expectation_general_quadratic_outer` -/
def expQuadOuter (f : AffForm R K D α) (g : AffForm R L D α) (r : Fin R) : Mat K L α :=
  let Exx := (v.Exx r)
  let AxxB := (mmul (f.A r) ((mmul Exx (transpose (g.A r)))))
  let Am := (mulVec (f.A r) (v.mu r))
  let Bmb := (v.aff g r)
  tab2 fun i j => AxxB i j + Am i * g.a r j + f.a r i * Bmb j

def integrateQuadOuter (f : AffForm R K D α) (g : AffForm R L D α) : Arr R (Mat K L α) :=
  tab fun r => smulM (v.mass r) (v.expQuadOuter f g r)

/-- `_expectation_xbxx(b_vec)` -/
def expXbxx (b : Arr R (Vec D α)) (r : Fin R) : Mat D D α :=
  let Exx := (v.Exx r)
  let mbExx := (mmul (outer (v.mu r) (b r)) Exx)
  let bmu := dot (v.mu r) (b r)
  let Sbm := (mmul (v.Sigma r) (outer (b r) (v.mu r)))
  tab2 fun i j => mbExx i j + bmu * v.Sigma r i j + Sbm i j

def integrateXbxx (b : Arr R (Vec D α)) : Arr R (Mat D D α) :=
  tab fun r => smulM (v.mass r) (v.expXbxx b r)

/-- `_expectation_cubic_outer(A[:,0], a[:,0])`: `x (Aᵀx + a) xᵀ` with vector `A`, scalar `a` -/
def expCubicOuter (A : Arr R (Vec D α)) (a : Arr R α) (r : Fin R) : Mat D D α :=
  let X := v.expXbxx A r
  let E := v.Exx r
  tab2 fun i j => X i j + a r * E i j

def integrateCubicOuter (A : Arr R (Vec D α)) (a : Arr R α) : Arr R (Mat D D α) :=
  tab fun r => smulM (v.mass r) (v.expCubicOuter A a r)

/-- `_expectation_general_cubic_inner`: `(Ax+a)(Bx+b)ᵀ(Cx+c)`, result in `ℝ^K` -/
def expCubicInner (f : AffForm R K D α) (g h : AffForm R L D α) (r : Fin R) : Vec K α :=
  let Am := (v.aff f r)
  let Bm := (v.aff g r)
  let Cm := (v.aff h r)
  let BSC := v.ASB g h r
  let BmCm := dot Bm Cm
  let BCm := vecMul Cm (g.A r)        -- einsum("cab,ca->cb", B, Cmu_c)
  let CBm := vecMul Bm (h.A r)
  let AS := (mmul (f.A r) (v.Sigma r))
  let first := mulVec AS ((vadd BCm CBm))
  let s := trace BSC + BmCm
  tab fun i => first i + Am i * s

def integrateCubicInner (f : AffForm R K D α) (g h : AffForm R L D α) : Arr R (Vec K α) :=
  tab fun r => smulV (v.mass r) (v.expCubicInner f g h r)

/-- `_expectation_general_cubic_outer`: `(Ax+a)ᵀ(Bx+b)(Cx+c)ᵀ`, result in `ℝ^L` -/
def expCubicOuterG (f g : AffForm R K D α) (h : AffForm R L D α) (r : Fin R) : Vec L α :=
  let Am := (v.aff f r)
  let Bm := (v.aff g r)
  let Cm := (v.aff h r)
  let BSC := v.ASB g h r
  let ASC := v.ASB f h r
  let ASBm := v.ASB f g r
  let AmBm := dot Am Bm
  let first := vecMul Am (tab2 fun i j => BSC i j + Bm i * Cm j)
  let second := vecMul Bm (tab2 fun i j => ASC i j + Am i * Cm j)
  let tr := trace ASBm
  tab fun j => first j + second j + (-AmBm) * Cm j + tr * Cm j

def integrateCubicOuterG (f g : AffForm R K D α) (h : AffForm R L D α) : Arr R (Vec L α) :=
  tab fun r => smulV (v.mass r) (v.expCubicOuterG f g h r)

/-- `_expectation_general_quartic_outer`: `(Ax+a)(Bx+b)ᵀ(Cx+c)(Dx+d)ᵀ`, result `K × M` -/
def expQuarticOuter (f : AffForm R K D α) (g h : AffForm R L D α) (e : AffForm R M D α)
    (r : Fin R) : Mat K M α :=
  let Am := (v.aff f r)
  let Bm := (v.aff g r)
  let Cm := (v.aff h r)
  let Dm := (v.aff e r)
  let ASBm := v.ASB f g r
  let CSD := v.ASB h e r
  let ASC := v.ASB f h r
  let BSD := v.ASB g e r
  let ASD := v.ASB f e r
  let BSC := v.ASB g h r
  let BmCm := dot Bm Cm
  let first := (mmul (tab2 fun i j => ASBm i j + Am i * Bm j) (tab2 fun i j => CSD i j + Cm i * Dm j))
  let second := (mmul (tab2 fun i j => ASC i j + Am i * Cm j) (tab2 fun i j => BSD i j + Bm i * Dm j))
  let tr := trace BSC
  tab2 fun i j => first i j + second i j + BmCm * (ASD i j - Am i * Dm j) + tr * (ASD i j + Am i * Dm j)

def integrateQuarticOuter (f : AffForm R K D α) (g h : AffForm R L D α) (e : AffForm R M D α) :
    Arr R (Mat K M α) :=
  tab fun r => smulM (v.mass r) (v.expQuarticOuter f g h e r)

/-- `_expectation_general_quartic_inner`: `(Ax+a)ᵀ(Bx+b)(Cx+c)ᵀ(Dx+d)` -/
def expQuarticInner (f g : AffForm R K D α) (h e : AffForm R L D α) (r : Fin R) : α :=
  let Am := (v.aff f r)
  let Bm := (v.aff g r)
  let Cm := (v.aff h r)
  let Dm := (v.aff e r)
  let ASBm := v.ASB f g r
  let CSD := v.ASB h e r
  let AmBm := dot Am Bm
  let CmDm := dot Cm Dm
  let CD := (mmul (transpose (h.A r)) (e.A r))
  let CDDC : Mat D D α := tab2 fun i j => CD i j + CD j i
  let SCDS := (mmul ((mmul (v.Sigma r) CDDC)) (v.Sigma r))
  let ASB' := (mmul ((mmul (f.A r) SCDS)) (transpose (g.A r)))
  let AmB := vecMul Am (g.A r)
  let BmA := vecMul Bm (f.A r)
  let CDm := vecMul Dm (h.A r)     -- einsum("cab,ca->cb", C, Dmu_d)
  let DCm := vecMul Cm (e.A r)
  let first := trace ASB'
  let second := dot (vecMul ((vadd AmB BmA)) (v.Sigma r)) ((vadd CDm DCm))
  let third := (trace ASBm + AmBm) * (trace CSD + CmDm)
  first + second + third

def integrateQuarticInner (f g : AffForm R K D α) (h e : AffForm R L D α) : Arr R α :=
  tab fun r => v.mass r * v.expQuarticInner f g h e r

end IntV

/-- `factor._integrate_log_factor(phi)`: `∫ ln f(x) dφ(x)`; `sf` selects the factor component
(`R_f = 1`: constant; `R_f = R`: identity). -/
def integrateLogFactor {Rf : Nat} (v : IntV R D α) (sf : Fin R → Fin Rf) (f : FactorB Rf D α) :
    Arr R α :=
  let fA : AffForm R D D α := getDefault none none
  let fB : AffForm R D D α := ⟨tab fun r => f.Lambda (sf r), tab fun _ => zeroV⟩
  let quadAll := v.integrateQuadInner fA fB
  let xAll := v.integrateX
  tab fun r =>
    let quad := quadAll r
    let lin := dot (f.nu (sf r)) (xAll r);
    -(half * quad) + lin + f.lnBeta (sf r) * v.mass r

end
end GT
