import GT.Model.Backend
/-!
# `gaussian_toolbox/factor.py` and the cache-carrying part of `measure.py`

A batch of `R` components is an `Arr R _`.  `Factor` is the sum of the four factor classes
with their own parameters; measures and densities used as factors enter as `general`.
`MeasureB` is `GaussianMeasure` / `GaussianDiagMeasure` / `GaussianPDF` / `GaussianDiagPDF`
(tag `cls`) with the lazily filled caches as `Option`s.
-/
namespace GT

structure FactorB (R D : Nat) (α : Type) where
  Lambda : Arr R (Mat D D α)
  nu : Arr R (Vec D α)
  lnBeta : Arr R α

inductive Factor (R D : Nat) (α : Type) where
  | general (f : FactorB R D α)
  | oneRank (v : Arr R (Vec D α)) (g : Arr R α) (nu : Arr R (Vec D α)) (lnBeta : Arr R α)
  | linear (nu : Arr R (Vec D α)) (lnBeta : Arr R α)
  | constant (lnBeta : Arr R α)

/-- covariance cache: `Sigma` together with `ln_det_Sigma` -/
structure Cov (R D : Nat) (α : Type) where
  Sigma : Arr R (Mat D D α)
  lnDetSigma : Arr R α

inductive MCls where
  | measure | diagMeasure | pdf | diagPdf
  deriving DecidableEq, Repr

def MCls.isDiag : MCls → Bool
  | .diagMeasure | .diagPdf => true
  | _ => false

def MCls.isPdf : MCls → Bool
  | .pdf | .diagPdf => true
  | _ => false

structure MeasureB (R D : Nat) (α : Type) where
  cls : MCls
  Lambda : Arr R (Mat D D α)
  nu : Arr R (Vec D α)
  lnBeta : Arr R α
  cov : Option (Cov R D α)
  lnDetLambda : Option (Arr R α)
  mu : Option (Arr R (Vec D α))
  lnZ : Option (Arr R α)

section
variable {α : Type} [Add α] [Sub α] [Mul α] [Div α] [Neg α] [OfNat α 0] [OfNat α 1] [Transc α]
variable {R R1 R2 D : Nat}

/-! ## `ConjugateFactor` -/

/-- `evaluate_ln` at one point for component `r`:
`-0.5 * (Λ x)·x + x·ν + ln_beta`. -/
def FactorB.evalLn (f : FactorB R D α) (r : Fin R) (x : Vec D α) : α :=
  -(half * quad (f.Lambda r) x) + dot x (f.nu r) + f.lnBeta r

def FactorB.eval (f : FactorB R D α) (r : Fin R) (x : Vec D α) : α := Transc.exp (f.evalLn r x)

/-- `OneRankFactor._get_Lambda`: `einsum("ab,ac->abc", v, g*v)`. -/
def oneRankLambda (v : Arr R (Vec D α)) (g : Arr R α) : Arr R (Mat D D α) :=
  tab3 fun r i j => v r i * (g r * v r j)

/-- the `(Lambda, nu, ln_beta)` arrays every factor class exposes after `__post_init__`. -/
def Factor.toB : Factor R D α → FactorB R D α
  | .general f => f
  | .oneRank v g nu lb => ⟨oneRankLambda v g, nu, lb⟩
  | .linear nu lb => ⟨tab fun _ => zeroM, nu, lb⟩
  | .constant lb => ⟨tab fun _ => zeroM, tab fun _ => zeroV, lb⟩

def Factor.evalLn (f : Factor R D α) (r : Fin R) (x : Vec D α) : α := f.toB.evalLn r x

def nanV : Vec D α := tab fun _ => Transc.nan
def nanM : Mat D D α := tab2 fun _ _ => Transc.nan

/-- `slice` (all four classes: `jnp.take` on every stored array, same class returned). -/
def Factor.slice {N : Nat} (f : Factor R D α) (idx : Fin N → Int) : Factor N D α :=
  match f with
  | .general f => .general ⟨take f.Lambda idx nanM, take f.nu idx nanV, take f.lnBeta idx Transc.nan⟩
  | .oneRank v g nu lb =>
      .oneRank (take v idx nanV) (take g idx Transc.nan) (take nu idx nanV) (take lb idx Transc.nan)
  | .linear nu lb => .linear (take nu idx nanV) (take lb idx Transc.nan)
  | .constant lb => .constant (take lb idx Transc.nan)

/-- `ConjugateFactor.product` (inherited unchanged by every factor class): sums over the batch,
returns a general `ConjugateFactor` with one component. -/
def Factor.product (f : Factor R D α) : Factor 1 D α :=
  let b := f.toB
  .general ⟨tab fun _ => tab2 fun i j => vsum fun r => b.Lambda r i j,
            tab fun _ => tab fun i => vsum fun r => b.nu r i,
            tab fun _ => vsum fun r => b.lnBeta r⟩

/-! ## `GaussianMeasure`: construction, caches -/

def MeasureB.toB (m : MeasureB R D α) : FactorB R D α := ⟨m.Lambda, m.nu, m.lnBeta⟩
def MeasureB.evalLn (m : MeasureB R D α) (r : Fin R) (x : Vec D α) : α := m.toB.evalLn r x
def MeasureB.toFactor (m : MeasureB R D α) : Factor R D α := .general m.toB

/-- `GaussianMeasure(Lambda=…, nu=…, ln_beta=…)` (or the diagonal class). -/
def MeasureB.mk0 (cls : MCls) (Lambda : Arr R (Mat D D α)) (nu : Arr R (Vec D α))
    (lnBeta : Arr R α) : MeasureB R D α :=
  ⟨cls, Lambda, nu, lnBeta, none, none, none, none⟩

/-- `invert_matrix` / `invert_diagonal` applied to a batch. -/
def invertBatch (be : Backend α) (diag : Bool) (A : Arr R (Mat D D α)) :
    Arr R (Mat D D α) × Arr R α :=
  let res := tab fun r => if diag then invertDiagonal (A r) else invertMatrix be (A r)
  (tab fun r => (res r).1, tab fun r => (res r).2)

/-- `invert_lambda`: fills `Sigma`, `ln_det_Lambda`, `ln_det_Sigma = -ln_det_Lambda`. -/
def MeasureB.invertLambda (be : Backend α) (m : MeasureB R D α) : MeasureB R D α × Cov R D α :=
  let (Sig, ldL) := invertBatch be m.cls.isDiag m.Lambda
  let c : Cov R D α := ⟨Sig, tab fun r => -(ldL r)⟩
  ({ m with cov := some c, lnDetLambda := some ldL }, c)

/-- the covariance cache, filling it if absent (`if self.Sigma is None: self.invert_lambda()`). -/
def MeasureB.ensureCov (be : Backend α) (m : MeasureB R D α) : MeasureB R D α × Cov R D α :=
  match m.cov with
  | some c => (m, c)
  | none => m.invertLambda be

/-- `compute_lnZ` -/
def MeasureB.computeLnZ (be : Backend α) (m : MeasureB R D α) : MeasureB R D α × Arr R α :=
  let (m, c) := m.ensureCov be
  let lnZ := tab fun r =>
    half * (dot (m.nu r) (mulVec (c.Sigma r) (m.nu r)) + ofNat D * log2pi + c.lnDetSigma r)
  ({ m with lnZ := some lnZ }, lnZ)

/-- `compute_mu` -/
def MeasureB.computeMu (be : Backend α) (m : MeasureB R D α) : MeasureB R D α × Arr R (Vec D α) :=
  let (m, c) := m.ensureCov be
  let mu := tab fun r => mulVec (c.Sigma r) (m.nu r)
  ({ m with mu := some mu }, mu)

/-- `if self.lnZ is None: self.compute_lnZ()` -/
def MeasureB.ensureLnZ (be : Backend α) (m : MeasureB R D α) : MeasureB R D α :=
  match m.lnZ with
  | some _ => m
  | none => (m.computeLnZ be).1

/-- `if self.mu is None: self.compute_mu()` -/
def MeasureB.ensureMu (be : Backend α) (m : MeasureB R D α) : MeasureB R D α :=
  match m.mu with
  | some _ => m
  | none => (m.computeMu be).1

/-- `_prepare_integration` -/
def MeasureB.prepare (be : Backend α) (m : MeasureB R D α) : MeasureB R D α :=
  (m.ensureLnZ be).ensureMu be

/-- the cached `lnZ` (zero if absent; it is always present where this is read) -/
def MeasureB.lnZOr0 (m : MeasureB R D α) : Arr R α :=
  match m.lnZ with
  | some z => z
  | none => tab fun _ => 0

/-- `self.lnZ + self.ln_beta` -/
def MeasureB.lnZPlusLnBeta (m : MeasureB R D α) : Arr R α :=
  tab fun r => m.lnZOr0 r + m.lnBeta r

/-- `log_integral_light` -/
def MeasureB.logIntegralLight (be : Backend α) (m : MeasureB R D α) : MeasureB R D α × Arr R α :=
  let m := m.ensureLnZ be
  (m, m.lnZPlusLnBeta)

/-- `log_integral` -/
def MeasureB.logIntegral (be : Backend α) (m : MeasureB R D α) : MeasureB R D α × Arr R α :=
  let m := m.prepare be
  (m, m.lnZPlusLnBeta)

def MeasureB.integral (be : Backend α) (m : MeasureB R D α) : MeasureB R D α × Arr R α :=
  let (m, li) := m.logIntegral be
  (m, tab fun r => Transc.exp (li r))

def MeasureB.integralLight (be : Backend α) (m : MeasureB R D α) : MeasureB R D α × Arr R α :=
  let (m, li) := m.logIntegralLight be
  (m, tab fun r => Transc.exp (li r))

/-- `normalize`: recompute `lnZ`, set `ln_beta = -lnZ`. -/
def MeasureB.normalize (be : Backend α) (m : MeasureB R D α) : MeasureB R D α :=
  let (m, lnZ) := m.computeLnZ be
  { m with lnBeta := tab fun r => -(lnZ r) }

/-! ## `GaussianPDF.__post_init__` -/

/-- the `Lambda` / `ln_det_Sigma` logic of `GaussianPDF.__post_init__` -/
def pdfPrecision (be : Backend α) (diag : Bool) (Sigma : Arr R (Mat D D α))
    (Lambda : Option (Arr R (Mat D D α))) (lnDetSigma : Option (Arr R α)) :
    Arr R (Mat D D α) × Arr R α :=
  match Lambda with
  | none => invertBatch be diag Sigma
  | some L =>
    match lnDetSigma with
    | some ld => (L, ld)
    | none => (L, tab fun r => be.slogdet (Sigma r))

/-- the object right after `self.nu = …` in `GaussianPDF.__post_init__` -/
def pdfPre (diag : Bool) (Sigma : Arr R (Mat D D α)) (mu : Arr R (Vec D α))
    (Lam : Arr R (Mat D D α)) (ld : Arr R α) : MeasureB R D α :=
  ⟨if diag then .diagPdf else .pdf, Lam, tab fun r => vecMul (mu r) (Lam r), tab fun _ => 0,
    some ⟨Sigma, ld⟩, none, some mu, none⟩

/-- `GaussianPDF(Sigma=…, mu=…, Lambda=…, ln_det_Sigma=…)` / `GaussianDiagPDF(…)`. -/
def mkPdf (be : Backend α) (diag : Bool) (Sigma : Arr R (Mat D D α)) (mu : Arr R (Vec D α))
    (Lambda : Option (Arr R (Mat D D α))) (lnDetSigma : Option (Arr R α)) : MeasureB R D α :=
  let p := pdfPrecision be diag Sigma Lambda lnDetSigma
  -- `_prepare_integration(); normalize()`; `ln_beta` is only assigned by `normalize`
  ((pdfPre diag Sigma mu p.1 p.2).prepare be).normalize be

/-- the density of a prepared measure -/
def MeasureB.densityOf (be : Backend α) (m : MeasureB R D α) : MeasureB R D α :=
  match m.cov, m.mu with
  | some c, some mu => mkPdf be false c.Sigma mu (some m.Lambda) (some c.lnDetSigma)
  | _, _ => m   -- dead: `prepare` fills both

/-- `get_density`: always the full-matrix class. -/
def MeasureB.getDensity (be : Backend α) (m : MeasureB R D α) : MeasureB R D α × MeasureB R D α :=
  let m := m.prepare be
  (m, m.densityOf be)

/-! ## slice / product of measures and densities -/

/-- `slice` for the four measure classes. `none` = the implementation raises
(`jnp.take(None, …)`: `GaussianMeasure.slice` needs `ln_det_Lambda` next to `Sigma`). -/
def MeasureB.slice {N : Nat} (be : Backend α) (m : MeasureB R D α) (idx : Fin N → Int) :
    Option (MeasureB N D α) :=
  let Lam := take m.Lambda idx nanM
  if m.cls.isPdf then
    match m.cov, m.mu with
    | some c, some mu =>
      some (mkPdf be m.cls.isDiag (take c.Sigma idx nanM) (take mu idx nanV) (some Lam)
        (some (take c.lnDetSigma idx Transc.nan)))
    | _, _ => none
  else
    let base := MeasureB.mk0 m.cls Lam (take m.nu idx nanV) (take m.lnBeta idx Transc.nan)
    match m.cov with
    | none => some base
    | some c =>
      match m.lnDetLambda with
      | none => none
      | some ldL =>
        some { base with
          cov := some ⟨take c.Sigma idx nanM, take c.lnDetSigma idx Transc.nan⟩
          lnDetLambda := some (take ldL idx Transc.nan) }

/-- `GaussianMeasure.product` / `GaussianDiagMeasure.product` (the densities inherit it). -/
def MeasureB.product (be : Backend α) (m : MeasureB R D α) : MeasureB 1 D α :=
  let cls := if m.cls.isDiag then MCls.diagMeasure else MCls.measure
  let new := MeasureB.mk0 cls
    (tab fun _ => tab2 fun i j => vsum fun r => m.Lambda r i j)
    (tab fun _ => tab fun i => vsum fun r => m.nu r i)
    (tab fun _ => vsum fun r => m.lnBeta r)
  match m.cov with
  | some _ => new.prepare be
  | none => new

/-! ## products with factors: `_multiply_with_measure`, `_hadamard_with_measure` -/

/-- finish a product dictionary: `update_full` with full inversion of the new precision. -/
def finishInvert (be : Backend α) (uf : Bool) (base : MeasureB R D α) : MeasureB R D α :=
  if uf then
    let (Sig, ldL) := invertBatch be false base.Lambda
    { base with cov := some ⟨Sig, tab fun r => -(ldL r)⟩, lnDetLambda := some ldL }
  else base

/-- finish with a covariance obtained without inversion (`ln_det_Lambda = -ln_det_Sigma`). -/
def finishCov (base : MeasureB R D α) (Sig : Arr R (Mat D D α)) (ldS : Arr R α) : MeasureB R D α :=
  { base with cov := some ⟨Sig, ldS⟩, lnDetLambda := some (tab fun r => -(ldS r)) }

/-- Sherman–Morrison update of one covariance with the rank-one term `g v vᵀ`, and the
matrix-determinant-lemma update of `ln det Σ`. -/
def shermanMorrison (Sig : Mat D D α) (ldS : α) (v : Vec D α) (g : α) : Mat D D α × α :=
  let Sv := mulVec Sig v
  let vSv := dot Sv v
  let den := 1 + g * vSv
  (tab2 fun i j => Sig i j - (g * (Sv i * Sv j)) / den, ldS - Transc.log den)

/-- Generic component-wise product: component `r` of the result is built from component
`su r` of the measure and `sf r` of the factor.  `multiply` uses `su = ·/R2`, `sf = ·%R2`;
`hadamard` uses the broadcasting selectors. -/
def productSel {Ro : Nat} (be : Backend α) (su : Fin Ro → Fin R1) (sf : Fin Ro → Fin R2)
    (u : MeasureB R1 D α) (f : Factor R2 D α) (uf : Bool) : MeasureB Ro D α :=
  match f with
  | .general f =>
    let base := MeasureB.mk0 .measure
      (tab3 fun r i j => u.Lambda (su r) i j + f.Lambda (sf r) i j)
      (tab2 fun r i => u.nu (su r) i + f.nu (sf r) i)
      (tab fun r => u.lnBeta (su r) + f.lnBeta (sf r))
    finishInvert be uf base
  | .oneRank v g nu lb =>
    let Lf := oneRankLambda v g
    let base := MeasureB.mk0 .measure
      (tab3 fun r i j => u.Lambda (su r) i j + Lf (sf r) i j)
      (tab2 fun r i => u.nu (su r) i + nu (sf r) i)
      (tab fun r => u.lnBeta (su r) + lb (sf r))
    if uf then
      match u.cov with
      | none => finishInvert be true base
      | some c =>
        let res := tab fun r => shermanMorrison (c.Sigma (su r)) (c.lnDetSigma (su r)) (v (sf r)) (g (sf r))
        finishCov base (tab fun r => (res r).1) (tab fun r => (res r).2)
    else base
  | .linear nu lb =>
    let base := MeasureB.mk0 .measure
      (tab fun r => u.Lambda (su r))
      (tab2 fun r i => u.nu (su r) i + nu (sf r) i)
      (tab fun r => u.lnBeta (su r) + lb (sf r))
    if uf then
      match u.cov with
      | none => finishInvert be true base
      | some c => finishCov base (tab fun r => c.Sigma (su r)) (tab fun r => c.lnDetSigma (su r))
    else base
  | .constant lb =>
    let base := MeasureB.mk0 .measure
      (tab fun r => u.Lambda (su r))
      (tab fun r => u.nu (su r))
      (tab fun r => u.lnBeta (su r) + lb (sf r))
    if uf then
      match u.cov with
      | none => finishInvert be true base
      | some c => finishCov base (tab fun r => c.Sigma (su r)) (tab fun r => c.lnDetSigma (su r))
    else base

/-- `measure.multiply(factor, update_full)`: component `i*R2+j` is `u_i · f_j`. -/
def MeasureB.multiply (be : Backend α) (u : MeasureB R1 D α) (f : Factor R2 D α) (uf : Bool) :
    MeasureB (R1 * R2) D α :=
  productSel be unflatL unflatR u f uf

/-- `measure.hadamard(factor, update_full)` for equal batch sizes. -/
def MeasureB.hadamard (be : Backend α) (u : MeasureB R D α) (f : Factor R D α) (uf : Bool) :
    MeasureB R D α :=
  productSel be id id u f uf

/-- `hadamard` with a single-component factor broadcast over the measure's batch. -/
def MeasureB.hadamardBF (be : Backend α) (u : MeasureB R D α) (f : Factor 1 D α) (uf : Bool) :
    MeasureB R D α :=
  productSel be id (fun _ => (0 : Fin 1)) u f uf

/-- `hadamard` with a single-component measure broadcast over the factor's batch. -/
def MeasureB.hadamardBU (be : Backend α) (u : MeasureB 1 D α) (f : Factor R D α) (uf : Bool) :
    MeasureB R D α :=
  productSel be (fun _ => (0 : Fin 1)) id u f uf

end
end GT
