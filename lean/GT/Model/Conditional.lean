import GT.Model.Pdf
/-!
# `gaussian_toolbox/conditional.py` (without the log-conditional integrals, see `LogCond.lean`)

`CondB` is `ConditionalGaussianPDF` / `ConditionalGaussianDiagPDF` (flag `diag`; also what
`NNControlGaussianConditional.set_control_variable` returns); `CondIdB` is
`ConditionalIdentityGaussianPDF` / `ConditionalIdentityDiagGaussianPDF`, which store no `M`, `b`.
Batch layout of every transformation: component `k` of the result is built from conditional
`k / Rx` and marginal `k % Rx` (`reshape` of `[R_cond, R_x, …]`).
-/
namespace GT

structure CondB (R Dy Dx : Nat) (α : Type) where
  diag : Bool
  M : Arr R (Mat Dy Dx α)
  b : Arr R (Vec Dy α)
  Sigma : Arr R (Mat Dy Dy α)
  Lambda : Arr R (Mat Dy Dy α)
  lnDetSigma : Arr R α

structure CondIdB (R D : Nat) (α : Type) where
  diag : Bool
  Sigma : Arr R (Mat D D α)
  Lambda : Arr R (Mat D D α)
  lnDetSigma : Arr R α

section
variable {α : Type} [Add α] [Sub α] [Mul α] [Div α] [Neg α] [OfNat α 0] [OfNat α 1] [Transc α]
variable {R Rc Rx Dy Dx D : Nat}

/-- the `Sigma / Lambda / ln_det_Sigma` logic shared by all conditional constructors;
`none` = `RuntimeError("Either Sigma or Lambda need to be specified.")`. -/
def condCovInit (be : Backend α) (diag : Bool) (Sigma Lambda : Option (Arr R (Mat D D α)))
    (lnDetSigma : Option (Arr R α)) :
    Option (Arr R (Mat D D α) × Arr R (Mat D D α) × Arr R α) :=
  match Sigma, Lambda, lnDetSigma with
  | some S, some L, some ld => some (S, L, ld)
  | some S, _, _ =>
    let (L, ld) := invertBatch be diag S
    some (S, L, ld)
  | none, some L, _ =>
    let (S, ldL) := invertBatch be diag L
    some (S, L, tab fun r => -(ldL r))
  | none, none, _ => none

/-- `ConditionalGaussianPDF(M=…, b=…, Sigma=…, Lambda=…, ln_det_Sigma=…)` -/
def mkCond (be : Backend α) (diag : Bool) (M : Arr R (Mat Dy Dx α)) (b : Option (Arr R (Vec Dy α)))
    (Sigma Lambda : Option (Arr R (Mat Dy Dy α))) (lnDetSigma : Option (Arr R α)) :
    Option (CondB R Dy Dx α) :=
  match condCovInit be diag Sigma Lambda lnDetSigma with
  | some (S, L, ld) => some ⟨diag, M, b.getD (tab fun _ => zeroV), S, L, ld⟩
  | none => none

def mkCondId (be : Backend α) (diag : Bool) (Sigma Lambda : Option (Arr R (Mat D D α)))
    (lnDetSigma : Option (Arr R α)) : Option (CondIdB R D α) :=
  match condCovInit be diag Sigma Lambda lnDetSigma with
  | some (S, L, ld) => some ⟨diag, S, L, ld⟩
  | none => none

/-- the general conditional with the same parameters (`M = I`, `b = 0`) -/
def CondIdB.toCond (c : CondIdB R D α) : CondB R D D α :=
  ⟨c.diag, tab fun _ => eye, tab fun _ => zeroV, c.Sigma, c.Lambda, c.lnDetSigma⟩

/-! ## `NNControlGaussianConditional` -/

/-- `NNControlGaussianConditional.set_control_variable(u)` given `out = control_func(u)`
(`[R, Dy*(Dx+1)]`): `M = out[:, :Dy*Dx].reshape(-1, Dy, Dx)`, `b = out[:, Dy*Dx:]`, covariance
arrays tiled over the `R` control inputs.  `nn` carries `Sigma`, `Lambda`, `ln_det_Sigma` of the
NN-conditional (its `M`, `b` are unused placeholders). -/
def nnSetControl {Ru : Nat} (nn : CondB 1 Dy Dx α) (out : Arr Ru (Vec (Dy * Dx + Dy) α)) :
    CondB Ru Dy Dx α :=
  ⟨false,
   tab3 fun r i j => out r ⟨i.1 * Dx + j.1, by
     have h1 : i.1 * Dx + j.1 < i.1 * Dx + Dx := Nat.add_lt_add_left j.2 _
     have h2 : i.1 * Dx + Dx = (i.1 + 1) * Dx := by rw [Nat.add_mul, Nat.one_mul]
     have h3 : (i.1 + 1) * Dx ≤ Dy * Dx := Nat.mul_le_mul_right Dx i.2
     omega⟩,
   tab2 fun r i => out r ⟨Dy * Dx + i.1, by omega⟩,
   tab fun _ => nn.Sigma 0, tab fun _ => nn.Lambda 0, tab fun _ => nn.lnDetSigma 0⟩

/-- `NNControlGaussianConditional(Sigma=…)`: `Lambda, ln_det_Sigma = invert_matrix(Sigma)` -/
def mkNNCond (be : Backend α) (Sigma : Arr 1 (Mat Dy Dy α)) : CondB 1 Dy Dx α :=
  let (L, ld) := invertBatch be false Sigma
  ⟨false, tab fun _ => zeroM, tab fun _ => zeroV, Sigma, L, ld⟩

/-! ## slice, update_Sigma -/

def CondB.slice {N : Nat} (c : CondB R Dy Dx α) (idx : Fin N → Int) : CondB N Dy Dx α :=
  -- all five arrays are passed to the constructor, which then recomputes nothing;
  -- `ConditionalGaussianDiagPDF.slice` is inherited and returns the full class
  ⟨false, take c.M idx (tab2 fun _ _ => Transc.nan), take c.b idx nanV,
   take c.Sigma idx nanM, take c.Lambda idx nanM, take c.lnDetSigma idx Transc.nan⟩

/-- both identity classes return `ConditionalIdentityGaussianPDF` -/
def CondIdB.slice {N : Nat} (c : CondIdB R D α) (idx : Fin N → Int) : CondIdB N D α :=
  ⟨false, take c.Sigma idx nanM, take c.Lambda idx nanM, take c.lnDetSigma idx Transc.nan⟩

/-- `update_Sigma`: always `invert_matrix`, also for the diagonal classes. -/
def CondB.updateSigma (be : Backend α) (c : CondB R Dy Dx α) (S : Arr R (Mat Dy Dy α)) : CondB R Dy Dx α :=
  let (L, ld) := invertBatch be false S
  { c with Sigma := S, Lambda := L, lnDetSigma := ld }

def CondIdB.updateSigma (be : Backend α) (c : CondIdB R D α) (S : Arr R (Mat D D α)) : CondIdB R D α :=
  let (L, ld) := invertBatch be false S
  { c with Sigma := S, Lambda := L, lnDetSigma := ld }

/-! ## conditioning on a value of `x` -/

/-- `get_conditional_mu`: `M x + b` -/
def CondB.condMu (c : CondB R Dy Dx α) (r : Fin R) (x : Vec Dx α) : Vec Dy α :=
  vadd (mulVec (c.M r) x) (c.b r)

/-- `condition_on_x(x)` for `N` points: component `r*N+n` is `N(M_r x_n + b_r, Σ_r)`. -/
def CondB.conditionOnX {N : Nat} (be : Backend α) (c : CondB R Dy Dx α) (x : Arr N (Vec Dx α)) :
    MeasureB (R * N) Dy α :=
  mkPdf be false
    (tab fun k => c.Sigma (unflatL k))
    (tab fun k => c.condMu (unflatL k) (x (unflatR k)))
    (some (tab fun k => c.Lambda (unflatL k)))
    (some (tab fun k => c.lnDetSigma (unflatL k)))

def CondIdB.conditionOnX {N : Nat} (be : Backend α) (c : CondIdB R D α) (x : Arr N (Vec D α)) :
    MeasureB (R * N) D α :=
  mkPdf be false
    (tab fun k => c.Sigma (unflatL k))
    (tab fun k => x (unflatR k))
    (some (tab fun k => c.Lambda (unflatL k)))
    (some (tab fun k => c.lnDetSigma (unflatL k)))

/-! ## `set_y` -/

/-- `set_y(y)`: selector `sc` picks the conditional for observation `n` (`R = 1`: constant `0`;
`R = N`: identity).  The normaliser uses `Dx·log 2π` **as the code does** (finding (d)). -/
def CondB.setYSel {N : Nat} (sc : Fin N → Fin R) (c : CondB R Dy Dx α) (y : Arr N (Vec Dy α)) :
    Factor N Dx α :=
  let Lam := tab fun n => mmul (mmul (transpose (c.M (sc n))) (c.Lambda (sc n))) (c.M (sc n))
  let nu := tab fun n => vecMul (vsub (y n) (c.b (sc n))) (mmul (c.Lambda (sc n)) (c.M (sc n)))
  let lb := tab fun n =>
    let ymb := vsub (y n) (c.b (sc n));
    -(half * (dot (vecMul ymb (c.Lambda (sc n))) ymb + ofNat Dx * log2pi + c.lnDetSigma (sc n)))
  .general ⟨Lam, nu, lb⟩

def CondIdB.setYSel {N : Nat} (sc : Fin N → Fin R) (c : CondIdB R D α) (y : Arr N (Vec D α)) :
    Factor N D α :=
  let nu := tab fun n =>
    if c.diag then (tab fun i => c.Lambda (sc n) i i * y n i) else vecMul (y n) (c.Lambda (sc n))
  let lb := tab fun n =>
    let yLy := if c.diag then vsum (fun i => y n i * y n i * c.Lambda (sc n) i i)
               else dot (vecMul (y n) (c.Lambda (sc n))) (y n);
    -(half * (yLy + ofNat D * log2pi + c.lnDetSigma (sc n)))
  .general ⟨tab fun n => c.Lambda (sc n), nu, lb⟩

/-! ## affine transformations -/

/-- `affine_joint_transformation`: density over `(x, y)`, `x` first. -/
def CondB.affineJoint (be : Backend α) (c : CondB Rc Dy Dx α) (p : PdfV Rx Dx α) :
    MeasureB (Rc * Rx) (Dx + Dy) α :=
  let comp := tab fun (k : Fin (Rc * Rx)) =>
    let ci := unflatL k
    let xi := unflatR k
    let M := c.M ci
    let mu := vappend (p.mu xi) (c.condMu ci (p.mu xi))
    let MSx := (mmul M (p.Sigma xi))                       -- [Dy, Dx]
    let Sy := (madd (c.Sigma ci) (mmul MSx (transpose M)))
    let Sig := (block (p.Sigma xi) (transpose MSx) MSx Sy)
    let LyM := (mmul (transpose (c.Lambda ci)) M)          -- einsum("abc,abd->acd", Λ, M)
    let MLM := mmul (transpose M) LyM
    let Lx := (madd (p.Lambda xi) MLM)
    let Lxy := mneg LyM
    let Lam := (block Lx (transpose Lxy) Lxy (c.Lambda ci))
    let ld : α :=
      if Dy < Dx then
        let CLx := mmul MSx (p.Lambda xi)
        let CLC := mmul CLx (transpose MSx)
        p.lnDetSigma xi + be.slogdet (msub Sy CLC)
      else
        let SyL := mmul (c.Sigma ci) Lxy
        let LSL := mmul (transpose Lxy) SyL;
        -(-(c.lnDetSigma ci) + be.slogdet (msub Lx LSL));
    (mu, Sig, Lam, ld)
  mkPdf be false (tab fun k => (comp k).2.1) (tab fun k => (comp k).1)
    (some (tab fun k => (comp k).2.2.1)) (some (tab fun k => (comp k).2.2.2))

/-- `affine_marginal_transformation` -/
def CondB.affineMarginal (be : Backend α) (c : CondB Rc Dy Dx α) (p : PdfV Rx Dx α) :
    MeasureB (Rc * Rx) Dy α :=
  mkPdf be false
    (tab fun k => madd (c.Sigma (unflatL k))
      (mmul (mmul (c.M (unflatL k)) (p.Sigma (unflatR k))) (transpose (c.M (unflatL k)))))
    (tab fun k => c.condMu (unflatL k) (p.mu (unflatR k)))
    none none

/-- `affine_conditional_transformation` -/
def CondB.affineConditional (be : Backend α) (c : CondB Rc Dy Dx α) (p : PdfV Rx Dx α) :
    CondB (Rc * Rx) Dx Dy α :=
  let Lx := tab fun (k : Fin (Rc * Rx)) =>
    let M := c.M (unflatL k)
    madd (p.Lambda (unflatR k)) (mmul (transpose M) (mmul (transpose (c.Lambda (unflatL k))) M))
  let (Sx, ldLx) := invertBatch be false Lx
  let Mx := tab fun k => mmul (Sx k) (mmul (transpose (c.M (unflatL k))) (c.Lambda (unflatL k)))
  let bx := tab fun k =>
    vadd (vneg (mulVec (Mx k) (c.b (unflatL k)))) (mulVec (Sx k) (p.nu (unflatR k)))
  ⟨false, Mx, bx, Sx, Lx, tab fun k => -(ldLx k)⟩

/-- identity-mean `affine_joint_transformation` (after the repair of the batched layouts) -/
def CondIdB.affineJoint (be : Backend α) (c : CondIdB Rc D α) (p : PdfV Rx D α) :
    MeasureB (Rc * Rx) (D + D) α :=
  let comp := tab fun (k : Fin (Rc * Rx)) =>
    let ci := unflatL k
    let xi := unflatR k
    let mu := vappend (p.mu xi) (p.mu xi)
    let Sy := (madd (c.Sigma ci) (p.Sigma xi))
    let Sig := (block (p.Sigma xi) (transpose (p.Sigma xi)) (p.Sigma xi) Sy)
    let Lx := (madd (p.Lambda xi) (c.Lambda ci))
    let Lxy := mneg (c.Lambda ci)
    let Lam := (block Lx (transpose Lxy) Lxy (c.Lambda ci))
    -- `p_x.D > self.Dy` is never true (`Dx = Dy`): only the second branch runs
    let ld : α := -(-(c.lnDetSigma ci) + be.slogdet (msub Lx (c.Lambda ci)));
    (mu, Sig, Lam, ld)
  mkPdf be false (tab fun k => (comp k).2.1) (tab fun k => (comp k).1)
    (some (tab fun k => (comp k).2.2.1)) (some (tab fun k => (comp k).2.2.2))

def CondIdB.affineMarginal (be : Backend α) (c : CondIdB Rc D α) (p : PdfV Rx D α) :
    MeasureB (Rc * Rx) D α :=
  mkPdf be false
    (tab fun k => madd (c.Sigma (unflatL k)) (p.Sigma (unflatR k)))
    (tab fun k => p.mu (unflatR k))
    none none

def CondIdB.affineConditional (be : Backend α) (c : CondIdB Rc D α) (p : PdfV Rx D α) :
    CondB (Rc * Rx) D D α :=
  let Lx := tab fun (k : Fin (Rc * Rx)) => madd (p.Lambda (unflatR k)) (c.Lambda (unflatL k))
  let (Sx, ldLx) := invertBatch be false Lx
  let Mx := tab fun k => mmul (Sx k) (c.Lambda (unflatL k))
  let bx := tab fun k => mulVec (Sx k) (p.nu (unflatR k))
  ⟨false, Mx, bx, Sx, Lx, tab fun k => -(ldLx k)⟩

/-! ## `GaussianPDF.condition_on`, `condition_on_explicit` -/

/-- `condition_on_explicit(dim_y, dim_x)`: conditional of the coordinates `dimX` given `dimY`. -/
def PdfV.conditionOnExplicit {Ky Kx : Nat} (be : Backend α) (p : PdfV R D α)
    (dimY : Fin Ky → Fin D) (dimX : Fin Kx → Fin D) : CondB R Kx Ky α :=
  let Lx := tab3 fun r i j => p.Lambda r (dimX i) (dimX j)
  let (Sx, ldLx) := invertBatch be false Lx
  let Mx := tab fun r => mneg (mmul (Sx r) (tab2 fun i j => p.Lambda r (dimX i) (dimY j)))
  let bx := tab fun r => vsub (tab fun i => p.mu r (dimX i)) (mulVec (Mx r) (tab fun j => p.mu r (dimY j)))
  ⟨false, Mx, bx, Sx, Lx, tab fun r => -(ldLx r)⟩

/-- `jnp.setxor1d(arange(D), dim_y)` for distinct in-range `dim_y`: the remaining coordinates,
ascending. -/
def complDims {Ky : Nat} (dimY : Fin Ky → Fin D) : List (Fin D) :=
  (List.finRange D).filter fun d => !(List.finRange Ky).any fun k => dimY k = d

/-- `condition_on(dim_y)` -/
def PdfV.conditionOn {Ky : Nat} (be : Backend α) (p : PdfV R D α) (dimY : Fin Ky → Fin D) :
    CondB R (complDims dimY).length Ky α :=
  p.conditionOnExplicit be dimY fun i => (complDims dimY).get i

/-! ## entropies -/

/-- `conditional_entropy(p_x) = H(joint) − H(p_x)` -/
def CondB.conditionalEntropy (be : Backend α) (c : CondB Rc Dy Dx α) (p : PdfV Rx Dx α) :
    Option (Arr (Rc * Rx) α) :=
  match (c.affineJoint be p).asPdf with
  | some j => some (tab fun k => j.entropy k - p.entropy (unflatR k))
  | none => none

/-- `mutual_information(p_x)`: `H(Y) − H(Y|X)` (the sign as repaired by the `fix:` commit). -/
def CondB.mutualInformation (be : Backend α) (c : CondB Rc Dy Dx α) (p : PdfV Rx Dx α) :
    Option (Arr (Rc * Rx) α) :=
  match c.conditionalEntropy be p, (c.affineMarginal be p).asPdf with
  | some ce, some py => some (tab fun k => py.entropy k - ce k)
  | _, _ => none

def CondIdB.conditionalEntropy (be : Backend α) (c : CondIdB Rc D α) (p : PdfV Rx D α) :
    Option (Arr (Rc * Rx) α) :=
  match (c.affineJoint be p).asPdf with
  | some j => some (tab fun k => j.entropy k - p.entropy (unflatR k))
  | none => none

def CondIdB.mutualInformation (be : Backend α) (c : CondIdB Rc D α) (p : PdfV Rx D α) :
    Option (Arr (Rc * Rx) α) :=
  match c.conditionalEntropy be p, (c.affineMarginal be p).asPdf with
  | some ce, some py => some (tab fun k => py.entropy k - ce k)
  | _, _ => none

end
end GT
