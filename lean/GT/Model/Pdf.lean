import GT.Model.Factor
/-!
# `gaussian_toolbox/pdf.py`

Densities are `MeasureB` values with `cls ∈ {pdf, diagPdf}`; `PdfV` is the view with every
attribute a density always carries.  Methods that return a conditional are in
`GT/Model/Conditional.lean`.
-/
namespace GT

/-- what every `GaussianPDF` exposes -/
structure PdfV (R D : Nat) (α : Type) where
  diag : Bool
  Lambda : Arr R (Mat D D α)
  nu : Arr R (Vec D α)
  lnBeta : Arr R α
  Sigma : Arr R (Mat D D α)
  lnDetSigma : Arr R α
  mu : Arr R (Vec D α)
  lnZ : Arr R α

section
variable {α : Type} [Add α] [Sub α] [Mul α] [Div α] [Neg α] [OfNat α 0] [OfNat α 1] [Transc α]
variable {R R1 R2 D : Nat}

def MeasureB.asPdf (m : MeasureB R D α) : Option (PdfV R D α) :=
  match m.cov, m.mu, m.lnZ with
  | some c, some mu, some lnZ =>
    some ⟨m.cls.isDiag, m.Lambda, m.nu, m.lnBeta, c.Sigma, c.lnDetSigma, mu, lnZ⟩
  | _, _, _ => none

def PdfV.toMeasure (p : PdfV R D α) : MeasureB R D α :=
  ⟨if p.diag then .diagPdf else .pdf, p.Lambda, p.nu, p.lnBeta, some ⟨p.Sigma, p.lnDetSigma⟩, none,
   some p.mu, some p.lnZ⟩

def PdfV.evalLn (p : PdfV R D α) (r : Fin R) (x : Vec D α) : α := p.toMeasure.evalLn r x

/-- `get_marginal(dim_x)`; the diagonal class returns the diagonal class. -/
def PdfV.getMarginal {K : Nat} (be : Backend α) (p : PdfV R D α) (dims : Fin K → Fin D) :
    MeasureB R K α :=
  mkPdf be p.diag (tab3 fun r i j => p.Sigma r (dims i) (dims j)) (tab2 fun r i => p.mu r (dims i)) none none

/-- `entropy()` -/
def PdfV.entropy (p : PdfV R D α) : Arr R α :=
  tab fun r => half * (ofNat D * (1 + log2pi) + p.lnDetSigma r)

/-- `kl_divergence(p1)` with explicit broadcast selectors (`R == R1`, `R1 == 1` or `R == 1`). -/
def klSel {Ro : Nat} (sp : Fin Ro → Fin R1) (sq : Fin Ro → Fin R2) (p : PdfV R1 D α) (q : PdfV R2 D α) :
    Arr Ro α :=
  tab fun r =>
    let dmu := vsub (q.mu (sq r)) (p.mu (sp r))
    let dmuSdmu := dot (vecMul dmu (q.Lambda (sq r))) dmu
    let tr := trace (mmul (q.Lambda (sq r)) (p.Sigma (sp r)))
    half * (tr + dmuSdmu - ofNat D + q.lnDetSigma (sq r) - p.lnDetSigma (sp r))

/-- `get_density_of_linear_sum(W, b)`; always the full class. -/
def PdfV.linearSum {K : Nat} (be : Backend α) (p : PdfV R D α) (W : Arr R (Mat K D α))
    (b : Option (Arr R (Vec K α))) : MeasureB R K α :=
  let Sig := tab fun r => mmul (mmul (W r) (p.Sigma r)) (transpose (W r))
  let mu := match b with
    | some b => tab fun r => vadd (mulVec (W r) (p.mu r)) (b r)
    | none => tab fun r => mulVec (W r) (p.mu r)
  mkPdf be false Sig mu none none

/-- `sample(key, n)` given the standard-normal array `z = jax.random.normal(key, (n, R, D))`:
`x[d,a,b] = mu[a,b] + Σ_c L[a,b,c] z[d,a,c]`. -/
def PdfV.sampleFrom {N : Nat} (be : Backend α) (p : PdfV R D α) (z : Arr N (Arr R (Vec D α))) :
    Arr N (Arr R (Vec D α)) :=
  let L := tab fun r => be.cholesky (p.Sigma r)
  tab2 fun d a => vadd (p.mu a) (mulVec (L a) (z d a))

/-- `update(indices, density)` for distinct resolved indices: the addressed components are
replaced by the components of `d` in order. -/
def PdfV.update {N : Nat} (p : PdfV R D α) (idx : Fin N → Fin R) (d : PdfV N D α) : PdfV R D α :=
  let sel {β : Type} (old : Arr R β) (new : Arr N β) : Arr R β := tab fun r =>
    match (List.finRange N).reverse.find? (fun n => idx n = r) with
    | some n => new n
    | none => old r
  { p with
    Lambda := sel p.Lambda d.Lambda, Sigma := sel p.Sigma d.Sigma, mu := sel p.mu d.mu
    lnDetSigma := sel p.lnDetSigma d.lnDetSigma, lnZ := sel p.lnZ d.lnZ, nu := sel p.nu d.nu
    lnBeta := sel p.lnBeta d.lnBeta }

end
end GT
