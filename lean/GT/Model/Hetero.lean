import GT.Model.Conditional
import GT.Model.Integrals
/-!
# Heteroscedastic conditionals (`approximate_conditional.py:691-1248`)

`HeteroB` is the data of `HeteroscedasticConditional` after `__post_init__` (the code enforces
`R = 1`; the batch axis of length one is kept because the arrays carry it).  The methods a
concrete subclass supplies or overrides form the method table `HLinkOps`; the base-class bodies
are the `base…` definitions, which receive the methods they call through the table as arguments
(open recursion).  `expOps` and `coshM1Ops` are `HeteroscedasticExpConditional` and
`HeteroscedasticCoshM1Conditional`.  The step and rectified-linear classes are obtained by
writing their own `HLinkOps` value (they override `getOmegaDagger`, `updateOmegaStar`,
`getLbLogDet`, `getLbHeteroscedasticTermI` in addition to the abstract methods).

Batch conventions of `integrate_log_conditional_y(p_x, y)`: `p_x` has `R` components and the
code is only well-shaped for `N = R` or `N = 1` observations (`N > 1` with `R = 1` makes the
`while_loop` carry change shape; the driver refuses).  The model receives `y` already paired with
the components of `p_x` (`Arr R (Vec Dy α)`); every quantity is then computed per component, as
the broadcasting einsums do.

Everything is transcribed *as coded*.  In particular `get_conditional_cov(invert=True)` and the
lower bounds use `G = D/(1+D)` and `Σ log(1+D)`, which is the Woodbury identity only when
`A_kᵀ(AAᵀ)⁻¹A_k = I` (true for square `A`, false for `Da > Dy`).
-/
namespace GT

structure HeteroB (Dy Dx Da Dk : Nat) (α : Type) where
  M : Arr 1 (Mat Dy Dx α)
  b : Arr 1 (Vec Dy α)
  A : Arr 1 (Mat Dy Da α)
  /-- row `k` is `(w0_k, w_k)`: offset first -/
  W : Mat Dk (Dx + 1) α
  Sigma : Arr 1 (Mat Dy Dy α)
  Lambda : Arr 1 (Mat Dy Dy α)
  lnDetSigma : Arr 1 α
  /-- `assert self.Dy <= self.Da` -/
  hy : Dy ≤ Da
  /-- `assert self.Dk <= self.Da` -/
  hk : Dk ≤ Da

/-! ## the method table of a concrete link class -/

/-- `_integrate_noise_diagonal(p_x)`: `[R*Dk]` (component `r*Dk + k`) -/
abbrev NoiseDiagFn (α : Type) := {Dy Dx Da Dk R : Nat} → Backend α → HeteroB Dy Dx Da Dk α →
  PdfV R Dx α → Arr (R * Dk) α
/-- `_get_omega_dagger(p_x, W_i)` (static) -/
abbrev OmegaDaggerFn (α : Type) := {Dx R : Nat} → Backend α → PdfV R Dx α → Vec (Dx + 1) α → Arr R α
/-- `k_func(p_x, W_i, omega_dagger)` -/
abbrev KFn (α : Type) := {Dx R : Nat} → Backend α → PdfV R Dx α → Vec (Dx + 1) α → Arr R α → Arr R α
/-- `_lower_bound_integrals(p_x, y, W_i, a_i, omega_star, compute_fourth_order)`:
the second-order integral and, if requested, the fourth-order one -/
abbrev LbiFn (α : Type) := {Dy Dx Da Dk R : Nat} → Backend α → HeteroB Dy Dx Da Dk α → PdfV R Dx α →
  Arr R (Vec Dy α) → Vec (Dx + 1) α → Vec Dy α → Arr R α → Bool → Arr R α × Option (Arr R α)
/-- `_update_omega_star(p_x, y, W_i, a_i, omega_star)` -/
abbrev UpdateFn (α : Type) := {Dy Dx Da Dk R : Nat} → Backend α → HeteroB Dy Dx Da Dk α → PdfV R Dx α →
  Arr R (Vec Dy α) → Vec (Dx + 1) α → Vec Dy α → Arr R α → Arr R α
/-- `get_lb_log_det(p_x)` -/
abbrev LbLogDetFn (α : Type) := {Dy Dx Da Dk R : Nat} → Backend α → HeteroB Dy Dx Da Dk α →
  PdfV R Dx α → Arr R α
/-- `get_lb_heteroscedastic_term_i(p_x, y, W_i, a_i)` -/
abbrev LbHetFn (α : Type) := {Dy Dx Da Dk R : Nat} → Backend α → HeteroB Dy Dx Da Dk α → PdfV R Dx α →
  Arr R (Vec Dy α) → Vec (Dx + 1) α → Vec Dy α → Arr R α

structure HLinkOps (α : Type) where
  /-- class tag used by the driver's dump -/
  name : String
  /-- `link_function` (abstract) -/
  linkFunction : α → α
  /-- `_integrate_noise_diagonal` (abstract) -/
  integrateNoiseDiagonal : NoiseDiagFn α
  /-- `k_func` (abstract) -/
  kFunc : KFn α
  /-- `_lower_bound_integrals` (abstract) -/
  lowerBoundIntegrals : LbiFn α
  /-- `_get_omega_dagger` (base class body: `baseGetOmegaDagger`) -/
  getOmegaDagger : OmegaDaggerFn α
  /-- `_update_omega_star` (base class body: `baseUpdateOmegaStar`) -/
  updateOmegaStar : UpdateFn α
  /-- `get_lb_log_det` (base class body: `baseGetLbLogDet`) -/
  getLbLogDet : LbLogDetFn α
  /-- `get_lb_heteroscedastic_term_i` (base class body: `baseGetLbHeteroscedasticTermI`) -/
  getLbHeteroscedasticTermI : LbHetFn α

section
variable {α : Type} [Add α] [Sub α] [Mul α] [Div α] [Neg α] [OfNat α 0] [OfNat α 1] [Transc α]
variable {Dy Dx Da Dk R N : Nat}

/-! ## constructor and constructor-derived quantities -/

/-- `__post_init__` after the three refusals (`R != 1`, `Dy > Da`, `Dk > Da`, handled by the
driver): `Sigma = einsum("abc,adc->abd", A, A)`, `Lambda, ln_det_Sigma = invert_matrix(Sigma)`. -/
def mkHetero (be : Backend α) (M : Arr 1 (Mat Dy Dx α)) (b : Arr 1 (Vec Dy α)) (A : Arr 1 (Mat Dy Da α))
    (W : Mat Dk (Dx + 1) α) (hy : Dy ≤ Da) (hk : Dk ≤ Da) : HeteroB Dy Dx Da Dk α :=
  let Sigma : Arr 1 (Mat Dy Dy α) := tab fun r => mmul (A r) (transpose (A r))
  let (L, ld) := invertBatch be false Sigma
  ⟨M, b, A, W, Sigma, L, ld, hy, hk⟩

/-- `W_i[1:]` -/
def wTail (Wi : Vec (Dx + 1) α) : Vec Dx α := tab fun j => Wi ⟨j.1 + 1, Nat.succ_lt_succ j.2⟩
/-- `W_i[0]` -/
def wHead (Wi : Vec (Dx + 1) α) : α := Wi ⟨0, Nat.succ_pos Dx⟩

namespace HeteroB
variable (c : HeteroB Dy Dx Da Dk α)

/-- `self.A[0,:,:self.Dk]` -/
def Ak : Mat Dy Dk α := tab2 fun i k => c.A 0 i ⟨k.1, Nat.lt_of_lt_of_le k.2 c.hk⟩
/-- `self.W[:,1:]` -/
def wMat : Mat Dk Dx α := tab fun k => wTail (c.W k)
/-- `self.W[:,0]` -/
def w0 : Vec Dk α := tab fun k => wHead (c.W k)

/-- `linear_layer(x)`: `einsum("ab,cb->ca", W[:,1:], x) + W[:,0][None]`, `[N, Dk]` -/
def linearLayer (x : Arr N (Vec Dx α)) : Arr N (Vec Dk α) :=
  let w := c.wMat
  let w0 := c.w0
  tab2 fun n k => (vsum fun j => w k j * x n j) + w0 k

/-- `get_conditional_mu(x)` (inherited): `einsum("abc,dc->adb", M, x) + b[:, None]`, `[1, N, Dy]` -/
def condMu (x : Arr N (Vec Dx α)) : Arr N (Vec Dy α) :=
  tab fun n => vadd (mulVec (c.M 0) (x n)) (c.b 0)

/-- the `Sigma` of `get_conditional_cov` for the link values `D_x` (`[N, Dk]`) -/
def covOfD (Dx_ : Arr N (Vec Dk α)) : Arr N (Mat Dy Dy α) :=
  let Ak := c.Ak
  -- einsum("ab,cb->cab", A_k, D_x)
  let AD : Arr N (Mat Dy Dk α) := tab3 fun n i k => Ak i k * Dx_ n k
  -- self.Sigma + einsum("abc,dc->abd", AD, A_k)
  tab3 fun n i j => c.Sigma 0 i j + vsum fun k => AD n i k * Ak j k

/-- `get_conditional_cov(x, invert=False)` -/
def conditionalCov (ops : HLinkOps α) (x : Arr N (Vec Dx α)) : Arr N (Mat Dy Dy α) :=
  let h := c.linearLayer x
  let Dx_ : Arr N (Vec Dk α) := tab2 fun n k => ops.linkFunction (h n k)
  c.covOfD Dx_

/-- `get_conditional_cov(x, invert=True)`: `(Sigma, Lambda, ln_det_Sigma_y_x)` with the inverse and
the log-determinant **as coded**: `G = D/(1+D)`, `Lambda = Λ − (ΛA_k) diag(G) (ΛA_k)ᵀ`,
`ln det = ln det Σ + Σ_k log(1 + D_k)`. -/
def conditionalCovInv (ops : HLinkOps α) (x : Arr N (Vec Dx α)) :
    Arr N (Mat Dy Dy α) × Arr N (Mat Dy Dy α) × Arr N α :=
  let h := c.linearLayer x
  let Dx_ : Arr N (Vec Dk α) := tab2 fun n k => ops.linkFunction (h n k)
  let Sigma := c.covOfD Dx_
  let G : Arr N (Vec Dk α) := tab2 fun n k => Dx_ n k / (1 + Dx_ n k)
  let Ainv : Mat Dy Dk α := mmul (c.Lambda 0) c.Ak
  let AG : Arr N (Mat Dy Dk α) := tab3 fun n i k => Ainv i k * G n k
  let Lambda : Arr N (Mat Dy Dy α) := tab3 fun n i j => c.Lambda 0 i j - vsum fun k => AG n i k * Ainv j k
  let ld : Arr N α := tab fun n => c.lnDetSigma 0 + vsum fun k => Transc.log (1 + Dx_ n k)
  (Sigma, Lambda, ld)

/-- `condition_on_x(x)`: the four arrays are handed to `GaussianPDF`, which recomputes nothing. -/
def conditionOnX (ops : HLinkOps α) (be : Backend α) (x : Arr N (Vec Dx α)) : MeasureB N Dy α :=
  let mu := c.condMu x
  let (S, L, ld) := c.conditionalCovInv ops x
  mkPdf be false S mu (some L) (some ld)

/-! ## expected covariance, moment matching -/

/-- `integrate_Sigma_x(p_x)`, `[R, Dy, Dy]`: `_integrate_noise_diagonal(p_x).reshape((R, Dk))` (layout `r*Dk + k`
of the product of `p_x` with the `Dk` link factors), then per component
`Sigma + Σ_k A_k[:, k] D_int[r, k] A_k[:, k]ᵀ`, symmetrised. -/
def integrateSigmaX (ops : HLinkOps α) (be : Backend α) (p : PdfV R Dx α) : Arr R (Mat Dy Dy α) :=
  let Dint := ops.integrateNoiseDiagonal be c p
  let Ak := c.Ak
  tab fun r =>
    let AD : Mat Dy Dk α := tab2 fun i k => Ak i k * Dint (flat r k)
    let S : Mat Dy Dy α := tab2 fun i l => c.Sigma 0 i l + vsum fun k => AD i k * Ak l k
    tab2 fun i l => half * (S i l + S l i)

/-- the affine form `M x + b` (shared coefficients) -/
def meanForm : AffForm R Dy Dx α := ⟨tab fun _ => c.M 0, tab fun _ => c.b 0⟩

/-- `get_expected_moments(p_x)`: `(mu_y, Sigma_y)` -/
def getExpectedMoments (ops : HLinkOps α) (be : Backend α) (p : PdfV R Dx α) :
    Arr R (Vec Dy α) × Arr R (Mat Dy Dy α) :=
  let muY : Arr R (Vec Dy α) := c.condMu p.mu
  let Sint := c.integrateSigmaX ops be p
  let v := (p.toMeasure.intView be).2
  let f : AffForm R Dy Dx α := c.meanForm
  let Q := v.integrateQuadOuter f f
  let Eyy : Arr R (Mat Dy Dy α) := tab3 fun r i j => Sint r i j + Q r i j
  -- Eyy - mu_y[:, None] * mu_y[:, :, None]
  let Sy : Arr R (Mat Dy Dy α) := tab3 fun r i j => Eyy r i j - muY r j * muY r i
  (muY, tab3 fun r i j => half * (Sy r i j + Sy r j i))

/-- `get_expected_cross_terms(p_x)`: `E[(Mx+b) xᵀ]`, `[R, Dy, Dx]` -/
def getExpectedCrossTerms (be : Backend α) (p : PdfV R Dx α) : Arr R (Mat Dy Dx α) :=
  let v := (p.toMeasure.intView be).2
  v.integrateQuadOuter (c.meanForm : AffForm R Dy Dx α) (getDefault none none : AffForm R Dx Dx α)

/-- `cov_yx = Eyx - mu_y[:, :, None] * mu_x[:, None]` -/
def covYX (Eyx : Arr R (Mat Dy Dx α)) (muY : Arr R (Vec Dy α)) (p : PdfV R Dx α) : Arr R (Mat Dy Dx α) :=
  tab3 fun r i j => Eyx r i j - muY r i * p.mu r j

/-- `affine_joint_transformation(p_x)`: moment-matched density over `(x, y)` -/
def affineJoint (ops : HLinkOps α) (be : Backend α) (p : PdfV R Dx α) : MeasureB R (Dx + Dy) α :=
  let (muY, Sy) := c.getExpectedMoments ops be p
  let Eyx := c.getExpectedCrossTerms be p
  let cov := covYX Eyx muY p
  let mu : Arr R (Vec (Dx + Dy) α) := tab fun r => vappend (p.mu r) (muY r)
  let Sig : Arr R (Mat (Dx + Dy) (Dx + Dy) α) :=
    tab fun r => block (p.Sigma r) (transpose (cov r)) (cov r) (Sy r)
  mkPdf be false Sig mu none none

/-- `affine_conditional_transformation(p_x)`: `p(x|y)` of the moment-matched joint -/
def affineConditional (ops : HLinkOps α) (be : Backend α) (p : PdfV R Dx α) : Option (CondB R Dx Dy α) :=
  let (muY, Sy) := c.getExpectedMoments ops be p
  let Ly := (invertBatch be false Sy).1
  let Eyx := c.getExpectedCrossTerms be p
  let cov := covYX Eyx muY p
  -- einsum("abc,abd->acd", cov_yx, Lambda_y)
  let Mn : Arr R (Mat Dx Dy α) := tab fun r => mmul (transpose (cov r)) (Ly r)
  let bn : Arr R (Vec Dx α) := tab fun r => vsub (p.mu r) (mulVec (Mn r) (muY r))
  let Sn : Arr R (Mat Dx Dx α) := tab fun r => msub (p.Sigma r) (mmul (Mn r) (cov r))
  mkCond be false Mn (some bn) (some Sn) none none

/-- `affine_marginal_transformation(p_x)` -/
def affineMarginal (ops : HLinkOps α) (be : Backend α) (p : PdfV R Dx α) : MeasureB R Dy α :=
  let (muY, Sy) := c.getExpectedMoments ops be p
  mkPdf be false Sy muY none none

end HeteroB

/-! ## lower bound of `E[ln p(y|x)]`: shared pieces -/

/-- `b = W_i[None,:1]`, `w = W_i[None,1:]` as the affine form `h(x) = wᵀx + b` (`K = 1`);
`_get_default` uses the 2-D `w` and the `[1,1]` offset for every component. -/
def hForm (Wi : Vec (Dx + 1) α) : AffForm R 1 Dx α :=
  let w : Vec Dx α := wTail Wi
  let b : α := wHead Wi
  ⟨tab fun _ => tab fun _ => w, tab fun _ => tab fun _ => b⟩

/-- `A_mat = -a_projected_M`, `a_vec = a_projected_yb` with
`a_projected_M = einsum('ab,cad->cbd', a_i[:,None], M)`,
`a_projected_yb = einsum('ab,ca->cb', a_i[:,None], y - b)` -/
def residualForm (c : HeteroB Dy Dx Da Dk α) (y : Arr R (Vec Dy α)) (ai : Vec Dy α) : AffForm R 1 Dx α :=
  let aM : Vec Dx α := tab fun d => vsum fun i => ai i * c.M 0 i d
  let ayb : Arr R α := tab fun r => vsum fun i => ai i * (y r i - c.b 0 i)
  let nAM : Vec Dx α := tab fun d => -(aM d)
  ⟨tab fun _ => tab fun _ => nAM, tab fun r => tab fun _ => ayb r⟩

/-- `jnp.log(2.)` -/
def log2 : α := Transc.log two

/-- `_get_omega_dagger` of the base class (repeated verbatim in the exp and cosh−1 classes):
`sqrt(p_x.integrate("(Ax+a)'(Bx+b)", w, b, w, b))` -/
def baseGetOmegaDagger : OmegaDaggerFn α := fun be p Wi =>
  let v := (p.toMeasure.intView be).2
  let f := hForm Wi
  let q := v.integrateQuadInner f f
  tab fun r => Transc.sqrt (q r)

/-- `_update_omega_star` of the base class: `sqrt(quartic / quadratic)[0]` -/
def baseUpdateOmegaStar (lbi : LbiFn α) : UpdateFn α := fun be c p y Wi ai omega =>
  let (quadratic, quartic) := lbi be c p y Wi ai omega true
  match quartic with
  | some quartic => tab fun r => Transc.sqrt (quartic r / quadratic r)
  | none => omega   -- dead: `compute_fourth_order=True`

/-! ### the `lax.while_loop` of `_get_omega_star` -/

def absS (x : α) : α := if Transc.lt x 0 then -x else x

/-- `jnp.max(jnp.abs(a - b))` (for `R ≥ 1`, NaN-free arguments) -/
def maxAbsDiff (a b : Arr R α) : α :=
  (List.ofFn fun r => absS (a r - b r)).foldl (fun m x => if Transc.lt m x then x else m) 0

/-- the tolerance `1e-5` of `cond_func` -/
def omegaTol : α :=
  let ten : α := ofNat 10
  1 / (ten * ten * ten * ten * ten)

/-- the iteration cap `100` of `cond_func` -/
def omegaMaxIter : Nat := 100

/-- `jnp.isfinite(x)` with the operations at hand: `x − x` is `0` for a finite `x` and NaN for `±inf` and NaN, and
every comparison with NaN is false -/
def isFiniteS (x : α) : Bool := Transc.lt (x - x) 1 && Transc.lt (-(1 : α)) (x - x)

/-- `jnp.where(jnp.isfinite(new), new, old)`: an update that is not finite keeps the last iterate -/
def keepFinite (old new : Arr R α) : Arr R α := tab fun r => if isFiniteS (new r) then new r else old r

/-- `lax.while_loop(cond_func, body_func, (cur, prev, it))` with
`cond_func = max|val[0] − val[1]| > 1e-5 and val[2] < 100`,
`body_func = (update(val[0]), val[0], val[2] + 1)`; the first argument is `100 − it`, so the
recursion is structural and runs the body under exactly the code's condition. -/
def omegaWhile (update : Arr R α → Arr R α) : Nat → Arr R α → Arr R α → Arr R α
  | 0, cur, _ => cur
  | fuel + 1, cur, prev =>
    if Transc.lt omegaTol (maxAbsDiff cur prev) then omegaWhile update fuel (update cur) cur
    else cur

/-- `_get_omega_star` (not overridden by any subclass): the loop is started at
`(omega_dagger, omega_dagger + 1, 0)` — the previous iterate differs from the start value, so the
fixed-point iteration runs until two iterates agree to `1e-5` or 100 steps are done; an update that is not
finite keeps the last iterate (`keepFinite`).
(`stop_gradient` is the identity on values.) -/
def baseGetOmegaStar (getOmegaDagger : OmegaDaggerFn α) (update : UpdateFn α) : LbHetFn α :=
  fun be c p y Wi ai =>
  let omegaStar := getOmegaDagger be p Wi
  let omegaDagger : Arr _ α := tab fun r => omegaStar r + 1
  omegaWhile (fun om => keepFinite om (update be c p y Wi ai om)) omegaMaxIter omegaStar omegaDagger

/-- `self._get_omega_star(p_x, y, W_i, a_i)` through the method table -/
def getOmegaStar (ops : HLinkOps α) : LbHetFn α :=
  baseGetOmegaStar ops.getOmegaDagger ops.updateOmegaStar

/-- the same loop started from an arbitrary pair (used to validate `omegaWhile` against
`lax.while_loop`; not reachable through the class) -/
def omegaStarFrom (ops : HLinkOps α) (be : Backend α) (c : HeteroB Dy Dx Da Dk α) (p : PdfV R Dx α)
    (y : Arr R (Vec Dy α)) (Wi : Vec (Dx + 1) α) (ai : Vec Dy α) (start prev : Arr R α) : Arr R α :=
  omegaWhile (fun om => ops.updateOmegaStar be c p y Wi ai om) omegaMaxIter start prev

/-- `get_lb_heteroscedastic_term_i` of the base class:
`_lower_bound_integrals(p_x, y, W_i, a_i, stop_gradient(_get_omega_star(…)))` -/
def baseGetLbHeteroscedasticTermI (getOmegaDagger : OmegaDaggerFn α) (update : UpdateFn α)
    (lbi : LbiFn α) : LbHetFn α := fun be c p y Wi ai =>
  let omegaStar := baseGetOmegaStar getOmegaDagger update be c p y Wi ai
  (lbi be c p y Wi ai omegaStar false).1

/-- `get_lb_log_det` of the base class: `ln_det_Sigma + Σ_k k_func(W_k, omega_dagger_k)` -/
def baseGetLbLogDet (getOmegaDagger : OmegaDaggerFn α) (kFunc : KFn α) : LbLogDetFn α := fun be c p =>
  let omegaDagger : Arr _ (Arr _ α) := tab fun k => getOmegaDagger be p (c.W k)
  let kOmega : Arr _ (Arr _ α) := tab fun k => kFunc be p (c.W k) (omegaDagger k)
  tab fun r => c.lnDetSigma 0 + vsum fun k => kOmega k r

namespace HeteroB
variable (c : HeteroB Dy Dx Da Dk α)

/-- `get_lb_quadratic_term(p_x, y)`: homoscedastic quadratic term minus the per-unit lower
bounds, `[1, R]` -/
def getLbQuadraticTerm (ops : HLinkOps α) (be : Backend α) (p : PdfV R Dx α) (y : Arr R (Vec Dy α)) :
    Arr R α :=
  -- einsum('acb,acd->abd', Lambda, M), einsum('acb,ac->ab', Lambda, y - b)
  let projM : Mat Dy Dx α := mmul (transpose (c.Lambda 0)) (c.M 0)
  let yb : Arr R (Vec Dy α) := tab fun r => vsub (y r) (c.b 0)
  let projYb : Arr R (Vec Dy α) := tab fun r => vecMul (yb r) (c.Lambda 0)
  let v := (p.toMeasure.intView be).2
  let fA : AffForm R Dy Dx α := ⟨tab fun _ => mneg projM, projYb⟩
  let fB : AffForm R Dy Dx α := ⟨tab fun _ => mneg (c.M 0), yb⟩
  let homo := v.integrateQuadInner fA fB
  -- einsum('abc,acd->abd', Lambda, A[:,:,:Dk])[0]
  let Ainv : Mat Dy Dk α := mmul (c.Lambda 0) c.Ak
  let het : Arr Dk (Arr R α) := tab fun k =>
    ops.getLbHeteroscedasticTermI be c p y (c.W k) (tab fun i => Ainv i k)
  tab fun r => homo r - vsum fun k => het k r

/-- `integrate_log_conditional_y(p_x, y)`:
`-.5 * (lb_quadratic_term + lb_log_det + Dy * log(2π))[0]`, `[R]` -/
def integrateLogConditionalY (ops : HLinkOps α) (be : Backend α) (p : PdfV R Dx α)
    (y : Arr R (Vec Dy α)) : Arr R α :=
  let lbQ := c.getLbQuadraticTerm ops be p y
  let lbD := ops.getLbLogDet be c p
  tab fun r => -(half * (lbQ r + lbD r + ofNat Dy * log2pi))

end HeteroB

/-! ## `HeteroscedasticExpConditional` -/

/-- `_integrate_noise_diagonal`: `p_x.multiply(LinearFactor(nu=W[:,1:], ln_beta=W[:,0]),
update_full=True).integrate()` -/
def expIntegrateNoiseDiagonal : NoiseDiagFn α := fun be c p =>
  let expH : Factor _ _ α := .linear c.wMat c.w0
  ((p.toMeasure.multiply be expH true).integral be).2

/-- `k_func` (upper bound of `E[ln(1 + eʰ)]` at `omega_dagger`) -/
def expKFunc : KFn α := fun be p Wi omega =>
  let v := (p.toMeasure.intView be).2
  let f := hForm Wi
  let Eh2 := v.integrateQuadInner f f
  let Eh := v.integrateLinear f
  tab fun r =>
    let fomega := Transc.log (Transc.cosh (omega r / two)) + log2
    let fprime := half * Transc.tanh (omega r / two)
    half * Eh r 0 + fomega + half * fprime / omega r * (Eh2 r - omega r * omega r)

/-- `_lower_bound_integrals`: `p_x` times the Gaussian-form lower bound of the logistic function
of `h`, then `∫ (aᵀ(y − Mx − b))²` and `∫ h² (aᵀ(y − Mx − b))²`. -/
def expLowerBoundIntegrals : LbiFn α := fun be c p y Wi ai omega fourth =>
  let b : α := wHead Wi
  let w := wTail Wi
  let fomega : Arr _ α := tab fun r => Transc.log (Transc.cosh (half * omega r)) + log2
  let fprime : Arr _ α := tab fun r => half * Transc.tanh (half * omega r)
  let g1 : Arr _ α := tab fun r => fprime r / omega r
  let nu1 : Arr _ (Vec _ α) := tab2 fun r j => -((fprime r / omega r) * b - half) * w j
  let lnBeta1 : Arr _ α := tab fun r =>
    -(fomega r) - half * fprime r / omega r * (b * b - omega r * omega r) + half * b
  let lb := p.toMeasure.hadamard be (.oneRank (tab fun _ => w) g1 nu1 lnBeta1) true
  let v := (lb.intView be).2
  let fq := residualForm c y ai
  let quadratic := v.integrateQuadInner fq fq
  if fourth then
    let fh := hForm Wi
    (quadratic, some (v.integrateQuarticInner fh fh fq fq))
  else (quadratic, none)

def expOps : HLinkOps α where
  name := "exp"
  linkFunction := Transc.exp
  integrateNoiseDiagonal := expIntegrateNoiseDiagonal
  kFunc := expKFunc
  lowerBoundIntegrals := expLowerBoundIntegrals
  getOmegaDagger := baseGetOmegaDagger
  updateOmegaStar := baseUpdateOmegaStar expLowerBoundIntegrals
  getLbLogDet := baseGetLbLogDet baseGetOmegaDagger expKFunc
  getLbHeteroscedasticTermI :=
    baseGetLbHeteroscedasticTermI baseGetOmegaDagger (baseUpdateOmegaStar expLowerBoundIntegrals)
      expLowerBoundIntegrals

/-! ## `HeteroscedasticCoshM1Conditional` -/

/-- `_integrate_noise_diagonal`: `E[eʰ]/2 + E[e⁻ʰ]/2 − 1` -/
def coshIntegrateNoiseDiagonal : NoiseDiagFn α := fun be c p =>
  let nu := c.wMat
  let lnBeta := c.w0
  let plus : Factor _ _ α := .linear nu (tab fun k => lnBeta k - log2)
  let minus : Factor _ _ α := .linear (tab fun k => vneg (nu k)) (tab fun k => -(lnBeta k) - log2)
  let ip := ((p.toMeasure.multiply be plus true).integral be).2
  let im := ((p.toMeasure.multiply be minus true).integral be).2
  tab fun j => ip j + im j - 1

/-- `k_func` (upper bound of `E[ln cosh h]` at `omega_dagger`) -/
def coshKFunc : KFn α := fun be p Wi omega =>
  let v := (p.toMeasure.intView be).2
  let f := hForm Wi
  let Eh2 := v.integrateQuadInner f f
  tab fun r =>
    let fomega := Transc.log (Transc.cosh (omega r))
    let fprime := Transc.tanh (omega r)
    fomega + half * fprime / omega r * (Eh2 r - omega r * omega r)

/-- `_lower_bound_integrals`: `p_x` times the Gaussian-form lower bound of `1/cosh h`, then times
`eʰ/2`, `e⁻ʰ/2` and `1`: `∫ (cosh h − 1)·(…)`. -/
def coshLowerBoundIntegrals : LbiFn α := fun be c p y Wi ai omega fourth =>
  let b : α := wHead Wi
  let w := wTail Wi
  let fomega : Arr _ α := tab fun r => Transc.log (Transc.cosh (omega r))
  let fprime : Arr _ α := tab fun r => half * Transc.tanh (omega r) / omega r
  let g1 : Arr _ α := tab fun r => two * fprime r
  let nu1 : Arr _ (Vec _ α) := tab2 fun r j => -two * fprime r * b * w j
  let lnBeta1 : Arr _ α := tab fun r => -(fomega r) - fprime r * (b * b - omega r * omega r)
  -- v = jnp.tile(w, (omega_star.shape[0], 1))
  let lb := p.toMeasure.hadamard be (.oneRank (tab fun _ => w) g1 nu1 lnBeta1) true
  let fq := residualForm c y ai
  let expPlus : Factor 1 _ α := .linear (tab fun _ => w) (tab fun _ => b - log2)
  let phiPlus := lb.hadamardBF be expPlus true
  let vPlus := (phiPlus.intView be).2
  let quadPlus := vPlus.integrateQuadInner fq fq
  let expMinus : Factor 1 _ α := .linear (tab fun _ => vneg w) (tab fun _ => -b - log2)
  let phiMinus := lb.hadamardBF be expMinus true
  let vMinus := (phiMinus.intView be).2
  let quadMinus := vMinus.integrateQuadInner fq fq
  let v1 := (lb.intView be).2
  let quad1 := v1.integrateQuadInner fq fq
  let quadratic : Arr _ α := tab fun r => quadPlus r + quadMinus r - quad1 r
  if fourth then
    let fh := hForm Wi
    let qp := vPlus.integrateQuarticInner fh fh fq fq
    let qm := vMinus.integrateQuarticInner fh fh fq fq
    let q1 := v1.integrateQuarticInner fh fh fq fq
    (quadratic, some (tab fun r => qp r + qm r - q1 r))
  else (quadratic, none)

def coshM1Ops : HLinkOps α where
  name := "coshm1"
  linkFunction := fun h => Transc.cosh h - 1
  integrateNoiseDiagonal := coshIntegrateNoiseDiagonal
  kFunc := coshKFunc
  lowerBoundIntegrals := coshLowerBoundIntegrals
  getOmegaDagger := baseGetOmegaDagger
  updateOmegaStar := baseUpdateOmegaStar coshLowerBoundIntegrals
  getLbLogDet := baseGetLbLogDet baseGetOmegaDagger coshKFunc
  getLbHeteroscedasticTermI :=
    baseGetLbHeteroscedasticTermI baseGetOmegaDagger (baseUpdateOmegaStar coshLowerBoundIntegrals)
      coshLowerBoundIntegrals

end
end GT
