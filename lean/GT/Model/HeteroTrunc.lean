import GT.Model.Hetero
import GT.Model.Truncated
/-!
# Heteroscedastic conditionals with a step / rectified-linear link
(`approximate_conditional.py:1256-1466`)

`heavisideOps` is `HeteroscedasticHeavisideConditional`, `reluOps` is
`HeteroscedasticReLUConditional`, as two further values of the method table `HLinkOps` of
`GT/Model/Hetero.lean`.  Both classes push `p(x)` forward to the one-dimensional density of
`h = wᵀx + w0` (`get_density_of_linear_sum`) and integrate over `h ≥ 0` with a
`TruncatedGaussianMeasure` (`GT/Model/Truncated.lean`).

Everything is transcribed *as coded*:

* `_integrate_noise_diagonal` of both classes maps the truncated unit integral (`[R]`, one value per
  component of `p_x`) over the noise units and transposes, `[R, Dk]`; `integrate_Sigma_x` reads it as
  `r*Dk + k` (`truncNoiseFlat`).
* `HeteroscedasticHeavisideConditional.k_func` and `._lower_bound_integrals` have the body `pass`
  (they return `None`); the table entries are NaN-filled placeholders that nothing reachable
  reads (the class overrides `get_lb_log_det` and `get_lb_heteroscedastic_term_i`; the driver
  answers the direct calls itself).
* the `Dx == 1` branches divide by `w[0]`.
-/
namespace GT

section
variable {α : Type} [Add α] [Sub α] [Mul α] [Div α] [Neg α] [OfNat α 0] [OfNat α 1] [Transc α]
variable {Dy Dx Da Dk R : Nat}

/-! ## shared pieces -/

/-- `p_x.get_density_of_linear_sum(w[None], w0[None])` with `w = W_i[None,1:]`, `w0 = W_i[None,0]`
(the same call, with `w_i[None, None]`, `w0_i[None, None]`, inside the `vmap`s): the density of
`h = wᵀx + w0` for every component of `p_x`. -/
def hDensity (be : Backend α) (p : PdfV R Dx α) (Wi : Vec (Dx + 1) α) : MeasureB R 1 α :=
  let w : Vec Dx α := wTail Wi
  let w0 : α := wHead Wi
  p.linearSum be (tab fun _ => tab fun _ => w) (some (tab fun _ => tab fun _ => w0))

/-- `TruncatedGaussianMeasure(measure=m, lower_limit=0., upper_limit=jnp.inf)` (`upperGiven`) or
`TruncatedGaussianMeasure(measure=m, lower_limit=0.)`; `none` is dead (a limit is given). -/
def truncPos (be : Backend α) (m : MeasureB R 1 α) (upperGiven : Bool) : Option (TruncB R α) :=
  let upper : Option (LimArg R α) := if upperGiven then some (.scalar .posInf) else none
  (mkTruncMeasure be m (some (.scalar (.fin 0))) upper).map (·.2)

/-- filler of the dead `none` branches -/
def nanArr : Arr R α := tab fun _ => Transc.nan

/-- `vmap(integrate_f_i)(w, w0).T`: the `[Dk, R]` unit integrals as the `[R, Dk]` array the code returns, stored flat
(`r*Dk + k`) in the `[R*Dk]` slot of the link table -/
def truncNoiseFlat (vals : Arr Dk (Arr R α)) : Arr (R * Dk) α :=
  tab fun j => vals (unflatR j) (unflatL j)

/-- `a_projected_M = einsum('ab,cad->cbd', a_i[:,None], M)[0,0]` -/
def aProjM (c : HeteroB Dy Dx Da Dk α) (ai : Vec Dy α) : Vec Dx α :=
  tab fun d => vsum fun i => ai i * c.M 0 i d

/-- `a_projected_yb = einsum('ab,ca->cb', a_i[:,None], y - b)[:,0]` -/
def aProjYb (c : HeteroB Dy Dx Da Dk α) (y : Arr R (Vec Dy α)) (ai : Vec Dy α) : Arr R α :=
  tab fun r => vsum fun i => ai i * (y r i - c.b 0 i)

/-- the first two statements of both branches of `get_lb_heteroscedastic_term_i` (step link) and
`_lower_bound_integrals` (rectified-linear link): the density `p_h` of `h`, and the coefficients
`factor`/`c1`, `constant`/`c0` and (for `Dx > 1`) the conditional variance such that
`g = aᵀ(y − Mx − b)` given `h` has mean `c0 + c1 h`.

* `Dx == 1`: `c1 = a_projected_M[:,0,0] / w[:,0]`, `c0 = -(a_projected_yb[:,0] + c1 * w0)`,
  `p_h = p_x.get_density_of_linear_sum(w[None], w0[None])` (here `g = −(c0 + c1 h)`; only the
  square is used).
* otherwise: the joint `p_hg` of `(g, h)` (`sum_weights = [-a_projected_M; w]`,
  `sum_bias = [a_projected_yb, w0]`), `p_h = p_hg.get_marginal([1])`,
  `p_g_given_h = p_hg.condition_on_explicit([1], [0])`, `c1 = M[:,0,0]`, `c0 = b[:,0]`,
  `Sigma[:,0,0]`. -/
def projectGH (be : Backend α) (c : HeteroB Dy Dx Da Dk α) (p : PdfV R Dx α) (y : Arr R (Vec Dy α))
    (Wi : Vec (Dx + 1) α) (ai : Vec Dy α) :
    MeasureB R 1 α × Arr R α × Arr R α × Option (Arr R α) :=
  let w0 : α := wHead Wi
  let w : Vec Dx α := wTail Wi
  let aM := aProjM c ai
  let ayb := aProjYb c y ai
  if hD : Dx = 1 then
    let i0 : Fin Dx := ⟨0, by omega⟩
    let c1 : α := aM i0 / w i0
    let c0 : Arr R α := tab fun r => -(ayb r + c1 * w0)
    (hDensity be p Wi, tab fun _ => c1, c0, none)
  else
    -- jnp.tile(jnp.concatenate([-a_projected_M[:,0], w])[None], (N,1,1))
    let sumW : Mat 2 Dx α := tab2 fun s d => if s.1 = 0 then -(aM d) else w d
    -- jnp.hstack([a_projected_yb, jnp.tile(w0[None], (N,1))])
    let sumB : Arr R (Vec 2 α) := tab2 fun r s => if s.1 = 0 then ayb r else w0
    let phg := p.linearSum be (tab fun _ => sumW) (some sumB)
    match phg.asPdf with
    | none => (hDensity be p Wi, nanArr, nanArr, none)   -- dead: `p_hg` is a `GaussianPDF`
    | some q =>
      let one2 : Fin 1 → Fin 2 := fun _ => 1
      let zero2 : Fin 1 → Fin 2 := fun _ => 0
      let ph := q.getMarginal be one2
      let gh := q.conditionOnExplicit be one2 zero2
      (ph, tab fun r => gh.M r 0 0, tab fun r => gh.b r 0, some (tab fun r => gh.Sigma r 0 0))

/-! ## `HeteroscedasticHeavisideConditional` -/

/-- `link_function`: `jnp.where(jnp.greater_equal(h, 0.), 1., 0.)` -/
def heavisideLink (h : α) : α := if Transc.lt h 0 then 0 else 1

/-- `integrate_f_i` of `get_lb_log_det` (and of `_integrate_noise_diagonal`):
`P(h_i ≥ 0)` for every component of `p_x`, `[R]` -/
def heavisideUnitIntegral (be : Backend α) (p : PdfV R Dx α) (Wi : Vec (Dx + 1) α) : Arr R α :=
  match truncPos be (hDensity be p Wi) true with
  | some t => t.integral
  | none => nanArr

/-- `_integrate_noise_diagonal(p_x)`: `vmap` of `tp_h.integral()` over the units, transposed, `[R, Dk]` -/
def heavisideIntegrateNoiseDiagonal : NoiseDiagFn α := fun be c p =>
  truncNoiseFlat (tab fun k => heavisideUnitIntegral be p (c.W k))

/-- `get_lb_log_det` (override): `ln_det_Sigma + Σ_k log(2) · P(h_k ≥ 0)` -/
def heavisideGetLbLogDet : LbLogDetFn α := fun be c p =>
  let I : Arr _ (Arr _ α) := tab fun k => heavisideUnitIntegral be p (c.W k)
  let int_ln1pf_h : Arr _ (Arr _ α) := tab2 fun k r => log2 * I k r
  tab fun r => c.lnDetSigma 0 + vsum fun k => int_ln1pf_h k r

/-- `get_lb_heteroscedastic_term_i` (override):
`0.5 * (Zh c0² + Eh2 c1² + 2 Eh c1 c0 [+ Zh Σ_{g|h}])` over `h ≥ 0` -/
def heavisideGetLbHeteroscedasticTermI : LbHetFn α := fun be c p y Wi ai =>
  let (ph, factor, constant, sig) := projectGH be c p y Wi ai
  -- `Dx == 1`: `upper_limit=jnp.inf` is passed; otherwise it is left to `_check_limits`
  match truncPos be ph sig.isNone with
  | none => nanArr
  | some t =>
    let Zh := t.integral
    let Eh := t.integrateX
    let Eh2 := t.integrateXPow2
    tab fun r =>
      let term := Zh r * (constant r * constant r) + Eh2 r 0 * (factor r * factor r)
        + two * Eh r 0 * factor r * constant r
      let term := match sig with
        | some s => term + Zh r * s r
        | none => term
      term * half

/-- `k_func`: the body is `pass` -/
def heavisideKFunc : KFn α := fun _ _ _ _ => nanArr

/-- `_lower_bound_integrals`: the body is `pass` -/
def heavisideLowerBoundIntegrals : LbiFn α := fun _ _ _ _ _ _ _ _ => (nanArr, none)

def heavisideOps : HLinkOps α where
  name := "heaviside"
  linkFunction := heavisideLink
  integrateNoiseDiagonal := heavisideIntegrateNoiseDiagonal
  kFunc := heavisideKFunc
  lowerBoundIntegrals := heavisideLowerBoundIntegrals
  getOmegaDagger := baseGetOmegaDagger
  updateOmegaStar := baseUpdateOmegaStar heavisideLowerBoundIntegrals
  getLbLogDet := heavisideGetLbLogDet
  getLbHeteroscedasticTermI := heavisideGetLbHeteroscedasticTermI

/-! ## `HeteroscedasticReLUConditional` -/

/-- `link_function`: `jnp.maximum(h, 0.)` -/
def reluLink (h : α) : α := if Transc.lt h 0 then 0 else h

/-- `tp_h.integrate('x')[:,0]` for the density of `h_i` truncated to `h ≥ 0`: `E[max(h_i, 0)]`
for every component of `p_x`, `[R]` (`_get_omega_dagger`; `integrate_f_i`
of `_integrate_noise_diagonal`) -/
def reluUnitIntegral (be : Backend α) (p : PdfV R Dx α) (Wi : Vec (Dx + 1) α) : Arr R α :=
  match truncPos be (hDensity be p Wi) true with
  | some t =>
    let E := t.integrateX
    tab fun r => E r 0
  | none => nanArr

/-- `_integrate_noise_diagonal(p_x)`: `vmap` of `tp_h.integrate('x')[:,0]` over the units, transposed, `[R, Dk]` -/
def reluIntegrateNoiseDiagonal : NoiseDiagFn α := fun be c p =>
  truncNoiseFlat (tab fun k => reluUnitIntegral be p (c.W k))

/-- `_get_omega_dagger` (override, static): `tp_h.integrate('x')[:,0] / tp_h.integral()` (guarded), the mean of `h` given
`h ≥ 0` (the tangent point that maximises the bound of `k_func`) -/
def reluGetOmegaDagger : OmegaDaggerFn α := fun be p Wi =>
  let E := reluUnitIntegral be p Wi
  let Z := heavisideUnitIntegral be p Wi
  -- `jnp.where(Zh > 0, E / where(Zh > 0, Zh, 1), 0)`: zero where `P(h ≥ 0)` underflows
  tab fun r => if Transc.lt 0 (Z r) then E r / Z r else 0

/-- `k_func`: `Zh c0 + c1 (Eh − Zh ω)` with `c0 = log(1 + ω)`, `c1 = 1/(1 + ω)`
(tangent upper bound of `log(1 + h)` at `ω`, integrated over `h ≥ 0`) -/
def reluKFunc : KFn α := fun be p Wi omega =>
  match truncPos be (hDensity be p Wi) true with
  | none => nanArr
  | some t =>
    let Zh := t.integral
    let Eh := t.integrateX
    tab fun r =>
      let c0 := Transc.log (1 + omega r)
      let c1 := 1 / (1 + omega r)
      Zh r * c0 + c1 * (Eh r 0 - Zh r * omega r)

/-- `_lower_bound_integrals`: `p_h` times the exponential lower bound of `1/(1 + h)` at `ω`
(a `LinearFactor`), truncated to `h ≥ 0`; third- and fourth-order integrals
`∫ h (c0 + c1 h)² …`, `∫ h² (c0 + c1 h)² …` -/
def reluLowerBoundIntegrals : LbiFn α := fun be c p y Wi ai omega fourth =>
  let nuPhi : Arr _ α := tab fun r => -1 / (1 + omega r)
  let lnBetaPhi : Arr _ α := tab fun r => -(Transc.log (1 + omega r)) + omega r / (1 + omega r)
  let phiFactor : Factor _ 1 α := .linear (tab2 fun r _ => nuPhi r) lnBetaPhi
  let (ph, c1, c0, sig) := projectGH be c p y Wi ai
  let phiH := ph.hadamard be phiFactor true
  match truncPos be phiH false with
  | none => (nanArr, none)
  | some t =>
    let Eh := t.integrateX
    let Eh2 := t.integrateXPow2
    let Eh3 := t.integrateXPowK 3
    let cubic : Arr _ α := tab fun r =>
      let v := Eh r 0 * (c0 r * c0 r) + Eh3 r 0 * (c1 r * c1 r) + two * Eh2 r 0 * c1 r * c0 r
      match sig with
      | some s => v + Eh r 0 * s r
      | none => v
    if fourth then
      let Eh4 := t.integrateXPowK 4
      let quartic : Arr _ α := tab fun r =>
        let v := Eh2 r 0 * (c0 r * c0 r) + Eh4 r 0 * (c1 r * c1 r) + two * Eh3 r 0 * c1 r * c0 r
        match sig with
        | some s => v + Eh2 r 0 * s r
        | none => v
      (cubic, some quartic)
    else (cubic, none)

/-- `_update_omega_star` (override): `(quartic / where(cubic != 0, cubic, 1))[0]` -/
def reluUpdateOmegaStar (lbi : LbiFn α) : UpdateFn α := fun be c p y Wi ai omega =>
  let (cubic, quartic) := lbi be c p y Wi ai omega true
  match quartic with
  | some quartic => tab fun r =>
    let cu := if ne0 (cubic r) then cubic r else 1
    quartic r / cu
  | none => omega   -- dead: `compute_fourth_order=True`

def reluOps : HLinkOps α where
  name := "relu"
  linkFunction := reluLink
  integrateNoiseDiagonal := reluIntegrateNoiseDiagonal
  kFunc := reluKFunc
  lowerBoundIntegrals := reluLowerBoundIntegrals
  getOmegaDagger := reluGetOmegaDagger
  updateOmegaStar := reluUpdateOmegaStar reluLowerBoundIntegrals
  getLbLogDet := baseGetLbLogDet reluGetOmegaDagger reluKFunc
  getLbHeteroscedasticTermI :=
    baseGetLbHeteroscedasticTermI reluGetOmegaDagger (reluUpdateOmegaStar reluLowerBoundIntegrals)
      reluLowerBoundIntegrals

end
end GT
