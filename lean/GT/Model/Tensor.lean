import GT.Model.Scalar
/-!
# Vectors, matrices, batches and the library's index layouts

Tensors are *data*: `Arr n β` is an array of length `n`; `Vec n α = Arr n α`,
`Mat m n α = Arr m (Arr n α)`, a batch of `R` things is `Arr R _`.  `tab f` tabulates a finite
function (every intermediate of the model is therefore computed once, as in the eager NumPy
code), `a i` reads it back (`CoeFun`), and `(tab f) i = f i` (`GT/Bridge/Basic.lean`).
Finite sums are a left fold over `List.ofFn`.
-/
namespace GT

structure Arr (n : Nat) (β : Type) where
  data : Array β
  size_eq : data.size = n

namespace Arr
variable {β : Type} {n : Nat}

/-- tabulate a finite function -/
def ofFn (f : Fin n → β) : Arr n β := ⟨Array.ofFn f, Array.size_ofFn⟩

def get (a : Arr n β) (i : Fin n) : β := a.data[i.1]'(by rw [a.size_eq]; exact i.2)

instance : CoeFun (Arr n β) (fun _ => Fin n → β) := ⟨Arr.get⟩
end Arr

abbrev Vec (n : Nat) (α : Type) := Arr n α
abbrev Mat (m n : Nat) (α : Type) := Arr m (Arr n α)

/-- `tab fun i => e` -/
abbrev tab {β : Type} {n : Nat} (f : Fin n → β) : Arr n β := Arr.ofFn f
abbrev tab2 {β : Type} {m n : Nat} (f : Fin m → Fin n → β) : Arr m (Arr n β) :=
  Arr.ofFn fun i => Arr.ofFn (f i)
abbrev tab3 {β : Type} {r m n : Nat} (f : Fin r → Fin m → Fin n → β) : Arr r (Arr m (Arr n β)) :=
  Arr.ofFn fun k => Arr.ofFn fun i => Arr.ofFn (f k i)

section
variable {α : Type} [Add α] [Sub α] [Mul α] [Div α] [Neg α] [OfNat α 0] [OfNat α 1]

/-- `∑ i, f i` as a left fold (the order JAX uses is irrelevant up to rounding). -/
def vsum {n : Nat} (f : Fin n → α) : α := (List.ofFn f).foldl (· + ·) 0

def dot {n : Nat} (u v : Vec n α) : α := vsum fun i => u i * v i
/-- `A v` -/
def mulVec {m n : Nat} (A : Mat m n α) (v : Vec n α) : Vec m α := tab fun i => vsum fun j => A i j * v j
/-- `vᵀ A` -/
def vecMul {m n : Nat} (v : Vec m α) (A : Mat m n α) : Vec n α := tab fun j => vsum fun i => v i * A i j
def mmul {m n k : Nat} (A : Mat m n α) (B : Mat n k α) : Mat m k α :=
  tab2 fun i j => vsum fun l => A i l * B l j
def transpose {m n : Nat} (A : Mat m n α) : Mat n m α := tab2 fun i j => A j i
def trace {n : Nat} (A : Mat n n α) : α := vsum fun i => A i i
def outer {m n : Nat} (u : Vec m α) (v : Vec n α) : Mat m n α := tab2 fun i j => u i * v j
def eye {n : Nat} : Mat n n α := tab2 fun i j => if i = j then 1 else 0
def zeroV {n : Nat} : Vec n α := tab fun _ => 0
def zeroM {m n : Nat} : Mat m n α := tab2 fun _ _ => 0
def madd {m n : Nat} (A B : Mat m n α) : Mat m n α := tab2 fun i j => A i j + B i j
def msub {m n : Nat} (A B : Mat m n α) : Mat m n α := tab2 fun i j => A i j - B i j
def mneg {m n : Nat} (A : Mat m n α) : Mat m n α := tab2 fun i j => -(A i j)
def vadd {n : Nat} (u v : Vec n α) : Vec n α := tab fun i => u i + v i
def vsub {n : Nat} (u v : Vec n α) : Vec n α := tab fun i => u i - v i
def vneg {n : Nat} (u : Vec n α) : Vec n α := tab fun i => -(u i)
def smulV {n : Nat} (c : α) (u : Vec n α) : Vec n α := tab fun i => c * u i
def smulM {m n : Nat} (c : α) (A : Mat m n α) : Mat m n α := tab2 fun i j => c * A i j
/-- quadratic form `xᵀ A x`, contracted as the library does (`(A x)·x`). -/
def quad {n : Nat} (A : Mat n n α) (x : Vec n α) : α := dot (mulVec A x) x
end

/-! ## layouts -/

/-- C-order `reshape (a,b) → a*b`: `k ↦ k / b`. -/
def unflatL {a b : Nat} (k : Fin (a * b)) : Fin a :=
  ⟨k.1 / b, by
    have hb : 0 < b := by
      rcases Nat.eq_zero_or_pos b with h | h
      · subst h; exact absurd k.2 (by simp)
      · exact h
    exact (Nat.div_lt_iff_lt_mul hb).2 k.2⟩

/-- C-order `reshape (a,b) → a*b`: `k ↦ k % b`. -/
def unflatR {a b : Nat} (k : Fin (a * b)) : Fin b :=
  ⟨k.1 % b, by
    have hb : 0 < b := by
      rcases Nat.eq_zero_or_pos b with h | h
      · subst h; exact absurd k.2 (by simp)
      · exact h
    exact Nat.mod_lt _ hb⟩

/-- `(i,j) ↦ i*b+j`. -/
def flat {a b : Nat} (i : Fin a) (j : Fin b) : Fin (a * b) :=
  ⟨i.1 * b + j.1, by
    have h1 : i.1 * b + j.1 < i.1 * b + b := Nat.add_lt_add_left j.2 _
    have h2 : i.1 * b + b = (i.1 + 1) * b := by rw [Nat.add_mul, Nat.one_mul]
    have h3 : (i.1 + 1) * b ≤ a * b := Nat.mul_le_mul_right b i.2
    omega⟩

/-- JAX `jnp.take(·, i, axis=0)` index resolution: negative indices wrap once, anything else
out of range is "fill". -/
def takeIdx (R : Nat) (i : Int) : Option (Fin R) :=
  if h : 0 ≤ i ∧ i < R then some ⟨i.toNat, by omega⟩
  else if h' : -(R : Int) ≤ i ∧ i < 0 then some ⟨(i + R).toNat, by omega⟩
  else none

/-- `jnp.take(x, idx, axis=0)` with fill value. -/
def take {β : Type} {R N : Nat} (x : Arr R β) (idx : Fin N → Int) (fill : β) : Arr N β :=
  tab fun n => match takeIdx R (idx n) with
    | some r => x r
    | none => fill

/-- Split index of a concatenation `Fin (m+n)`: left part or right part. -/
def splitIdx {m n : Nat} (k : Fin (m + n)) : Sum (Fin m) (Fin n) :=
  if h : k.1 < m then Sum.inl ⟨k.1, h⟩ else Sum.inr ⟨k.1 - m, by omega⟩

/-- `jnp.hstack([u, v])` -/
def vappend {α : Type} {m n : Nat} (u : Vec m α) (v : Vec n α) : Vec (m + n) α :=
  tab fun k => match splitIdx k with
    | Sum.inl i => u i
    | Sum.inr j => v j

/-- `jnp.block([[A, B], [C, D]])` -/
def block {α : Type} {m n p q : Nat} (A : Mat m p α) (B : Mat m q α) (C : Mat n p α) (D : Mat n q α) :
    Mat (m + n) (p + q) α :=
  tab2 fun i j => match splitIdx i, splitIdx j with
    | Sum.inl i, Sum.inl j => A i j
    | Sum.inl i, Sum.inr j => B i j
    | Sum.inr i, Sum.inl j => C i j
    | Sum.inr i, Sum.inr j => D i j

end GT
