import GT.Model.Conditional
import GT.Model.Integrals
/-!
# Expected log-conditionals of the linear classes (`conditional.py:385-461`)
-/
namespace GT
section
variable {α : Type} [Add α] [Sub α] [Mul α] [Div α] [Neg α] [OfNat α 0] [OfNat α 1] [Transc α]
variable {Rc Rp Dy Dx : Nat}

/-- `integrate_log_conditional(p_yx)`: `E_q[ln p(y|x)]` for `q` over `(y, x)` (y first).
`sc` selects the conditional for component `r` of `q` (`R = 1` or `R = q.R`). -/
def CondB.integrateLogConditional (c : CondB Rc Dy Dx α) (v : IntV Rp (Dy + Dx) α)
    (sc : Fin Rp → Fin Rc) : Arr Rp α :=
  let A : Arr Rp (Mat Dy (Dy + Dx) α) := tab3 fun r i j =>
    match splitIdx j with
    | Sum.inl j => (eye : Mat Dy Dy α) i j
    | Sum.inr j => -(c.M (sc r) i j)
  let a : Arr Rp (Vec Dy α) := tab2 fun r i => -(c.b (sc r) i)
  let At := tab fun r => mmul (c.Lambda (sc r)) (A r)
  let bt := tab fun r => mulVec (c.Lambda (sc r)) (a r)
  let q := v.integrateQuadInner ⟨A, a⟩ ⟨At, bt⟩
  tab fun r =>
    -(half * (q r + (c.lnDetSigma (sc r) + ofNat Dy * log2pi)))

/-- `integrate_log_conditional_y(p_x)(y)` for the single conditional (`R = 1` is enforced by the
code), component `r` of `p_x`, one observation `y`. -/
def CondB.integrateLogConditionalY (c : CondB 1 Dy Dx α) (v : IntV Rp Dx α) (r : Fin Rp)
    (y : Vec Dy α) : α :=
  let f : AffForm Rp Dy Dx α := ⟨tab fun _ => c.M 0, tab fun _ => c.b 0⟩
  let LM := mmul (c.Lambda 0) (c.M 0)
  let Lb := mulVec (c.Lambda 0) (c.b 0)
  let ft : AffForm Rp Dy Dx α := ⟨tab fun _ => LM, tab fun _ => Lb⟩
  let quadratic := v.integrateQuadInner f ft r
  let lin := v.integrateLinear ft r
  let const := -(half * (quadratic + (c.lnDetSigma 0 + ofNat Dy * log2pi)));
  -(half * dot y (mulVec (c.Lambda 0) y)) + dot y lin + const

end
end GT
