import GT.Model.Conditional
import GT.Model.Integrals
import GT.Model.LogCond
/-!
# `gaussian_toolbox/approximate_conditional.py:1-690` — feature-based approximate conditionals

`FeatCondB` is `LRBFGaussianConditional` / `LSEMGaussianConditional` (tag `kernel`), i.e. the base
class `LConjugateFactorMGaussianConditional` together with the kernel factor `self.k_func` that
`update_phi` installs.  The classes are typed `M : [1, Dy, Dx+Dk]`, `b : [1, Dy]`, and every method
reads `self.M[0]`, `self.b[0]` only: the model fixes the conditional batch to `R = 1`.  The batch
of the Gaussian argument (`p_x.R`, `p_yx.R`) is arbitrary.

One definition per Python method, same intermediate quantities (`Ex`, `Ekx`, `Ef`, `Exx`, `Ekk`,
`Eff`, `MEfb`, …).  The kernel expectations are products of the density with the kernel factors
(`MeasureB.multiply`, batch `p_x.R * Dk`, component `r*Dk + k`) followed by `integrate`.
-/
namespace GT

/-- constructor parameters of the two concrete classes -/
inductive FeatKernel (Dk Dx : Nat) (α : Type) where
  /-- `LRBFGaussianConditional(mu=…, length_scale=…)` -/
  | rbf (mu ls : Mat Dk Dx α)
  /-- `LSEMGaussianConditional(W=…)` after `__post_init__`: `w0 = W[:, 0]`, `W = W[:, 1:]` -/
  | lsem (W : Mat Dk Dx α) (w0 : Vec Dk α)

structure FeatCondB (Dy Dx Dk : Nat) (α : Type) where
  M : Arr 1 (Mat Dy (Dx + Dk) α)
  b : Arr 1 (Vec Dy α)
  Sigma : Arr 1 (Mat Dy Dy α)
  Lambda : Arr 1 (Mat Dy Dy α)
  lnDetSigma : Arr 1 α
  kernel : FeatKernel Dk Dx α
  /-- `self.k_func` (a `GaussianDiagMeasure` for RBF — used only as a conjugate factor, never
  integrated itself — and a `OneRankFactor` for LSEM) -/
  kFunc : Factor Dk Dx α

section
variable {α : Type} [Add α] [Sub α] [Mul α] [Div α] [Neg α] [OfNat α 0] [OfNat α 1] [Transc α]
variable {Dy Dx Dk Rx Rq N : Nat}

/-! ## `update_phi` and construction -/

/-- `update_phi` of the two classes.

* RBF: `Lambda = eye(Dx)[None] / length_scale[:, None] ** 2`, `nu = mu / length_scale**2`,
  `ln_beta = -0.5 * sum((mu / length_scale) ** 2, axis=1)`.
* LSEM: `v = W`, `nu = -W * w0[:, None]`, `ln_beta = -0.5 * w0**2`, `g = 1`; that factor is
  `exp(-½ (wᵀx + w0)²)`, the documented kernel (sign repaired by a `fix:` commit). -/
def FeatKernel.kFunc : FeatKernel Dk Dx α → Factor Dk Dx α
  | .rbf mu ls =>
    let Lam : Arr Dk (Mat Dx Dx α) := tab3 fun k i j => (eye : Mat Dx Dx α) i j / (ls k j * ls k j)
    let nu : Arr Dk (Vec Dx α) := tab2 fun k i => mu k i / (ls k i * ls k i)
    let lb : Arr Dk α := tab fun k => -(half * vsum fun i => (mu k i / ls k i) * (mu k i / ls k i))
    .general ⟨Lam, nu, lb⟩
  | .lsem W w0 =>
    .oneRank W (tab fun _ => 1) (tab2 fun k i => -(W k i) * w0 k) (tab fun k => -(half * (w0 k * w0 k)))

/-- `__post_init__` of both classes: the covariance logic of `ConditionalGaussianPDF`, then
`update_phi`.  `none` = `RuntimeError("Either Sigma or Lambda need to be specified.")`. -/
def mkFeatCond (be : Backend α) (M : Arr 1 (Mat Dy (Dx + Dk) α)) (b : Option (Arr 1 (Vec Dy α)))
    (kernel : FeatKernel Dk Dx α) (Sigma Lambda : Option (Arr 1 (Mat Dy Dy α)))
    (lnDetSigma : Option (Arr 1 α)) : Option (FeatCondB Dy Dx Dk α) :=
  match condCovInit be false Sigma Lambda lnDetSigma with
  | some (S, L, ld) => some ⟨M, b.getD (tab fun _ => zeroV), S, L, ld, kernel, kernel.kFunc⟩
  | none => none

/-- calling `update_phi()` again -/
def FeatCondB.updatePhi (c : FeatCondB Dy Dx Dk α) : FeatCondB Dy Dx Dk α :=
  { c with kFunc := c.kernel.kFunc }

/-- inherited `update_Sigma` (`invert_matrix`; the kernel factor is untouched) -/
def FeatCondB.updateSigma (be : Backend α) (c : FeatCondB Dy Dx Dk α) (S : Arr 1 (Mat Dy Dy α)) :
    FeatCondB Dy Dx Dk α :=
  let (L, ld) := invertBatch be false S
  { c with Sigma := S, Lambda := L, lnDetSigma := ld }

/-- the linear conditional on the feature vector with the same stored arrays: what the inherited
`slice` builds from (`ConditionalGaussianPDF(M=take(M), …)` with `Dx := Dx + Dk`). -/
def FeatCondB.asLinear (c : FeatCondB Dy Dx Dk α) : CondB 1 Dy (Dx + Dk) α :=
  ⟨false, c.M, c.b, c.Sigma, c.Lambda, c.lnDetSigma⟩

/-- inherited `slice`: a plain `ConditionalGaussianPDF` over the feature vector -/
def FeatCondB.slice (c : FeatCondB Dy Dx Dk α) (idx : Fin N → Int) : CondB N Dy (Dx + Dk) α :=
  c.asLinear.slice idx

/-- `self.M[:, :, :Dx]` -/
def FeatCondB.Mx (c : FeatCondB Dy Dx Dk α) : Mat Dy Dx α :=
  tab2 fun i j => c.M 0 i ⟨j.1, by omega⟩

/-- `self.M[:, :, Dx:]` -/
def FeatCondB.Mk (c : FeatCondB Dy Dx Dk α) : Mat Dy Dk α :=
  tab2 fun i k => c.M 0 i ⟨Dx + k.1, by omega⟩

/-! ## feature vector, conditional mean, conditioning -/

/-- `self.k_func.evaluate(x).T` at one point -/
def FeatCondB.kernelAt (c : FeatCondB Dy Dx Dk α) (x : Vec Dx α) : Vec Dk α :=
  tab fun k => Transc.exp (c.kFunc.evalLn k x)

/-- `evaluate_phi`: `block([x, k_func.evaluate(x).T])` -/
def FeatCondB.evaluatePhi (c : FeatCondB Dy Dx Dk α) (x : Arr N (Vec Dx α)) : Arr N (Vec (Dx + Dk) α) :=
  tab fun n => vappend (x n) (c.kernelAt (x n))

/-- `get_conditional_mu`: `einsum("ab,cb->ca", M[0], phi_x) + b[0][None]` -/
def FeatCondB.condMu (c : FeatCondB Dy Dx Dk α) (x : Arr N (Vec Dx α)) : Arr N (Vec Dy α) :=
  let phi := c.evaluatePhi x
  tab fun n => vadd (mulVec (c.M 0) (phi n)) (c.b 0)

/-- inherited `condition_on_x` (`R = 1`): component `n` is `N(μ(x_n), Σ)` -/
def FeatCondB.conditionOnX (be : Backend α) (c : FeatCondB Dy Dx Dk α) (x : Arr N (Vec Dx α)) :
    MeasureB N Dy α :=
  mkPdf be false (tab fun _ => c.Sigma 0) (c.condMu x)
    (some (tab fun _ => c.Lambda 0)) (some (tab fun _ => c.lnDetSigma 0))

/-! ## matched moments -/

/-- `get_expected_moments(p_x)`: `(mu_y, Sigma_y)` -/
def FeatCondB.expectedMoments (be : Backend α) (c : FeatCondB Dy Dx Dk α) (p : PdfV Rx Dx α) :
    Arr Rx (Vec Dy α) × Arr Rx (Mat Dy Dy α) :=
  let pm := p.toMeasure
  let (pm, v0) := pm.intView be
  -- E[x]
  let Ex := v0.integrateX
  -- E[k(x)]: `p_k = p_x.multiply(k_func, update_full=True)`, `p_k.integrate()`
  let pk := pm.multiply be c.kFunc true
  let (pk, vk) := pk.intView be
  let Ek : Arr Rx (Vec Dk α) := tab2 fun r k => vk.mass (flat r k)
  let Ef : Arr Rx (Vec (Dx + Dk) α) := tab fun r => vappend (Ex r) (Ek r)
  -- E[xx'], E[k(x) x'], E[k(x)k(x)']
  let Exx := v0.integrateXXT
  let EkxAll := vk.integrateX
  let Ekx : Arr Rx (Mat Dk Dx α) := tab3 fun r k i => EkxAll (flat r k) i
  let pkk := pk.multiply be c.kFunc true
  let (_, vkk) := pkk.intView be
  let Ekk : Arr Rx (Mat Dk Dk α) := tab3 fun r k l => vkk.mass (flat (flat r k) l)
  let Eff : Arr Rx (Mat (Dx + Dk) (Dx + Dk) α) :=
    tab fun r => block (Exx r) (transpose (Ekx r)) (Ekx r) (Ekk r)
  let M0 := c.M 0
  let b0 := c.b 0
  let MEf : Arr Rx (Vec Dy α) := tab fun r => mulVec M0 (Ef r)
  let muY : Arr Rx (Vec Dy α) := tab fun r => vadd (MEf r) b0
  let SigY : Arr Rx (Mat Dy Dy α) := tab fun r =>
    let MEffM := mmul M0 (mmul (Eff r) (transpose M0))
    let S1 := madd (c.Sigma 0) MEffM
    let MEfb : Mat Dy Dy α := tab2 fun i j => MEf r i * b0 j
    let S2 := madd S1 (madd MEfb (transpose MEfb))
    let S3 : Mat Dy Dy α := tab2 fun i j => S2 i j + b0 j * b0 i
    let S4 : Mat Dy Dy α := tab2 fun i j => S3 i j - muY r j * muY r i
    tab2 fun i j => half * (S4 i j + S4 j i)
  (muY, SigY)

/-- `get_expected_cross_terms(p_x)`: `E[y xᵀ]`, `[Rx, Dy, Dx]` -/
def FeatCondB.expectedCrossTerms (be : Backend α) (c : FeatCondB Dy Dx Dk α) (p : PdfV Rx Dx α) :
    Arr Rx (Mat Dy Dx α) :=
  let pm := p.toMeasure
  let (pm, v0) := pm.intView be
  let Exx := v0.integrateXXT
  let pk := pm.multiply be c.kFunc true
  let (_, vk) := pk.intView be
  let EkxAll := vk.integrateX
  let Ekx : Arr Rx (Mat Dk Dx α) := tab3 fun r k i => EkxAll (flat r k) i
  -- `concatenate([Exx, Ekx], axis=1)`
  let Efx : Arr Rx (Mat (Dx + Dk) Dx α) := tab fun r => tab fun (a : Fin (Dx + Dk)) =>
    match splitIdx a with
    | Sum.inl i => Exx r i
    | Sum.inr k => Ekx r k
  let Ex := v0.integrateX
  tab fun r =>
    let MEfx := mmul (c.M 0) (Efx r)
    tab2 fun i j => MEfx i j + c.b 0 i * Ex r j

/-- `affine_marginal_transformation` -/
def FeatCondB.affineMarginal (be : Backend α) (c : FeatCondB Dy Dx Dk α) (p : PdfV Rx Dx α) :
    MeasureB Rx Dy α :=
  let (muY, SigY) := c.expectedMoments be p
  mkPdf be false SigY muY none none

/-- `cov_yx = Eyx - mu_y[:, :, None] * mu_x[:, None]` -/
def featCovYX (Eyx : Arr Rx (Mat Dy Dx α)) (muY : Arr Rx (Vec Dy α)) (muX : Arr Rx (Vec Dx α)) :
    Arr Rx (Mat Dy Dx α) :=
  tab3 fun r i j => Eyx r i j - muY r i * muX r j

/-- `affine_joint_transformation`: density over `(x, y)`, `x` first -/
def FeatCondB.affineJoint (be : Backend α) (c : FeatCondB Dy Dx Dk α) (p : PdfV Rx Dx α) :
    MeasureB Rx (Dx + Dy) α :=
  let (muY, SigY) := c.expectedMoments be p
  let Eyx := c.expectedCrossTerms be p
  let cov := featCovYX Eyx muY p.mu
  let muXY := tab fun r => vappend (p.mu r) (muY r)
  let SigXY := tab fun r => block (p.Sigma r) (transpose (cov r)) (cov r) (SigY r)
  mkPdf be false SigXY muXY none none

/-- `affine_conditional_transformation`: `p(x | y)` of the matched joint -/
def FeatCondB.affineConditional (be : Backend α) (c : FeatCondB Dy Dx Dk α) (p : PdfV Rx Dx α) :
    Option (CondB Rx Dx Dy α) :=
  let (muY, SigY) := c.expectedMoments be p
  let (LamY, _) := invertBatch be false SigY
  let Eyx := c.expectedCrossTerms be p
  let cov := featCovYX Eyx muY p.mu
  -- `einsum("abc,abd->acd", cov_yx, Lambda_y)`
  let Mn : Arr Rx (Mat Dx Dy α) := tab fun r => mmul (transpose (cov r)) (LamY r)
  let bn : Arr Rx (Vec Dx α) := tab fun r => vsub (p.mu r) (mulVec (Mn r) (muY r))
  let Sn : Arr Rx (Mat Dx Dx α) := tab fun r =>
    let S := msub (p.Sigma r) (mmul (Mn r) (cov r))
    tab2 fun i j => half * (S i j + S j i)
  mkCond be false Mn (some bn) (some Sn) none none

/-- inherited `conditional_entropy(p_x) = H(joint) − H(p_x)` -/
def FeatCondB.conditionalEntropy (be : Backend α) (c : FeatCondB Dy Dx Dk α) (p : PdfV Rx Dx α) :
    Option (Arr Rx α) :=
  match (c.affineJoint be p).asPdf with
  | some j => some (tab fun r => j.entropy r - p.entropy r)
  | none => none

/-- inherited `mutual_information(p_x) = H(Y) − H(Y|X)` -/
def FeatCondB.mutualInformation (be : Backend α) (c : FeatCondB Dy Dx Dk α) (p : PdfV Rx Dx α) :
    Option (Arr Rx α) :=
  match c.conditionalEntropy be p, (c.affineMarginal be p).asPdf with
  | some ce, some py => some (tab fun r => py.entropy r - ce r)
  | _, _ => none

/-! ## expected log-conditionals -/

/-- the kernel factor lifted to the joint space `(y, x)` as the two classes build it:
RBF — `ConjugateFactor(Lambda_joint, nu_joint, ln_beta)` with the kernel blocks at `[Dy:, Dy:]`;
LSEM — `OneRankFactor(v=[0, v], nu=[0, nu], ln_beta)` (`g` defaults to one). -/
def FeatCondB.jointKFunc (c : FeatCondB Dy Dx Dk α) : Factor Dk (Dy + Dx) α :=
  let padV (u : Arr Dk (Vec Dx α)) : Arr Dk (Vec (Dy + Dx) α) :=
    tab fun k => vappend (zeroV : Vec Dy α) (u k)
  match c.kernel with
  | .rbf _ _ =>
    let kb := c.kFunc.toB
    let Lam : Arr Dk (Mat (Dy + Dx) (Dy + Dx) α) := tab3 fun k i j =>
      match splitIdx i, splitIdx j with
      | Sum.inr i, Sum.inr j => kb.Lambda k i j
      | _, _ => 0
    .general ⟨Lam, padV kb.nu, kb.lnBeta⟩
  | .lsem _ _ =>
    match c.kFunc with
    | .oneRank v _ nu lb => .oneRank (padV v) (tab fun _ => 1) (padV nu) lb
    | f => .general ⟨tab fun _ => zeroM, padV f.toB.nu, f.toB.lnBeta⟩   -- dead: LSEM installs a one-rank factor

/-- `trace(Λ · (Mk E_kkᵀ Mkᵀ))` written as the two einsums of the code:
`E_MkkM = einsum("abc,adc->adb", einsum("abc,acd->abd", Mk, E_kk), Mk)` -/
def FeatCondB.kernelKernel (c : FeatCondB Dy Dx Dk α) (Ekk : Mat Dk Dk α) : α :=
  let Mk := c.Mk
  let inner := mmul Mk Ekk                       -- [Dy, Dk]
  let EMkkM := transpose (mmul inner (transpose Mk))
  trace (mmul (c.Lambda 0) EMkkM)

/-- `E_kk = p_x_kk.integral_light()` reshaped `[Rx, Dk, Dk]`.  RBF's `integrate_log_conditional`
multiplies first without `update_full`; every other call site with it. -/
def FeatCondB.Ekk (be : Backend α) (c : FeatCondB Dy Dx Dk α) (pm : MeasureB Rx Dx α) (firstFull : Bool) :
    Arr Rx (Mat Dk Dk α) :=
  let pk := pm.multiply be c.kFunc firstFull
  let pkk := pk.multiply be c.kFunc true
  let (_, m) := pkk.integralLight be
  tab3 fun r k l => m (flat (flat r k) l)

/-- `integrate_log_conditional(p_yx, p_x)`: `E_q[ln p(y|x)]`, `q` over `(y, x)` (`y` first);
`px` is the optional argument `p_x` (default: the `x`-marginal of `p_yx`). -/
def FeatCondB.integrateLogConditional (be : Backend α) (c : FeatCondB Dy Dx Dk α)
    (q : PdfV Rq (Dy + Dx) α) (px : Option (PdfV Rq Dx α)) : Arr Rq α :=
  let qm := q.toMeasure
  let (qm, v) := qm.intView be
  -- E[(y - Mx - b)' Lambda (y - Mx - b)]
  let Mx := c.Mx
  let A : Mat Dy (Dy + Dx) α := tab2 fun i j =>
    match splitIdx j with
    | Sum.inl j => (eye : Mat Dy Dy α) i j
    | Sum.inr j => -(Mx i j)
  let a : Vec Dy α := vneg (c.b 0)
  let At := mmul (c.Lambda 0) A
  let bt := mulVec (c.Lambda 0) a
  let fA : AffForm Rq Dy (Dy + Dx) α := ⟨tab fun _ => A, tab fun _ => a⟩
  let fAt : AffForm Rq Dy (Dy + Dx) α := ⟨tab fun _ => At, tab fun _ => bt⟩
  let quadratic := v.integrateQuadInner fA fAt
  -- E[(y - Mx - b) Lambda Mk phi(x)]
  let qk := qm.multiply be c.jointKFunc true
  let (_, vk) := qk.intView be
  let fAtk : AffForm (Rq * Dk) Dy (Dy + Dx) α := ⟨tab fun _ => At, tab fun _ => bt⟩
  let EkLinAll := vk.integrateLinear fAtk
  let Mk := c.Mk
  let linKernel : Arr Rq α := tab fun r =>
    vsum fun (i : Fin Dy) => vsum fun (k : Fin Dk) => Mk i k * EkLinAll (flat r k) i
  -- E[phi(x)' Mk' Lambda Mk phi(x)]
  let pxm : MeasureB Rq Dx α := match px with
    | some p => p.toMeasure
    | none => q.getMarginal be (fun (i : Fin Dx) => (⟨Dy + i.1, by omega⟩ : Fin (Dy + Dx)))
  let firstFull := match c.kernel with
    | .rbf _ _ => false
    | .lsem _ _ => true
  let Ekk := c.Ekk be pxm firstFull
  let const := c.lnDetSigma 0 + ofNat Dy * log2pi
  tab fun r =>
    -(half * (quadratic r - two * linKernel r + c.kernelKernel (Ekk r) + const))

/-- the pieces of `integrate_log_conditional_y(p_x)` that do not depend on `y`:
`(linear_term [Rx, Dy], constant_term [Rx])` -/
def FeatCondB.logConditionalYTerms (be : Backend α) (c : FeatCondB Dy Dx Dk α) (p : PdfV Rx Dx α) :
    Arr Rx (Vec Dy α) × Arr Rx α :=
  let pm := p.toMeasure
  let (pm, v0) := pm.intView be
  let A := c.Mx
  let b := c.b 0
  let At := mmul (c.Lambda 0) A
  let bt := mulVec (c.Lambda 0) b
  let Mk := c.Mk
  let fA : AffForm Rx Dy Dx α := ⟨tab fun _ => A, tab fun _ => b⟩
  let fAt : AffForm Rx Dy Dx α := ⟨tab fun _ => At, tab fun _ => bt⟩
  let linearIntegral := v0.integrateLinear fAt
  let pk := pm.multiply be c.kFunc true
  let (pk, vk) := pk.intView be
  let Ek : Arr Rx (Vec Dk α) := tab2 fun r k => vk.mass (flat r k)
  let EMk : Arr Rx (Vec Dy α) := tab fun r => mulVec (c.Lambda 0) (mulVec Mk (Ek r))
  let linearTerm : Arr Rx (Vec Dy α) := tab fun r => vadd (linearIntegral r) (EMk r)
  let quadratic := v0.integrateQuadInner fA fAt
  let fAtk : AffForm (Rx * Dk) Dy Dx α := ⟨tab fun _ => At, tab fun _ => bt⟩
  let EkLinAll := vk.integrateLinear fAtk
  let EMkLin : Arr Rx α := tab fun r =>
    vsum fun (i : Fin Dy) => vsum fun (k : Fin Dk) => Mk i k * EkLinAll (flat r k) i
  let pkk := pk.multiply be c.kFunc true
  let (_, mkk) := pkk.integralLight be
  let Ekk : Arr Rx (Mat Dk Dk α) := tab3 fun r k l => mkk (flat (flat r k) l)
  let constantTerm : Arr Rx α := tab fun r =>
    -(half * (quadratic r + two * EMkLin r + c.kernelKernel (Ekk r) + c.lnDetSigma 0 + ofNat Dy * log2pi))
  (linearTerm, constantTerm)

/-- `log_expectation_y(y)` for component `r` of `p_x` and one observation -/
def FeatCondB.logConditionalYAt (c : FeatCondB Dy Dx Dk α) (terms : Arr Rx (Vec Dy α) × Arr Rx α)
    (r : Fin Rx) (y : Vec Dy α) : α :=
  -(half * dot y (mulVec (c.Lambda 0) y)) + dot y (terms.1 r) + terms.2 r

end
end GT
