import GT.DriverCore
import GT.Model.ApproxFeature
/-!
# Driver extension: operations of `gaussian_toolbox/approximate_conditional.py`
`execApprox dst op` returns `true` when it handled the instruction.

Feature conditionals (`LRBFGaussianConditional`, `LSEMGaussianConditional`) live in registers as
`Val.feat Dy Dx Dk c` (conditional batch `R = 1`, the only one the classes are typed for).

Instructions (all prefixed `feat_`, the un-prefixed names belong to the linear classes):

* `feat_rbf  R Dy Dx Dk M b? mu length_scale Sigma? Lambda? ln_det_Sigma?`
* `feat_lsem R Dy Dx Dk M b? W[Dk,Dx+1] Sigma? Lambda? ln_det_Sigma?`
* `feat_phi c x`, `feat_cond_mu c x`, `feat_condition_on_x c x`, `feat_set_y c y` (always refused)
* `feat_moments_mu c p`, `feat_moments_sigma c p`, `feat_cross c p`
* `feat_joint|feat_marginal|feat_conditional|feat_cond_entropy|feat_mutual_information c p`
* `feat_log_cond c q px|-1`, `feat_log_cond_y c p y`
* `feat_slice c idx…`, `feat_update_sigma c S`, `feat_update_phi c`
-/
namespace GT.Driver
open GT

def getFeat (i : Nat) : M (Σ Dy Dx Dk, FeatCondB Dy Dx Dk F) := do
  match (← getReg i) with
  | .feat Dy Dx Dk c => pure ⟨Dy, Dx, Dk, c⟩
  | _ => refuse "type-error:feat"

/-- points `[N, D]` from an array register -/
def getPoints (i : Nat) (D : Nat) : M (Σ N, Arr N (Vec D F)) := do
  let (shape, x) ← getArr i
  match shape with
  | [N, D'] =>
    if D' ≠ D then refuse "shape-error"
    pure ⟨N, v2 x⟩
  | _ => refuse "shape-error"

def execApprox (dst : Nat) (op : String) : M Bool := do
  match op with
  | "feat_rbf" | "feat_lsem" => do
    let R ← lp nat; let Dy ← lp nat; let Dx ← lp nat; let Dk ← lp nat
    if R ≠ 1 then refuse "unsupported-batch"
    let Mm ← lp (floats (Dy * (Dx + Dk))); let b ← lp (optFloatsN Dy)
    let kernel : FeatKernel Dk Dx F ←
      if op == "feat_rbf" then do
        let mu ← lp (floats (Dk * Dx)); let ls ← lp (floats (Dk * Dx))
        pure (FeatKernel.rbf (v2 mu) (v2 ls))
      else do
        let W ← lp (floats (Dk * (Dx + 1)))
        let Wf : Mat Dk (Dx + 1) F := v2 W
        -- `self.w0 = self.W[:, 0]; self.W = self.W[:, 1:]`
        pure (FeatKernel.lsem (tab2 fun k i => Wf k ⟨i.1 + 1, by omega⟩) (tab fun k => Wf k ⟨0, by omega⟩))
    let S ← lp (optFloatsN (Dy * Dy)); let L ← lp (optFloatsN (Dy * Dy)); let ld ← lp (optFloatsN 1)
    match mkFeatCond be (v3 Mm) (b.map v2) kernel (S.map v3) (L.map v3) (ld.map v1) with
    | some c => setReg dst (.feat Dy Dx Dk c)
    | none => refuse "refuse-documented"
    return true
  | "feat_phi" => do
    let ⟨_, Dx, Dk, c⟩ ← getFeat (← reg)
    let ⟨N, x⟩ ← getPoints (← reg) Dx
    setReg dst (.arr [N, Dx + Dk] (d2 (c.evaluatePhi x)))
    return true
  | "feat_cond_mu" => do
    let ⟨Dy, Dx, _, c⟩ ← getFeat (← reg)
    let ⟨N, x⟩ ← getPoints (← reg) Dx
    setReg dst (.arr [N, Dy] (d2 (c.condMu x)))
    return true
  | "feat_condition_on_x" => do
    let ⟨Dy, Dx, _, c⟩ ← getFeat (← reg)
    let ⟨N, x⟩ ← getPoints (← reg) Dx
    setReg dst (.meas N Dy (c.conditionOnX be x))
    return true
  | "feat_set_y" => do
    -- `raise NotImplementedError("This class doesn't have the function set_y.")`
    let _ ← getFeat (← reg)
    refuse "refuse-documented"
  | "feat_moments_mu" | "feat_moments_sigma" | "feat_cross" | "feat_joint" | "feat_marginal"
  | "feat_conditional" | "feat_cond_entropy" | "feat_mutual_information" => do
    let ⟨Dy, Dx, _, c⟩ ← getFeat (← reg)
    let ⟨Rx, Dp, p⟩ ← getPdf (← reg)
    let arrOf {n : Nat} (o : Option (Arr n F)) : M Val := match o with
      | some f => pure (.arr [n] (d1 f))
      | none => refuse "other"
    if h : Dp = Dx then
      let p : PdfV Rx Dx F := h ▸ p
      match op with
      | "feat_moments_mu" => setReg dst (.arr [Rx, Dy] (d2 (c.expectedMoments be p).1))
      | "feat_moments_sigma" => setReg dst (.arr [Rx, Dy, Dy] (d3 (c.expectedMoments be p).2))
      | "feat_cross" => setReg dst (.arr [Rx, Dy, Dx] (d3 (c.expectedCrossTerms be p)))
      | "feat_joint" => setReg dst (.meas _ _ (c.affineJoint be p))
      | "feat_marginal" => setReg dst (.meas _ _ (c.affineMarginal be p))
      | "feat_conditional" =>
        match c.affineConditional be p with
        | some cc => setReg dst (.cond _ _ _ cc)
        | none => refuse "other"
      | "feat_cond_entropy" => setReg dst (← arrOf (c.conditionalEntropy be p))
      | _ => setReg dst (← arrOf (c.mutualInformation be p))
    else refuse "shape-error"
    return true
  | "feat_log_cond" => do
    let ⟨Dy, Dx, _, c⟩ ← getFeat (← reg)
    let ⟨Rq, Dq, q⟩ ← getPdf (← reg)
    let pxr ← lp int
    if h : Dq = Dy + Dx then
      let q : PdfV Rq (Dy + Dx) F := h ▸ q
      if pxr < 0 then
        setReg dst (.arr [Rq] (d1 (c.integrateLogConditional be q none)))
      else
        let ⟨Rp, Dp, px⟩ ← getPdf pxr.toNat
        if h2 : Dp = Dx then
          if h3 : Rp = Rq then
            let px : PdfV Rq Dx F := h3 ▸ h2 ▸ px
            setReg dst (.arr [Rq] (d1 (c.integrateLogConditional be q (some px))))
          else refuse "shape-error"
        else refuse "shape-error"
    else refuse "shape-error"
    return true
  | "feat_log_cond_y" => do
    let ⟨Dy, Dx, _, c⟩ ← getFeat (← reg)
    let ⟨Rp, Dp, p⟩ ← getPdf (← reg)
    let ⟨N, ys⟩ ← getPoints (← reg) Dy
    if h : Dp = Dx then
      let p : PdfV Rp Dx F := h ▸ p
      let terms := c.logConditionalYTerms be p
      if h2 : N = Rp then
        setReg dst (.arr [N] (d1 (tab fun (n : Fin N) => c.logConditionalYAt terms (h2 ▸ n) (ys n))))
      else if h3 : Rp = 1 then
        setReg dst (.arr [N] (d1 (tab fun (n : Fin N) => c.logConditionalYAt terms (h3 ▸ (0 : Fin 1)) (ys n))))
      else if h4 : N = 1 then
        setReg dst (.arr [Rp] (d1 (tab fun (r : Fin Rp) => c.logConditionalYAt terms r (ys (h4 ▸ (0 : Fin 1))))))
      else refuse "shape-error"
    else refuse "shape-error"
    return true
  | "feat_slice" => do
    let ⟨Dy, Dx, Dk, c⟩ ← getFeat (← reg)
    let idx ← lp ints
    let N := idx.size
    let idxf : Fin N → Int := fun n => idx.getD n.1 0
    setReg dst (.cond N Dy (Dx + Dk) (c.slice idxf))
    return true
  | "feat_update_sigma" => do
    let src ← reg
    let ⟨Dy, Dx, Dk, c⟩ ← getFeat src
    let S ← lp (floats (Dy * Dy))
    setReg src (.feat Dy Dx Dk (c.updateSigma be (v3 S))); setReg dst (.arr [0] #[])
    return true
  | "feat_update_phi" => do
    let src ← reg
    let ⟨Dy, Dx, Dk, c⟩ ← getFeat src
    setReg src (.feat Dy Dx Dk c.updatePhi); setReg dst (.arr [0] #[])
    return true
  | _ => pure false

end GT.Driver
