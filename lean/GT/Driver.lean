import GT.DriverCore
import GT.DriverApprox
import GT.DriverTrunc
import GT.DriverHetero
/-!
# Line-protocol driver: instruction dispatch and main loop (see `GT/DriverCore.lean`)
-/
namespace GT.Driver
open GT

def exec (dst : Nat) (op : String) : M Unit := do
  match op with
  | "arr" => do
    let nd ← lp nat
    let mut shape : List Nat := []
    for _ in [0:nd] do shape := shape ++ [← lp nat]
    let data ← lp (floats (shape.foldl (· * ·) 1))
    setReg dst (.arr shape data)
  | "factor" => do
    let kind ← lp tok
    let R ← lp nat; let D ← lp nat
    match kind with
    | "general" => do
      let L ← lp (floats (R * D * D))
      let nu ← lp (optFloatsN (R * D)); let lb ← lp (optFloatsN R)
      setReg dst (.factor R D (.general ⟨v3 L, (nu.map v2).getD (tab fun _ => zeroV), (lb.map v1).getD zeroV⟩))
    | "onerank" => do
      let v ← lp (floats (R * D)); let g ← lp (optFloatsN R)
      let nu ← lp (optFloatsN (R * D)); let lb ← lp (optFloatsN R)
      setReg dst (.factor R D (.oneRank (v2 v) ((g.map v1).getD (tab fun _ => 1)) ((nu.map v2).getD (tab fun _ => zeroV))
        ((lb.map v1).getD zeroV)))
    | "linear" => do
      let nu ← lp (floats (R * D)); let lb ← lp (optFloatsN R)
      setReg dst (.factor R D (.linear (v2 nu) ((lb.map v1).getD zeroV)))
    | "constant" => do
      let lb ← lp (floats R)
      setReg dst (.factor R D (.constant (v1 lb)))
    | _ => refuse "bad-op"
  | "measure" => do
    let diag ← lp bool
    let R ← lp nat; let D ← lp nat
    let L ← lp (floats (R * D * D))
    let nu ← lp (optFloatsN (R * D)); let lb ← lp (optFloatsN R)
    setReg dst (.meas R D (MeasureB.mk0 (if diag then .diagMeasure else .measure) (v3 L)
      ((nu.map v2).getD (tab fun _ => zeroV)) ((lb.map v1).getD zeroV)))
  | "pdf" => do
    let diag ← lp bool
    let R ← lp nat; let D ← lp nat
    let S ← lp (floats (R * D * D)); let mu ← lp (floats (R * D))
    let L ← lp (optFloatsN (R * D * D)); let ld ← lp (optFloatsN R)
    setReg dst (.meas R D (mkPdf be diag (v3 S) (v2 mu) (L.map v3) (ld.map v1)))
  | "cond" => do
    let diag ← lp bool
    let R ← lp nat; let Dy ← lp nat; let Dx ← lp nat
    let Mm ← lp (floats (R * Dy * Dx)); let b ← lp (optFloatsN (R * Dy))
    let S ← lp (optFloatsN (R * Dy * Dy)); let L ← lp (optFloatsN (R * Dy * Dy)); let ld ← lp (optFloatsN R)
    match mkCond be diag (v3 Mm) (b.map v2) (S.map v3) (L.map v3) (ld.map v1) with
    | some c => setReg dst (.cond R Dy Dx c)
    | none => refuse "refuse-documented"
  | "nncond" => do
    let Dy ← lp nat; let Dx ← lp nat
    let S ← lp (floats (Dy * Dy))
    setReg dst (.cond 1 Dy Dx (mkNNCond be (v3 S)))
  | "nn_set_control" => do
    match (← getReg (← reg)) with
    | .cond R Dy Dx nn =>
      if h : R = 1 then
        let Ru ← lp nat
        let out ← lp (floats (Ru * (Dy * Dx + Dy)))
        setReg dst (.cond Ru Dy Dx (nnSetControl (h ▸ nn) (v2 out)))
      else refuse "refuse-documented"
    | _ => refuse "type-error"
  | "condid" => do
    let diag ← lp bool
    let R ← lp nat; let D ← lp nat
    let S ← lp (optFloatsN (R * D * D)); let L ← lp (optFloatsN (R * D * D)); let ld ← lp (optFloatsN R)
    match mkCondId be diag (S.map v3) (L.map v3) (ld.map v1) with
    | some c => setReg dst (.condId R D c)
    | none => refuse "refuse-documented"
  | "evalln" => do
    -- evaluate_ln(x) (element_wise = False): result [R, N]
    let ⟨R, D, f⟩ ← getFactor (← reg)
    let (shape, x) ← getArr (← reg)
    match shape with
    | [N, D'] =>
      if D' ≠ D then refuse "shape-error"
      let xs : Arr N (Vec D F) := v2 x
      setReg dst (.arr [R, N] (d2 (tab2 fun (r : Fin R) (n : Fin N) => f.evalLn r (xs n))))
    | _ => refuse "shape-error"
  | "evaluate" => do
    -- evaluate(x) = exp(evaluate_ln(x)) (element_wise = False): result [R, N]
    let ⟨R, D, f⟩ ← getFactor (← reg)
    let (shape, x) ← getArr (← reg)
    match shape with
    | [N, D'] =>
      if D' ≠ D then refuse "shape-error"
      let xs : Arr N (Vec D F) := v2 x
      setReg dst (.arr [R, N] (d2 (tab2 fun (r : Fin R) (n : Fin N) => f.toB.eval r (xs n))))
    | _ => refuse "shape-error"
  | "evalln_ew" => do
    let ⟨R, D, f⟩ ← getFactor (← reg)
    let (shape, x) ← getArr (← reg)
    match shape with
    | [N, D'] =>
      if D' ≠ D then refuse "shape-error"
      if N ≠ R then refuse "refuse-documented"
      let xs : Arr R (Vec D F) := v2 x
      setReg dst (.arr [R] (d1 (tab fun (r : Fin R) => f.evalLn r (xs r))))
    | _ => refuse "shape-error"
  | "multiply" => do
    let ⟨R1, D, u⟩ ← getMeas (← reg)
    let ⟨R2, D2, f⟩ ← getFactor (← reg)
    let uf ← lp bool
    if h : D2 = D then
      setReg dst (.meas (R1 * R2) D (u.multiply be (h ▸ f) uf))
    else refuse "shape-error"
  | "hadamard" => do
    let ⟨R1, D, u⟩ ← getMeas (← reg)
    let ⟨R2, D2, f⟩ ← getFactor (← reg)
    let uf ← lp bool
    if h : D2 = D then
      let f : Factor R2 D F := h ▸ f
      if h2 : R2 = R1 then
        setReg dst (.meas R1 D (u.hadamard be (h2 ▸ f) uf))
      else if h3 : R2 = 1 then
        setReg dst (.meas R1 D (u.hadamardBF be (h3 ▸ f) uf))
      else if h4 : R1 = 1 then
        setReg dst (.meas R2 D ((h4 ▸ u : MeasureB 1 D F).hadamardBU be f uf))
      else refuse "shape-error"
    else refuse "shape-error"
  | "product" => do
    match (← getReg (← reg)) with
    | .factor _ D f => setReg dst (.factor 1 D f.product)
    | .meas _ D m => setReg dst (.meas 1 D (m.product be))
    | _ => refuse "type-error"
  | "slice" => do
    let src ← reg
    let idx ← lp ints
    let N := idx.size
    let idxf : Fin N → Int := fun n => idx.getD n.1 0
    match (← getReg src) with
    | .factor _ D f => setReg dst (.factor N D (f.slice idxf))
    | .meas _ D m =>
      match m.slice be idxf with
      | some m' => setReg dst (.meas N D m')
      | none => refuse "other"
    | .cond _ Dy Dx c => setReg dst (.cond N Dy Dx (c.slice idxf))
    | .condId _ D c => setReg dst (.condId N D (c.slice idxf))
    | _ => refuse "type-error"
  | "query" => do
    -- read-only queries that fill caches; result is an array, operand register is updated
    let what ← lp tok
    let src ← reg
    let ⟨R, D, m⟩ ← getMeas src
    match what with
    | "log_integral" => let (m, r) := m.logIntegral be; setReg src (.meas R D m); setReg dst (.arr [R] (d1 r))
    | "log_integral_light" => let (m, r) := m.logIntegralLight be; setReg src (.meas R D m); setReg dst (.arr [R] (d1 r))
    | "integral" => let (m, r) := m.integral be; setReg src (.meas R D m); setReg dst (.arr [R] (d1 r))
    | "integral_light" => let (m, r) := m.integralLight be; setReg src (.meas R D m); setReg dst (.arr [R] (d1 r))
    | "compute_lnZ" => let (m, r) := m.computeLnZ be; setReg src (.meas R D m); setReg dst (.arr [R] (d1 r))
    | "compute_mu" => let (m, r) := m.computeMu be; setReg src (.meas R D m); setReg dst (.arr [R, D] (d2 r))
    | "prepare" => let m := m.prepare be; setReg src (.meas R D m); setReg dst (.arr [0] #[])
    | "normalize" => let m := m.normalize be; setReg src (.meas R D m); setReg dst (.arr [0] #[])
    | "get_density" => let (m, p) := m.getDensity be; setReg src (.meas R D m); setReg dst (.meas R D p)
    | _ => refuse "bad-op"
  | "integrate" => do
    let key ← lp tok
    let src ← reg
    let ⟨R, D, m⟩ ← getMeas src
    let (m, v) := m.intView be
    setReg src (.meas R D m)
    match key with
    | "1" => setReg dst (.arr [R] (d1 v.mass))
    | "x" => setReg dst (.arr [R, D] (d2 v.integrateX))
    | "Ax+a" => do
      let K ← lp nat
      let f ← form (R := R) K D
      setReg dst (.arr [R, K] (d2 (v.integrateLinear f)))
    | "xx'" => setReg dst (.arr [R, D, D] (d3 v.integrateXXT))
    | "quad_inner" => do
      let K ← lp nat
      let f ← form (R := R) K D; let g ← form (R := R) K D
      setReg dst (.arr [R] (d1 (v.integrateQuadInner f g)))
    | "quad_outer" => do
      let K ← lp nat; let L ← lp nat
      let f ← form (R := R) K D; let g ← form (R := R) L D
      setReg dst (.arr [R, K, L] (d3 (v.integrateQuadOuter f g)))
    | "cubic_inner" => do
      let K ← lp nat; let L ← lp nat
      let f ← form (R := R) K D; let g ← form (R := R) L D; let h ← form (R := R) L D
      setReg dst (.arr [R, K] (d2 (v.integrateCubicInner f g h)))
    | "cubic_outer" => do
      let K ← lp nat; let L ← lp nat
      let f ← form (R := R) K D; let g ← form (R := R) K D; let h ← form (R := R) L D
      setReg dst (.arr [R, L] (d2 (v.integrateCubicOuterG f g h)))
    | "xAxx" => do
      -- "x(A'x + a)x'": A given as [#R,1,D], a as [#R,1]; resolved by the harness to per-component
      let A ← lp (floats (R * D)); let a ← lp (floats R)
      setReg dst (.arr [R, D, D] (d3 (v.integrateCubicOuter (v2 A) (v1 a))))
    | "xbxx" => do
      let b ← lp (floats (R * D))
      setReg dst (.arr [R, D, D] (d3 (v.integrateXbxx (v2 b))))
    | "quartic_inner" => do
      let K ← lp nat; let L ← lp nat
      let f ← form (R := R) K D; let g ← form (R := R) K D
      let h ← form (R := R) L D; let e ← form (R := R) L D
      setReg dst (.arr [R] (d1 (v.integrateQuarticInner f g h e)))
    | "quartic_outer" => do
      let K ← lp nat; let L ← lp nat; let Mm ← lp nat
      let f ← form (R := R) K D; let g ← form (R := R) L D
      let h ← form (R := R) L D; let e ← form (R := R) Mm D
      setReg dst (.arr [R, K, Mm] (d3 (v.integrateQuarticOuter f g h e)))
    | "log_u" => do
      let ⟨Rf, Df, f⟩ ← getFactor (← reg)
      if h : Df = D then
        let fb : FactorB Rf D F := (h ▸ f).toB
        if h1 : Rf = R then
          setReg dst (.arr [R] (d1 (integrateLogFactor v (fun r => h1 ▸ r) fb)))
        else if h2 : Rf = 1 then
          setReg dst (.arr [R] (d1 (integrateLogFactor v (fun _ => h2 ▸ (0 : Fin 1)) fb)))
        else refuse "refuse-documented"
      else refuse "shape-error"
    | _ => refuse "bad-op"
  | "get_marginal" => do
    let ⟨R, D, p⟩ ← getPdf (← reg)
    let idx ← lp ints
    let dims ← idxToFin (N := idx.size) D idx
    setReg dst (.meas R idx.size (p.getMarginal be dims))
  | "entropy" => do
    let ⟨R, _, p⟩ ← getPdf (← reg)
    setReg dst (.arr [R] (d1 p.entropy))
  | "kl" => do
    let ⟨R1, D, p⟩ ← getPdf (← reg)
    let ⟨R2, D2, q⟩ ← getPdf (← reg)
    if h : D2 = D then
      let q : PdfV R2 D F := h ▸ q
      if h2 : R2 = R1 then
        setReg dst (.arr [R1] (d1 (klSel id (fun r => h2 ▸ r) p q)))
      else if h3 : R2 = 1 then
        setReg dst (.arr [R1] (d1 (klSel id (fun _ => h3 ▸ (0 : Fin 1)) p q)))
      else if h4 : R1 = 1 then
        setReg dst (.arr [R2] (d1 (klSel (fun _ => h4 ▸ (0 : Fin 1)) id p q)))
      else refuse "refuse-documented"
    else refuse "refuse-documented"
  | "linear_sum" => do
    let ⟨R, D, p⟩ ← getPdf (← reg)
    let K ← lp nat
    let W ← lp (floats (R * K * D)); let b ← lp (optFloatsN (R * K))
    if K > D then refuse "refuse-documented"
    setReg dst (.meas R K (p.linearSum be (v3 W) (b.map v2)))
  | "sample_from" => do
    let ⟨R, D, p⟩ ← getPdf (← reg)
    let (shape, z) ← getArr (← reg)
    match shape with
    | [N, R', D'] =>
      if R' ≠ R ∨ D' ≠ D then refuse "shape-error"
      let zf : Arr N (Arr R (Vec D F)) := v3 z
      let x := p.sampleFrom be zf
      setReg dst (.arr [N, R, D] (d3 x))
    | _ => refuse "shape-error"
  | "update" => do
    let src ← reg
    let ⟨R, D, p⟩ ← getPdf src
    let idx ← lp ints
    let ⟨N, D2, d⟩ ← getPdf (← reg)
    if h : D2 = D then
      if idx.size ≠ N then refuse "shape-error"
      let idxf ← idxToFin (N := N) R idx
      let p' := p.update idxf (h ▸ d)
      setReg src (.meas R D p'.toMeasure)
      setReg dst (.arr [0] #[])
    else refuse "shape-error"
  | "condition_on" => do
    let ⟨R, D, p⟩ ← getPdf (← reg)
    let idx ← lp ints
    let dims ← idxToFin (N := idx.size) D idx
    setReg dst (.cond R _ idx.size (p.conditionOn be dims))
  | "condition_on_explicit" => do
    let ⟨R, D, p⟩ ← getPdf (← reg)
    let iy ← lp ints; let ix ← lp ints
    let dy ← idxToFin (N := iy.size) D iy
    let dx ← idxToFin (N := ix.size) D ix
    setReg dst (.cond R ix.size iy.size (p.conditionOnExplicit be dy dx))
  | "condition_on_x" => do
    let c ← getReg (← reg)
    let (shape, x) ← getArr (← reg)
    match c, shape with
    | .cond R Dy Dx c, [N, D'] =>
      if D' ≠ Dx then refuse "shape-error"
      setReg dst (.meas (R * N) Dy (c.conditionOnX be (v2 x)))
    | .condId R D c, [N, D'] =>
      if D' ≠ D then refuse "shape-error"
      setReg dst (.meas (R * N) D (c.conditionOnX be (v2 x)))
    | _, _ => refuse "type-error"
  | "cond_mu" => do
    let c ← getReg (← reg)
    let (shape, x) ← getArr (← reg)
    match c, shape with
    | .cond R Dy Dx c, [N, D'] =>
      if D' ≠ Dx then refuse "shape-error"
      let xs : Arr N (Vec Dx F) := v2 x
      setReg dst (.arr [R, N, Dy] (d3 (tab2 fun (r : Fin R) (n : Fin N) => c.condMu r (xs n))))
    | _, _ => refuse "type-error"
  | "set_y" => do
    let c ← getReg (← reg)
    let (shape, y) ← getArr (← reg)
    match c, shape with
    | .cond R Dy Dx c, [N, D'] =>
      if D' ≠ Dy then refuse "shape-error"
      if h : R = 1 then
        setReg dst (.factor N Dx (c.setYSel (fun _ => h ▸ (0 : Fin 1)) (v2 y)))
      else if h2 : N = R then
        setReg dst (.factor N Dx (c.setYSel (fun n => h2 ▸ n) (v2 y)))
      else refuse "refuse-documented"
    | .condId R D c, [N, D'] =>
      if D' ≠ D then refuse "shape-error"
      if h : R = 1 then
        setReg dst (.factor N D (c.setYSel (fun _ => h ▸ (0 : Fin 1)) (v2 y)))
      else if h2 : N = R then
        setReg dst (.factor N D (c.setYSel (fun n => h2 ▸ n) (v2 y)))
      else refuse "refuse-documented"
    | _, _ => refuse "type-error"
  | "joint" | "marginal" | "conditional" | "cond_entropy" | "mutual_information" => do
    let c ← getReg (← reg)
    let ⟨Rx, Dp, p⟩ ← getPdf (← reg)
    let arrOf {n : Nat} (o : Option (Arr n F)) : M Val := match o with
      | some f => pure (.arr [n] (d1 f))
      | none => refuse "other"
    match c with
    | .cond Rc Dy Dx c =>
      if h : Dp = Dx then
        if Rc ≠ 1 ∧ Rx ≠ 1 then refuse "refuse-documented"
        let p : PdfV Rx Dx F := h ▸ p
        match op with
        | "joint" => setReg dst (.meas _ _ (c.affineJoint be p))
        | "marginal" => setReg dst (.meas _ _ (c.affineMarginal be p))
        | "conditional" => setReg dst (.cond _ _ _ (c.affineConditional be p))
        | "cond_entropy" => setReg dst (← arrOf (c.conditionalEntropy be p))
        | _ => setReg dst (← arrOf (c.mutualInformation be p))
      else refuse "shape-error"
    | .condId Rc D c =>
      if h : Dp = D then
        if Rc ≠ 1 ∧ Rx ≠ 1 then refuse "refuse-documented"
        let p : PdfV Rx D F := h ▸ p
        match op with
        | "joint" => setReg dst (.meas _ _ (c.affineJoint be p))
        | "marginal" => setReg dst (.meas _ _ (c.affineMarginal be p))
        | "conditional" => setReg dst (.cond _ _ _ (c.affineConditional be p))
        | "cond_entropy" => setReg dst (← arrOf (c.conditionalEntropy be p))
        | _ => setReg dst (← arrOf (c.mutualInformation be p))
      else refuse "shape-error"
    | _ => refuse "type-error"
  | "update_sigma" => do
    let src ← reg
    let c ← getReg src
    match c with
    | .cond R Dy Dx c =>
      let S ← lp (floats (R * Dy * Dy))
      setReg src (.cond R Dy Dx (c.updateSigma be (v3 S))); setReg dst (.arr [0] #[])
    | .condId R D c =>
      let S ← lp (floats (R * D * D))
      setReg src (.condId R D (c.updateSigma be (v3 S))); setReg dst (.arr [0] #[])
    | _ => refuse "type-error"
  | "log_cond" => do
    -- integrate_log_conditional(p_yx)
    let c ← getReg (← reg)
    let src ← reg
    let ⟨Rp, Dp, m⟩ ← getMeas src
    let (m, v) := m.intView be
    setReg src (.meas Rp Dp m)
    match c with
    | .cond Rc Dy Dx c =>
      if h : Dp = Dy + Dx then
        let v : IntV Rp (Dy + Dx) F := h ▸ v
        if h1 : Rc = 1 then
          setReg dst (.arr [Rp] (d1 (c.integrateLogConditional v (fun _ => h1 ▸ (0 : Fin 1)))))
        else if h2 : Rc = Rp then
          setReg dst (.arr [Rp] (d1 (c.integrateLogConditional v (fun r => h2 ▸ r))))
        else refuse "refuse-documented"
      else refuse "shape-error"
    | .condId Rc D c =>
      if h : Dp = D + D then
        let v : IntV Rp (D + D) F := h ▸ v
        if h1 : Rc = 1 then
          setReg dst (.arr [Rp] (d1 (c.toCond.integrateLogConditional v (fun _ => h1 ▸ (0 : Fin 1)))))
        else refuse "refuse-documented"
      else refuse "shape-error"
    | _ => refuse "type-error"
  | "log_cond_y" => do
    -- integrate_log_conditional_y(p_x, y): [N] values (y paired with components of p_x by broadcasting)
    let c ← getReg (← reg)
    let src ← reg
    let ⟨Rp, Dp, m⟩ ← getMeas src
    let (shape, y) ← getArr (← reg)
    let (m, v) := m.intView be
    setReg src (.meas Rp Dp m)
    let go {Dy Dx : Nat} (c : CondB 1 Dy Dx F) (hD : Dp = Dx) : M Unit := do
      let v : IntV Rp Dx F := hD ▸ v
      match shape with
      | [N, Dy'] =>
        if Dy' ≠ Dy then refuse "shape-error"
        let ys : Arr N (Vec Dy F) := v2 y
        if h2 : N = Rp then
          setReg dst (.arr [N] (d1 (tab fun n => c.integrateLogConditionalY v (h2 ▸ n) (ys n))))
        else if h3 : Rp = 1 then
          setReg dst (.arr [N] (d1 (tab fun n => c.integrateLogConditionalY v (h3 ▸ (0 : Fin 1)) (ys n))))
        else if h4 : N = 1 then
          setReg dst (.arr [Rp] (d1 (tab fun r => c.integrateLogConditionalY v r (ys (h4 ▸ (0 : Fin 1))))))
        else refuse "shape-error"
      | _ => refuse "shape-error"
    match c with
    | .cond Rc _ Dx c =>
      if h1 : Rc = 1 then
        if hD : Dp = Dx then go (h1 ▸ c) hD else refuse "shape-error"
      else refuse "refuse-documented"
    | .condId Rc D c =>
      if h1 : Rc = 1 then
        if hD : Dp = D then go (h1 ▸ c.toCond) hD else refuse "shape-error"
      else refuse "refuse-documented"
    | _ => refuse "type-error"
  | "copy" => do
    setReg dst (← getReg (← reg))
  | _ => do
    if (← execApprox dst op) then return ()
    if (← execTrunc dst op) then return ()
    if (← execHetero dst op) then return ()
    refuse "bad-op"

def runLine (st : St) (line : String) : St × String :=
  let toks := (line.splitOn " ").filter (· ≠ "")
  match toks with
  | [] => (st, "")
  | ["dumpall"] =>
    let s := (List.range st.regs.size).foldl (fun acc i => acc ++ s!"reg {i} " ++ dumpVal (st.get i) ++ "\n") ""
    (st, s ++ "enddump")
  | ["reset"] => ({}, "reset")
  | dstS :: op :: rest =>
    match dstS.toNat? with
    | none => (st, "bad-line")
    | some dst =>
      match ((exec dst op).run.run st).run rest with
      | .error e => (st, s!"refuse bad-parse:{e}")
      | .ok ((.error k, _), _) => (st, s!"refuse {k}")
      | .ok ((.ok (), st'), _) => (st', "ok " ++ dumpVal (st'.get dst))
  | _ => (st, "bad-line")

partial def loop (h : IO.FS.Stream) (out : IO.FS.Stream) (st : St) (n : Nat) : IO Unit := do
  let line ← h.getLine
  if line.isEmpty then return ()
  let line := (line.dropEndWhile (fun c => c == '\n' || c == '\r')).toString
  let (st', o) := runLine st line
  if o ≠ "" then
    out.putStrLn s!"{n} {o}"
  loop h out st' (n + 1)

end GT.Driver

def main : IO Unit := do
  let stdin ← IO.getStdin
  let stdout ← IO.getStdout
  GT.Driver.loop stdin stdout {} 0
  stdout.flush
