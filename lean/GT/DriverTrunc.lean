import GT.DriverCore
/-!
# Driver extension: operations of `gaussian_toolbox/experimental/truncated_measure.py`
`execTrunc dst op` returns `true` when it handled the instruction.

Instructions (`t` = register holding a truncated object, limits: `0` = None, `1 h` = scalar,
`2 h₁ … h_R` = `(R,1)` array; `±inf` bit patterns denote infinite limits):

* `trunc <pdf:0|1> <src> <lower> <upper>`  constructor; the source register receives the caches the
  constructor fills in the wrapped measure
* `trunc_call <t> <x> <element_wise:0|1>`
* `trunc_integrate <1|x|x**2|x**k> <t> [k]`
* `trunc_query <what> <t> [order]` with `what` ∈ `expectation_integral`, `expectation_x`,
  `variance` (`_get_variance`), `moment`, `moment_all` (`_get_moment`), `get_density`,
  `get_mean`, `get_variance`, `get_std` (the last three exist on the PDF class only)
* `misc <normal_pdf|normal_cdf|norm_cdf|norm_logcdf> <x>` / `misc binom <k>`: `experimental/misc.py`
  (and the two `jax.scipy.stats.norm` primitives behind `Transc.normCdf` / `normLogCdf`)
-/
namespace GT.Driver
open GT

def limOfFloat (x : F) : Lim F :=
  if x.isInf then (if x > 0 then .posInf else .negInf) else .fin x

def limArg (R : Nat) : M (Option (LimArg R F)) := do
  let mode ← lp nat
  match mode with
  | 0 => pure none
  | 1 => do
    let a ← lp (floats 1)
    pure (some (.scalar (limOfFloat (a.getD 0 0))))
  | _ => do
    let a ← lp (floats R)
    pure (some (.perComp (tab fun r => limOfFloat (a.getD r.1 0))))

/-- driver limitation, not a model one: `binom` goes through the unary `ofNat (choose k i)`, whose recursion
depth is the binomial coefficient itself -/
def maxOrder : Nat := 16

def getTrunc (i : Nat) : M (Σ R, TruncB R F) := do
  match (← getReg i) with
  | .trunc R t => pure ⟨R, t⟩
  | _ => refuse "type-error:trunc"

def execTrunc (dst : Nat) (op : String) : M Bool := do
  match op with
  | "trunc" => do
    let isPdf ← lp bool
    let src ← reg
    let ⟨R, D, m⟩ ← getMeas src
    let lower ← limArg R
    let upper ← limArg R
    -- `_check_limits` runs first: ValueError when both limits are None
    if lower.isNone ∧ upper.isNone then refuse "shape-error"
    -- `assert self.measure.D == 1`
    if h : D = 1 then
      let m1 : MeasureB R 1 F := h ▸ m
      let res := if isPdf then mkTruncPdf be m1 lower upper else mkTruncMeasure be m1 lower upper
      match res with
      | some (m', t) =>
        setReg src (.meas R 1 m')
        setReg dst (.trunc R t)
        pure true
      | none => refuse "shape-error"
    else refuse "refuse-documented"
  | "trunc_call" => do
    let ⟨R, t⟩ ← getTrunc (← reg)
    let (shape, x) ← getArr (← reg)
    let ew ← lp bool
    match shape with
    | [N, D'] =>
      if ew then
        -- the `R != x.shape[0]` test comes before anything touches the coordinate axis
        if h : N = R then
          if D' ≠ 1 then refuse "shape-error"
          let xs : Arr R (Vec 1 F) := h ▸ (v2 x : Arr N (Vec 1 F))
          setReg dst (.arr [R] (d1 (t.callEw xs)))
        else refuse "refuse-documented"
      else
        if D' ≠ 1 then refuse "shape-error"
        let xs : Arr N (Vec 1 F) := v2 x
        setReg dst (.arr [R, N] (d2 (t.callAll xs)))
      pure true
    | _ => refuse "shape-error"
  | "trunc_integrate" => do
    let key ← lp tok
    let ⟨R, t⟩ ← getTrunc (← reg)
    match key with
    | "1" => setReg dst (.arr [R] (d1 t.integral))
    | "x" => setReg dst (.arr [R, 1] (d2 t.integrateX))
    | "x**2" => setReg dst (.arr [R, 1] (d2 t.integrateXPow2))
    | "x**k" => do
      let k ← lp nat
      if k > maxOrder then refuse "bad-op:order-too-large"
      setReg dst (.arr [R, 1] (d2 (t.integrateXPowK k)))
    | _ => refuse "bad-op"
    pure true
  | "trunc_query" => do
    let what ← lp tok
    let ⟨R, t⟩ ← getTrunc (← reg)
    match what with
    | "expectation_integral" => setReg dst (.arr [R] (d1 t.expectationIntegral))
    | "expectation_x" => setReg dst (.arr [R, 1] (d2 t.expectationX))
    | "variance" => setReg dst (.arr [R, 1] (d2 t.getVariance))
    | "moment" => do
      let k ← lp nat
      if k > maxOrder then refuse "bad-op:order-too-large"
      setReg dst (.arr [R] (d1 (t.getMoment k)))
    | "moment_all" => do
      let k ← lp nat
      if k > maxOrder then refuse "bad-op:order-too-large"
      setReg dst (.arr [TruncB.lsRows k, R] (d2 (t.getMomentAll k)))
    | "get_density" =>
      match t.getDensity be with
      | some p => setReg dst (.trunc R p)
      | none => refuse "other"
    | "get_mean" =>
      -- AttributeError on the measure class
      if !t.isPdf then refuse "other"
      setReg dst (.arr [R, 1] (d2 t.expectationX))
    | "get_variance" =>
      if !t.isPdf then refuse "other"
      setReg dst (.arr [R, 1] (d2 t.getVariance))
    | "get_std" =>
      if !t.isPdf then refuse "other"
      setReg dst (.arr [R, 1] (d2 t.getStd))
    | _ => refuse "bad-op"
    pure true
  | "misc" => do
    -- `experimental/misc.py` functions applied entry-wise to an array register
    let fn ← lp tok
    match fn with
    | "binom" => do
      -- `binom(k, arange(0, k+1))` as floats
      let k ← lp nat
      if k > maxOrder then refuse "bad-op:order-too-large"
      setReg dst (.arr [k + 1] (Array.ofFn fun (i : Fin (k + 1)) => (binom k i.1 : F)))
    | _ => do
      let (shape, x) ← getArr (← reg)
      let f ← match fn with
        | "normal_pdf" => pure (fun (x : F) => (limOfFloat x).pdf)
        | "normal_cdf" => pure (fun (x : F) => (limOfFloat x).cdf)
        | "norm_cdf" => pure (fun (x : F) => Transc.normCdf x)          -- the primitive `norm.cdf`
        | "norm_logcdf" => pure (fun (x : F) => Transc.normLogCdf x)    -- the primitive `norm.logcdf`
        | _ => refuse "bad-op"
      setReg dst (.arr shape (x.map f))
    pure true
  | _ => pure false

end GT.Driver
