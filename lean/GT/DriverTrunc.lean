import GT.DriverCore
/-!
# Driver extension: operations of `gaussian_toolbox/experimental/truncated_measure.py`
`execTrunc dst op` returns `true` when it handled the instruction.
-/
namespace GT.Driver
open GT

def execTrunc (dst : Nat) (op : String) : M Bool := do
  let _ := dst
  match op with
  | _ => pure false

end GT.Driver
