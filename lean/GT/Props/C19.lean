import GT.Model.Pdf
import GT.Bridge.BackendSpec
import GT.Bridge.Normal
import GT.Math.GaussianIntegral
import GT.Math.Moments
import GT.Bridge.SpecSat
import Mathlib.Probability.Distributions.Gaussian.Real
import Mathlib.MeasureTheory.Integral.Pi
import Mathlib.MeasureTheory.Constructions.Pi
/-!
# C19 — `sample(key, n)`: independent `N(μ_r, Σ_r)` draws, a deterministic function of the key

The PRNG is a trusted primitive: `z = jax.random.normal(key, (n, R, D))` is a pure function of the
key whose entries are i.i.d. standard normal.  The model takes `z` as an input
(`PdfV.sampleFrom be p z`), so "deterministic function of the key" is "function of `z`".

* structural part (`C19_affine_image`, `C19_factor`, `C19_deterministic`,
  `C19_component_independence_structural`): draw `(d, a)` is `μ_a + L_a z_{d,a}` with
  `L_a L_aᵀ = Σ_a`;
* the law (`C19_law`, form (d1)): the push-forward of the standard Gaussian product measure on
  `Fin D → ℝ` under `ξ ↦ μ + L ξ` has Lebesgue density `exp (normalLn μ Σ⁻¹ (log det Σ) ·)`, i.e. it is
  `N(μ, Σ)`; consequences `C19_mgf` (d2) and `C19_mean_cov` (d3);
* joint law (`C19_joint_law`, `C19_sample_law`): with all `N·R` blocks of `z` independent standard
  Gaussian, the array of draws has law `⨂_{(d,a)} N(μ_a, Σ_a)` — independence across draws and
  across components, each draw with the law of its own component.
-/
namespace GT.Props.C19
open GT Matrix MeasureTheory ProbabilityTheory

variable {R D N : Nat}

/-! ## structural part (any backend) -/

/-- **C19 (a)**: draw `d` of component `a` is the affine image of the block `z[d][a]` under the
Cholesky factor *of component `a`* and the mean *of component `a`*. -/
theorem C19_affine_image (be : Backend ℝ) (p : PdfV R D ℝ) (z : Arr N (Arr R (Vec D ℝ)))
    (d : Fin N) (a : Fin R) :
    toV ((p.sampleFrom be z) d a) =
      toV (p.mu a) + toM (be.cholesky (p.Sigma a)) *ᵥ toV (z d a) := by
  simp only [PdfV.sampleFrom, tab_apply, toV_vadd, toV_mulVec]

/-- **C19 (b)**: the factor used for component `a` is a Cholesky factor of `Σ_a`. -/
theorem C19_factor {be : Backend ℝ} (hbe : be.Spec) (p : PdfV R D ℝ) (a : Fin R)
    (hS : (toM (p.Sigma a)).PosDef) :
    toM (be.cholesky (p.Sigma a)) * (toM (be.cholesky (p.Sigma a)))ᵀ = toM (p.Sigma a) :=
  (hbe.cholesky (p.Sigma a) hS).mul_transpose

/-- **C19 (c)**: the samples are a function of `z` (of the key) only. -/
theorem C19_deterministic (be : Backend ℝ) (p : PdfV R D ℝ) (z z' : Arr N (Arr R (Vec D ℝ)))
    (h : z = z') : p.sampleFrom be z = p.sampleFrom be z' := by rw [h]

/-- **C19 (c)**: draw `(d, a)` depends only on `z[d][a]`, `μ_a` and `Σ_a`: two densities that agree
in component `a` and two noise arrays that agree in block `(d, a)` give the same draw `(d, a)` —
whatever the other components, the other blocks, and the other attributes are. -/
theorem C19_component_independence_structural (be : Backend ℝ) (p p' : PdfV R D ℝ)
    (z z' : Arr N (Arr R (Vec D ℝ))) (d : Fin N) (a : Fin R)
    (hmu : p.mu a = p'.mu a) (hS : p.Sigma a = p'.Sigma a) (hz : z d a = z' d a) :
    (p.sampleFrom be z) d a = (p'.sampleFrom be z') d a := by
  simp only [PdfV.sampleFrom, tab_apply, hmu, hS, hz]

/-! ## the law of one draw -/

/-- standard Gaussian on `Fin D → ℝ`: independent `N(0,1)` coordinates -/
noncomputable def stdGaussian (D : Nat) : Measure (Fin D → ℝ) :=
  Measure.pi fun _ : Fin D => gaussianReal 0 1

/-- `N(μ, Σ)`: the measure with Lebesgue density `exp (normalLn μ Σ⁻¹ (log det Σ) ·)` -/
noncomputable def gaussianMeasure (μ : Fin D → ℝ) (S : Matrix (Fin D) (Fin D) ℝ) : Measure (Fin D → ℝ) :=
  volume.withDensity fun x => ENNReal.ofReal (Real.exp (normalLn μ S⁻¹ (Real.log S.det) x))

instance : IsProbabilityMeasure (stdGaussian D) := by
  unfold stdGaussian; infer_instance

/-- the standard Gaussian product measure has the product density w.r.t. Lebesgue measure -/
theorem stdGaussian_eq_withDensity (D : Nat) :
    stdGaussian D =
      volume.withDensity fun ξ : Fin D → ℝ => ENNReal.ofReal (∏ i, gaussianPDFReal 0 1 (ξ i)) := by
  unfold stdGaussian
  apply Measure.pi_eq
  intro s hs
  have hmeasF : Measurable fun ξ : Fin D → ℝ => ENNReal.ofReal (∏ i, gaussianPDFReal 0 1 (ξ i)) := by
    apply ENNReal.measurable_ofReal.comp
    exact Finset.measurable_prod _ fun i _ =>
      (measurable_gaussianPDFReal 0 1).comp (measurable_pi_apply i)
  rw [withDensity_apply _ (MeasurableSet.univ_pi hs), ← lintegral_indicator (MeasurableSet.univ_pi hs)]
  have hind : ∀ ξ : Fin D → ℝ,
      (Set.univ.pi s).indicator (fun ξ => ENNReal.ofReal (∏ i, gaussianPDFReal 0 1 (ξ i))) ξ
        = ENNReal.ofReal (∏ i, (s i).indicator (gaussianPDFReal 0 1) (ξ i)) := by
    intro ξ
    by_cases hξ : ξ ∈ Set.univ.pi s
    · rw [Set.indicator_of_mem hξ]
      congr 1
      refine Finset.prod_congr rfl fun i _ => ?_
      rw [Set.indicator_of_mem (hξ i (Set.mem_univ i))]
    · rw [Set.indicator_of_notMem hξ]
      simp only [Set.mem_pi, Set.mem_univ, true_implies, not_forall] at hξ
      obtain ⟨i, hi⟩ := hξ
      rw [Finset.prod_eq_zero (Finset.mem_univ i) (Set.indicator_of_notMem hi _)]
      simp
  simp_rw [hind]
  rw [← ofReal_integral_eq_lintegral_ofReal, volume_pi, integral_fintype_prod_eq_prod,
    ENNReal.ofReal_prod_of_nonneg]
  · refine Finset.prod_congr rfl fun i _ => ?_
    rw [integral_indicator (hs i), gaussianReal_apply_eq_integral _ one_ne_zero]
  · intro i _
    exact integral_nonneg fun x => Set.indicator_nonneg (fun y _ => gaussianPDFReal_nonneg 0 1 y) x
  · rw [volume_pi]
    exact Integrable.fintype_prod fun i => (integrable_gaussianPDFReal 0 1).indicator (hs i)
  · exact ae_of_all _ fun ξ => Finset.prod_nonneg fun i _ =>
      Set.indicator_nonneg (fun y _ => gaussianPDFReal_nonneg 0 1 y) _

/-- product of the one-dimensional standard normal densities -/
theorem prod_gaussianPDFReal (ξ : Fin D → ℝ) :
    ∏ i, gaussianPDFReal 0 1 (ξ i) =
      Real.exp (-(1 / 2) * (ξ ⬝ᵥ ξ) - (D : ℝ) / 2 * Real.log (2 * Real.pi)) := by
  have h2π : (0 : ℝ) < 2 * Real.pi := by positivity
  have h1 : ∀ x : ℝ, gaussianPDFReal 0 1 x =
      Real.exp (-(1 / 2) * (x * x) - 1 / 2 * Real.log (2 * Real.pi)) := by
    intro x
    have hs : (√(2 * Real.pi))⁻¹ = Real.exp (-(1 / 2) * Real.log (2 * Real.pi)) := by
      rw [Real.sqrt_eq_rpow, Real.rpow_def_of_pos h2π, ← Real.exp_neg]
      congr 1; ring
    simp only [gaussianPDFReal, NNReal.coe_one, mul_one, sub_zero]
    rw [hs, ← Real.exp_add]
    congr 1; ring
  simp_rw [h1]
  rw [← Real.exp_sum]
  congr 1
  simp only [Finset.sum_sub_distrib, ← Finset.mul_sum, Finset.sum_const, Finset.card_univ,
    Fintype.card_fin, nsmul_eq_mul, dotProduct]
  ring

/-- Lebesgue measure under an invertible affine map -/
theorem map_affine_volume (L : Matrix (Fin D) (Fin D) ℝ) (hL : L.det ≠ 0) (μ : Fin D → ℝ) :
    Measure.map (fun ξ : Fin D → ℝ => μ + L *ᵥ ξ) volume = ENNReal.ofReal |L.det|⁻¹ • volume := by
  have hmeas : Measurable (toLin' L) := (LinearMap.continuous_on_pi _).measurable
  have hcomp : (fun ξ : Fin D → ℝ => μ + L *ᵥ ξ) = (fun x => μ + x) ∘ (toLin' L) := by
    funext ξ; simp [toLin'_apply]
  rw [hcomp, ← Measure.map_map (measurable_const_add μ) hmeas,
    Real.map_matrix_volume_pi_eq_smul_volume_pi hL, Measure.map_smul, map_add_left_eq_self, abs_inv]

theorem measurable_affine (L : Matrix (Fin D) (Fin D) ℝ) (μ : Fin D → ℝ) :
    Measurable (fun ξ : Fin D → ℝ => μ + L *ᵥ ξ) := by
  have hmeas : Measurable (toLin' L) := (LinearMap.continuous_on_pi _).measurable
  have hcomp : (fun ξ : Fin D → ℝ => μ + L *ᵥ ξ) = (fun x => μ + x) ∘ (toLin' L) := by
    funext ξ; simp [toLin'_apply]
  rw [hcomp]
  exact (measurable_const_add μ).comp hmeas

/-- the normal log-density at an affine image: `ln N(μ + Lξ; μ, LLᵀ) = ln φ(ξ) − log |det L|` -/
theorem normalLn_affine (μ : Fin D → ℝ) (S L : Matrix (Fin D) (Fin D) ℝ) (hLL : L * Lᵀ = S)
    (hS : S.PosDef) (ξ : Fin D → ℝ) :
    normalLn μ S⁻¹ (Real.log S.det) (μ + L *ᵥ ξ) =
      -(1 / 2) * (ξ ⬝ᵥ ξ) - (D : ℝ) / 2 * Real.log (2 * Real.pi) - Real.log |L.det| := by
  have hdet : S.det = L.det ^ 2 := by rw [← hLL, det_mul, det_transpose]; ring
  have hLdet : L.det ≠ 0 := by
    intro h
    have := hS.det_pos
    rw [hdet, h] at this
    simp at this
  have hLu : IsUnit L.det := isUnit_iff_ne_zero.2 hLdet
  have hLtu : IsUnit (Lᵀ).det := by rw [det_transpose]; exact hLu
  have hquad : (L *ᵥ ξ) ⬝ᵥ S⁻¹ *ᵥ (L *ᵥ ξ) = ξ ⬝ᵥ ξ := by
    rw [← hLL, Matrix.mul_inv_rev, Matrix.mulVec_mulVec, Matrix.mul_assoc,
      Matrix.nonsing_inv_mul _ hLu, Matrix.mul_one, Matrix.dotProduct_mulVec,
      ← Matrix.vecMul_transpose L ξ, Matrix.vecMul_vecMul, Matrix.mul_nonsing_inv _ hLtu,
      Matrix.vecMul_one]
  have hlog : Real.log S.det = 2 * Real.log |L.det| := by
    rw [hdet, ← sq_abs, Real.log_pow]; push_cast; ring
  simp only [normalLn, add_sub_cancel_left, hquad, hlog]
  ring

/-- the density of `N(μ, Σ)` is measurable -/
theorem measurable_density (μ : Fin D → ℝ) (S : Matrix (Fin D) (Fin D) ℝ) :
    Measurable fun x : Fin D → ℝ =>
      ENNReal.ofReal (Real.exp (normalLn μ S⁻¹ (Real.log S.det) x)) := by
  apply ENNReal.measurable_ofReal.comp
  apply Real.measurable_exp.comp
  apply Continuous.measurable
  unfold normalLn
  have h1 : Continuous fun y : Fin D → ℝ => (y - μ) ⬝ᵥ S⁻¹ *ᵥ (y - μ) :=
    (continuous_id.sub continuous_const).dotProduct
      (continuous_const.matrix_mulVec (continuous_id.sub continuous_const))
  fun_prop

/-- **C19 (d1), the law of one draw**: if `ξ` is standard Gaussian (independent `N(0,1)` coordinates),
`L Lᵀ = Σ` and `Σ` is positive definite, then `μ + L ξ` has Lebesgue density
`exp (normalLn μ Σ⁻¹ (log det Σ) ·)`, i.e. `μ + L ξ ∼ N(μ, Σ)`. -/
theorem C19_law (μ : Fin D → ℝ) (S L : Matrix (Fin D) (Fin D) ℝ) (hLL : L * Lᵀ = S) (hS : S.PosDef) :
    (stdGaussian D).map (fun ξ => μ + L *ᵥ ξ) = gaussianMeasure μ S := by
  have hdet : S.det = L.det ^ 2 := by rw [← hLL, det_mul, det_transpose]; ring
  have hLdet : L.det ≠ 0 := by
    intro h
    have := hS.det_pos
    rw [hdet, h] at this
    simp at this
  have habs : 0 < |L.det| := abs_pos.2 hLdet
  have hT := measurable_affine L μ
  have hρ_meas := measurable_density μ S
  -- the standard density is `|det L|` times the target density at the image point
  have hpt : ∀ ξ : Fin D → ℝ, ENNReal.ofReal (∏ i, gaussianPDFReal 0 1 (ξ i)) =
      ENNReal.ofReal |L.det| *
        ENNReal.ofReal (Real.exp (normalLn μ S⁻¹ (Real.log S.det) (μ + L *ᵥ ξ))) := by
    intro ξ
    rw [← ENNReal.ofReal_mul habs.le, prod_gaussianPDFReal, normalLn_affine μ S L hLL hS,
      Real.exp_sub _ (Real.log |L.det|), Real.exp_log habs]
    congr 1
    field_simp
  ext s hs
  rw [Measure.map_apply hT hs, stdGaussian_eq_withDensity, withDensity_apply _ (hT hs), gaussianMeasure,
    withDensity_apply _ hs]
  simp_rw [hpt]
  rw [← setLIntegral_map hs (hρ_meas.const_mul _) hT, map_affine_volume L hLdet μ,
    Measure.restrict_smul, lintegral_smul_measure, lintegral_const_mul _ hρ_meas, smul_eq_mul,
    ← mul_assoc, ← ENNReal.ofReal_mul (inv_nonneg.2 habs.le), inv_mul_cancel₀ habs.ne']
  simp

/-- `N(μ, Σ)` is a probability measure (positive definite `Σ`) -/
theorem gaussianMeasure_isProbabilityMeasure (μ : Fin D → ℝ) (S : Matrix (Fin D) (Fin D) ℝ)
    (hS : S.PosDef) : IsProbabilityMeasure (gaussianMeasure μ S) := by
  open scoped MatrixOrder in
  obtain ⟨B, hB⟩ := CStarAlgebra.nonneg_iff_eq_star_mul_self.mp hS.posSemidef.nonneg
  have hB' : Bᵀ * Bᵀᵀ = S := by rw [hB, transpose_transpose]; rfl
  rw [← C19_law μ S Bᵀ hB' hS]
  exact Measure.isProbabilityMeasure_map (measurable_affine _ _).aemeasurable

/-! ## mean and covariance (sanity check of the density: it is *the* `N(μ, Σ)`) -/

theorem integral_gaussianMeasure (μ : Fin D → ℝ) (S : Matrix (Fin D) (Fin D) ℝ)
    (g : (Fin D → ℝ) → ℝ) :
    ∫ x, g x ∂(gaussianMeasure μ S) =
      ∫ x, g x * Real.exp (normalLn μ S⁻¹ (Real.log S.det) x) := by
  unfold gaussianMeasure
  rw [integral_withDensity_eq_integral_toReal_smul (measurable_density μ S)
    (ae_of_all _ fun x => ENNReal.ofReal_lt_top)]
  refine integral_congr_ae (ae_of_all _ fun x => ?_)
  simp [ENNReal.toReal_ofReal (Real.exp_pos _).le, mul_comm]

/-- the normal density is a constant times the Gaussian weight in natural parameters -/
theorem exp_normalLn_eq (μ : Fin D → ℝ) (Λ : Matrix (Fin D) (Fin D) ℝ) (hΛ : Λᵀ = Λ) (ℓ : ℝ)
    (x : Fin D → ℝ) :
    Real.exp (normalLn μ Λ ℓ x) =
      Real.exp (-(1 / 2) * (μ ⬝ᵥ Λ *ᵥ μ) - 1 / 2 * ((D : ℝ) * Real.log (2 * Real.pi) + ℓ)) *
        GT.Math.gaussW Λ (Λ *ᵥ μ) x := by
  rw [GT.Math.gaussW_apply, ← Real.exp_add]
  congr 1
  unfold normalLn
  have h2 : (x - μ) ⬝ᵥ Λ *ᵥ (x - μ) = x ⬝ᵥ Λ *ᵥ x - 2 * ((Λ *ᵥ μ) ⬝ᵥ x) + μ ⬝ᵥ Λ *ᵥ μ := by
    have hc : x ⬝ᵥ Λ *ᵥ μ = (Λ *ᵥ μ) ⬝ᵥ x := dotProduct_comm _ _
    have hc' : μ ⬝ᵥ Λ *ᵥ x = (Λ *ᵥ μ) ⬝ᵥ x := by
      rw [Matrix.dotProduct_mulVec, ← Matrix.mulVec_transpose, hΛ]
    simp only [Matrix.mulVec_sub, sub_dotProduct, dotProduct_sub, hc, hc']
    ring
  rw [h2]; ring

/-- the normal density is the *normalised* Gaussian weight with precision `Σ⁻¹`, location `Σ⁻¹μ` -/
theorem exists_const_gaussW (μ : Fin D → ℝ) (S : Matrix (Fin D) (Fin D) ℝ) (hS : S.PosDef) :
    ∃ c : ℝ, (∀ x, Real.exp (normalLn μ S⁻¹ (Real.log S.det) x) =
        c * GT.Math.gaussW S⁻¹ (S⁻¹ *ᵥ μ) x) ∧
      c * ∫ x, GT.Math.gaussW S⁻¹ (S⁻¹ *ᵥ μ) x = 1 := by
  have hsym : (S⁻¹)ᵀ = S⁻¹ := GT.Math.PosDef_inv_transpose hS
  refine ⟨_, exp_normalLn_eq μ S⁻¹ hsym _, ?_⟩
  have := gaussianMeasure_isProbabilityMeasure μ S hS
  have h1 : ∫ _x, (1 : ℝ) ∂(gaussianMeasure μ S) = 1 := by simp
  rw [integral_gaussianMeasure] at h1
  simp_rw [one_mul, exp_normalLn_eq μ S⁻¹ hsym] at h1
  rwa [integral_const_mul] at h1

/-- **C19 (d3)** for the target: `N(μ, Σ)` (as defined through its density) has mean `μ` and second
moments `Σ_ij + μ_i μ_j`. -/
theorem gaussianMeasure_moments (μ : Fin D → ℝ) (S : Matrix (Fin D) (Fin D) ℝ) (hS : S.PosDef)
    (i j : Fin D) :
    (∫ x, x i ∂(gaussianMeasure μ S) = μ i) ∧
    (∫ x, x i * x j ∂(gaussianMeasure μ S) = S i j + μ i * μ j) := by
  have hΛ : S⁻¹.PosDef := hS.inv
  have hSu : IsUnit S.det := hS.det_pos.ne'.isUnit
  have hinv : S⁻¹⁻¹ = S := Matrix.nonsing_inv_nonsing_inv _ hSu
  have hmean : S⁻¹⁻¹ *ᵥ (S⁻¹ *ᵥ μ) = μ := by
    rw [hinv, Matrix.mulVec_mulVec, Matrix.mul_nonsing_inv _ hSu, Matrix.one_mulVec]
  obtain ⟨c, hc, hmass⟩ := exists_const_gaussW μ S hS
  obtain ⟨h1, h2⟩ := GT.Math.gaussian_coord_moments hΛ (S⁻¹ *ᵥ μ) i j
  constructor
  · rw [integral_gaussianMeasure]
    have : ∀ x : Fin D → ℝ, x i * Real.exp (normalLn μ S⁻¹ (Real.log S.det) x) =
        c * (x i * GT.Math.gaussW S⁻¹ (S⁻¹ *ᵥ μ) x) := by intro x; rw [hc]; ring
    simp_rw [this]
    rw [integral_const_mul, h1, hmean, ← mul_assoc, hmass, one_mul]
  · rw [integral_gaussianMeasure]
    have : ∀ x : Fin D → ℝ, x i * x j * Real.exp (normalLn μ S⁻¹ (Real.log S.det) x) =
        c * (x i * x j * GT.Math.gaussW S⁻¹ (S⁻¹ *ᵥ μ) x) := by intro x; rw [hc]; ring
    simp_rw [this]
    rw [integral_const_mul, h2, hmean, hinv, ← mul_assoc, hmass, one_mul]

/-- **C19 (d2)** for the target: moment generating function of `N(μ, Σ)` -/
theorem gaussianMeasure_mgf (μ : Fin D → ℝ) (S : Matrix (Fin D) (Fin D) ℝ) (hS : S.PosDef)
    (t : Fin D → ℝ) :
    ∫ x, Real.exp (t ⬝ᵥ x) ∂(gaussianMeasure μ S) =
      Real.exp (t ⬝ᵥ μ + 1 / 2 * (t ⬝ᵥ S *ᵥ t)) := by
  have hΛ : S⁻¹.PosDef := hS.inv
  have hSu : IsUnit S.det := hS.det_pos.ne'.isUnit
  have hinv : S⁻¹⁻¹ = S := Matrix.nonsing_inv_nonsing_inv _ hSu
  have hmean : S⁻¹⁻¹ *ᵥ (S⁻¹ *ᵥ μ) = μ := by
    rw [hinv, Matrix.mulVec_mulVec, Matrix.mul_nonsing_inv _ hSu, Matrix.one_mulVec]
  obtain ⟨c, hc, hmass⟩ := exists_const_gaussW μ S hS
  have h := GT.Math.gaussian_mgf_linear hΛ (S⁻¹ *ᵥ μ) t 1
  rw [integral_gaussianMeasure]
  have : ∀ x : Fin D → ℝ, Real.exp (t ⬝ᵥ x) * Real.exp (normalLn μ S⁻¹ (Real.log S.det) x) =
      c * (Real.exp (1 * (t ⬝ᵥ x)) * GT.Math.gaussW S⁻¹ (S⁻¹ *ᵥ μ) x) := by
    intro x; rw [hc, one_mul]; ring
  simp_rw [this]
  rw [integral_const_mul, h, hmean, ← mul_assoc, hmass, one_mul, hinv]
  congr 1; ring

/-- **C19 (d3)**: mean and covariance of one draw `μ + L ξ`, `ξ` standard Gaussian. -/
theorem C19_mean_cov (μ : Fin D → ℝ) (S L : Matrix (Fin D) (Fin D) ℝ) (hLL : L * Lᵀ = S)
    (hS : S.PosDef) (i j : Fin D) :
    (∫ ξ, (μ + L *ᵥ ξ) i ∂(stdGaussian D) = μ i) ∧
    (∫ ξ, (L *ᵥ ξ) i * (L *ᵥ ξ) j ∂(stdGaussian D) = S i j) := by
  constructor
  · have h := (gaussianMeasure_moments μ S hS i i).1
    rw [← C19_law μ S L hLL hS, integral_map (measurable_affine L μ).aemeasurable
      (by fun_prop : Continuous fun x : Fin D → ℝ => x i).aestronglyMeasurable] at h
    exact h
  · have h := (gaussianMeasure_moments 0 S hS i j).2
    rw [← C19_law 0 S L hLL hS, integral_map (measurable_affine L 0).aemeasurable
      (by fun_prop : Continuous fun x : Fin D → ℝ => x i * x j).aestronglyMeasurable] at h
    simpa using h

/-- **C19 (d2)**: moment generating function of one draw `μ + L ξ`. -/
theorem C19_mgf (μ : Fin D → ℝ) (S L : Matrix (Fin D) (Fin D) ℝ) (hLL : L * Lᵀ = S)
    (hS : S.PosDef) (t : Fin D → ℝ) :
    ∫ ξ, Real.exp (t ⬝ᵥ (μ + L *ᵥ ξ)) ∂(stdGaussian D) =
      Real.exp (t ⬝ᵥ μ + 1 / 2 * (t ⬝ᵥ S *ᵥ t)) := by
  have h := gaussianMeasure_mgf μ S hS t
  have hcont : Continuous fun x : Fin D → ℝ => Real.exp (t ⬝ᵥ x) :=
    Real.continuous_exp.comp (continuous_const.dotProduct continuous_id)
  rw [← C19_law μ S L hLL hS, integral_map (measurable_affine L μ).aemeasurable
    hcont.aestronglyMeasurable] at h
  exact h

/-! ## joint law of all draws -/

/-- **C19, joint law (mathematical form)**: with independent standard Gaussian blocks
`ξ_{d,a}` (`d < N`, `a < R`), the family `(μ_a + L_a ξ_{d,a})_{d,a}` has law `⨂_{(d,a)} N(μ_a, Σ_a)`:
all `N·R` draws are mutually independent and draw `(d,a)` is `N(μ_a, Σ_a)`. -/
theorem C19_joint_law (μ : Fin R → Fin D → ℝ) (S L : Fin R → Matrix (Fin D) (Fin D) ℝ)
    (hLL : ∀ a, L a * (L a)ᵀ = S a) (hS : ∀ a, (S a).PosDef) :
    (Measure.pi fun _ : Fin N × Fin R => stdGaussian D).map
        (fun Z da => μ da.2 + L da.2 *ᵥ Z da) =
      Measure.pi fun da : Fin N × Fin R => gaussianMeasure (μ da.2) (S da.2) := by
  have h1 : ∀ da : Fin N × Fin R,
      (stdGaussian D).map (fun ξ => μ da.2 + L da.2 *ᵥ ξ) = gaussianMeasure (μ da.2) (S da.2) :=
    fun da => C19_law _ _ _ (hLL da.2) (hS da.2)
  have hsf : ∀ da : Fin N × Fin R,
      SigmaFinite ((stdGaussian D).map (fun ξ => μ da.2 + L da.2 *ᵥ ξ)) := by
    intro da
    have := Measure.isProbabilityMeasure_map (μ := stdGaussian D)
      (measurable_affine (L da.2) (μ da.2)).aemeasurable
    infer_instance
  rw [Measure.pi_map_pi (μ := fun _ : Fin N × Fin R => stdGaussian D)
    (f := fun da ξ => μ da.2 + L da.2 *ᵥ ξ) (fun da => (measurable_affine _ _).aemeasurable)]
  simp_rw [h1]

/-- the noise array of the model as a family of blocks, and back -/
def ofBlocks (Z : Fin N × Fin R → Fin D → ℝ) : Arr N (Arr R (Vec D ℝ)) :=
  tab2 fun d a => ofV (Z (d, a))

def toBlocks (x : Arr N (Arr R (Vec D ℝ))) : Fin N × Fin R → Fin D → ℝ :=
  fun da => toV (x da.1 da.2)

theorem toBlocks_ofBlocks (Z : Fin N × Fin R → Fin D → ℝ) : toBlocks (ofBlocks Z) = Z := by
  funext da; simp [toBlocks, ofBlocks]

theorem ofBlocks_toBlocks (z : Arr N (Arr R (Vec D ℝ))) : ofBlocks (toBlocks z) = z := by
  ext d a i; simp [toBlocks, ofBlocks, ofV]

/-- **C19 for the model**: if the blocks `z[d][a]` of the PRNG output are independent standard
Gaussian vectors (the trusted contract of `jax.random.normal`), then the array returned by
`sample` has law `⨂_{(d,a)} N(μ_a, Σ_a)`: for each component `a` the `N` draws are independent
`N(μ_a, Σ_a)` variates, and different components are independent.  Holds for every backend that
satisfies the documented contract, every `N`, `R`, `D` and every density with positive definite
covariances. -/
theorem C19_sample_law {be : Backend ℝ} (hbe : be.Spec) (p : PdfV R D ℝ)
    (hS : ∀ a, (toM (p.Sigma a)).PosDef) :
    (Measure.pi fun _ : Fin N × Fin R => stdGaussian D).map
        (fun Z => toBlocks (p.sampleFrom be (ofBlocks Z))) =
      Measure.pi fun da : Fin N × Fin R => gaussianMeasure (toV (p.mu da.2)) (toM (p.Sigma da.2)) := by
  have hfun : (fun Z : Fin N × Fin R → Fin D → ℝ => toBlocks (p.sampleFrom be (ofBlocks Z))) =
      fun Z da => toV (p.mu da.2) + toM (be.cholesky (p.Sigma da.2)) *ᵥ Z da := by
    funext Z da
    simp only [toBlocks, C19_affine_image, ofBlocks, tab2_apply, toV_ofV]
  rw [hfun]
  exact C19_joint_law (fun a => toV (p.mu a)) (fun a => toM (p.Sigma a))
    (fun a => toM (be.cholesky (p.Sigma a))) (fun a => C19_factor hbe p a (hS a)) hS

/-- marginal of the joint law: draw `(d, a)` alone is `N(μ_a, Σ_a)` -/
theorem C19_sample_marginal {be : Backend ℝ} (hbe : be.Spec) (p : PdfV R D ℝ)
    (hS : ∀ a, (toM (p.Sigma a)).PosDef) (d : Fin N) (a : Fin R) :
    (Measure.pi fun _ : Fin N × Fin R => stdGaussian D).map
        (fun Z => toV ((p.sampleFrom be (ofBlocks Z)) d a)) =
      gaussianMeasure (toV (p.mu a)) (toM (p.Sigma a)) := by
  have hfun : (fun Z : Fin N × Fin R → Fin D → ℝ => toV ((p.sampleFrom be (ofBlocks Z)) d a)) =
      (fun ξ => toV (p.mu a) + toM (be.cholesky (p.Sigma a)) *ᵥ ξ) ∘ (Function.eval (d, a)) := by
    funext Z
    simp only [C19_affine_image, ofBlocks, tab2_apply, toV_ofV, Function.comp_apply, Function.eval]
  rw [hfun, ← Measure.map_map (measurable_affine _ _) (measurable_pi_apply _),
    (measurePreserving_eval (fun _ : Fin N × Fin R => stdGaussian D) (d, a)).map_eq]
  exact C19_law _ _ _ (C19_factor hbe p a (hS a)) (hS a)

/-! ## non-vacuity -/

/-- a two-component density with a non-diagonal covariance, and a backend satisfying the contract:
the hypotheses of `C19_sample_law` are satisfiable, and its conclusion holds for it. -/
example : ∃ (be : Backend ℝ) (p : PdfV 2 2 ℝ), be.Spec ∧ (∀ a, (toM (p.Sigma a)).PosDef) ∧
    p.Sigma 0 0 1 = 1 ∧
    (Measure.pi fun _ : Fin 3 × Fin 2 => stdGaussian 2).map
        (fun Z => toBlocks (p.sampleFrom be (ofBlocks Z))) =
      Measure.pi fun da : Fin 3 × Fin 2 => gaussianMeasure (toV (p.mu da.2)) (toM (p.Sigma da.2)) := by
  let S : Arr 2 (Mat 2 2 ℝ) := tab fun _ => ofM !![2, 1; 1, 2]
  let p : PdfV 2 2 ℝ := ⟨false, S, tab fun _ => zeroV, tab fun _ => 0, S, tab fun _ => 0,
    tab fun a => tab fun i => (a.1 : ℝ) + i.1, tab fun _ => 0⟩
  have hS : ∀ a, (toM (p.Sigma a)).PosDef := by
    intro a
    simp only [p, S, tab_apply, toM_ofM]
    apply Matrix.PosDef.of_dotProduct_mulVec_pos
    · ext i j; fin_cases i <;> fin_cases j <;> simp
    · intro x hx
      have hx' : x 0 ≠ 0 ∨ x 1 ≠ 0 := by
        by_contra hcon
        push Not at hcon
        apply hx
        ext i; fin_cases i <;> simp [hcon.1, hcon.2]
      simp only [dotProduct, Matrix.mulVec, Fin.sum_univ_two, star_trivial, Matrix.of_apply,
        Matrix.cons_val', Matrix.cons_val_zero, Matrix.cons_val_one, Matrix.cons_val_fin_one]
      rcases hx' with h0 | h1
      · nlinarith [sq_nonneg (x 0 + x 1), sq_pos_of_ne_zero h0, sq_nonneg (x 1)]
      · nlinarith [sq_nonneg (x 0 + x 1), sq_pos_of_ne_zero h1, sq_nonneg (x 0)]
  refine ⟨Backend.sat, p, Backend.sat_spec, hS, by simp [p, S, ofM], ?_⟩
  exact C19_sample_law Backend.sat_spec p hS

#print axioms C19_affine_image
#print axioms C19_factor
#print axioms C19_deterministic
#print axioms C19_component_independence_structural
#print axioms C19_law
#print axioms C19_mean_cov
#print axioms C19_mgf
#print axioms C19_joint_law
#print axioms C19_sample_law
#print axioms C19_sample_marginal

end GT.Props.C19
