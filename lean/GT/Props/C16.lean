import GT.Model.ApproxFeature
import GT.Model.Hetero
import GT.Math.Block
import GT.Props.C03Integral
import GT.Props.C04
import GT.Props.C06
import GT.Props.C10
import GT.Bridge.PdfFullOK
import GT.Bridge.SpecSat

/-!
# C16 — moment matching of the approximate conditionals is exact

Model of the feature classes LRBF / LSEM: `GT/Model/ApproxFeature.lean` (`FeatCondB`, conditional batch
`R = 1` as in the library, batch of the Gaussian argument arbitrary); sections 1–4.  Hypotheses
throughout: `be.Spec` (contract of the linear-algebra primitives), `FeatOK c` (positive definite noise covariance with its inverse / log-determinant and
`k_func = update_phi()`; established by `mkFeatCond`, see `mkFeatCond_ok`), `PdfInv p` (the argument
`p(x)` has consistent caches and total mass one; established by the density constructor, see
`pdfInv_of_mkPdf`).  All sizes `Dy Dx Dk Rx N`, all real parameters (weights, centres, length scales —
zero included —, offsets).

PROVED
1. kernels: `C16_rbf_kernel`, `C16_lsem_kernel` (the kernel factor evaluates to the log of the
   documented bump), `C16_unit_height_rbf`, `C16_unit_height_lsem` (value one at the centre / on the
   hyperplane), `kernLn_nonpos`/`kern_le_one` (never above one), `kFunc_psd` (both are conjugate
   factors: diagonal `1/ℓ² ≥ 0`, rank one with `g = 1`).
2. read-out: `C16_readout_phi` (`φ(x) = (x, k_1(x), …, k_Dk(x))`), `C16_readout`
   (`μ(x) = M φ(x) + b`), `C16_condition_on_x` (`N(y; μ(x_n), Σ)`), `C16_condition_on_x_mass`,
   `C16_inner_moments` (that density has mean `μ(x_n)` and second moment `Σ + μμᵀ`, as Lebesgue
   integrals over `y`).
3. kernel expectations (any measure with `Inv`, any positive semidefinite factor batch): `C16_E_k`,
   `C16_E_xk`, `C16_E_kk` (mass / first moment of the product measures = Lebesgue integrals of
   kernel × `p`), with integrability; `C16_Ek_model`, `C16_Ekx_model`, `C16_Ekk_model` for the
   quantities of the feature classes.
4. moment matching: with `E[y] := ∫ μ(x) p(x) dx`, `E[yyᵀ] := Σ + ∫ μ(x) μ(x)ᵀ p(x) dx`,
   `E[yxᵀ] := ∫ μ(x) xᵀ p(x) dx` (`meanY`, `momYY`, `momYX`; `C16_tower_iterated`: these are the iterated
   integrals `∫ (∫ g(x,y) p(y|x) dy) p(x) dx` with `p(y|x)` the object's own `condition_on_x`):
   `C16_mean`, `C16_cov` (the symmetrisation changes nothing), `C16_cross`, `C16_cross_cov`,
   `C16_mean_x`, `C16_cov_x` (the stored `mu`, `Sigma` of `p(x)` are its moments);
   `covY_posDef`, `jointSig_posDef` (matched covariances are positive definite: the transformations
   never leave the domain of the density constructor);
   `C16_marginal_params`, `C16_marginal_evalLn`; `C16_joint_params`, `C16_joint_evalLn`;
   `C16_conditional_params`, `C16_conditional_is_condition_on_joint` (the returned conditional *is*
   `condition_on_explicit(y ↦ x)` of the view of the matched joint, as records).
5. heteroscedastic classes (`GT/Model/Hetero.lean`), stretch: `noiseOK_exp`, `noiseOK_cosh`
   (`_integrate_noise_diagonal` is `E_p[exp h_k]` resp. `E_p[cosh h_k − 1]`, Lebesgue integrals, any
   batch of `p(x)`); `C16_hetero_mean`, `C16_hetero_cross` (all link classes, any batch);
   `C16_hetero_cov` (any number `R` of components of `p(x)`, every component `r`; any link class
   satisfying `NoiseOK`, in particular exp and cosh−1):
   `Sigma_y[r] = ∫ (Σ_y(x) + μ(x)μ(x)ᵀ) p_r(x) dx − E_r[y]E_r[y]ᵀ` with
   `Σ_y(x) = get_conditional_cov(x)`, `μ(x) = get_conditional_mu(x)` of the object itself
   (`integrate_Sigma_x` returns one expected covariance per component, `[R, Dy, Dy]`);
   `C16_hetero_marginal_params`, `C16_hetero_joint_params`, `C16_hetero_conditional_params`
   (covariance-form Gaussian conditional of the matched joint), all for arbitrary `R`.

NOT PROVED HERE
* Fubini: the identification of the iterated integrals above with integrals against the joint law of
  `(x, y)` on `ℝ^{Dx+Dy}` (only the iterated form `C16_tower_iterated` is proved).
* Heteroscedastic classes: `Cov[y|x]` is taken from `get_conditional_cov(x, invert=False)` — the
  `Lambda`/`ln det` that `condition_on_x` hands to the density constructor are consistent with it only
  under the Woodbury assumption (known finding `hetero-woodbury-Da>Dy`), so no analogue of
  `C16_condition_on_x` is stated; the step / rectified-linear link classes
  (`GT/Model/HeteroTrunc.lean`) are covered here only through the hypothesis `NoiseOK`, which
  `GT/Props/C16Trunc.lean` establishes for them (`noiseOK_heaviside`, `noiseOK_relu`); positive definiteness of the matched
  heteroscedastic covariances and "conditional = `condition_on` of the joint" are not proved for them.
* `conditional_entropy`, `mutual_information` and the log-conditional integrals are outside C16.
-/

set_option linter.unusedSimpArgs false

namespace GT.Props.C16
open GT Matrix MeasureTheory GT.Math

variable {Dy Dx Dk Rx N : Nat}

/-! ## 1. the kernels -/

/-- the documented feature `k_j` in the log domain -/
noncomputable def kernLn : FeatKernel Dk Dx ℝ → Fin Dk → (Fin Dx → ℝ) → ℝ
  | .rbf mu ls, k, x => -(1 / 2) * ∑ i, (x i - mu k i) ^ 2 / (ls k i) ^ 2
  | .lsem W w0, k, x => -(1 / 2) * (∑ i, W k i * x i + w0 k) ^ 2

theorem C16_rbf_kernel (mu ls : Mat Dk Dx ℝ) (k : Fin Dk) (x : Vec Dx ℝ) :
    (FeatKernel.rbf mu ls).kFunc.evalLn k x
      = -(1 / 2) * ∑ i, (x i - mu k i) ^ 2 / (ls k i) ^ 2 := by
  simp only [FeatKernel.kFunc, Factor.evalLn, Factor.toB, C01.evalLn_real, tab_apply, tab2_apply,
    tab3_apply, eye_apply, half_real, vsum_real]
  have h1 : ∀ i : Fin Dx, (∑ j, (if i = j then (1 : ℝ) else 0) / (ls k j * ls k j) * x j)
      = x i / (ls k i * ls k i) := by
    intro i
    simp only [ite_div, zero_div, ite_mul, zero_mul, Finset.sum_ite_eq, Finset.mem_univ, if_true]
    ring
  simp only [h1]
  rw [Finset.mul_sum, Finset.mul_sum, Finset.mul_sum, ← Finset.sum_neg_distrib,
    ← Finset.sum_neg_distrib, ← Finset.sum_add_distrib, ← Finset.sum_add_distrib]
  refine Finset.sum_congr rfl fun i _ => ?_
  simp only [div_eq_mul_inv, mul_inv, pow_two]
  ring

theorem C16_lsem_kernel (W : Mat Dk Dx ℝ) (w0 : Vec Dk ℝ) (k : Fin Dk) (x : Vec Dx ℝ) :
    (FeatKernel.lsem W w0).kFunc.evalLn k x = -(1 / 2) * (∑ i, W k i * x i + w0 k) ^ 2 := by
  simp only [FeatKernel.kFunc, Factor.evalLn, Factor.toB, C01.evalLn_real, tab_apply, tab2_apply,
    oneRankLambda, tab3_apply, half_real]
  have h1 : ∑ i, (∑ j, W k i * (1 * W k j) * x j) * x i = (∑ i, W k i * x i) ^ 2 := by
    rw [pow_two, Finset.sum_mul_sum]
    refine Finset.sum_congr rfl fun i _ => ?_
    rw [Finset.sum_mul]
    refine Finset.sum_congr rfl fun j _ => ?_
    ring
  have h2 : ∑ i, x i * (-W k i * w0 k) = -(w0 k * ∑ i, W k i * x i) := by
    rw [Finset.mul_sum, ← Finset.sum_neg_distrib]
    refine Finset.sum_congr rfl fun i _ => ?_
    ring
  rw [h1, h2]
  ring

/-- both kernels are the documented bump, uniformly -/
theorem kFunc_evalLn (ker : FeatKernel Dk Dx ℝ) (k : Fin Dk) (x : Fin Dx → ℝ) :
    ker.kFunc.evalLn k (ofV x) = kernLn ker k x := by
  cases ker with
  | rbf mu ls => simp only [C16_rbf_kernel, kernLn, ofV, tab_apply]
  | lsem W w0 => simp only [C16_lsem_kernel, kernLn, ofV, tab_apply]

/-- value one (log zero) at the RBF centre -/
theorem C16_unit_height_rbf (mu ls : Mat Dk Dx ℝ) (k : Fin Dk) :
    (FeatKernel.rbf mu ls).kFunc.evalLn k (mu k) = 0 ∧
      Real.exp ((FeatKernel.rbf mu ls).kFunc.evalLn k (mu k)) = 1 := by
  have h : (FeatKernel.rbf mu ls).kFunc.evalLn k (mu k) = 0 := by
    rw [C16_rbf_kernel]; simp
  exact ⟨h, by rw [h, Real.exp_zero]⟩

/-- value one (log zero) on the hyperplane `w_k ⬝ x + w0_k = 0` -/
theorem C16_unit_height_lsem (W : Mat Dk Dx ℝ) (w0 : Vec Dk ℝ) (k : Fin Dk) (x : Vec Dx ℝ)
    (hx : ∑ i, W k i * x i + w0 k = 0) :
    (FeatKernel.lsem W w0).kFunc.evalLn k x = 0 ∧
      Real.exp ((FeatKernel.lsem W w0).kFunc.evalLn k x) = 1 := by
  have h : (FeatKernel.lsem W w0).kFunc.evalLn k x = 0 := by
    rw [C16_lsem_kernel, hx]; simp
  exact ⟨h, by rw [h, Real.exp_zero]⟩

/-- the kernels never exceed one: they are bumps of unit height -/
theorem kernLn_nonpos (ker : FeatKernel Dk Dx ℝ) (k : Fin Dk) (x : Fin Dx → ℝ) :
    kernLn ker k x ≤ 0 := by
  cases ker with
  | rbf mu ls =>
    simp only [kernLn]
    have : 0 ≤ ∑ i, (x i - mu k i) ^ 2 / (ls k i) ^ 2 :=
      Finset.sum_nonneg fun i _ => div_nonneg (sq_nonneg _) (sq_nonneg _)
    linarith
  | lsem W w0 =>
    simp only [kernLn]
    have := sq_nonneg (∑ i, W k i * x i + w0 k)
    linarith

/-- both kernel factors are documented conjugate factors (positive semidefinite precision):
diagonal `1/ℓ²` resp. rank one with `g = 1` -/
theorem kFunc_psd (ker : FeatKernel Dk Dx ℝ) : C04.FactorPSD ker.kFunc := by
  intro k
  cases ker with
  | rbf mu ls =>
    have h : toM ((FeatKernel.rbf mu ls).kFunc.toB.Lambda k)
        = Matrix.diagonal fun i => 1 / (ls k i * ls k i) := by
      ext i j
      simp only [FeatKernel.kFunc, Factor.toB, toM_apply, tab_apply, eye_apply, Matrix.diagonal_apply]
      by_cases hij : i = j
      · subst hij; simp
      · simp [hij]
    rw [h]
    exact Matrix.PosSemidef.diagonal fun i => by
      simp only [Pi.zero_apply]
      exact div_nonneg zero_le_one (mul_self_nonneg _)
  | lsem W w0 =>
    have h : toM ((FeatKernel.lsem W w0).kFunc.toB.Lambda k)
        = vecMulVec (toV (W k)) (toV (W k)) := by
      ext i j
      simp [FeatKernel.kFunc, Factor.toB, oneRankLambda, vecMulVec_apply]
    rw [h]
    have hp := posSemidef_vecMulVec_self_star (toV (W k))
    rwa [star_trivial] at hp

/-! ## 2. read-out -/

/-- a well-formed feature conditional: what `mkFeatCond` / `update_phi` establish -/
structure FeatOK (c : FeatCondB Dy Dx Dk ℝ) : Prop where
  posDef : (toM (c.Sigma 0)).PosDef
  lambda : toM (c.Lambda 0) = (toM (c.Sigma 0))⁻¹
  lnDet : c.lnDetSigma 0 = Real.log (toM (c.Sigma 0)).det
  kfunc : c.kFunc = c.kernel.kFunc

/-- the `j`-th feature `k_j(x) = exp (kFunc.evalLn j x)` -/
noncomputable def kern (c : FeatCondB Dy Dx Dk ℝ) (k : Fin Dk) (x : Fin Dx → ℝ) : ℝ :=
  Real.exp (c.kFunc.evalLn k (ofV x))

/-- for a well-formed object it is the documented bump -/
theorem kern_eq {c : FeatCondB Dy Dx Dk ℝ} (hc : FeatOK c) (k : Fin Dk) (x : Fin Dx → ℝ) :
    kern c k x = Real.exp (kernLn c.kernel k x) := by
  rw [kern, hc.kfunc, kFunc_evalLn]

theorem kern_pos (c : FeatCondB Dy Dx Dk ℝ) (k : Fin Dk) (x : Fin Dx → ℝ) : 0 < kern c k x :=
  Real.exp_pos _

theorem kern_le_one {c : FeatCondB Dy Dx Dk ℝ} (hc : FeatOK c) (k : Fin Dk) (x : Fin Dx → ℝ) :
    kern c k x ≤ 1 := by
  rw [kern_eq hc, ← Real.exp_zero]
  exact Real.exp_le_exp.2 (kernLn_nonpos _ _ _)

/-- **read-out (feature vector)**: `evaluate_phi(x) = (x, k_1(x), …, k_Dk(x))` -/
theorem C16_readout_phi (c : FeatCondB Dy Dx Dk ℝ) (x : Arr N (Vec Dx ℝ)) (n : Fin N) :
    (∀ i : Fin Dx, c.evaluatePhi x n (Fin.castAdd Dk i) = x n i) ∧
    (∀ k : Fin Dk, c.evaluatePhi x n (Fin.natAdd Dx k) = kern c k (toV (x n))) := by
  refine ⟨fun i => ?_, fun k => ?_⟩
  · simp only [FeatCondB.evaluatePhi, tab_apply, vappend_castAdd]
  · simp only [FeatCondB.evaluatePhi, tab_apply, vappend_natAdd, FeatCondB.kernelAt, transc_exp,
      kern, ofV_toV]

/-- **read-out (conditional mean)**: `μ(x) = M · φ(x) + b`, i.e.
`μ(x)_i = Σ_j M[i,j] x_j + Σ_k M[i,Dx+k] k_k(x) + b_i` -/
theorem C16_readout (c : FeatCondB Dy Dx Dk ℝ) (x : Arr N (Vec Dx ℝ)) (n : Fin N) (i : Fin Dy) :
    c.condMu x n i = ∑ a, c.M 0 i a * c.evaluatePhi x n a + c.b 0 i ∧
    c.condMu x n i = ∑ j : Fin Dx, c.M 0 i (Fin.castAdd Dk j) * x n j
      + ∑ k : Fin Dk, c.M 0 i (Fin.natAdd Dx k) * kern c k (toV (x n)) + c.b 0 i := by
  have h : c.condMu x n i = ∑ a, c.M 0 i a * c.evaluatePhi x n a + c.b 0 i := by
    simp only [FeatCondB.condMu, tab_apply, vadd_apply, mulVec_apply]
  refine ⟨h, ?_⟩
  rw [h, Fin.sum_univ_add]
  simp only [(C16_readout_phi c x n).1, (C16_readout_phi c x n).2]

variable {be : Backend ℝ}

/-- **`condition_on_x`** returns the density `N(y; μ(x_n), Σ)` -/
theorem C16_condition_on_x (hbe : be.Spec) (c : FeatCondB Dy Dx Dk ℝ) (hc : FeatOK c)
    (x : Arr N (Vec Dx ℝ)) (n : Fin N) (y : Fin Dy → ℝ) :
    (c.conditionOnX be x).evalLn n (ofV y) =
      normalLn (toV (c.condMu x n)) (toM (c.Sigma 0))⁻¹ (Real.log (toM (c.Sigma 0)).det) y := by
  unfold FeatCondB.conditionOnX
  rw [mkPdf_evalLn hbe]
  · simp only [tab_apply]
  · refine ⟨fun r => by simpa using hc.posDef, by simp, ?_, ?_⟩
    · intro L hL r
      simp only [Option.some.injEq] at hL; subst hL
      simpa using hc.lambda
    · intro L ld _ hld r
      simp only [Option.some.injEq] at hld; subst hld
      simpa using hc.lnDet

/-- and it is a normalised density: it integrates to one -/
theorem C16_condition_on_x_mass (hbe : be.Spec) (c : FeatCondB Dy Dx Dk ℝ) (hc : FeatOK c)
    (x : Arr N (Vec Dx ℝ)) (n : Fin N) :
    ∫ y : Fin Dy → ℝ, Real.exp ((c.conditionOnX be x).evalLn n (ofV y)) = 1 := by
  unfold FeatCondB.conditionOnX
  apply C02.C02_density_integrates_to_one hbe
  refine ⟨fun r => by simpa using hc.posDef, by simp, ?_, ?_⟩
  · intro L hL r
    simp only [Option.some.injEq] at hL; subst hL
    simpa using hc.lambda
  · intro L ld _ hld r
    simp only [Option.some.injEq] at hld; subst hld
    simpa using hc.lnDet

theorem condX_argsOK {c : FeatCondB Dy Dx Dk ℝ} (hc : FeatOK c) (N : Nat) :
    C02.PdfArgsOK false (tab fun _ : Fin N => c.Sigma 0) (some (tab fun _ => c.Lambda 0))
      (some (tab fun _ => c.lnDetSigma 0)) := by
  refine ⟨fun r => by simpa using hc.posDef, by simp, ?_, ?_⟩
  · intro L hL r
    simp only [Option.some.injEq] at hL; subst hL
    simpa using hc.lambda
  · intro L ld _ hld r
    simp only [Option.some.injEq] at hld; subst hld
    simpa using hc.lnDet

/-- **the object conditioned on `x` has mean `μ(x)` and covariance `Σ`** (as Lebesgue integrals
over `y`): this is what makes `∫ μ(x) p(x) dx`, `Σ + ∫ μ(x) μ(x)ᵀ p(x) dx`, `∫ μ(x) xᵀ p(x) dx`
the (iterated) moments of `y` under `p(y|x) p(x)` -/
theorem C16_inner_moments (hbe : be.Spec) (c : FeatCondB Dy Dx Dk ℝ) (hc : FeatOK c)
    (x : Arr N (Vec Dx ℝ)) (n : Fin N) :
    (∀ i, ∫ y : Fin Dy → ℝ, y i * Real.exp ((c.conditionOnX be x).evalLn n (ofV y))
        = c.condMu x n i) ∧
    (∀ i j, ∫ y : Fin Dy → ℝ, y i * y j * Real.exp ((c.conditionOnX be x).evalLn n (ofV y))
        = c.Sigma 0 i j + c.condMu x n i * c.condMu x n j) := by
  have hm : (c.conditionOnX be x).Inv := C02.mkPdf_inv hbe _ _ _ _ _ (condX_argsOK hc N)
  have hv := C03.intView_spec hbe hm
  obtain ⟨hL, hnu, -⟩ := mkPdf_params hbe false (tab fun _ : Fin N => c.Sigma 0) (c.condMu x)
    (some (tab fun _ => c.Lambda 0)) (some (tab fun _ => c.lnDetSigma 0)) (condX_argsOK hc N) n
  have hu : IsUnit (toM (c.Sigma 0)).det := hc.posDef.det_pos.ne'.isUnit
  simp only [tab_apply] at hL hnu
  have hmass : ((c.conditionOnX be x).intView be).2.mass n = 1 := by
    rw [hv.mass n]; exact C16_condition_on_x_mass hbe c hc x n
  have hmu : ∀ i, ((c.conditionOnX be x).intView be).2.mu n i = c.condMu x n i := by
    intro i
    have := congrFun (hv.mu n) i
    unfold FeatCondB.conditionOnX at this ⊢
    rw [hL, hnu, Matrix.nonsing_inv_nonsing_inv _ hu, Matrix.mulVec_mulVec,
      Matrix.mul_nonsing_inv _ hu, Matrix.one_mulVec] at this
    simpa using this
  have hS : ∀ i j, ((c.conditionOnX be x).intView be).2.Sigma n i j = c.Sigma 0 i j := by
    intro i j
    have := congrFun (congrFun (hv.Sigma n) i) j
    unfold FeatCondB.conditionOnX at this ⊢
    rw [hL, Matrix.nonsing_inv_nonsing_inv _ hu] at this
    simpa using this
  refine ⟨fun i => ?_, fun i j => ?_⟩
  · rw [← C03.C03_x hbe hm n i]
    simp only [IntV.integrateX, tab_apply, hmass, hmu, one_mul]
  · rw [← C03.C03_xxT hbe hm n i j]
    simp only [IntV.integrateXXT, IntV.Exx, tab_apply, smulM_apply, hmass, hmu, hS, one_mul]
    ring

/-! ## 3. kernel expectations are masses / first moments of product measures -/

section kernelExpectations
variable {R D K : Nat}

/-- `integral()` hands back the prepared object -/
theorem intView_fst (be : Backend ℝ) (m : MeasureB R D ℝ) : (m.intView be).1 = m.prepare be := by
  simp only [MeasureB.intView, MeasureB.integral, MeasureB.logIntegral]
  split <;> rfl

theorem intView_fst_inv (hbe : be.Spec) {m : MeasureB R D ℝ} (h : m.Inv) : (m.intView be).1.Inv := by
  rw [intView_fst]; exact inv_prepare hbe h

theorem intView_fst_evalLn (m : MeasureB R D ℝ) (r : Fin R) (x : Vec D ℝ) :
    (m.intView be).1.evalLn r x = m.evalLn r x := by
  rw [intView_fst]
  simp only [MeasureB.evalLn, MeasureB.toB, prepare_Lambda, prepare_nu, prepare_lnBeta]

/-- `p_k = p_x.multiply(k_func, update_full=True)` after `p_x.integrate(…)` -/
noncomputable def pK (be : Backend ℝ) (p : MeasureB R D ℝ) (f : Factor K D ℝ) : MeasureB (R * K) D ℝ :=
  (p.intView be).1.multiply be f true

/-- `p_kk = p_k.multiply(k_func, update_full=True)` after `p_k.integrate(…)` -/
noncomputable def pKK (be : Backend ℝ) (p : MeasureB R D ℝ) (f : Factor K D ℝ) : MeasureB (R * K * K) D ℝ :=
  ((pK be p f).intView be).1.multiply be f true

variable (hbe : be.Spec) {p : MeasureB R D ℝ} (hp : p.Inv) {f : Factor K D ℝ} (hf : C04.FactorPSD f)
include hbe hp hf

theorem pK_inv : (pK be p f).Inv := C04.C04_multiply hbe _ f true (intView_fst_inv hbe hp) hf

theorem pKK_inv : (pKK be p f).Inv :=
  C04.C04_multiply hbe _ f true (intView_fst_inv hbe (pK_inv hbe hp hf)) hf

omit hbe hp hf in
theorem pK_evalLn (r : Fin R) (k : Fin K) (x : Vec D ℝ) :
    (pK be p f).evalLn (flat r k) x = p.evalLn r x + f.evalLn k x := by
  rw [pK, C01.C01_multiply_layout, intView_fst_evalLn]

omit hbe hp hf in
theorem pKK_evalLn (r : Fin R) (k l : Fin K) (x : Vec D ℝ) :
    (pKK be p f).evalLn (flat (flat r k) l) x = p.evalLn r x + f.evalLn k x + f.evalLn l x := by
  rw [pKK, C01.C01_multiply_layout, intView_fst_evalLn, pK_evalLn]

omit hbe hp hf in
theorem exp_pK (r : Fin R) (k : Fin K) (x : Fin D → ℝ) :
    Real.exp ((pK be p f).evalLn (flat r k) (ofV x))
      = Real.exp (f.evalLn k (ofV x)) * Real.exp (p.evalLn r (ofV x)) := by
  rw [pK_evalLn, Real.exp_add, mul_comm]

omit hbe hp hf in
theorem exp_pKK (r : Fin R) (k l : Fin K) (x : Fin D → ℝ) :
    Real.exp ((pKK be p f).evalLn (flat (flat r k) l) (ofV x))
      = Real.exp (f.evalLn k (ofV x)) * Real.exp (f.evalLn l (ofV x))
        * Real.exp (p.evalLn r (ofV x)) := by
  rw [pKK_evalLn, Real.exp_add, Real.exp_add]; ring

/-- **`E_p[k_j]`**: the mass of the product measure is the Lebesgue integral of kernel × `p` -/
theorem C16_E_k (r : Fin R) (k : Fin K) :
    ((pK be p f).intView be).2.mass (flat r k)
      = ∫ x : Fin D → ℝ, Real.exp (f.evalLn k (ofV x)) * Real.exp (p.evalLn r (ofV x)) := by
  rw [C03.C03_mass hbe (pK_inv hbe hp hf)]
  simp only [exp_pK]

theorem integrable_k (r : Fin R) (k : Fin K) :
    Integrable fun x : Fin D → ℝ => Real.exp (f.evalLn k (ofV x)) * Real.exp (p.evalLn r (ofV x)) := by
  have := C03.integrable_mom0 (pK_inv (be := be) hbe hp hf) (flat r k)
  simpa only [exp_pK] using this

/-- **`E_p[x k_j]`**: the first moment of the product measure -/
theorem C16_E_xk (r : Fin R) (k : Fin K) (i : Fin D) :
    ((pK be p f).intView be).2.integrateX (flat r k) i
      = ∫ x : Fin D → ℝ, x i * Real.exp (f.evalLn k (ofV x)) * Real.exp (p.evalLn r (ofV x)) := by
  rw [C03.C03_x hbe (pK_inv hbe hp hf)]
  simp only [exp_pK, mul_assoc]

theorem integrable_xk (r : Fin R) (k : Fin K) (i : Fin D) :
    Integrable fun x : Fin D → ℝ =>
      x i * Real.exp (f.evalLn k (ofV x)) * Real.exp (p.evalLn r (ofV x)) := by
  have hv := C03.intView_spec hbe (pK_inv (be := be) hbe hp hf)
  have := (C03.mom1_aux (pK_inv (be := be) hbe hp hf) hv
    (getDefault none none : AffForm (R * K) D D ℝ) (flat r k) i).1
  simpa only [C03.affFn_default, exp_pK, mul_assoc] using this

/-- **`E_p[k_i k_j]`**: the mass of the product measure with two kernel factors -/
theorem C16_E_kk (r : Fin R) (k l : Fin K) :
    ((pKK be p f).intView be).2.mass (flat (flat r k) l)
      = ∫ x : Fin D → ℝ, Real.exp (f.evalLn k (ofV x)) * Real.exp (f.evalLn l (ofV x))
          * Real.exp (p.evalLn r (ofV x)) := by
  rw [C03.C03_mass hbe (pKK_inv hbe hp hf)]
  simp only [exp_pKK]

theorem integrable_kk (r : Fin R) (k l : Fin K) :
    Integrable fun x : Fin D → ℝ => Real.exp (f.evalLn k (ofV x)) * Real.exp (f.evalLn l (ofV x))
      * Real.exp (p.evalLn r (ofV x)) := by
  have := C03.integrable_mom0 (pKK_inv (be := be) hbe hp hf) (flat (flat r k) l)
  simpa only [exp_pKK] using this

end kernelExpectations

/-! ## 4. moment matching -/

/-! ### linearity of the integral for an affine read-out of features -/

section abstractTower
variable {X : Type*} [MeasurableSpace X] {μ : Measure X} {n m : Nat}
  (φ : Fin n → X → ℝ) (w : X → ℝ) (M : Fin m → Fin n → ℝ) (b : Fin m → ℝ)

/-- the read-out `Σ_a M[i,a] φ_a(x) + b_i` -/
def readout (i : Fin m) (x : X) : ℝ := ∑ a, M i a * φ a x + b i

variable {φ w}

omit [MeasurableSpace X] in
theorem readout_mul_w (i : Fin m) (x : X) :
    readout φ M b i x * w x = ∑ a, M i a * (φ a x * w x) + b i * w x := by
  simp only [readout, add_mul, Finset.sum_mul, mul_assoc]

theorem integrable_readout (hw : Integrable w μ) (h1 : ∀ a, Integrable (fun x => φ a x * w x) μ)
    (i : Fin m) : Integrable (fun x => readout φ M b i x * w x) μ := by
  simp only [readout_mul_w]
  exact (integrable_finsetSum _ fun a _ => (h1 a).const_mul _).add (hw.const_mul _)

/-- first moment of the read-out -/
theorem integral_readout (hw : Integrable w μ) (h1 : ∀ a, Integrable (fun x => φ a x * w x) μ)
    (i : Fin m) :
    ∫ x, readout φ M b i x * w x ∂μ = ∑ a, M i a * ∫ x, φ a x * w x ∂μ + b i * ∫ x, w x ∂μ := by
  simp only [readout_mul_w]
  rw [integral_add (integrable_finsetSum _ fun a _ => (h1 a).const_mul _) (hw.const_mul _),
    integral_finsetSum _ fun a _ => (h1 a).const_mul _]
  simp only [integral_const_mul]

omit [MeasurableSpace X] in
theorem readout_mul_feature (i : Fin m) (c : Fin n) (x : X) :
    readout φ M b i x * φ c x * w x = ∑ a, M i a * (φ a x * φ c x * w x) + b i * (φ c x * w x) := by
  simp only [readout, add_mul, Finset.sum_mul, mul_assoc]

theorem integrable_readout_mul_feature (h1 : ∀ a, Integrable (fun x => φ a x * w x) μ)
    (h2 : ∀ a a', Integrable (fun x => φ a x * φ a' x * w x) μ) (i : Fin m) (c : Fin n) :
    Integrable (fun x => readout φ M b i x * φ c x * w x) μ := by
  simp only [readout_mul_feature]
  exact (integrable_finsetSum _ fun a _ => (h2 a c).const_mul _).add ((h1 c).const_mul _)

/-- cross moment of the read-out with a feature -/
theorem integral_readout_mul_feature (h1 : ∀ a, Integrable (fun x => φ a x * w x) μ)
    (h2 : ∀ a a', Integrable (fun x => φ a x * φ a' x * w x) μ) (i : Fin m) (c : Fin n) :
    ∫ x, readout φ M b i x * φ c x * w x ∂μ
      = ∑ a, M i a * ∫ x, φ a x * φ c x * w x ∂μ + b i * ∫ x, φ c x * w x ∂μ := by
  simp only [readout_mul_feature]
  rw [integral_add (integrable_finsetSum _ fun a _ => (h2 a c).const_mul _) ((h1 c).const_mul _),
    integral_finsetSum _ fun a _ => (h2 a c).const_mul _]
  simp only [integral_const_mul]

omit [MeasurableSpace X] in
theorem readout_mul_readout (i j : Fin m) (x : X) :
    readout φ M b i x * readout φ M b j x * w x
      = ∑ a, M j a * (readout φ M b i x * φ a x * w x) + b j * (readout φ M b i x * w x) := by
  conv_lhs => rw [mul_assoc, mul_comm (readout φ M b j x), ← mul_assoc]
  conv_lhs => arg 2; rw [readout]
  rw [mul_add, Finset.mul_sum]
  congr 1
  · exact Finset.sum_congr rfl fun a _ => by ring
  · ring

theorem integrable_readout_mul_readout (hw : Integrable w μ)
    (h1 : ∀ a, Integrable (fun x => φ a x * w x) μ)
    (h2 : ∀ a a', Integrable (fun x => φ a x * φ a' x * w x) μ) (i j : Fin m) :
    Integrable (fun x => readout φ M b i x * readout φ M b j x * w x) μ := by
  simp only [readout_mul_readout]
  exact (integrable_finsetSum _ fun a _ =>
    (integrable_readout_mul_feature M b h1 h2 i a).const_mul _).add
    ((integrable_readout M b hw h1 i).const_mul _)

/-- second moment of the read-out -/
theorem integral_readout_mul_readout (hw : Integrable w μ)
    (h1 : ∀ a, Integrable (fun x => φ a x * w x) μ)
    (h2 : ∀ a a', Integrable (fun x => φ a x * φ a' x * w x) μ) (i j : Fin m) :
    ∫ x, readout φ M b i x * readout φ M b j x * w x ∂μ
      = ∑ a', M j a' * (∑ a, M i a * ∫ x, φ a x * φ a' x * w x ∂μ + b i * ∫ x, φ a' x * w x ∂μ)
        + b j * (∑ a, M i a * ∫ x, φ a x * w x ∂μ + b i * ∫ x, w x ∂μ) := by
  simp only [readout_mul_readout]
  rw [integral_add (integrable_finsetSum _ fun a _ =>
      (integrable_readout_mul_feature M b h1 h2 i a).const_mul _)
      ((integrable_readout M b hw h1 i).const_mul _),
    integral_finsetSum _ fun a _ => (integrable_readout_mul_feature M b h1 h2 i a).const_mul _]
  simp only [integral_const_mul, integral_readout_mul_feature M b h1 h2, integral_readout M b hw h1]

theorem integral_lin4 {f1 f2 f3 f4 : X → ℝ} (i1 : Integrable f1 μ) (i2 : Integrable f2 μ)
    (i3 : Integrable f3 μ) (i4 : Integrable f4 μ) (a b c d : ℝ) :
    ∫ x, (a * f1 x + b * f2 x + c * f3 x + d * f4 x) ∂μ
      = a * ∫ x, f1 x ∂μ + b * ∫ x, f2 x ∂μ + c * ∫ x, f3 x ∂μ + d * ∫ x, f4 x ∂μ := by
  have e1 := integral_add (μ := μ) (f := fun x => a * f1 x + b * f2 x + c * f3 x)
    (g := fun x => d * f4 x) (((i1.const_mul a).add (i2.const_mul b)).add (i3.const_mul c))
    (i4.const_mul d)
  have e2 := integral_add (μ := μ) (f := fun x => a * f1 x + b * f2 x)
    (g := fun x => c * f3 x) ((i1.const_mul a).add (i2.const_mul b)) (i3.const_mul c)
  have e3 := integral_add (μ := μ) (f := fun x => a * f1 x)
    (g := fun x => b * f2 x) (i1.const_mul a) (i2.const_mul b)
  rw [e1, e2, e3]
  simp only [integral_const_mul]

theorem integral_add3 {f1 f2 f3 : X → ℝ} (i1 : Integrable f1 μ) (i2 : Integrable f2 μ)
    (i3 : Integrable f3 μ) :
    ∫ x, (f1 x + f2 x + f3 x) ∂μ = ∫ x, f1 x ∂μ + ∫ x, f2 x ∂μ + ∫ x, f3 x ∂μ := by
  have e1 := integral_add (μ := μ) (f := fun x => f1 x + f2 x) (g := fun x => f3 x) (i1.add i2) i3
  have e2 := integral_add (μ := μ) (f := fun x => f1 x) (g := fun x => f2 x) i1 i2
  rw [e1, e2]

/-- the covariance matrix of a read-out under a probability weight is positive semidefinite
(as a quadratic form) -/
theorem readout_cov_nonneg (hw0 : ∀ x, 0 ≤ w x) (hw : Integrable w μ) (hw1 : ∫ x, w x ∂μ = 1)
    (h1 : ∀ a, Integrable (fun x => φ a x * w x) μ)
    (h2 : ∀ a a', Integrable (fun x => φ a x * φ a' x * w x) μ) (v : Fin m → ℝ) :
    0 ≤ ∑ i, ∑ j, v i * v j *
      (∫ x, readout φ M b i x * readout φ M b j x * w x ∂μ
        - (∫ x, readout φ M b i x * w x ∂μ) * ∫ x, readout φ M b j x * w x ∂μ) := by
  set mi : Fin m → ℝ := fun i => ∫ x, readout φ M b i x * w x ∂μ with hmi
  have I1 := integrable_readout M b hw h1
  have I2 := integrable_readout_mul_readout M b hw h1 h2
  have key : ∀ x, (∑ i, v i * (readout φ M b i x - mi i)) ^ 2 * w x
      = ∑ i, ∑ j, (v i * v j * (readout φ M b i x * readout φ M b j x * w x)
          + -(v i * v j * mi j) * (readout φ M b i x * w x)
          + -(v i * v j * mi i) * (readout φ M b j x * w x)
          + v i * v j * mi i * mi j * w x) := by
    intro x
    rw [pow_two, Finset.sum_mul_sum, Finset.sum_mul]
    refine Finset.sum_congr rfl fun i _ => ?_
    rw [Finset.sum_mul]
    exact Finset.sum_congr rfl fun j _ => by ring
  have hnn : 0 ≤ ∫ x, (∑ i, v i * (readout φ M b i x - mi i)) ^ 2 * w x ∂μ :=
    integral_nonneg fun x => mul_nonneg (sq_nonneg _) (hw0 x)
  have J : ∀ i j, Integrable (fun x => v i * v j * (readout φ M b i x * readout φ M b j x * w x)
          + -(v i * v j * mi j) * (readout φ M b i x * w x)
          + -(v i * v j * mi i) * (readout φ M b j x * w x)
          + v i * v j * mi i * mi j * w x) μ := fun i j =>
    ((((I2 i j).const_mul _).add ((I1 i).const_mul _)).add ((I1 j).const_mul _)).add
      (hw.const_mul _)
  simp only [key] at hnn
  rw [integral_finsetSum _ fun i _ => integrable_finsetSum _ fun j _ => J i j] at hnn
  refine hnn.trans_eq (Finset.sum_congr rfl fun i _ => ?_)
  rw [integral_finsetSum _ fun j _ => J i j]
  refine Finset.sum_congr rfl fun j _ => ?_
  rw [integral_lin4 (I2 i j) (I1 i) (I1 j) hw, hw1]
  simp only [hmi]
  ring

end abstractTower

/-! ### Gaussian conditioning in covariance form = conditioning through the precision blocks -/

/-- for a joint covariance `J = [[Sxx, Cᵀ], [C, Syy]]` over `(x, y)` with precision `Λ = J⁻¹`:
`Sxx − Cᵀ Syy⁻¹ C = Λxx⁻¹` and `Cᵀ Syy⁻¹ = −Λxx⁻¹ Λxy` -/
theorem cond_of_joint {m n : Nat} (J Λ : Matrix (Fin (m + n)) (Fin (m + n)) ℝ)
    (Sxx : Matrix (Fin m) (Fin m) ℝ) (C : Matrix (Fin n) (Fin m) ℝ) (Syy : Matrix (Fin n) (Fin n) ℝ)
    (hJ : J.submatrix finSumFinEquiv finSumFinEquiv = fromBlocks Sxx Cᵀ C Syy) (hΛJ : Λ * J = 1)
    (hSyy : Syy.det ≠ 0) (hLxx : (Λ.submatrix (Fin.castAdd n) (Fin.castAdd n)).det ≠ 0) :
    Sxx - Cᵀ * Syy⁻¹ * C = (Λ.submatrix (Fin.castAdd n) (Fin.castAdd n))⁻¹ ∧
    Cᵀ * Syy⁻¹ = -((Λ.submatrix (Fin.castAdd n) (Fin.castAdd n))⁻¹
      * Λ.submatrix (Fin.castAdd n) (Fin.natAdd m)) := by
  have hΛ' : Λ.submatrix finSumFinEquiv finSumFinEquiv
      = fromBlocks (Λ.submatrix (Fin.castAdd n) (Fin.castAdd n))
          (Λ.submatrix (Fin.castAdd n) (Fin.natAdd m))
          (Λ.submatrix (Fin.natAdd m) (Fin.castAdd n))
          (Λ.submatrix (Fin.natAdd m) (Fin.natAdd m)) := by
    ext (i | i) (j | j) <;> simp [finSumFinEquiv_apply_left, finSumFinEquiv_apply_right]
  have h : fromBlocks (Λ.submatrix (Fin.castAdd n) (Fin.castAdd n))
          (Λ.submatrix (Fin.castAdd n) (Fin.natAdd m))
          (Λ.submatrix (Fin.natAdd m) (Fin.castAdd n))
          (Λ.submatrix (Fin.natAdd m) (Fin.natAdd m)) * fromBlocks Sxx Cᵀ C Syy = 1 := by
    rw [← hΛ', ← hJ, Matrix.submatrix_mul_equiv, hΛJ, Matrix.submatrix_one_equiv]
  refine ⟨cond_cov_eq_inv_prec_block h hSyy, ?_⟩
  obtain ⟨-, h2, -, -⟩ := block_eqs_of_mul_eq_one h
  set Lxx := Λ.submatrix (Fin.castAdd n) (Fin.castAdd n)
  set Lxy := Λ.submatrix (Fin.castAdd n) (Fin.natAdd m)
  have hu : IsUnit Lxx.det := isUnit_iff_ne_zero.mpr hLxx
  have hv : IsUnit Syy.det := isUnit_iff_ne_zero.mpr hSyy
  have h2' : Lxx * Cᵀ = -(Lxy * Syy) := eq_neg_of_add_eq_zero_left h2
  have h3 : Cᵀ = -(Lxx⁻¹ * Lxy * Syy) := by
    have := congrArg (fun X => Lxx⁻¹ * X) h2'
    simp only [← Matrix.mul_assoc, Matrix.nonsing_inv_mul _ hu, Matrix.one_mul, Matrix.mul_neg] at this
    exact this
  rw [h3, Matrix.neg_mul, Matrix.mul_assoc (Lxx⁻¹ * Lxy), Matrix.mul_nonsing_inv _ hv, Matrix.mul_one]

/-! ### the objects of the statement -/

/-- the Gaussian argument `p(x)`: consistent caches and total mass one (what the density
constructor establishes, see `pdfInv_of_mkPdf`) -/
structure PdfInv (p : PdfV Rx Dx ℝ) : Prop where
  inv : p.toMeasure.Inv
  mass : ∀ r, ∫ x : Fin Dx → ℝ, Real.exp (p.evalLn r (ofV x)) = 1

/-- the density of component `r` of `p(x)` as a function -/
noncomputable def wgt (p : PdfV Rx Dx ℝ) (r : Fin Rx) (x : Fin Dx → ℝ) : ℝ :=
  Real.exp (p.evalLn r (ofV x))

/-- the feature vector at one point, as the object computes it (`evaluate_phi`) -/
noncomputable def phi (c : FeatCondB Dy Dx Dk ℝ) (a : Fin (Dx + Dk)) (x : Fin Dx → ℝ) : ℝ :=
  c.evaluatePhi (tab fun _ : Fin 1 => ofV x) 0 a

/-- the conditional mean at one point, as the object computes it (`get_conditional_mu`); by
`C16_condition_on_x` the object conditioned on `x` is `N(condMuAt x, Σ)` -/
noncomputable def condMuAt (c : FeatCondB Dy Dx Dk ℝ) (i : Fin Dy) (x : Fin Dx → ℝ) : ℝ :=
  c.condMu (tab fun _ : Fin 1 => ofV x) 0 i

theorem phi_castAdd (c : FeatCondB Dy Dx Dk ℝ) (i : Fin Dx) (x : Fin Dx → ℝ) :
    phi c (Fin.castAdd Dk i) x = x i := by
  simp only [phi, (C16_readout_phi c _ 0).1, tab_apply, ofV]

theorem phi_natAdd (c : FeatCondB Dy Dx Dk ℝ) (k : Fin Dk) (x : Fin Dx → ℝ) :
    phi c (Fin.natAdd Dx k) x = kern c k x := by
  simp only [phi, (C16_readout_phi c _ 0).2, tab_apply, toV_ofV]

theorem condMuAt_eq_readout (c : FeatCondB Dy Dx Dk ℝ) (i : Fin Dy) (x : Fin Dx → ℝ) :
    condMuAt c i x = readout (phi c) (fun i a => c.M 0 i a) (fun i => c.b 0 i) i x := by
  simp only [condMuAt, (C16_readout c _ 0 i).1, readout, phi]

/-- the batched `get_conditional_mu` is the pointwise function -/
theorem condMu_eq_condMuAt (c : FeatCondB Dy Dx Dk ℝ) (xs : Arr N (Vec Dx ℝ)) (n : Fin N)
    (i : Fin Dy) : c.condMu xs n i = condMuAt c i (toV (xs n)) := by
  simp only [condMuAt, FeatCondB.condMu, FeatCondB.evaluatePhi, tab_apply, ofV_toV]

/-- tower rule: `E[y] = ∫ μ(x) p(x) dx` -/
noncomputable def meanY (c : FeatCondB Dy Dx Dk ℝ) (p : PdfV Rx Dx ℝ) (r : Fin Rx) (i : Fin Dy) : ℝ :=
  ∫ x, condMuAt c i x * wgt p r x
/-- tower rule: `E[y yᵀ] = Σ + ∫ μ(x) μ(x)ᵀ p(x) dx` -/
noncomputable def momYY (c : FeatCondB Dy Dx Dk ℝ) (p : PdfV Rx Dx ℝ) (r : Fin Rx) (i j : Fin Dy) : ℝ :=
  c.Sigma 0 i j + ∫ x, condMuAt c i x * condMuAt c j x * wgt p r x
/-- tower rule: `E[y xᵀ] = ∫ μ(x) xᵀ p(x) dx` -/
noncomputable def momYX (c : FeatCondB Dy Dx Dk ℝ) (p : PdfV Rx Dx ℝ) (r : Fin Rx) (i : Fin Dy)
    (j : Fin Dx) : ℝ :=
  ∫ x, condMuAt c i x * x j * wgt p r x
/-- `E[x]` -/
noncomputable def meanX (p : PdfV Rx Dx ℝ) (r : Fin Rx) (j : Fin Dx) : ℝ := ∫ x, x j * wgt p r x
/-- `E[x xᵀ]` -/
noncomputable def momXX (p : PdfV Rx Dx ℝ) (r : Fin Rx) (i j : Fin Dx) : ℝ :=
  ∫ x, x i * x j * wgt p r x
/-- `Cov[y] = E[y yᵀ] − E[y] E[y]ᵀ` -/
noncomputable def covY (c : FeatCondB Dy Dx Dk ℝ) (p : PdfV Rx Dx ℝ) (r : Fin Rx) (i j : Fin Dy) : ℝ :=
  momYY c p r i j - meanY c p r i * meanY c p r j
/-- `Cov[y, x] = E[y xᵀ] − E[y] E[x]ᵀ` -/
noncomputable def covYX (c : FeatCondB Dy Dx Dk ℝ) (p : PdfV Rx Dx ℝ) (r : Fin Rx) (i : Fin Dy)
    (j : Fin Dx) : ℝ :=
  momYX c p r i j - meanY c p r i * meanX p r j
/-- `Cov[x] = E[x xᵀ] − E[x] E[x]ᵀ` -/
noncomputable def covX (p : PdfV Rx Dx ℝ) (r : Fin Rx) (i j : Fin Dx) : ℝ :=
  momXX p r i j - meanX p r i * meanX p r j

/-! ### integrability: Gaussian × (bounded kernels, coordinates) -/

theorem kFunc_ok {c : FeatCondB Dy Dx Dk ℝ} (hc : FeatOK c) : C04.FactorPSD c.kFunc := by
  rw [hc.kfunc]; exact kFunc_psd _

section integrability
variable (hbe : be.Spec) {p : PdfV Rx Dx ℝ} (hp : PdfInv p) {c : FeatCondB Dy Dx Dk ℝ}
  (hc : FeatOK c)
include hp

theorem integrable_wgt (r : Fin Rx) : Integrable (wgt p r) :=
  C03.integrable_mom0 hp.inv r

include hbe

theorem integrable_x (r : Fin Rx) (i : Fin Dx) : Integrable fun x => x i * wgt p r x := by
  have := (C03.mom1_aux hp.inv (C03.intView_spec hbe hp.inv)
    (getDefault none none : AffForm Rx Dx Dx ℝ) r i).1
  simpa only [C03.affFn_default, wgt, PdfV.evalLn] using this

theorem integrable_xx (r : Fin Rx) (i j : Fin Dx) : Integrable fun x => x i * x j * wgt p r x := by
  have := (C03.mom2_aux hp.inv (C03.intView_spec hbe hp.inv)
    (getDefault none none : AffForm Rx Dx Dx ℝ) (getDefault none none : AffForm Rx Dx Dx ℝ) r i j).1
  simpa only [C03.affFn_default, wgt, PdfV.evalLn] using this

include hc

theorem integrable_phi (r : Fin Rx) (a : Fin (Dx + Dk)) :
    Integrable fun x => phi c a x * wgt p r x := by
  refine Fin.addCases (fun i => ?_) (fun k => ?_) a
  · simp only [phi_castAdd]; exact integrable_x hbe hp r i
  · simp only [phi_natAdd]; exact integrable_k hbe hp.inv (kFunc_ok hc) r k

theorem integrable_phi2 (r : Fin Rx) (a a' : Fin (Dx + Dk)) :
    Integrable fun x => phi c a x * phi c a' x * wgt p r x := by
  refine Fin.addCases (fun i => ?_) (fun k => ?_) a <;>
    refine Fin.addCases (fun j => ?_) (fun l => ?_) a'
  · simp only [phi_castAdd]; exact integrable_xx hbe hp r i j
  · simp only [phi_castAdd, phi_natAdd]
    exact integrable_xk hbe hp.inv (kFunc_ok hc) r l i
  · simp only [phi_castAdd, phi_natAdd]
    have := integrable_xk hbe hp.inv (kFunc_ok hc) r k j
    refine this.congr (Filter.Eventually.of_forall fun x => ?_)
    simp only [kern, wgt, PdfV.evalLn]; ring
  · simp only [phi_natAdd]
    exact integrable_kk hbe hp.inv (kFunc_ok hc) r k l

end integrability

/-! ### the intermediate quantities of `get_expected_moments` / `get_expected_cross_terms` -/

/-- the view of `p_x` after `p_x.integrate(…)` -/
noncomputable def v0 (be : Backend ℝ) (p : PdfV Rx Dx ℝ) : IntV Rx Dx ℝ := (p.toMeasure.intView be).2
/-- the view of `p_k` -/
noncomputable def vk (be : Backend ℝ) (c : FeatCondB Dy Dx Dk ℝ) (p : PdfV Rx Dx ℝ) :
    IntV (Rx * Dk) Dx ℝ := ((pK be p.toMeasure c.kFunc).intView be).2
/-- the view of `p_kk` -/
noncomputable def vkk (be : Backend ℝ) (c : FeatCondB Dy Dx Dk ℝ) (p : PdfV Rx Dx ℝ) :
    IntV (Rx * Dk * Dk) Dx ℝ := ((pKK be p.toMeasure c.kFunc).intView be).2
/-- `Ef = (E[x], E[k(x)])` -/
noncomputable def mEf (be : Backend ℝ) (c : FeatCondB Dy Dx Dk ℝ) (p : PdfV Rx Dx ℝ) (r : Fin Rx) :
    Vec (Dx + Dk) ℝ :=
  vappend ((v0 be p).integrateX r) (tab fun k => (vk be c p).mass (flat r k))
/-- `Ekx = E[k(x) xᵀ]` -/
noncomputable def mEkx (be : Backend ℝ) (c : FeatCondB Dy Dx Dk ℝ) (p : PdfV Rx Dx ℝ) (r : Fin Rx) :
    Mat Dk Dx ℝ := tab2 fun k i => (vk be c p).integrateX (flat r k) i
/-- `Eff = E[φ(x) φ(x)ᵀ]` -/
noncomputable def mEff (be : Backend ℝ) (c : FeatCondB Dy Dx Dk ℝ) (p : PdfV Rx Dx ℝ) (r : Fin Rx) :
    Mat (Dx + Dk) (Dx + Dk) ℝ :=
  block ((v0 be p).integrateXXT r) (transpose (mEkx be c p r)) (mEkx be c p r)
    (tab2 fun k l => (vkk be c p).mass (flat (flat r k) l))
/-- `Efx = E[φ(x) xᵀ]` -/
noncomputable def mEfx (be : Backend ℝ) (c : FeatCondB Dy Dx Dk ℝ) (p : PdfV Rx Dx ℝ) (r : Fin Rx) :
    Mat (Dx + Dk) Dx ℝ :=
  tab fun a => match splitIdx a with
    | Sum.inl i => (v0 be p).integrateXXT r i
    | Sum.inr k => mEkx be c p r k

section modelSide
variable (hbe : be.Spec) {p : PdfV Rx Dx ℝ} (hp : PdfInv p) {c : FeatCondB Dy Dx Dk ℝ}
  (hc : FeatOK c)
include hbe hp hc

/-- `Ef` holds the expectations of the features -/
theorem mEf_spec (r : Fin Rx) (a : Fin (Dx + Dk)) :
    mEf be c p r a = ∫ x, phi c a x * wgt p r x := by
  refine Fin.addCases (fun i => ?_) (fun k => ?_) a
  · simp only [mEf, vappend_castAdd, phi_castAdd, v0, C03.C03_x hbe hp.inv, wgt, PdfV.evalLn]
  · simp only [mEf, vappend_natAdd, phi_natAdd, tab_apply, vk,
      C16_E_k hbe hp.inv (kFunc_ok hc), wgt, kern, PdfV.evalLn]

/-- `Eff` holds the second moments of the features -/
theorem mEff_spec (r : Fin Rx) (a a' : Fin (Dx + Dk)) :
    mEff be c p r a a' = ∫ x, phi c a x * phi c a' x * wgt p r x := by
  refine Fin.addCases (fun i => ?_) (fun k => ?_) a <;>
    refine Fin.addCases (fun j => ?_) (fun l => ?_) a'
  · simp only [mEff, block, tab_apply, splitIdx_castAdd, phi_castAdd, v0,
      C03.C03_xxT hbe hp.inv, wgt, PdfV.evalLn]
  · simp only [mEff, block, tab_apply, splitIdx_castAdd, splitIdx_natAdd, phi_castAdd, phi_natAdd,
      transpose_apply, mEkx, vk, C16_E_xk hbe hp.inv (kFunc_ok hc), wgt, kern, PdfV.evalLn]
  · simp only [mEff, block, tab_apply, splitIdx_castAdd, splitIdx_natAdd, phi_castAdd, phi_natAdd,
      mEkx, vk, C16_E_xk hbe hp.inv (kFunc_ok hc), wgt, kern, PdfV.evalLn]
    exact integral_congr_ae (Filter.Eventually.of_forall fun x => by ring)
  · simp only [mEff, block, tab_apply, splitIdx_natAdd, phi_natAdd, vkk,
      C16_E_kk hbe hp.inv (kFunc_ok hc), wgt, kern, PdfV.evalLn]

/-- `Efx` holds the cross moments of the features with `x` -/
theorem mEfx_spec (r : Fin Rx) (a : Fin (Dx + Dk)) (j : Fin Dx) :
    mEfx be c p r a j = ∫ x, phi c a x * phi c (Fin.castAdd Dk j) x * wgt p r x := by
  refine Fin.addCases (fun i => ?_) (fun k => ?_) a
  · simp only [mEfx, tab_apply, splitIdx_castAdd, phi_castAdd, v0,
      C03.C03_xxT hbe hp.inv, wgt, PdfV.evalLn]
  · simp only [mEfx, tab_apply, splitIdx_natAdd, phi_castAdd, phi_natAdd,
      mEkx, vk, C16_E_xk hbe hp.inv (kFunc_ok hc), wgt, kern, PdfV.evalLn]
    exact integral_congr_ae (Filter.Eventually.of_forall fun x => by ring)

/-- `E_p[k_j(x)]`, `E_p[x k_j(x)]`, `E_p[k_i(x) k_j(x)]` as the feature classes compute them -/
theorem C16_Ek_model (r : Fin Rx) (k : Fin Dk) :
    (vk be c p).mass (flat r k) = ∫ x, kern c k x * wgt p r x := by
  simp only [vk, C16_E_k hbe hp.inv (kFunc_ok hc), wgt, kern, PdfV.evalLn]

theorem C16_Ekx_model (r : Fin Rx) (k : Fin Dk) (i : Fin Dx) :
    (vk be c p).integrateX (flat r k) i = ∫ x, x i * kern c k x * wgt p r x := by
  simp only [vk, C16_E_xk hbe hp.inv (kFunc_ok hc), wgt, kern, PdfV.evalLn]

theorem C16_Ekk_model (r : Fin Rx) (k l : Fin Dk) :
    (vkk be c p).mass (flat (flat r k) l) = ∫ x, kern c k x * kern c l x * wgt p r x := by
  simp only [vkk, C16_E_kk hbe hp.inv (kFunc_ok hc), wgt, kern, PdfV.evalLn]

end modelSide

/-- `mu_y = M · Ef + b` (unfolding the model) -/
theorem expectedMoments_mean (c : FeatCondB Dy Dx Dk ℝ) (p : PdfV Rx Dx ℝ) (r : Fin Rx) (i : Fin Dy) :
    (c.expectedMoments be p).1 r i = ∑ a, c.M 0 i a * mEf be c p r a + c.b 0 i := by
  simp only [FeatCondB.expectedMoments, tab_apply, vadd_apply, mulVec_apply, mEf, v0, vk, pK]

/-- `M · Ef` -/
noncomputable def mMEf (be : Backend ℝ) (c : FeatCondB Dy Dx Dk ℝ) (p : PdfV Rx Dx ℝ) (r : Fin Rx)
    (i : Fin Dy) : ℝ := ∑ a, c.M 0 i a * mEf be c p r a

/-- the matrix `S4` of `get_expected_moments` before the final symmetrisation -/
noncomputable def mS4 (be : Backend ℝ) (c : FeatCondB Dy Dx Dk ℝ) (p : PdfV Rx Dx ℝ) (r : Fin Rx)
    (i j : Fin Dy) : ℝ :=
  c.Sigma 0 i j + (∑ l, c.M 0 i l * ∑ l', mEff be c p r l l' * c.M 0 j l')
    + (mMEf be c p r i * c.b 0 j + mMEf be c p r j * c.b 0 i) + c.b 0 j * c.b 0 i
    - (mMEf be c p r j + c.b 0 j) * (mMEf be c p r i + c.b 0 i)

/-- `Sigma_y = ½ (S4 + S4ᵀ)` (unfolding the model) -/
theorem expectedMoments_cov (c : FeatCondB Dy Dx Dk ℝ) (p : PdfV Rx Dx ℝ) (r : Fin Rx) (i j : Fin Dy) :
    (c.expectedMoments be p).2 r i j = 1 / 2 * (mS4 be c p r i j + mS4 be c p r j i) := by
  simp only [FeatCondB.expectedMoments, tab_apply, vadd_apply, mulVec_apply, madd_apply, mmul_apply,
    transpose_apply, half_real, mS4, mMEf, mEf, mEff, mEkx, v0, vk, vkk, pK, pKK]

/-- `E[y xᵀ] = M · Efx + b E[x]ᵀ` (unfolding the model) -/
theorem expectedCrossTerms_eq (c : FeatCondB Dy Dx Dk ℝ) (p : PdfV Rx Dx ℝ) (r : Fin Rx) (i : Fin Dy)
    (j : Fin Dx) :
    (c.expectedCrossTerms be p) r i j
      = ∑ a, c.M 0 i a * mEfx be c p r a j + c.b 0 i * (v0 be p).integrateX r j := by
  simp only [FeatCondB.expectedCrossTerms, tab_apply, mmul_apply, mEfx, mEkx, v0, vk, pK]
  rfl

/-! ### moment matching: the model returns the tower-rule moments -/

section momentMatching
variable (hbe : be.Spec) {p : PdfV Rx Dx ℝ} (hp : PdfInv p) {c : FeatCondB Dy Dx Dk ℝ}
  (hc : FeatOK c)

omit hbe in
/-- the view of a density argument is `(mass, p.mu, p.Sigma)` -/
theorem v0_mu_Sigma (be : Backend ℝ) (p : PdfV Rx Dx ℝ) :
    (v0 be p).mu = p.mu ∧ (v0 be p).Sigma = p.Sigma := by
  simp [v0, MeasureB.intView, MeasureB.integral, MeasureB.logIntegral, MeasureB.prepare,
    MeasureB.ensureLnZ, MeasureB.ensureMu, PdfV.toMeasure]

include hbe hp

theorem v0_mass (r : Fin Rx) : (v0 be p).mass r = 1 := by
  rw [v0, C03.C03_mass hbe hp.inv]; exact hp.mass r

/-- **the stored mean of `p(x)` is `E[x]`** -/
theorem C16_mean_x (r : Fin Rx) (j : Fin Dx) : p.mu r j = meanX p r j := by
  have h := C03.C03_x hbe hp.inv (be := be) r j
  simp only [IntV.integrateX, tab_apply] at h
  have hm := v0_mass hbe hp r
  simp only [v0] at hm
  rw [hm, one_mul, ← v0, (v0_mu_Sigma be p).1] at h
  simpa only [meanX, wgt, PdfV.evalLn] using h

/-- **the stored covariance of `p(x)` is `Cov[x]`** -/
theorem C16_cov_x (r : Fin Rx) (i j : Fin Dx) : p.Sigma r i j = covX p r i j := by
  have h := C03.C03_xxT hbe hp.inv (be := be) r i j
  simp only [IntV.integrateXXT, IntV.Exx, tab_apply, smulM_apply] at h
  have hm := v0_mass hbe hp r
  simp only [v0] at hm
  rw [hm, one_mul, ← v0, (v0_mu_Sigma be p).1, (v0_mu_Sigma be p).2] at h
  rw [covX, ← C16_mean_x hbe hp, ← C16_mean_x hbe hp, momXX]
  simp only [wgt, PdfV.evalLn]
  rw [← h]; ring

include hc

/-- **mean**: `get_expected_moments` returns `E[y] = ∫ μ(x) p(x) dx` -/
theorem C16_mean (r : Fin Rx) (i : Fin Dy) : (c.expectedMoments be p).1 r i = meanY c p r i := by
  rw [expectedMoments_mean, meanY]
  simp only [condMuAt_eq_readout]
  rw [integral_readout _ _ (integrable_wgt hp r) (integrable_phi hbe hp hc r)]
  have hm : ∫ x, wgt p r x = 1 := hp.mass r
  simp only [mEf_spec hbe hp hc, hm, mul_one]

theorem mMEf_eq (r : Fin Rx) (i : Fin Dy) : mMEf be c p r i + c.b 0 i = meanY c p r i := by
  rw [← C16_mean hbe hp hc, expectedMoments_mean, mMEf]

/-- the matrix before symmetrisation already is the covariance -/
theorem mS4_eq (r : Fin Rx) (i j : Fin Dy) : mS4 be c p r i j = covY c p r i j := by
  rw [covY, momYY, ← mMEf_eq hbe hp hc, ← mMEf_eq hbe hp hc]
  simp only [condMuAt_eq_readout]
  rw [integral_readout_mul_readout _ _ (integrable_wgt hp r) (integrable_phi hbe hp hc r)
    (integrable_phi2 hbe hp hc r)]
  have hm : ∫ x, wgt p r x = 1 := hp.mass r
  simp only [← mEf_spec hbe hp hc, ← mEff_spec hbe hp hc, hm, mul_one]
  have hswap : ∑ l, c.M 0 i l * ∑ l', mEff be c p r l l' * c.M 0 j l'
      = ∑ a', c.M 0 j a' * ∑ a, c.M 0 i a * mEff be c p r a a' := by
    simp only [Finset.mul_sum]
    rw [Finset.sum_comm]
    exact Finset.sum_congr rfl fun a' _ => Finset.sum_congr rfl fun a _ => by ring
  have hsplit : ∑ a', c.M 0 j a' * (∑ a, c.M 0 i a * mEff be c p r a a' + c.b 0 i * mEf be c p r a')
      = (∑ a', c.M 0 j a' * ∑ a, c.M 0 i a * mEff be c p r a a') + c.b 0 i * mMEf be c p r j := by
    simp only [mul_add, Finset.sum_add_distrib, mMEf, Finset.mul_sum]
    congr 1
    exact Finset.sum_congr rfl fun a _ => by ring
  rw [mS4, hswap, hsplit]
  simp only [mMEf]
  ring

omit hbe hp hc in
/-- the tower-rule covariance is symmetric (for a symmetric `Σ`) -/
theorem covY_symm (hS : ∀ i j, c.Sigma 0 i j = c.Sigma 0 j i) (r : Fin Rx) (i j : Fin Dy) :
    covY c p r i j = covY c p r j i := by
  simp only [covY, momYY, hS i j]
  rw [mul_comm (meanY c p r i)]
  congr 2
  exact integral_congr_ae (Filter.Eventually.of_forall fun x => by ring)

omit hbe hp in
theorem Sigma_symm (i j : Fin Dy) : c.Sigma 0 i j = c.Sigma 0 j i := by
  have h : (toM (c.Sigma 0))ᵀ = toM (c.Sigma 0) := by
    rw [← Matrix.conjTranspose_eq_transpose_of_trivial]; exact hc.posDef.isHermitian
  have := congrFun (congrFun h j) i
  simpa using this

/-- **covariance**: `get_expected_moments` returns `Cov[y] = E[y yᵀ] − E[y] E[y]ᵀ` with
`E[y yᵀ] = Σ + ∫ μ(x) μ(x)ᵀ p(x) dx`; the symmetrisation applied by the code changes nothing -/
theorem C16_cov (r : Fin Rx) (i j : Fin Dy) : (c.expectedMoments be p).2 r i j = covY c p r i j := by
  rw [expectedMoments_cov, mS4_eq hbe hp hc, mS4_eq hbe hp hc,
    covY_symm (Sigma_symm hc) r j i]
  ring

/-- **cross terms**: `get_expected_cross_terms` returns `E[y xᵀ] = ∫ μ(x) xᵀ p(x) dx` -/
theorem C16_cross (r : Fin Rx) (i : Fin Dy) (j : Fin Dx) :
    (c.expectedCrossTerms be p) r i j = momYX c p r i j := by
  rw [expectedCrossTerms_eq, momYX]
  have e : ∀ x : Fin Dx → ℝ, condMuAt c i x * x j * wgt p r x
      = readout (phi c) (fun i a => c.M 0 i a) (fun i => c.b 0 i) i x * phi c (Fin.castAdd Dk j) x
          * wgt p r x := by
    intro x; rw [condMuAt_eq_readout, phi_castAdd]
  simp only [e]
  rw [integral_readout_mul_feature _ _ (integrable_phi hbe hp hc r) (integrable_phi2 hbe hp hc r)]
  simp only [mEfx_spec hbe hp hc, phi_castAdd, v0, C03.C03_x hbe hp.inv, wgt, PdfV.evalLn]

/-- **cross-covariance**: `cov_yx = E[y xᵀ] − E[y] E[x]ᵀ` -/
theorem C16_cross_cov (r : Fin Rx) (i : Fin Dy) (j : Fin Dx) :
    featCovYX (c.expectedCrossTerms be p) (c.expectedMoments be p).1 p.mu r i j = covYX c p r i j := by
  simp only [featCovYX, tab_apply, C16_cross hbe hp hc, C16_mean hbe hp hc, C16_mean_x hbe hp, covYX]

/-! ### the three transformations -/

/-- the matched mean / covariances as arrays -/
noncomputable def meanYA (c : FeatCondB Dy Dx Dk ℝ) (p : PdfV Rx Dx ℝ) : Arr Rx (Vec Dy ℝ) :=
  tab2 fun r i => meanY c p r i
noncomputable def covYA (c : FeatCondB Dy Dx Dk ℝ) (p : PdfV Rx Dx ℝ) : Arr Rx (Mat Dy Dy ℝ) :=
  tab3 fun r i j => covY c p r i j
noncomputable def covYXA (c : FeatCondB Dy Dx Dk ℝ) (p : PdfV Rx Dx ℝ) : Arr Rx (Mat Dy Dx ℝ) :=
  tab3 fun r i j => covYX c p r i j
noncomputable def meanXA (p : PdfV Rx Dx ℝ) : Arr Rx (Vec Dx ℝ) := tab2 fun r j => meanX p r j
noncomputable def covXA (p : PdfV Rx Dx ℝ) : Arr Rx (Mat Dx Dx ℝ) := tab3 fun r i j => covX p r i j

theorem expectedMoments_fst_eq : (c.expectedMoments be p).1 = meanYA c p := by
  ext r i; simp only [meanYA, tab_apply]; exact C16_mean hbe hp hc r i

theorem expectedMoments_snd_eq : (c.expectedMoments be p).2 = covYA c p := by
  ext r i j; simp only [covYA, tab_apply]; exact C16_cov hbe hp hc r i j

theorem featCovYX_eq :
    featCovYX (c.expectedCrossTerms be p) (c.expectedMoments be p).1 p.mu = covYXA c p := by
  ext r i j; simp only [covYXA, tab_apply]; exact C16_cross_cov hbe hp hc r i j

omit hc in
theorem mu_eq : p.mu = meanXA p := by
  ext r j; simp only [meanXA, tab_apply]; exact C16_mean_x hbe hp r j

omit hc in
theorem Sigma_eq : p.Sigma = covXA p := by
  ext r i j; simp only [covXA, tab_apply]; exact C16_cov_x hbe hp r i j

/-- `Cov[y] − Σ = Cov[μ(x)]` is positive semidefinite, hence **the matched covariance is positive
definite**: the marginal transformation never leaves the domain of the density constructor -/
theorem covY_posDef (r : Fin Rx) : (toM (covYA c p r)).PosDef := by
  have hD : (toM (covYA c p r) - toM (c.Sigma 0)).PosSemidef := by
    refine Matrix.PosSemidef.of_dotProduct_mulVec_nonneg ?_ fun v => ?_
    · ext i j
      simp only [conjTranspose_apply, star_trivial, Matrix.sub_apply, toM_apply, covYA, tab_apply]
      rw [covY_symm (Sigma_symm hc) r j i, Sigma_symm hc j i]
    · have h := readout_cov_nonneg (φ := phi c) (w := wgt p r) (fun i a => c.M 0 i a)
        (fun i => c.b 0 i) (fun x => (Real.exp_pos _).le) (integrable_wgt hp r) (hp.mass r)
        (integrable_phi hbe hp hc r) (integrable_phi2 hbe hp hc r) v
      have hent : ∀ i j, (toM (covYA c p r) - toM (c.Sigma 0)) i j
          = (∫ x, readout (phi c) (fun i a => c.M 0 i a) (fun i => c.b 0 i) i x
                * readout (phi c) (fun i a => c.M 0 i a) (fun i => c.b 0 i) j x * wgt p r x)
            - (∫ x, readout (phi c) (fun i a => c.M 0 i a) (fun i => c.b 0 i) i x * wgt p r x)
              * ∫ x, readout (phi c) (fun i a => c.M 0 i a) (fun i => c.b 0 i) j x * wgt p r x := by
        intro i j
        simp only [Matrix.sub_apply, toM_apply, covYA, tab_apply, covY, momYY, meanY,
          condMuAt_eq_readout]
        ring
      refine h.trans_eq ?_
      simp only [dotProduct, Matrix.mulVec, star_trivial, hent, Finset.mul_sum]
      exact Finset.sum_congr rfl fun i _ => Finset.sum_congr rfl fun j _ => by ring
  have := hc.posDef.add_posSemidef hD
  simpa using this

theorem marginal_argsOK : C02.PdfArgsOK false (covYA c p) none none :=
  ⟨fun r => covY_posDef hbe hp hc r, by simp, by simp, by simp⟩

/-- **marginal transformation**: the density constructor applied to exactly the mean and
covariance of `y` under `p(y|x) p(x)` -/
theorem C16_marginal_params :
    c.affineMarginal be p = mkPdf be false (covYA c p) (meanYA c p) none none := by
  have h : c.affineMarginal be p
      = mkPdf be false (c.expectedMoments be p).2 (c.expectedMoments be p).1 none none := rfl
  rw [h, expectedMoments_fst_eq hbe hp hc, expectedMoments_snd_eq hbe hp hc]

/-- hence the marginal transformation evaluates to the normal density with the moments of `y` -/
theorem C16_marginal_evalLn (r : Fin Rx) (y : Fin Dy → ℝ) :
    (c.affineMarginal be p).evalLn r (ofV y)
      = normalLn (fun i => meanY c p r i) (Matrix.of fun i j => covY c p r i j)⁻¹
          (Real.log (Matrix.of fun i j => covY c p r i j).det) y := by
  rw [C16_marginal_params hbe hp hc, mkPdf_evalLn hbe _ _ _ _ _ (marginal_argsOK hbe hp hc)]
  have h1 : toM (covYA c p r) = Matrix.of fun i j => covY c p r i j := by
    ext i j; simp [covYA]
  have h2 : toV (meanYA c p r) = fun i => meanY c p r i := by
    ext i; simp [meanYA]
  rw [h1, h2]

/-- the joint moments `(E[x], E[y])`, `[[Cov x, Cov(y,x)ᵀ], [Cov(y,x), Cov y]]` as arrays -/
noncomputable def jointMuA (c : FeatCondB Dy Dx Dk ℝ) (p : PdfV Rx Dx ℝ) : Arr Rx (Vec (Dx + Dy) ℝ) :=
  tab fun r => vappend (meanXA p r) (meanYA c p r)
noncomputable def jointSigA (c : FeatCondB Dy Dx Dk ℝ) (p : PdfV Rx Dx ℝ) :
    Arr Rx (Mat (Dx + Dy) (Dx + Dy) ℝ) :=
  tab fun r => block (covXA p r) (transpose (covYXA c p r)) (covYXA c p r) (covYA c p r)

/-- `(x, μ(x))` as one read-out of the features -/
noncomputable def Mext (c : FeatCondB Dy Dx Dk ℝ) (e : Fin (Dx + Dy)) (a : Fin (Dx + Dk)) : ℝ :=
  Fin.addCases (motive := fun _ => ℝ) (fun j => if a = Fin.castAdd Dk j then 1 else 0)
    (fun i => c.M 0 i a) e
noncomputable def bext (c : FeatCondB Dy Dx Dk ℝ) (e : Fin (Dx + Dy)) : ℝ :=
  Fin.addCases (motive := fun _ => ℝ) (fun _ => 0) (fun i => c.b 0 i) e
noncomputable def rho (c : FeatCondB Dy Dx Dk ℝ) (e : Fin (Dx + Dy)) (x : Fin Dx → ℝ) : ℝ :=
  readout (phi c) (Mext c) (bext c) e x

omit hbe hp hc in
theorem rho_castAdd (j : Fin Dx) (x : Fin Dx → ℝ) : rho c (Fin.castAdd Dy j) x = x j := by
  simp only [rho, readout, Mext, bext, Fin.addCases_left, ite_mul, one_mul, zero_mul,
    Finset.sum_ite_eq', Finset.sum_ite_eq, Finset.mem_univ, if_true, add_zero, phi_castAdd]

omit hbe hp hc in
theorem rho_natAdd (i : Fin Dy) (x : Fin Dx → ℝ) : rho c (Fin.natAdd Dx i) x = condMuAt c i x := by
  simp only [rho, readout, Mext, bext, Fin.addCases_right, condMuAt_eq_readout]

/-- covariance of the extended read-out -/
noncomputable def Rext (c : FeatCondB Dy Dx Dk ℝ) (p : PdfV Rx Dx ℝ) (r : Fin Rx)
    (e e' : Fin (Dx + Dy)) : ℝ :=
  (∫ x, rho c e x * rho c e' x * wgt p r x)
    - (∫ x, rho c e x * wgt p r x) * ∫ x, rho c e' x * wgt p r x
/-- the noise covariance placed in the `y` block -/
noncomputable def Bext (c : FeatCondB Dy Dx Dk ℝ) (e e' : Fin (Dx + Dy)) : ℝ :=
  Fin.addCases (motive := fun _ => ℝ) (fun _ => 0)
    (fun i => Fin.addCases (motive := fun _ => ℝ) (fun _ => 0) (fun i' => c.Sigma 0 i i') e') e

omit hbe hp hc in
/-- the joint covariance is the covariance of `(x, μ(x))` plus the noise in the `y` block -/
theorem jointSig_entry (r : Fin Rx) (e e' : Fin (Dx + Dy)) :
    jointSigA c p r e e' = Rext c p r e e' + Bext c e e' := by
  refine Fin.addCases (fun i => ?_) (fun i => ?_) e <;>
    refine Fin.addCases (fun j => ?_) (fun j => ?_) e'
  · simp only [jointSigA, tab_apply, block, splitIdx_castAdd, Rext, Bext, Fin.addCases_left,
      rho_castAdd, covXA, covX, momXX, meanX, add_zero]
  · have hcomm : ∀ x : Fin Dx → ℝ, x i * condMuAt c j x * wgt p r x
        = condMuAt c j x * x i * wgt p r x := fun x => by ring
    simp only [jointSigA, tab_apply, block, splitIdx_castAdd, splitIdx_natAdd, Rext, Bext,
      Fin.addCases_left, Fin.addCases_right, rho_castAdd, rho_natAdd, transpose_apply, covYXA,
      covYX, momYX, meanX, meanY, add_zero, hcomm]
    ring
  · simp only [jointSigA, tab_apply, block, splitIdx_castAdd, splitIdx_natAdd, Rext, Bext,
      Fin.addCases_left, Fin.addCases_right, rho_castAdd, rho_natAdd, covYXA,
      covYX, momYX, meanX, meanY, add_zero]
  · simp only [jointSigA, tab_apply, block, splitIdx_natAdd, Rext, Bext,
      Fin.addCases_right, rho_natAdd, covYA, covY, momYY, meanY]
    ring

omit hbe hc in
/-- the covariance stored in a consistent density is positive definite -/
theorem pSigma_posDef (r : Fin Rx) : (toM (p.Sigma r)).PosDef := by
  have h := hp.inv.cov ⟨p.Sigma, p.lnDetSigma⟩ rfl r
  rw [h.inv]
  exact (hp.inv.posDef r).inv

/-- **the matched joint covariance is positive definite** -/
theorem jointSig_posDef (r : Fin Rx) : (toM (jointSigA c p r)).PosDef := by
  have hRsymm : ∀ e e', Rext c p r e e' = Rext c p r e' e := by
    intro e e'
    simp only [Rext]
    rw [mul_comm (∫ x, rho c e x * wgt p r x)]
    congr 1
    exact integral_congr_ae (Filter.Eventually.of_forall fun x => by ring)
  have hBsymm : ∀ e e', Bext c e e' = Bext c e' e := by
    intro e e'
    refine Fin.addCases (fun i => ?_) (fun i => ?_) e <;>
      refine Fin.addCases (fun j => ?_) (fun j => ?_) e' <;>
      simp only [Bext, Fin.addCases_left, Fin.addCases_right]
    exact Sigma_symm hc i j
  refine Matrix.PosDef.of_dotProduct_mulVec_pos ?_ fun z hz => ?_
  · ext e e'
    simp only [conjTranspose_apply, star_trivial, toM_apply, jointSig_entry]
    rw [hRsymm, hBsymm]
  · by_cases hv : ∀ i, z (Fin.natAdd Dx i) = 0
    · -- only the `x` block contributes
      have hu : (fun j => z (Fin.castAdd Dy j)) ≠ 0 := by
        intro h0
        apply hz
        ext e
        refine Fin.addCases (fun j => ?_) (fun i => ?_) e
        · exact congrFun h0 j
        · exact hv i
      have hpos := (pSigma_posDef hp r).dotProduct_mulVec_pos hu
      refine hpos.trans_eq ?_
      simp only [dotProduct, Matrix.mulVec, star_trivial, toM_apply, Fin.sum_univ_add, hv, mul_zero,
        zero_mul, Finset.sum_const_zero, add_zero]
      refine Finset.sum_congr rfl fun i _ => ?_
      congr 1
      refine Finset.sum_congr rfl fun j _ => ?_
      simp only [jointSigA, tab_apply, block, splitIdx_castAdd, ← Sigma_eq hbe hp]
    · -- the noise covariance makes it strictly positive
      have hv' : (fun i => z (Fin.natAdd Dx i)) ≠ 0 := by
        intro h0; exact hv fun i => congrFun h0 i
      have hpos := hc.posDef.dotProduct_mulVec_pos hv'
      have hR := readout_cov_nonneg (φ := phi c) (w := wgt p r) (Mext c) (bext c)
        (fun x => (Real.exp_pos _).le) (integrable_wgt hp r) (hp.mass r)
        (integrable_phi hbe hp hc r) (integrable_phi2 hbe hp hc r) z
      have hQ : star z ⬝ᵥ (toM (jointSigA c p r) *ᵥ z)
          = (∑ e, ∑ e', z e * z e' * Rext c p r e e')
            + star (fun i => z (Fin.natAdd Dx i)) ⬝ᵥ (toM (c.Sigma 0) *ᵥ fun i => z (Fin.natAdd Dx i)) := by
        have h1 : star z ⬝ᵥ (toM (jointSigA c p r) *ᵥ z)
            = (∑ e, ∑ e', z e * z e' * Rext c p r e e') + ∑ e, ∑ e', z e * z e' * Bext c e e' := by
          simp only [dotProduct, Matrix.mulVec, star_trivial, toM_apply, jointSig_entry,
            Finset.mul_sum, ← Finset.sum_add_distrib]
          exact Finset.sum_congr rfl fun e _ => Finset.sum_congr rfl fun e' _ => by ring
        rw [h1]
        congr 1
        simp only [dotProduct, Matrix.mulVec, star_trivial, toM_apply, Fin.sum_univ_add, Bext,
          Fin.addCases_left, Fin.addCases_right, mul_zero, Finset.sum_const_zero, zero_add,
          Finset.mul_sum]
        exact Finset.sum_congr rfl fun i _ => Finset.sum_congr rfl fun j _ => by ring
      rw [hQ]
      exact add_pos_of_nonneg_of_pos hR hpos

theorem joint_argsOK : C02.PdfArgsOK false (jointSigA c p) none none :=
  ⟨fun r => jointSig_posDef hbe hp hc r, by simp, by simp, by simp⟩

/-- **joint transformation**: mean `(E[x], E[y])`, covariance
`[[Cov x, Cov(y,x)ᵀ], [Cov(y,x), Cov y]]` (`x` first) -/
theorem C16_joint_params :
    c.affineJoint be p = mkPdf be false (jointSigA c p) (jointMuA c p) none none := by
  have h : c.affineJoint be p = mkPdf be false
      (tab fun r => block (p.Sigma r)
        (transpose (featCovYX (c.expectedCrossTerms be p) (c.expectedMoments be p).1 p.mu r))
        (featCovYX (c.expectedCrossTerms be p) (c.expectedMoments be p).1 p.mu r)
        ((c.expectedMoments be p).2 r))
      (tab fun r => vappend (p.mu r) ((c.expectedMoments be p).1 r)) none none := rfl
  rw [h, featCovYX_eq hbe hp hc, expectedMoments_fst_eq hbe hp hc,
    expectedMoments_snd_eq hbe hp hc, jointSigA, jointMuA, ← mu_eq hbe hp, ← Sigma_eq hbe hp]

/-- hence the joint transformation evaluates to the normal density with these moments -/
theorem C16_joint_evalLn (r : Fin Rx) (z : Fin (Dx + Dy) → ℝ) :
    (c.affineJoint be p).evalLn r (ofV z)
      = normalLn (toV (jointMuA c p r)) (toM (jointSigA c p r))⁻¹
          (Real.log (toM (jointSigA c p r)).det) z := by
  rw [C16_joint_params hbe hp hc, mkPdf_evalLn hbe _ _ _ _ _ (joint_argsOK hbe hp hc)]

/-! ### the conditional transformation -/

/-- the Gaussian conditional `p(x|y)` of the matched joint in covariance form:
`M = Cov(y,x)ᵀ Cov(y)⁻¹`, `b = E[x] − M E[y]`, `Σ = Cov(x) − M Cov(y,x)` (symmetrised as the code
does) -/
noncomputable def condMnA (be : Backend ℝ) (c : FeatCondB Dy Dx Dk ℝ) (p : PdfV Rx Dx ℝ) :
    Arr Rx (Mat Dx Dy ℝ) :=
  tab fun r => mmul (transpose (covYXA c p r)) ((invertBatch be false (covYA c p)).1 r)
noncomputable def condbnA (be : Backend ℝ) (c : FeatCondB Dy Dx Dk ℝ) (p : PdfV Rx Dx ℝ) :
    Arr Rx (Vec Dx ℝ) :=
  tab fun r => vsub (meanXA p r) (mulVec (condMnA be c p r) (meanYA c p r))
noncomputable def condSnA (be : Backend ℝ) (c : FeatCondB Dy Dx Dk ℝ) (p : PdfV Rx Dx ℝ) :
    Arr Rx (Mat Dx Dx ℝ) :=
  tab fun r => tab2 fun i j =>
    half * (msub (covXA p r) (mmul (condMnA be c p r) (covYXA c p r)) i j
      + msub (covXA p r) (mmul (condMnA be c p r) (covYXA c p r)) j i)

omit hbe hp hc in
/-- `affine_conditional_transformation` spelled out (unfolding the model) -/
theorem affineConditional_eq (c : FeatCondB Dy Dx Dk ℝ) (p : PdfV Rx Dx ℝ) :
    c.affineConditional be p =
      (let muY := (c.expectedMoments be p).1
       let LamY := (invertBatch be false (c.expectedMoments be p).2).1
       let cov := featCovYX (c.expectedCrossTerms be p) muY p.mu
       let Mn : Arr Rx (Mat Dx Dy ℝ) := tab fun r => mmul (transpose (cov r)) (LamY r)
       let bn : Arr Rx (Vec Dx ℝ) := tab fun r => vsub (p.mu r) (mulVec (Mn r) (muY r))
       let Sn : Arr Rx (Mat Dx Dx ℝ) := tab fun r =>
         tab2 fun i j => half * (msub (p.Sigma r) (mmul (Mn r) (cov r)) i j
           + msub (p.Sigma r) (mmul (Mn r) (cov r)) j i)
       some ⟨false, Mn, bn, Sn, (invertBatch be false Sn).1, (invertBatch be false Sn).2⟩) := rfl

/-- **conditional transformation, parameters**: the conditional returned is built from the matched
moments only -/
theorem C16_conditional_params :
    c.affineConditional be p = some ⟨false, condMnA be c p, condbnA be c p, condSnA be c p,
      (invertBatch be false (condSnA be c p)).1, (invertBatch be false (condSnA be c p)).2⟩ := by
  rw [affineConditional_eq]
  simp only [featCovYX_eq hbe hp hc]
  simp only [expectedMoments_fst_eq hbe hp hc, expectedMoments_snd_eq hbe hp hc]
  simp only [mu_eq hbe hp, Sigma_eq hbe hp]
  simp only [condMnA, condbnA, condSnA]

/-- **conditional transformation**: it is `condition_on_explicit` (`x` given `y`) of the matched
joint: the covariance-form formulae of the code agree, field by field, with the conditional the
density class computes from the joint's precision blocks -/
theorem C16_conditional_is_condition_on_joint :
    ∃ j : PdfV Rx (Dx + Dy) ℝ, (c.affineJoint be p).asPdf = some j ∧ PdfFullOK j ∧
      j.mu = jointMuA c p ∧ j.Sigma = jointSigA c p ∧
      c.affineConditional be p
        = some (j.conditionOnExplicit be (Fin.natAdd Dx) (Fin.castAdd Dy)) := by
  obtain ⟨j, hj⟩ := mkPdf_asPdf_isSome be false (jointSigA c p) (jointMuA c p) none none
  have hjok : PdfFullOK j := mkPdf_pdfOK hbe _ _ _ _ _ (joint_argsOK hbe hp hc) hj
  obtain ⟨hjS, hjmu⟩ := mkPdf_asPdf_sigma_mu be _ _ _ _ _ hj
  refine ⟨j, by rw [C16_joint_params hbe hp hc]; exact hj, hjok, hjmu, hjS, ?_⟩
  set cnd := j.conditionOnExplicit be (Fin.natAdd Dx) (Fin.castAdd Dy) with hcnd
  -- the per-component facts
  have key : ∀ r, toM (condMnA be c p r) = toM (cnd.M r) ∧ toV (condbnA be c p r) = toV (cnd.b r) ∧
      toM (condSnA be c p r) = toM (cnd.Sigma r) ∧ (toM (cnd.Sigma r)).PosDef ∧
      (toM (cnd.Sigma r))⁻¹ = toM (cnd.Lambda r) ∧
      cnd.lnDetSigma r = Real.log (toM (cnd.Sigma r)).det := by
    intro r
    obtain ⟨hLxxPD, hL, hS, hld, hM, hb⟩ := C06.C06_cond_params hbe j hjok (Fin.natAdd Dx)
      (Fin.castAdd Dy) (Fin.castAdd_injective _ _) r
    rw [← hcnd] at hL hS hld hM hb
    set Λ := toM (j.Lambda r) with hΛ
    set J := toM (jointSigA c p r) with hJdef
    have hJPD : J.PosDef := jointSig_posDef hbe hp hc r
    have hΛeq : Λ = J⁻¹ := by rw [hΛ, hjok.lambda r, hjS]
    have hΛJ : Λ * J = 1 := by rw [hΛeq]; exact Matrix.nonsing_inv_mul _ hJPD.det_pos.ne'.isUnit
    have hJb : J.submatrix finSumFinEquiv finSumFinEquiv
        = fromBlocks (toM (covXA p r)) (toM (covYXA c p r))ᵀ (toM (covYXA c p r))
            (toM (covYA c p r)) := by
      rw [hJdef, jointSigA, tab_apply, ← toM_transpose, fromBlocks_toM]
    have hSyyPD := covY_posDef hbe hp hc r
    obtain ⟨hcov, hMM⟩ := cond_of_joint J Λ _ _ _ hJb hΛJ hSyyPD.det_pos.ne' hLxxPD.det_pos.ne'
    have hLamY : toM ((invertBatch be false (covYA c p)).1 r) = (toM (covYA c p r))⁻¹ :=
      (invertBatch_spec hbe false _ (fun r => covY_posDef hbe hp hc r) (by simp) r).1
    have hMn : toM (condMnA be c p r) = (toM (covYXA c p r))ᵀ * (toM (covYA c p r))⁻¹ := by
      simp only [condMnA, tab_apply, toM_mmul, toM_transpose, hLamY]
    have hSinvPD : ((Λ.submatrix (Fin.castAdd Dy) (Fin.castAdd Dy))⁻¹).PosDef := hLxxPD.inv
    have hSsym : ((Λ.submatrix (Fin.castAdd Dy) (Fin.castAdd Dy))⁻¹)ᵀ
        = (Λ.submatrix (Fin.castAdd Dy) (Fin.castAdd Dy))⁻¹ := by
      rw [← Matrix.conjTranspose_eq_transpose_of_trivial]; exact hSinvPD.isHermitian
    have hS0 : toM (msub (covXA p r) (mmul (condMnA be c p r) (covYXA c p r)))
        = (Λ.submatrix (Fin.castAdd Dy) (Fin.castAdd Dy))⁻¹ := by
      rw [toM_msub, toM_mmul, hMn, hcov]
    have hSn : toM (condSnA be c p r) = (Λ.submatrix (Fin.castAdd Dy) (Fin.castAdd Dy))⁻¹ := by
      rw [← hS0]
      ext i k
      have hsym := congrFun (congrFun hSsym i) k
      rw [← hS0] at hsym
      simp only [Matrix.transpose_apply, toM_apply] at hsym
      simp only [condSnA, tab_apply, toM_apply, half_real, hsym]
      ring
    refine ⟨?_, ?_, ?_, ?_, ?_, hld⟩
    · rw [hMn, hMM, hM]
    · rw [hb]
      have h1 : toV (j.mu r) ∘ Fin.castAdd Dy = toV (meanXA p r) := by
        funext i; simp [hjmu, jointMuA]
      have h2 : toV (j.mu r) ∘ Fin.natAdd Dx = toV (meanYA c p r) := by
        funext i; simp [hjmu, jointMuA]
      simp only [condbnA, tab_apply, toV_vsub, toV_mulVec, hMn, hMM, h1, h2, Matrix.neg_mulVec,
        sub_neg_eq_add]
    · rw [hSn, hS]
    · rw [hS]; exact hSinvPD
    · rw [hS, hL, Matrix.nonsing_inv_nonsing_inv _ hLxxPD.det_pos.ne'.isUnit]
  have hSnPD : ∀ r, (toM (condSnA be c p r)).PosDef := fun r => by
    rw [(key r).2.2.1]; exact (key r).2.2.2.1
  rw [C16_conditional_params hbe hp hc]
  have heta : cnd = ⟨cnd.diag, cnd.M, cnd.b, cnd.Sigma, cnd.Lambda, cnd.lnDetSigma⟩ := rfl
  rw [heta]
  simp only [Option.some.injEq, CondB.mk.injEq]
  refine ⟨rfl, ?_, ?_, ?_, ?_, ?_⟩
  · ext r : 1; exact toM_injective (key r).1
  · ext r : 1; exact toV_injective (key r).2.1
  · ext r : 1; exact toM_injective (key r).2.2.1
  · ext r : 1
    apply toM_injective
    rw [(invertBatch_spec hbe false _ hSnPD (by simp) r).1, (key r).2.2.1, (key r).2.2.2.2.1]
  · ext r : 1
    rw [(invertBatch_spec hbe false _ hSnPD (by simp) r).2, (key r).2.2.1, (key r).2.2.2.2.2]

end momentMatching

/-! ## the hypotheses are what the constructors establish; non-vacuity -/

section nonvacuity
variable {R D : Nat}

/-- the view of a consistent object is again consistent when used as the argument `p_x` -/
theorem toMeasure_inv {m : MeasureB R D ℝ} (hm : m.Inv) {p : PdfV R D ℝ} (hp : m.asPdf = some p) :
    p.toMeasure.Inv ∧ ∀ r x, p.evalLn r x = m.evalLn r x := by
  unfold MeasureB.asPdf at hp
  cases hcv : m.cov with
  | none => simp [hcv] at hp
  | some cv =>
    cases hmu : m.mu with
    | none => simp [hcv, hmu] at hp
    | some mu =>
      cases hz : m.lnZ with
      | none => simp [hcv, hmu, hz] at hp
      | some z =>
        simp only [hcv, hmu, hz, Option.some.injEq] at hp
        subst hp
        refine ⟨⟨hm.posDef, ?_, ?_, by simp [PdfV.toMeasure], ?_, ?_, by simp [PdfV.toMeasure],
          by simp [PdfV.toMeasure]⟩, fun r x => rfl⟩
        · intro hd
          apply hm.diagOK
          cases hcl : m.cls <;> simp_all [PdfV.toMeasure, MCls.isDiag]
        · intro c' hc' r
          simp only [PdfV.toMeasure, Option.some.injEq] at hc'
          subst hc'
          exact hm.cov cv hcv r
        · intro mu' hmu' r
          simp only [PdfV.toMeasure, Option.some.injEq] at hmu'
          subst hmu'
          exact hm.mu mu hmu r
        · intro z' hz' r
          simp only [PdfV.toMeasure, Option.some.injEq] at hz'
          subst hz'
          exact hm.lnZ z hz r

/-- **every density built by the constructor is an admissible argument `p_x`** -/
theorem pdfInv_of_mkPdf (hbe : be.Spec) (diag : Bool) (Sigma : Arr R (Mat D D ℝ))
    (mu : Arr R (Vec D ℝ)) (Lambda : Option (Arr R (Mat D D ℝ))) (lnDetSigma : Option (Arr R ℝ))
    (h : C02.PdfArgsOK diag Sigma Lambda lnDetSigma) {p : PdfV R D ℝ}
    (hp : (mkPdf be diag Sigma mu Lambda lnDetSigma).asPdf = some p) : PdfInv p := by
  obtain ⟨h1, h2⟩ := toMeasure_inv (C02.mkPdf_inv hbe diag Sigma mu Lambda lnDetSigma h) hp
  refine ⟨h1, fun r => ?_⟩
  simp only [h2]
  exact C02.C02_density_integrates_to_one hbe diag Sigma mu Lambda lnDetSigma h r

/-- **the constructor of both feature classes establishes `FeatOK`** (called with a covariance) -/
theorem mkFeatCond_ok (hbe : be.Spec) (M : Arr 1 (Mat Dy (Dx + Dk) ℝ)) (b : Option (Arr 1 (Vec Dy ℝ)))
    (kernel : FeatKernel Dk Dx ℝ) (S : Arr 1 (Mat Dy Dy ℝ)) (hS : ∀ r, (toM (S r)).PosDef) :
    ∃ c, mkFeatCond be M b kernel (some S) none none = some c ∧ FeatOK c ∧ c.M = M ∧
      c.kernel = kernel ∧ c.Sigma = S ∧ c.b = b.getD (tab fun _ => zeroV) := by
  refine ⟨⟨M, b.getD (tab fun _ => zeroV), S, (invertBatch be false S).1, (invertBatch be false S).2,
    kernel, kernel.kFunc⟩, by simp [mkFeatCond, condCovInit], ⟨hS 0, ?_, ?_, rfl⟩, rfl, rfl, rfl, rfl⟩
  · exact (invertBatch_spec hbe false S hS (by simp) 0).1
  · exact (invertBatch_spec hbe false S hS (by simp) 0).2

/-- `update_phi()` and `update_Sigma` keep the object well formed -/
theorem updatePhi_ok {c : FeatCondB Dy Dx Dk ℝ} (hc : FeatOK c) : FeatOK c.updatePhi :=
  ⟨hc.posDef, hc.lambda, hc.lnDet, rfl⟩

end nonvacuity

/-! ### the tower-rule moments are iterated integrals against the object's own `condition_on_x` -/

section iterated
variable (hbe : be.Spec) {p : PdfV Rx Dx ℝ} (hp : PdfInv p) {c : FeatCondB Dy Dx Dk ℝ}
  (hc : FeatOK c)
include hbe hp hc

/-- the density `p(y|x)` the object returns when conditioned on the single point `x` -/
noncomputable def condDens (be : Backend ℝ) (c : FeatCondB Dy Dx Dk ℝ) (x : Fin Dx → ℝ)
    (y : Fin Dy → ℝ) : ℝ :=
  Real.exp ((c.conditionOnX be (tab fun _ : Fin 1 => ofV x)).evalLn 0 (ofV y))

/-- `E[y]`, `E[y yᵀ]`, `E[y xᵀ]` as defined above are the iterated integrals
`∫ (∫ g(x,y) p(y|x) dy) p(x) dx` with `p(y|x)` the object's own `condition_on_x` -/
theorem C16_tower_iterated (r : Fin Rx) :
    (∀ i, meanY c p r i = ∫ x, (∫ y, y i * condDens be c x y) * wgt p r x) ∧
    (∀ i j, momYY c p r i j = ∫ x, (∫ y, y i * y j * condDens be c x y) * wgt p r x) ∧
    (∀ i j, momYX c p r i j = ∫ x, (∫ y, y i * condDens be c x y) * x j * wgt p r x) := by
  have h1 : ∀ x i, ∫ y, y i * condDens be c x y = condMuAt c i x := fun x i =>
    (C16_inner_moments hbe c hc (tab fun _ : Fin 1 => ofV x) 0).1 i
  have h2 : ∀ x i j, ∫ y, y i * y j * condDens be c x y
      = c.Sigma 0 i j + condMuAt c i x * condMuAt c j x := fun x i j =>
    (C16_inner_moments hbe c hc (tab fun _ : Fin 1 => ofV x) 0).2 i j
  refine ⟨fun i => ?_, fun i j => ?_, fun i j => ?_⟩
  · simp only [meanY, h1]
  · have hI : Integrable (fun x => condMuAt c i x * condMuAt c j x * wgt p r x) := by
      simp only [condMuAt_eq_readout]
      exact integrable_readout_mul_readout _ _ (integrable_wgt hp r) (integrable_phi hbe hp hc r)
        (integrable_phi2 hbe hp hc r) i j
    have hm : ∫ x, wgt p r x = 1 := hp.mass r
    simp only [momYY, h2, add_mul]
    rw [integral_add ((integrable_wgt hp r).const_mul _) hI, integral_const_mul, hm, mul_one]
  · simp only [momYX, h1]

end iterated

/-! ## non-vacuity -/

/-- For **every** kernel of either class (one kernel on `ℝ²`, arbitrary real parameters), the
contract-satisfying backend `Backend.sat`, a read-out with non-zero weights and offset, a
non-diagonal noise covariance and the density `p(x) = N((1,−1), [[2,1],[1,2]])`: the objects exist,
satisfy the hypotheses, and the conclusions of the main theorems hold for them. -/
example (kernel : FeatKernel 1 2 ℝ) :
    ∃ (c : FeatCondB 2 2 1 ℝ) (p : PdfV 1 2 ℝ), Backend.sat.Spec ∧ FeatOK c ∧ PdfInv p ∧
      c.kernel = kernel ∧ c.b 0 0 = 1 ∧ p.mu 0 0 = 1 ∧
      (∀ i, (c.expectedMoments Backend.sat p).1 0 i = meanY c p 0 i) ∧
      (∀ i j, (c.expectedMoments Backend.sat p).2 0 i j = covY c p 0 i j) ∧
      (∀ i j, (c.expectedCrossTerms Backend.sat p) 0 i j = momYX c p 0 i j) ∧
      (toM (covYA c p 0)).PosDef ∧ (toM (jointSigA c p 0)).PosDef ∧
      c.affineMarginal Backend.sat p = mkPdf Backend.sat false (covYA c p) (meanYA c p) none none ∧
      ∃ j : PdfV 1 (2 + 2) ℝ, (c.affineJoint Backend.sat p).asPdf = some j ∧
        c.affineConditional Backend.sat p
          = some (j.conditionOnExplicit Backend.sat (Fin.natAdd 2) (Fin.castAdd 2)) := by
  have hbe := Backend.sat_spec
  have hS : ∀ r : Fin 1, (toM ((tab fun _ : Fin 1 => ofM !![2, 1; 1, 2]) r)).PosDef := fun r => by
    simp only [tab_apply, toM_ofM]; exact posDef_two_one
  obtain ⟨c, -, hc, -, hker, -, hb⟩ := mkFeatCond_ok hbe
    (tab fun _ : Fin 1 => (ofM !![1, 2, 3; 0, -1, 1] : Mat 2 (2 + 1) ℝ))
    (some (tab fun _ => ofV ![1, 2])) kernel _ hS
  have hargs : C02.PdfArgsOK false (tab fun _ : Fin 1 => ofM !![2, 1; 1, 2]) none none :=
    ⟨hS, by simp, by simp, by simp⟩
  obtain ⟨p, hp⟩ := mkPdf_asPdf_isSome Backend.sat false (tab fun _ : Fin 1 => ofM !![2, 1; 1, 2])
    (tab fun _ => ofV ![1, -1]) none none
  have hpi : PdfInv p := pdfInv_of_mkPdf hbe _ _ _ _ _ hargs hp
  obtain ⟨-, hmu⟩ := mkPdf_asPdf_sigma_mu Backend.sat _ _ _ _ _ hp
  obtain ⟨j, hj, -, -, -, hcond⟩ := C16_conditional_is_condition_on_joint hbe hpi hc
  refine ⟨c, p, hbe, hc, hpi, hker, ?_, ?_, fun i => C16_mean hbe hpi hc 0 i,
    fun i j => C16_cov hbe hpi hc 0 i j, fun i j => C16_cross hbe hpi hc 0 i j,
    covY_posDef hbe hpi hc 0, jointSig_posDef hbe hpi hc 0, C16_marginal_params hbe hpi hc,
    j, hj, hcond⟩
  · rw [hb]; simp [ofV]
  · rw [hmu]; simp [ofV]

/-! ## 5. heteroscedastic classes (exp and cosh−1 links; any number of components of `p(x)`) -/

section hetero
variable {Da R : Nat}

/-- the pre-activation `h_k(x) = w_k ⬝ x + w0_k` -/
noncomputable def hLin (c : HeteroB Dy Dx Da Dk ℝ) (k : Fin Dk) (x : Fin Dx → ℝ) : ℝ :=
  ∑ j, c.wMat k j * x j + c.w0 k

/-- the conditional mean `M x + b` at one point, as the object computes it -/
noncomputable def hetMu (c : HeteroB Dy Dx Da Dk ℝ) (i : Fin Dy) (x : Fin Dx → ℝ) : ℝ :=
  c.condMu (tab fun _ : Fin 1 => ofV x) 0 i

/-- the conditional covariance `Σ + Σ_k A_k link(h_k(x)) A_kᵀ` at one point, as the object computes
it (`get_conditional_cov(x, invert=False)`) -/
noncomputable def hetCov (c : HeteroB Dy Dx Da Dk ℝ) (ops : HLinkOps ℝ) (i j : Fin Dy)
    (x : Fin Dx → ℝ) : ℝ :=
  c.conditionalCov ops (tab fun _ : Fin 1 => ofV x) 0 i j

theorem linearLayer_eq (c : HeteroB Dy Dx Da Dk ℝ) (xs : Arr N (Vec Dx ℝ)) (n : Fin N) (k : Fin Dk) :
    c.linearLayer xs n k = hLin c k (toV (xs n)) := by
  simp only [HeteroB.linearLayer, hLin, tab_apply, vsum_real, toV_apply]

theorem hetMu_eq (c : HeteroB Dy Dx Da Dk ℝ) (i : Fin Dy) (x : Fin Dx → ℝ) :
    hetMu c i x = (toM (c.M 0) *ᵥ x + toV (c.b 0)) i := by
  simp only [hetMu, HeteroB.condMu, tab_apply, vadd_apply, mulVec_apply, ofV, Pi.add_apply,
    Matrix.mulVec, dotProduct, toM_apply, toV_apply]

theorem hetCov_eq (c : HeteroB Dy Dx Da Dk ℝ) (ops : HLinkOps ℝ) (i j : Fin Dy) (x : Fin Dx → ℝ) :
    hetCov c ops i j x
      = c.Sigma 0 i j + ∑ k, c.Ak i k * c.Ak j k * ops.linkFunction (hLin c k x) := by
  simp only [hetCov, HeteroB.conditionalCov, HeteroB.covOfD, tab_apply, vsum_real, linearLayer_eq,
    toV_ofV]
  congr 1
  exact Finset.sum_congr rfl fun k _ => by ring

/-- tower rule for the heteroscedastic object -/
noncomputable def hMeanY (c : HeteroB Dy Dx Da Dk ℝ) (p : PdfV R Dx ℝ) (r : Fin R) (i : Fin Dy) : ℝ :=
  ∫ x, hetMu c i x * wgt p r x
noncomputable def hMomYY (c : HeteroB Dy Dx Da Dk ℝ) (ops : HLinkOps ℝ) (p : PdfV R Dx ℝ) (r : Fin R)
    (i j : Fin Dy) : ℝ :=
  ∫ x, (hetCov c ops i j x + hetMu c i x * hetMu c j x) * wgt p r x
noncomputable def hMomYX (c : HeteroB Dy Dx Da Dk ℝ) (p : PdfV R Dx ℝ) (r : Fin R) (i : Fin Dy)
    (j : Fin Dx) : ℝ :=
  ∫ x, hetMu c i x * x j * wgt p r x

/-- what a link class has to deliver: `_integrate_noise_diagonal` is `E_p[link(h_k(x))]` -/
def NoiseOK (ops : HLinkOps ℝ) (be : Backend ℝ) (c : HeteroB Dy Dx Da Dk ℝ) (p : PdfV R Dx ℝ) : Prop :=
  ∀ r k, Integrable (fun x => ops.linkFunction (hLin c k x) * wgt p r x) ∧
    ops.integrateNoiseDiagonal be c p (flat r k) = ∫ x, ops.linkFunction (hLin c k x) * wgt p r x

theorem linear_evalLn {K : Nat} (nu : Arr K (Vec Dx ℝ)) (lb : Arr K ℝ) (k : Fin K) (x : Fin Dx → ℝ) :
    (Factor.linear nu lb).evalLn k (ofV x) = ∑ j, nu k j * x j + lb k := by
  simp only [Factor.evalLn, Factor.toB, C01.evalLn_real, tab_apply, zeroM_apply, zero_mul,
    Finset.sum_const_zero, mul_zero, neg_zero, zero_add, ofV]
  congr 1
  exact Finset.sum_congr rfl fun j _ => mul_comm _ _

section noise
variable (hbe : be.Spec) {p : PdfV R Dx ℝ} (hp : PdfInv p) (c : HeteroB Dy Dx Da Dk ℝ)
include hbe hp

/-- product of `p(x)` with a batch of exponential-linear factors: mass = `∫ exp(ν_k⬝x + β_k) p` -/
theorem linear_mass {K : Nat} (nu : Arr K (Vec Dx ℝ)) (lb : Arr K ℝ) (r : Fin R) (k : Fin K) :
    Integrable (fun x => Real.exp (∑ j, nu k j * x j + lb k) * wgt p r x) ∧
    ((p.toMeasure.multiply be (.linear nu lb) true).integral be).2 (flat r k)
      = ∫ x, Real.exp (∑ j, nu k j * x j + lb k) * wgt p r x := by
  have hf : C04.FactorPSD (Factor.linear nu lb) := by
    intro r; simp only [Factor.toB, tab_apply, toM_zeroM]; exact Matrix.PosSemidef.zero
  have hInv := C04.C04_multiply hbe p.toMeasure (.linear nu lb) true hp.inv hf
  have e : ∀ x : Fin Dx → ℝ,
      Real.exp ((p.toMeasure.multiply be (.linear nu lb) true).evalLn (flat r k) (ofV x))
        = Real.exp (∑ j, nu k j * x j + lb k) * wgt p r x := by
    intro x
    rw [C01.C01_multiply_layout, Real.exp_add, linear_evalLn, mul_comm]
    rfl
  constructor
  · have := C03.integrable_mom0 hInv (flat r k)
    simpa only [e] using this
  · rw [C02.C02_integral hbe hInv]
    simp only [e]

/-- **exp link**: `_integrate_noise_diagonal = E_p[exp h_k(x)]` -/
theorem noiseOK_exp : NoiseOK expOps be c p := by
  intro r k
  have := linear_mass hbe hp c.wMat c.w0 r k
  exact this

/-- **cosh−1 link**: `_integrate_noise_diagonal = E_p[cosh h_k(x) − 1]` -/
theorem noiseOK_cosh : NoiseOK coshM1Ops be c p := by
  intro r k
  obtain ⟨i1, e1⟩ := linear_mass hbe hp c.wMat (tab fun k => c.w0 k - log2) r k
  obtain ⟨i2, e2⟩ := linear_mass hbe hp (tab fun k => vneg (c.wMat k))
    (tab fun k => -(c.w0 k) - log2) r k
  have hlog2 : (log2 : ℝ) = Real.log 2 := by simp [log2]
  have key : ∀ x : Fin Dx → ℝ, (Real.cosh (hLin c k x) - 1) * wgt p r x
      = Real.exp (∑ j, c.wMat k j * x j + (tab fun k => c.w0 k - log2) k) * wgt p r x
        + Real.exp (∑ j, (tab fun k => vneg (c.wMat k)) k j * x j
            + (tab fun k => -(c.w0 k) - log2) k) * wgt p r x
        - wgt p r x := by
    intro x
    have h1 : ∑ j, c.wMat k j * x j + (tab fun k => c.w0 k - log2) k = hLin c k x - Real.log 2 := by
      simp only [tab_apply, hLin, hlog2]; ring
    have h2 : ∑ j, (tab fun k => vneg (c.wMat k)) k j * x j + (tab fun k => -(c.w0 k) - log2) k
        = -hLin c k x - Real.log 2 := by
      simp only [tab_apply, vneg_apply, hLin, hlog2, neg_mul, Finset.sum_neg_distrib]; ring
    rw [h1, h2, Real.exp_sub, Real.exp_sub, Real.exp_log (by norm_num : (0 : ℝ) < 2), Real.cosh_eq]
    ring
  have hlink : ∀ x : Fin Dx → ℝ, coshM1Ops.linkFunction (hLin c k x) = Real.cosh (hLin c k x) - 1 :=
    fun x => rfl
  simp only [hlink, key]
  refine ⟨(i1.add i2).sub (integrable_wgt hp r), ?_⟩
  have hA := integral_add (μ := volume)
    (f := fun x => Real.exp (∑ j, c.wMat k j * x j + (tab fun k => c.w0 k - log2) k) * wgt p r x)
    (g := fun x => Real.exp (∑ j, (tab fun k => vneg (c.wMat k)) k j * x j
            + (tab fun k => -(c.w0 k) - log2) k) * wgt p r x) i1 i2
  have hI := integral_sub (μ := volume)
    (f := fun x => Real.exp (∑ j, c.wMat k j * x j + (tab fun k => c.w0 k - log2) k) * wgt p r x
      + Real.exp (∑ j, (tab fun k => vneg (c.wMat k)) k j * x j
            + (tab fun k => -(c.w0 k) - log2) k) * wgt p r x)
    (g := fun x => wgt p r x) (i1.add i2) (integrable_wgt hp r)
  have hm : ∫ x, wgt p r x = 1 := hp.mass r
  rw [hI, hA, hm, ← e1, ← e2]
  simp only [coshM1Ops, coshIntegrateNoiseDiagonal, tab_apply]

end noise

/-- a well-formed heteroscedastic object: symmetric base covariance (`Σ = A Aᵀ` by construction) -/
def HetOK (c : HeteroB Dy Dx Da Dk ℝ) : Prop := ∀ i j, c.Sigma 0 i j = c.Sigma 0 j i

theorem mkHetero_ok (M : Arr 1 (Mat Dy Dx ℝ)) (b : Arr 1 (Vec Dy ℝ)) (A : Arr 1 (Mat Dy Da ℝ))
    (W : Mat Dk (Dx + 1) ℝ) (hy : Dy ≤ Da) (hk : Dk ≤ Da) : HetOK (mkHetero be M b A W hy hk) := by
  intro i j
  simp only [mkHetero, tab_apply, mmul_apply, transpose_apply]
  exact Finset.sum_congr rfl fun l _ => mul_comm _ _

section hetMoments
variable (hbe : be.Spec) {p : PdfV R Dx ℝ} (hp : PdfInv p) (c : HeteroB Dy Dx Da Dk ℝ)
  (ops : HLinkOps ℝ)
include hbe hp

theorem integrable_hetMu2 (r : Fin R) (i j : Fin Dy) :
    Integrable fun x => hetMu c i x * hetMu c j x * wgt p r x := by
  have := (C03.mom2_aux hp.inv (C03.intView_spec hbe hp.inv) (c.meanForm : AffForm R Dy Dx ℝ)
    (c.meanForm : AffForm R Dy Dx ℝ) r i j).1
  simpa only [C03.affFn, HeteroB.meanForm, tab_apply, ← hetMu_eq, wgt, PdfV.evalLn] using this

/-- **mean** (all link classes, any batch of `p(x)`): `mu_y = E[M x + b] = ∫ μ(x) p(x) dx` -/
theorem C16_hetero_mean (r : Fin R) (i : Fin Dy) :
    (c.getExpectedMoments ops be p).1 r i = hMeanY c p r i := by
  have h := C03.C03_linear hbe hp.inv (be := be) (c.meanForm : AffForm R Dy Dx ℝ) r i
  have hm := v0_mass hbe hp r
  simp only [v0] at hm
  simp only [IntV.integrateLinear, IntV.aff, HeteroB.meanForm, tab_apply, smulV_apply, vadd_apply,
    mulVec_apply, hm, one_mul] at h
  rw [show (p.toMeasure.intView be).2 = v0 be p from rfl, (v0_mu_Sigma be p).1] at h
  simp only [hMeanY, hetMu_eq, wgt, PdfV.evalLn, ← h]
  simp only [HeteroB.getExpectedMoments, HeteroB.condMu, tab_apply, vadd_apply, mulVec_apply]

/-- **cross terms**: `E[y xᵀ] = ∫ μ(x) xᵀ p(x) dx` -/
theorem C16_hetero_cross (r : Fin R) (i : Fin Dy) (j : Fin Dx) :
    (c.getExpectedCrossTerms be p) r i j = hMomYX c p r i j := by
  have h := C03.C03_quad_outer hbe hp.inv (be := be) (c.meanForm : AffForm R Dy Dx ℝ)
    (getDefault none none : AffForm R Dx Dx ℝ) r i j
  simp only [C03.affFn_def] at h
  simp only [C03.affFn_default] at h
  simp only [C03.affFn, HeteroB.meanForm, tab_apply] at h
  simp only [hMomYX, hetMu_eq, wgt, PdfV.evalLn, ← h, HeteroB.getExpectedCrossTerms,
    HeteroB.meanForm]

variable {c ops}

/-- second moment of `y` under the tower rule, split by linearity -/
theorem hMomYY_eq (hN : NoiseOK ops be c p) (r : Fin R) (i j : Fin Dy) :
    hMomYY c ops p r i j = c.Sigma 0 i j
      + (∑ k, c.Ak i k * c.Ak j k * ∫ x, ops.linkFunction (hLin c k x) * wgt p r x)
      + ∫ x, hetMu c i x * hetMu c j x * wgt p r x := by
  have e : ∀ x : Fin Dx → ℝ, (hetCov c ops i j x + hetMu c i x * hetMu c j x) * wgt p r x
      = c.Sigma 0 i j * wgt p r x
        + ∑ k, c.Ak i k * c.Ak j k * (ops.linkFunction (hLin c k x) * wgt p r x)
        + hetMu c i x * hetMu c j x * wgt p r x := by
    intro x
    rw [hetCov_eq, add_mul, add_mul, Finset.sum_mul]
    congr 2
    exact Finset.sum_congr rfl fun k _ => by ring
  have hm : ∫ x, wgt p r x = 1 := hp.mass r
  simp only [hMomYY, e]
  rw [integral_add3 ((integrable_wgt hp r).const_mul _)
      (integrable_finsetSum _ fun k _ => ((hN r k).1).const_mul _) (integrable_hetMu2 hbe hp c r i j),
    integral_const_mul, hm, mul_one, integral_finsetSum _ fun k _ => ((hN r k).1).const_mul _]
  simp only [integral_const_mul]

end hetMoments

section hetCovariance
variable (hbe : be.Spec) {p : PdfV R Dx ℝ} (hp : PdfInv p) {c : HeteroB Dy Dx Da Dk ℝ}
  (hc : HetOK c) {ops : HLinkOps ℝ} (hN : NoiseOK ops be c p)
include hbe hp hc hN

/-- **covariance** (any number `R` of components of `p(x)`, component `r`; any link class whose
`_integrate_noise_diagonal` is the expected link value): `Sigma_y = E[y yᵀ] − E[y] E[y]ᵀ` with
`E[y yᵀ] = ∫ (Σ_y(x) + μ(x) μ(x)ᵀ) p_r(x) dx`, `Σ_y(x) = get_conditional_cov(x)` -/
theorem C16_hetero_cov (r : Fin R) (i j : Fin Dy) :
    (c.getExpectedMoments ops be p).2 r i j
      = hMomYY c ops p r i j - hMeanY c p r i * hMeanY c p r j := by
  have hmu : ∀ i, c.condMu p.mu r i = hMeanY c p r i := fun i => C16_hetero_mean hbe hp c ops r i
  have hQ : ∀ i j, ((p.toMeasure.intView be).2.integrateQuadOuter
      (c.meanForm : AffForm R Dy Dx ℝ) (c.meanForm : AffForm R Dy Dx ℝ)) r i j
      = ∫ x, hetMu c i x * hetMu c j x * wgt p r x := by
    intro i j
    rw [C03.C03_quad_outer hbe hp.inv]
    simp only [HeteroB.meanForm, tab_apply, ← hetMu_eq, wgt, PdfV.evalLn]
  have hS : ∀ i l, (∑ k : Fin Dk, c.Ak i k
        * ops.integrateNoiseDiagonal be c p (flat r k) * c.Ak l k)
      = ∑ k, c.Ak i k * c.Ak l k * ∫ x, ops.linkFunction (hLin c k x) * wgt p r x := by
    intro i l
    refine Finset.sum_congr rfl fun k _ => ?_
    rw [(hN r k).2]
    ring
  have hsymQ : ∀ i j, ∫ x, hetMu c i x * hetMu c j x * wgt p r x
      = ∫ x, hetMu c j x * hetMu c i x * wgt p r x := fun i j =>
    integral_congr_ae (Filter.Eventually.of_forall fun x => by ring)
  have hsymS : ∀ i l, ∑ k, c.Ak i k * c.Ak l k * ∫ x, ops.linkFunction (hLin c k x) * wgt p r x
      = ∑ k, c.Ak l k * c.Ak i k * ∫ x, ops.linkFunction (hLin c k x) * wgt p r x := fun i l =>
    Finset.sum_congr rfl fun k _ => by ring
  rw [hMomYY_eq hbe hp hN]
  simp only [HeteroB.getExpectedMoments, HeteroB.integrateSigmaX, tab_apply, half_real, vsum_real,
    hmu, hQ, hS]
  rw [hsymQ j i, hsymS j i, hc j i]
  ring

/-- the matched moments as arrays -/
noncomputable def hMeanYA (c : HeteroB Dy Dx Da Dk ℝ) (p : PdfV R Dx ℝ) : Arr R (Vec Dy ℝ) :=
  tab2 fun r i => hMeanY c p r i
noncomputable def hCovYA (c : HeteroB Dy Dx Da Dk ℝ) (ops : HLinkOps ℝ) (p : PdfV R Dx ℝ) :
    Arr R (Mat Dy Dy ℝ) :=
  tab3 fun r i j => hMomYY c ops p r i j - hMeanY c p r i * hMeanY c p r j
noncomputable def hCovYXA (c : HeteroB Dy Dx Da Dk ℝ) (p : PdfV R Dx ℝ) : Arr R (Mat Dy Dx ℝ) :=
  tab3 fun r i j => hMomYX c p r i j - hMeanY c p r i * meanX p r j

omit hc hN in
theorem het_fst_eq : (c.getExpectedMoments ops be p).1 = hMeanYA c p := by
  ext r i; simp only [hMeanYA, tab_apply]; exact C16_hetero_mean hbe hp c ops r i

theorem het_snd_eq : (c.getExpectedMoments ops be p).2 = hCovYA c ops p := by
  ext r i j
  simp only [hCovYA, tab_apply]
  exact C16_hetero_cov hbe hp hc hN r i j

omit hc hN in
theorem het_covYX_eq :
    HeteroB.covYX (c.getExpectedCrossTerms be p) (c.getExpectedMoments ops be p).1 p = hCovYXA c p := by
  ext r i j
  simp only [HeteroB.covYX, hCovYXA, tab_apply, C16_hetero_cross hbe hp c, C16_hetero_mean hbe hp c ops,
    C16_mean_x hbe hp]

/-- **marginal transformation** of the heteroscedastic classes (any number of components of `p(x)`) -/
theorem C16_hetero_marginal_params :
    c.affineMarginal ops be p = mkPdf be false (hCovYA c ops p) (hMeanYA c p) none none := by
  have h : c.affineMarginal ops be p = mkPdf be false (c.getExpectedMoments ops be p).2
      (c.getExpectedMoments ops be p).1 none none := rfl
  rw [h, het_fst_eq hbe hp, het_snd_eq hbe hp hc hN]

/-- **joint transformation** of the heteroscedastic classes (any number of components of `p(x)`) -/
theorem C16_hetero_joint_params :
    c.affineJoint ops be p = mkPdf be false
      (tab fun r => block (covXA p r) (transpose (hCovYXA c p r)) (hCovYXA c p r) (hCovYA c ops p r))
      (tab fun r => vappend (meanXA p r) (hMeanYA c p r)) none none := by
  have h : c.affineJoint ops be p = mkPdf be false
      (tab fun r => block (p.Sigma r)
        (transpose (HeteroB.covYX (c.getExpectedCrossTerms be p) (c.getExpectedMoments ops be p).1 p r))
        (HeteroB.covYX (c.getExpectedCrossTerms be p) (c.getExpectedMoments ops be p).1 p r)
        ((c.getExpectedMoments ops be p).2 r))
      (tab fun r => vappend (p.mu r) ((c.getExpectedMoments ops be p).1 r)) none none := rfl
  rw [h, het_covYX_eq hbe hp, het_fst_eq hbe hp, het_snd_eq hbe hp hc hN,
    ← mu_eq hbe hp, ← Sigma_eq hbe hp]

/-- **conditional transformation** of the heteroscedastic classes (any number of components of
`p(x)`): the Gaussian conditional of the matched joint in covariance form,
`M = Cov(y,x)ᵀ Cov(y)⁻¹`, `b = E[x] − M E[y]`, `Σ = Cov(x) − M Cov(y,x)` -/
theorem C16_hetero_conditional_params :
    c.affineConditional ops be p =
      (let Mn : Arr R (Mat Dx Dy ℝ) := tab fun r =>
         mmul (transpose (hCovYXA c p r)) ((invertBatch be false (hCovYA c ops p)).1 r)
       let bn : Arr R (Vec Dx ℝ) := tab fun r => vsub (meanXA p r) (mulVec (Mn r) (hMeanYA c p r))
       let Sn : Arr R (Mat Dx Dx ℝ) := tab fun r => msub (covXA p r) (mmul (Mn r) (hCovYXA c p r))
       some ⟨false, Mn, bn, Sn, (invertBatch be false Sn).1, (invertBatch be false Sn).2⟩) := by
  have h : c.affineConditional ops be p =
      (let muY := (c.getExpectedMoments ops be p).1
       let cov := HeteroB.covYX (c.getExpectedCrossTerms be p) muY p
       let Mn : Arr R (Mat Dx Dy ℝ) := tab fun r =>
         mmul (transpose (cov r)) ((invertBatch be false (c.getExpectedMoments ops be p).2).1 r)
       let bn : Arr R (Vec Dx ℝ) := tab fun r => vsub (p.mu r) (mulVec (Mn r) (muY r))
       let Sn : Arr R (Mat Dx Dx ℝ) := tab fun r => msub (p.Sigma r) (mmul (Mn r) (cov r))
       some ⟨false, Mn, bn, Sn, (invertBatch be false Sn).1, (invertBatch be false Sn).2⟩) := rfl
  rw [h]
  simp only [het_covYX_eq hbe hp]
  simp only [het_fst_eq hbe hp, het_snd_eq hbe hp hc hN]
  simp only [mu_eq hbe hp, Sigma_eq hbe hp]

end hetCovariance

/-- non-vacuity for the heteroscedastic part: both link classes, a concrete object built by the
constructor, a **two-component** `p(x)` with components `N((1,−1), [[2,1],[1,2]])` and
`N((0,2), [[2,1],[1,2]])`; the covariance statement holds for both components -/
example : ∃ (c : HeteroB 2 2 2 1 ℝ) (p : PdfV 2 2 ℝ), Backend.sat.Spec ∧ HetOK c ∧ PdfInv p ∧
    c.A 0 0 1 = 1 ∧ p.mu 0 0 = 1 ∧ p.mu 1 0 = 0 ∧
    NoiseOK expOps Backend.sat c p ∧ NoiseOK coshM1Ops Backend.sat c p ∧
    (∀ r i j, (c.getExpectedMoments expOps Backend.sat p).2 r i j
      = hMomYY c expOps p r i j - hMeanY c p r i * hMeanY c p r j) ∧
    (∀ r i j, (c.getExpectedMoments coshM1Ops Backend.sat p).2 r i j
      = hMomYY c coshM1Ops p r i j - hMeanY c p r i * hMeanY c p r j) ∧
    c.affineMarginal expOps Backend.sat p
      = mkPdf Backend.sat false (hCovYA c expOps p) (hMeanYA c p) none none := by
  have hbe := Backend.sat_spec
  have hS : ∀ r : Fin 2, (toM ((tab fun _ : Fin 2 => ofM !![2, 1; 1, 2]) r)).PosDef := fun r => by
    simp only [tab_apply, toM_ofM]; exact posDef_two_one
  have hargs : C02.PdfArgsOK false (tab fun _ : Fin 2 => ofM !![2, 1; 1, 2]) none none :=
    ⟨hS, by simp, by simp, by simp⟩
  obtain ⟨p, hp⟩ := mkPdf_asPdf_isSome Backend.sat false (tab fun _ : Fin 2 => ofM !![2, 1; 1, 2])
    (tab fun r => if r = 0 then ofV ![1, -1] else ofV ![0, 2]) none none
  have hpi : PdfInv p := pdfInv_of_mkPdf hbe _ _ _ _ _ hargs hp
  obtain ⟨-, hmu⟩ := mkPdf_asPdf_sigma_mu Backend.sat _ _ _ _ _ hp
  let c : HeteroB 2 2 2 1 ℝ := mkHetero Backend.sat (tab fun _ => ofM !![1, 2; 0, -1])
    (tab fun _ => ofV ![1, 2]) (tab fun _ => ofM !![2, 1; 0, 1]) (tab fun _ => ofV ![1, 2, -1])
    (le_refl _) (by norm_num)
  have hc : HetOK c := mkHetero_ok _ _ _ _ _ _
  have h1 := noiseOK_exp hbe hpi c
  have h2 := noiseOK_cosh hbe hpi c
  refine ⟨c, p, hbe, hc, hpi, ?_, ?_, ?_, h1, h2, fun r i j => C16_hetero_cov hbe hpi hc h1 r i j,
    fun r i j => C16_hetero_cov hbe hpi hc h2 r i j, C16_hetero_marginal_params hbe hpi hc h1⟩
  · simp [c, mkHetero, ofM]
  · rw [hmu]; simp [ofV]
  · rw [hmu]; simp [ofV]

end hetero

end GT.Props.C16

section axioms
#print axioms GT.Props.C16.C16_rbf_kernel
#print axioms GT.Props.C16.C16_lsem_kernel
#print axioms GT.Props.C16.C16_unit_height_rbf
#print axioms GT.Props.C16.C16_unit_height_lsem
#print axioms GT.Props.C16.kFunc_psd
#print axioms GT.Props.C16.C16_readout_phi
#print axioms GT.Props.C16.C16_readout
#print axioms GT.Props.C16.C16_condition_on_x
#print axioms GT.Props.C16.C16_condition_on_x_mass
#print axioms GT.Props.C16.C16_inner_moments
#print axioms GT.Props.C16.C16_E_k
#print axioms GT.Props.C16.C16_E_xk
#print axioms GT.Props.C16.C16_E_kk
#print axioms GT.Props.C16.C16_Ek_model
#print axioms GT.Props.C16.C16_Ekx_model
#print axioms GT.Props.C16.C16_Ekk_model
#print axioms GT.Props.C16.C16_mean_x
#print axioms GT.Props.C16.C16_cov_x
#print axioms GT.Props.C16.C16_mean
#print axioms GT.Props.C16.C16_cov
#print axioms GT.Props.C16.C16_cross
#print axioms GT.Props.C16.C16_cross_cov
#print axioms GT.Props.C16.covY_posDef
#print axioms GT.Props.C16.jointSig_posDef
#print axioms GT.Props.C16.C16_marginal_params
#print axioms GT.Props.C16.C16_marginal_evalLn
#print axioms GT.Props.C16.C16_joint_params
#print axioms GT.Props.C16.C16_joint_evalLn
#print axioms GT.Props.C16.C16_conditional_params
#print axioms GT.Props.C16.C16_conditional_is_condition_on_joint
#print axioms GT.Props.C16.C16_tower_iterated
#print axioms GT.Props.C16.pdfInv_of_mkPdf
#print axioms GT.Props.C16.mkFeatCond_ok
#print axioms GT.Props.C16.noiseOK_exp
#print axioms GT.Props.C16.noiseOK_cosh
#print axioms GT.Props.C16.C16_hetero_mean
#print axioms GT.Props.C16.C16_hetero_cross
#print axioms GT.Props.C16.C16_hetero_cov
#print axioms GT.Props.C16.C16_hetero_marginal_params
#print axioms GT.Props.C16.C16_hetero_joint_params
#print axioms GT.Props.C16.C16_hetero_conditional_params
end axioms
