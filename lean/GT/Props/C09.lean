import GT.Bridge.PdfFullOK
import GT.Bridge.SpecSat
import GT.Props.C10
/-!
# C09 — `affine_conditional_transformation` is Bayes' rule

For a linear-Gaussian conditional `p(y|x) = N(y; M x + b, Σy)` (`c : CondB Rc Dy Dx ℝ`, well formed:
`C10.CondOK c`) and a prior `p(x) = N(x; μ, Σx)` (`p : PdfV Rx Dx ℝ`, well formed: `PdfFullOK p`), the
object `post := c.affineConditional be p` is the conditional `p(x|y)`:

* `C09_posterior_params` / `C09_posterior_condOK`: its parameters are
  `Λpost = Λx + MᵀΛyM` (positive definite), `Σpost = Λpost⁻¹`, `ln det Σpost`,
  `Mpost = Σpost MᵀΛy`, `bpost = Σpost (Λx μ − MᵀΛy b)`;
* `C09_bayes`: `ln p(x|y) + ln p(y) = ln p(y|x) + ln p(x)` for **all** points `x`, `y`, where
  `p(y) = N(M μ + b, Σy + M Σx Mᵀ)` is what `affine_marginal_transformation` returns;
* `C09_bayes_model`: the same in terms of the model objects (`condition_on_x`, `evaluate_ln`);
* `C09_round_trip`: conditioning back (`post` with the marginal `p(y)`) recovers `M`, `b`, `Σy`.

Component `k` of every result pairs conditional `unflatL k` with prior `unflatR k`.
-/
namespace GT.Props.C09
open GT Matrix

variable {Rc Rx Dy Dx : Nat}

/-! ## pure mathematics: likelihood × prior = joint -/

/-- `ln N(y; Mx+b, Σy) + ln N(x; μ, Σx)` is the joint log-density in block form
(joint precision `[[Λx + MᵀΛyM, −MᵀΛy], [−ΛyM, Λy]]`, joint covariance
`[[Σx, ΣxMᵀ], [MΣx, Σy + MΣxMᵀ]]`). -/
theorem normalLn_lik_add_prior (M : Matrix (Fin Dy) (Fin Dx) ℝ) (b : Fin Dy → ℝ) (μ : Fin Dx → ℝ)
    (Sx Lx : Matrix (Fin Dx) (Fin Dx) ℝ) (Sy Ly : Matrix (Fin Dy) (Fin Dy) ℝ)
    (hLy : Lyᵀ = Ly) (hSx : Sx.det ≠ 0) (hSy : Sy.det ≠ 0) (x : Fin Dx → ℝ) (y : Fin Dy → ℝ) :
    normalLn (M *ᵥ x + b) Ly (Real.log Sy.det) y + normalLn μ Lx (Real.log Sx.det) x =
      jointLn μ (M *ᵥ μ + b) (Lx + Mᵀ * Ly * M) (-(Mᵀ * Ly)) (-(Ly * M)) Ly
        (Real.log (fromBlocks Sx (Sx * Mᵀ) (M * Sx) (Sy + M * Sx * Mᵀ)).det) x y := by
  have hv : y - (M *ᵥ x + b) = (y - (M *ᵥ μ + b)) - M *ᵥ (x - μ) := by
    rw [Matrix.mulVec_sub]; abel
  have hT : Mᵀ * Ly = (Ly * M)ᵀ := by rw [Matrix.transpose_mul, hLy]
  have key : ∀ (u : Fin Dx → ℝ) (v : Fin Dy → ℝ),
      Sum.elim u v ⬝ᵥ fromBlocks (Lx + Mᵀ * Ly * M) (-(Mᵀ * Ly)) (-(Ly * M)) Ly *ᵥ Sum.elim u v
        = (v - M *ᵥ u) ⬝ᵥ Ly *ᵥ (v - M *ᵥ u) + u ⬝ᵥ Lx *ᵥ u := by
    intro u v
    have h1 : u ⬝ᵥ (Mᵀ * Ly) *ᵥ v = u ⬝ᵥ (v ᵥ* (Ly * M)) := by
      rw [hT, Matrix.mulVec_transpose]
    have h2 : v ⬝ᵥ (Ly * M) *ᵥ u = u ⬝ᵥ (v ᵥ* (Ly * M)) := by
      rw [Matrix.dotProduct_mulVec, dotProduct_comm]
    rw [C10.quad_expand Ly hLy M v u, Math.fromBlocks_quad]
    simp only [Matrix.add_mulVec, Matrix.neg_mulVec, dotProduct_add, dotProduct_neg, h1, h2]
    ring
  simp only [normalLn, jointLn]
  rw [hv, key, Math.joint_cov_det Sx Sy M hSx, Real.log_mul hSx hSy]
  ring

/-! ## the parameters computed by `affineConditional` -/

/-- the precision batch assembled by `affine_conditional_transformation` -/
def postLambda (c : CondB Rc Dy Dx ℝ) (p : PdfV Rx Dx ℝ) : Arr (Rc * Rx) (Mat Dx Dx ℝ) :=
  tab fun (k : Fin (Rc * Rx)) =>
    madd (p.Lambda (unflatR k))
      (mmul (transpose (c.M (unflatL k))) (mmul (transpose (c.Lambda (unflatL k))) (c.M (unflatL k))))

theorem affineConditional_Lambda (be : Backend ℝ) (c : CondB Rc Dy Dx ℝ) (p : PdfV Rx Dx ℝ) :
    (c.affineConditional be p).Lambda = postLambda c p := rfl

theorem affineConditional_Sigma (be : Backend ℝ) (c : CondB Rc Dy Dx ℝ) (p : PdfV Rx Dx ℝ) :
    (c.affineConditional be p).Sigma = (invertBatch be false (postLambda c p)).1 := rfl

theorem affineConditional_lnDetSigma (be : Backend ℝ) (c : CondB Rc Dy Dx ℝ) (p : PdfV Rx Dx ℝ) :
    (c.affineConditional be p).lnDetSigma = tab fun k => -((invertBatch be false (postLambda c p)).2 k) :=
  rfl

theorem affineConditional_M (be : Backend ℝ) (c : CondB Rc Dy Dx ℝ) (p : PdfV Rx Dx ℝ) :
    (c.affineConditional be p).M = tab fun k =>
      mmul ((c.affineConditional be p).Sigma k) (mmul (transpose (c.M (unflatL k))) (c.Lambda (unflatL k))) :=
  rfl

theorem affineConditional_b (be : Backend ℝ) (c : CondB Rc Dy Dx ℝ) (p : PdfV Rx Dx ℝ) :
    (c.affineConditional be p).b = tab fun k =>
      vadd (vneg (mulVec ((c.affineConditional be p).M k) (c.b (unflatL k))))
        (mulVec ((c.affineConditional be p).Sigma k) (p.nu (unflatR k))) :=
  rfl

/-- posterior precision `Λx + MᵀΛyM` of component `k` -/
noncomputable def postPrec (c : CondB Rc Dy Dx ℝ) (p : PdfV Rx Dx ℝ) (k : Fin (Rc * Rx)) :
    Matrix (Fin Dx) (Fin Dx) ℝ :=
  toM (p.Lambda (unflatR k))
    + (toM (c.M (unflatL k)))ᵀ * toM (c.Lambda (unflatL k)) * toM (c.M (unflatL k))

theorem condOK_lambda_posDef {R : Nat} {c : CondB R Dy Dx ℝ} (hc : C10.CondOK c) (r : Fin R) :
    (toM (c.Lambda r)).PosDef := by
  rw [hc.lambda r]; exact (hc.posDef r).inv

theorem condOK_lambda_symm {R : Nat} {c : CondB R Dy Dx ℝ} (hc : C10.CondOK c) (r : Fin R) :
    (toM (c.Lambda r))ᵀ = toM (c.Lambda r) := by
  rw [← Matrix.conjTranspose_eq_transpose_of_trivial]; exact (condOK_lambda_posDef hc r).isHermitian

theorem postPrec_posDef {c : CondB Rc Dy Dx ℝ} (hc : C10.CondOK c) {p : PdfV Rx Dx ℝ} (hp : PdfFullOK p)
    (k : Fin (Rc * Rx)) : (postPrec c p k).PosDef := by
  have h1 := (condOK_lambda_posDef hc (unflatL k)).posSemidef.conjTranspose_mul_mul_same
    (toM (c.M (unflatL k)))
  rw [Matrix.conjTranspose_eq_transpose_of_trivial] at h1
  exact (hp.lambda_posDef (unflatR k)).add_posSemidef h1

theorem toM_postLambda {c : CondB Rc Dy Dx ℝ} (hc : C10.CondOK c) (p : PdfV Rx Dx ℝ)
    (k : Fin (Rc * Rx)) : toM (postLambda c p k) = postPrec c p k := by
  simp only [postLambda, postPrec, tab_apply, toM_madd, toM_mmul, toM_transpose,
    condOK_lambda_symm hc, Matrix.mul_assoc]

variable {be : Backend ℝ} (hbe : be.Spec)
include hbe

/-- **C09 (a)**: the parameters of `post = affine_conditional_transformation(p)`, component `k`
(conditional `ci = unflatL k`, prior `xi = unflatR k`): precision `Λx + MᵀΛyM` (positive
definite), `Σpost = Λpost⁻¹`, `ln det Σpost`, `Mpost = Σpost MᵀΛy`,
`bpost = Σpost (Λx μ − MᵀΛy b)`. -/
theorem C09_posterior_params (c : CondB Rc Dy Dx ℝ) (hc : C10.CondOK c) (p : PdfV Rx Dx ℝ)
    (hp : PdfFullOK p) (k : Fin (Rc * Rx)) :
    (postPrec c p k).PosDef ∧
    toM ((c.affineConditional be p).Lambda k) = postPrec c p k ∧
    toM ((c.affineConditional be p).Sigma k) = (postPrec c p k)⁻¹ ∧
    (c.affineConditional be p).lnDetSigma k = Real.log (toM ((c.affineConditional be p).Sigma k)).det ∧
    toM ((c.affineConditional be p).M k) =
      toM ((c.affineConditional be p).Sigma k) * ((toM (c.M (unflatL k)))ᵀ * toM (c.Lambda (unflatL k))) ∧
    toV ((c.affineConditional be p).b k) =
      toM ((c.affineConditional be p).Sigma k) *ᵥ
        (toM (p.Lambda (unflatR k)) *ᵥ toV (p.mu (unflatR k))
          - ((toM (c.M (unflatL k)))ᵀ * toM (c.Lambda (unflatL k))) *ᵥ toV (c.b (unflatL k))) := by
  have hPD : ∀ k, (toM (postLambda c p k)).PosDef := fun k => by
    rw [toM_postLambda hc]; exact postPrec_posDef hc hp k
  have hinv := invertBatch_spec hbe false (postLambda c p) hPD (by simp) k
  have hS : toM ((c.affineConditional be p).Sigma k) = (postPrec c p k)⁻¹ := by
    rw [affineConditional_Sigma, hinv.1, toM_postLambda hc]
  have hM : toM ((c.affineConditional be p).M k) =
      toM ((c.affineConditional be p).Sigma k) * ((toM (c.M (unflatL k)))ᵀ * toM (c.Lambda (unflatL k))) := by
    rw [affineConditional_M]; simp only [tab_apply, toM_mmul, toM_transpose]
  refine ⟨postPrec_posDef hc hp k, ?_, hS, ?_, hM, ?_⟩
  · rw [affineConditional_Lambda, toM_postLambda hc]
  · rw [hS, affineConditional_lnDetSigma, tab_apply, hinv.2, toM_postLambda hc,
      Matrix.det_nonsing_inv, Ring.inverse_eq_inv', Real.log_inv]
  · rw [affineConditional_b]
    simp only [tab_apply, toV_vadd, toV_vneg, toV_mulVec]
    rw [hM, hp.nu (unflatR k), Matrix.mulVec_sub, ← Matrix.mulVec_mulVec]
    abel

/-- **C09 (a)**: the returned conditional is well formed (`Σ` positive definite, `Λ = Σ⁻¹`,
`ln det Σ`), so everything proved for well-formed conditionals applies to it. -/
theorem C09_posterior_condOK (c : CondB Rc Dy Dx ℝ) (hc : C10.CondOK c) (p : PdfV Rx Dx ℝ)
    (hp : PdfFullOK p) : C10.CondOK (c.affineConditional be p) := by
  refine ⟨fun k => ?_, fun k => ?_, fun k => ?_⟩
  · obtain ⟨hPD, -, hS, -⟩ := C09_posterior_params hbe c hc p hp k
    rw [hS]; exact hPD.inv
  · obtain ⟨hPD, hL, hS, -⟩ := C09_posterior_params hbe c hc p hp k
    rw [hS, hL, Matrix.nonsing_inv_nonsing_inv _ hPD.det_pos.ne'.isUnit]
  · exact (C09_posterior_params hbe c hc p hp k).2.2.2.1

/-- **C09 (b), Bayes' rule**: `ln p(x|y) + ln p(y) = ln p(y|x) + ln p(x)` for all `x`, `y`, with
`p(x|y)` given by the parameters of `affine_conditional_transformation` and
`p(y) = N(Mμ + b, Σy + M Σx Mᵀ)`. -/
theorem C09_bayes (c : CondB Rc Dy Dx ℝ) (hc : C10.CondOK c) (p : PdfV Rx Dx ℝ) (hp : PdfFullOK p)
    (k : Fin (Rc * Rx)) (x : Fin Dx → ℝ) (y : Fin Dy → ℝ) :
    normalLn (toM ((c.affineConditional be p).M k) *ᵥ y + toV ((c.affineConditional be p).b k))
        (toM ((c.affineConditional be p).Sigma k))⁻¹
        (Real.log (toM ((c.affineConditional be p).Sigma k)).det) x
      + normalLn (toM (c.M (unflatL k)) *ᵥ toV (p.mu (unflatR k)) + toV (c.b (unflatL k)))
          (toM (c.Sigma (unflatL k))
            + toM (c.M (unflatL k)) * toM (p.Sigma (unflatR k)) * (toM (c.M (unflatL k)))ᵀ)⁻¹
          (Real.log (toM (c.Sigma (unflatL k))
            + toM (c.M (unflatL k)) * toM (p.Sigma (unflatR k)) * (toM (c.M (unflatL k)))ᵀ).det) y
      = normalLn (toM (c.M (unflatL k)) *ᵥ x + toV (c.b (unflatL k))) (toM (c.Sigma (unflatL k)))⁻¹
          (Real.log (toM (c.Sigma (unflatL k))).det) y
        + normalLn (toV (p.mu (unflatR k))) (toM (p.Sigma (unflatR k)))⁻¹
          (Real.log (toM (p.Sigma (unflatR k))).det) x := by
  obtain ⟨hPD, -, hS, -, hM, hb⟩ := C09_posterior_params hbe c hc p hp k
  have hLy := condOK_lambda_symm hc (unflatL k)
  have hSy := (hc.posDef (unflatL k)).det_pos.ne'
  have hSx := (hp.posDef (unflatR k)).det_pos.ne'
  have hxx := hp.sigma_mul_lambda (unflatR k)
  have hyy : toM (c.Sigma (unflatL k)) * toM (c.Lambda (unflatL k)) = 1 := by
    rw [hc.lambda, Matrix.mul_nonsing_inv _ hSy.isUnit]
  rw [← hc.lambda (unflatL k), ← hp.lambda (unflatR k)]
  set M := toM (c.M (unflatL k))
  set bv := toV (c.b (unflatL k))
  set μ := toV (p.mu (unflatR k))
  set Sx := toM (p.Sigma (unflatR k))
  set Lx := toM (p.Lambda (unflatR k))
  set Sy := toM (c.Sigma (unflatL k))
  set Ly := toM (c.Lambda (unflatL k))
  have hLp : postPrec c p k = Lx + Mᵀ * Ly * M := rfl
  set Lp := postPrec c p k
  have hLpu : IsUnit Lp.det := hPD.det_pos.ne'.isUnit
  have hLpsym : Lpᵀ = Lp := by
    rw [← Matrix.conjTranspose_eq_transpose_of_trivial]; exact hPD.isHermitian
  -- the posterior mean in "conditioning" form
  have hmean : toM ((c.affineConditional be p).M k) *ᵥ y + toV ((c.affineConditional be p).b k) =
      μ - Lp⁻¹ *ᵥ (-(Mᵀ * Ly)) *ᵥ (y - (M *ᵥ μ + bv)) := by
    have key : Lp⁻¹ *ᵥ (Lp *ᵥ μ) = μ := by
      rw [Matrix.mulVec_mulVec, Matrix.nonsing_inv_mul _ hLpu, Matrix.one_mulVec]
    calc toM ((c.affineConditional be p).M k) *ᵥ y + toV ((c.affineConditional be p).b k)
        = Lp⁻¹ *ᵥ ((Mᵀ * Ly) *ᵥ y + (Lx *ᵥ μ - (Mᵀ * Ly) *ᵥ bv)) := by
          rw [hM, hb, hS, Matrix.mulVec_add, Matrix.mulVec_mulVec]
      _ = Lp⁻¹ *ᵥ (Lp *ᵥ μ + (Mᵀ * Ly) *ᵥ (y - (M *ᵥ μ + bv))) := by
          congr 1
          rw [hLp]
          simp only [Matrix.add_mulVec, Matrix.mulVec_sub, Matrix.mulVec_add, ← Matrix.mulVec_mulVec]
          abel
      _ = μ - Lp⁻¹ *ᵥ (-(Mᵀ * Ly)) *ᵥ (y - (M *ᵥ μ + bv)) := by
          rw [Matrix.mulVec_add, key, Matrix.neg_mulVec, Matrix.mulVec_neg, sub_neg_eq_add]
  have hSinv : (toM ((c.affineConditional be p).Sigma k))⁻¹ = Lp := by
    rw [hS, Matrix.nonsing_inv_nonsing_inv _ hLpu]
  have hjoint := Math.joint_prec_mul_cov Sx Lx Sy Ly M hxx hyy
  have hba : -(Ly * M) = (-(Mᵀ * Ly))ᵀ := by
    rw [Matrix.transpose_neg, Matrix.transpose_mul, Matrix.transpose_transpose, hLy]
  rw [hmean, hSinv, hS, normalLn_lik_add_prior M bv μ Sx Lx Sy Ly hLy hSx hSy x y, ← hLp]
  rw [← hLp] at hjoint
  exact normalLn_cond_add_marginal' hLpsym hba hPD.det_pos.ne' hjoint μ (M *ᵥ μ + bv) x y

/-! ## the statement in terms of the model objects -/

omit hbe in
/-- the marginal covariance `Σy + M Σx Mᵀ` is positive definite -/
theorem marginal_cov_posDef (c : CondB Rc Dy Dx ℝ) (hc : C10.CondOK c) (p : PdfV Rx Dx ℝ)
    (hp : PdfFullOK p) (k : Fin (Rc * Rx)) :
    (toM (c.Sigma (unflatL k))
      + toM (c.M (unflatL k)) * toM (p.Sigma (unflatR k)) * (toM (c.M (unflatL k)))ᵀ).PosDef := by
  have h1 := (hp.posDef (unflatR k)).posSemidef.mul_mul_conjTranspose_same (toM (c.M (unflatL k)))
  rw [Matrix.conjTranspose_eq_transpose_of_trivial] at h1
  exact (hc.posDef (unflatL k)).add_posSemidef h1

/-- `affine_marginal_transformation` evaluates to `N(y; Mμ + b, Σy + M Σx Mᵀ)` -/
theorem affineMarginal_evalLn (c : CondB Rc Dy Dx ℝ) (hc : C10.CondOK c) (p : PdfV Rx Dx ℝ)
    (hp : PdfFullOK p) (k : Fin (Rc * Rx)) (y : Fin Dy → ℝ) :
    (c.affineMarginal be p).evalLn k (ofV y) =
      normalLn (toM (c.M (unflatL k)) *ᵥ toV (p.mu (unflatR k)) + toV (c.b (unflatL k)))
        (toM (c.Sigma (unflatL k))
          + toM (c.M (unflatL k)) * toM (p.Sigma (unflatR k)) * (toM (c.M (unflatL k)))ᵀ)⁻¹
        (Real.log (toM (c.Sigma (unflatL k))
          + toM (c.M (unflatL k)) * toM (p.Sigma (unflatR k)) * (toM (c.M (unflatL k)))ᵀ).det) y := by
  unfold CondB.affineMarginal
  rw [mkPdf_evalLn hbe]
  · simp only [tab_apply, CondB.condMu, toV_vadd, toV_mulVec, toM_madd, toM_mmul, toM_transpose]
  · refine ⟨fun r => ?_, by simp, by simp, by simp⟩
    simp only [tab_apply, toM_madd, toM_mmul, toM_transpose]
    exact marginal_cov_posDef c hc p hp r

/-- **C09 (b) for the model objects**: for point batches `xs`, `ys`,
`post.condition_on_x(ys)(xs) · marginal(ys) = cond.condition_on_x(xs)(ys) · prior(xs)` in the log
domain, where `post = cond.affine_conditional_transformation(prior)` and
`marginal = cond.affine_marginal_transformation(prior)`. -/
theorem C09_bayes_model {Nx Ny : Nat} (c : CondB Rc Dy Dx ℝ) (hc : C10.CondOK c) (p : PdfV Rx Dx ℝ)
    (hp : PdfFullOK p) (xs : Arr Nx (Vec Dx ℝ)) (ys : Arr Ny (Vec Dy ℝ)) (k : Fin (Rc * Rx))
    (i : Fin Nx) (j : Fin Ny) :
    ((c.affineConditional be p).conditionOnX be ys).evalLn (flat k j) (ofV (toV (xs i)))
      + (c.affineMarginal be p).evalLn k (ofV (toV (ys j)))
      = (c.conditionOnX be xs).evalLn (flat (unflatL k) i) (ofV (toV (ys j)))
        + p.evalLn (unflatR k) (ofV (toV (xs i))) := by
  rw [C10.conditionOnX_evalLn hbe _ (C09_posterior_condOK hbe c hc p hp), unflatL_flat, unflatR_flat,
    affineMarginal_evalLn hbe c hc p hp, C10.conditionOnX_evalLn hbe c hc, unflatL_flat, unflatR_flat,
    PdfV.evalLn_eq_normalLn hp]
  exact C09_bayes hbe c hc p hp k (toV (xs i)) (toV (ys j))

/-! ## round trip -/

/-- **C09 (c), round trip**: conditioning back.  Let `post = cond.affine_conditional_transformation(p)`
and let `py` be (a view of) the marginal `p(y) = N(Mμ + b, Σy + M Σx Mᵀ)` of component `k`.  Then
`post.affine_conditional_transformation(py)` has, in the component pairing `k` with that marginal,
the parameters `Σy`, `Λy`, `M`, `b` of the original conditional. -/
theorem C09_round_trip {Ry : Nat} (c : CondB Rc Dy Dx ℝ) (hc : C10.CondOK c) (p : PdfV Rx Dx ℝ)
    (hp : PdfFullOK p) (py : PdfV Ry Dy ℝ) (hpy : PdfFullOK py) (k : Fin (Rc * Rx))
    (k2 : Fin (Rc * Rx * Ry)) (hk : unflatL k2 = k)
    (hSy : toM (py.Sigma (unflatR k2)) = toM (c.Sigma (unflatL k))
      + toM (c.M (unflatL k)) * toM (p.Sigma (unflatR k)) * (toM (c.M (unflatL k)))ᵀ)
    (hmuy : toV (py.mu (unflatR k2)) =
      toM (c.M (unflatL k)) *ᵥ toV (p.mu (unflatR k)) + toV (c.b (unflatL k))) :
    toM (((c.affineConditional be p).affineConditional be py).Sigma k2) = toM (c.Sigma (unflatL k)) ∧
    toM (((c.affineConditional be p).affineConditional be py).Lambda k2) = toM (c.Lambda (unflatL k)) ∧
    toM (((c.affineConditional be p).affineConditional be py).M k2) = toM (c.M (unflatL k)) ∧
    toV (((c.affineConditional be p).affineConditional be py).b k2) = toV (c.b (unflatL k)) := by
  subst hk
  obtain ⟨hPD, hL, hS, -, hM, hb⟩ := C09_posterior_params hbe c hc p hp (unflatL k2)
  have hpostOK := C09_posterior_condOK hbe c hc p hp
  obtain ⟨-, hL2, hS2, -, hM2, hb2⟩ :=
    C09_posterior_params hbe (c.affineConditional be p) hpostOK py hpy k2
  have hLy := condOK_lambda_symm hc (unflatL (unflatL k2))
  have hSyd := (hc.posDef (unflatL (unflatL k2))).det_pos.ne'
  have hxx := hp.sigma_mul_lambda (unflatR (unflatL k2))
  have hyy : toM (c.Sigma (unflatL (unflatL k2))) * toM (c.Lambda (unflatL (unflatL k2))) = 1 := by
    rw [hc.lambda, Matrix.mul_nonsing_inv _ hSyd.isUnit]
  have hLyinv : (toM (c.Lambda (unflatL (unflatL k2))))⁻¹ = toM (c.Sigma (unflatL (unflatL k2))) := by
    rw [hc.lambda, Matrix.nonsing_inv_nonsing_inv _ hSyd.isUnit]
  rw [hS] at hM hb
  set M := toM (c.M (unflatL (unflatL k2)))
  set bv := toV (c.b (unflatL (unflatL k2)))
  set μ := toV (p.mu (unflatR (unflatL k2)))
  set Sx := toM (p.Sigma (unflatR (unflatL k2)))
  set Lx := toM (p.Lambda (unflatR (unflatL k2)))
  set Sy := toM (c.Sigma (unflatL (unflatL k2)))
  set Ly := toM (c.Lambda (unflatL (unflatL k2)))
  have hLp : postPrec c p (unflatL k2) = Lx + Mᵀ * Ly * M := rfl
  set Lp := postPrec c p (unflatL k2)
  have hLpu : IsUnit Lp.det := hPD.det_pos.ne'.isUnit
  have hLpsym : Lpᵀ = Lp := by
    rw [← Matrix.conjTranspose_eq_transpose_of_trivial]; exact hPD.isHermitian
  have hjoint := Math.joint_prec_mul_cov Sx Lx Sy Ly M hxx hyy
  rw [← hLp] at hjoint
  -- the marginal precision is the Schur complement
  have hschur : (Sy + M * Sx * Mᵀ)⁻¹ = Ly - -(Ly * M) * Lp⁻¹ * -(Mᵀ * Ly) :=
    Math.marginal_prec_eq_schur hjoint hPD.det_pos.ne'
  have hΛmarg : toM (py.Lambda (unflatR k2)) = Ly - -(Ly * M) * Lp⁻¹ * -(Mᵀ * Ly) := by
    rw [hpy.lambda, hSy, hschur]
  -- `Mpostᵀ Λpost = Λy M`
  have hMpT : (Lp⁻¹ * (Mᵀ * Ly))ᵀ * Lp = Ly * M := by
    rw [Matrix.transpose_mul, Matrix.transpose_mul, Matrix.transpose_transpose, hLy,
      Matrix.transpose_nonsing_inv, hLpsym, Matrix.mul_assoc, Matrix.nonsing_inv_mul _ hLpu,
      Matrix.mul_one]
  have hprec : postPrec (c.affineConditional be p) py k2 = Ly := by
    unfold postPrec
    rw [hΛmarg, hM, hL, hMpT]
    simp only [Matrix.neg_mul, Matrix.mul_neg, neg_neg, Matrix.mul_assoc]
    abel
  have hSback : toM (((c.affineConditional be p).affineConditional be py).Sigma k2) = Sy := by
    rw [hS2, hprec, hLyinv]
  have hMback : toM (((c.affineConditional be p).affineConditional be py).M k2) = M := by
    rw [hM2, hSback, hM, hL, hMpT, ← Matrix.mul_assoc, hyy, Matrix.one_mul]
  refine ⟨hSback, by rw [hL2, hprec], hMback, ?_⟩
  rw [hb2, hSback, hΛmarg, hmuy, hM, hL, hMpT, hb]
  have hbr : (Mᵀ * Ly) *ᵥ (M *ᵥ μ + bv) + (Lx *ᵥ μ - (Mᵀ * Ly) *ᵥ bv) = Lp *ᵥ μ := by
    rw [hLp]
    simp only [Matrix.add_mulVec, Matrix.mulVec_add, ← Matrix.mulVec_mulVec]
    abel
  have key : Lp⁻¹ *ᵥ (Lp *ᵥ μ) = μ := by
    rw [Matrix.mulVec_mulVec, Matrix.nonsing_inv_mul _ hLpu, Matrix.one_mulVec]
  have hin : (Ly - -(Ly * M) * Lp⁻¹ * -(Mᵀ * Ly)) *ᵥ (M *ᵥ μ + bv)
      - (Ly * M) *ᵥ (Lp⁻¹ *ᵥ (Lx *ᵥ μ - (Mᵀ * Ly) *ᵥ bv))
      = Ly *ᵥ (M *ᵥ μ + bv) - (Ly * M) *ᵥ (Lp⁻¹ *ᵥ (Lp *ᵥ μ)) := by
    rw [← hbr]
    simp only [Matrix.sub_mulVec, Matrix.neg_mul, Matrix.mul_neg, neg_neg, Matrix.mulVec_add,
      Matrix.mulVec_sub, ← Matrix.mulVec_mulVec]
    abel
  rw [hin, key, Matrix.mulVec_add, ← Matrix.mulVec_mulVec, add_sub_cancel_left, Matrix.mulVec_mulVec,
    hyy, Matrix.one_mulVec]

/-- **C09 (c) for the model objects**: with `py` the view of
`cond.affine_marginal_transformation(p)`, the component `flat k k` of
`post.affine_conditional_transformation(py)` (posterior `k` paired with marginal `k`) has the
parameters of the original conditional `unflatL k`. -/
theorem C09_round_trip_model (c : CondB Rc Dy Dx ℝ) (hc : C10.CondOK c) (p : PdfV Rx Dx ℝ)
    (hp : PdfFullOK p) (py : PdfV (Rc * Rx) Dy ℝ) (hpy : (c.affineMarginal be p).asPdf = some py)
    (k : Fin (Rc * Rx)) :
    toM (((c.affineConditional be p).affineConditional be py).Sigma (flat k k)) = toM (c.Sigma (unflatL k)) ∧
    toM (((c.affineConditional be p).affineConditional be py).Lambda (flat k k)) = toM (c.Lambda (unflatL k)) ∧
    toM (((c.affineConditional be p).affineConditional be py).M (flat k k)) = toM (c.M (unflatL k)) ∧
    toV (((c.affineConditional be p).affineConditional be py).b (flat k k)) = toV (c.b (unflatL k)) := by
  unfold CondB.affineMarginal at hpy
  have hOK : PdfFullOK py := by
    refine mkPdf_pdfOK hbe _ _ _ _ _ ⟨fun r => ?_, by simp, by simp, by simp⟩ hpy
    simp only [tab_apply, toM_madd, toM_mmul, toM_transpose]
    exact marginal_cov_posDef c hc p hp r
  obtain ⟨hSig, hmu⟩ := mkPdf_asPdf_sigma_mu _ _ _ _ _ _ hpy
  apply C09_round_trip hbe c hc p hp py hOK k (flat k k) (unflatL_flat k k)
  · rw [unflatR_flat, hSig]; simp only [tab_apply, toM_madd, toM_mmul, toM_transpose]
  · rw [unflatR_flat, hmu]; simp only [tab_apply, CondB.condMu, toV_vadd, toV_mulVec]

/-! ## non-vacuity -/

/-- a concrete conditional `y | x ~ N([1 2] x + 3, 1)` and the prior `N((1,−1), [[2,1],[1,2]])`
satisfy all hypotheses (with the backend of `Bridge/SpecSat.lean`) -/
example : ∃ (be : Backend ℝ) (c : CondB 1 1 2 ℝ) (p : PdfV 1 2 ℝ),
    be.Spec ∧ C10.CondOK c ∧ PdfFullOK p ∧ c.M 0 0 1 = 2 ∧ p.Sigma 0 0 1 = 1 := by
  refine ⟨Backend.sat, ⟨false, tab fun _ => ofM !![1, 2], tab fun _ => ofV ![3], tab fun _ => eye,
    tab fun _ => eye, tab fun _ => 0⟩, examplePdf, Backend.sat_spec, ⟨fun r => ?_, fun r => ?_, fun r => ?_⟩,
    examplePdf_ok, by simp [ofM], by simp [examplePdf, ofM]⟩
  · simp only [tab_apply, toM_eye]; exact Matrix.PosDef.one
  · simp only [tab_apply, toM_eye, inv_one]
  · simp only [tab_apply, toM_eye, Matrix.det_one, Real.log_one]

end GT.Props.C09

section axioms
#print axioms GT.Props.C09.C09_posterior_params
#print axioms GT.Props.C09.C09_posterior_condOK
#print axioms GT.Props.C09.C09_bayes
#print axioms GT.Props.C09.C09_bayes_model
#print axioms GT.Props.C09.C09_round_trip
#print axioms GT.Props.C09.C09_round_trip_model
end axioms
