import GT.Props.C04
import GT.Props.C05
import GT.Props.C06
import GT.Props.C08
import GT.Props.C09
import GT.Props.C12
/-!
# C04, extended histories — `slice`, `product`, `update` and the density-producing operations

`GT/Props/C04.lean` proves the cache-consistency invariant `MeasureB.Inv` for every object reachable
by constructors, read-only queries, `normalize`, `get_density`, `multiply`, `hadamard`.  The
differential-test histories also contain `slice`, `product`, the in-place `update`, and the
operations that build a new density out of an existing one (`get_marginal`,
`get_density_of_linear_sum`, `condition_on(…)` + `condition_on_x`, and the three affine
transformations of a conditional).  This file closes `Reachable` under all of them (`ReachableX`)
and proves `C04X_reachable : ReachableX be m → m.Inv`.
-/
namespace GT.Props.C04Ext
open GT Matrix
open GT.Props.C04 (Reachable Query runQuery FactorPSD)
open GT.Props.C12 (resolve take_eq)

variable {R N D K Kx Ky Rc Rx Dx Dy : Nat}

/-! ## small matrix facts -/

/-- the inverse of a matrix without off-diagonal entries has no off-diagonal entries -/
theorem inv_offdiag_zero {L : Matrix (Fin D) (Fin D) ℝ} (hd : ∀ i j, i ≠ j → L i j = 0)
    (i j : Fin D) (hij : i ≠ j) : L⁻¹ i j = 0 := by
  have hL : L = Matrix.diagonal fun i => L i i := by
    ext a b
    by_cases hab : a = b
    · subst hab; simp
    · simp [hab, hd a b hab]
  rw [hL, Matrix.inv_diagonal]
  simp [hij]

theorem toM_sum_batch (L : Arr R (Mat D D ℝ)) :
    toM (tab2 fun i j => vsum fun r => L r i j) = ∑ r, toM (L r) := by
  ext i j
  simp [Matrix.sum_apply]

/-! ## the density view of a consistent object -/

/-- consistency of a density view, component by component: this is `MeasureB.Inv` read through
`asPdf` (all caches present) -/
structure ViewOK (p : PdfV R D ℝ) : Prop where
  posDef : ∀ r, (toM (p.Lambda r)).PosDef
  diagOK : p.diag = true → ∀ r i j, i ≠ j → p.Lambda r i j = 0
  cov : ∀ r, CovOK (toM (p.Lambda r)) (toM (p.Sigma r)) (p.lnDetSigma r)
  mu : ∀ r, toV (p.mu r) = (toM (p.Lambda r))⁻¹ *ᵥ toV (p.nu r)
  lnZ : ∀ r, p.lnZ r = lnZRef (toM (p.Lambda r)) (toV (p.nu r))

theorem viewOK_of_inv {m : MeasureB R D ℝ} (hm : m.Inv) {p : PdfV R D ℝ} (hp : m.asPdf = some p) :
    ViewOK p := by
  unfold MeasureB.asPdf at hp
  cases hc : m.cov with
  | none => simp [hc] at hp
  | some c =>
    cases hmu : m.mu with
    | none => simp [hc, hmu] at hp
    | some mu =>
      cases hz : m.lnZ with
      | none => simp [hc, hmu, hz] at hp
      | some z =>
        simp only [hc, hmu, hz, Option.some.injEq] at hp
        subst hp
        exact ⟨hm.posDef, hm.diagOK, hm.cov c hc, hm.mu mu hmu, hm.lnZ z hz⟩

/-- a consistent view, written back as an object (`lnDetLambda` is not stored by densities) -/
theorem toMeasure_inv {p : PdfV R D ℝ} (h : ViewOK p) : p.toMeasure.Inv := by
  refine ⟨h.posDef, ?_, ?_, by simp [PdfV.toMeasure], ?_, ?_, by simp [PdfV.toMeasure],
    by simp [PdfV.toMeasure]⟩
  · intro hd
    apply h.diagOK
    cases hdg : p.diag <;> simp_all [PdfV.toMeasure, MCls.isDiag]
  · intro c hc r
    simp only [PdfV.toMeasure, Option.some.injEq] at hc
    subst hc
    exact h.cov r
  · intro mu hmu r
    simp only [PdfV.toMeasure, Option.some.injEq] at hmu
    subst hmu
    exact h.mu r
  · intro z hz r
    simp only [PdfV.toMeasure, Option.some.injEq] at hz
    subst hz
    exact h.lnZ r

theorem ViewOK.sigma_posDef {p : PdfV R D ℝ} (h : ViewOK p) (r : Fin R) : (toM (p.Sigma r)).PosDef := by
  rw [(h.cov r).inv]; exact (h.posDef r).inv

theorem ViewOK.lambda_eq {p : PdfV R D ℝ} (h : ViewOK p) (r : Fin R) :
    toM (p.Lambda r) = (toM (p.Sigma r))⁻¹ := by
  rw [(h.cov r).inv, Matrix.nonsing_inv_nonsing_inv _ (h.posDef r).det_pos.ne'.isUnit]

theorem ViewOK.pdfOK {p : PdfV R D ℝ} (h : ViewOK p) : PdfOK p :=
  ⟨h.sigma_posDef, h.lambda_eq, fun r => (h.cov r).logdet⟩

theorem ViewOK.pdfDiagOK {p : PdfV R D ℝ} (h : ViewOK p) : PdfDiagOK p := by
  intro hd r i j hij
  have := inv_offdiag_zero (L := toM (p.Lambda r)) (fun a b hab => by simpa using h.diagOK hd r a b hab) i j hij
  rw [← (h.cov r).inv] at this
  simpa using this

theorem ViewOK.nu_eq {p : PdfV R D ℝ} (h : ViewOK p) (r : Fin R) :
    toV (p.nu r) = toM (p.Lambda r) *ᵥ toV (p.mu r) := by
  rw [h.mu r, Matrix.mulVec_mulVec, Matrix.mul_nonsing_inv _ (h.posDef r).det_pos.ne'.isUnit,
    Matrix.one_mulVec]

/-- the view with `ln_beta` replaced by `-lnZ`.  None of the density-producing operations reads
`ln_beta`, so they cannot distinguish `p` from `normView p`; this lets us reuse the theorems of
C06–C09 (stated for normalised views) without assuming that the operand is normalised. -/
def normView (p : PdfV R D ℝ) : PdfV R D ℝ := { p with lnBeta := tab fun r => -p.lnZ r }

theorem ViewOK.fullOK {p : PdfV R D ℝ} (h : ViewOK p) : PdfFullOK (normView p) :=
  ⟨h.sigma_posDef, h.lambda_eq, fun r => (h.cov r).logdet, h.nu_eq, fun r => by
    simp only [normView, tab_apply]; rw [h.lnZ r]⟩

theorem ViewOK.c07OK {p : PdfV R D ℝ} (h : ViewOK p) : C07.PdfOK (normView p) :=
  ⟨h.sigma_posDef, h.lambda_eq, fun r => (h.cov r).logdet, h.nu_eq, fun r => by
    simp only [normView, tab_apply], h.lnZ⟩

/-! ## `slice` -/

/-- the covariance data cached in a consistent object are admissible arguments of the density
constructor, along any selection `g` of components (repetitions allowed) -/
theorem argsOK_of_inv {m : MeasureB R D ℝ} (hm : m.Inv) {c : Cov R D ℝ} (hc : m.cov = some c)
    (g : Fin N → Fin R) :
    C02.PdfArgsOK m.cls.isDiag (tab fun n => c.Sigma (g n)) (some (tab fun n => m.Lambda (g n)))
      (some (tab fun n => c.lnDetSigma (g n))) := by
  have hu : ∀ r, IsUnit (toM (m.Lambda r)).det := fun r => (hm.posDef r).det_pos.ne'.isUnit
  refine ⟨fun n => ?_, fun hd n i j hij => ?_, ?_, ?_⟩
  · simp only [tab_apply]
    rw [(hm.cov c hc (g n)).inv]; exact (hm.posDef (g n)).inv
  · simp only [tab_apply]
    have := inv_offdiag_zero (L := toM (m.Lambda (g n)))
      (fun a b hab => by simpa using hm.diagOK hd (g n) a b hab) i j hij
    rw [← (hm.cov c hc (g n)).inv] at this
    simpa using this
  · intro L hL n
    simp only [Option.some.injEq] at hL; subst hL
    simp only [tab_apply]
    rw [(hm.cov c hc (g n)).inv, Matrix.nonsing_inv_nonsing_inv _ (hu (g n))]
  · intro L ld _ hld n
    simp only [Option.some.injEq] at hld; subst hld
    simp only [tab_apply]
    exact (hm.cov c hc (g n)).logdet

section
variable {be : Backend ℝ} (hbe : be.Spec)
include hbe

/-- **C04 for `slice`** (all four classes, index arrays with repetitions and wrapped negative
entries): whenever `slice` returns, the returned object is consistent — in particular its caches
are the *sliced* caches. -/
theorem slice_inv {m : MeasureB R D ℝ} (hm : m.Inv) (idx : Fin N → Int)
    (hidx : ∀ n, -(R : Int) ≤ idx n ∧ idx n < R) {m' : MeasureB N D ℝ}
    (h : m.slice be idx = some m') : m'.Inv := by
  simp only [MeasureB.slice, take_eq _ idx _ hidx] at h
  split at h
  · split at h
    · next c mu hc hmu =>
      simp only [Option.some.injEq] at h; subst h
      exact C02.mkPdf_inv hbe _ _ _ _ _ (argsOK_of_inv hm hc _)
    · simp at h
  · have hPD : ∀ n, (toM ((tab fun n => m.Lambda (resolve R (idx n) (hidx n))) n)).PosDef := fun n => by
      simp only [tab_apply]; exact hm.posDef _
    have hdg : m.cls.isDiag = true → ∀ n i j, i ≠ j →
        (tab fun n => m.Lambda (resolve R (idx n) (hidx n))) n i j = 0 := fun hd n i j hij => by
      simp only [tab_apply]; exact hm.diagOK hd _ i j hij
    split at h
    · simp only [Option.some.injEq] at h; subst h
      exact inv_mk0 _ _ _ _ hPD hdg
    · next c hc =>
      split at h
      · simp at h
      · next ldL hl =>
        simp only [Option.some.injEq] at h; subst h
        refine ⟨hPD, hdg, ?_, ?_, by simp [MeasureB.mk0], by simp [MeasureB.mk0], by simp [MeasureB.mk0],
          by simp [MeasureB.mk0]⟩
        · intro c' hc' n
          simp only [Option.some.injEq] at hc'
          subst hc'
          simp only [MeasureB.mk0, tab_apply]
          exact hm.cov c hc _
        · intro l hl' n
          simp only [Option.some.injEq] at hl'
          subst hl'
          simp only [MeasureB.mk0, tab_apply]
          exact hm.lnDetLambda ldL hl _

/-! ## `product` -/

/-- **C04 for `product`** (product over the components of a non-empty batch): the one-component
result is consistent; if the operand had a covariance cache the result is prepared, and its fresh
caches (`Sigma`, `ln_det`, `mu`, `lnZ`) belong to the *summed* natural parameters. -/
theorem product_inv {m : MeasureB R D ℝ} (hm : m.Inv) (hR : 0 < R) : (m.product be).Inv := by
  have hne : (Finset.univ : Finset (Fin R)).Nonempty := by
    have : Nonempty (Fin R) := ⟨⟨0, hR⟩⟩
    exact Finset.univ_nonempty
  have hnew : (MeasureB.mk0 (if m.cls.isDiag then MCls.diagMeasure else MCls.measure)
      (tab fun _ : Fin 1 => tab2 fun i j => vsum fun r => m.Lambda r i j)
      (tab fun _ => tab fun i => vsum fun r => m.nu r i)
      (tab fun _ => vsum fun r => m.lnBeta r)).Inv := by
    apply inv_mk0
    · intro r
      simp only [tab_apply]
      rw [toM_sum_batch]
      exact Matrix.posDef_sum hne fun r _ => hm.posDef r
    · intro hd r i j hij
      have hd' : m.cls.isDiag = true := by
        cases h : m.cls.isDiag <;> simp_all [MCls.isDiag]
      simp only [tab_apply, vsum_real]
      exact Finset.sum_eq_zero fun r _ => hm.diagOK hd' r i j hij
  simp only [MeasureB.product]
  split
  · exact inv_prepare hbe hnew
  · exact hnew

end

/-! ## `update` -/

/-- what `update` does to component `r`: either every attribute (natural parameters *and* caches)
is the one of the last addressed component `n` of the new density, or every attribute is kept -/
theorem update_component (p : PdfV R D ℝ) (idx : Fin N → Fin R) (d : PdfV N D ℝ) (r : Fin R) :
    (∃ n, idx n = r ∧ (p.update idx d).Lambda r = d.Lambda n ∧ (p.update idx d).nu r = d.nu n ∧
      (p.update idx d).lnBeta r = d.lnBeta n ∧ (p.update idx d).Sigma r = d.Sigma n ∧
      (p.update idx d).lnDetSigma r = d.lnDetSigma n ∧ (p.update idx d).mu r = d.mu n ∧
      (p.update idx d).lnZ r = d.lnZ n) ∨
    ((∀ n, idx n ≠ r) ∧ (p.update idx d).Lambda r = p.Lambda r ∧ (p.update idx d).nu r = p.nu r ∧
      (p.update idx d).lnBeta r = p.lnBeta r ∧ (p.update idx d).Sigma r = p.Sigma r ∧
      (p.update idx d).lnDetSigma r = p.lnDetSigma r ∧ (p.update idx d).mu r = p.mu r ∧
      (p.update idx d).lnZ r = p.lnZ r) := by
  simp only [PdfV.update, tab_apply]
  cases h : (List.finRange N).reverse.find? (fun n => decide (idx n = r)) with
  | some n =>
    left
    have := List.find?_some h
    exact ⟨n, by simpa using this, rfl, rfl, rfl, rfl, rfl, rfl, rfl⟩
  | none =>
    right
    refine ⟨fun n hn => ?_, rfl, rfl, rfl, rfl, rfl, rfl, rfl⟩
    have := List.find?_eq_none.1 h n (by simp)
    simp [hn] at this

theorem update_diag (p : PdfV R D ℝ) (idx : Fin N → Fin R) (d : PdfV N D ℝ) :
    (p.update idx d).diag = p.diag := rfl

/-- **C04 for `update`** on views: replacing components of a consistent density by components of
a consistent density (same class, or a diagonal one written into a full one) is consistent: every
cache of an addressed component — `Sigma`, `ln_det_Sigma`, `mu` and `lnZ` — is replaced together
with `Lambda` and `nu`. Any index array (repetitions: the last write wins). -/
theorem update_viewOK {p : PdfV R D ℝ} {d : PdfV N D ℝ} (hp : ViewOK p) (hd : ViewOK d)
    (hdiag : p.diag = true → d.diag = true) (idx : Fin N → Fin R) : ViewOK (p.update idx d) := by
  refine ⟨fun r => ?_, fun hdg r => ?_, fun r => ?_, fun r => ?_, fun r => ?_⟩ <;>
    rcases update_component p idx d r with ⟨n, -, hL, hnu, -, hS, hld, hmu, hz⟩ |
      ⟨-, hL, hnu, -, hS, hld, hmu, hz⟩
  · rw [hL]; exact hd.posDef n
  · rw [hL]; exact hp.posDef r
  · rw [hL]; exact hd.diagOK (hdiag hdg) n
  · rw [hL]; exact hp.diagOK hdg r
  · rw [hL, hS, hld]; exact hd.cov n
  · rw [hL, hS, hld]; exact hp.cov r
  · rw [hL, hnu, hmu]; exact hd.mu n
  · rw [hL, hnu, hmu]; exact hp.mu r
  · rw [hL, hnu, hz]; exact hd.lnZ n
  · rw [hL, hnu, hz]; exact hp.lnZ r

/-- **C04 for `update`**, object level -/
theorem update_inv {m : MeasureB R D ℝ} {w : MeasureB N D ℝ} (hm : m.Inv) (hw : w.Inv)
    {p : PdfV R D ℝ} {d : PdfV N D ℝ} (hp : m.asPdf = some p) (hd : w.asPdf = some d)
    (hdiag : p.diag = true → d.diag = true) (idx : Fin N → Fin R) :
    (p.update idx d).toMeasure.Inv :=
  toMeasure_inv (update_viewOK (viewOK_of_inv hm hp) (viewOK_of_inv hw hd) hdiag idx)

/-! ## density-producing operations on a consistent density view -/

section
variable {be : Backend ℝ} (hbe : be.Spec)
include hbe

theorem getMarginal_inv {p : PdfV R D ℝ} (hv : ViewOK p) (dims : Fin K → Fin D)
    (hinj : Function.Injective dims) : (p.getMarginal be dims).Inv :=
  C05.C05_marginal_inv hbe p hv.pdfOK hv.pdfDiagOK dims hinj

theorem linearSum_inv {p : PdfV R D ℝ} (hv : ViewOK p) (W : Arr R (Mat K D ℝ))
    (b : Option (Arr R (Vec K ℝ))) (hW : ∀ r, LinearIndependent ℝ (toM (W r)).row) :
    (p.linearSum be W b).Inv :=
  C05.C05_linear_sum_inv hbe p W b (C05.linearSum_posDef_of_linearIndependent_rows p hv.pdfOK W hW)

/-- `condition_on_x` of a well-formed conditional -/
theorem conditionOnX_inv (c : CondB R Dy Dx ℝ) (hc : C10.CondOK c) (xs : Arr N (Vec Dx ℝ)) :
    (c.conditionOnX be xs).Inv := by
  unfold CondB.conditionOnX
  apply C02.mkPdf_inv hbe
  refine ⟨fun r => by simpa using hc.posDef _, by simp, ?_, ?_⟩
  · intro L hL r
    simp only [Option.some.injEq] at hL; subst hL
    simpa using hc.lambda _
  · intro L ld _ hld r
    simp only [Option.some.injEq] at hld; subst hld
    simpa using hc.lnDet _

theorem conditionOnXId_inv (c : CondIdB R D ℝ) (hc : C07.CondIdOK c) (xs : Arr N (Vec D ℝ)) :
    (c.conditionOnX be xs).Inv := by
  have h1 : ∀ r, (toM (c.Sigma r)).PosDef := hc.posDef
  have h2 : ∀ r, toM (c.Lambda r) = (toM (c.Sigma r))⁻¹ := hc.lambda
  have h3 : ∀ r, c.lnDetSigma r = Real.log (toM (c.Sigma r)).det := hc.lnDet
  unfold CondIdB.conditionOnX
  apply C02.mkPdf_inv hbe
  refine ⟨fun r => by simpa using h1 _, by simp, ?_, ?_⟩
  · intro L hL r
    simp only [Option.some.injEq] at hL; subst hL
    simpa using h2 _
  · intro L ld _ hld r
    simp only [Option.some.injEq] at hld; subst hld
    simpa using h3 _

/-- `condition_on_explicit(dim_y, dim_x)` of a consistent density is a well-formed conditional -/
theorem conditionOnExplicit_condOK {p : PdfV R D ℝ} (hv : ViewOK p) (dimY : Fin Ky → Fin D)
    (dimX : Fin Kx → Fin D) (hX : Function.Injective dimX) :
    C10.CondOK (p.conditionOnExplicit be dimY dimX) :=
  C06.C06_cond_condOK hbe (normView p) hv.fullOK dimY dimX hX

/-- `condition_on(dim_y)` of a consistent density is a well-formed conditional -/
theorem conditionOn_condOK {p : PdfV R D ℝ} (hv : ViewOK p) (dimY : Fin Ky → Fin D) :
    C10.CondOK (p.conditionOn be dimY) :=
  C06.C06_condition_on_condOK hbe (normView p) hv.fullOK dimY

theorem affineJoint_inv (c : CondB Rc Dy Dx ℝ) (hc : C10.CondOK c) {p : PdfV Rx Dx ℝ} (hv : ViewOK p) :
    (c.affineJoint be p).Inv :=
  C07.C07_joint_inv hbe c hc (normView p) hv.c07OK

theorem affineMarginal_inv (c : CondB Rc Dy Dx ℝ) (hc : C10.CondOK c) {p : PdfV Rx Dx ℝ}
    (hv : ViewOK p) : (c.affineMarginal be p).Inv :=
  C08.C08_marginal_inv hbe c hc (normView p) hv.c07OK

/-- `affine_conditional_transformation` returns a well-formed conditional -/
theorem affineConditional_condOK (c : CondB Rc Dy Dx ℝ) (hc : C10.CondOK c) {p : PdfV Rx Dx ℝ}
    (hv : ViewOK p) : C10.CondOK (c.affineConditional be p) :=
  C09.C09_posterior_condOK hbe c hc (normView p) hv.fullOK

theorem affineJointId_inv (c : CondIdB Rc D ℝ) (hc : C07.CondIdOK c) {p : PdfV Rx D ℝ} (hv : ViewOK p) :
    (c.affineJoint be p).Inv :=
  C07.C07_jointId_inv hbe c hc (normView p) hv.c07OK

theorem affineMarginalId_inv (c : CondIdB Rc D ℝ) (hc : C07.CondIdOK c) {p : PdfV Rx D ℝ}
    (hv : ViewOK p) : (c.affineMarginal be p).Inv :=
  C08.C08_marginalId_inv hbe c hc (normView p) hv.c07OK

/-- identity-mean `affine_conditional_transformation` returns a well-formed conditional -/
theorem affineConditionalId_condOK (c : CondIdB Rc D ℝ) (hc : C07.CondIdOK c) {p : PdfV Rx D ℝ}
    (hv : ViewOK p) : C10.CondOK (c.affineConditional be p) := by
  have hLc : ∀ r, (toM (c.Lambda r)).PosDef := fun r => by
    have h1 : toM (c.Lambda r) = (toM (c.Sigma r))⁻¹ := hc.lambda r
    have h2 : (toM (c.Sigma r)).PosDef := hc.posDef r
    rw [h1]; exact h2.inv
  have hPD : ∀ k : Fin (Rc * Rx),
      (toM ((tab fun k : Fin (Rc * Rx) => madd (p.Lambda (unflatR k)) (c.Lambda (unflatL k))) k)).PosDef := by
    intro k
    simp only [tab_apply, toM_madd]
    exact (hv.posDef _).add (hLc _)
  have hs := fun k => invertBatch_spec hbe false _ hPD (by simp) k
  refine ⟨fun k => ?_, fun k => ?_, fun k => ?_⟩
  · simp only [CondIdB.affineConditional]
    rw [(hs k).1]; exact (hPD k).inv
  · simp only [CondIdB.affineConditional]
    rw [(hs k).1, Matrix.nonsing_inv_nonsing_inv _ (hPD k).det_pos.ne'.isUnit]
  · simp only [CondIdB.affineConditional, tab_apply]
    rw [(hs k).1, (hs k).2, Matrix.det_nonsing_inv, Ring.inverse_eq_inv', Real.log_inv]

end

/-! ## extended histories -/

/-- measures and densities (of any batch size and dimension) reachable by a finite history of the
modelled public operations: the constructors of `C04.Reachable` (repeated, so that old and new
operations interleave freely) plus `slice`, `product`, the in-place `update`, and every operation
that builds a density out of a density.  `asPdf = some p` is the model's "this object is usable as
a density" (all attributes of a `GaussianPDF` present); the class hypotheses `isPdf = true` record
that these are methods of the density classes. -/
inductive ReachableX (be : Backend ℝ) : {R D : Nat} → MeasureB R D ℝ → Prop where
  /-- `GaussianMeasure(Lambda, nu, ln_beta)` / `GaussianDiagMeasure(…)` with a documented precision -/
  | ctor {R D : Nat} (cls : MCls) (hc : cls.isPdf = false) (L : Arr R (Mat D D ℝ)) (nu : Arr R (Vec D ℝ))
      (lb : Arr R ℝ) (hL : ∀ r, (toM (L r)).PosDef) (hd : cls.isDiag = true → ∀ r i j, i ≠ j → L r i j = 0) :
      ReachableX be (MeasureB.mk0 cls L nu lb)
  /-- `GaussianPDF(Sigma, mu, Lambda?, ln_det_Sigma?)` with consistent arguments -/
  | pdf {R D : Nat} (diag : Bool) (S : Arr R (Mat D D ℝ)) (mu : Arr R (Vec D ℝ))
      (L : Option (Arr R (Mat D D ℝ))) (ld : Option (Arr R ℝ)) (h : C02.PdfArgsOK diag S L ld) :
      ReachableX be (mkPdf be diag S mu L ld)
  | query {R D : Nat} {m : MeasureB R D ℝ} (q : Query) : ReachableX be m → ReachableX be (runQuery be m q)
  | normalize {R D : Nat} {m : MeasureB R D ℝ} : ReachableX be m → ReachableX be (m.normalize be)
  | getDensity {R D : Nat} {m : MeasureB R D ℝ} : ReachableX be m → ReachableX be (m.getDensity be).2
  | multiply {R1 R2 D : Nat} {u : MeasureB R1 D ℝ} (f : Factor R2 D ℝ) (uf : Bool) (hf : FactorPSD f) :
      ReachableX be u → ReachableX be (u.multiply be f uf)
  | multiplyMeasure {R1 R2 D : Nat} {u : MeasureB R1 D ℝ} {w : MeasureB R2 D ℝ} (uf : Bool) :
      ReachableX be u → ReachableX be w → ReachableX be (u.multiply be w.toFactor uf)
  | hadamard {R D : Nat} {u : MeasureB R D ℝ} (f : Factor R D ℝ) (uf : Bool) (hf : FactorPSD f) :
      ReachableX be u → ReachableX be (u.hadamard be f uf)
  | hadamardBF {R D : Nat} {u : MeasureB R D ℝ} (f : Factor 1 D ℝ) (uf : Bool) (hf : FactorPSD f) :
      ReachableX be u → ReachableX be (u.hadamardBF be f uf)
  | hadamardBU {R D : Nat} {u : MeasureB 1 D ℝ} (f : Factor R D ℝ) (uf : Bool) (hf : FactorPSD f) :
      ReachableX be u → ReachableX be (u.hadamardBU be f uf)
  /-- `slice(indices)` of any of the four classes, whenever it returns; in-range index array with
  arbitrary repetitions and (once-wrapped) negative entries -/
  | slice {R N D : Nat} {m : MeasureB R D ℝ} {m' : MeasureB N D ℝ} (idx : Fin N → Int)
      (hidx : ∀ n, -(R : Int) ≤ idx n ∧ idx n < R) (h : m.slice be idx = some m') :
      ReachableX be m → ReachableX be m'
  /-- `product()` over the components of a non-empty batch -/
  | product {R D : Nat} {m : MeasureB R D ℝ} (hR : 0 < R) : ReachableX be m → ReachableX be (m.product be)
  /-- `m.update(indices, w)`: the new state of the mutated object `m` (any index array; a full
  density is never written into a diagonal one) -/
  | update {R N D : Nat} {m : MeasureB R D ℝ} {w : MeasureB N D ℝ} {p : PdfV R D ℝ} {d : PdfV N D ℝ}
      (idx : Fin N → Fin R) (hm : m.cls.isPdf = true) (hw : w.cls.isPdf = true)
      (hp : m.asPdf = some p) (hd : w.asPdf = some d) (hdiag : p.diag = true → d.diag = true) :
      ReachableX be m → ReachableX be w → ReachableX be (p.update idx d).toMeasure
  /-- `get_marginal(dims)` for distinct coordinates in any order -/
  | getMarginal {R D K : Nat} {m : MeasureB R D ℝ} {p : PdfV R D ℝ} (dims : Fin K → Fin D)
      (hinj : Function.Injective dims) (hm : m.cls.isPdf = true) (hp : m.asPdf = some p) :
      ReachableX be m → ReachableX be (p.getMarginal be dims)
  /-- `get_density_of_linear_sum(W, b)` for `W` of full row rank -/
  | linearSum {R D K : Nat} {m : MeasureB R D ℝ} {p : PdfV R D ℝ} (W : Arr R (Mat K D ℝ))
      (b : Option (Arr R (Vec K ℝ))) (hW : ∀ r, LinearIndependent ℝ (toM (W r)).row)
      (hm : m.cls.isPdf = true) (hp : m.asPdf = some p) :
      ReachableX be m → ReachableX be (p.linearSum be W b)
  /-- `c.condition_on_x(xs)` for a well-formed conditional -/
  | conditionOnX {R Dy Dx N : Nat} (c : CondB R Dy Dx ℝ) (hc : C10.CondOK c) (xs : Arr N (Vec Dx ℝ)) :
      ReachableX be (c.conditionOnX be xs)
  | conditionOnXId {R D N : Nat} (c : CondIdB R D ℝ) (hc : C07.CondIdOK c) (xs : Arr N (Vec D ℝ)) :
      ReachableX be (c.conditionOnX be xs)
  /-- `m.condition_on(dim_y).condition_on_x(ys)` -/
  | conditionOn {R D Ky N : Nat} {m : MeasureB R D ℝ} {p : PdfV R D ℝ} (dimY : Fin Ky → Fin D)
      (ys : Arr N (Vec Ky ℝ)) (hm : m.cls.isPdf = true) (hp : m.asPdf = some p) :
      ReachableX be m → ReachableX be ((p.conditionOn be dimY).conditionOnX be ys)
  /-- `m.condition_on_explicit(dim_y, dim_x).condition_on_x(ys)` for distinct `dim_x` -/
  | conditionOnExplicit {R D Ky Kx N : Nat} {m : MeasureB R D ℝ} {p : PdfV R D ℝ}
      (dimY : Fin Ky → Fin D) (dimX : Fin Kx → Fin D) (hX : Function.Injective dimX)
      (ys : Arr N (Vec Ky ℝ)) (hm : m.cls.isPdf = true) (hp : m.asPdf = some p) :
      ReachableX be m → ReachableX be ((p.conditionOnExplicit be dimY dimX).conditionOnX be ys)
  /-- `c.affine_joint_transformation(m)` -/
  | affineJoint {Rc Rx Dy Dx : Nat} {m : MeasureB Rx Dx ℝ} {p : PdfV Rx Dx ℝ} (c : CondB Rc Dy Dx ℝ)
      (hc : C10.CondOK c) (hm : m.cls.isPdf = true) (hp : m.asPdf = some p) :
      ReachableX be m → ReachableX be (c.affineJoint be p)
  /-- `c.affine_marginal_transformation(m)` -/
  | affineMarginal {Rc Rx Dy Dx : Nat} {m : MeasureB Rx Dx ℝ} {p : PdfV Rx Dx ℝ} (c : CondB Rc Dy Dx ℝ)
      (hc : C10.CondOK c) (hm : m.cls.isPdf = true) (hp : m.asPdf = some p) :
      ReachableX be m → ReachableX be (c.affineMarginal be p)
  /-- `c.affine_conditional_transformation(m).condition_on_x(ys)` -/
  | affineConditional {Rc Rx Dy Dx N : Nat} {m : MeasureB Rx Dx ℝ} {p : PdfV Rx Dx ℝ}
      (c : CondB Rc Dy Dx ℝ) (hc : C10.CondOK c) (ys : Arr N (Vec Dy ℝ)) (hm : m.cls.isPdf = true)
      (hp : m.asPdf = some p) :
      ReachableX be m → ReachableX be ((c.affineConditional be p).conditionOnX be ys)
  /-- the same three for the identity-mean conditional classes -/
  | affineJointId {Rc Rx D : Nat} {m : MeasureB Rx D ℝ} {p : PdfV Rx D ℝ} (c : CondIdB Rc D ℝ)
      (hc : C07.CondIdOK c) (hm : m.cls.isPdf = true) (hp : m.asPdf = some p) :
      ReachableX be m → ReachableX be (c.affineJoint be p)
  | affineMarginalId {Rc Rx D : Nat} {m : MeasureB Rx D ℝ} {p : PdfV Rx D ℝ} (c : CondIdB Rc D ℝ)
      (hc : C07.CondIdOK c) (hm : m.cls.isPdf = true) (hp : m.asPdf = some p) :
      ReachableX be m → ReachableX be (c.affineMarginal be p)
  | affineConditionalId {Rc Rx D N : Nat} {m : MeasureB Rx D ℝ} {p : PdfV Rx D ℝ}
      (c : CondIdB Rc D ℝ) (hc : C07.CondIdOK c) (ys : Arr N (Vec D ℝ)) (hm : m.cls.isPdf = true)
      (hp : m.asPdf = some p) :
      ReachableX be m → ReachableX be ((c.affineConditional be p).conditionOnX be ys)

/-- every old history is an extended history -/
theorem reachableX_of_reachable {be : Backend ℝ} {m : MeasureB R D ℝ} (h : Reachable be m) :
    ReachableX be m := by
  induction h with
  | ctor cls hc L nu lb hL hd => exact .ctor cls hc L nu lb hL hd
  | pdf diag S mu L ld h => exact .pdf diag S mu L ld h
  | query q _ ih => exact .query q ih
  | normalize _ ih => exact .normalize ih
  | getDensity _ ih => exact .getDensity ih
  | multiply f uf hf _ ih => exact .multiply f uf hf ih
  | multiplyMeasure uf _ _ ihu ihw => exact .multiplyMeasure uf ihu ihw
  | hadamard f uf hf _ ih => exact .hadamard f uf hf ih
  | hadamardBF f uf hf _ ih => exact .hadamardBF f uf hf ih
  | hadamardBU f uf hf _ ih => exact .hadamardBU f uf hf ih

/-- **C04, extended**: every object reachable by a history of constructors, read-only queries,
`normalize`, `get_density`, products, `slice`, `product`, in-place `update`, marginalisation, linear
images, conditioning and affine transformations is consistent: cached covariance, both
log-determinants, mean and log-partition match the stored natural parameters.  All history
lengths, batch sizes, dimensions, index arrays. -/
theorem C04X_reachable {be : Backend ℝ} (hbe : be.Spec) {R D : Nat} {m : MeasureB R D ℝ}
    (h : ReachableX be m) : m.Inv := by
  induction h with
  | ctor cls hc L nu lb hL hd => exact inv_mk0 cls L nu lb hL hd
  | pdf diag S mu L ld h => exact C02.mkPdf_inv hbe diag S mu L ld h
  | query q _ ih => exact C04.inv_runQuery hbe ih q
  | normalize _ ih => exact inv_normalize hbe ih
  | getDensity _ ih => exact C04.getDensity_inv hbe ih
  | multiply f uf hf _ ih => exact C04.C04_multiply hbe _ f uf ih hf
  | multiplyMeasure uf _ _ ihu ihw =>
    exact C04.C04_multiply hbe _ _ uf ihu (fun r => (ihw.posDef r).posSemidef)
  | hadamard f uf hf _ ih => exact C04.C04_hadamard hbe _ f uf ih hf
  | hadamardBF f uf hf _ ih => exact C04.C04_hadamard_bcast_factor hbe _ f uf ih hf
  | hadamardBU f uf hf _ ih => exact C04.C04_hadamard_bcast_measure hbe _ f uf ih hf
  | slice idx hidx h _ ih => exact slice_inv hbe ih idx hidx h
  | product hR _ ih => exact product_inv hbe ih hR
  | update idx _ _ hp hd hdiag _ _ ihm ihw => exact update_inv ihm ihw hp hd hdiag idx
  | getMarginal dims hinj _ hp _ ih => exact getMarginal_inv hbe (viewOK_of_inv ih hp) dims hinj
  | linearSum W b hW _ hp _ ih => exact linearSum_inv hbe (viewOK_of_inv ih hp) W b hW
  | conditionOnX c hc xs => exact conditionOnX_inv hbe c hc xs
  | conditionOnXId c hc xs => exact conditionOnXId_inv hbe c hc xs
  | conditionOn dimY ys _ hp _ ih =>
    exact conditionOnX_inv hbe _ (conditionOn_condOK hbe (viewOK_of_inv ih hp) dimY) ys
  | conditionOnExplicit dimY dimX hX ys _ hp _ ih =>
    exact conditionOnX_inv hbe _ (conditionOnExplicit_condOK hbe (viewOK_of_inv ih hp) dimY dimX hX) ys
  | affineJoint c hc _ hp _ ih => exact affineJoint_inv hbe c hc (viewOK_of_inv ih hp)
  | affineMarginal c hc _ hp _ ih => exact affineMarginal_inv hbe c hc (viewOK_of_inv ih hp)
  | affineConditional c hc ys _ hp _ ih =>
    exact conditionOnX_inv hbe _ (affineConditional_condOK hbe c hc (viewOK_of_inv ih hp)) ys
  | affineJointId c hc _ hp _ ih => exact affineJointId_inv hbe c hc (viewOK_of_inv ih hp)
  | affineMarginalId c hc _ hp _ ih => exact affineMarginalId_inv hbe c hc (viewOK_of_inv ih hp)
  | affineConditionalId c hc ys _ hp _ ih =>
    exact conditionOnX_inv hbe _ (affineConditionalId_condOK hbe c hc (viewOK_of_inv ih hp)) ys

/-! ## independence of earlier read-only queries -/

section cls
variable {be : Backend ℝ} {m : MeasureB R D ℝ}

theorem ensureCov_fst_cls : (m.ensureCov be).1.cls = m.cls := by
  unfold MeasureB.ensureCov; split <;> rfl
theorem computeLnZ_fst_cls : (m.computeLnZ be).1.cls = m.cls := by
  simp [MeasureB.computeLnZ, ensureCov_fst_cls]
theorem computeMu_fst_cls : (m.computeMu be).1.cls = m.cls := by
  simp [MeasureB.computeMu, ensureCov_fst_cls]
theorem ensureLnZ_cls : (m.ensureLnZ be).cls = m.cls := by
  unfold MeasureB.ensureLnZ; split <;> simp [computeLnZ_fst_cls]
theorem ensureMu_cls : (m.ensureMu be).cls = m.cls := by
  unfold MeasureB.ensureMu; split <;> simp [computeMu_fst_cls]
theorem prepare_cls : (m.prepare be).cls = m.cls := by
  simp [MeasureB.prepare, ensureMu_cls, ensureLnZ_cls]

/-- queries never change the class -/
theorem runQuery_cls (q : Query) : (runQuery be m q).cls = m.cls := by
  cases q <;> simp only [runQuery, MeasureB.integral, MeasureB.logIntegral, MeasureB.logIntegralLight,
    MeasureB.integralLight, prepare_cls, ensureLnZ_cls, computeLnZ_fst_cls, computeMu_fst_cls]

end cls

theorem foldl_runQuery_toB (be : Backend ℝ) (u : MeasureB R D ℝ) (qs : List Query) :
    (qs.foldl (runQuery be) u).toB = u.toB := by
  induction qs generalizing u with
  | nil => rfl
  | cons q qs ih => simp only [List.foldl_cons]; rw [ih, C04.runQuery_toB]

theorem foldl_runQuery_cls (be : Backend ℝ) (u : MeasureB R D ℝ) (qs : List Query) :
    (qs.foldl (runQuery be) u).cls = u.cls := by
  induction qs generalizing u with
  | nil => rfl
  | cons q qs ih => simp only [List.foldl_cons]; rw [ih, runQuery_cls]

theorem foldl_runQuery_inv {be : Backend ℝ} (hbe : be.Spec) {u : MeasureB R D ℝ} (hu : u.Inv)
    (qs : List Query) : (qs.foldl (runQuery be) u).Inv := by
  induction qs generalizing u with
  | nil => exact hu
  | cons q qs ih => exact ih (C04.inv_runQuery hbe hu q)

/-- under the invariant the covariance cache is determined by the precision -/
theorem cov_unique {u u' : MeasureB R D ℝ} (hu : u.Inv) (hu' : u'.Inv) (hL : u'.Lambda = u.Lambda)
    {c c' : Cov R D ℝ} (hc : u.cov = some c) (hc' : u'.cov = some c') : c' = c := by
  have hS : c'.Sigma = c.Sigma := by
    ext r : 1
    apply toM_injective
    rw [(hu'.cov c' hc' r).inv, (hu.cov c hc r).inv, hL]
  have hl : c'.lnDetSigma = c.lnDetSigma := by
    ext r
    rw [(hu'.cov c' hc' r).logdet_neg, (hu.cov c hc r).logdet_neg, hL]
  cases c; cases c'
  simp only at hS hl
  rw [hS, hl]

/-- … and the mean cache by precision and `nu` -/
theorem mu_unique {u u' : MeasureB R D ℝ} (hu : u.Inv) (hu' : u'.Inv) (hL : u'.Lambda = u.Lambda)
    (hnu : u'.nu = u.nu) {mu mu' : Arr R (Vec D ℝ)} (hm : u.mu = some mu) (hm' : u'.mu = some mu') :
    mu' = mu := by
  ext r : 1
  apply toV_injective
  rw [hu'.mu mu' hm' r, hu.mu mu hm r, hL, hnu]

/-- two consistent objects of the same class with the same natural parameters — e.g. the same
object before and after any read-only queries — have slices with the same natural parameters,
whatever their cache states -/
theorem slice_toB_congr (be : Backend ℝ) {u u' : MeasureB R D ℝ} (hu : u.Inv) (hu' : u'.Inv)
    (hB : u'.toB = u.toB) (hcls : u'.cls = u.cls) (idx : Fin N → Int) {m1 m2 : MeasureB N D ℝ}
    (h1 : u.slice be idx = some m1) (h2 : u'.slice be idx = some m2) : m2.toB = m1.toB := by
  simp only [MeasureB.toB, FactorB.mk.injEq] at hB
  obtain ⟨e1, e2, e3⟩ := hB
  simp only [MeasureB.slice, hcls, e1, e2, e3] at h1 h2
  cases hp : u.cls.isPdf with
  | true =>
    simp only [hp, if_true] at h1 h2
    cases hc : u.cov with
    | none => simp [hc] at h1
    | some c =>
      cases hm : u.mu with
      | none => simp [hc, hm] at h1
      | some mu =>
        cases hc' : u'.cov with
        | none => simp [hc'] at h2
        | some c' =>
          cases hm' : u'.mu with
          | none => simp [hc', hm'] at h2
          | some mu' =>
            have ec := cov_unique hu hu' e1 hc hc'
            have em := mu_unique hu hu' e1 e2 hm hm'
            simp only [hc, hm, Option.some.injEq] at h1
            simp only [hc', hm', ec, em, Option.some.injEq] at h2
            rw [← h1, ← h2]
  | false =>
    simp only [hp, Bool.false_eq_true, if_false] at h1 h2
    have k1 : m1.toB = ⟨take u.Lambda idx nanM, take u.nu idx nanV, take u.lnBeta idx Transc.nan⟩ := by
      cases hc : u.cov with
      | none => simp only [hc, Option.some.injEq] at h1; subst h1; rfl
      | some c =>
        cases hl : u.lnDetLambda with
        | none => simp [hc, hl] at h1
        | some l => simp only [hc, hl, Option.some.injEq] at h1; subst h1; rfl
    have k2 : m2.toB = ⟨take u.Lambda idx nanM, take u.nu idx nanV, take u.lnBeta idx Transc.nan⟩ := by
      cases hc : u'.cov with
      | none => simp only [hc, Option.some.injEq] at h2; subst h2; rfl
      | some c =>
        cases hl : u'.lnDetLambda with
        | none => simp [hc, hl] at h2
        | some l => simp only [hc, hl, Option.some.injEq] at h2; subst h2; rfl
    rw [k1, k2]

/-- **C04, query independence of `slice`**: the function a slice evaluates to does not depend on
which read-only queries were made beforehand (any list of queries, any index array) -/
theorem C04X_slice_query_independence {be : Backend ℝ} (hbe : be.Spec) {u : MeasureB R D ℝ}
    (hu : u.Inv) (qs : List Query) (idx : Fin N → Int) {m1 m2 : MeasureB N D ℝ}
    (h1 : u.slice be idx = some m1) (h2 : (qs.foldl (runQuery be) u).slice be idx = some m2) :
    m2.toB = m1.toB :=
  slice_toB_congr be hu (foldl_runQuery_inv hbe hu qs) (foldl_runQuery_toB be u qs)
    (foldl_runQuery_cls be u qs) idx h1 h2

/-- the natural parameters of `product()` are the sums over the batch, whatever is cached -/
theorem product_toB (be : Backend ℝ) (m : MeasureB R D ℝ) :
    (m.product be).toB = ⟨tab fun _ => tab2 fun i j => vsum fun r => m.Lambda r i j,
      tab fun _ => tab fun i => vsum fun r => m.nu r i, tab fun _ => vsum fun r => m.lnBeta r⟩ := by
  simp only [MeasureB.product]
  split <;> simp only [MeasureB.toB, prepare_Lambda, prepare_nu, prepare_lnBeta, MeasureB.mk0]

/-- **C04, query independence of `product`** -/
theorem C04X_product_query_independence (be : Backend ℝ) (u : MeasureB R D ℝ) (qs : List Query) :
    ((qs.foldl (runQuery be) u).product be).toB = (u.product be).toB := by
  have hq := foldl_runQuery_toB be u qs
  simp only [MeasureB.toB, FactorB.mk.injEq] at hq
  obtain ⟨e1, e2, e3⟩ := hq
  rw [product_toB, product_toB, e1, e2, e3]

/-- … and the reported total mass of the product is the same real number, whether or not the
queries made the product take the `prepare` path -/
theorem C04X_product_query_independence_mass {be : Backend ℝ} (hbe : be.Spec) {u : MeasureB R D ℝ}
    (hu : u.Inv) (hR : 0 < R) (qs : List Query) :
    (((qs.foldl (runQuery be) u).product be).logIntegral be).2 0 =
      ((u.product be).logIntegral be).2 0 := by
  have h1 := product_inv hbe (foldl_runQuery_inv hbe hu qs) hR
  have h2 := product_inv hbe hu hR
  rw [C02.logIntegral_value hbe h1 0, C02.logIntegral_value hbe h2 0]
  have hB := C04X_product_query_independence be u qs
  simp only [MeasureB.toB, FactorB.mk.injEq] at hB
  obtain ⟨e1, e2, e3⟩ := hB
  rw [e1, e2, e3]

/-- the density view carries the natural parameters of the object -/
theorem asPdf_toB {m : MeasureB R D ℝ} {p : PdfV R D ℝ} (hp : m.asPdf = some p) :
    p.Lambda = m.Lambda ∧ p.nu = m.nu ∧ p.lnBeta = m.lnBeta := by
  unfold MeasureB.asPdf at hp
  cases hc : m.cov <;> cases hmu : m.mu <;> cases hz : m.lnZ <;> simp only [hc, hmu, hz] at hp
  · cases hp
  all_goals first | (cases hp; done) | skip
  simp only [Option.some.injEq] at hp
  subst hp
  exact ⟨rfl, rfl, rfl⟩

/-- the natural parameters after `update` only depend on the natural parameters of the two
operands -/
theorem update_toB_congr {p p' : PdfV R D ℝ} {d d' : PdfV N D ℝ} (idx : Fin N → Fin R)
    (h1 : p'.Lambda = p.Lambda) (h2 : p'.nu = p.nu) (h3 : p'.lnBeta = p.lnBeta)
    (k1 : d'.Lambda = d.Lambda) (k2 : d'.nu = d.nu) (k3 : d'.lnBeta = d.lnBeta) :
    (p'.update idx d').toMeasure.toB = (p.update idx d).toMeasure.toB := by
  simp only [PdfV.update, PdfV.toMeasure, MeasureB.toB, h1, h2, h3, k1, k2, k3]

/-- **C04, query independence of `update`**: read-only queries on either operand before the
in-place update do not change the function the updated object evaluates to -/
theorem C04X_update_query_independence (be : Backend ℝ) {m : MeasureB R D ℝ} {w : MeasureB N D ℝ}
    (qs qs' : List Query) {p p' : PdfV R D ℝ} {d d' : PdfV N D ℝ} (hp : m.asPdf = some p)
    (hd : w.asPdf = some d) (hp' : (qs.foldl (runQuery be) m).asPdf = some p')
    (hd' : (qs'.foldl (runQuery be) w).asPdf = some d') (idx : Fin N → Fin R) :
    (p'.update idx d').toMeasure.toB = (p.update idx d).toMeasure.toB := by
  have hq := foldl_runQuery_toB be m qs
  have hq' := foldl_runQuery_toB be w qs'
  simp only [MeasureB.toB, FactorB.mk.injEq] at hq hq'
  obtain ⟨a1, a2, a3⟩ := asPdf_toB hp
  obtain ⟨b1, b2, b3⟩ := asPdf_toB hp'
  obtain ⟨c1, c2, c3⟩ := asPdf_toB hd
  obtain ⟨d1, d2, d3⟩ := asPdf_toB hd'
  apply update_toB_congr
  · rw [b1, a1, hq.1]
  · rw [b2, a2, hq.2.1]
  · rw [b3, a3, hq.2.2]
  · rw [d1, c1, hq'.1]
  · rw [d2, c2, hq'.2.1]
  · rw [d3, c3, hq'.2.2]

/-! ## chaining helpers: which objects are usable as densities -/

theorem mkPdf_isPdf (be : Backend ℝ) (diag : Bool) (Sigma : Arr R (Mat D D ℝ)) (mu : Arr R (Vec D ℝ))
    (Lambda : Option (Arr R (Mat D D ℝ))) (lnDetSigma : Option (Arr R ℝ)) :
    (mkPdf be diag Sigma mu Lambda lnDetSigma).cls.isPdf = true := by
  cases diag <;>
  simp [mkPdf, pdfPre, MeasureB.prepare, MeasureB.ensureLnZ, MeasureB.computeLnZ, MeasureB.ensureCov,
    MeasureB.ensureMu, MeasureB.normalize, MCls.isPdf]

theorem toMeasure_asPdf (p : PdfV R D ℝ) : p.toMeasure.asPdf = some p := by
  rcases p with ⟨dg, L, nu, lb, S, ld, mu, z⟩
  cases dg <;> rfl

theorem toMeasure_isPdf (p : PdfV R D ℝ) : p.toMeasure.cls.isPdf = true := by
  rcases p with ⟨dg, L, nu, lb, S, ld, mu, z⟩
  cases dg <;> rfl

/-- `get_density` of a consistent object is an object built by the density constructor -/
theorem getDensity_eq_mkPdf {be : Backend ℝ} (hbe : be.Spec) {m : MeasureB R D ℝ} (h : m.Inv) :
    ∃ (c : Cov R D ℝ) (mu : Arr R (Vec D ℝ)), (m.getDensity be).2 = mkPdf be false c.Sigma mu (some (m.prepare be).Lambda)
      (some c.lnDetSigma) := by
  have hp := inv_prepare (be := be) hbe h
  have hmu : (m.prepare be).mu.isSome := C02.ensureMu_mu_isSome
  have hcov : (m.prepare be).cov.isSome := hp.covOfMu hmu
  simp only [MeasureB.getDensity, MeasureB.densityOf]
  cases hc : (m.prepare be).cov with
  | none => simp [hc] at hcov
  | some c =>
    cases hm : (m.prepare be).mu with
    | none => simp [hm] at hmu
    | some mu => exact ⟨c, mu, rfl⟩

theorem getDensity_isPdf {be : Backend ℝ} (hbe : be.Spec) {m : MeasureB R D ℝ} (h : m.Inv) :
    (m.getDensity be).2.cls.isPdf = true := by
  obtain ⟨c, mu, e⟩ := getDensity_eq_mkPdf hbe h
  rw [e]; exact mkPdf_isPdf be _ _ _ _ _

theorem getDensity_asPdf {be : Backend ℝ} (hbe : be.Spec) {m : MeasureB R D ℝ} (h : m.Inv) :
    ∃ d, (m.getDensity be).2.asPdf = some d ∧ d.diag = false := by
  obtain ⟨c, mu, e⟩ := getDensity_eq_mkPdf hbe h
  rw [e]
  obtain ⟨j, hj, -, -, -, -, -, -, hdg⟩ := mkPdf_asPdf (be := be) false c.Sigma mu
    (some (m.prepare be).Lambda) (some c.lnDetSigma)
  exact ⟨j, hj, by rw [hdg, mkPdf_cls]⟩

/-! ## the Option-valued steps always succeed on reachable objects

The constructors `slice`, `update`, `getMarginal`, … of `ReachableX` carry hypotheses
`m.slice be idx = some m'` / `m.asPdf = some p`.  They are never restrictive: on a reachable
object `slice` always returns, and a reachable object of a density class always has its view. -/

/-- the cache pattern of reachable objects: densities carry `Sigma`, `mu`, `lnZ`; measures carry
`ln_det_Lambda` whenever they carry `Sigma` (what `GaussianMeasure.slice` relies on) -/
structure Usable (m : MeasureB R D ℝ) : Prop where
  pdf : m.cls.isPdf = true → m.cov.isSome ∧ m.mu.isSome ∧ m.lnZ.isSome
  ldl : m.cls.isPdf = false → m.cov.isSome → m.lnDetLambda.isSome

/-- `m'` has the class of `m`, at least its caches, and `ln_det_Lambda` next to any new `Sigma` -/
structure Grow (m m' : MeasureB R D ℝ) : Prop where
  cls : m'.cls = m.cls
  cov : m.cov.isSome → m'.cov.isSome
  mu : m.mu.isSome → m'.mu.isSome
  lnZ : m.lnZ.isSome → m'.lnZ.isSome
  ldl : (m.cov.isSome → m.lnDetLambda.isSome) → (m'.cov.isSome → m'.lnDetLambda.isSome)

theorem Grow.refl (m : MeasureB R D ℝ) : Grow m m := ⟨rfl, id, id, id, id⟩

theorem Grow.trans {a b c : MeasureB R D ℝ} (h1 : Grow a b) (h2 : Grow b c) : Grow a c :=
  ⟨h2.cls.trans h1.cls, fun h => h2.cov (h1.cov h), fun h => h2.mu (h1.mu h),
    fun h => h2.lnZ (h1.lnZ h), fun h => h2.ldl (h1.ldl h)⟩

theorem Usable.grow {m m' : MeasureB R D ℝ} (h : Usable m) (g : Grow m m') : Usable m' :=
  ⟨fun hc => by
      obtain ⟨a, b, c⟩ := h.pdf (g.cls ▸ hc)
      exact ⟨g.cov a, g.mu b, g.lnZ c⟩,
    fun hc => g.ldl (h.ldl (g.cls ▸ hc))⟩

section grow
variable {be : Backend ℝ} {m : MeasureB R D ℝ}

theorem grow_ensureCov : Grow m (m.ensureCov be).1 := by
  unfold MeasureB.ensureCov
  split
  · exact Grow.refl m
  · exact ⟨rfl, by simp [MeasureB.invertLambda], by simp [MeasureB.invertLambda],
      by simp [MeasureB.invertLambda], by simp [MeasureB.invertLambda]⟩

theorem grow_computeLnZ : Grow m (m.computeLnZ be).1 := by
  refine (grow_ensureCov (be := be)).trans ⟨?_, ?_, ?_, ?_, ?_⟩ <;> simp [MeasureB.computeLnZ]

theorem grow_computeMu : Grow m (m.computeMu be).1 := by
  refine (grow_ensureCov (be := be)).trans ⟨?_, ?_, ?_, ?_, ?_⟩ <;> simp [MeasureB.computeMu]

theorem grow_ensureLnZ : Grow m (m.ensureLnZ be) := by
  unfold MeasureB.ensureLnZ
  split
  · exact Grow.refl m
  · exact grow_computeLnZ

theorem grow_ensureMu : Grow m (m.ensureMu be) := by
  unfold MeasureB.ensureMu
  split
  · exact Grow.refl m
  · exact grow_computeMu

theorem grow_prepare : Grow m (m.prepare be) := grow_ensureLnZ.trans grow_ensureMu

theorem grow_runQuery (q : Query) : Grow m (runQuery be m q) := by
  cases q <;> simp only [runQuery, MeasureB.integral, MeasureB.logIntegral, MeasureB.logIntegralLight,
    MeasureB.integralLight]
  · exact grow_prepare
  · exact grow_prepare
  · exact grow_ensureLnZ
  · exact grow_ensureLnZ
  · exact grow_prepare
  · exact grow_computeLnZ
  · exact grow_computeMu

theorem grow_normalize : Grow m (m.normalize be) := by
  have h := grow_computeLnZ (be := be) (m := m)
  exact ⟨h.cls, h.cov, h.mu, h.lnZ, h.ldl⟩

end grow

theorem usable_mkPdf (be : Backend ℝ) (diag : Bool) (Sigma : Arr R (Mat D D ℝ)) (mu : Arr R (Vec D ℝ))
    (Lambda : Option (Arr R (Mat D D ℝ))) (lnDetSigma : Option (Arr R ℝ)) :
    Usable (mkPdf be diag Sigma mu Lambda lnDetSigma) :=
  ⟨fun _ => ⟨by rw [mkPdf_cov]; rfl, by rw [mkPdf_mu]; rfl, mkPdf_lnZ_isSome _ _ _ _ _⟩,
    fun h => by rw [mkPdf_isPdf] at h; cases h⟩

theorem usable_productSel {R1 R2 Ro : Nat} (be : Backend ℝ) (su : Fin Ro → Fin R1) (sf : Fin Ro → Fin R2)
    (u : MeasureB R1 D ℝ) (f : Factor R2 D ℝ) (uf : Bool) : Usable (productSel be su sf u f uf) := by
  cases f <;> cases uf <;> cases hc : u.cov <;> refine ⟨?_, ?_⟩ <;>
    simp [productSel, finishInvert, finishCov, MeasureB.mk0, hc, MCls.isPdf]

theorem usable_slice (be : Backend ℝ) {m : MeasureB R D ℝ} (idx : Fin N → Int) {m' : MeasureB N D ℝ}
    (h : m.slice be idx = some m') : Usable m' := by
  simp only [MeasureB.slice] at h
  split at h
  · split at h
    · simp only [Option.some.injEq] at h; subst h
      exact usable_mkPdf be _ _ _ _ _
    · simp at h
  · next hp =>
    split at h
    · simp only [Option.some.injEq] at h; subst h
      exact ⟨fun hc => by simp [MeasureB.mk0, hp] at hc, by simp [MeasureB.mk0]⟩
    · split at h
      · simp at h
      · simp only [Option.some.injEq] at h; subst h
        exact ⟨fun hc => by simp [MeasureB.mk0, hp] at hc, by simp [MeasureB.mk0]⟩

theorem usable_product (be : Backend ℝ) (m : MeasureB R D ℝ) : Usable (m.product be) := by
  have hnew : Usable (MeasureB.mk0 (if m.cls.isDiag then MCls.diagMeasure else MCls.measure)
      (tab fun _ : Fin 1 => tab2 fun i j => vsum fun r => m.Lambda r i j)
      (tab fun _ => tab fun i => vsum fun r => m.nu r i)
      (tab fun _ => vsum fun r => m.lnBeta r)) := by
    refine ⟨fun hc => ?_, by simp [MeasureB.mk0]⟩
    cases hd : m.cls.isDiag <;> simp [MeasureB.mk0, hd, MCls.isPdf] at hc
  simp only [MeasureB.product]
  split
  · exact hnew.grow grow_prepare
  · exact hnew

theorem usable_toMeasure (p : PdfV R D ℝ) : Usable p.toMeasure :=
  ⟨fun _ => by simp [PdfV.toMeasure], fun h => by rw [toMeasure_isPdf] at h; cases h⟩

/-- every reachable object has the cache pattern `Usable` -/
theorem C04X_usable {be : Backend ℝ} (hbe : be.Spec) {R D : Nat} {m : MeasureB R D ℝ}
    (h : ReachableX be m) : Usable m := by
  induction h with
  | ctor cls hc L nu lb hL hd =>
    exact ⟨fun h => by simp [MeasureB.mk0, hc] at h, by simp [MeasureB.mk0]⟩
  | pdf diag S mu L ld h => exact usable_mkPdf be _ _ _ _ _
  | query q _ ih => exact ih.grow (grow_runQuery q)
  | normalize _ ih => exact ih.grow grow_normalize
  | getDensity hm _ =>
    obtain ⟨c, mu, e⟩ := getDensity_eq_mkPdf hbe (C04X_reachable hbe hm)
    rw [e]; exact usable_mkPdf be _ _ _ _ _
  | multiply f uf hf _ _ => exact usable_productSel be _ _ _ f uf
  | multiplyMeasure uf _ _ _ _ => exact usable_productSel be _ _ _ _ uf
  | hadamard f uf hf _ _ => exact usable_productSel be _ _ _ f uf
  | hadamardBF f uf hf _ _ => exact usable_productSel be _ _ _ f uf
  | hadamardBU f uf hf _ _ => exact usable_productSel be _ _ _ f uf
  | slice idx hidx h _ _ => exact usable_slice be idx h
  | product hR _ _ => exact usable_product be _
  | update idx _ _ hp hd hdiag _ _ _ _ => exact usable_toMeasure _
  | getMarginal dims hinj _ hp _ _ => exact usable_mkPdf be _ _ _ _ _
  | linearSum W b hW _ hp _ _ => cases b <;> exact usable_mkPdf be _ _ _ _ _
  | conditionOnX c hc xs => exact usable_mkPdf be _ _ _ _ _
  | conditionOnXId c hc xs => exact usable_mkPdf be _ _ _ _ _
  | conditionOn dimY ys _ hp _ _ => exact usable_mkPdf be _ _ _ _ _
  | conditionOnExplicit dimY dimX hX ys _ hp _ _ => exact usable_mkPdf be _ _ _ _ _
  | affineJoint c hc _ hp _ _ => exact usable_mkPdf be _ _ _ _ _
  | affineMarginal c hc _ hp _ _ => exact usable_mkPdf be _ _ _ _ _
  | affineConditional c hc ys _ hp _ _ => exact usable_mkPdf be _ _ _ _ _
  | affineJointId c hc _ hp _ _ => exact usable_mkPdf be _ _ _ _ _
  | affineMarginalId c hc _ hp _ _ => exact usable_mkPdf be _ _ _ _ _
  | affineConditionalId c hc ys _ hp _ _ => exact usable_mkPdf be _ _ _ _ _

/-- **`slice` never raises on a reachable object** (any index array, any class, any cache state
a history can produce) -/
theorem C04X_slice_returns {be : Backend ℝ} (hbe : be.Spec) {m : MeasureB R D ℝ}
    (h : ReachableX be m) (idx : Fin N → Int) : ∃ m', m.slice be idx = some m' := by
  have hu := C04X_usable hbe h
  simp only [MeasureB.slice]
  cases hp : m.cls.isPdf with
  | true =>
    obtain ⟨a, b, -⟩ := hu.pdf hp
    obtain ⟨c, hc⟩ := Option.isSome_iff_exists.1 a
    obtain ⟨mu, hmu⟩ := Option.isSome_iff_exists.1 b
    simp only [hc, hmu, if_true]
    exact ⟨_, rfl⟩
  | false =>
    simp only [Bool.false_eq_true, if_false]
    cases hc : m.cov with
    | none => exact ⟨_, rfl⟩
    | some c =>
      obtain ⟨l, hl⟩ := Option.isSome_iff_exists.1 (hu.ldl hp (by simp [hc]))
      simp only [hl]
      exact ⟨_, rfl⟩

/-- **a reachable object of a density class always has its density view** -/
theorem C04X_density_view {be : Backend ℝ} (hbe : be.Spec) {m : MeasureB R D ℝ}
    (h : ReachableX be m) (hcls : m.cls.isPdf = true) : ∃ p, m.asPdf = some p := by
  obtain ⟨a, b, c⟩ := (C04X_usable hbe h).pdf hcls
  obtain ⟨c', hc⟩ := Option.isSome_iff_exists.1 a
  obtain ⟨mu, hmu⟩ := Option.isSome_iff_exists.1 b
  obtain ⟨z, hz⟩ := Option.isSome_iff_exists.1 c
  simp only [MeasureB.asPdf, hc, hmu, hz]
  exact ⟨_, rfl⟩

/-! ## non-vacuity: a concrete history through old and new operations -/

/-- two unit-precision components in dimension 2 -/
noncomputable def exM0 : MeasureB 2 2 ℝ :=
  MeasureB.mk0 .measure (tab fun _ => eye) (tab fun _ => zeroV) (tab fun _ => 0)

/-- the index array `[-1, 0, -1]` (repetition, wrapped negative entries) into a batch of six -/
def exIdx : Fin 3 → Int := fun n => if n.1 = 1 then 0 else -1

/-- a two-component standard normal density (the object that is later mutated by `update`) -/
noncomputable def exT (be : Backend ℝ) : MeasureB 2 2 ℝ :=
  mkPdf be false (tab fun _ => eye) (tab fun _ => zeroV) none none

/-- constructor → `multiply` (three constant factors, `update_full`) → `log_integral` (fills `lnZ`,
`mu`) → `slice([-1, 0, -1])` (returns: the object `m3`) → `product()` (the `prepare` path: the
operand carries a covariance) → `get_density()` (a density `d`) → `t.update([1], d)` on a
two-component constructed density `t` → `get_marginal([1])` → `compute_lnZ`:
every step exists and the final object is reachable, hence consistent. -/
example (be : Backend ℝ) (hbe : be.Spec) :
    ∃ (m3 : MeasureB 3 2 ℝ) (d : PdfV 1 2 ℝ) (p : PdfV 2 2 ℝ),
      (runQuery be (exM0.multiply be (Factor.constant (tab fun _ : Fin 3 => (1 : ℝ))) true)
        .logIntegral).slice be exIdx = some m3 ∧
      ((m3.product be).getDensity be).2.asPdf = some d ∧
      (exT be).asPdf = some p ∧
      ReachableX be (runQuery be (((p.update (fun _ : Fin 1 => (1 : Fin 2)) d).getMarginal be
        (fun _ : Fin 1 => (1 : Fin 2)))) .computeLnZ) ∧
      (runQuery be (((p.update (fun _ : Fin 1 => (1 : Fin 2)) d).getMarginal be
        (fun _ : Fin 1 => (1 : Fin 2)))) .computeLnZ).Inv := by
  -- constructor, multiply, query
  have r0 : ReachableX be exM0 := by
    apply ReachableX.ctor _ rfl
    · intro r; simp only [tab_apply, toM_eye]; exact Matrix.PosDef.one
    · simp [MCls.isDiag]
  have r1 := ReachableX.multiply (be := be) (Factor.constant (tab fun _ : Fin 3 => (1 : ℝ))) true
    (by intro r; simp only [Factor.toB, tab_apply, toM_zeroM]; exact Matrix.PosSemidef.zero) r0
  have r2 := ReachableX.query .logIntegral r1
  -- slice
  have hidx : ∀ n, -((2 * 3 : Nat) : Int) ≤ exIdx n ∧ exIdx n < (2 * 3 : Nat) := by
    intro n; unfold exIdx; split <;> omega
  obtain ⟨m3, h3⟩ : ∃ m3, (runQuery be (exM0.multiply be (Factor.constant
      (tab fun _ : Fin 3 => (1 : ℝ))) true) .logIntegral).slice be exIdx = some m3 := ⟨_, rfl⟩
  have r3 := ReachableX.slice exIdx hidx h3 r2
  -- product, get_density
  have r4 := ReachableX.product (by norm_num) r3
  have r5 := ReachableX.getDensity r4
  have i4 := C04X_reachable hbe r4
  obtain ⟨d, hd, hdd⟩ := getDensity_asPdf hbe i4
  -- the density that is updated in place
  have rT : ReachableX be (exT be) := by
    apply ReachableX.pdf
    refine ⟨fun r => ?_, by simp, by simp, by simp⟩
    simp only [tab_apply, toM_eye]; exact Matrix.PosDef.one
  obtain ⟨p, hp, -, -, -, -, -, -, hpd⟩ := mkPdf_asPdf (be := be) false
    (tab fun _ : Fin 2 => (eye : Mat 2 2 ℝ)) (tab fun _ => zeroV) none none
  have r6 := ReachableX.update (fun _ : Fin 1 => (1 : Fin 2)) (mkPdf_isPdf be _ _ _ _ _)
    (getDensity_isPdf hbe i4) hp hd (by rw [hpd, mkPdf_cls]; simp) rT r5
  -- get_marginal of the mutated object, then a query
  have r7 := ReachableX.getMarginal (fun _ : Fin 1 => (1 : Fin 2))
    (fun a b _ => Subsingleton.elim a b) (toMeasure_isPdf _) (toMeasure_asPdf _) r6
  have r8 := ReachableX.query .computeLnZ r7
  exact ⟨m3, d, p, h3, hd, hp, r8, C04X_reachable hbe r8⟩

end GT.Props.C04Ext

#print axioms GT.Props.C04Ext.slice_inv
#print axioms GT.Props.C04Ext.product_inv
#print axioms GT.Props.C04Ext.update_viewOK
#print axioms GT.Props.C04Ext.update_inv
#print axioms GT.Props.C04Ext.C04X_reachable
#print axioms GT.Props.C04Ext.reachableX_of_reachable
#print axioms GT.Props.C04Ext.C04X_slice_query_independence
#print axioms GT.Props.C04Ext.C04X_product_query_independence
#print axioms GT.Props.C04Ext.C04X_product_query_independence_mass
#print axioms GT.Props.C04Ext.C04X_update_query_independence
#print axioms GT.Props.C04Ext.C04X_usable
#print axioms GT.Props.C04Ext.C04X_slice_returns
#print axioms GT.Props.C04Ext.C04X_density_view
